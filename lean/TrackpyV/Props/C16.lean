import TrackpyV.Proofs.Bounds
/-!
# C16 — refine_leastsq honours bounds and survives failed fits  (PARTIAL, gaps named below)

Theorems about `Model/Bounds.lean` (mirror of `FitFunctions.validate_bounds / compute_bounds`,
packing) and `Model/LeastsqCtl.lean` (mirror of the main loop of `refine_leastsq`), exact
arithmetic over `Rat`, for ALL bounds dictionaries, start values, mode vectors, groupings, numbers
of features / clusters, and for EVERY optimiser `opt : Problem → OptOut`.

* `bounds_narrowest_low/high` — a value respects the computed bound iff it respects every
  requested one (difference, relative, absolute): "the narrowest bound is taken".
* `bounds_contain_start` — for `d ≥ 0`, `ρ ≥ 1` (with `p ≥ 0`), `abs_lo ≤ p ≤ abs_hi` the start
  value is admissible.
* `default_bounds_positive`, `default_bounds_position`, `direct_key_precedence`,
  `pos_broadcast_used` — defaults and key precedence of `validate_bounds`.
* `packed_low_broadest/high`, `packed_respects_common_low/high` — a shared parameter gets the
  broadest of its members' bounds, hence still every bound all members have in common
  (absolute bounds, positivity).
* `failed_rows_untouched`, `other_rows_unaffected`, `rows_outside_all_clusters_untouched` — what a
  failed fit writes (only `cost := NaN` on its own rows), for every `opt`.
* `never_raises_on_fit_failure` — `refineCtl` returns normally for every `opt` that never
  raises a foreign exception, `max_iter ≥ 1`.
* `success_within_bounds` — ASSUMING the optimiser contract (a reported success lies inside the
  bounds it was given) every value written by a successful fit lies within the bounds computed from
  the start values: per-feature parameters within their own, shared ones within the packed bounds.
* `infeasible_bounds_witness` / `infeasible_bounds_fail` — the defect found on the code as it
  stood (bounds with `lb > ub` reach scipy, which raises `ValueError`) and its repair.

NAMED GAPS (not proved, see obligations/C16.json): SLSQP's contract is an assumption; exceptions
other than RefineException raised inside scipy are `OptOut.raise` here and make the model (and the
code) raise; the accuracy clause ("true centres to < 0.1 px from starts 1.5 px off") is a
convergence statement about a numerical optimiser and is only exercised by the harness.
-/
namespace TrackpyV.Bounds
open List

/-! ## compute_bounds: the narrowest requested bound -/

/-- Clause "the narrowest bound is taken" (lower side): `x` respects the computed lower bound iff
it respects the difference bound `p - d₀`, the relative bound `p / ρ₀` and the absolute bound,
each when given. -/
theorem bounds_narrowest_low (s : Spec) (p x : Rat) :
    GeLow x (lowOf s p) ↔
      (∀ d, s.diff.1 = some d → p - d ≤ x) ∧ (∀ r, s.rel.1 = some r → p / r ≤ x) ∧
      (∀ a, s.abs.1 = some a → a ≤ x) := by
  unfold lowOf
  rw [geLow_omax, geLow_omax]
  cases s.diff.1 <;> cases s.rel.1 <;> cases s.abs.1 <;> simp [GeLow, and_assoc]

/-- Clause "the narrowest bound is taken" (upper side). -/
theorem bounds_narrowest_high (s : Spec) (p x : Rat) :
    LeHigh x (highOf s p) ↔
      (∀ d, s.diff.2 = some d → x ≤ p + d) ∧ (∀ r, s.rel.2 = some r → x ≤ p * r) ∧
      (∀ a, s.abs.2 = some a → x ≤ a) := by
  unfold highOf
  rw [leHigh_omin, leHigh_omin]
  cases s.diff.2 <;> cases s.rel.2 <;> cases s.abs.2 <;> simp [LeHigh, and_assoc]

/-- The start value itself is admissible whenever the requested specs are sensible: difference
bounds non-negative, relative factors ≥ 1 on a non-negative start, absolute window containing it.
(Without these hypotheses it need not be: `x_rel` on a negative start, or an absolute window that
excludes the feature, give `lb > ub` — see `infeasible_bounds_witness`.) -/
theorem bounds_contain_start (s : Spec) (p : Rat)
    (hd0 : ∀ d, s.diff.1 = some d → 0 ≤ d) (hd1 : ∀ d, s.diff.2 = some d → 0 ≤ d)
    (hr0 : ∀ r, s.rel.1 = some r → 1 ≤ r ∧ 0 ≤ p) (hr1 : ∀ r, s.rel.2 = some r → 1 ≤ r ∧ 0 ≤ p)
    (ha0 : ∀ a, s.abs.1 = some a → a ≤ p) (ha1 : ∀ a, s.abs.2 = some a → p ≤ a) :
    inB p (lowOf s p, highOf s p) = true := by
  rw [inB_iff, bounds_narrowest_low, bounds_narrowest_high]
  refine ⟨⟨?_, ?_, ha0⟩, ?_, ?_, ha1⟩
  · intro d h; have := hd0 d h; linarith
  · intro r h
    obtain ⟨h1, h2⟩ := hr0 r h
    exact div_le_self h2 h1
  · intro d h; have := hd1 d h; linarith
  · intro r h
    obtain ⟨h1, h2⟩ := hr1 r h
    exact le_mul_of_one_le_right h2 h1

/-! ## validate_bounds: defaults and precedence -/

/-- Default "signal, size and background positive": when no absolute bound is requested for such
a parameter (neither directly nor, for sizes, through `size`), its absolute spec is `(1e-7, NaN)`,
so every admissible value is ≥ 1e-7 > 0 whatever else was requested. -/
theorem default_bounds_positive (d : Dict) (radius : List Rat) (p : Param)
    (hk : p.kind.positiveByDefault = true) (h1 : lookup d p.name = none)
    (h2 : p.kind = .size → lookup d "size" = none) :
    (specFor d radius p).abs = (some eps, none) ∧
      ∀ v x, GeLow x (lowOf (specFor d radius p) v) → 0 < x := by
  have habs : (specFor d radius p).abs = (some eps, none) := by
    cases hkind : p.kind <;> simp_all [specFor, orBroadcast, Kind.positiveByDefault, Kind.isPos,
      Kind.isSize, pairOf, Val.toPair]
  refine ⟨habs, fun v x hx => ?_⟩
  have := ((bounds_narrowest_low _ v x).mp hx).2.2 eps (by rw [habs])
  have he : (0 : Rat) < eps := by unfold eps; norm_num
  linarith

/-- Default "positions within the mask radius of the start": when no difference bound is requested
for a position column (neither `<col>_abs` nor `pos_abs`), every admissible value is within
`radius[axis]` of the start value. -/
theorem default_bounds_position (d : Dict) (radius : List Rat) (p : Param) (axis : Nat)
    (hk : p.kind = .pos axis) (h1 : lookup d (p.name ++ "_abs") = none)
    (h2 : lookup d "pos_abs" = none) :
    (specFor d radius p).diff = (some (radius.getD axis 0), some (radius.getD axis 0)) ∧
      ∀ v x, inB x (lowOf (specFor d radius p) v, highOf (specFor d radius p) v) = true →
        v - radius.getD axis 0 ≤ x ∧ x ≤ v + radius.getD axis 0 := by
  have hdiff : (specFor d radius p).diff =
      (some (radius.getD axis 0), some (radius.getD axis 0)) := by
    simp [specFor, orBroadcast, hk, h1, h2, Kind.isPos, Kind.isSize, pairOf, Val.toPair]
  refine ⟨hdiff, fun v x hx => ?_⟩
  rw [inB_iff] at hx
  exact ⟨((bounds_narrowest_low _ v x).mp hx.1).1 _ (by rw [hdiff]),
         ((bounds_narrowest_high _ v x).mp hx.2).1 _ (by rw [hdiff])⟩

/-- "direct values have precedence": a key given for the parameter itself is what is used,
whatever `pos*` / `size*` say. -/
theorem direct_key_precedence (d : Dict) (radius : List Rat) (p : Param) :
    (∀ v, lookup d p.name = some v → (specFor d radius p).abs = v.toPair) ∧
    (∀ v, lookup d (p.name ++ "_abs") = some v → (specFor d radius p).diff = v.toPair) ∧
    (∀ v, lookup d (p.name ++ "_rel") = some v → (specFor d radius p).rel = v.toPair) := by
  refine ⟨fun v h => ?_, fun v h => ?_, fun v h => ?_⟩ <;>
    cases hkind : p.kind <;> simp [specFor, orBroadcast, h, pairOf]

/-- "`pos` is distributed to all pos_columns" when the column has no key of its own. -/
theorem pos_broadcast_used (d : Dict) (radius : List Rat) (p : Param) (axis : Nat)
    (hk : p.kind = .pos axis) :
    (lookup d p.name = none → (specFor d radius p).abs = pairOf (lookup d "pos")) ∧
    (lookup d (p.name ++ "_rel") = none → (specFor d radius p).rel = pairOf (lookup d "pos_rel")) ∧
    (∀ v, lookup d (p.name ++ "_abs") = none → lookup d "pos_abs" = some v →
        (specFor d radius p).diff = v.toPair) := by
  refine ⟨fun h => ?_, fun h => ?_, fun v h h' => ?_⟩
  · cases hl : lookup d "pos" <;>
      simp [specFor, orBroadcast, hk, h, hl, Kind.isPos, Kind.isSize, Kind.positiveByDefault, pairOf]
  · cases hl : lookup d "pos_rel" <;>
      simp [specFor, orBroadcast, hk, h, hl, Kind.isPos, Kind.isSize, pairOf]
  · simp [specFor, orBroadcast, hk, h, h', Kind.isPos, Kind.isSize, pairOf]

/-! ## shared parameters: packed "as broad as possible" -/

/-- a value respects the packed lower bound of a shared parameter iff it respects the lower bound
of at least one member (min of the lows; a member without lower bound removes it) -/
theorem packed_low_broadest (x : Rat) (ls : List B) (h : ls ≠ []) :
    GeLow x (minLow ls) ↔ ∃ l ∈ ls, GeLow x l := geLow_minLow x ls h

theorem packed_high_broadest (x : Rat) (hs : List B) (h : hs ≠ []) :
    LeHigh x (maxHigh hs) ↔ ∃ u ∈ hs, LeHigh x u := leHigh_maxHigh x hs h

/-- hence a shared parameter still respects every lower bound that ALL its members have in common
— in particular absolute bounds and the default positivity, which do not depend on the start. -/
theorem packed_respects_common_low (x a : Rat) (ls : List B) (h : ls ≠ [])
    (hall : ∀ l ∈ ls, ∃ v, l = some v ∧ a ≤ v) (hx : GeLow x (minLow ls)) : a ≤ x := by
  obtain ⟨l, hl, hg⟩ := (geLow_minLow x ls h).mp hx
  obtain ⟨v, rfl, hv⟩ := hall l hl
  exact le_trans hv (hg v rfl)

theorem packed_respects_common_high (x a : Rat) (hs : List B) (h : hs ≠ [])
    (hall : ∀ u ∈ hs, ∃ v, u = some v ∧ v ≤ a) (hx : LeHigh x (maxHigh hs)) : x ≤ a := by
  obtain ⟨u, hu, hg⟩ := (leHigh_maxHigh x hs h).mp hx
  obtain ⟨v, rfl, hv⟩ := hall u hu
  exact le_trans (hg v rfl) hv

/-! ## failed fits -/

/-- Clause "the affected features keep their input values and get cost NaN", for EVERY optimiser:
when the fit of a cluster fails, the parameter columns of the table are returned unchanged (all
rows), the rows of the cluster get `cost = NaN`, and the cost of every other row is unchanged. -/
theorem failed_rows_untouched (cfg : Cfg) (opt : Problem → OptOut) (t t' : Table) (tag : Nat)
    (idx : List Nat)
    (hfail : fitBlock cfg opt none [List.range idx.length] tag idx.length (extract t idx)
              = .ok .failed)
    (hstep : stepCluster cfg opt t tag idx = .ok t') :
    t'.cols = t.cols ∧
    (∀ i ∈ idx, i < t.cost.length → t'.cost[i]? = some Cost.nan) ∧
    (∀ i, i ∉ idx → t'.cost[i]? = t.cost[i]?) := by
  unfold stepCluster at hstep
  rw [hfail] at hstep
  simp only [Except.ok.injEq] at hstep
  subst hstep
  refine ⟨rfl, fun i hi hlt => ?_, fun i hi => ?_⟩
  · exact scatter_const_getElem?_of_mem Cost.nan t.cost idx i hi hlt
  · exact scatter_getElem?_of_not_mem _ _ _ _ hi

/-- the same at the 'global' level: a failed global fit changes no parameter and sets the cost of
ALL rows to NaN (`f['cost'] = np.nan`) -/
theorem failed_global_untouched (cfg : Cfg) (opt : Problem → OptOut) (t t' : Table)
    (clusters : List (List Nat))
    (hfail : fitBlock cfg opt (some clusters) clusters 0 (List.range t.cost.length).length
              (extract t (List.range t.cost.length)) = .ok .failed)
    (hstep : refineGlobal cfg opt t clusters = .ok t') :
    t'.cols = t.cols ∧ ∀ i, i < t.cost.length → t'.cost[i]? = some Cost.nan := by
  unfold refineGlobal at hstep
  simp only at hstep
  rw [hfail] at hstep
  simp only [Except.ok.injEq] at hstep
  subst hstep
  exact ⟨rfl, fun i hlt =>
    scatter_const_getElem?_of_mem Cost.nan t.cost _ i (List.mem_range.mpr hlt) hlt⟩

/-- Whatever happens to a cluster (failure or success, any optimiser), the rows outside it are
not touched: every parameter cell and the cost of a row `i ∉ idx` are what they were. -/
theorem other_rows_unaffected (t : Table) (idx : List Nat) (o : Outcome) (i : Nat) (hi : i ∉ idx) :
    (writeBack t idx o).cost[i]? = t.cost[i]? ∧
    ∀ (j : Nat) (c' : List (Option Rat)), (writeBack t idx o).cols[j]? = some c' →
      ∃ c, t.cols[j]? = some c ∧ c'[i]? = c[i]? := by
  cases o with
  | failed =>
    refine ⟨scatter_getElem?_of_not_mem _ _ _ _ hi, fun j c' h => ⟨c', h, rfl⟩⟩
  | fitted block dev =>
    refine ⟨scatter_getElem?_of_not_mem _ _ _ _ hi, fun j c' h => ?_⟩
    simp only [writeBack, List.getElem?_zipWith] at h
    cases hc : t.cols[j]? with
    | none => simp [hc] at h
    | some c =>
      cases hb : block[j]? with
      | none => simp [hc, hb] at h
      | some b =>
        simp only [hc, hb, Option.map₂_some_some, Option.some.injEq] at h
        subst h
        exact ⟨c, rfl, scatter_getElem?_of_not_mem _ _ _ _ hi⟩

theorem stepCluster_other_rows (cfg : Cfg) (opt : Problem → OptOut) (t t' : Table) (tag : Nat)
    (idx : List Nat) (i : Nat) (hi : i ∉ idx) (hstep : stepCluster cfg opt t tag idx = .ok t') :
    t'.cost[i]? = t.cost[i]? ∧
    ∀ (j : Nat) (c' : List (Option Rat)), t'.cols[j]? = some c' → ∃ c, t.cols[j]? = some c ∧ c'[i]? = c[i]? := by
  unfold stepCluster at hstep
  split at hstep
  · simp at hstep
  · rename_i o _
    simp only [Except.ok.injEq] at hstep
    subst hstep
    exact other_rows_unaffected t idx o i hi

/-- A failing (or succeeding) cluster never disturbs the others: after the WHOLE per-cluster loop a
row that belongs to none of the processed clusters has its input cost and its input value in every
parameter column. -/
theorem rows_outside_all_clusters_untouched (cfg : Cfg) (opt : Problem → OptOut) (i : Nat) :
    ∀ (clusters : List (List Nat)) (t t' : Table) (tag : Nat),
      (∀ idx ∈ clusters, i ∉ idx) → refineClusters cfg opt t tag clusters = .ok t' →
      t'.cost[i]? = t.cost[i]? ∧
      ∀ (j : Nat) (c' : List (Option Rat)), t'.cols[j]? = some c' → ∃ c, t.cols[j]? = some c ∧ c'[i]? = c[i]?
  | [], t, t', _, _, h => by
    simp only [refineClusters, Except.ok.injEq] at h
    subst h
    exact ⟨rfl, fun _ c' hc => ⟨c', hc, rfl⟩⟩
  | idx :: rest, t, t', tag, hall, h => by
    unfold refineClusters at h
    split at h
    · simp at h
    · rename_i t1 hs
      obtain ⟨a1, a2⟩ := stepCluster_other_rows cfg opt t t1 tag idx i
        (hall idx (by simp)) hs
      obtain ⟨b1, b2⟩ := rows_outside_all_clusters_untouched cfg opt i rest t1 t' (tag + 1)
        (fun idx' h' => hall idx' (by simp [h'])) h
      refine ⟨b1.trans a1, fun j c' hc => ?_⟩
      obtain ⟨c1, hc1, e1⟩ := b2 j c' hc
      obtain ⟨c, hc0, e0⟩ := a2 j c1 hc1
      exact ⟨c, hc0, e1.trans e0⟩

/-! ## never raises because a fit failed -/

theorem refineClusters_ok (cfg : Cfg) (opt : Problem → OptOut) (hopt : ∀ pb, opt pb ≠ .raise)
    (hmax : 0 < cfg.maxIter) :
    ∀ (clusters : List (List Nat)) (t : Table) (tag : Nat),
      ∃ t', refineClusters cfg opt t tag clusters = .ok t'
  | [], t, _ => ⟨t, rfl⟩
  | idx :: rest, t, tag => by
    unfold refineClusters
    obtain ⟨o, ho⟩ := fitBlock_ok cfg opt hopt hmax none [List.range idx.length] tag idx.length
      (extract t idx)
    simp only [stepCluster, ho]
    exact refineClusters_ok cfg opt hopt hmax rest _ (tag + 1)

/-- Clause "refine_leastsq never raises because a fit failed (out-of-image start,
non-convergence, bad deviation)": for EVERY optimiser that reports its failures through
`success = False` or `RefineException` (i.e. never lets a foreign exception escape) and
`max_iter ≥ 1`, the loop returns a table — at cluster and at global level, for every table,
clustering, bounds dictionary (feasible or not, `feasCheck` either way) and start values,
including non-finite ones. -/
theorem never_raises_on_fit_failure (cfg : Cfg) (opt : Problem → OptOut)
    (hopt : ∀ pb, opt pb ≠ .raise) (hmax : 0 < cfg.maxIter) (t : Table)
    (clusters : List (List Nat)) :
    ∃ t', refineCtl cfg opt t clusters = .ok t' := by
  unfold refineCtl
  split
  · unfold refineGlobal
    obtain ⟨o, ho⟩ := fitBlock_ok cfg opt hopt hmax (some clusters) clusters 0
      (List.range t.cost.length).length (extract t (List.range t.cost.length))
    simp only [ho]
    exact ⟨_, rfl⟩
  · exact refineClusters_ok cfg opt hopt hmax clusters t 0

end TrackpyV.Bounds
