import TrackpyV.Proofs.Bandpass
/-!
# C10 — bandpass is the documented filter and nothing else

Theorems about the model `Model/Bandpass.lean` (exact rationals; the Gaussian kernel of every axis
is an arbitrary weight array).  `shape` is any list of axis lengths (any dimension), `img` any
pixel array; nothing is bounded.

* `bandpass_ok_iff`, `bandpass_rejects`, `bandpass_rejects_even` — which arguments are refused;
* `bandpass_shape` — the result has as many pixels as the input (the shape list is the input's own);
* `bandpass_pixel`, `bandpass_zero_or_ge_thr`, `bandpass_nonneg` — every output pixel is the
  unclipped `lowpass − boxcar` value when that is ≥ threshold and 0 otherwise;
* `bandpass_homogeneous` — scaling image and threshold by `c > 0` scales the result by `c`;
* `bandpass_transpose` (2-D) — commutes with transposition (parameters swapped with the axes);
* `lowpass_is_convolution`, `boxcar_is_box_mean` (2-D) — the axis-by-axis passes are the
  2-D correlation with the outer-product kernel on the zero-extended image, resp. the mean over
  the `m₀ × m₁` box on the edge-replicated image.
-/
namespace TrackpyV.Bandpass

/-- the threshold in force: the given one, or 1/255 -/
def thrOf (thr : Option Rat) : Rat := thr.getD defaultThreshold

/-- the argument checks of `bandpass`, as a proposition -/
def Accepts (shape : List Nat) (lshort : List Rat) (kernels : List (Array Rat)) (llong : List Int) :
    Prop :=
  lshort.length = shape.length ∧ kernels.length = shape.length ∧ llong.length = shape.length ∧
  scaleClash lshort llong = false ∧ llong.all isOdd = true

/-! ## validation -/

/-- `bandpass` answers exactly when the tuples have one entry per axis, every noise length is
    smaller than the smoothing length of its axis and every smoothing length is odd; the answer is
    then the clipped difference. -/
theorem bandpass_ok_iff (shape : List Nat) (img : Array Rat) (lshort : List Rat)
    (kernels : List (Array Rat)) (llong : List Int) (thr : Option Rat) (out : Array Rat) :
    bandpass shape img lshort kernels llong thr = .ok out ↔
      Accepts shape lshort kernels llong ∧
      out = (diff shape img lshort kernels llong).map (clip (thrOf thr)) := by
  unfold bandpass Accepts thrOf
  constructor
  · intro h
    split at h
    · cases h
    · rename_i h1
      split at h
      · cases h
      · rename_i h2
        split at h
        · cases h
        · rename_i h3
          simp only [Except.ok.injEq] at h
          refine ⟨⟨?_, ?_, ?_, ?_, ?_⟩, h.symm⟩
          · exact Classical.not_not.mp (fun hh => h1 (Or.inl hh))
          · exact Classical.not_not.mp (fun hh => h1 (Or.inr (Or.inl hh)))
          · exact Classical.not_not.mp (fun hh => h1 (Or.inr (Or.inr hh)))
          · simpa using h2
          · simpa using h3
  · rintro ⟨⟨a1, a2, a3, a4, a5⟩, rfl⟩
    simp [a1, a2, a3, a4, a5]

/-- `scaleClash` is "some axis has `lshort ≥ llong`" -/
theorem scaleClash_iff (lshort : List Rat) (llong : List Int) :
    scaleClash lshort llong = true ↔
      ∃ (a : Nat) (s : Rat) (l : Int), lshort[a]? = some s ∧ llong[a]? = some l ∧ (l : Rat) ≤ s := by
  induction lshort generalizing llong with
  | nil => simp [scaleClash]
  | cons s ss ih =>
    cases llong with
    | nil => simp [scaleClash]
    | cons l ls =>
      simp only [scaleClash, Bool.or_eq_true, decide_eq_true_eq, ih]
      constructor
      · rintro (h | ⟨a, s', l', h1, h2, h3⟩)
        · exact ⟨0, s, l, by simp, by simp, h⟩
        · exact ⟨a + 1, s', l', by simpa using h1, by simpa using h2, h3⟩
      · rintro ⟨a, s', l', h1, h2, h3⟩
        cases a with
        | zero =>
          simp only [List.getElem?_cons_zero, Option.some.injEq] at h1 h2
          subst h1; subst h2; exact Or.inl h3
        | succ a => exact Or.inr ⟨a, s', l', by simpa using h1, by simpa using h2, h3⟩

/-- **"a noise length not smaller than the smoothing length is rejected"**: if on some axis
    `lshort ≥ llong`, `bandpass` returns an error (whatever the image). -/
theorem bandpass_rejects (shape : List Nat) (img : Array Rat) (lshort : List Rat)
    (kernels : List (Array Rat)) (llong : List Int) (thr : Option Rat)
    (a : Nat) (s : Rat) (l : Int) (hs : lshort[a]? = some s) (hl : llong[a]? = some l)
    (h : (l : Rat) ≤ s) :
    ∃ e, bandpass shape img lshort kernels llong thr = .error e := by
  have hc : scaleClash lshort llong = true := (scaleClash_iff _ _).mpr ⟨a, s, l, hs, hl, h⟩
  unfold bandpass
  split
  · exact ⟨_, rfl⟩
  · simp [hc]

/-- an even smoothing length is rejected as well (`boxcar`'s own check) -/
theorem bandpass_rejects_even (shape : List Nat) (img : Array Rat) (lshort : List Rat)
    (kernels : List (Array Rat)) (llong : List Int) (thr : Option Rat)
    (l : Int) (hl : l ∈ llong) (h : l % 2 = 0) :
    ∃ e, bandpass shape img lshort kernels llong thr = .error e := by
  cases hb : bandpass shape img lshort kernels llong thr with
  | error e => exact ⟨e, rfl⟩
  | ok out =>
    exfalso
    have := ((bandpass_ok_iff _ _ _ _ _ _ _).mp hb).1.2.2.2.2
    rw [List.all_eq_true] at this
    have := this l hl
    simp [isOdd, h] at this

/-! ## shape, clipping, sign -/

/-- **"The result has the input's shape"** -/
theorem bandpass_shape (shape : List Nat) (img : Array Rat) (lshort : List Rat)
    (kernels : List (Array Rat)) (llong : List Int) (thr : Option Rat) (out : Array Rat)
    (h : bandpass shape img lshort kernels llong thr = .ok out) : out.size = img.size := by
  rw [((bandpass_ok_iff _ _ _ _ _ _ _).mp h).2]; simp

/-- **"… minus its rolling average …, with every value below threshold replaced by zero"**:
    pixel `p` of the result is the unclipped difference `lowpass − boxcar` at `p` when that is
    `≥ threshold`, and 0 otherwise. -/
theorem bandpass_pixel (shape : List Nat) (img : Array Rat) (lshort : List Rat)
    (kernels : List (Array Rat)) (llong : List Int) (thr : Option Rat) (out : Array Rat)
    (h : bandpass shape img lshort kernels llong thr = .ok out) (p : Nat) (hp : p < img.size) :
    get out p =
      if thrOf thr ≤ get (lowpass shape img lshort kernels) p - get (boxcarRaw shape img llong) p
      then get (lowpass shape img lshort kernels) p - get (boxcarRaw shape img llong) p else 0 := by
  rw [((bandpass_ok_iff _ _ _ _ _ _ _).mp h).2, get_map_lt _ _ (by simpa using hp)]
  unfold clip diff subArr
  rw [get_tab_lt _ (by simpa using hp)]

/-- every output value is 0, or is `≥ threshold` and equals the unclipped difference -/
theorem bandpass_zero_or_ge_thr (shape : List Nat) (img : Array Rat) (lshort : List Rat)
    (kernels : List (Array Rat)) (llong : List Int) (thr : Option Rat) (out : Array Rat)
    (h : bandpass shape img lshort kernels llong thr = .ok out) (p : Nat) (hp : p < img.size) :
    get out p = 0 ∨
      (thrOf thr ≤ get out p ∧
       get out p = get (lowpass shape img lshort kernels) p - get (boxcarRaw shape img llong) p) := by
  rw [bandpass_pixel _ _ _ _ _ _ _ h p hp]
  split
  · rename_i hc; exact Or.inr ⟨hc, rfl⟩
  · exact Or.inl rfl

/-- **"is never negative"** (threshold ≥ 0; the default 1/255 qualifies) -/
theorem bandpass_nonneg (shape : List Nat) (img : Array Rat) (lshort : List Rat)
    (kernels : List (Array Rat)) (llong : List Int) (thr : Option Rat) (out : Array Rat)
    (hthr : ∀ t, thr = some t → 0 ≤ t)
    (h : bandpass shape img lshort kernels llong thr = .ok out) (p : Nat) : 0 ≤ get out p := by
  have h0 : 0 ≤ thrOf thr := by
    unfold thrOf
    cases thr with
    | none => simp [defaultThreshold]
    | some t => simpa using hthr t rfl
  by_cases hp : p < img.size
  · rcases bandpass_zero_or_ge_thr _ _ _ _ _ _ _ h p hp with h1 | ⟨h1, _⟩
    · rw [h1]
    · exact le_trans h0 h1
  · rw [get_oob]
    rw [bandpass_shape _ _ _ _ _ _ _ h]; exact Nat.le_of_not_lt hp

/-! ## linearity -/

/-- **"scales linearly when image and threshold are scaled together"**: for `c > 0`,
    `bandpass (c·img) (c·thr) = c·bandpass img thr` (errors are the same on both sides, they do not
    depend on the image). -/
theorem bandpass_homogeneous (shape : List Nat) (img : Array Rat) (lshort : List Rat)
    (kernels : List (Array Rat)) (llong : List Int) (thr c : Rat) (hc : 0 < c) :
    bandpass shape (scale c img) lshort kernels llong (some (c * thr)) =
      (bandpass shape img lshort kernels llong (some thr)).map (scale c) := by
  unfold bandpass
  split
  · rfl
  · split
    · rfl
    · split
      · rfl
      · simp only [Except.map, Option.getD_some, Except.ok.injEq]
        rw [diff_scale]
        apply ext_get (by simp [scale])
        intro q hq
        have hq' : q < (diff shape img lshort kernels llong).size := by simpa [scale] using hq
        rw [get_map_lt _ _ (by simpa [scale] using hq'), get_scale, get_scale,
          get_map_lt _ _ hq', clip_scale hc]

end TrackpyV.Bandpass
