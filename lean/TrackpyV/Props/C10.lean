import TrackpyV.Proofs.Bandpass
import TrackpyV.Proofs.BandpassND
/-!
# C10 — bandpass is the documented filter and nothing else

Theorems about the model `Model/Bandpass.lean` (exact rationals; the Gaussian kernel of every axis
is an arbitrary weight array).  `shape` is any list of axis lengths (any dimension), `img` any
pixel array; nothing is bounded.

* `bandpass_ok_iff`, `bandpass_rejects`, `bandpass_rejects_even` — which arguments are refused;
* `bandpass_shape` — the result has as many pixels as the input (the shape list is the input's own);
* `bandpass_pixel`, `bandpass_zero_or_ge_thr`, `bandpass_nonneg` — every output pixel is the
  unclipped `lowpass − boxcar` value when that is ≥ threshold and 0 otherwise;
* `bandpass_homogeneous` — scaling image and threshold by `c > 0` scales the result by `c`;
* `bandpass_transpose` (2-D, executable transpose), `bandpass_swap_axes` (any dimension, two
  adjacent axes), `bandpass_permute_axes(_pixel)` (any product of such exchanges) — commutes with
  transposition (parameters exchanged with the axes);
* `lowpass_is_convolution*`, `boxcar_is_box_mean*` (2-D explicit double sums; `_nd`: any
  dimension) — the axis-by-axis passes are the correlation with the outer-product kernel on the
  zero-extended image, resp. the mean over the `Π mₐ` box on the edge-replicated image;
* `bandpass_is_documented_filter` — the first sentence of the property, any dimension.
-/
namespace TrackpyV.Bandpass

/-- the threshold in force: the given one, or 1/255 -/
def thrOf (thr : Option Rat) : Rat := thr.getD defaultThreshold

/-- the argument checks of `bandpass`, as a proposition -/
def Accepts (shape : List Nat) (lshort : List Rat) (kernels : List (Array Rat)) (llong : List Int) :
    Prop :=
  lshort.length = shape.length ∧ kernels.length = shape.length ∧ llong.length = shape.length ∧
  scaleClash lshort llong = false ∧ llong.all isOdd = true

/-! ## validation -/

/-- `bandpass` answers exactly when the tuples have one entry per axis, every noise length is
    smaller than the smoothing length of its axis and every smoothing length is odd; the answer is
    then the clipped difference. -/
theorem bandpass_ok_iff (shape : List Nat) (img : Array Rat) (lshort : List Rat)
    (kernels : List (Array Rat)) (llong : List Int) (thr : Option Rat) (out : Array Rat) :
    bandpass shape img lshort kernels llong thr = .ok out ↔
      Accepts shape lshort kernels llong ∧
      out = (diff shape img lshort kernels llong).map (clip (thrOf thr)) := by
  unfold bandpass Accepts thrOf
  constructor
  · intro h
    split at h
    · cases h
    · rename_i h1
      split at h
      · cases h
      · rename_i h2
        split at h
        · cases h
        · rename_i h3
          simp only [Except.ok.injEq] at h
          refine ⟨⟨?_, ?_, ?_, ?_, ?_⟩, h.symm⟩
          · exact Classical.not_not.mp (fun hh => h1 (Or.inl hh))
          · exact Classical.not_not.mp (fun hh => h1 (Or.inr (Or.inl hh)))
          · exact Classical.not_not.mp (fun hh => h1 (Or.inr (Or.inr hh)))
          · simpa using h2
          · simpa using h3
  · rintro ⟨⟨a1, a2, a3, a4, a5⟩, rfl⟩
    simp [a1, a2, a3, a4, a5]

/-- `scaleClash` is "some axis has `lshort ≥ llong`" -/
theorem scaleClash_iff (lshort : List Rat) (llong : List Int) :
    scaleClash lshort llong = true ↔
      ∃ (a : Nat) (s : Rat) (l : Int), lshort[a]? = some s ∧ llong[a]? = some l ∧ (l : Rat) ≤ s := by
  induction lshort generalizing llong with
  | nil => simp [scaleClash]
  | cons s ss ih =>
    cases llong with
    | nil => simp [scaleClash]
    | cons l ls =>
      simp only [scaleClash, Bool.or_eq_true, decide_eq_true_eq, ih]
      constructor
      · rintro (h | ⟨a, s', l', h1, h2, h3⟩)
        · exact ⟨0, s, l, by simp, by simp, h⟩
        · exact ⟨a + 1, s', l', by simpa using h1, by simpa using h2, h3⟩
      · rintro ⟨a, s', l', h1, h2, h3⟩
        cases a with
        | zero =>
          simp only [List.getElem?_cons_zero, Option.some.injEq] at h1 h2
          subst h1; subst h2; exact Or.inl h3
        | succ a => exact Or.inr ⟨a, s', l', by simpa using h1, by simpa using h2, h3⟩

/-- **"a noise length not smaller than the smoothing length is rejected"**: if on some axis
    `lshort ≥ llong`, `bandpass` returns an error (whatever the image). -/
theorem bandpass_rejects (shape : List Nat) (img : Array Rat) (lshort : List Rat)
    (kernels : List (Array Rat)) (llong : List Int) (thr : Option Rat)
    (a : Nat) (s : Rat) (l : Int) (hs : lshort[a]? = some s) (hl : llong[a]? = some l)
    (h : (l : Rat) ≤ s) :
    ∃ e, bandpass shape img lshort kernels llong thr = .error e := by
  have hc : scaleClash lshort llong = true := (scaleClash_iff _ _).mpr ⟨a, s, l, hs, hl, h⟩
  unfold bandpass
  split
  · exact ⟨_, rfl⟩
  · simp

/-- an even smoothing length is rejected as well (`boxcar`'s own check) -/
theorem bandpass_rejects_even (shape : List Nat) (img : Array Rat) (lshort : List Rat)
    (kernels : List (Array Rat)) (llong : List Int) (thr : Option Rat)
    (l : Int) (hl : l ∈ llong) (h : l % 2 = 0) :
    ∃ e, bandpass shape img lshort kernels llong thr = .error e := by
  cases hb : bandpass shape img lshort kernels llong thr with
  | error e => exact ⟨e, rfl⟩
  | ok out =>
    exfalso
    have := ((bandpass_ok_iff _ _ _ _ _ _ _).mp hb).1.2.2.2.2
    rw [List.all_eq_true] at this
    have := this l hl
    simp [isOdd, h] at this

/-! ## shape, clipping, sign -/

/-- **"The result has the input's shape"** -/
theorem bandpass_shape (shape : List Nat) (img : Array Rat) (lshort : List Rat)
    (kernels : List (Array Rat)) (llong : List Int) (thr : Option Rat) (out : Array Rat)
    (h : bandpass shape img lshort kernels llong thr = .ok out) : out.size = img.size := by
  rw [((bandpass_ok_iff _ _ _ _ _ _ _).mp h).2]; simp

/-- **"… minus its rolling average …, with every value below threshold replaced by zero"**:
    pixel `p` of the result is the unclipped difference `lowpass − boxcar` at `p` when that is
    `≥ threshold`, and 0 otherwise. -/
theorem bandpass_pixel (shape : List Nat) (img : Array Rat) (lshort : List Rat)
    (kernels : List (Array Rat)) (llong : List Int) (thr : Option Rat) (out : Array Rat)
    (h : bandpass shape img lshort kernels llong thr = .ok out) (p : Nat) (hp : p < img.size) :
    get out p =
      if thrOf thr ≤ get (lowpass shape img lshort kernels) p - get (boxcarRaw shape img llong) p
      then get (lowpass shape img lshort kernels) p - get (boxcarRaw shape img llong) p else 0 := by
  rw [((bandpass_ok_iff _ _ _ _ _ _ _).mp h).2, get_map_lt _ _ (by simpa using hp)]
  unfold clip diff subArr
  rw [get_tab_lt _ (by simpa using hp)]

/-- every output value is 0, or is `≥ threshold` and equals the unclipped difference -/
theorem bandpass_zero_or_ge_thr (shape : List Nat) (img : Array Rat) (lshort : List Rat)
    (kernels : List (Array Rat)) (llong : List Int) (thr : Option Rat) (out : Array Rat)
    (h : bandpass shape img lshort kernels llong thr = .ok out) (p : Nat) (hp : p < img.size) :
    get out p = 0 ∨
      (thrOf thr ≤ get out p ∧
       get out p = get (lowpass shape img lshort kernels) p - get (boxcarRaw shape img llong) p) := by
  rw [bandpass_pixel _ _ _ _ _ _ _ h p hp]
  split
  · rename_i hc; exact Or.inr ⟨hc, rfl⟩
  · exact Or.inl rfl

/-- **"is never negative"** (threshold ≥ 0; the default 1/255 qualifies) -/
theorem bandpass_nonneg (shape : List Nat) (img : Array Rat) (lshort : List Rat)
    (kernels : List (Array Rat)) (llong : List Int) (thr : Option Rat) (out : Array Rat)
    (hthr : ∀ t, thr = some t → 0 ≤ t)
    (h : bandpass shape img lshort kernels llong thr = .ok out) (p : Nat) : 0 ≤ get out p := by
  have h0 : 0 ≤ thrOf thr := by
    unfold thrOf
    cases thr with
    | none => simp [defaultThreshold]
    | some t => simpa using hthr t rfl
  by_cases hp : p < img.size
  · rcases bandpass_zero_or_ge_thr _ _ _ _ _ _ _ h p hp with h1 | ⟨h1, _⟩
    · rw [h1]
    · exact le_trans h0 h1
  · rw [get_oob]
    rw [bandpass_shape _ _ _ _ _ _ _ h]; exact Nat.le_of_not_lt hp

/-! ## linearity -/

/-- **"scales linearly when image and threshold are scaled together"**: for `c > 0`,
    `bandpass (c·img) (c·thr) = c·bandpass img thr` (errors are the same on both sides, they do not
    depend on the image). -/
theorem bandpass_homogeneous (shape : List Nat) (img : Array Rat) (lshort : List Rat)
    (kernels : List (Array Rat)) (llong : List Int) (thr c : Rat) (hc : 0 < c) :
    bandpass shape (scale c img) lshort kernels llong (some (c * thr)) =
      (bandpass shape img lshort kernels llong (some thr)).map (scale c) := by
  unfold bandpass
  split
  · rfl
  · split
    · rfl
    · split
      · rfl
      · simp only [Except.map, Option.getD_some, Except.ok.injEq]
        rw [diff_scale]
        apply ext_get (by simp [scale])
        intro q hq
        have hq' : q < (diff shape img lshort kernels llong).size := by simpa [scale] using hq
        rw [get_map_lt _ _ (by simpa [scale] using hq'), get_scale, get_scale,
          get_map_lt _ _ hq', clip_scale hc]


/-- the default threshold of a float image is 1/255: omitting it is the same as passing it, so
    the linearity statement covers the default as well (`c/255` on the scaled side) -/
theorem bandpass_default_thr (shape : List Nat) (img : Array Rat) (lshort : List Rat)
    (kernels : List (Array Rat)) (llong : List Int) :
    bandpass shape img lshort kernels llong none =
      bandpass shape img lshort kernels llong (some (1 / 255)) := rfl

/-! ## transposition (2-D, executable transpose)

The statement for any dimension is `bandpass_swap_axes` below (exchange of two adjacent axes,
relation `IsSwap` between the two images).
and `bandpass_permute_axes` (any product of such exchanges).  That these products exhaust the
permutations of the axes is the standard fact that adjacent transpositions generate the
symmetric group; it is not formalised here (the harness decomposes its random 3-D axis
permutations into such products implicitly by calling numpy's `transpose`).
-/

theorem lowpass_transpose {H W : Nat} {img : Array Rat} (hsz : img.size = H * W)
    (s0 s1 : Rat) (k0 k1 : Array Rat) :
    lowpass [W, H] (transpose2 H W img) [s1, s0] [k1, k0] =
      transpose2 H W (lowpass [H, W] img [s0, s1] [k0, k1]) := by
  unfold lowpass
  simp only [zipFilt]
  exact passes2_transpose (srcOK_lowFilt s0 k0) (srcOK_lowFilt s1 k1) hsz

theorem boxcar_transpose {H W : Nat} {img : Array Rat} (hsz : img.size = H * W) (l0 l1 : Int) :
    boxcarRaw [W, H] (transpose2 H W img) [l1, l0] =
      transpose2 H W (boxcarRaw [H, W] img [l0, l1]) := by
  unfold boxcarRaw
  simp only [List.map]
  exact passes2_transpose (srcOK_boxFilt l0) (srcOK_boxFilt l1) hsz

/-- **"commutes with transposition"** (2-D): the bandpass of the transposed image, with the
    per-axis parameters swapped along with the axes, is the transpose of the bandpass; argument
    errors are the same on both sides. -/
theorem bandpass_transpose (H W : Nat) (img : Array Rat) (hsz : img.size = H * W)
    (s0 s1 : Rat) (k0 k1 : Array Rat) (l0 l1 : Int) (thr : Option Rat) :
    bandpass [W, H] (transpose2 H W img) [s1, s0] [k1, k0] [l1, l0] thr =
      (bandpass [H, W] img [s0, s1] [k0, k1] [l0, l1] thr).map (transpose2 H W) := by
  have hclash : scaleClash [s1, s0] [l1, l0] = scaleClash [s0, s1] [l0, l1] := by
    simp only [scaleClash, Bool.or_false]; exact Bool.or_comm _ _
  have hodd : [l1, l0].all isOdd = [l0, l1].all isOdd := by
    simp only [List.all_cons, List.all_nil, Bool.and_true]; exact Bool.and_comm _ _
  unfold bandpass
  rw [hclash, hodd]
  simp only [List.length_cons, List.length_nil, ne_eq, not_true_eq_false, or_self, if_false]
  split
  · rfl
  · split
    · rfl
    · simp only [Except.map, Except.ok.injEq]
      unfold diff
      rw [lowpass_transpose hsz, boxcar_transpose hsz,
        subArr_transpose2 (by simpa using hsz) (by simpa using hsz),
        map_transpose2 _ (clip_zero _)]

/-! ## the axis-by-axis passes are the documented filters: 2-D, explicit double sums

(the statements for any dimension are `lowpass_is_convolution_nd`, `boxcar_is_box_mean_nd`,
`bandpass_is_documented_filter` below) -/

/-- **"the image convolved with the truncated normalised Gaussian of width lshort (zero beyond the
    border)"**, 2-D, every combination of smoothed / skipped axes: pixel `(r, c)` of `lowpass` is
    the 2-D correlation of the zero-extended image with the outer product `k₀ ⊗ k₁` of the
    per-axis kernels in force, centred at `⌊len/2⌋` (for the symmetric Gaussian kernels
    correlation and convolution coincide: `lowpass_is_convolution_symm`). -/
theorem lowpass_is_convolution_gen (H W : Nat) (img : Array Rat) (hsz : img.size = H * W)
    (s0 s1 : Rat) (k0 k1 : Array Rat) (r c : Nat) (hr : r < H) (hc : c < W) :
    px W (lowpass [H, W] img [s0, s1] [k0, k1]) r c =
      sumTo (effKernel s0 k0).size (fun a => sumTo (effKernel s1 k1).size (fun b =>
        get (effKernel s0 k0) a * get (effKernel s1 k1) b *
          pxZ H W img ((r : Int) + (a : Int) - (((effKernel s0 k0).size / 2 : Nat) : Int))
                      ((c : Int) + (b : Int) - (((effKernel s1 k1).size / 2 : Nat) : Int)))) := by
  unfold lowpass
  simp only [zipFilt]
  rw [px_passes2 (srcOK_lowFilt s1 k1) hsz hr hc, lowFilt_apply _ _ hc]
  simp only [lowFilt_apply _ _ hr]
  generalize effKernel s0 k0 = k0
  generalize effKernel s1 k1 = k1
  rw [apply_comm]
  unfold Filt.apply
  apply sumTo_congr; intro a _
  rw [sample_corr, show (corr k0).wt a = get k0 a from rfl]
  unfold pxZ extZ
  split
  · rw [← sumTo_mul_left]
    apply sumTo_congr; intro b _
    rw [sample_corr, show (corr k1).wt b = get k1 b from rfl]
    unfold extZ
    split <;> ring
  · simp [sumTo_zero]

/-- the same with both axes smoothed (`σ₀, σ₁ > 0`): the kernels in force are the given ones -/
theorem lowpass_is_convolution (H W : Nat) (img : Array Rat) (hsz : img.size = H * W)
    (s0 s1 : Rat) (hs0 : 0 < s0) (hs1 : 0 < s1) (k0 k1 : Array Rat) (r c : Nat)
    (hr : r < H) (hc : c < W) :
    px W (lowpass [H, W] img [s0, s1] [k0, k1]) r c =
      sumTo k0.size (fun a => sumTo k1.size (fun b =>
        get k0 a * get k1 b *
          pxZ H W img ((r : Int) + (a : Int) - ((k0.size / 2 : Nat) : Int))
                      ((c : Int) + (b : Int) - ((k1.size / 2 : Nat) : Int)))) := by
  have := lowpass_is_convolution_gen H W img hsz s0 s1 k0 k1 r c hr hc
  simpa only [effKernel, gt_iff_lt, hs0, hs1, if_true] using this

/-- a kernel that reads the same in both directions, with a centre tap (odd length) — what
    `gaussian_kernel` produces -/
def SymmOdd (w : Array Rat) : Prop :=
  w.size % 2 = 1 ∧ ∀ j, j < w.size → get w (w.size - 1 - j) = get w j

/-- the same with the word "convolved" taken literally: for symmetric odd-length kernels the
    correlation above is the convolution `Σ k₀[a]·k₁[b]·img(r − (a − c₀), c − (b − c₁))`. -/
theorem lowpass_is_convolution_symm (H W : Nat) (img : Array Rat) (hsz : img.size = H * W)
    (s0 s1 : Rat) (hs0 : 0 < s0) (hs1 : 0 < s1) (k0 k1 : Array Rat)
    (hk0 : SymmOdd k0) (hk1 : SymmOdd k1) (r c : Nat) (hr : r < H) (hc : c < W) :
    px W (lowpass [H, W] img [s0, s1] [k0, k1]) r c =
      sumTo k0.size (fun a => sumTo k1.size (fun b =>
        get k0 a * get k1 b *
          pxZ H W img ((r : Int) - ((a : Int) - ((k0.size / 2 : Nat) : Int)))
                      ((c : Int) - ((b : Int) - ((k1.size / 2 : Nat) : Int))))) := by
  rw [lowpass_is_convolution H W img hsz s0 s1 hs0 hs1 k0 k1 r c hr hc]
  rw [← sumTo_reflect k0.size]
  apply sumTo_congr; intro a ha
  rw [← sumTo_reflect k1.size]
  apply sumTo_congr; intro b hb
  rw [hk0.2 a ha, hk1.2 b hb]
  have e0 : ((r : Int) + ((k0.size - 1 - a : Nat) : Int) - ((k0.size / 2 : Nat) : Int)) =
      (r : Int) - ((a : Int) - ((k0.size / 2 : Nat) : Int)) := by have := hk0.1; omega
  have e1 : ((c : Int) + ((k1.size - 1 - b : Nat) : Int) - ((k1.size / 2 : Nat) : Int)) =
      (c : Int) - ((b : Int) - ((k1.size / 2 : Nat) : Int)) := by have := hk1.1; omega
  rw [e0, e1]

/-- **"its rolling average over a box of side llong (edge values repeated)"**, 2-D, every
    combination of averaged / skipped axes: pixel `(r, c)` of `boxcar` is the mean of the
    `m₀ × m₁` pixels of the edge-replicated image in the box centred on `(r, c)`, `mₐ` the side in
    force on axis `a`. -/
theorem boxcar_is_box_mean_gen (H W : Nat) (img : Array Rat) (hsz : img.size = H * W)
    (l0 l1 : Int) (r c : Nat) (hr : r < H) (hc : c < W) :
    px W (boxcarRaw [H, W] img [l0, l1]) r c =
      sumTo (effSize l0) (fun a => sumTo (effSize l1) (fun b =>
        pxC H W img ((r : Int) + (a : Int) - ((effSize l0 / 2 : Nat) : Int))
                    ((c : Int) + (b : Int) - ((effSize l1 / 2 : Nat) : Int))))
        / ((effSize l0 : Rat) * (effSize l1 : Rat)) := by
  unfold boxcarRaw
  simp only [List.map]
  rw [px_passes2 (srcOK_boxFilt l1) hsz hr hc, boxFilt_apply _ hc]
  simp only [boxFilt_apply _ hr]
  generalize effSize l0 = m0
  generalize effSize l1 = m1
  rw [apply_comm]
  unfold Filt.apply
  simp only [sample_unif, show ∀ m j, (unif m).wt j = 1 / (m : Rat) from fun _ _ => rfl,
    show ∀ m, (unif m).K = m from fun _ => rfl]
  rw [sumTo_mul_left]
  have : ∀ a : Nat, sumTo m1 (fun b => 1 / (m1 : Rat) *
        px W img (clampI H ((r : Int) + (a : Int) - ((m0 / 2 : Nat) : Int)))
          (clampI W ((c : Int) + (b : Int) - ((m1 / 2 : Nat) : Int)))) =
      1 / (m1 : Rat) * sumTo m1 (fun b =>
        pxC H W img ((r : Int) + (a : Int) - ((m0 / 2 : Nat) : Int))
          ((c : Int) + (b : Int) - ((m1 / 2 : Nat) : Int))) := by
    intro a; rw [sumTo_mul_left]; rfl
  simp only [this]
  rw [sumTo_mul_left]
  simp only [div_eq_mul_inv, mul_inv]
  ring

/-- the same with both sizes `> 1` -/
theorem boxcar_is_box_mean (H W : Nat) (img : Array Rat) (hsz : img.size = H * W)
    (l0 l1 : Int) (hl0 : 1 < l0) (hl1 : 1 < l1) (r c : Nat) (hr : r < H) (hc : c < W) :
    px W (boxcarRaw [H, W] img [l0, l1]) r c =
      sumTo l0.toNat (fun a => sumTo l1.toNat (fun b =>
        pxC H W img ((r : Int) + (a : Int) - ((l0.toNat / 2 : Nat) : Int))
                    ((c : Int) + (b : Int) - ((l1.toNat / 2 : Nat) : Int))))
        / ((l0.toNat : Rat) * (l1.toNat : Rat)) := by
  have := boxcar_is_box_mean_gen H W img hsz l0 l1 r c hr hc
  simpa only [effSize, gt_iff_lt, hl0, hl1, if_true] using this

/-! ## any dimension

`pxN sh img ix` is pixel `ix` (a multi-index valid for the shape `sh`) of the C-ordered image. -/

/-- **"the image convolved with the truncated normalised Gaussian … (zero beyond the border)"**,
    any dimension: pixel `ix` of `lowpass` is the n-fold sum
    `Σ_{a₀} k₀[a₀] Σ_{a₁} k₁[a₁] … img(i₀ + a₀ − c₀, i₁ + a₁ − c₁, …)` over the zero-extended image
    (`corrSum`), with the kernels in force on the axes. -/
theorem lowpass_is_convolution_nd (sh : List Nat) (img : Array Rat) (hsz : img.size = sh.prod)
    (sigma : List Rat) (kernels : List (Array Rat)) (ix : List Nat) (hv : Valid sh ix) :
    pxN sh (lowpass sh img sigma kernels) ix =
      corrSum (effKernels sigma kernels) sh (pxN sh img) ix := by
  unfold lowpass
  rw [pxN_passes sh _ (srcOK_zipFilt sigma kernels) img hsz ix hv, sem_lowpass sh _ _ _ ix hv]

/-- **"its rolling average over a box of side llong (edge values repeated)"**, any dimension:
    pixel `ix` of `boxcar` is the sum over the `Π mₐ` box of the edge-replicated image (`boxSum`)
    divided by `Π mₐ`, with the sides in force on the axes. -/
theorem boxcar_is_box_mean_nd (sh : List Nat) (img : Array Rat) (hsz : img.size = sh.prod)
    (size : List Int) (hl : size.length ≤ sh.length) (ix : List Nat) (hv : Valid sh ix) :
    pxN sh (boxcarRaw sh img size) ix =
      boxSum (effSizes size) sh (pxN sh img) ix / prodQ (effSizes size) := by
  unfold boxcarRaw
  rw [pxN_passes sh _ (srcOK_mapBox size) img hsz ix hv, sem_boxcar sh _ _ ix hv hl]

/-- **the first sentence of the property, any dimension**: every pixel of an accepted `bandpass`
    is the n-D Gaussian correlation of the zero-extended image minus the box mean of the
    edge-replicated image when that difference is `≥ threshold`, and 0 otherwise. -/
theorem bandpass_is_documented_filter (sh : List Nat) (img : Array Rat) (hsz : img.size = sh.prod)
    (lshort : List Rat) (kernels : List (Array Rat)) (llong : List Int) (thr : Option Rat)
    (out : Array Rat) (h : bandpass sh img lshort kernels llong thr = .ok out)
    (ix : List Nat) (hv : Valid sh ix) :
    pxN sh out ix =
      clip (thrOf thr)
        (corrSum (effKernels lshort kernels) sh (pxN sh img) ix -
         boxSum (effSizes llong) sh (pxN sh img) ix / prodQ (effSizes llong)) := by
  have hacc := ((bandpass_ok_iff _ _ _ _ _ _ _).mp h).1
  have hp : flat sh ix < img.size := by rw [hsz]; exact flat_lt hv
  have := bandpass_pixel sh img lshort kernels llong thr out h (flat sh ix) hp
  unfold pxN at *
  rw [this]
  have e1 := lowpass_is_convolution_nd sh img hsz lshort kernels ix hv
  have e2 := boxcar_is_box_mean_nd sh img hsz llong (Nat.le_of_eq hacc.2.2.1) ix hv
  unfold pxN at e1 e2
  rw [e1, e2]
  rfl

/-- how two results correspond when axes `k`, `k+1` are exchanged: same error, or
    axis-exchanged images -/
def SwapRel (k : Nat) (sh : List Nat) : Except Err (Array Rat) → Except Err (Array Rat) → Prop
  | .ok out, .ok out' => IsSwap k sh out out'
  | .error e, .error e' => e = e'
  | .ok _, .error _ => False
  | .error _, .ok _ => False

/-- **"commutes with transposition"**, any dimension, for the exchange of two adjacent axes (every
    permutation of the axes is a product of such exchanges): if `img'` is `img` with axes `k`, `k+1`
    exchanged, then `bandpass` of `img'` with all per-axis parameters exchanged likewise is
    `bandpass` of `img` with axes `k`, `k+1` exchanged, pixel for pixel (and refuses the same
    arguments). -/
theorem bandpass_swap_axes (k : Nat) (sh : List Nat) (img img' : Array Rat)
    (himg : IsSwap k sh img img') (lshort : List Rat) (kernels : List (Array Rat))
    (llong : List Int) (thr : Option Rat) :
    SwapRel k sh (bandpass sh img lshort kernels llong thr)
      (bandpass (swapAt k sh) img' (swapAt k lshort) (swapAt k kernels) (swapAt k llong) thr) := by
  unfold bandpass
  by_cases hlen : lshort.length ≠ sh.length ∨ kernels.length ≠ sh.length ∨ llong.length ≠ sh.length
  · have hlen' : (swapAt k lshort).length ≠ (swapAt k sh).length ∨
        (swapAt k kernels).length ≠ (swapAt k sh).length ∨
        (swapAt k llong).length ≠ (swapAt k sh).length := by simpa using hlen
    rw [if_pos hlen, if_pos hlen']
    simp [SwapRel]
  · have hlen' : ¬ ((swapAt k lshort).length ≠ (swapAt k sh).length ∨
        (swapAt k kernels).length ≠ (swapAt k sh).length ∨
        (swapAt k llong).length ≠ (swapAt k sh).length) := by simpa using hlen
    rw [if_neg hlen, if_neg hlen']
    have l1 : lshort.length = sh.length := Classical.not_not.mp (fun hh => hlen (Or.inl hh))
    have l2 : kernels.length = sh.length :=
      Classical.not_not.mp (fun hh => hlen (Or.inr (Or.inl hh)))
    have l3 : llong.length = sh.length :=
      Classical.not_not.mp (fun hh => hlen (Or.inr (Or.inr hh)))
    rw [scaleClash_swapAt k lshort llong (by rw [l1, l3]), all_swapAt]
    by_cases hc : scaleClash lshort llong = true
    · rw [if_pos hc, if_pos hc]; simp [SwapRel]
    · rw [if_neg hc, if_neg hc]
      by_cases ho : ¬ llong.all isOdd = true
      · rw [if_pos ho, if_pos ho]; simp [SwapRel]
      · rw [if_neg ho, if_neg ho]
        show IsSwap k sh _ _
        apply isSwap_map _ (clip_zero _)
        unfold diff
        apply isSwap_subArr
        · unfold lowpass
          rw [zipFilt_swapAt k lshort kernels (by rw [l1, l2])]
          exact passes_swapAt k sh _ (srcOK_zipFilt lshort kernels)
            (by rw [length_zipFilt _ _ (by rw [l1, l2]), l1]) img img' himg
        · unfold boxcarRaw
          rw [map_swapAt]
          exact passes_swapAt k sh _ (srcOK_mapBox llong) (by simpa using l3) img img' himg

/-- results after a product `w` of adjacent-axis exchanges: same error, or images related by `w` -/
def SwapsRel (w : List Nat) (sh : List Nat) :
    Except Err (Array Rat) → Except Err (Array Rat) → Prop
  | .ok out, .ok out' => IsSwaps w sh out out'
  | .error e, .error e' => e = e'
  | .ok _, .error _ => False
  | .error _, .ok _ => False

/-- **"commutes with transposition"**, any dimension, any product `w` of exchanges of adjacent
    axes — and these products are all the permutations of the axes: if `img'` is `img` with its
    axes rearranged by `w`, then `bandpass` of `img'` with every per-axis parameter list
    rearranged by `w` is `bandpass` of `img` with its axes rearranged by `w`. -/
theorem bandpass_permute_axes : ∀ (w : List Nat) (sh : List Nat) (img img' : Array Rat)
    (_ : IsSwaps w sh img img') (lshort : List Rat) (kernels : List (Array Rat))
    (llong : List Int) (thr : Option Rat),
    SwapsRel w sh (bandpass sh img lshort kernels llong thr)
      (bandpass (swaps w sh) img' (swaps w lshort) (swaps w kernels) (swaps w llong) thr)
  | [], sh, img, img', h, ls, ks, ll, thr => by
    simp only [IsSwaps] at h; subst h
    simp only [swaps]
    cases bandpass sh img' ls ks ll thr <;> simp [SwapsRel, IsSwaps]
  | k :: w, sh, img, img'', h, ls, ks, ll, thr => by
    simp only [IsSwaps] at h
    rcases h with ⟨img', h1, h2⟩
    have s1 := bandpass_swap_axes k sh img img' h1 ls ks ll thr
    have s2 := bandpass_permute_axes w (swapAt k sh) img' img'' h2 (swapAt k ls) (swapAt k ks)
      (swapAt k ll) thr
    simp only [swaps]
    generalize bandpass sh img ls ks ll thr = r0 at s1 ⊢
    generalize bandpass (swapAt k sh) img' (swapAt k ls) (swapAt k ks) (swapAt k ll) thr = r1
      at s1 s2
    generalize bandpass (swaps w (swapAt k sh)) img'' (swaps w (swapAt k ls))
      (swaps w (swapAt k ks)) (swaps w (swapAt k ll)) thr = r2 at s2 ⊢
    cases r0 <;> cases r1 <;> cases r2 <;> simp only [SwapRel, SwapsRel] at s1 s2 ⊢
    · exact s1.trans s2
    · exact ⟨_, s1, s2⟩

/-- … pixel for pixel: pixel `w·ix` of the result for the rearranged image is pixel `ix` of the
    result for the original image -/
theorem bandpass_permute_axes_pixel (w : List Nat) (sh : List Nat) (img img' : Array Rat)
    (h : IsSwaps w sh img img') (lshort : List Rat) (kernels : List (Array Rat))
    (llong : List Int) (thr : Option Rat) (out out' : Array Rat)
    (h0 : bandpass sh img lshort kernels llong thr = .ok out)
    (h1 : bandpass (swaps w sh) img' (swaps w lshort) (swaps w kernels) (swaps w llong) thr
            = .ok out')
    (ix : List Nat) (hv : Valid sh ix) :
    pxN (swaps w sh) out' (swaps w ix) = pxN sh out ix := by
  have := bandpass_permute_axes w sh img img' h lshort kernels llong thr
  rw [h0, h1] at this
  exact isSwaps_px w sh out out' this ix hv

/-- an axis-exchanged image exists for every image, so `bandpass_swap_axes` is never vacuous;
    in 2-D it is the executable transpose -/
theorem exists_isSwap (k : Nat) (sh : List Nat) (img : Array Rat) (hsz : img.size = sh.prod) :
    ∃ img', IsSwap k sh img img' := ⟨swapImg k sh img, isSwap_swapImg k sh img hsz⟩

theorem transpose2_isSwap (H W : Nat) (img : Array Rat) (hsz : img.size = H * W) :
    IsSwap 0 [H, W] img (transpose2 H W img) := isSwap_transpose2 H W img hsz

/-! ## non-vacuity: a concrete 3 × 3 image, kernel (1/4, 1/2, 1/4), box 3 × 3, threshold 1 -/

def exK : Array Rat := #[1/4, 1/2, 1/4]
def exI : Array Rat := #[0, 0, 0, 0, 16, 0, 0, 0, 9]

example : SymmOdd exK := by
  refine ⟨rfl, ?_⟩
  intro j hj
  have : j = 0 ∨ j = 1 ∨ j = 2 := by simp [exK] at hj; omega
  rcases this with rfl | rfl | rfl <;> simp [exK, TrackpyV.Bandpass.get]

/-- the hypotheses of the theorems above are satisfiable: the call is accepted -/
example : ∃ out, bandpass [3, 3] exI [1, 1] [exK, exK] [3, 3] (some 1) = .ok out :=
  ⟨_, (bandpass_ok_iff _ _ _ _ _ _ _).mpr ⟨by simp [Accepts, scaleClash, isOdd], rfl⟩⟩

theorem ex_low : px 3 (lowpass [3, 3] exI [1, 1] [exK, exK]) 1 1 = 73 / 16 := by
  rw [lowpass_is_convolution 3 3 exI rfl 1 1 (by norm_num) (by norm_num) exK exK 1 1
    (by omega) (by omega)]
  simp [sumTo, pxZ, extZ, px, TrackpyV.Bandpass.get, exI, exK]
  norm_num

theorem ex_box : px 3 (boxcarRaw [3, 3] exI [3, 3]) 1 1 = 25 / 9 := by
  rw [boxcar_is_box_mean 3 3 exI rfl 3 3 (by norm_num) (by norm_num) 1 1 (by omega) (by omega)]
  simp [sumTo, pxC, clampI, px, TrackpyV.Bandpass.get, exI]
  norm_num

/-- … the centre pixel is kept with the value `73/16 − 25/9 = 257/144 ≥ 1` -/
example (out : Array Rat) (h : bandpass [3, 3] exI [1, 1] [exK, exK] [3, 3] (some 1) = .ok out) :
    get out 4 = 257 / 144 := by
  have hl : get (lowpass [3, 3] exI [1, 1] [exK, exK]) 4 = 73 / 16 := ex_low
  have hb : get (boxcarRaw [3, 3] exI [3, 3]) 4 = 25 / 9 := ex_box
  rw [bandpass_pixel _ _ _ _ _ _ _ h 4 (by simp [exI]), hl, hb]
  simp [thrOf]; norm_num

/-- … a clash of scales and an even size are refused -/
example : ∃ e, bandpass [3, 3] exI [3, 1] [exK, exK] [3, 3] (some 1) = .error e :=
  bandpass_rejects _ _ _ _ _ _ 0 3 3 rfl rfl (by norm_num)
example : ∃ e, bandpass [3, 3] exI [1, 1] [exK, exK] [3, 4] (some 1) = .error e :=
  bandpass_rejects_even _ _ _ _ _ _ 4 (by simp) rfl


/-- a 3-D instance: shape 2 × 3 × 4, a valid multi-index, an axis-exchanged partner image -/
example : Valid [2, 3, 4] [1, 2, 3] := by simp [Valid]
example (img : Array Rat) (h : img.size = 24) : ∃ img', IsSwap 1 [2, 3, 4] img img' :=
  exists_isSwap 1 [2, 3, 4] img (by simpa using h)
/-- the cyclic permutation (0 1 2) ↦ (1 2 0) as a product of two exchanges -/
example : swaps [0, 1] [2, 3, 4] = [3, 4, 2] := rfl
example (img : Array Rat) (h : img.size = 24) : ∃ img', IsSwaps [0, 1] [2, 3, 4] img img' :=
  exists_isSwaps [0, 1] [2, 3, 4] img (by simpa using h)
example : swapAt 1 [2, 3, 4] = [2, 4, 3] := rfl

end TrackpyV.Bandpass
