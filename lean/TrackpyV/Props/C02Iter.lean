import TrackpyV.Props.C02
import TrackpyV.Props.C02Algo
import TrackpyV.Proofs.AssignIter
/-!
# C02 (continued) — the two ITERATIVE solvers are inside the model

`Model/AssignIter.lean` mirrors `nonrecursive_link` (`nstep/nrun/nonrecLoop`) and the numba kernel
`_numba_subnet_norecur` (`mstep/mrun/numbaLoop`) iteration by iteration.  Proved here, for ALL
inputs, by a simulation between the explicit stacks / work arrays and the recursion `go`
(`Proofs/AssignIter.lean`: `nonrec_sim`, `numba_sim`):

* `nonrec_eq_solve` : `nonrecursive_link`'s loop returns EXACTLY what `do_recur` returns — same cost
  and same assignment, ties included (both visit candidates in the same order, prune on `>`,
  replace on `<`).  Hence `nonrecLink_eq_solve`, `nonrec_optimal`.
* the numba kernel replaces its optimum by every complete assignment it reaches without being
  pruned (`tmp_sum <= best_sum`): on exact ties it keeps the LAST optimal assignment found,
  `do_recur` the FIRST (`numba_tie_witness`).  So assignment equality is FALSE; proved instead:
  `numba_eq_solveL` (the kernel computes exactly the recursion `goL`, with its iteration count),
  `numba_admissible`, `numba_optimal`, `numba_cost_eq_solve` (same optimal COST as `do_recur`),
  `numba_eq_solve_of_unique` (same ASSIGNMENT whenever the optimum is unique).
* fuel: `nonrec_fuel`, `numba_fuel` — the loops stop after `nonrecSteps cl` / `numbaSteps cl`
  iterations, both `≤ levelBound cl` (`steps_le_levelBound`), an explicit function of the
  candidate-list lengths; every fuel `≥ levelBound cl` gives the same answer, so fuel exhaustion
  is unreachable in `nonrecLoop` / `numbaLoop` (which run with `fuel = levelBound cl`).
-/
namespace TrackpyV.Assign

/-! ## `nonrecursive_link` -/

/-- **fuel.**  With any fuel `≥ levelBound cl` the loop of `nonrecursive_link` terminates (`j < 0`)
after exactly `nonrecSteps cl` iterations with `best = solveOrdered cl`. -/
theorem nonrec_fuel (cl : List Src) (hne : cl ≠ []) (fuel : Nat) (hf : levelBound cl ≤ fuel) :
    nonrecFuel fuel cl = some (solveOrdered cl, nonrecSteps cl) :=
  nonrecFuel_eq cl hne fuel (Nat.le_trans (nonrecSteps_le cl) hf)

/-- both iteration counts are bounded by the explicit function `levelBound` of the list lengths -/
theorem steps_le_levelBound (cl : List Src) :
    nonrecSteps cl ≤ levelBound cl ∧ numbaSteps cl ≤ levelBound cl :=
  ⟨nonrecSteps_le cl, numbaSteps_le cl⟩

/-- **`nonrecursive_link` ≡ `do_recur`**: same cost and same assignment on every input. -/
theorem nonrec_eq_solve (cl : List Src) : nonrecLoop cl = solveOrdered cl := by
  cases cl with
  | nil => rfl
  | cons s rest =>
    simp only [nonrecLoop]
    rw [nonrec_fuel (s :: rest) (by simp) _ (Nat.le_refl _)]

/-- including the stable sort by candidate count that both functions perform first -/
theorem nonrecLink_eq_solve (srcs : List Src) : nonrecLink srcs = solve srcs :=
  nonrec_eq_solve _

/-- C02 for `nonrecursive_link`: admissible and of minimal cost among all admissible assignments -/
theorem nonrec_optimal (cl : List Src) (hne : cl ≠ []) (hs : AllSorted cl)
    (a' : List Cand) (ha : Admissible cl a') :
    ∃ c a, nonrecLoop cl = some (c, a) ∧ Admissible cl a ∧ cost a = c ∧ c ≤ cost a' := by
  obtain ⟨c, a, h, hle⟩ := solveOrdered_optimal cl hne hs a' ha
  have := solveOrdered_admissible cl c a h
  exact ⟨c, a, by rw [nonrec_eq_solve]; exact h, this.1, this.2, hle⟩

/-! ## the numba kernel -/

/-- **fuel.**  With any fuel `≥ levelBound cl` the kernel returns after exactly `numbaSteps cl`
iterations (its `loopcount`), holding the projection of `solveL cl`. -/
theorem numba_fuel (cl : List Src) (hne : cl ≠ []) (fuel : Nat) (hf : levelBound cl ≤ fuel) :
    numbaFuel fuel cl =
      some ((projBest (List.replicate cl.length none) (solveL cl)).1,
            (projBest (List.replicate cl.length none) (solveL cl)).2, numbaSteps cl) :=
  numbaFuel_eq cl hne fuel (Nat.le_trans (numbaSteps_le cl) hf)

/-- **the kernel computes the recursion `goL`** (`go` with "replace whenever not pruned, then leave
the level"): `best_sum`, `best_assignments` (destination per source; all `-1` if nothing was
found) and `loopcount`. -/
theorem numba_eq_solveL (cl : List Src) (hne : cl ≠ []) :
    numbaLoop cl =
      some ((projBest (List.replicate cl.length none) (solveL cl)).1,
            (projBest (List.replicate cl.length none) (solveL cl)).2, numbaSteps cl) :=
  numba_fuel cl hne _ (Nat.le_refl _)

theorem solveL_admissible (cl : List Src) (c : Nat) (a : List Cand)
    (h : solveL cl = some (c, a)) : Admissible cl a ∧ cost a = c := by
  cases cl with
  | nil => simp [solveL] at h
  | cons s rest =>
    simp only [solveL] at h
    rcases goL_achieved rest s [] 0 [] none with h0 | ⟨p, hp, h1⟩
    · rw [h0] at h; cases h
    · rw [h1] at h
      simp only [Nat.zero_add, List.nil_append, Option.some.injEq, Prod.mk.injEq] at h
      obtain ⟨hc, ha⟩ := h
      have := (mem_completions_iff rest s [] p).mp hp
      subst hc; subst ha
      exact ⟨this.1, this.2.symm⟩

theorem solveL_optimal (cl : List Src) (hne : cl ≠ []) (hs : AllSorted cl)
    (a' : List Cand) (ha : Admissible cl a') :
    ∃ c a, solveL cl = some (c, a) ∧ c ≤ cost a' := by
  cases cl with
  | nil => exact absurd rfl hne
  | cons s rest =>
    have hp : (cost a', a') ∈ completions rest s [] :=
      (mem_completions_iff rest s [] (cost a', a')).mpr ⟨ha, rfl⟩
    have hl := goL_lower rest s [] 0 [] none (hs s (List.mem_cons_self ..))
      (fun x hx => hs x (List.mem_cons_of_mem _ hx)) (cost a', a') hp
    simp only [Nat.zero_add] at hl
    simp only [solveL]
    cases hg : goL rest s [] 0 [] none with
    | none => rw [hg] at hl; exact hl.elim
    | some r =>
      obtain ⟨c, a⟩ := r
      rw [hg] at hl
      exact ⟨c, a, rfl, hl⟩

/-- what the kernel returns, when it found something, is an admissible assignment with the
reported cost (`ds` = destination per source as in `best_assignments`) -/
theorem numba_admissible (cl : List Src) (c : Nat) (ds : List (Option Nat)) (n : Nat)
    (h : numbaLoop cl = some (some c, ds, n)) :
    ∃ a, a.map (·.1) = ds ∧ Admissible cl a ∧ cost a = c := by
  cases cl with
  | nil => simp [numbaLoop, numbaFuel] at h
  | cons s rest =>
    rw [numba_eq_solveL (s :: rest) (by simp)] at h
    cases hL : solveL (s :: rest) with
    | none => rw [hL] at h; simp [projBest] at h
    | some r =>
      obtain ⟨c', a⟩ := r
      rw [hL] at h
      simp only [projBest, Option.some.injEq, Prod.mk.injEq] at h
      obtain ⟨hc, hd, _⟩ := h
      have := solveL_admissible _ _ _ hL
      exact ⟨a, hd, this.1, by rw [this.2, hc]⟩

/-- C02 for the numba kernel (pruning soundness): it finds an assignment, and no admissible
assignment is cheaper than the `best_sum` it returns -/
theorem numba_optimal (cl : List Src) (hne : cl ≠ []) (hs : AllSorted cl)
    (a' : List Cand) (ha : Admissible cl a') :
    ∃ c ds n, numbaLoop cl = some (some c, ds, n) ∧ c ≤ cost a' := by
  obtain ⟨c, a, h, hle⟩ := solveL_optimal cl hne hs a' ha
  refine ⟨c, a.map (·.1), numbaSteps cl, ?_, hle⟩
  rw [numba_eq_solveL cl hne, h]
  simp [projBest]

/-- the kernel and `do_recur` return the same optimal COST (`none` = nothing found, impossible
when every source carries the null candidate: `solveOrdered_total`) -/
theorem numba_cost_eq_solve (cl : List Src) (hne : cl ≠ []) (hs : AllSorted cl) :
    ∃ ds n, numbaLoop cl = some ((solveOrdered cl).map (·.1), ds, n) := by
  rw [numba_eq_solveL cl hne]
  refine ⟨(projBest (List.replicate cl.length none) (solveL cl)).2, numbaSteps cl, ?_⟩
  congr 2
  cases hL : solveL cl with
  | none =>
    cases hO : solveOrdered cl with
    | none => simp [projBest]
    | some r =>
      obtain ⟨c, a⟩ := r
      obtain ⟨c', a', h', _⟩ := solveL_optimal cl hne hs a (solveOrdered_admissible cl c a hO).1
      rw [hL] at h'; cases h'
  | some r =>
    obtain ⟨c', a'⟩ := r
    have ad' := solveL_admissible cl c' a' hL
    obtain ⟨c, a, hO, hle⟩ := solveOrdered_optimal cl hne hs a' ad'.1
    have ad := solveOrdered_admissible cl c a hO
    obtain ⟨c2, a2, h2, hle2⟩ := solveL_optimal cl hne hs a ad.1
    rw [hL] at h2; cases h2
    rw [hO]
    have : c' = c := by have := ad.2; have := ad'.2; omega
    simp [projBest, this]

/-- when the optimum is unique the kernel returns the very assignment `do_recur` returns -/
theorem numba_eq_solve_of_unique (cl : List Src) (hne : cl ≠ []) (hs : AllSorted cl)
    (huniq : ∀ a b, IsOptimal cl a → IsOptimal cl b → a = b)
    (c : Nat) (a : List Cand) (h : solveOrdered cl = some (c, a)) :
    ∃ n, numbaLoop cl = some (some c, a.map (·.1), n) := by
  have ad := solveOrdered_admissible cl c a h
  have opt : IsOptimal cl a := by
    refine ⟨ad.1, fun b hb => ?_⟩
    obtain ⟨c1, a1, h1, hle⟩ := solveOrdered_optimal cl hne hs b hb
    rw [h] at h1; cases h1
    rw [ad.2]; exact hle
  obtain ⟨c', a', hL, _⟩ := solveL_optimal cl hne hs a ad.1
  have ad' := solveL_admissible cl c' a' hL
  have opt' : IsOptimal cl a' := by
    refine ⟨ad'.1, fun b hb => ?_⟩
    obtain ⟨c1, a1, h1, hle⟩ := solveL_optimal cl hne hs b hb
    rw [hL] at h1; cases h1
    rw [ad'.2]; exact hle
  have e := huniq a a' opt opt'
  subst e
  refine ⟨numbaSteps cl, ?_⟩
  rw [numba_eq_solveL cl hne, hL]
  have : c' = c := by rw [← ad.2, ← ad'.2]
  simp [projBest, this]

/-! ## non-vacuity and the tie witness (tests, labelled as such) -/

example : nonrecLoop ex1 = some (6, [(some 1, 4), (some 0, 2)]) := by decide
example : nonrecFuel 1000 ex1 = some (some (6, [(some 1, 4), (some 0, 2)]), 10) := by decide
example : numbaLoop ex1 = some (some 6, [some 1, some 0], 6) := by decide

/-- two sources, two optimal assignments of cost 2: the kernel keeps the last one found -/
def exTie : List Src := [[(some 0, 1), (some 1, 1), (none, 9)], [(some 2, 1), (none, 9)]]

/-- **why only cost equality for the numba kernel**: on an exact tie `do_recur` (and
`nonrecursive_link`) answer `[0, 2]`, the kernel answers `[1, 2]` -/
theorem numba_tie_witness :
    solveOrdered exTie = some (2, [(some 0, 1), (some 2, 1)]) ∧
    nonrecLoop exTie = some (2, [(some 0, 1), (some 2, 1)]) ∧
    (numbaLoop exTie).map (fun r => (r.1, r.2.1)) = some (some 2, [some 1, some 2]) := by
  refine ⟨?_, ?_, by decide⟩
  · simp [solveOrdered, exTie, go, exceeds, taken, better, addTaken]
  · rw [nonrec_eq_solve]
    simp [solveOrdered, exTie, go, exceeds, taken, better, addTaken]

end TrackpyV.Assign
