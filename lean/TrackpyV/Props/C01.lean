import TrackpyV.Proofs.Linker
/-!
# C01 — linking returns a valid labelling

The statements are about *every* labelled movie the monitor `Linker.runCheck` accepts (the
monitor is run on the implementation's actual output on every check run; `runCheck_ok_accepts`
ties the executable function to the relation `AcceptsFrom`).

* `accepted_valid` : in an accepted movie every level has one label per feature, no label twice,
  and every label that continues a trajectory continues its **previous observation** after at
  most `memory` skipped levels (gap ≤ memory+1 frames; missing frames are empty levels) and within
  `search_range` (weighted squared distance ≤ B) of it — `ValidHist`, defined on the labelled
  output alone.
* `label_never_restarts` : a label whose trajectory has no observation within the last `memory+1`
  levels is never used again (trajectories never merge or restart).
* `sources_eligible`, `sources_complete` (also C02): the candidate sources of a step are exactly
  the last observations of the trajectories seen at most `memory+1` levels ago.
-/
namespace TrackpyV.Linker
open TrackpyV.Assign

/-- the labelled levels are accepted one after the other, starting from state `st` -/
def AcceptsFrom (cfg : Cfg) : State → List LLevel → Prop
  | _, [] => True
  | st, lv :: rest =>
    ∃ st' c r b cap, stepCheck cfg st lv.t lv.dsts (some lv.labels) = .ok st' c r b cap ∧
      AcceptsFrom cfg st' rest

/-- a whole movie is accepted: first level by `initCheck`, the others by `stepCheck` -/
def Accepts (cfg : Cfg) : List LLevel → Prop
  | [] => True
  | lv0 :: rest =>
    ∃ st0 c r b cap, initCheck lv0.t lv0.dsts lv0.labels = .ok st0 c r b cap ∧
      AcceptsFrom cfg st0 rest

def toLLevels : List Level → Option (List LLevel)
  | [] => some []
  | l :: ls =>
    match l.labels, toLLevels ls with
    | some lab, some r => some ({ t := l.t, dsts := l.dsts, labels := lab } :: r)
    | _, _ => none

theorem loop_ok_accepts (cfg : Cfg) (ls : List Level) (st : State) (k c r b cp : Nat)
    (h : (runCheck.loop cfg st k ls c r b cp).verdict = "ok") :
    ∃ lls, toLLevels ls = some lls ∧ AcceptsFrom cfg st lls := by
  induction ls generalizing st k c r b cp with
  | nil => exact ⟨[], rfl, trivial⟩
  | cons l ls ih =>
    unfold runCheck.loop at h
    cases hl : l.labels with
    | none =>
      rw [hl] at h
      cases hs : stepCheck cfg st l.t l.dsts none with
      | ok st' c' r' b' cap =>
        -- impossible: with `none` the step never returns `ok`
        unfold stepCheck at hs
        simp only at hs
        split at hs <;> (try split at hs) <;> (try split at hs) <;> cases hs
      | expectOversize => rw [hs] at h; simp at h
      | capped => rw [hs] at h; simp at h
      | bad why => rw [hs] at h; simp at h
    | some lab =>
      rw [hl] at h
      cases hs : stepCheck cfg st l.t l.dsts (some lab) with
      | ok st' c' r' b' cap =>
        rw [hs] at h
        obtain ⟨lls, h1, h2⟩ := ih st' _ _ _ _ _ h
        refine ⟨{ t := l.t, dsts := l.dsts, labels := lab } :: lls, ?_, ?_⟩
        · simp [toLLevels, hl, h1]
        · exact ⟨st', c', r', b', cap, hs, h2⟩
      | expectOversize => rw [hs] at h; simp at h
      | capped => rw [hs] at h; simp at h
      | bad why => rw [hs] at h; simp at h

/-- The executable monitor answering `ok` means the movie is accepted by the relation. -/
theorem runCheck_ok_accepts (cfg : Cfg) (levels : List Level)
    (h : (runCheck cfg levels).verdict = "ok") :
    ∃ lls, toLLevels levels = some lls ∧ Accepts cfg lls := by
  cases levels with
  | nil => exact ⟨[], rfl, trivial⟩
  | cons l0 rest =>
    simp only [runCheck] at h
    cases hl : l0.labels with
    | none => rw [hl] at h; simp at h
    | some lab0 =>
      rw [hl] at h
      simp only at h
      cases hi : initCheck l0.t l0.dsts lab0 with
      | ok st0 c r b cap =>
        rw [hi] at h
        simp only at h
        obtain ⟨lls, h1, h2⟩ := loop_ok_accepts cfg rest st0 _ _ _ _ _ h
        refine ⟨{ t := l0.t, dsts := l0.dsts, labels := lab0 } :: lls, ?_, ?_⟩
        · simp [toLLevels, hl, h1]
        · exact ⟨st0, c, r, b, cap, hi, h2⟩
      | expectOversize => rw [hi] at h; simp at h
      | capped => rw [hi] at h; simp at h
      | bad why => rw [hi] at h; simp at h

/-! ## validity of accepted movies -/

theorem initCheck_ok {t : Int} {dsts : List Pos} {labels : List Nat} {st0 : State}
    {c r b : Nat} {cap : Bool} (cfg : Cfg)
    (h : initCheck t dsts labels = .ok st0 c r b cap) :
    LevelOK cfg [] { t := t, dsts := dsts, labels := labels } ∧
    Inv cfg st0 [{ t := t, dsts := dsts, labels := labels }] := by
  unfold initCheck at h
  split at h
  · cases h
  · rename_i h1
    split at h
    · cases h
    · rename_i h2
      have hlen : labels.length = dsts.length := by simpa using h1
      have hnd : labels.Nodup := by simpa using h2
      cases h
      refine ⟨⟨hlen, hnd, ?_⟩, ?_⟩
      · intro q l _ age p t0 hl; simp [lastObs] at hl
      · constructor
        · intro s hs
          rw [nextState_srcs] at hs
          have hk : keptSrcs initCfg { srcs := [], used := [] } labels = [] := by
            simp [keptSrcs]
          rw [hk, List.append_nil] at hs
          obtain ⟨hz, ht, ha⟩ := mem_lvlSrcs hs
          have := lookup_zip_of_mem_nodup labels dsts s.track s.pos hnd (mem_zip_swap hz)
          simp only [lastObs, posOf_eq, this, ha, ht]
          exact ⟨trivial, Nat.zero_le _⟩
        · intro lv hm l hl
          rw [nextState_used]
          simp only [List.mem_singleton] at hm
          subst hm
          exact List.mem_append_left _ hl
        · rw [nextState_srcs]
          have hk : keptSrcs initCfg { srcs := [], used := [] } labels = [] := by
            simp [keptSrcs]
          rw [hk, List.append_nil, lvlSrcs_tracks t dsts labels hlen]
          exact hnd
        · intro l a p t0 hlast _
          rw [nextState_srcs]
          simp only [lastObs, posOf_eq] at hlast
          cases hp : (labels.zip dsts).lookup l with
          | none => rw [hp] at hlast; simp at hlast
          | some p' =>
            have hl : l ∈ labels := mem_of_lookup_zip_some _ _ _ _ hp
            have : l ∈ (lvlSrcs t dsts labels).map (·.track) := by
              rw [lvlSrcs_tracks t dsts labels hlen]; exact hl
            simp only [List.mem_map] at this
            obtain ⟨s, hs, hst⟩ := this
            exact ⟨s, List.mem_append_left _ hs, hst⟩

theorem acceptsFrom_valid (cfg : Cfg) (lls : List LLevel) (st : State) (hist : List LLevel)
    (hinv : Inv cfg st hist) (hval : ValidHist cfg hist) (h : AcceptsFrom cfg st lls) :
    ValidHist cfg (lls.reverse ++ hist) := by
  induction lls generalizing st hist with
  | nil => simpa using hval
  | cons lv rest ih =>
    obtain ⟨st', c, r, b, cap, hs, hrest⟩ := h
    obtain ⟨hv, rfl, _⟩ := stepCheck_ok hs
    obtain ⟨hok, hinv'⟩ := step_preserves hinv hv
    have := ih _ (lv :: hist) hinv' ⟨hok, hval⟩ hrest
    simpa using this

/-- **C01 (labelling clauses).**  Every movie accepted by the monitor is validly labelled:
per level one label per feature and no label twice; consecutive observations of one trajectory
are at most `memory+1` levels and at most `search_range` apart. -/
theorem accepted_valid (cfg : Cfg) (lls : List LLevel) (h : Accepts cfg lls) :
    ValidHist cfg lls.reverse := by
  cases lls with
  | nil => trivial
  | cons lv0 rest =>
    obtain ⟨st0, c, r, b, cap, hi, hrest⟩ := h
    obtain ⟨hok, hinv⟩ := initCheck_ok cfg hi
    have := acceptsFrom_valid cfg rest st0 [lv0] hinv ⟨hok, trivial⟩ hrest
    simpa using this

/-- In a valid history a label whose previous observation is more than `memory` levels back
cannot be used: trajectories never restart (or merge with an older one). -/
theorem label_never_restarts (cfg : Cfg) (hist : List LLevel) (lv : LLevel)
    (h : LevelOK cfg hist lv) (l : Nat) (hl : l ∈ lv.labels)
    (age : Nat) (p : Pos) (t0 : Int) (hlast : lastObs hist l = some (age, p, t0)) :
    age ≤ cfg.memory := by
  obtain ⟨hlen, _, hall⟩ := h
  obtain ⟨i, hi, rfl⟩ := List.mem_iff_getElem.mp hl
  have hq : (lv.dsts[i]'(by omega), lv.labels[i]) ∈ lv.dsts.zip lv.labels := by
    rw [List.mem_iff_getElem]
    exact ⟨i, by simp; omega, by simp⟩
  exact (hall _ _ hq age p t0 hlast).1

/-- the state reached by an accepted prefix satisfies the invariant w.r.t. that prefix -/
theorem acceptsFrom_inv (cfg : Cfg) (lls : List LLevel) (st : State) (hist : List LLevel)
    (hinv : Inv cfg st hist) (h : AcceptsFrom cfg st lls) :
    ∃ st', Inv cfg st' (lls.reverse ++ hist) := by
  induction lls generalizing st hist with
  | nil => exact ⟨st, by simpa using hinv⟩
  | cons lv rest ih =>
    obtain ⟨st', c, r, b, cap, hs, hrest⟩ := h
    obtain ⟨hv, rfl, _⟩ := stepCheck_ok hs
    obtain ⟨_, hinv'⟩ := step_preserves hinv hv
    obtain ⟨st'', h''⟩ := ih _ (lv :: hist) hinv' hrest
    exact ⟨st'', by simpa using h''⟩

/-- **Candidate sources (C02, second sentence).**  In any state that satisfies the invariant
every source is the last observation of its trajectory, at most `memory` levels before the
previous level … -/
theorem sources_eligible (cfg : Cfg) (st : State) (hist : List LLevel) (hinv : Inv cfg st hist)
    (s : Source) (hs : s ∈ st.srcs) :
    lastObs hist s.track = some (s.age, s.pos, s.t) ∧ s.age ≤ cfg.memory :=
  hinv.src_last s hs

/-- … and conversely every trajectory observed at most `memory+1` levels ago is a source. -/
theorem sources_complete (cfg : Cfg) (st : State) (hist : List LLevel) (hinv : Inv cfg st hist)
    (l a : Nat) (p : Pos) (t0 : Int) (h : lastObs hist l = some (a, p, t0)) (ha : a ≤ cfg.memory) :
    ∃ s ∈ st.srcs, s.track = l ∧ s.pos = p ∧ s.t = t0 ∧ s.age = a := by
  obtain ⟨s, hs, hst⟩ := hinv.complete l a p t0 h ha
  obtain ⟨h1, _⟩ := hinv.src_last s hs
  rw [hst, h] at h1
  simp only [Option.some.injEq, Prod.mk.injEq] at h1
  exact ⟨s, hs, hst, h1.2.1.symm, h1.2.2.symm, h1.1.symm⟩

/-! ## non-vacuity (tests, labelled as such) -/

def exCfg : Cfg := { w := [1, 1], B := 9, memory := 1, maxNeighbors := 10, maxSize := 30,
                     vel := none, drop := false }

/-- two particles; the second vanishes for one frame and is re-linked by memory -/
def exMovie : List Level :=
  [ { t := 0, dsts := [[0, 0], [10, 0]], labels := some [0, 1] },
    { t := 1, dsts := [[1, 0]], labels := some [0] },
    { t := 2, dsts := [[1, 1], [11, 1]], labels := some [0, 1] } ]

set_option linter.unusedSimpArgs false in
set_option maxRecDepth 4000 in
/-- the monitor accepts `exMovie` (so `Accepts` has non-trivial inhabitants, memory re-link included) -/
example : (runCheck exCfg exMovie).verdict = "ok" := by
  simp [runCheck, runCheck.loop, exCfg, exMovie, initCheck, initCfg, stepCheck, nextState, stepGroups,
    stepCands, candsOf, candsOfRow, distRow, subnets, addSource, hasDest, realDests, cappedB, oversizeB, nNeighbors, validWhy,
    optWhy, freshLabels, linksOkB, gSrcs, gAsg, srcOf, asgOf, groupOkB, pairwiseDisjointB, groupDests, dests, chosenOf,
    getD', view, dist2, sqI, insCand, solveOrdered, go, exceeds, taken, better, sortedB, admissibleB, cost,
    List.zipIdx, List.range, List.range.loop, List.idxOf?, List.findIdx?, List.findIdx?.go, List.find?]

end TrackpyV.Linker
