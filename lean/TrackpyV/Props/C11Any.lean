import TrackpyV.Props.C11
import TrackpyV.Model.LinkerAny
/-!
# C11, third clause — labels produced with ANY predictor remain unique per frame

`Model/LinkerAny.lean` defines `stepCheckAny cfg pred`: the tests of the monitor that do not depend
on where the search is centred, plus the range test against the position an ARBITRARY function
`pred : Source → Int → Pos` gave.  Here:

* (a) `acceptedAny_valid`, `acceptedAny_unique`, `labelAny_never_restarts`,
  `acceptedAny_links_in_range`: for EVERY `pred`, every movie accepted by `stepCheckAny pred` has
  one label per feature and no label twice in a frame, no label restarted after its trajectory
  ended (more than `memory` levels without an observation), and every link within range of the
  position `pred` gave for the source it continues — by induction over the movie, with the same
  invariant (`Inv`) as Props/C01.
* (b) `validAnyWhy_view`, `stepCheckAny_view_iff`, `stepCheck_ok_any`, `accepts_any`,
  `validHistAny_view`: the existing monitor `stepCheck` (with `vel := some v` and with
  `vel := none`) is the instance `pred := viewPred cfg`; `accepted_valid_from_any` re-derives
  Props/C01 `accepted_valid` from the general theorem.
* `stepCheckAny_congr`: a step only reads `pred` at the candidate sources of that step and at the
  time of the new level — which is why a finite table of recorded predictions (driver op `LANY`)
  instantiates `pred` for a run of a stateful predictor.
* `runCheckAny_ok_accepts` ties the executable monitor to the relation.
* (c) non-vacuity with a predictor that is quadratic in the elapsed time.
-/
namespace TrackpyV.Linker
open TrackpyV.Assign

/-- the labelled levels are accepted one after the other by `stepCheckAny pred`, from state `st` -/
def AcceptsAnyFrom (cfg : Cfg) (pred : Pred) : State → List LLevel → Prop
  | _, [] => True
  | st, lv :: rest =>
    ∃ st', stepCheckAny cfg pred st lv.t lv.dsts lv.labels = .ok st' ∧
      AcceptsAnyFrom cfg pred st' rest

/-- a whole movie is accepted: first level by `initCheck`, the others by `stepCheckAny pred` -/
def AcceptsAny (cfg : Cfg) (pred : Pred) : List LLevel → Prop
  | [] => True
  | lv0 :: rest =>
    ∃ st0 c r b cap, initCheck lv0.t lv0.dsts lv0.labels = .ok st0 c r b cap ∧
      AcceptsAnyFrom cfg pred st0 rest

/-- C01 for one level given the history before it, for an arbitrary predictor: one label per
feature, no label twice, and every label that continues a trajectory does so after at most
`memory` skipped levels and within range of the position `pred` gives for the previous observation
(`age`, `p`, `t0` are read off the labelled history alone: `lastObs`). -/
def LevelOKAny (cfg : Cfg) (pred : Pred) (hist : List LLevel) (lv : LLevel) : Prop :=
  lv.labels.length = lv.dsts.length ∧ lv.labels.Nodup ∧
  ∀ q l, (q, l) ∈ lv.dsts.zip lv.labels →
    ∀ age p t0, lastObs hist l = some (age, p, t0) →
      age ≤ cfg.memory ∧
      dist2 cfg.w (pred { pos := p, track := l, t := t0, age := age } lv.t) q ≤ cfg.B

/-- C01 for a whole labelled movie (most recent level first), arbitrary predictor -/
def ValidHistAny (cfg : Cfg) (pred : Pred) : List LLevel → Prop
  | [] => True
  | lv :: hist => LevelOKAny cfg pred hist lv ∧ ValidHistAny cfg pred hist

/-! ### what an accepted step guarantees -/

theorem validAnyWhy_none {cfg : Cfg} {pred : Pred} {st : State} {t : Int} {dsts : List Pos}
    {labels : List Nat} (h : validAnyWhy cfg pred st t dsts labels = none) :
    labels.length = dsts.length ∧ labels.Nodup ∧
    (∀ l ∈ freshLabels st labels, l ∉ st.used) ∧ linksAnyB cfg pred st t dsts labels = true := by
  unfold validAnyWhy at h
  split at h
  · cases h
  · rename_i h1
    split at h
    · cases h
    · rename_i h2
      split at h
      · cases h
      · rename_i h3
        split at h
        · cases h
        · rename_i h4
          refine ⟨by simpa using h1, by simpa using h2, ?_, by simpa using h4⟩
          intro l hl hu
          apply h3
          simp only [List.any_eq_true, List.contains_eq_mem, decide_eq_true_eq]
          exact ⟨l, hl, hu⟩

theorem stepCheckAny_ok {cfg : Cfg} {pred : Pred} {st : State} {t : Int} {dsts : List Pos}
    {labels : List Nat} {st' : State} :
    stepCheckAny cfg pred st t dsts labels = .ok st' ↔
      validAnyWhy cfg pred st t dsts labels = none ∧ st' = nextState cfg st t dsts labels := by
  unfold stepCheckAny
  cases hv : validAnyWhy cfg pred st t dsts labels with
  | some why => simp
  | none =>
    simp only [Except.ok.injEq, true_and]
    exact eq_comm

/-! ### the invariant is the one of Props/C01: it never mentions the range

`Inv` reads `cfg.memory` only, and the invariant half of `step_preserves` uses the first three tests
of `validWhy` only.  We obtain it for `stepCheckAny` by instantiating `step_preserves` at the
configuration without range test (`w := [], B := 0`: every distance is `0 ≤ 0`). -/

/-- `cfg` with the range test switched off -/
def rangeless (cfg : Cfg) : Cfg := { cfg with w := [], B := 0, vel := none }

theorem linksOkB_rangeless (cfg : Cfg) (st : State) (t : Int) (dsts : List Pos) (labels : List Nat) :
    linksOkB (rangeless cfg) st t dsts labels = true := by
  simp only [linksOkB, List.all_eq_true]
  intro x _
  obtain ⟨q, l⟩ := x
  simp only
  split
  · rfl
  · simp [rangeless, dist2]

theorem validWhy_rangeless_none (cfg : Cfg) {st : State} (t : Int) {dsts : List Pos}
    {labels : List Nat} (h1 : labels.length = dsts.length) (h2 : labels.Nodup)
    (h3 : ∀ l ∈ freshLabels st labels, l ∉ st.used) :
    validWhy (rangeless cfg) st t dsts labels = none := by
  unfold validWhy
  rw [if_neg (by simpa using h1), if_neg (by simpa using h2), if_neg, if_neg]
  · simp [linksOkB_rangeless]
  · simp only [List.any_eq_true, List.contains_eq_mem, decide_eq_true_eq, not_exists, not_and]
    exact h3

theorem inv_rangeless {cfg : Cfg} {st : State} {hist : List LLevel} :
    Inv (rangeless cfg) st hist ↔ Inv cfg st hist :=
  ⟨fun h => ⟨h.src_last, h.used, h.nodup, h.complete⟩,
   fun h => ⟨h.src_last, h.used, h.nodup, h.complete⟩⟩

theorem nextState_rangeless (cfg : Cfg) (st : State) (t : Int) (dsts : List Pos)
    (labels : List Nat) :
    nextState (rangeless cfg) st t dsts labels = nextState cfg st t dsts labels := rfl

/-- One accepted step of `stepCheckAny`: the new level satisfies `LevelOKAny` relative to the
history, and the invariant is re-established for the successor state. -/
theorem stepAny_preserves {cfg : Cfg} {pred : Pred} {st : State} {hist : List LLevel} {t : Int}
    {dsts : List Pos} {labels : List Nat} (hinv : Inv cfg st hist)
    (hv : validAnyWhy cfg pred st t dsts labels = none) :
    LevelOKAny cfg pred hist { t := t, dsts := dsts, labels := labels } ∧
    Inv cfg (nextState cfg st t dsts labels) ({ t := t, dsts := dsts, labels := labels } :: hist) := by
  obtain ⟨hlen, hnd, hfresh, hlinks⟩ := validAnyWhy_none hv
  constructor
  · refine ⟨hlen, hnd, ?_⟩
    intro q l hql age p t0 hlast
    -- `l` must be the track of a source: otherwise it is fresh, hence unused, hence never observed
    have hsrc : l ∈ st.srcs.map (·.track) := by
      apply Classical.byContradiction
      intro hns
      have hl : l ∈ labels := (List.of_mem_zip hql).2
      have hf : l ∈ freshLabels st labels := by
        simp only [freshLabels, List.mem_filter, List.contains_eq_mem, Bool.not_eq_true',
          decide_eq_false_iff_not]
        exact ⟨hl, hns⟩
      obtain ⟨lv, hm, hlv⟩ := lastObs_some_mem hist l _ hlast
      exact hfresh l hf (hinv.used lv hm l hlv)
    simp only [List.mem_map] at hsrc
    obtain ⟨s0, hs0, hs0t⟩ := hsrc
    simp only [linksAnyB, List.all_eq_true] at hlinks
    have := hlinks (q, l) hql
    simp only at this
    cases hf : st.srcs.find? (fun s => s.track == l) with
    | none =>
      have := List.find?_eq_none.mp hf s0 hs0
      simp [hs0t] at this
    | some s =>
      rw [hf] at this
      have hsm : s ∈ st.srcs := List.mem_of_find?_eq_some hf
      have hst : s.track = l := by
        have := List.find?_some hf
        simpa using this
      obtain ⟨h1, h2⟩ := hinv.src_last s hsm
      rw [hst, hlast] at h1
      simp only [Option.some.injEq, Prod.mk.injEq] at h1
      obtain ⟨ha, hp, ht⟩ := h1
      refine ⟨by omega, ?_⟩
      have hs : s = { pos := p, track := l, t := t0, age := age } := by
        cases s
        simp only [Source.mk.injEq]
        exact ⟨hp.symm, hst, ht.symm, ha.symm⟩
      rw [← hs]
      simpa using this
  · have h0 := validWhy_rangeless_none cfg t hlen hnd hfresh (st := st)
    have := (step_preserves (inv_rangeless.mpr hinv) h0).2
    rw [nextState_rangeless] at this
    exact inv_rangeless.mp this

/-! ## (a) validity of every movie accepted with an arbitrary predictor -/

theorem acceptsAnyFrom_valid (cfg : Cfg) (pred : Pred) (lls : List LLevel) (st : State)
    (hist : List LLevel) (hinv : Inv cfg st hist) (hval : ValidHistAny cfg pred hist)
    (h : AcceptsAnyFrom cfg pred st lls) :
    ValidHistAny cfg pred (lls.reverse ++ hist) := by
  induction lls generalizing st hist with
  | nil => simpa using hval
  | cons lv rest ih =>
    obtain ⟨st', hs, hrest⟩ := h
    obtain ⟨hv, rfl⟩ := stepCheckAny_ok.mp hs
    obtain ⟨hok, hinv'⟩ := stepAny_preserves hinv hv
    have := ih _ (lv :: hist) hinv' ⟨hok, hval⟩ hrest
    simpa using this

/-- **C11, third clause (general form).**  For EVERY predictor `pred`, every movie accepted by
`stepCheckAny pred` is validly labelled: per level one label per feature and no label twice;
consecutive observations of one trajectory are at most `memory+1` levels apart and the later one
is within range of the position `pred` gave for the earlier one. -/
theorem acceptedAny_valid (cfg : Cfg) (pred : Pred) (lls : List LLevel)
    (h : AcceptsAny cfg pred lls) : ValidHistAny cfg pred lls.reverse := by
  cases lls with
  | nil => trivial
  | cons lv0 rest =>
    obtain ⟨st0, c, r, b, cap, hi, hrest⟩ := h
    obtain ⟨hok, hinv⟩ := initCheck_ok cfg hi
    have hok' : LevelOKAny cfg pred [] lv0 := by
      refine ⟨hok.1, hok.2.1, ?_⟩
      intro q l _ age p t0 hl
      simp [lastObs] at hl
    have := acceptsAnyFrom_valid cfg pred rest st0 [lv0] hinv ⟨hok', trivial⟩ hrest
    simpa using this

theorem validHistAny_append {cfg : Cfg} {pred : Pred} (a b : List LLevel)
    (h : ValidHistAny cfg pred (a ++ b)) : ValidHistAny cfg pred b := by
  induction a with
  | nil => exact h
  | cons x xs ih => exact ih h.2

/-- every level of a valid history is `LevelOKAny` relative to the levels before it -/
theorem validHistAny_split {cfg : Cfg} {pred : Pred} (a : List LLevel) (lv : LLevel)
    (b : List LLevel) (h : ValidHistAny cfg pred (a ++ lv :: b)) : LevelOKAny cfg pred b lv :=
  (validHistAny_append a (lv :: b) h).1

/-- **Labels are unique per frame, with any predictor.**  In a movie accepted by
`stepCheckAny pred` every level carries one label per feature and no label twice. -/
theorem acceptedAny_unique (cfg : Cfg) (pred : Pred) (lls : List LLevel)
    (h : AcceptsAny cfg pred lls) :
    ∀ lv ∈ lls, lv.labels.length = lv.dsts.length ∧ lv.labels.Nodup := by
  intro lv hm
  have hv := acceptedAny_valid cfg pred lls h
  have hm' : lv ∈ lls.reverse := List.mem_reverse.mpr hm
  obtain ⟨a, b, hab⟩ := List.append_of_mem hm'
  rw [hab] at hv
  have := validHistAny_split a lv b hv
  exact ⟨this.1, this.2.1⟩

/-- **No label is restarted, with any predictor.**  In a movie accepted by `stepCheckAny pred`:
if the levels before `lv` (most recent first: `before.reverse`) last saw label `l` more than
`memory` levels back, `lv` does not use `l`. -/
theorem labelAny_never_restarts (cfg : Cfg) (pred : Pred) (before : List LLevel) (lv : LLevel)
    (after : List LLevel) (h : AcceptsAny cfg pred (before ++ lv :: after))
    (l : Nat) (hl : l ∈ lv.labels) (age : Nat) (p : Pos) (t0 : Int)
    (hlast : lastObs before.reverse l = some (age, p, t0)) : age ≤ cfg.memory := by
  have hv := acceptedAny_valid cfg pred _ h
  rw [List.reverse_append, List.reverse_cons, List.append_assoc, List.singleton_append] at hv
  obtain ⟨hlen, _, hall⟩ := validHistAny_split after.reverse lv before.reverse hv
  obtain ⟨i, hi, rfl⟩ := List.mem_iff_getElem.mp hl
  have hq : (lv.dsts[i]'(by omega), lv.labels[i]) ∈ lv.dsts.zip lv.labels := by
    rw [List.mem_iff_getElem]
    exact ⟨i, by simp; omega, by simp⟩
  exact (hall _ _ hq age p t0 hlast).1

/-- **Every link is within range of the predicted position.**  In a movie accepted by
`stepCheckAny pred`, a feature `q` of level `lv` whose label `l` was last seen at `p` (time `t0`,
`age` levels before the previous one) lies within the search range of `pred ⟨p, l, t0, age⟩ lv.t`. -/
theorem acceptedAny_links_in_range (cfg : Cfg) (pred : Pred) (before : List LLevel) (lv : LLevel)
    (after : List LLevel) (h : AcceptsAny cfg pred (before ++ lv :: after))
    (q : Pos) (l : Nat) (hql : (q, l) ∈ lv.dsts.zip lv.labels) (age : Nat) (p : Pos) (t0 : Int)
    (hlast : lastObs before.reverse l = some (age, p, t0)) :
    dist2 cfg.w (pred { pos := p, track := l, t := t0, age := age } lv.t) q ≤ cfg.B := by
  have hv := acceptedAny_valid cfg pred _ h
  rw [List.reverse_append, List.reverse_cons, List.append_assoc, List.singleton_append] at hv
  obtain ⟨_, _, hall⟩ := validHistAny_split after.reverse lv before.reverse hv
  exact (hall q l hql age p t0 hlast).2

/-! ## (b) `stepCheck` is the instance `pred := viewPred cfg` -/

/-- the drift predictor of `stepCheck` … -/
theorem viewPred_drift (cfg : Cfg) (v : List Int) (s : Source) (t : Int) :
    viewPred (withVel cfg (some v)) s t = List.zipWith (fun p vi => p + vi * (t - s.t)) s.pos v :=
  rfl

/-- … and "no predictor" as predictors in the sense of `stepCheckAny` -/
theorem viewPred_none (cfg : Cfg) (s : Source) (t : Int) :
    viewPred (withVel cfg none) s t = s.pos := rfl

/-- the validity part of `stepCheck` IS `validAnyWhy` at `pred := viewPred cfg`, whatever `cfg.vel` -/
theorem validAnyWhy_view (cfg : Cfg) (st : State) (t : Int) (dsts : List Pos) (labels : List Nat) :
    validAnyWhy cfg (viewPred cfg) st t dsts labels = validWhy cfg st t dsts labels := rfl

theorem stepCheckAny_view_iff (cfg : Cfg) (st : State) (t : Int) (dsts : List Pos)
    (labels : List Nat) (st' : State) :
    stepCheckAny cfg (viewPred cfg) st t dsts labels = .ok st' ↔
      validWhy cfg st t dsts labels = none ∧ st' = nextState cfg st t dsts labels := by
  rw [stepCheckAny_ok, validAnyWhy_view]

/-- every step `stepCheck` accepts (any `vel`, with or without the optimality part) is accepted by
`stepCheckAny (viewPred cfg)`, with the same successor state -/
theorem stepCheck_ok_any {cfg : Cfg} {st : State} {t : Int} {dsts : List Pos} {labels : List Nat}
    {st' : State} {c r b : Nat} {cap : Bool}
    (h : stepCheck cfg st t dsts (some labels) = .ok st' c r b cap) :
    stepCheckAny cfg (viewPred cfg) st t dsts labels = .ok st' := by
  obtain ⟨hv, hst, _⟩ := stepCheck_ok h
  exact (stepCheckAny_view_iff cfg st t dsts labels st').mpr ⟨hv, hst⟩

theorem acceptsFrom_any (cfg : Cfg) (lls : List LLevel) (st : State)
    (h : AcceptsFrom cfg st lls) : AcceptsAnyFrom cfg (viewPred cfg) st lls := by
  induction lls generalizing st with
  | nil => trivial
  | cons lv rest ih =>
    obtain ⟨st', c, r, b, cap, hs, hrest⟩ := h
    exact ⟨st', stepCheck_ok_any hs, ih st' hrest⟩

/-- every movie the monitor of C01/C02/C11 accepts (drift predictor `vel := some v`, or none) is
accepted by the predictor-independent monitor at `pred := viewPred cfg` -/
theorem accepts_any (cfg : Cfg) (lls : List LLevel) (h : Accepts cfg lls) :
    AcceptsAny cfg (viewPred cfg) lls := by
  cases lls with
  | nil => trivial
  | cons lv0 rest =>
    obtain ⟨st0, c, r, b, cap, hi, hrest⟩ := h
    exact ⟨st0, c, r, b, cap, hi, acceptsFrom_any cfg rest st0 hrest⟩

theorem levelOKAny_view (cfg : Cfg) (hist : List LLevel) (lv : LLevel) :
    LevelOKAny cfg (viewPred cfg) hist lv ↔ LevelOK cfg hist lv := Iff.rfl

theorem validHistAny_view (cfg : Cfg) (hist : List LLevel) :
    ValidHistAny cfg (viewPred cfg) hist ↔ ValidHist cfg hist := by
  induction hist with
  | nil => exact Iff.rfl
  | cons lv hist ih =>
    simp only [ValidHistAny, ValidHist, levelOKAny_view, ih]

/-- Props/C01 `accepted_valid` as the special case `pred := viewPred cfg` of `acceptedAny_valid` -/
theorem accepted_valid_from_any (cfg : Cfg) (lls : List LLevel) (h : Accepts cfg lls) :
    ValidHist cfg lls.reverse :=
  (validHistAny_view cfg lls.reverse).mp (acceptedAny_valid cfg (viewPred cfg) lls (accepts_any cfg lls h))

/-! ### a step only reads `pred` at its candidate sources -/

theorem linksAnyB_congr (cfg : Cfg) (pred pred' : Pred) (st : State) (t : Int) (dsts : List Pos)
    (labels : List Nat) (h : ∀ s ∈ st.srcs, pred s t = pred' s t) :
    linksAnyB cfg pred st t dsts labels = linksAnyB cfg pred' st t dsts labels := by
  simp only [linksAnyB]
  apply all_congr_mem
  intro x _
  obtain ⟨q, l⟩ := x
  simp only
  cases hf : st.srcs.find? (fun s => s.track == l) with
  | none => rfl
  | some s => simp only [h s (List.mem_of_find?_eq_some hf)]

/-- **Locality.**  Two predictors that agree on the candidate sources of a step at the time of the
new level give the same verdict for that step: a finite table of the predictions made in a run
determines the monitor's verdict on that run. -/
theorem stepCheckAny_congr (cfg : Cfg) (pred pred' : Pred) (st : State) (t : Int)
    (dsts : List Pos) (labels : List Nat) (h : ∀ s ∈ st.srcs, pred s t = pred' s t) :
    stepCheckAny cfg pred st t dsts labels = stepCheckAny cfg pred' st t dsts labels := by
  simp only [stepCheckAny, validAnyWhy, linksAnyB_congr cfg pred pred' st t dsts labels h]

/-! ### the executable monitor -/

theorem runAnyLoop_ok_accepts (cfg : Cfg) (pred : Pred) (ls : List Level) (st : State)
    (k r b : Nat) (h : (runAnyLoop cfg pred st k ls r b).verdict = "ok") :
    ∃ lls, toLLevels ls = some lls ∧ AcceptsAnyFrom cfg pred st lls := by
  induction ls generalizing st k r b with
  | nil => exact ⟨[], rfl, trivial⟩
  | cons l ls ih =>
    unfold runAnyLoop at h
    cases hl : l.labels with
    | none => rw [hl] at h; simp at h
    | some lab =>
      rw [hl] at h
      simp only at h
      cases hs : stepCheckAny cfg pred st l.t l.dsts lab with
      | error why => rw [hs] at h; simp at h
      | ok st' =>
        rw [hs] at h
        obtain ⟨lls, h1, h2⟩ := ih st' _ _ _ h
        refine ⟨{ t := l.t, dsts := l.dsts, labels := lab } :: lls, ?_, ?_⟩
        · simp [toLLevels, hl, h1]
        · exact ⟨st', hs, h2⟩

/-- The executable monitor answering `ok` means the movie is accepted by the relation. -/
theorem runCheckAny_ok_accepts (cfg : Cfg) (pred : Pred) (levels : List Level)
    (h : (runCheckAny cfg pred levels).verdict = "ok") :
    ∃ lls, toLLevels levels = some lls ∧ AcceptsAny cfg pred lls := by
  cases levels with
  | nil => exact ⟨[], rfl, trivial⟩
  | cons l0 rest =>
    simp only [runCheckAny] at h
    cases hl : l0.labels with
    | none => rw [hl] at h; simp at h
    | some lab0 =>
      rw [hl] at h
      simp only at h
      cases hi : initCheck l0.t l0.dsts lab0 with
      | ok st0 c r b cap =>
        rw [hi] at h
        simp only at h
        obtain ⟨lls, h1, h2⟩ := runAnyLoop_ok_accepts cfg pred rest st0 _ _ _ h
        refine ⟨{ t := l0.t, dsts := l0.dsts, labels := lab0 } :: lls, ?_, ?_⟩
        · simp [toLLevels, hl, h1]
        · exact ⟨st0, c, r, b, cap, hi, h2⟩
      | expectOversize => rw [hi] at h; simp at h
      | capped => rw [hi] at h; simp at h
      | bad why => rw [hi] at h; simp at h

/-! ## (c) non-vacuity (tests, labelled as such): a predictor that is NOT linear in time -/

/-- uniformly accelerated motion along the first axis: `x + (t - t_obs)²`, `y` unchanged -/
def exAccel : Pred := fun s t =>
  match s.pos with
  | x :: rest => (x + (t - s.t) * (t - s.t)) :: rest
  | [] => []

def exAnyCfg : Cfg := { w := [1, 1], B := 1, memory := 1, maxNeighbors := 10, maxSize := 30,
                        vel := none, drop := false }

/-- particle 0 jumps by 1 per frame (the prediction for one elapsed frame); particle 1 vanishes in
frame 1 and reappears in frame 2 displaced by 4 = 2² (found only by the quadratic prediction:
range² = 1); label 2 is born in frame 2 -/
def exAnyMovie : List Level :=
  [ { t := 0, dsts := [[0, 0], [10, 5]], labels := some [0, 1] },
    { t := 1, dsts := [[1, 0]], labels := some [0] },
    { t := 2, dsts := [[14, 5], [2, 1], [30, 30]], labels := some [1, 0, 2] } ]

/-- accepted with the quadratic predictor (memory re-link over a displacement of 4 included) … -/
example : (runCheckAny exAnyCfg exAccel exAnyMovie).verdict = "ok" := by decide

/-- … with 1 memory re-link and 3 births -/
example : (runCheckAny exAnyCfg exAccel exAnyMovie).relinks = 1 ∧
    (runCheckAny exAnyCfg exAccel exAnyMovie).births = 3 := by decide

/-- … rejected without predictor (so the parametric range test is not vacuous) -/
example : (runCheckAny exAnyCfg (viewPred exAnyCfg) exAnyMovie).reason =
    "link longer than search_range" := by decide

/-- … and rejected with the linear predictor of velocity (1, 0) -/
example : (runCheckAny exAnyCfg (viewPred (withVel exAnyCfg (some [1, 0]))) exAnyMovie).verdict =
    "bad" := by decide

/-- a label that comes back after `memory + 1 = 2` missed levels is rejected whatever the
predictor says (here: a predictor that puts every source exactly on every candidate) -/
example : (runCheckAny exAnyCfg (fun _ _ => [0, 0])
    [ { t := 0, dsts := [[0, 0]], labels := some [0] },
      { t := 1, dsts := [], labels := some [] },
      { t := 2, dsts := [], labels := some [] },
      { t := 3, dsts := [[0, 0]], labels := some [0] } ]).reason =
    "a new trajectory re-uses an old label" := by decide

/-- the same movie with one missed level only is accepted (memory = 1) -/
example : (runCheckAny exAnyCfg (fun _ _ => [0, 0])
    [ { t := 0, dsts := [[0, 0]], labels := some [0] },
      { t := 1, dsts := [], labels := some [] },
      { t := 2, dsts := [[0, 0]], labels := some [0] } ]).verdict = "ok" := by decide

/-- a label used twice in one level is rejected whatever the predictor says -/
example : (runCheckAny exAnyCfg (fun _ _ => [0, 0])
    [ { t := 0, dsts := [[0, 0]], labels := some [0] },
      { t := 1, dsts := [[0, 0], [0, 0]], labels := some [0, 0] } ]).reason =
    "label used twice in one level" := by decide

end TrackpyV.Linker
