import TrackpyV.Proofs.Relocate
import TrackpyV.Props.C01
/-!
# C14 — find_link re-finds lost features and emits only admissible ones  (PARTIAL)

Theorems about `Model/Relocate.lean` (the definitions the native driver executes in the op `RELOC`)
and about the labelling monitor `flRun` (op `FLRUN`).  They cover the ADMISSIBILITY half of the
property, for every image (any number of axes, shape, pixel values), every list of source
positions, every background list, every parameter set accepted by `wellFormed`:

* `reloc_outside_margin`        every relocated feature keeps the margin `rᵢ ≤ cᵢ ≤ nᵢ − rᵢ − 1`
                                (image coordinates);
* `reloc_within_search_range`   … lies within `search_range` (per axis: ellipsoid, edge included)
                                of one of the source positions it was searched around;
* `reloc_mutually_separated`    two relocated features of one call are at least `separation` apart;
* `reloc_clear_of_background`   … and at least `separation` from every background feature the
                                hash query returned; `reloc_clear_of_hash` extends this to every
                                feature of the current frame under the run-time-checked side
                                condition `uncovered = []` (driver field `uncovered`);
* `reloc_mass_ge_minmass`       the mass is finite (the feature region lies inside the masked
                                slice) and `≥ minmass`; `reloc_heaviest_first`;
* `reloc_above_threshold`       the candidate is a pixel of the masked slice strictly brighter than
                                the whole-image percentile threshold, and visible;
* `reloc_count_le_shortage`     at most `n` (= shortage) features are taken.
* `findlink_valid`, `findlink_labels_nodup`   every movie accepted by `flRun` is validly labelled
                                (Props/C01 `accepted_valid`): one label per feature, no label twice
                                per frame, links within `search_range` after ≤ memory skipped levels;
* `findlink_added_has_source`   every feature marked as added lies within `search_range` of the
                                last observation of a trajectory seen at most `memory+1` levels ago.

NOT PROVED (named gaps, exercised by the harness only):
-- FULL (not proved): recovery — for movies of well-separated blobs moving less than search_range
--   per frame the output contains the complete trajectories whatever detections are withheld
--   after the first frame; and it equals detect-then-link when nothing is withheld.  (Statements
--   about which local maxima blob images have; asserted by the harness in the `sep` regime.)
--   The model-level half is proved in `Props/C14Recover.lean` (the relocation returns every dominant
--   raw candidate with enough mass, the heaviest first); that a blob image has one stays exercised.
(`bg_radius_covers`, formerly a named gap replaced by the run-time check `uncovered = []`, is now
a theorem: `Props/C14Bg.lean` — `bg_radius_covers`, `uncovered_eq_nil`, `reloc_clear_of_hash_all`.
The labelling is no longer judged by the shadow relation alone: `Model/FindLinkAlgo.lean` models
one `FindLinker.next_level`, and `Props/C14Algo.lean` proves the clauses about that model and that
`flStep`/`flRun` below accept its output on every input.)
-/
namespace TrackpyV.Relocate
open TrackpyV.Find

/-! ## admissibility of the relocated features -/

/-- **reloc_outside_margin.**  Every feature returned by `get_relocate_candidates` keeps the
margin (`margin = radius = diameter // 2`) in IMAGE coordinates. -/
theorem reloc_outside_margin (cfg : Cfg) (img : Image) (bg pos : List IPos)
    (hr : cfg.radius.length = img.shape.length) (c : Pos) (v : Nat)
    (h : (c, v) ∈ relocateWith cfg img bg pos) : OutsideMargin img.shape cfg.radius c := by
  obtain ⟨sl, thr, hs, _, hin⟩ := relocateWith_cases h
  obtain ⟨q, rfl, hraw, _, _, _⟩ := mem_relocateIn hin
  obtain ⟨himg, _, hmar, _⟩ := mem_rawCandidates hraw
  obtain ⟨ho, hsh⟩ := getSlice_lengths hs
  have hq : q.length = sl.origin.length := by
    rw [ho, ← hsh]; exact himg.length_eq
  exact (outsideMargin_iff _ _ _ hr (by rw [addOrigin_length _ _ hq, ho])).mp hmar

/-- **reloc_within_search_range.**  Every returned feature lies within `search_range` of SOME
source position: `Σ ((cᵢ − pᵢ)/search_rangeᵢ)² ≤ 1`. -/
theorem reloc_within_search_range (cfg : Cfg) (img : Image) (bg pos : List IPos) (c : Pos)
    (v : Nat) (h : (c, v) ∈ relocateWith cfg img bg pos) :
    ∃ p ∈ pos, dist2 cfg.sr (toI c) p ≤ 1 := by
  obtain ⟨sl, thr, _, _, hin⟩ := relocateWith_cases h
  obtain ⟨q, rfl, hraw, _, _, _⟩ := mem_relocateIn hin
  obtain ⟨_, _, _, hrng⟩ := mem_rawCandidates hraw
  simp only [inRange, List.any_eq_true, decide_eq_true_eq] at hrng
  exact hrng

/-- **reloc_mutually_separated.**  Two different features returned by one call are at least
`separation` apart: `Σ ((cᵢ − c'ᵢ)/separationᵢ)² ≥ 1`. -/
theorem reloc_mutually_separated (cfg : Cfg) (img : Image) (bg pos : List IPos)
    (hsep : ∀ s ∈ cfg.sep, s ≠ 0) (c c' : Pos) (v v' : Nat)
    (h : (c, v) ∈ relocateWith cfg img bg pos) (h' : (c', v') ∈ relocateWith cfg img bg pos)
    (hne : c ≠ c') : 1 ≤ dist2 cfg.sep (toI c) (toI c') := by
  obtain ⟨sl, thr, hs, ht, hin⟩ := relocateWith_cases h
  obtain ⟨sl', thr', hs', ht', hin'⟩ := relocateWith_cases h'
  rw [hs] at hs'; rw [ht] at ht'
  injection hs' with hs'; injection ht' with ht'
  subst hs'; subst ht'
  obtain ⟨q, rfl, hraw, hd, _, _⟩ := mem_relocateIn hin
  obtain ⟨q', rfl, hraw', hd', _, _⟩ := mem_relocateIn hin'
  obtain ⟨ho, hsh⟩ := getSlice_lengths hs
  have hq : q.length = sl.shape.length := (mem_rawCandidates hraw).1.length_eq
  have hq' : q'.length = sl.shape.length := (mem_rawCandidates hraw').1.length_eq
  have hqq : q ≠ q' := fun e => hne (by rw [e])
  rw [dist2_addOrigin cfg.sep sl.origin q q' (by rw [hq, hq']) (by rw [hq, hsh, ho])]
  set m := maskedImage cfg img sl pos bg
  have hfne : featOf m (exactKeyPos cfg.sep) q ≠ featOf m (exactKeyPos cfg.sep) q' := by
    intro e
    apply hqq
    rw [← toPos_featOf m (exactKeyPos cfg.sep) q, ← toPos_featOf m (exactKeyPos cfg.sep) q', e]
  have hpw := dropClose_separated cfg.sep
    ((rawCandidates cfg img sl m thr pos).map (featOf m (exactKeyPos cfg.sep))) hsep
  rcases pair_sublist_of_mem hd hd' hfne with hsub | hsub
  · have := hpw _ _ hsub
    simp only [close, decide_eq_false_iff_not, not_lt] at this
    exact this
  · have := hpw _ _ hsub
    rw [close_comm] at this
    simp only [close, decide_eq_false_iff_not, not_lt] at this
    exact this

/-- **reloc_above_threshold.**  A returned feature is a pixel of the masked slice that is visible
(within `slice_radius` of a source, not closer than `separation` to a background feature),
strictly brighter than the whole-image percentile threshold, and not exceeded inside its dilation
box. -/
theorem reloc_above_threshold (cfg : Cfg) (img : Image) (bg pos : List IPos) (hp : 0 ≤ cfg.pct)
    (c : Pos) (v : Nat) (h : (c, v) ∈ relocateWith cfg img bg pos) :
    ∃ sl thr q, getSlice img.shape (sliceRadius cfg) pos = some sl ∧
      percentileThr img cfg.pct = some thr ∧ c = addOrigin sl.origin q ∧
      visible cfg sl.origin pos bg q = true ∧ thr < (img.pix c : Rat) ∧
      isMax (maskedImage cfg img sl pos bg) (dilationSize cfg) thr q = true := by
  obtain ⟨sl, thr, hs, ht, hin⟩ := relocateWith_cases h
  obtain ⟨q, rfl, hraw, _, _, _⟩ := mem_relocateIn hin
  obtain ⟨himg, hmax, _, _⟩ := mem_rawCandidates hraw
  have hthr0 := percentileThr_nonneg img cfg.pct hp thr ht
  have hpix : (maskedImage cfg img sl pos bg).pix q = maskedPix cfg img sl.origin pos bg q :=
    pix_mk sl.shape _ q himg
  have hgt : thr < ((maskedImage cfg img sl pos bg).pix q : Rat) := by
    simp only [isMax, Bool.and_eq_true, decide_eq_true_eq] at hmax
    exact hmax.1
  rw [hpix] at hgt
  unfold maskedPix at hgt
  by_cases hv : visible cfg sl.origin pos bg q = true
  · rw [if_pos hv] at hgt
    exact ⟨sl, thr, q, hs, ht, rfl, hv, hgt, hmax⟩
  · rw [if_neg hv] at hgt
    simp only [Nat.cast_zero] at hgt
    exact absurd hgt (not_lt.mpr hthr0)

/-- **reloc_clear_of_background.**  Every returned feature is at least `separation` away from
every background feature that was passed in (the result of the hash query):
`Σ ((cᵢ − bᵢ)/separationᵢ)² ≥ 1`. -/
theorem reloc_clear_of_background (cfg : Cfg) (img : Image) (bg pos : List IPos) (hp : 0 ≤ cfg.pct)
    (c : Pos) (v : Nat) (h : (c, v) ∈ relocateWith cfg img bg pos) (b : IPos) (hb : b ∈ bg) :
    1 ≤ dist2 cfg.sep (toI c) b := by
  obtain ⟨sl, thr, q, _, _, rfl, hv, _, _⟩ := reloc_above_threshold cfg img bg pos hp c v h
  simp only [visible, Bool.and_eq_true, Bool.not_eq_true', List.any_eq_false, decide_eq_true_eq,
    not_lt] at hv
  exact hv.2 b hb

/-- **reloc_clear_of_hash.**  With the run-time-checked side condition that the background query
missed no feature of the current frame that is closer than `separation` to a returned candidate
(`uncovered = []`, reported by the driver on every replayed call), every returned feature is at
least `separation` from EVERY feature of the current frame. -/
theorem reloc_clear_of_hash (cfg : Cfg) (img : Image) (hash pos : List IPos) (hp : 0 ≤ cfg.pct)
    (hcov : uncovered cfg hash (queryPoints cfg hash pos) (relocateCandidates cfg img hash pos) = [])
    (c : Pos) (v : Nat) (h : (c, v) ∈ relocateCandidates cfg img hash pos) (b : IPos)
    (hb : b ∈ hash) : 1 ≤ dist2 cfg.sep (toI c) b := by
  by_cases hbg : b ∈ queryPoints cfg hash pos
  · exact reloc_clear_of_background cfg img _ pos hp c v h b hbg
  · unfold uncovered at hcov
    rw [List.filter_eq_nil_iff] at hcov
    have := hcov b hb
    simp only [Bool.and_eq_true, Bool.not_eq_true', List.contains_eq_mem, decide_eq_false_iff_not,
      List.any_eq_true, decide_eq_true_eq, not_and, not_exists] at this
    have h2 := this hbg (c, v)
    simp only [not_lt] at h2
    exact h2 h

/-- **reloc_mass_ge_minmass.**  The mass of a returned feature is finite — its feature region
(`binary_mask(radius)` around it) lies inside the masked slice, on which it is the sum — and at
least `minmass`. -/
theorem reloc_mass_ge_minmass (cfg : Cfg) (img : Image) (bg pos : List IPos) (c : Pos) (v : Nat)
    (h : (c, v) ∈ relocateWith cfg img bg pos) :
    cfg.minmass ≤ (v : Rat) ∧
      ∃ sl q, getSlice img.shape (sliceRadius cfg) pos = some sl ∧ c = addOrigin sl.origin q ∧
        regionInside sl.shape cfg.radius q = true ∧
        massAt (maskedImage cfg img sl pos bg) cfg.radius q = some v := by
  obtain ⟨sl, thr, hs, _, hin⟩ := relocateWith_cases h
  obtain ⟨q, rfl, _, _, hm, hmass⟩ := mem_relocateIn hin
  refine ⟨hmass, sl, q, hs, rfl, ?_, hm⟩
  unfold massAt at hm
  split at hm
  · assumption
  · cases hm

/-- **reloc_heaviest_first.**  The features are returned heaviest first (so that the caller's
`[:shortage]` keeps the heaviest). -/
theorem reloc_heaviest_first (cfg : Cfg) (img : Image) (bg pos : List IPos) :
    (relocateWith cfg img bg pos).Pairwise (fun a b => b.2 ≤ a.2) := by
  unfold relocateWith
  split
  · unfold relocateIn
    exact List.Pairwise.map _ (fun a b hab => hab) (heaviestFirst_sorted _ _)
  · exact List.Pairwise.nil

/-- **reloc_count_le_shortage.**  `relocate(pos, n)` returns at most `n` features, all of them
results of `get_relocate_candidates`. -/
theorem reloc_count_le_shortage (cfg : Cfg) (img : Image) (hash pos : List IPos) (n : Nat) :
    (relocate cfg img hash pos n).length ≤ n ∧
      ∀ x ∈ relocate cfg img hash pos n, x ∈ relocateCandidates cfg img hash pos :=
  ⟨List.length_take_le _ _, fun _ hx => List.mem_of_mem_take hx⟩

/-- all admissibility clauses for the features `FindLinker.relocate` hands to the linker -/
theorem relocate_admissible (cfg : Cfg) (img : Image) (hash pos : List IPos) (n : Nat)
    (hw : wellFormed cfg img = true) (hp : 0 ≤ cfg.pct) (c : Pos) (v : Nat)
    (h : (c, v) ∈ relocate cfg img hash pos n) :
    OutsideMargin img.shape cfg.radius c ∧ (∃ p ∈ pos, dist2 cfg.sr (toI c) p ≤ 1) ∧
      cfg.minmass ≤ (v : Rat) ∧ (∀ b ∈ queryPoints cfg hash pos, 1 ≤ dist2 cfg.sep (toI c) b) ∧
      (∀ c' v', (c', v') ∈ relocate cfg img hash pos n → c ≠ c' →
        1 ≤ dist2 cfg.sep (toI c) (toI c')) := by
  have hc := (reloc_count_le_shortage cfg img hash pos n).2 _ h
  simp only [wellFormed, Bool.and_eq_true, decide_eq_true_eq, List.all_eq_true] at hw
  obtain ⟨⟨⟨⟨⟨⟨⟨_, hr⟩, _⟩, _⟩, _⟩, hsep⟩, _⟩, _⟩ := hw
  have hsep' : ∀ s ∈ cfg.sep, s ≠ 0 := fun s hs => ne_of_gt (hsep s hs).1
  refine ⟨reloc_outside_margin cfg img _ pos hr c v hc,
    reloc_within_search_range cfg img _ pos c v hc,
    (reloc_mass_ge_minmass cfg img _ pos c v hc).1,
    fun b hb => reloc_clear_of_background cfg img _ pos hp c v hc b hb, ?_⟩
  intro c' v' h' hne
  exact reloc_mutually_separated cfg img _ pos hsep' c c' v v' hc
    ((reloc_count_le_shortage cfg img hash pos n).2 _ h') hne

/-! ## the labelling -/

open TrackpyV.Linker

def FLevel.toL (lv : FLevel) : LLevel := { t := lv.t, dsts := lv.dsts, labels := lv.labels }

theorem flStep_some {cfg : Linker.Cfg} {st st' : State} {t : Int} {dsts : List Linker.Pos}
    {labels added : List Nat} (h : flStep cfg st t dsts labels added = some st') :
    (∃ c r b cap, stepCheck cfg st t dsts (some labels) = .ok st' c r b cap) ∧
      addedOkB cfg st t dsts added = true := by
  unfold flStep at h
  split at h
  · rename_i st'' c r b cap hs
    split at h
    · rename_i ha
      injection h with h
      subst h
      exact ⟨⟨c, r, b, cap, hs⟩, ha⟩
    · cases h
  · cases h

theorem flRunFrom_accepts (cfg : Linker.Cfg) : ∀ (ls : List FLevel) (st : State) (k : Nat),
    flRunFrom cfg st k ls = none → AcceptsFrom cfg st (ls.map FLevel.toL)
  | [], _, _, _ => trivial
  | lv :: rest, st, k, h => by
    unfold flRunFrom at h
    split at h
    · rename_i st' hs
      obtain ⟨⟨c, r, b, cap, hsc⟩, _⟩ := flStep_some hs
      exact ⟨st', c, r, b, cap, hsc, flRunFrom_accepts cfg rest st' (k + 1) h⟩
    · cases h

theorem flRun_accepts (cfg : Linker.Cfg) (ls : List FLevel) (h : flRun cfg ls = none) :
    Accepts cfg (ls.map FLevel.toL) := by
  cases ls with
  | nil => trivial
  | cons lv0 rest =>
    simp only [flRun] at h
    split at h
    · rename_i st0 c r b cap hi
      split at h
      · exact ⟨st0, c, r, b, cap, hi, flRunFrom_accepts cfg rest st0 1 h⟩
      · cases h
    · cases h

/-- **findlink_valid.**  Every labelled movie accepted by the find_link monitor is validly
labelled in the sense of C01 (relocation changes the destination set of a step, not the rules
its labels obey). -/
theorem findlink_valid (cfg : Linker.Cfg) (ls : List FLevel) (h : flRun cfg ls = none) :
    ValidHist cfg (ls.map FLevel.toL).reverse :=
  accepted_valid cfg _ (flRun_accepts cfg ls h)

theorem validHist_levels (cfg : Linker.Cfg) : ∀ (hist : List LLevel), ValidHist cfg hist →
    ∀ lv ∈ hist, lv.labels.Nodup ∧ lv.labels.length = lv.dsts.length
  | [], _, lv, hm => by simp at hm
  | l :: hist, h, lv, hm => by
    rcases List.mem_cons.mp hm with rfl | hm
    · exact ⟨h.1.2.1, h.1.1⟩
    · exact validHist_levels cfg hist h.2 lv hm

/-- **findlink_labels_nodup.**  In every frame of an accepted find_link output each feature has
one label and no label occurs twice. -/
theorem findlink_labels_nodup (cfg : Linker.Cfg) (ls : List FLevel) (h : flRun cfg ls = none) :
    ∀ lv ∈ ls, lv.labels.Nodup ∧ lv.labels.length = lv.dsts.length := by
  intro lv hm
  have := validHist_levels cfg _ (findlink_valid cfg ls h) lv.toL
    (List.mem_reverse.mpr (List.mem_map_of_mem hm))
  exact this

/-- one step: every added feature has a source of this step within search range -/
theorem flStep_added_has_source {cfg : Linker.Cfg} {st st' : State} {t : Int}
    {dsts : List Linker.Pos} {labels added : List Nat}
    (h : flStep cfg st t dsts labels added = some st') :
    ∀ j ∈ added, ∃ q s, dsts[j]? = some q ∧ s ∈ st.srcs ∧
      Linker.dist2 cfg.w (view cfg t s) q ≤ cfg.B := by
  obtain ⟨_, ha⟩ := flStep_some h
  intro j hj
  simp only [addedOkB, List.all_eq_true] at ha
  have := ha j hj
  split at this
  · rename_i q hq
    simp only [List.any_eq_true, decide_eq_true_eq] at this
    obtain ⟨s, hs, hd⟩ := this
    exact ⟨q, s, hq, hs, hd⟩
  · cases this

/-- the state reached after an accepted prefix satisfies the invariant w.r.t. that prefix, and
the next level is accepted from it -/
theorem flRunFrom_split (cfg : Linker.Cfg) (lv : FLevel) (post : List FLevel) :
    ∀ (pre : List FLevel) (st : State) (k : Nat) (hist : List LLevel), Inv cfg st hist →
      flRunFrom cfg st k (pre ++ lv :: post) = none →
      ∃ st1 st2, Inv cfg st1 ((pre.map FLevel.toL).reverse ++ hist) ∧
        flStep cfg st1 lv.t lv.dsts lv.labels lv.added = some st2
  | [], st, k, hist, hinv, h => by
    simp only [List.nil_append] at h
    unfold flRunFrom at h
    split at h
    · rename_i st' hs
      exact ⟨st, st', by simpa using hinv, hs⟩
    · cases h
  | a :: pre, st, k, hist, hinv, h => by
    simp only [List.cons_append] at h
    unfold flRunFrom at h
    split at h
    · rename_i st' hs
      obtain ⟨⟨c, r, b, cap, hsc⟩, _⟩ := flStep_some hs
      obtain ⟨hv, rfl, _⟩ := stepCheck_ok hsc
      obtain ⟨_, hinv'⟩ := step_preserves hinv hv
      obtain ⟨st1, st2, h1, h2⟩ := flRunFrom_split cfg lv post pre _ (k + 1) (a.toL :: hist) hinv' h
      refine ⟨st1, st2, ?_, h2⟩
      simpa [FLevel.toL] using h1
    · cases h

/-- **findlink_added_has_source.**  In an accepted find_link output, every feature that was added
by relocation (not among the detections handed in) in a level after the first lies within
`search_range` of the LAST OBSERVATION of some trajectory `l`, made at most `memory` levels before
the previous level — i.e. of a feature of one of the preceding `memory+1` frames. -/
theorem findlink_added_has_source (cfg : Linker.Cfg) (lv0 : FLevel) (pre : List FLevel)
    (lv : FLevel) (post : List FLevel) (h : flRun cfg (lv0 :: pre ++ lv :: post) = none) :
    ∀ j ∈ lv.added, ∃ q l age p t0, lv.dsts[j]? = some q ∧
      lastObs (((lv0 :: pre).map FLevel.toL).reverse) l = some (age, p, t0) ∧ age ≤ cfg.memory ∧
      Linker.dist2 cfg.w (viewAt cfg lv.t p t0) q ≤ cfg.B := by
  simp only [List.cons_append, flRun] at h
  split at h
  · rename_i st0 c r b cap hi
    split at h
    · obtain ⟨_, hinv0⟩ := initCheck_ok cfg hi
      obtain ⟨st1, st2, hinv, hstep⟩ := flRunFrom_split cfg lv post pre st0 1 _ hinv0 h
      intro j hj
      obtain ⟨q, s, hq, hs, hd⟩ := flStep_added_has_source hstep j hj
      obtain ⟨hlast, hage⟩ := hinv.src_last s hs
      refine ⟨q, s.track, s.age, s.pos, s.t, hq, ?_, hage, ?_⟩
      · have : ((lv0 :: pre).map FLevel.toL).reverse
            = (pre.map FLevel.toL).reverse ++ [{ t := lv0.t, dsts := lv0.dsts, labels := lv0.labels }] := by
          simp [FLevel.toL]
        rw [this]; exact hlast
      · rw [← view_eq_viewAt]; exact hd
    · cases h
  · cases h

/-! ## non-vacuity (tests, labelled as such) -/

/-- 9×9 image, background 1, a peak (9) at (4,5) with a halo, a dimmer peak (5) at (4,1) -/
def exImg : Image := ⟨[9, 9],
  #[1, 1, 1, 1, 1, 1, 1, 1, 1,
    1, 1, 1, 1, 1, 1, 1, 1, 1,
    1, 1, 1, 1, 1, 1, 1, 1, 1,
    1, 1, 1, 1, 1, 3, 1, 1, 1,
    1, 5, 1, 1, 3, 9, 3, 1, 1,
    1, 1, 1, 1, 1, 3, 1, 1, 1,
    1, 1, 1, 1, 1, 1, 1, 1, 1,
    1, 1, 1, 1, 1, 1, 1, 1, 1,
    1, 1, 1, 1, 1, 1, 1, 1, 1]⟩

def exCfg : Cfg := { radius := [1, 1], sep := [3, 3], sr := [2, 2], pct := 64, minmass := 5 }

example : wellFormed exCfg exImg = true := by decide +kernel
example : sliceRadius exCfg = [4, 4] ∧ dilationSize exCfg = [4, 4] ∧ bgRadius exCfg = 7 := by
  decide +kernel
/-- a source lost at (4,4): the peak one pixel to the right is re-found, mass 9+3+3+3+3 = 21;
the dimmer peak at (4,1) is out of range -/
example : relocateWith exCfg exImg [] [[4, 4]] = [([4, 5], 21)] := by decide +kernel
/-- … not when a feature of the current frame sits within separation of it: with (4,6) in the
hash everything bright is masked; with (4,7) the peak is masked and its halo pixel (4,4) remains -/
example : relocateWith exCfg exImg [[4, 6]] [[4, 4]] = [] := by decide +kernel
example : relocateWith exCfg exImg [[4, 7]] [[4, 4]] = [([4, 4], 6)] := by decide +kernel
/-- … a background feature exactly `separation` away does not mask the peak (edge excluded); it
masks the halo pixel (4,6), which is missing from the mass -/
example : relocateWith exCfg exImg [[4, 8]] [[4, 4]] = [([4, 5], 18)] := by decide +kernel
/-- the hash query: radius 4 + max(1+1, 3) = 7 around the source -/
example : queryPoints exCfg [[4, 8], [0, 0], [8, 8]] [[1, 1]] = [[0, 0]] := by decide +kernel
/-- the peak at (4,1) keeps the margin (radius 1) and is found around a source at (4,2); in a
margin of 2 it would not be -/
example : relocateWith exCfg exImg [] [[4, 2]] = [([4, 1], 9)] := by decide +kernel
example : relocateWith { exCfg with radius := [2, 2] } exImg [] [[4, 2]] = [] := by decide +kernel
/-- two sources, two candidates, heaviest first; shortage 1 keeps the heaviest -/
example : relocateWith exCfg exImg [] [[4, 2], [4, 4]] = [([4, 5], 21), ([4, 1], 9)] := by
  decide +kernel
example : relocate exCfg exImg [] [[4, 2], [4, 4]] 1 = [([4, 5], 21)] := by decide +kernel
/-- minmass filters -/
example : relocateWith { exCfg with minmass := 10 } exImg [] [[4, 2], [4, 4]] = [([4, 5], 21)] := by
  decide +kernel

def exL : Linker.Cfg := { w := [1, 1], B := 9, memory := 0, maxNeighbors := 10, maxSize := 30,
                          vel := none, drop := false, noOpt := true }

/-- a two-frame movie whose second feature of frame 1 was added by relocation -/
def exMovie : List FLevel :=
  [ { t := 0, dsts := [[0, 0], [10, 0]], labels := [0, 1], added := [] },
    { t := 1, dsts := [[1, 0], [11, 1]], labels := [0, 1], added := [1] } ]

set_option maxRecDepth 4000 in
example : flRun exL exMovie = none := by decide +kernel
/-- an "added" feature far from every source is rejected -/
example : flRun exL [ { t := 0, dsts := [[0, 0]], labels := [0], added := [] },
    { t := 1, dsts := [[1, 0], [20, 20]], labels := [0, 1], added := [1] } ] = some 1 := by
  decide +kernel

end TrackpyV.Relocate
