import TrackpyV.Props.C14Recover
/-!
# C14 — "… and equals detect-then-link when nothing is withheld": the model-level core

`find_link` = detection (first pass of `find_link_iter`) + `FindLinker.next_level`; `link` after
`locate` = the same detection + `Linker.next_level`.  Here: the two `next_level`s AGREE on a level
on which `FindLinker` has nothing to re-find.  Step model of `FindLinker.next_level`:
`Model/FindLinkAlgo.lean` (`flAlgoStep`); plain linker step: `Model/LinkerAlgo.lean` (`algoLabels`).

* `flAlgoStep_no_short`      (a) if no sub-net of the step has a shortage (`short g = false` for
                             every `g ∈ flGroups`), the relocation oracle is never consulted: for
                             EVERY oracle the emitted level is the detected level, nothing is added;
* `flAlgoStep_labels_no_short`   … and the labels are `labelOf` of the per-sub-net solutions of
                             `flGroups` (the plain solver `groupChoice` on each — possibly MERGED —
                             sub-net);
* `flGroups_eq_of_noShort1`  if no sub-net has a shortage BEFORE `merge_lost_subnets`
                             (`NoShort1`: every sub-net of the plain linker has at least as many
                             destinations as sources and every source has a candidate), nothing is
                             merged and `include_lost` adds nothing: `flGroups` is the plain linker's
                             `stepGroups` in dict order (`orderGroups`, a permutation);
* `flAlgoStep_eq_algoLabels` (b) under `NoShort1` the labels are EXACTLY those of the plain linker
                             step, `algoLabels cfg st t dsts = some (flAlgoStep …).labels` — no
                             uniqueness hypothesis: the sub-nets are the same, solved by the same
                             deterministic solver on the same candidate lists, only visited in a
                             different order, and a destination is chosen in one sub-net only;
* `flAlgoRun_eq_algoMovie`   (c) whole movies: if no step has a shortage (and no sub-net is
                             oversize, where the plain linker raises), the find_link model emits
                             exactly the detected levels, adds nothing, and its labels are those of
                             `algoMovie` (which does not raise); the states coincide step by step;
* `short_group_consults_oracle`  (d) witness: with one lost source the oracle's answer changes the
                             output, so the hypothesis of (a) is needed;
* `noShort_flGroups_not_noShort1_witness`  the hypothesis of (a) is strictly WEAKER than `NoShort1`:
                             a sub-net with a shortage can be merged with a neighbour that has a
                             surplus; the merged sub-net has no shortage (nothing is relocated), but
                             it is solved as ONE assignment problem.

-- (b) under the hypothesis of (a) alone (`∀ g ∈ flGroups, short g = false`): `Props/C14Merged.lean`.
--   `flGroups` may contain unions of plain sub-nets (see the witness); there: the optimum COST of a
--   union is the sum of the optima (`merged_group_cost`, from `Props/C02.groups_compose_list`), the
--   step's total cost is the plain linker's (+ one null link per candidate-less source,
--   `flAlgoStep_cost_eq_plain`), and with a unique optimum in every plain sub-net the labels are the
--   plain linker's (`flAlgoStep_eq_algoLabels_of_unique`).
-- FULL (not proved): label equality when a merged plain sub-net has a TIED optimum — the
--   branch-and-bound on the concatenated candidate lists returns the concatenation of the parts'
--   solutions only up to ties (neither proved nor refuted on a witness).
-/
namespace TrackpyV.FindLink
open TrackpyV.Linker TrackpyV.Assign
open TrackpyV.Relocate (FLevel)

/-! ## (a) without a shortage the oracle is not consulted -/

theorem processGroup_not_short (cfg : Cfg) (st : State) (t : Int) (orc : Oracle) (n0 : Nat)
    (acc : Acc) (g : Group) (h : short g = false) :
    (processGroup cfg st t orc n0 acc g).lvl = acc.lvl ∧
      (processGroup cfg st t orc n0 acc g).masses = acc.masses := by
  simp [processGroup, h]

theorem foldl_processGroup_not_short (cfg : Cfg) (st : State) (t : Int) (orc : Oracle) (n0 : Nat) :
    ∀ (gs : List Group) (acc : Acc), (∀ g ∈ gs, short g = false) →
      (gs.foldl (processGroup cfg st t orc n0) acc).lvl = acc.lvl ∧
      (gs.foldl (processGroup cfg st t orc n0) acc).masses = acc.masses
  | [], _, _ => ⟨rfl, rfl⟩
  | g :: gs, acc, h => by
    obtain ⟨h1, h2⟩ := processGroup_not_short cfg st t orc n0 acc g (h g (List.mem_cons_self ..))
    obtain ⟨h3, h4⟩ := foldl_processGroup_not_short cfg st t orc n0 gs
      (processGroup cfg st t orc n0 acc g) (fun g' hg' => h g' (List.mem_cons_of_mem _ hg'))
    simp only [List.foldl_cons]
    exact ⟨h3.trans h1, h4.trans h2⟩

/-- **flAlgoStep_no_short** (C14, "equals detect-then-link when nothing is withheld", part (a)).
If no sub-net of the step has more sources than destinations, then for EVERY oracle — the
relocation is never consulted — the step emits exactly the detected level and adds nothing. -/
theorem flAlgoStep_no_short (cfg : Cfg) (st : State) (t : Int) (orc : Oracle) (dsts : List Pos)
    (h : ∀ g ∈ flGroups cfg st t dsts, short g = false) :
    (flAlgoStep cfg st t orc dsts).dsts = dsts ∧ (flAlgoStep cfg st t orc dsts).added = [] ∧
      (flAlgoStep cfg st t orc dsts).masses = [] := by
  obtain ⟨h1, h2⟩ := foldl_processGroup_not_short cfg st t orc dsts.length
    (flGroups cfg st t dsts) { lvl := dsts, masses := [], choices := [] } h
  refine ⟨h1, ?_, h2⟩
  show List.range' dsts.length ((flAcc cfg st t orc dsts).lvl.length - dsts.length) = []
  have : (flAcc cfg st t orc dsts).lvl = dsts := h1
  rw [this]
  simp

/-- the output does not depend on the oracle when no sub-net has a shortage -/
theorem flAlgoStep_oracle_irrelevant (cfg : Cfg) (st : State) (t : Int) (orc orc' : Oracle)
    (dsts : List Pos) (h : ∀ g ∈ flGroups cfg st t dsts, short g = false) :
    flAlgoStep cfg st t orc dsts = flAlgoStep cfg st t orc' dsts := by
  have key : ∀ (gs : List Group) (acc : Acc), (∀ g ∈ gs, short g = false) →
      gs.foldl (processGroup cfg st t orc dsts.length) acc =
        gs.foldl (processGroup cfg st t orc' dsts.length) acc := by
    intro gs
    induction gs with
    | nil => intro _ _; rfl
    | cons g gs ih =>
      intro acc hs
      have hg := hs g (List.mem_cons_self ..)
      have e : processGroup cfg st t orc dsts.length acc g =
          processGroup cfg st t orc' dsts.length acc g := by
        simp [processGroup, hg]
      simp only [List.foldl_cons, e]
      exact ih _ (fun g' hg' => hs g' (List.mem_cons_of_mem _ hg'))
  unfold flAlgoStep flAcc
  rw [key _ _ h]

/-! ## the choices without a shortage: the plain solver on each sub-net of `flGroups` -/

/-- with nothing added the candidate lists `processGroup` hands to the solver are the plain
linker's -/
theorem fcands_eq_srcOf (cfg : Cfg) (st : State) (t : Int) (dsts : List Pos) (i : Nat) :
    fcands cfg st t dsts.length dsts.length dsts i = srcOf (stepCands cfg st t dsts) i := by
  have hk : ∀ l : List Cand, l.filter (keepCand dsts.length dsts.length) = l := by
    intro l
    rw [List.filter_eq_self]
    intro c _
    unfold keepCand
    cases c.1 with
    | none => rfl
    | some j =>
      simp only [Bool.or_eq_true, decide_eq_true_eq]
      omega
  unfold fcands srcOf getD' stepCands
  rw [List.getElem?_map]
  cases st.srcs[i]? with
  | none => rfl
  | some s => simp [hk]

theorem processGroup_choices_not_short (cfg : Cfg) (st : State) (t : Int) (orc : Oracle)
    (dsts : List Pos) (acc : Acc) (g : Group) (hl : acc.lvl = dsts) (h : short g = false) :
    (processGroup cfg st t orc dsts.length acc g).choices =
      acc.choices ++ gch cfg st t dsts g := by
  have hf : fcands cfg st t dsts.length dsts.length dsts = srcOf (stepCands cfg st t dsts) :=
    funext (fcands_eq_srcOf cfg st t dsts)
  simp only [processGroup, h, Bool.false_eq_true, if_false, List.filter_nil, List.map_nil,
    List.append_nil, hl, hf, gch, groupChoice]
  congr 1
  by_cases he : g.1.isEmpty = true
  · simp [he]
  · simp only [he]
    cases solveOrdered (g.1.map (srcOf (stepCands cfg st t dsts))) with
    | none => rfl
    | some r => rfl

theorem foldl_processGroup_choices (cfg : Cfg) (st : State) (t : Int) (orc : Oracle)
    (dsts : List Pos) :
    ∀ (gs : List Group) (acc : Acc), acc.lvl = dsts → (∀ g ∈ gs, short g = false) →
      (gs.foldl (processGroup cfg st t orc dsts.length) acc).choices =
        acc.choices ++ gs.flatMap (gch cfg st t dsts)
  | [], _, _, _ => by simp
  | g :: gs, acc, hl, h => by
    have hg := h g (List.mem_cons_self ..)
    have h1 := (processGroup_not_short cfg st t orc dsts.length acc g hg).1
    have h2 := processGroup_choices_not_short cfg st t orc dsts acc g hl hg
    have h3 := foldl_processGroup_choices cfg st t orc dsts gs
      (processGroup cfg st t orc dsts.length acc g) (h1.trans hl)
      (fun g' hg' => h g' (List.mem_cons_of_mem _ hg'))
    simp only [List.foldl_cons, List.flatMap_cons]
    rw [h3, h2, List.append_assoc]

/-- **flAlgoStep_labels_no_short.**  Under the hypothesis of (a) the labels are `labelOf` applied
to the plain solver's choices (`gch` = `groupChoice` on the plain candidate lists) on the sub-nets
of `flGroups` — which may be unions of plain sub-nets (`noShort_flGroups_not_noShort1_witness`). -/
theorem flAlgoStep_labels_no_short (cfg : Cfg) (st : State) (t : Int) (orc : Oracle)
    (dsts : List Pos) (h : ∀ g ∈ flGroups cfg st t dsts, short g = false) :
    (flAlgoStep cfg st t orc dsts).labels =
      (List.range dsts.length).map
        (labelOf st ((flGroups cfg st t dsts).flatMap (gch cfg st t dsts))) := by
  have h1 := (foldl_processGroup_not_short cfg st t orc dsts.length
    (flGroups cfg st t dsts) { lvl := dsts, masses := [], choices := [] } h).1
  have h2 := foldl_processGroup_choices cfg st t orc dsts (flGroups cfg st t dsts)
    { lvl := dsts, masses := [], choices := [] } rfl h
  show (List.range (flAcc cfg st t orc dsts).lvl.length).map
    (labelOf st (flAcc cfg st t orc dsts).choices) = _
  have e1 : (flAcc cfg st t orc dsts).lvl = dsts := h1
  have e2 : (flAcc cfg st t orc dsts).choices =
      (flGroups cfg st t dsts).flatMap (gch cfg st t dsts) := by
    have : (flAcc cfg st t orc dsts).choices = [] ++ _ := h2
    simpa using this
  rw [e1, e2]

/-! ## no shortage before merging: the sub-nets are the plain linker's -/

/-- no sub-net has a shortage after `include_lost`, before `merge_lost_subnets`: every sub-net of
the plain linker has at least as many destinations as sources, and no source is without a
candidate (`noShort1_iff`) -/
def NoShort1 (cfg : Cfg) (st : State) (t : Int) (dsts : List Pos) : Prop :=
  ∀ g ∈ groups1 cfg st t dsts, short g = false

instance (cfg : Cfg) (st : State) (t : Int) (dsts : List Pos) : Decidable (NoShort1 cfg st t dsts) :=
  inferInstanceAs (Decidable (∀ g ∈ groups1 cfg st t dsts, short g = false))

theorem lostSingles_short (cands : List (List Cand)) : ∀ g ∈ lostSingles cands, short g = true := by
  intro g hg
  simp only [lostSingles, List.mem_map] at hg
  obtain ⟨i, _, rfl⟩ := hg
  rfl

theorem noShort1_iff (cfg : Cfg) (st : State) (t : Int) (dsts : List Pos) :
    NoShort1 cfg st t dsts ↔
      (∀ g ∈ stepGroups cfg st t dsts, short g = false) ∧
        lostSingles (stepCands cfg st t dsts) = [] := by
  unfold NoShort1 groups1
  constructor
  · intro h
    refine ⟨fun g hg => h g (List.mem_append_left _ ((orderGroups_perm _).mem_iff.mpr hg)), ?_⟩
    cases hl : lostSingles (stepCands cfg st t dsts) with
    | nil => rfl
    | cons g gs =>
      have hm : g ∈ lostSingles (stepCands cfg st t dsts) := by rw [hl]; exact List.mem_cons_self ..
      have h1 := h g (List.mem_append_right _ hm)
      rw [lostSingles_short _ g hm] at h1
      cases h1
  · rintro ⟨h1, h2⟩ g hg
    rw [h2, List.append_nil] at hg
    exact h1 g ((orderGroups_perm _).mem_iff.mp hg)

theorem mergeLost_of_no_short (cfg : Cfg) (st : State) (t : Int) (gs : List Group)
    (h : ∀ g ∈ gs, short g = false) : mergeLost cfg st t gs = gs := by
  have : gs.filter short = [] := by
    rw [List.filter_eq_nil_iff]
    intro g hg
    simp [h g hg]
  simp [mergeLost, lostSources, this]

/-- **flGroups_eq_of_noShort1.**  Without a shortage before merging, `include_lost` adds nothing
and `merge_lost_subnets` merges nothing: FindLinker iterates over the plain linker's sub-nets. -/
theorem flGroups_eq_of_noShort1 (cfg : Cfg) (st : State) (t : Int) (dsts : List Pos)
    (h : NoShort1 cfg st t dsts) :
    flGroups cfg st t dsts = orderGroups (stepGroups cfg st t dsts) := by
  unfold flGroups
  rw [mergeLost_of_no_short cfg st t _ h]
  unfold groups1
  rw [((noShort1_iff cfg st t dsts).mp h).2, List.append_nil]

/-- `NoShort1` implies the hypothesis of (a) -/
theorem noShort_of_noShort1 (cfg : Cfg) (st : State) (t : Int) (dsts : List Pos)
    (h : NoShort1 cfg st t dsts) : ∀ g ∈ flGroups cfg st t dsts, short g = false := by
  intro g hg
  rw [flGroups_eq_of_noShort1 cfg st t dsts h] at hg
  exact ((noShort1_iff cfg st t dsts).mp h).1 g ((orderGroups_perm _).mem_iff.mp hg)

/-! ## (b) the labels are the plain linker's -/

/-- visiting the plain sub-nets in another order does not change a label: a destination is chosen
in one sub-net only (`choices_dest_inj`) -/
theorem labelOf_perm_choices (cfg : Cfg) (st : State) (t : Int) (dsts : List Pos)
    (ch : List (Nat × Cand)) (hp : ch.Perm (choices cfg st t dsts)) (j : Nat) :
    labelOf st ch j = labelOf st (choices cfg st t dsts) j := by
  rcases labelOf_cases' st ch j with ⟨x, hx, hxj, hl⟩ | ⟨hno, hl⟩
  · rw [hl, labelOf_chosen cfg st t dsts x (hp.mem_iff.mp hx) j hxj]
  · rcases labelOf_cases cfg st t dsts j with ⟨y, hy, hyj, _⟩ | ⟨_, hl'⟩
    · exact absurd hyj (hno y (hp.mem_iff.mpr hy))
    · rw [hl, hl']

/-- **flAlgoStep_eq_algoLabels** (C14, "equals detect-then-link when nothing is withheld",
part (b)).  If no sub-net has a shortage (before merging: `NoShort1`), the labels `FindLinker`
gives the level are EXACTLY the labels of the plain linker step on the same state and level, for
every oracle.  No uniqueness-of-optimum hypothesis. -/
theorem flAlgoStep_eq_algoLabels (cfg : Cfg) (st : State) (t : Int) (orc : Oracle)
    (dsts : List Pos) (h : NoShort1 cfg st t dsts) :
    algoLabels cfg st t dsts = some (flAlgoStep cfg st t orc dsts).labels := by
  rw [algoLabels_eq, flAlgoStep_labels_no_short cfg st t orc dsts
    (noShort_of_noShort1 cfg st t dsts h), flGroups_eq_of_noShort1 cfg st t dsts h]
  congr 1
  unfold algoLab
  apply List.map_congr_left
  intro j _
  exact (labelOf_perm_choices cfg st t dsts _
    ((orderGroups_perm (stepGroups cfg st t dsts)).flatMap_right _) j).symm

/-- the whole step, in one statement -/
theorem flAlgoStep_eq_plain (cfg : Cfg) (st : State) (t : Int) (orc : Oracle)
    (dsts : List Pos) (h : NoShort1 cfg st t dsts) :
    flAlgoStep cfg st t orc dsts =
      { dsts := dsts, added := [], masses := [], labels := algoLab cfg st t dsts } := by
  obtain ⟨h1, h2, h3⟩ := flAlgoStep_no_short cfg st t orc dsts (noShort_of_noShort1 cfg st t dsts h)
  have h4 := flAlgoStep_eq_algoLabels cfg st t orc dsts h
  rw [algoLabels_eq] at h4
  have h5 : (flAlgoStep cfg st t orc dsts).labels = algoLab cfg st t dsts := (Option.some.inj h4).symm
  cases hs : flAlgoStep cfg st t orc dsts with
  | mk d a m l =>
    rw [hs] at h1 h2 h3 h5
    simp only at h1 h2 h3 h5
    rw [h1, h2, h3, h5]

/-! ## (c) whole movies -/

/-- no step of the find_link run has a shortage, and no sub-net is oversize (where the plain
linker raises `SubnetOversizeException`) -/
def NoShortRun (cfg : Cfg) : State → List Frame → Prop
  | _, [] => True
  | st, (t, dsts, orc) :: rest =>
    NoShort1 cfg st t dsts ∧ oversizeB cfg (stepGroups cfg st t dsts) = false ∧
    NoShortRun cfg (nextState cfg st t (flAlgoStep cfg st t orc dsts).dsts
      (flAlgoStep cfg st t orc dsts).labels) rest

/-- the detections of a movie, as the plain linker sees them -/
def detections (frames : List Frame) : List (Int × List Pos) := frames.map (fun f => (f.1, f.2.1))

theorem flAlgoRunFrom_eq_algoFrom (cfg : Cfg) :
    ∀ (frames : List Frame) (st : State), NoShortRun cfg st frames →
      (flAlgoRunFrom cfg st frames).map (fun l => (l.t, l.dsts)) = detections frames ∧
      (∀ l ∈ flAlgoRunFrom cfg st frames, l.added = []) ∧
      algoFrom cfg st (detections frames) =
        ((flAlgoRunFrom cfg st frames).map (·.labels), false)
  | [], _, _ => ⟨rfl, by simp [flAlgoRunFrom], rfl⟩
  | (t, dsts, orc) :: rest, st, h => by
    obtain ⟨hns, hov, hrest⟩ := h
    have hstep := flAlgoStep_eq_plain cfg st t orc dsts hns
    rw [hstep] at hrest
    obtain ⟨ih1, ih2, ih3⟩ := flAlgoRunFrom_eq_algoFrom cfg rest _ hrest
    have hj : jobLabels cfg st t dsts = some (algoLab cfg st t dsts) := by
      simp [jobLabels, hov, algoLabels_eq]
    refine ⟨?_, ?_, ?_⟩
    · simp only [flAlgoRunFrom, hstep, List.map_cons, detections] at ih1 ⊢
      rw [ih1]
    · intro l hl
      simp only [flAlgoRunFrom, hstep, List.mem_cons] at hl
      rcases hl with rfl | hl
      · rfl
      · exact ih2 l hl
    · simp only [flAlgoRunFrom, hstep, List.map_cons, detections, algoFrom, hj] at ih3 ⊢
      rw [ih3]

/-- **flAlgoRun_eq_algoMovie** (C14, "equals detect-then-link when nothing is withheld", part (c)).
If no step of the movie has a shortage (and no sub-net is oversize), then the find_link model run
over the whole movie — with ANY oracles — emits exactly the detected levels, adds nothing, and its
labels are those of the plain linker run `algoMovie` over the detections, which does not raise.
(The states coincide step by step: both continue from `nextState … dsts labels`.) -/
theorem flAlgoRun_eq_algoMovie (cfg : Cfg) (t0 : Int) (d0 : List Pos) (o0 : Oracle)
    (rest : List Frame) (h : NoShortRun cfg (firstState t0 d0) rest) :
    (flAlgoRun cfg ((t0, d0, o0) :: rest)).map (fun l => (l.t, l.dsts)) =
        detections ((t0, d0, o0) :: rest) ∧
      (∀ l ∈ flAlgoRun cfg ((t0, d0, o0) :: rest), l.added = []) ∧
      algoMovie cfg (detections ((t0, d0, o0) :: rest)) =
        ((flAlgoRun cfg ((t0, d0, o0) :: rest)).map (·.labels), false) := by
  obtain ⟨h1, h2, h3⟩ := flAlgoRunFrom_eq_algoFrom cfg rest _ h
  have hfs : Linker.firstState t0 d0 = firstState t0 d0 := rfl
  refine ⟨?_, ?_, ?_⟩
  · simp only [flAlgoRun, List.map_cons, detections] at h1 ⊢
    rw [h1]
  · intro l hl
    simp only [flAlgoRun, List.mem_cons] at hl
    rcases hl with rfl | hl
    · rfl
    · exact h2 l hl
  · have h3' : algoFrom cfg (firstState t0 d0) (List.map (fun f => (f.1, f.2.1)) rest) = _ := h3
    simp only [flAlgoRun, List.map_cons, detections, algoMovie, hfs, h3']

/-! ## (d) non-vacuity and witnesses (tests, labelled as such) -/

/-- state after a first frame with three features; the successors of (0,0) and (2,0) are within
range of both (search_range 3) -/
def exSt3 : State := firstState 0 [[0, 0], [2, 0], [10, 0]]
/-- frame 1, nothing lost, the detections in another order -/
def exD1 : List Pos := [[3, 0], [11, 0], [1, 0]]
/-- frame 2, nothing lost -/
def exD2 : List Pos := [[1, 1], [3, 1], [11, 1]]

/-- two sub-nets, one of them with two sources and two destinations; no shortage -/
example : groups1 exL exSt3 1 exD1 = [([2], [1]), ([1, 0], [0, 2])] := by decide +kernel

/-- the hypothesis of (a)/(b) is satisfiable -/
theorem exNoShort1 : NoShort1 exL exSt3 1 exD1 := by decide +kernel

/-- the find_link side, evaluated -/
theorem exStep3 : flAlgoStep exL exSt3 1 exOrc exD1 =
    { dsts := exD1, added := [], masses := [], labels := [1, 2, 0] } := by
  have hg : flGroups exL exSt3 1 exD1 = [([2], [1]), ([1, 0], [0, 2])] := by decide +kernel
  unfold flAlgoStep flAcc
  rw [hg]
  simp [processGroup, short, viewOf, view, exSt3, exD1, firstState, nextState, fcands, candsOf,
    candsOfRow, distRow, dist2, sqI, insCand, keepCand_none, keepCand_some, solveOrdered, go,
    exceeds, taken, better, addTaken, exL, labelOf, trackOf, initCfg, List.range, List.range.loop,
    List.zipIdx, List.filter_cons]

/-- the plain linker side, evaluated independently -/
theorem exPlain3 : algoLabels exL exSt3 1 exD1 = some [1, 2, 0] := by
  have hsg : stepGroups exL exSt3 1 exD1 = [([2], [1]), ([1, 0], [0, 2])] := by decide +kernel
  have hsc : stepCands exL exSt3 1 exD1 = [[(some 2, 1), (some 0, 9), (none, 9)],
      [(some 2, 1), (some 0, 1), (none, 9)], [(some 1, 1), (none, 9)]] := by decide +kernel
  unfold algoLabels algoChoices
  rw [hsg, hsc]
  simp [groupChoice, allSomeL, srcOf, getD', solveOrdered, go,
    exceeds, taken, better, addTaken, labelOf, trackOf, exSt3, exD1, firstState, nextState, initCfg,
    freshBase, List.range, List.range.loop]

/-- … and (b) says they agree -/
example : algoLabels exL exSt3 1 exD1 = some (flAlgoStep exL exSt3 1 exOrc exD1).labels :=
  flAlgoStep_eq_algoLabels exL exSt3 1 exOrc exD1 exNoShort1

/-- a 3-frame movie, three features per frame, nothing lost: the hypothesis of (c) holds -/
def exMovie3 : List Frame := [(0, [[0, 0], [2, 0], [10, 0]], exOrc), (1, exD1, exOrc), (2, exD2, exOrc)]

theorem exMovie3_noShort :
    NoShortRun exL (firstState 0 [[0, 0], [2, 0], [10, 0]]) [(1, exD1, exOrc), (2, exD2, exOrc)] := by
  refine ⟨exNoShort1, by decide +kernel, ?_⟩
  have h := exStep3
  unfold exSt3 at h
  rw [h]
  exact ⟨by decide +kernel, by decide +kernel, trivial⟩

/-- the conclusion of (c) on this movie (both runs give the labels `[[0,1,2],[1,2,0],[0,1,2]]`) -/
example : algoMovie exL (detections exMovie3) = ((flAlgoRun exL exMovie3).map (·.labels), false) :=
  (flAlgoRun_eq_algoMovie exL 0 _ exOrc _ exMovie3_noShort).2.2

example : (flAlgoRun exL exMovie3).map (fun l => (l.t, l.dsts)) = detections exMovie3 :=
  (flAlgoRun_eq_algoMovie exL 0 _ exOrc _ exMovie3_noShort).1

/-- **short_group_consults_oracle.**  The hypothesis of (a) is needed: on the step of
`C14Algo.exStep` (one source lost) there is a sub-net with a shortage, and the oracle's answer
changes the emitted level. -/
theorem short_group_consults_oracle :
    (∃ g ∈ flGroups exL exSt 1 [[1, 0]], short g = true) ∧
    (flAlgoStep exL exSt 1 exOrc [[1, 0]]).dsts = [[1, 0], [11, 1]] ∧
    (flAlgoStep exL exSt 1 (fun _ _ => []) [[1, 0]]).dsts = [[1, 0]] := by
  have hg : flGroups exL exSt 1 [[1, 0]] = [([0], [0]), ([1], [])] := by decide +kernel
  refine ⟨⟨([1], []), by rw [hg]; simp, rfl⟩, by rw [exStep], ?_⟩
  unfold flAlgoStep flAcc
  rw [hg]
  simp [processGroup, short]

/-- **noShort_flGroups_not_noShort1_witness.**  The hypothesis of (a) does not imply `NoShort1`:
sources (0,0), (1,0), (6,0); detections (0,0), (7,0), (8,0), search_range 3.  Before merging: the
sub-net of sources 0, 1 has ONE destination (shortage 1), the sub-net of source 2 has two (a
surplus); source 2 is within 2·search_range of source 1, so `merge_lost_subnets` merges the two
into one sub-net with three sources and three destinations — no shortage, nothing is relocated,
but the three sources are solved as ONE assignment problem. -/
theorem noShort_flGroups_not_noShort1_witness :
    (∀ g ∈ flGroups exL (firstState 0 [[0, 0], [1, 0], [6, 0]]) 1 [[0, 0], [7, 0], [8, 0]],
      short g = false) ∧
    ¬ NoShort1 exL (firstState 0 [[0, 0], [1, 0], [6, 0]]) 1 [[0, 0], [7, 0], [8, 0]] ∧
    groups1 exL (firstState 0 [[0, 0], [1, 0], [6, 0]]) 1 [[0, 0], [7, 0], [8, 0]] =
      [([1, 0], [0]), ([2], [1, 2])] ∧
    flGroups exL (firstState 0 [[0, 0], [1, 0], [6, 0]]) 1 [[0, 0], [7, 0], [8, 0]] =
      [([1, 0, 2], [0, 1, 2])] := by
  decide +kernel

end TrackpyV.FindLink
