import TrackpyV.Props.C03Adapters
import Mathlib.Data.List.Forall2
import Mathlib.Logic.Function.Basic
/-!
# C03 — order independence: what is true for EVERY input (X21)

`perm_invariant` (a permutation of the rows of the table does not change the partition) is false
as stated when an optimum is tied: the code returns *an* optimum and which one depends on the order
of visit.  What holds for every input is proved here, at the level of the assignment model
(`Model/Assign.lean`):

* a permutation of the rows of a frame acts on a sub-net as a combination of
  (a) a permutation of the **sources**, (b) an injective **renaming of the destinations**
  (positions in the level are the destination ids), (c) a permutation of the **candidates inside a
  source** (only among candidates of equal cost, since `assign_links` sorts them);
* each of the three is an `AdmIso`: a cost-preserving bijection between the admissible assignments
  — so the optimal cost is unchanged (`optimal_cost_perm_sources`, `optimal_cost_relabel_dests`,
  `optimal_cost_perm_cands`), optimal assignments go to optimal assignments, and `AdmIso`s compose
  (`AdmIso.trans`), so the same holds for any combination in any order;
* if the optimum is unique (`countOptimal srcs = 1`) it stays unique and the solver returns the
  image of the original assignment (`unique_optimum_perm`, `unique_optimum_iso`);
* with a tied optimum the returned assignment may really change with the order of the sources:
  `tied_optimum_perm_witness`;
* one linker step (`Model/Linker`): a permutation of the destinations `dsts` of a level renumbers
  the destination ids of every candidate list (`candsOf_renumber`, `stepCands_perm_dsts`), so the
  optimal cost of the step over all sources of the level is unchanged
  (`step_cost_perm_dsts_partial`; the per-sub-net multiset form, via the equivariance of
  `subnets`, is in `Props/C03Step`: `step_cost_perm_dsts`).

The pairing function of the model is positional: `srcs.zip a` is the list of
(source, chosen candidate) pairs of the assignment `a`.
-/
namespace TrackpyV.Assign

/-- the optimal cost the solver reports (`none`: no source, or no admissible assignment) -/
def optCost (srcs : List Src) : Option Nat := (solveOrdered srcs).map (·.1)

/-- what the solver returns is an optimum in the declarative sense, and its cost is the reported one -/
theorem solveOrdered_isOptimal (srcs : List Src) (hs : AllSorted srcs) (c : Nat) (a : List Cand)
    (h : solveOrdered srcs = some (c, a)) : IsOptimal srcs a ∧ cost a = c := by
  have hne : srcs ≠ [] := by rintro rfl; simp [solveOrdered] at h
  have ad := solveOrdered_admissible _ _ _ h
  refine ⟨⟨ad.1, ?_⟩, ad.2⟩
  intro a' ha'
  obtain ⟨c1, a1, e1, l1⟩ := solveOrdered_optimal srcs hne hs a' ha'
  rw [h] at e1; cases e1
  have := ad.2
  omega

theorem optCost_le (srcs : List Src) (hne : srcs ≠ []) (hs : AllSorted srcs) (a : List Cand)
    (ha : Admissible srcs a) : ∃ c, optCost srcs = some c ∧ c ≤ cost a := by
  obtain ⟨c, b, e, l⟩ := solveOrdered_optimal srcs hne hs a ha
  exact ⟨c, by simp [optCost, e], l⟩

theorem optCost_achieved (srcs : List Src) (hs : AllSorted srcs) (c : Nat)
    (h : optCost srcs = some c) : srcs ≠ [] ∧ ∃ a, IsOptimal srcs a ∧ cost a = c := by
  unfold optCost at h
  cases hsol : solveOrdered srcs with
  | none => rw [hsol] at h; cases h
  | some r =>
    obtain ⟨c', a⟩ := r
    rw [hsol] at h
    simp only [Option.map_some, Option.some.injEq] at h
    subst h
    refine ⟨?_, a, solveOrdered_isOptimal srcs hs _ a hsol⟩
    rintro rfl; simp [solveOrdered] at hsol

/-! ## cost-preserving bijections between the admissible assignments of two sub-nets -/

/-- `φ`/`ψ` are mutually inverse, cost-preserving maps between the admissible assignments of
`srcs` and of `srcs'` (same number of sources). -/
structure AdmIso (srcs srcs' : List Src) (φ ψ : List Cand → List Cand) : Prop where
  len : srcs.length = srcs'.length
  fwd : ∀ a, Admissible srcs a → Admissible srcs' (φ a) ∧ cost (φ a) = cost a ∧ ψ (φ a) = a
  bwd : ∀ a', Admissible srcs' a' → Admissible srcs (ψ a') ∧ cost (ψ a') = cost a' ∧ φ (ψ a') = a'

theorem AdmIso.refl (srcs : List Src) : AdmIso srcs srcs id id :=
  ⟨rfl, fun _ h => ⟨h, rfl, rfl⟩, fun _ h => ⟨h, rfl, rfl⟩⟩

theorem AdmIso.symm {srcs srcs' : List Src} {φ ψ : List Cand → List Cand}
    (h : AdmIso srcs srcs' φ ψ) : AdmIso srcs' srcs ψ φ := ⟨h.len.symm, h.bwd, h.fwd⟩

/-- any combination of the transformations below is again such a bijection -/
theorem AdmIso.trans {s₁ s₂ s₃ : List Src} {φ₁ ψ₁ φ₂ ψ₂ : List Cand → List Cand}
    (h₁ : AdmIso s₁ s₂ φ₁ ψ₁) (h₂ : AdmIso s₂ s₃ φ₂ ψ₂) :
    AdmIso s₁ s₃ (φ₂ ∘ φ₁) (ψ₁ ∘ ψ₂) := by
  refine ⟨h₁.len.trans h₂.len, ?_, ?_⟩
  · intro a ha
    obtain ⟨a1, c1, i1⟩ := h₁.fwd a ha
    obtain ⟨a2, c2, i2⟩ := h₂.fwd _ a1
    exact ⟨a2, by simp only [Function.comp]; omega, by simp only [Function.comp]; rw [i2, i1]⟩
  · intro a ha
    obtain ⟨a1, c1, i1⟩ := h₂.bwd a ha
    obtain ⟨a2, c2, i2⟩ := h₁.bwd _ a1
    exact ⟨a2, by simp only [Function.comp]; omega, by simp only [Function.comp]; rw [i2, i1]⟩

/-- optimal assignments are mapped to optimal assignments -/
theorem AdmIso.isOptimal {srcs srcs' : List Src} {φ ψ : List Cand → List Cand}
    (h : AdmIso srcs srcs' φ ψ) (a : List Cand) (ho : IsOptimal srcs a) :
    IsOptimal srcs' (φ a) := by
  obtain ⟨ad, c, _⟩ := h.fwd a ho.1
  refine ⟨ad, ?_⟩
  intro b' hb'
  obtain ⟨bd, cb, _⟩ := h.bwd b' hb'
  have := ho.2 _ bd
  omega

theorem AdmIso.optCost_le {srcs srcs' : List Src} {φ ψ : List Cand → List Cand}
    (h : AdmIso srcs srcs' φ ψ) (hs : AllSorted srcs) (hs' : AllSorted srcs') (c : Nat)
    (hc : optCost srcs = some c) : ∃ c', optCost srcs' = some c' ∧ c' ≤ c := by
  obtain ⟨hne, a, ho, hca⟩ := optCost_achieved srcs hs c hc
  obtain ⟨ad, cc, _⟩ := h.fwd a ho.1
  have hne' : srcs' ≠ [] := by
    intro h0
    have := h.len
    rw [h0] at this
    exact hne (List.eq_nil_of_length_eq_zero this)
  obtain ⟨c', e, l⟩ := Assign.optCost_le srcs' hne' hs' _ ad
  exact ⟨c', e, by omega⟩

/-- **the optimal cost is invariant** under a cost-preserving bijection of the admissible
assignments (candidate lists sorted on both sides, as `assign_links` establishes) -/
theorem AdmIso.optCost_eq {srcs srcs' : List Src} {φ ψ : List Cand → List Cand}
    (h : AdmIso srcs srcs' φ ψ) (hs : AllSorted srcs) (hs' : AllSorted srcs') :
    optCost srcs' = optCost srcs := by
  cases h1 : optCost srcs with
  | none =>
    cases h2 : optCost srcs' with
    | none => rfl
    | some c' =>
      obtain ⟨c, hc, _⟩ := h.symm.optCost_le hs' hs c' h2
      rw [h1] at hc; cases hc
  | some c =>
    obtain ⟨c', hc', hle⟩ := h.optCost_le hs hs' c h1
    obtain ⟨c'', hc'', hle'⟩ := h.symm.optCost_le hs' hs c' hc'
    rw [h1] at hc''
    cases hc''
    rw [hc']
    congr 1
    omega

/-! ## uniqueness of the optimum -/

/-- `a` is THE optimal assignment of `srcs` -/
def UniqueOpt (srcs : List Src) (a : List Cand) : Prop :=
  IsOptimal srcs a ∧ ∀ b, IsOptimal srcs b → b = a

theorem AdmIso.uniqueOpt {srcs srcs' : List Src} {φ ψ : List Cand → List Cand}
    (h : AdmIso srcs srcs' φ ψ) (a : List Cand) (hu : UniqueOpt srcs a) :
    UniqueOpt srcs' (φ a) := by
  refine ⟨h.isOptimal a hu.1, ?_⟩
  intro b' hb'
  have hb := h.symm.isOptimal b' hb'
  have e := hu.2 _ hb
  obtain ⟨_, _, i⟩ := h.bwd b' hb'.1
  rw [← i, e]

theorem mem_allCompletions_iff (srcs : List Src) (hne : srcs ≠ []) (p : Nat × List Cand) :
    p ∈ allCompletions srcs ↔ (Admissible srcs p.2 ∧ p.1 = cost p.2) := by
  cases srcs with
  | nil => exact absurd rfl hne
  | cons s rest => exact mem_completions_iff rest s [] p

/-- the driver's statistic `countOptimal = 1` means: the solver's answer is the only optimum -/
theorem uniqueOpt_of_countOptimal (srcs : List Src) (hs : AllSorted srcs)
    (h : countOptimal srcs = 1) : ∃ c a, solveOrdered srcs = some (c, a) ∧ UniqueOpt srcs a := by
  unfold countOptimal at h
  cases hsol : solveOrdered srcs with
  | none => rw [hsol] at h; cases h
  | some r =>
    obtain ⟨c, a⟩ := r
    rw [hsol] at h
    simp only at h
    have hne : srcs ≠ [] := by rintro rfl; simp [solveOrdered] at hsol
    obtain ⟨ho, hc⟩ := solveOrdered_isOptimal srcs hs c a hsol
    refine ⟨c, a, rfl, ho, ?_⟩
    obtain ⟨p, hp⟩ := List.length_eq_one_iff.mp h
    have hmem : ∀ b, IsOptimal srcs b → (c, b) = p := by
      intro b hb
      have hcb : cost b = c := by rw [← hc]; exact optimal_cost_unique srcs b a hb ho
      have : (c, b) ∈ (allCompletions srcs).filter (fun p => p.1 == c) := by
        rw [List.mem_filter]
        exact ⟨(mem_allCompletions_iff srcs hne _).mpr ⟨hb.1, hcb.symm⟩, by simp⟩
      rw [hp] at this
      simpa using this
    intro b hb
    have e1 := hmem b hb
    have e2 := hmem a ho
    rw [← e2] at e1
    exact (Prod.mk.inj e1).2

/-- **(d), abstract form.**  If the optimum of `srcs` is unique (`countOptimal srcs = 1`) and
`srcs'` is related to `srcs` by a cost-preserving bijection `φ` of the admissible assignments (any
combination of source permutation, destination renaming and candidate permutation:
`admIso_perm_sources`, `admIso_relabel`, `admIso_perm_cands`, `AdmIso.trans`), then the optimum of
`srcs'` is unique as well, the solver returns on `srcs'` exactly the image `φ a` of what it returns
on `srcs`, and the costs agree. -/
theorem unique_optimum_iso {srcs srcs' : List Src} {φ ψ : List Cand → List Cand}
    (h : AdmIso srcs srcs' φ ψ) (hs : AllSorted srcs) (hs' : AllSorted srcs')
    (hu : countOptimal srcs = 1) :
    ∃ c a, solveOrdered srcs = some (c, a) ∧ solveOrdered srcs' = some (c, φ a) ∧
      UniqueOpt srcs a ∧ UniqueOpt srcs' (φ a) := by
  obtain ⟨c, a, hsol, hua⟩ := uniqueOpt_of_countOptimal srcs hs hu
  have hu' := h.uniqueOpt a hua
  have hc : optCost srcs' = some c := by
    rw [h.optCost_eq hs hs']; simp [optCost, hsol]
  unfold optCost at hc
  cases hsol' : solveOrdered srcs' with
  | none => rw [hsol'] at hc; cases hc
  | some r =>
    obtain ⟨c', a'⟩ := r
    rw [hsol'] at hc
    simp only [Option.map_some, Option.some.injEq] at hc
    subst hc
    have := hu'.2 a' (solveOrdered_isOptimal srcs' hs' _ a' hsol').1
    subst this
    exact ⟨c', a, hsol, rfl, hua, hu'⟩

/-! ## (a) permutation of the sources -/

/-- `φ` carries the choices for `srcs` to choices for `srcs'`, keeping the multiset of
(source, chosen candidate) pairs; `ψ` undoes it -/
def PicksMap (srcs srcs' : List Src) (φ ψ : List Cand → List Cand) : Prop :=
  ∀ a, Picks srcs a →
    Picks srcs' (φ a) ∧ (φ a).Perm a ∧ (srcs'.zip (φ a)).Perm (srcs.zip a) ∧ ψ (φ a) = a

def consMap (φ : List Cand → List Cand) : List Cand → List Cand
  | [] => []
  | c :: cs => c :: φ cs

def swapMap : List Cand → List Cand
  | c₁ :: c₂ :: cs => c₂ :: c₁ :: cs
  | a => a

theorem picksMap_refl (srcs : List Src) : PicksMap srcs srcs id id :=
  fun _ h => ⟨h, List.Perm.refl _, List.Perm.refl _, rfl⟩

theorem picksMap_cons (s : Src) {l l' : List Src} {φ ψ : List Cand → List Cand}
    (h : PicksMap l l' φ ψ) : PicksMap (s :: l) (s :: l') (consMap φ) (consMap ψ) := by
  intro a ha
  cases a with
  | nil => simp at ha
  | cons c cs =>
    simp only [picks_cons_cons] at ha
    obtain ⟨p, q, z, i⟩ := h cs ha.2
    refine ⟨by simp [consMap, ha.1, p], by simpa [consMap] using q, ?_, by simp [consMap, i]⟩
    simpa [consMap] using List.Perm.cons (s, c) z

theorem picksMap_swap (s t : Src) (l : List Src) :
    PicksMap (t :: s :: l) (s :: t :: l) swapMap swapMap := by
  intro a ha
  cases a with
  | nil => simp at ha
  | cons c cs =>
    cases cs with
    | nil => simp at ha
    | cons c2 cs =>
      simp only [picks_cons_cons] at ha
      refine ⟨by simp [swapMap, ha.1, ha.2.1, ha.2.2], ?_, ?_, by simp [swapMap]⟩
      · simpa [swapMap] using List.Perm.swap c c2 cs
      · simpa [swapMap] using List.Perm.swap (t, c) (s, c2) (l.zip cs)

theorem picksMap_trans {s₁ s₂ s₃ : List Src} {φ₁ ψ₁ φ₂ ψ₂ : List Cand → List Cand}
    (h₁ : PicksMap s₁ s₂ φ₁ ψ₁) (h₂ : PicksMap s₂ s₃ φ₂ ψ₂) :
    PicksMap s₁ s₃ (φ₂ ∘ φ₁) (ψ₁ ∘ ψ₂) := by
  intro a ha
  obtain ⟨p1, q1, z1, i1⟩ := h₁ a ha
  obtain ⟨p2, q2, z2, i2⟩ := h₂ _ p1
  exact ⟨p2, q2.trans q1, z2.trans z1, by simp only [Function.comp]; rw [i2, i1]⟩

/-- a permutation of the sources induces mutually inverse rearrangements of the choices that keep
the (source, chosen candidate) pairs -/
theorem picksIso_perm {srcs srcs' : List Src} (hp : srcs.Perm srcs') :
    ∃ φ ψ, PicksMap srcs srcs' φ ψ ∧ PicksMap srcs' srcs ψ φ := by
  induction hp with
  | nil => exact ⟨id, id, picksMap_refl _, picksMap_refl _⟩
  | cons s _ ih =>
    obtain ⟨φ, ψ, h1, h2⟩ := ih
    exact ⟨_, _, picksMap_cons s h1, picksMap_cons s h2⟩
  | swap s t l => exact ⟨_, _, picksMap_swap s t l, picksMap_swap t s l⟩
  | trans _ _ ih1 ih2 =>
    obtain ⟨φ1, ψ1, h1, h1'⟩ := ih1
    obtain ⟨φ2, ψ2, h2, h2'⟩ := ih2
    exact ⟨_, _, picksMap_trans h1 h2, picksMap_trans h2' h1'⟩

theorem PicksMap.adm {srcs srcs' : List Src} {φ ψ : List Cand → List Cand}
    (h : PicksMap srcs srcs' φ ψ) (a : List Cand) (ha : Admissible srcs a) :
    Admissible srcs' (φ a) ∧ cost (φ a) = cost a ∧ ψ (φ a) = a := by
  obtain ⟨h1, h2, _⟩ := ha
  obtain ⟨p, q, _, i⟩ := h a h1
  refine ⟨⟨p, ?_, by simp⟩, ?_, i⟩
  · exact ((q.filterMap (fun c : Cand => c.1)).nodup_iff).mpr h2
  · exact (q.map (fun c : Cand => c.2)).sum_nat

/-- **(a) as a bijection.**  A permutation of the sources induces a cost-preserving bijection of
the admissible assignments which keeps the multiset of (source, chosen candidate) pairs. -/
theorem admIso_perm_sources {srcs srcs' : List Src} (hp : srcs.Perm srcs') :
    ∃ φ ψ, AdmIso srcs srcs' φ ψ ∧
      (∀ a, Admissible srcs a → (srcs'.zip (φ a)).Perm (srcs.zip a)) := by
  obtain ⟨φ, ψ, h1, h2⟩ := picksIso_perm hp
  exact ⟨φ, ψ, ⟨hp.length_eq, h1.adm, h2.adm⟩, fun a ha => (h1 a ha.1).2.2.1⟩

theorem AllSorted.perm {srcs srcs' : List Src} (hp : srcs.Perm srcs') (hs : AllSorted srcs) :
    AllSorted srcs' := fun s hm => hs s ((hp.mem_iff).mpr hm)

/-- **(a)** The optimal cost the solver returns does not depend on the order of the sources
(`solve_order_indep` in `List.Perm`/`Option` form: it also says that the solver succeeds on one
order iff it succeeds on the other). -/
theorem optimal_cost_perm_sources (srcs srcs' : List Src) (hp : srcs.Perm srcs')
    (hs : AllSorted srcs) : optCost srcs' = optCost srcs := by
  obtain ⟨φ, ψ, h, _⟩ := admIso_perm_sources hp
  exact h.optCost_eq hs (hs.perm hp)

/-- the same for `solve` (stable sort of the sources by candidate count first) -/
theorem optimal_cost_perm_sources_solve (srcs srcs' : List Src) (hp : srcs.Perm srcs')
    (hs : AllSorted srcs) : (solve srcs').map (·.1) = (solve srcs).map (·.1) := by
  have h1 := optimal_cost_perm_sources srcs (sortByLen srcs) (sortByLen_perm srcs).symm hs
  have h2 := optimal_cost_perm_sources srcs (sortByLen srcs')
    (hp.trans (sortByLen_perm srcs').symm) hs
  simp only [optCost] at h1 h2
  simp only [solve]
  rw [h1, h2]

/-! ## (b) injective renaming of the destinations -/

def relabelC (f : Nat → Nat) (c : Cand) : Cand := (c.1.map f, c.2)
def relabelS (f : Nat → Nat) (s : List Cand) : List Cand := s.map (relabelC f)

theorem cost_relabel (f : Nat → Nat) (a : List Cand) : cost (relabelS f a) = cost a := by
  simp [cost, relabelS, relabelC, Function.comp_def]

theorem dests_relabel (f : Nat → Nat) (a : List Cand) :
    dests (relabelS f a) = (dests a).map f := by
  induction a with
  | nil => rfl
  | cons c cs ih =>
    obtain ⟨d, k⟩ := c
    cases d with
    | none => simpa [relabelS, relabelC, dests] using ih
    | some x => simpa [relabelS, relabelC, dests] using ih

theorem relabel_left_inv (f g : Nat → Nat) (hg : Function.LeftInverse g f) (a : List Cand) :
    relabelS g (relabelS f a) = a := by
  induction a with
  | nil => rfl
  | cons c cs ih =>
    obtain ⟨d, k⟩ := c
    simp only [relabelS, List.map_cons, List.cons.injEq] at ih ⊢
    refine ⟨?_, ih⟩
    cases d with
    | none => rfl
    | some x => simp [relabelC, hg x]

theorem picks_relabel (f : Nat → Nat) (srcs : List Src) (a : List Cand) (h : Picks srcs a) :
    Picks (srcs.map (relabelS f)) (relabelS f a) := by
  induction srcs generalizing a with
  | nil =>
    cases a with
    | nil => simp [relabelS]
    | cons c cs => simp at h
  | cons s ss ih =>
    cases a with
    | nil => simp at h
    | cons c cs =>
      simp only [picks_cons_cons] at h
      simp only [relabelS, List.map_cons, picks_cons_cons]
      exact ⟨List.mem_map_of_mem h.1, ih cs h.2⟩

theorem picks_of_relabel (f : Nat → Nat) (srcs : List Src) (a' : List Cand)
    (h : Picks (srcs.map (relabelS f)) a') : ∃ a, Picks srcs a ∧ a' = relabelS f a := by
  induction srcs generalizing a' with
  | nil =>
    cases a' with
    | nil => exact ⟨[], by simp, rfl⟩
    | cons c cs => simp at h
  | cons s ss ih =>
    cases a' with
    | nil => simp at h
    | cons c' cs' =>
      simp only [List.map_cons, picks_cons_cons] at h
      obtain ⟨a, ha, rfl⟩ := ih cs' h.2
      obtain ⟨c, hc, rfl⟩ := List.mem_map.mp h.1
      exact ⟨c :: a, by simp [hc, ha], by simp [relabelS]⟩

theorem admissible_relabel (f : Nat → Nat) (hf : Function.Injective f) (srcs : List Src)
    (a : List Cand) (h : Admissible srcs a) :
    Admissible (srcs.map (relabelS f)) (relabelS f a) := by
  obtain ⟨h1, h2, _⟩ := h
  refine ⟨picks_relabel f srcs a h1, ?_, by simp⟩
  rw [dests_relabel]
  exact h2.map hf

theorem admissible_of_relabel (f : Nat → Nat) (srcs : List Src) (a' : List Cand)
    (h : Admissible (srcs.map (relabelS f)) a') :
    ∃ a, Admissible srcs a ∧ a' = relabelS f a := by
  obtain ⟨h1, h2, _⟩ := h
  obtain ⟨a, ha, rfl⟩ := picks_of_relabel f srcs a' h1
  rw [dests_relabel] at h2
  exact ⟨a, ⟨ha, h2.of_map f, by simp⟩, rfl⟩

/-- **(b) as a bijection.**  Renaming the destinations by `f` (with left inverse `g`; the null
candidate stays) is a cost-preserving bijection of the admissible assignments: `a ↦ relabelS f a`. -/
theorem admIso_relabel_of_leftInverse (f g : Nat → Nat) (hg : Function.LeftInverse g f)
    (srcs : List Src) : AdmIso srcs (srcs.map (relabelS f)) (relabelS f) (relabelS g) := by
  refine ⟨by simp, ?_, ?_⟩
  · intro a ha
    exact ⟨admissible_relabel f hg.injective srcs a ha, cost_relabel f a, relabel_left_inv f g hg a⟩
  · intro a' ha'
    obtain ⟨a, ha, rfl⟩ := admissible_of_relabel f srcs a' ha'
    rw [relabel_left_inv f g hg a]
    exact ⟨ha, (cost_relabel f a).symm, rfl⟩

theorem admIso_relabel (f : Nat → Nat) (hf : Function.Injective f) (srcs : List Src) :
    ∃ ψ, AdmIso srcs (srcs.map (relabelS f)) (relabelS f) ψ :=
  ⟨relabelS (Function.invFun f),
    admIso_relabel_of_leftInverse f _ (Function.leftInverse_invFun hf) srcs⟩

theorem sortedC_relabel (f : Nat → Nat) (s : List Cand) (h : SortedC s) :
    SortedC (relabelS f s) := by
  induction s with
  | nil => trivial
  | cons a t ih =>
    cases t with
    | nil => trivial
    | cons b t => exact ⟨h.1, ih h.2⟩

theorem allSorted_relabel (f : Nat → Nat) (srcs : List Src) (hs : AllSorted srcs) :
    AllSorted (srcs.map (relabelS f)) := by
  intro s hm
  obtain ⟨s0, h0, rfl⟩ := List.mem_map.mp hm
  exact sortedC_relabel f s0 (hs s0 h0)

/-- **(b)** Renaming the destinations by an injective map leaves the optimal cost unchanged and
maps admissible assignments to admissible ones and optimal ones to optimal ones; every admissible
assignment of the renamed sub-net is the image of one of the original. -/
theorem optimal_cost_relabel_dests (f : Nat → Nat) (hf : Function.Injective f) (srcs : List Src)
    (hs : AllSorted srcs) :
    optCost (srcs.map (relabelS f)) = optCost srcs ∧
    (∀ a, Admissible srcs a →
        Admissible (srcs.map (relabelS f)) (relabelS f a) ∧ cost (relabelS f a) = cost a) ∧
    (∀ a, IsOptimal srcs a → IsOptimal (srcs.map (relabelS f)) (relabelS f a)) ∧
    (∀ a', Admissible (srcs.map (relabelS f)) a' → ∃ a, Admissible srcs a ∧ a' = relabelS f a) := by
  obtain ⟨ψ, h⟩ := admIso_relabel f hf srcs
  exact ⟨h.optCost_eq hs (allSorted_relabel f srcs hs),
    fun a ha => ⟨(h.fwd a ha).1, (h.fwd a ha).2.1⟩, h.isOptimal,
    admissible_of_relabel f srcs⟩

/-! ## (c) permutation of the candidates inside the sources -/

theorem picks_perm_cands {srcs srcs' : List Src} (h : List.Forall₂ List.Perm srcs srcs')
    (a : List Cand) : Picks srcs a ↔ Picks srcs' a := by
  induction h generalizing a with
  | nil => exact Iff.rfl
  | cons hp _ ih =>
    cases a with
    | nil => simp
    | cons c cs => simp only [picks_cons_cons, hp.mem_iff, ih]

/-- **(c) as a bijection.**  Reordering the candidates inside each source does not change the set
of admissible assignments at all (the bijection is the identity). -/
theorem admIso_perm_cands {srcs srcs' : List Src} (h : List.Forall₂ List.Perm srcs srcs') :
    AdmIso srcs srcs' id id := by
  have e : ∀ a, Admissible srcs a ↔ Admissible srcs' a := by
    intro a
    unfold Admissible AdmTk
    rw [picks_perm_cands h a]
  exact ⟨h.length_eq, fun a ha => ⟨(e a).mp ha, rfl, rfl⟩, fun a ha => ⟨(e a).mpr ha, rfl, rfl⟩⟩

/-- **(c)** Reordering the candidates inside the sources (with both orders sorted by cost, i.e. a
reordering among candidates of equal cost — what a permutation of a frame can do after
`assign_links`' sort) leaves the set of admissible assignments and the optimal cost unchanged. -/
theorem optimal_cost_perm_cands (srcs srcs' : List Src) (h : List.Forall₂ List.Perm srcs srcs')
    (hs : AllSorted srcs) (hs' : AllSorted srcs') :
    optCost srcs' = optCost srcs ∧ (∀ a, Admissible srcs a ↔ Admissible srcs' a) ∧
      (∀ a, IsOptimal srcs a ↔ IsOptimal srcs' a) := by
  have hi := admIso_perm_cands h
  exact ⟨hi.optCost_eq hs hs', fun a => ⟨fun ha => (hi.fwd a ha).1, fun ha => (hi.bwd a ha).1⟩,
    fun a => ⟨hi.isOptimal a, hi.symm.isOptimal a⟩⟩

/-- (c) for ONE source: `s` replaced by a permutation `s'` of itself -/
theorem optimal_cost_perm_cands_one (pre post : List Src) (s s' : Src) (hp : s.Perm s')
    (hs : AllSorted (pre ++ s :: post)) (hs' : SortedC s') :
    optCost (pre ++ s' :: post) = optCost (pre ++ s :: post) := by
  have hrefl : ∀ l : List Src, List.Forall₂ List.Perm l l := fun l =>
    List.forall₂_same.mpr (fun x _ => List.Perm.refl x)
  have h : List.Forall₂ List.Perm (pre ++ s :: post) (pre ++ s' :: post) :=
    List.rel_append (hrefl pre) (List.Forall₂.cons hp (hrefl post))
  refine (optimal_cost_perm_cands _ _ h hs ?_).1
  intro x hx
  rcases List.mem_append.mp hx with hx | hx
  · exact hs x (List.mem_append_left _ hx)
  · rcases List.mem_cons.mp hx with rfl | hx
    · exact hs'
    · exact hs x (List.mem_append_right _ (List.mem_cons_of_mem _ hx))

/-! ## (d) a unique optimum is carried along -/

/-- **(d)** Let `srcs'` be obtained from `srcs` by (a) permuting the sources (→ `mid`), then
(b) renaming the destinations by an injective `f`, then (c) reordering candidates inside the
sources (every combination of (a), (b), (c) has this normal form: the three commute and each kind
is closed under composition; for arbitrary interleavings use `unique_optimum_iso` with
`AdmIso.trans`).  If the optimum of `srcs` is unique (`countOptimal srcs = 1`), then the optimum
of `srcs'` is unique, has the same cost, and the assignment `a'` the solver returns on `srcs'` is
the image of the assignment `a` it returns on `srcs`: `a' = relabelS f a₁` where `a₁` pairs the
sources of `mid` with the same candidates as `a` pairs them in `srcs`
(`(mid.zip a₁).Perm (srcs.zip a)`).  In words: when every optimum is unique, permuting the rows of
a frame cannot change which source is linked to which destination. -/
theorem unique_optimum_perm (srcs mid srcs' : List Src) (f : Nat → Nat)
    (hf : Function.Injective f) (hp : srcs.Perm mid)
    (hc : List.Forall₂ List.Perm (mid.map (relabelS f)) srcs')
    (hs : AllSorted srcs) (hs' : AllSorted srcs') (hu : countOptimal srcs = 1) :
    ∃ c a a₁, solveOrdered srcs = some (c, a) ∧ solveOrdered srcs' = some (c, relabelS f a₁) ∧
      (mid.zip a₁).Perm (srcs.zip a) ∧
      UniqueOpt srcs a ∧ UniqueOpt srcs' (relabelS f a₁) := by
  obtain ⟨φ, ψ, h1, hz⟩ := admIso_perm_sources hp
  obtain ⟨ψ2, h2⟩ := admIso_relabel f hf mid
  have h3 := admIso_perm_cands hc
  have h := (h1.trans h2).trans h3
  obtain ⟨c, a, e1, e2, u1, u2⟩ := unique_optimum_iso h hs hs' hu
  exact ⟨c, a, φ a, e1, e2, hz a u1.1.1, u1, u2⟩

/-! ## non-vacuity and the tied witness (tests, labelled as such) -/

/-- tie-free contested sub-net: two sources competing for destination 0 (C02's `ex1`) -/
example : countOptimal ex1 = 1 := by
  simp [countOptimal, allCompletions, completions, solveOrdered, ex1, go, exceeds, taken, better,
    addTaken]

/-- `ex1` with the sources swapped, destinations renamed by `x ↦ x + 5` -/
def ex1' : List Src := [[(some 5, 2), (none, 9)], [(some 5, 1), (some 6, 4), (none, 9)]]

example : ex1.Perm ex1.reverse ∧
    List.Forall₂ List.Perm (ex1.reverse.map (relabelS (· + 5))) ex1' ∧
    Function.Injective (fun x : Nat => x + 5) ∧ AllSorted ex1 ∧ AllSorted ex1' := by
  refine ⟨(List.reverse_perm ex1).symm, ?_, fun a b h => by simpa using h, ?_, ?_⟩
  · simp [ex1, ex1', relabelS, relabelC]
  · intro s hs; simp [ex1] at hs; rcases hs with rfl | rfl <;> simp [SortedC]
  · intro s hs; simp [ex1'] at hs; rcases hs with rfl | rfl <;> simp [SortedC]

/-- the conclusion of `unique_optimum_perm` on that instance, computed -/
example : solveOrdered ex1 = some (6, [(some 1, 4), (some 0, 2)]) ∧
    solveOrdered ex1' = some (6, relabelS (· + 5) [(some 0, 2), (some 1, 4)]) := by
  simp [solveOrdered, ex1, ex1', go, exceeds, taken, better, addTaken, relabelS, relabelC]

/-- a tied contested sub-net: A→0,B→1 and A→1,B→0 both cost 4 -/
def tieA : Src := [(some 0, 1), (some 1, 2), (none, 9)]
def tieB : Src := [(some 0, 2), (some 1, 3), (none, 9)]

/-- **Why (d) needs uniqueness.**  On a tied sub-net the cost is the same for both orders of the
sources (as `optimal_cost_perm_sources` says) but the ASSIGNMENT the solver returns changes:
presented as `[A, B]` it links A→0, B→1; presented as `[B, A]` it links B→0, A→1 — the
(source, candidate) pairs are not a permutation of each other. -/
theorem tied_optimum_perm_witness :
    [tieA, tieB].Perm [tieB, tieA] ∧ AllSorted [tieA, tieB] ∧ countOptimal [tieA, tieB] = 2 ∧
    solveOrdered [tieA, tieB] = some (4, [(some 0, 1), (some 1, 3)]) ∧
    solveOrdered [tieB, tieA] = some (4, [(some 0, 2), (some 1, 2)]) ∧
    ¬ ([tieB, tieA].zip [(some 0, 2), (some 1, 2)]).Perm
        ([tieA, tieB].zip [(some 0, 1), (some 1, 3)]) := by
  refine ⟨List.Perm.swap .., ?_, ?_, ?_, ?_, ?_⟩
  · intro s hs; simp at hs; rcases hs with rfl | rfl <;> simp [SortedC, tieA, tieB]
  · simp [countOptimal, allCompletions, completions, solveOrdered, tieA, tieB, go, exceeds, taken,
      better, addTaken]
  · simp [solveOrdered, tieA, tieB, go, exceeds, taken, better, addTaken]
  · simp [solveOrdered, tieA, tieB, go, exceeds, taken, better, addTaken]
  · intro h
    have := h.mem_iff (a := (tieB, (some 0, 2)))
    simp [tieA, tieB] at this

end TrackpyV.Assign

/-! ## (e) one linker step: a permutation of the destinations of a level -/

namespace TrackpyV.Assign

/-- (c) only needs that the candidate SETS agree source by source -/
theorem admIso_same_cands {srcs srcs' : List Src}
    (h : List.Forall₂ (fun s s' : Src => ∀ c, c ∈ s ↔ c ∈ s') srcs srcs') :
    AdmIso srcs srcs' id id := by
  have e : ∀ a, Picks srcs a ↔ Picks srcs' a := by
    induction h with
    | nil => exact fun _ => Iff.rfl
    | cons hp _ ih =>
      intro a
      cases a with
      | nil => simp
      | cons c cs => simp only [picks_cons_cons, hp c, ih cs]
  have e' : ∀ a, Admissible srcs a ↔ Admissible srcs' a := by
    intro a
    unfold Admissible AdmTk
    rw [e a]
  exact ⟨h.length_eq, fun a ha => ⟨(e' a).mp ha, rfl, rfl⟩, fun a ha => ⟨(e' a).mpr ha, rfl, rfl⟩⟩

end TrackpyV.Assign

namespace TrackpyV.Linker
open TrackpyV.Assign

/-- `f` renumbers the positions of `l` into those of `l'` (`g` back) -/
def IdxMap {α} (l l' : List α) (f g : Nat → Nat) : Prop :=
  Function.LeftInverse g f ∧ ∀ j, l'[f j]? = l[j]?

def consIdx (f : Nat → Nat) : Nat → Nat
  | 0 => 0
  | j + 1 => f j + 1

def swapIdx : Nat → Nat
  | 0 => 1
  | 1 => 0
  | j + 2 => j + 2

theorem idxMap_cons {α} (x : α) {l l' : List α} {f g : Nat → Nat} (h : IdxMap l l' f g) :
    IdxMap (x :: l) (x :: l') (consIdx f) (consIdx g) := by
  refine ⟨?_, ?_⟩
  · intro j; cases j with
    | zero => rfl
    | succ j => simp [consIdx, h.1 j]
  · intro j; cases j with
    | zero => rfl
    | succ j => simpa [consIdx] using h.2 j

theorem idxMap_swap {α} (x y : α) (l : List α) :
    IdxMap (y :: x :: l) (x :: y :: l) swapIdx swapIdx := by
  refine ⟨?_, ?_⟩
  · intro j
    match j with
    | 0 => rfl
    | 1 => rfl
    | j + 2 => rfl
  · intro j
    match j with
    | 0 => rfl
    | 1 => rfl
    | j + 2 => rfl

/-- a permutation of a list is a renumbering of its positions, with an inverse -/
theorem idxIso_perm {α} {l l' : List α} (hp : l.Perm l') :
    ∃ f g, IdxMap l l' f g ∧ IdxMap l' l g f := by
  induction hp with
  | nil => exact ⟨id, id, ⟨fun _ => rfl, fun _ => rfl⟩, ⟨fun _ => rfl, fun _ => rfl⟩⟩
  | cons x _ ih =>
    obtain ⟨f, g, h1, h2⟩ := ih
    exact ⟨_, _, idxMap_cons x h1, idxMap_cons x h2⟩
  | swap x y l => exact ⟨_, _, idxMap_swap x y l, idxMap_swap y x l⟩
  | trans _ _ ih1 ih2 =>
    obtain ⟨f1, g1, a1, b1⟩ := ih1
    obtain ⟨f2, g2, a2, b2⟩ := ih2
    refine ⟨f2 ∘ f1, g1 ∘ g2, ⟨?_, ?_⟩, ⟨?_, ?_⟩⟩
    · intro j; simp only [Function.comp]; rw [a2.1, a1.1]
    · intro j; simp only [Function.comp]; rw [a2.2, a1.2]
    · intro j; simp only [Function.comp]; rw [b1.1, b2.1]
    · intro j; simp only [Function.comp]; rw [b1.2, b2.2]

theorem some_mem_candsOf_iff (cfg : Cfg) (t : Int) (dsts : List Pos) (s : Source) (j c : Nat) :
    (some j, c) ∈ candsOf cfg t dsts s ↔
      ∃ q, dsts[j]? = some q ∧ c = dist2 cfg.w (view cfg t s) q ∧ c ≤ cfg.B := by
  rw [candidate_iff_in_range]
  constructor
  · rintro ⟨hj, h1, h2⟩
    exact ⟨dsts[j], by simp [hj], h1, h2⟩
  · rintro ⟨q, hq, h1, h2⟩
    obtain ⟨hj, rfl⟩ := List.getElem?_eq_some_iff.mp hq
    exact ⟨hj, h1, h2⟩

theorem none_mem_candsOf_iff (cfg : Cfg) (t : Int) (dsts : List Pos) (s : Source) (c : Nat) :
    (none, c) ∈ candsOf cfg t dsts s ↔ c = cfg.B := by
  constructor
  · intro h
    rcases mem_candsOfRow _ _ _ h with h0 | ⟨j, _, h0, _⟩
    · exact (Prod.mk.inj h0).2
    · cases h0
  · rintro rfl; exact candsOf_hasNull cfg t dsts s

/-- **glue.**  Renumbering the destinations of a level renames the destination ids in every
candidate list, up to the order of candidates (of equal cost) -/
theorem candsOf_renumber (cfg : Cfg) (t : Int) {dsts dsts' : List Pos} {f g : Nat → Nat}
    (h : IdxMap dsts dsts' f g) (h' : IdxMap dsts' dsts g f) (s : Source) (c : Cand) :
    c ∈ relabelS f (candsOf cfg t dsts s) ↔ c ∈ candsOf cfg t dsts' s := by
  obtain ⟨d, k⟩ := c
  simp only [relabelS, List.mem_map]
  cases d with
  | none =>
    rw [none_mem_candsOf_iff]
    constructor
    · rintro ⟨⟨d0, k0⟩, hm, he⟩
      cases d0 with
      | none =>
        simp only [relabelC, Option.map_none, Prod.mk.injEq, true_and] at he
        subst he
        exact (none_mem_candsOf_iff cfg t dsts s k0).mp hm
      | some x => simp [relabelC] at he
    · rintro rfl
      exact ⟨(none, cfg.B), candsOf_hasNull cfg t dsts s, rfl⟩
  | some j' =>
    rw [some_mem_candsOf_iff]
    constructor
    · rintro ⟨⟨d0, k0⟩, hm, he⟩
      cases d0 with
      | none => simp [relabelC] at he
      | some x =>
        simp only [relabelC, Option.map_some, Prod.mk.injEq, Option.some.injEq] at he
        obtain ⟨rfl, rfl⟩ := he
        obtain ⟨q, hq, h1, h2⟩ := (some_mem_candsOf_iff cfg t dsts s x k0).mp hm
        exact ⟨q, by rw [h.2 x]; exact hq, h1, h2⟩
    · rintro ⟨q, hq, h1, h2⟩
      refine ⟨(some (g j'), k), ?_, by simp [relabelC, h'.1 j']⟩
      rw [some_mem_candsOf_iff]
      exact ⟨q, by rw [h'.2 j']; exact hq, h1, h2⟩

theorem allSorted_stepCands (cfg : Cfg) (st : State) (t : Int) (dsts : List Pos) :
    AllSorted (stepCands cfg st t dsts) := by
  intro s hs
  simp only [stepCands, List.mem_map] at hs
  obtain ⟨x, _, rfl⟩ := hs
  exact candsOf_sorted cfg t dsts x

/-- (e), glue at step level: the candidate lists of a step after a permutation of the level are
those before it with renumbered destinations, up to the order of candidates inside a source;
hence a cost-preserving bijection `relabelS f` of the admissible assignments of the whole level. -/
theorem stepCands_perm_dsts (cfg : Cfg) (st : State) (t : Int) (dsts dsts' : List Pos)
    (hp : dsts.Perm dsts') :
    ∃ f g, Function.LeftInverse g f ∧ (∀ j, dsts'[f j]? = dsts[j]?) ∧
      AdmIso (stepCands cfg st t dsts) (stepCands cfg st t dsts') (relabelS f) (relabelS g) := by
  obtain ⟨f, g, h, h'⟩ := idxIso_perm hp
  refine ⟨f, g, h.1, h.2, ?_⟩
  have h1 := admIso_relabel_of_leftInverse f g h.1 (stepCands cfg st t dsts)
  have h2 : AdmIso ((stepCands cfg st t dsts).map (relabelS f)) (stepCands cfg st t dsts') id id := by
    apply admIso_same_cands
    simp only [stepCands, List.map_map]
    rw [List.forall₂_map_left_iff, List.forall₂_map_right_iff]
    exact List.forall₂_same.mpr (fun s _ c => candsOf_renumber cfg t h h' s c)
  exact h1.trans h2

-- FULL (proved since X23 in `Props/C03Step.step_cost_perm_dsts`): the per-sub-net optimal costs of
-- a step, as a multiset over `gSrcs (stepCands …) (stepGroups …)`, are invariant under
-- permutations of `dsts`.
/-- **(e), partial.**  The optimal cost of a linker step over ALL sources of the level together
(which by `groups_compose_list` is what the per-sub-net optima add up to, plus `B` for every source
without a real candidate) is invariant under permutations of the destinations `dsts` of the level.
The per-sub-net multiset form rests on the equivariance of `Model/Linker.subnets` (the fold of
`addSource` that merges groups) under a renumbering of the destinations — the groups come out in
another order, with their destinations listed in another order: `Proofs/SubnetsPerm`,
`Props/C03Step.step_cost_perm_dsts`. -/
theorem step_cost_perm_dsts_partial (cfg : Cfg) (st : State) (t : Int) (dsts dsts' : List Pos)
    (hp : dsts.Perm dsts') :
    optCost (stepCands cfg st t dsts') = optCost (stepCands cfg st t dsts) := by
  obtain ⟨f, g, _, _, h⟩ := stepCands_perm_dsts cfg st t dsts dsts' hp
  exact h.optCost_eq (allSorted_stepCands cfg st t dsts) (allSorted_stepCands cfg st t dsts')

end TrackpyV.Linker
