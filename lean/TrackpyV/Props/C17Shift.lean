import TrackpyV.Props.C17Def
/-!
# C17, continued — what must NOT matter: the origin of the frame axis, the unit of length, the names
and the order of the particles

`Props/C17.lean` / `Props/C17Def.lean` tie every column of `msd` / `imsd` / `emsd` to the all-pairs
definition.  The definition only speaks of frame DIFFERENCES and of positions times `mpp`, so three
invariances follow — and a seeded change of `_msd_gaps` (`pos.reindex(np.arange(1 + pos.index[-1]))`:
the trajectory laid out from frame 0 instead of from its first frame) showed that nothing stated so
far mentions them.  About the SAME model definitions (`Model/MSD.lean`):

* (a) `msd_frame_shift` — every frame number increased by one integer `k` (`shiftFrames`): the WHOLE
  table of `msd` is unchanged (lags listed, `lagt`, `<c>`, `<c^2>`, `msd`, NaN places, `N`), for every
  table — no one-row-per-frame hypothesis, any row order: proved directly on the model, path by path
  (`sortRows_frame_shift`, `fftOut_frame_shift`, `gapsOut_frame_shift` — the gaps path with its own
  lag list and `N`, laid out from the shifted first frame —, `isContiguous_frame_shift`: the same path
  is taken).  For the definition: `msdDef_frame_shift`, `dispDef_frame_shift`, `sqDef_frame_shift`,
  `pairs`-free; `span_frame_shift`, `weightDef_frame_shift`, `defRow_frame_shift`.
* (b) `imsd_frame_shift`, `emsd_frame_shift` (`perParticle_frame_shift`): all particles shifted by the
  same `k` — every `imsd` cell, every `emsd` column, `emsd`'s `N` and the lag axis are unchanged.
* (c) `msd_mpp_scale` — multiplying every position by `c` and using `mpp` IS using `mpp·c` (every
  table, both paths, all columns); `msd_length_unit` — it multiplies `<c>` by `c`, `<c^2>` and `msd` by
  `c²` (NaN stays NaN) and leaves lags, `lagt`, `N` alone (`Out.scale`; one row per frame, through
  `msd_eq_rows`); `msdDef_length_unit` for the definition; `emsd_length_unit`, `emsdN_length_unit`.
* (d) `emsd_particle_relabel` — renaming the particle ids by an injective map changes no `emsd`
  column and not its `N` (`imsd_particle_relabel`: the cell moves with the name);
  `emsd_particle_order` — `emsdAt` / `emsdN` do not depend on the order in which the per-particle
  tables are listed.
* (e) `start_frame_matters_if_laid_out_from_zero` — the seeded variant (`msdFromZero`) on a gapped
  trajectory starting at frame 3: other lag list, other `N`, and NOT invariant under renumbering,
  while `msd` is (`fromZero_eq_of_start_zero`: the variant is right exactly when the first frame
  is 0 — which is why a test-suite whose trajectories start at 0 cannot see it).

No dependence of the model on the start frame was found: (a) holds unconditionally.
-/
namespace TrackpyV.MSD

/-! ## (a) renumbering the frames: one trajectory -/

/-- every frame number of a trajectory increased by `k` -/
def shiftFrames (k : Int) (rows : List FullRow) : List FullRow := rows.map fun r => (r.1 + k, r.2)

/-- the displacements at a lag only see frame differences -/
theorem diffs_frame_shift (l : List Row) (k : Int) (lag : Nat) :
    diffs (l.map fun r => (r.1 + k, r.2)) lag = diffs l lag := by
  unfold diffs
  rw [List.flatMap_map]
  congr 1
  funext a
  rw [List.filter_map, List.map_map]
  have hp : ((fun b : Row => b.1 - (a.1 + k) == (lag : Int)) ∘ fun r : Row => (r.1 + k, r.2))
      = fun b : Row => b.1 - a.1 == (lag : Int) := by
    funext b
    simp only [Function.comp]
    congr 1
    omega
  rw [hp]
  rfl

theorem coord_frame_shift (mpp : Rat) (c : Nat) (k : Int) (rows : List FullRow) :
    coord mpp c (shiftFrames k rows) = (coord mpp c rows).map fun r => (r.1 + k, r.2) := by
  simp [coord, shiftFrames, List.map_map, Function.comp_def]

theorem dispDef_frame_shift (mpp : Rat) (c : Nat) (k : Int) (rows : List FullRow) (lag : Nat) :
    dispDef (coord mpp c (shiftFrames k rows)) lag = dispDef (coord mpp c rows) lag := by
  unfold dispDef
  rw [coord_frame_shift, diffs_frame_shift]

theorem sqDef_frame_shift (mpp : Rat) (c : Nat) (k : Int) (rows : List FullRow) (lag : Nat) :
    sqDef (coord mpp c (shiftFrames k rows)) lag = sqDef (coord mpp c rows) lag := by
  unfold sqDef
  rw [coord_frame_shift, diffs_frame_shift]

/-- **(a), the definition**: the statistic of the renumbered trajectory is the statistic of the
trajectory, at every lag (NaN at the same lags), for every table -/
theorem msdDef_frame_shift (mpp : Rat) (d : Nat) (k : Int) (rows : List FullRow) (lag : Nat) :
    msdDef mpp d (shiftFrames k rows) lag = msdDef mpp d rows lag := by
  unfold msdDef
  simp only [sqDef_frame_shift]

theorem shiftFrames_length (k : Int) (rows : List FullRow) :
    (shiftFrames k rows).length = rows.length := by
  simp [shiftFrames]

/-- max frame − min frame does not move -/
theorem span_frame_shift (k : Int) (rows : List FullRow) : span (shiftFrames k rows) = span rows := by
  by_cases hne : rows = []
  · subst hne; rfl
  · apply span_unique
    · intro a ha b hb
      obtain ⟨a0, ha0, rfl⟩ := List.mem_map.mp ha
      obtain ⟨b0, hb0, rfl⟩ := List.mem_map.mp hb
      have := diff_le_span rows a0 ha0 b0 hb0
      simp only
      omega
    · obtain ⟨a, ha, b, hb, hab⟩ := span_attained rows hne
      refine ⟨(a.1 + k, a.2), List.mem_map.mpr ⟨a, ha, rfl⟩, (b.1 + k, b.2),
        List.mem_map.mpr ⟨b, hb, rfl⟩, ?_⟩
      simp only
      omega

/-- the weight `N` of the definition does not move -/
theorem weightDef_frame_shift (k : Int) (rows : List FullRow) (lag : Nat) :
    weightDef (shiftFrames k rows) lag = weightDef rows lag := by
  unfold weightDef
  rw [span_frame_shift, shiftFrames_length]

/-- the complete row demanded at a lag does not move -/
theorem defRow_frame_shift (k : Int) (rows : List FullRow) (d : Nat) (mpp fps : Rat) (m : Nat) :
    defRow (shiftFrames k rows) d mpp fps m = defRow rows d mpp fps m := by
  simp only [defRow, dispDef_frame_shift, sqDef_frame_shift, msdDef_frame_shift,
    weightDef_frame_shift]

/-! ### the code paths, directly -/

/-- the stable sort by frame commutes with the renumbering -/
theorem sortRows_frame_shift (k : Int) (rows : List FullRow) :
    sortRows (shiftFrames k rows) = shiftFrames k (sortRows rows) := by
  unfold sortRows shiftFrames
  symm
  apply List.map_mergeSort
  intro a _ b _
  simp only [decide_eq_decide]
  omega

theorem look_frame_shift (l : List Row) (k f : Int) :
    look (l.map fun r => (r.1 + k, r.2)) (f + k) = look l f := by
  induction l with
  | nil => rfl
  | cons a l ih =>
    rw [List.map_cons, look_cons, look_cons, ih]
    by_cases h : a.1 = f
    · simp [h]
    · have : ¬ (a.1 + k = f + k) := by omega
      simp [h, this]

/-- the re-indexed column laid out from the shifted first frame is the re-indexed column -/
theorem reindex_frame_shift (l : List Row) (k f0 : Int) (n : Nat) :
    reindex (l.map fun r => (r.1 + k, r.2)) (f0 + k) n = reindex l f0 n := by
  unfold reindex
  apply List.map_congr_left
  intro i _
  have : f0 + k + (i : Int) = f0 + (i : Int) + k := by omega
  rw [this, look_frame_shift]

/-- **(a), gaps path** — its own lag list `1 … min(max_lagtime, n − 1)` and its own `N`: laid out
from the shifted first frame it returns the same table -/
theorem gapsOut_frame_shift (k : Int) (s : List FullRow) (f0 : Int) (n d : Nat) (mpp fps : Rat)
    (maxLag : Nat) :
    gapsOut (shiftFrames k s) (f0 + k) n d mpp fps maxLag = gapsOut s f0 n d mpp fps maxLag := by
  unfold gapsOut
  simp only [coord_frame_shift, reindex_frame_shift, shiftFrames_length]

/-- **(a), FFT path** — it never looks at the frame column -/
theorem fftOut_frame_shift (k : Int) (s : List FullRow) (d : Nat) (mpp fps : Rat) (maxLag : Nat) :
    fftOut (shiftFrames k s) d mpp fps maxLag = fftOut s d mpp fps maxLag := by
  have hc : ∀ c, (coord mpp c (shiftFrames k s)).map (·.2) = (coord mpp c s).map (·.2) := by
    intro c
    rw [coord_frame_shift, List.map_map]
    rfl
  unfold fftOut
  simp only [hc, shiftFrames_length]

/-- **(a) renumbering all frames by a constant changes NOTHING**: for every table (any length, gaps,
start frame, row order — even repeated frames), every integer `k` and every `d`, `mpp`, `fps`,
`max_lagtime`, `msd` of the trajectory with every frame number increased by `k` is `msd` of the
trajectory — the same list of `Out` rows: same lags listed, same `lagt`, `<c>`, `<c^2>`, `msd` (`none`
= NaN in the same places) and the same weight `N` -/
theorem msd_frame_shift (k : Int) (rows : List FullRow) (d : Nat) (mpp fps : Rat) (maxLag : Nat) :
    msd (shiftFrames k rows) d mpp fps maxLag = msd rows d mpp fps maxLag := by
  unfold msd
  simp only [sortRows_frame_shift]
  have hh : (shiftFrames k (sortRows rows)).head? = (sortRows rows).head?.map fun r => (r.1 + k, r.2) := by
    unfold shiftFrames; rw [List.head?_map]
  have hl : (shiftFrames k (sortRows rows)).getLast?
      = (sortRows rows).getLast?.map fun r => (r.1 + k, r.2) := by
    unfold shiftFrames; rw [List.getLast?_map]
  rw [hh, hl]
  cases (sortRows rows).head? with
  | none => rfl
  | some a =>
    cases (sortRows rows).getLast? with
    | none => rfl
    | some z =>
      simp only [Option.map_some, shiftFrames_length]
      have hn : (z.1 + k - (a.1 + k)).toNat = (z.1 - a.1).toNat := by
        congr 1; omega
      rw [hn, fftOut_frame_shift, gapsOut_frame_shift]

/-- the same algorithm is chosen -/
theorem isContiguous_frame_shift (k : Int) (rows : List FullRow) :
    isContiguous (shiftFrames k rows) = isContiguous rows := by
  unfold isContiguous
  simp only [sortRows_frame_shift]
  have hh : (shiftFrames k (sortRows rows)).head? = (sortRows rows).head?.map fun r => (r.1 + k, r.2) := by
    unfold shiftFrames; rw [List.head?_map]
  have hl : (shiftFrames k (sortRows rows)).getLast?
      = (sortRows rows).getLast?.map fun r => (r.1 + k, r.2) := by
    unfold shiftFrames; rw [List.getLast?_map]
  rw [hh, hl]
  cases (sortRows rows).head? with
  | none => rfl
  | some a =>
    cases (sortRows rows).getLast? with
    | none => rfl
    | some z =>
      simp only [Option.map_some, shiftFrames_length]
      have hn : (z.1 + k - (a.1 + k)).toNat = (z.1 - a.1).toNat := by
        congr 1; omega
      rw [hn]

/-- renumbering keeps the domain (one row per frame) -/
theorem nodupFrames_frame_shift (k : Int) (rows : List FullRow) (h : NodupFrames rows) :
    NodupFrames (shiftFrames k rows) := by
  unfold NodupFrames List.Nodup shiftFrames at *
  rw [List.map_map, List.pairwise_map]
  rw [List.pairwise_map] at h
  refine h.imp ?_
  intro a b hne hab
  simp only [Function.comp] at hab
  exact hne (by omega)

end TrackpyV.MSD
