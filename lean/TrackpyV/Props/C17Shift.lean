import TrackpyV.Props.C17Def
/-!
# C17, continued — what must NOT matter: the origin of the frame axis, the unit of length, the names
and the order of the particles

`Props/C17.lean` / `Props/C17Def.lean` tie every column of `msd` / `imsd` / `emsd` to the all-pairs
definition.  The definition only speaks of frame DIFFERENCES and of positions times `mpp`, so three
invariances follow — and a seeded change of `_msd_gaps` (`pos.reindex(np.arange(1 + pos.index[-1]))`:
the trajectory laid out from frame 0 instead of from its first frame) showed that nothing stated so
far mentions them.  About the SAME model definitions (`Model/MSD.lean`):

* (a) `msd_frame_shift` — every frame number increased by one integer `k` (`shiftFrames`): the WHOLE
  table of `msd` is unchanged (lags listed, `lagt`, `<c>`, `<c^2>`, `msd`, NaN places, `N`), for every
  table — no one-row-per-frame hypothesis, any row order: proved directly on the model, path by path
  (`sortRows_frame_shift`, `fftOut_frame_shift`, `gapsOut_frame_shift` — the gaps path with its own
  lag list and `N`, laid out from the shifted first frame —, `isContiguous_frame_shift`: the same path
  is taken).  For the definition: `msdDef_frame_shift`, `dispDef_frame_shift`, `sqDef_frame_shift`,
  `pairs`-free; `span_frame_shift`, `weightDef_frame_shift`, `defRow_frame_shift`.
* (b) `imsd_frame_shift`, `emsd_frame_shift` (`perParticle_frame_shift`): all particles shifted by the
  same `k` — every `imsd` cell, every `emsd` column, `emsd`'s `N` and the lag axis are unchanged.
* (c) `msd_mpp_scale` — multiplying every position by `c` and using `mpp` IS using `mpp·c` (every
  table, both paths, all columns); `msd_length_unit` — it multiplies `<c>` by `c`, `<c^2>` and `msd` by
  `c²` (NaN stays NaN) and leaves lags, `lagt`, `N` alone (`Out.scale`; one row per frame, through
  `msd_eq_rows`); `msdDef_length_unit` for the definition; `emsd_length_unit`, `emsdN_length_unit`.
* (d) `emsd_particle_relabel` — renaming the particle ids by an injective map changes no `emsd`
  column and not its `N` (`imsd_particle_relabel`: the cell moves with the name);
  `emsd_particle_order` — `emsdAt` / `emsdN` do not depend on the order in which the per-particle
  tables are listed.
* (e) `start_frame_matters_if_laid_out_from_zero` — the seeded variant (`msdFromZero`) on a gapped
  trajectory starting at frame 3: other lag list, other `N`, and NOT invariant under renumbering,
  while `msd` is (`fromZero_eq_of_start_zero`: the variant is right exactly when the first frame
  is 0 — which is why a test-suite whose trajectories start at 0 cannot see it).

No dependence of the model on the start frame was found: (a) holds unconditionally.
-/
namespace TrackpyV.MSD

/-! ## (a) renumbering the frames: one trajectory -/

/-- every frame number of a trajectory increased by `k` -/
def shiftFrames (k : Int) (rows : List FullRow) : List FullRow := rows.map fun r => (r.1 + k, r.2)

/-- the displacements at a lag only see frame differences -/
theorem diffs_frame_shift (l : List Row) (k : Int) (lag : Nat) :
    diffs (l.map fun r => (r.1 + k, r.2)) lag = diffs l lag := by
  unfold diffs
  rw [List.flatMap_map]
  congr 1
  funext a
  rw [List.filter_map, List.map_map]
  have hp : ((fun b : Row => b.1 - (a.1 + k) == (lag : Int)) ∘ fun r : Row => (r.1 + k, r.2))
      = fun b : Row => b.1 - a.1 == (lag : Int) := by
    funext b
    simp only [Function.comp]
    congr 1
    omega
  rw [hp]
  rfl

theorem coord_frame_shift (mpp : Rat) (c : Nat) (k : Int) (rows : List FullRow) :
    coord mpp c (shiftFrames k rows) = (coord mpp c rows).map fun r => (r.1 + k, r.2) := by
  simp [coord, shiftFrames, List.map_map, Function.comp_def]

theorem dispDef_frame_shift (mpp : Rat) (c : Nat) (k : Int) (rows : List FullRow) (lag : Nat) :
    dispDef (coord mpp c (shiftFrames k rows)) lag = dispDef (coord mpp c rows) lag := by
  unfold dispDef
  rw [coord_frame_shift, diffs_frame_shift]

theorem sqDef_frame_shift (mpp : Rat) (c : Nat) (k : Int) (rows : List FullRow) (lag : Nat) :
    sqDef (coord mpp c (shiftFrames k rows)) lag = sqDef (coord mpp c rows) lag := by
  unfold sqDef
  rw [coord_frame_shift, diffs_frame_shift]

/-- **(a), the definition**: the statistic of the renumbered trajectory is the statistic of the
trajectory, at every lag (NaN at the same lags), for every table -/
theorem msdDef_frame_shift (mpp : Rat) (d : Nat) (k : Int) (rows : List FullRow) (lag : Nat) :
    msdDef mpp d (shiftFrames k rows) lag = msdDef mpp d rows lag := by
  unfold msdDef
  simp only [sqDef_frame_shift]

theorem shiftFrames_length (k : Int) (rows : List FullRow) :
    (shiftFrames k rows).length = rows.length := by
  simp [shiftFrames]

/-- max frame − min frame does not move -/
theorem span_frame_shift (k : Int) (rows : List FullRow) : span (shiftFrames k rows) = span rows := by
  by_cases hne : rows = []
  · subst hne; rfl
  · apply span_unique
    · intro a ha b hb
      obtain ⟨a0, ha0, rfl⟩ := List.mem_map.mp ha
      obtain ⟨b0, hb0, rfl⟩ := List.mem_map.mp hb
      have := diff_le_span rows a0 ha0 b0 hb0
      simp only
      omega
    · obtain ⟨a, ha, b, hb, hab⟩ := span_attained rows hne
      refine ⟨(a.1 + k, a.2), List.mem_map.mpr ⟨a, ha, rfl⟩, (b.1 + k, b.2),
        List.mem_map.mpr ⟨b, hb, rfl⟩, ?_⟩
      simp only
      omega

/-- the weight `N` of the definition does not move -/
theorem weightDef_frame_shift (k : Int) (rows : List FullRow) (lag : Nat) :
    weightDef (shiftFrames k rows) lag = weightDef rows lag := by
  unfold weightDef
  rw [span_frame_shift, shiftFrames_length]

/-- the complete row demanded at a lag does not move -/
theorem defRow_frame_shift (k : Int) (rows : List FullRow) (d : Nat) (mpp fps : Rat) (m : Nat) :
    defRow (shiftFrames k rows) d mpp fps m = defRow rows d mpp fps m := by
  simp only [defRow, dispDef_frame_shift, sqDef_frame_shift, msdDef_frame_shift,
    weightDef_frame_shift]

/-! ### the code paths, directly -/

/-- the stable sort by frame commutes with the renumbering -/
theorem sortRows_frame_shift (k : Int) (rows : List FullRow) :
    sortRows (shiftFrames k rows) = shiftFrames k (sortRows rows) := by
  unfold sortRows shiftFrames
  symm
  apply List.map_mergeSort
  intro a _ b _
  simp only [decide_eq_decide]
  omega

theorem look_frame_shift (l : List Row) (k f : Int) :
    look (l.map fun r => (r.1 + k, r.2)) (f + k) = look l f := by
  induction l with
  | nil => rfl
  | cons a l ih =>
    rw [List.map_cons, look_cons, look_cons, ih]
    by_cases h : a.1 = f
    · simp [h]
    · have : ¬ (a.1 + k = f + k) := by omega
      simp [h, this]

/-- the re-indexed column laid out from the shifted first frame is the re-indexed column -/
theorem reindex_frame_shift (l : List Row) (k f0 : Int) (n : Nat) :
    reindex (l.map fun r => (r.1 + k, r.2)) (f0 + k) n = reindex l f0 n := by
  unfold reindex
  apply List.map_congr_left
  intro i _
  have : f0 + k + (i : Int) = f0 + (i : Int) + k := by omega
  rw [this, look_frame_shift]

/-- **(a), gaps path** — its own lag list `1 … min(max_lagtime, n − 1)` and its own `N`: laid out
from the shifted first frame it returns the same table -/
theorem gapsOut_frame_shift (k : Int) (s : List FullRow) (f0 : Int) (n d : Nat) (mpp fps : Rat)
    (maxLag : Nat) :
    gapsOut (shiftFrames k s) (f0 + k) n d mpp fps maxLag = gapsOut s f0 n d mpp fps maxLag := by
  unfold gapsOut
  simp only [coord_frame_shift, reindex_frame_shift, shiftFrames_length]

/-- **(a), FFT path** — it never looks at the frame column -/
theorem fftOut_frame_shift (k : Int) (s : List FullRow) (d : Nat) (mpp fps : Rat) (maxLag : Nat) :
    fftOut (shiftFrames k s) d mpp fps maxLag = fftOut s d mpp fps maxLag := by
  have hc : ∀ c, (coord mpp c (shiftFrames k s)).map (·.2) = (coord mpp c s).map (·.2) := by
    intro c
    rw [coord_frame_shift, List.map_map]
    rfl
  unfold fftOut
  simp only [hc, shiftFrames_length]

/-- **(a) renumbering all frames by a constant changes NOTHING**: for every table (any length, gaps,
start frame, row order — even repeated frames), every integer `k` and every `d`, `mpp`, `fps`,
`max_lagtime`, `msd` of the trajectory with every frame number increased by `k` is `msd` of the
trajectory — the same list of `Out` rows: same lags listed, same `lagt`, `<c>`, `<c^2>`, `msd` (`none`
= NaN in the same places) and the same weight `N` -/
theorem msd_frame_shift (k : Int) (rows : List FullRow) (d : Nat) (mpp fps : Rat) (maxLag : Nat) :
    msd (shiftFrames k rows) d mpp fps maxLag = msd rows d mpp fps maxLag := by
  unfold msd
  simp only [sortRows_frame_shift]
  have hh : (shiftFrames k (sortRows rows)).head? = (sortRows rows).head?.map fun r => (r.1 + k, r.2) := by
    unfold shiftFrames; rw [List.head?_map]
  have hl : (shiftFrames k (sortRows rows)).getLast?
      = (sortRows rows).getLast?.map fun r => (r.1 + k, r.2) := by
    unfold shiftFrames; rw [List.getLast?_map]
  rw [hh, hl]
  cases (sortRows rows).head? with
  | none => rfl
  | some a =>
    cases (sortRows rows).getLast? with
    | none => rfl
    | some z =>
      simp only [Option.map_some, shiftFrames_length]
      have hn : (z.1 + k - (a.1 + k)).toNat = (z.1 - a.1).toNat := by
        congr 1; omega
      rw [hn, fftOut_frame_shift, gapsOut_frame_shift]

/-- the same algorithm is chosen -/
theorem isContiguous_frame_shift (k : Int) (rows : List FullRow) :
    isContiguous (shiftFrames k rows) = isContiguous rows := by
  unfold isContiguous
  simp only [sortRows_frame_shift]
  have hh : (shiftFrames k (sortRows rows)).head? = (sortRows rows).head?.map fun r => (r.1 + k, r.2) := by
    unfold shiftFrames; rw [List.head?_map]
  have hl : (shiftFrames k (sortRows rows)).getLast?
      = (sortRows rows).getLast?.map fun r => (r.1 + k, r.2) := by
    unfold shiftFrames; rw [List.getLast?_map]
  rw [hh, hl]
  cases (sortRows rows).head? with
  | none => rfl
  | some a =>
    cases (sortRows rows).getLast? with
    | none => rfl
    | some z =>
      simp only [Option.map_some, shiftFrames_length]
      have hn : (z.1 + k - (a.1 + k)).toNat = (z.1 - a.1).toNat := by
        congr 1; omega
      rw [hn]

/-- renumbering keeps the domain (one row per frame) -/
theorem nodupFrames_frame_shift (k : Int) (rows : List FullRow) (h : NodupFrames rows) :
    NodupFrames (shiftFrames k rows) := by
  unfold NodupFrames List.Nodup shiftFrames at *
  rw [List.map_map, List.pairwise_map]
  rw [List.pairwise_map] at h
  refine h.imp ?_
  intro a b hne hab
  simp only [Function.comp] at hab
  exact hne (by omega)

/-! ## (b) renumbering the frames: many particles -/

/-- every frame number of a multi-particle table increased by the same `k` -/
def shiftTable (k : Int) (t : List PRow) : List PRow := t.map fun r => (r.1, r.2.1 + k, r.2.2)

theorem particleIds_frame_shift (k : Int) (t : List PRow) :
    particleIds (shiftTable k t) = particleIds t := by
  unfold particleIds shiftTable
  rw [List.foldr_map]

theorem rowsOf_frame_shift (k : Int) (t : List PRow) (p : Nat) :
    rowsOf (shiftTable k t) p = shiftFrames k (rowsOf t p) := by
  unfold rowsOf shiftTable shiftFrames
  rw [List.filter_map, List.map_map, List.map_map]
  rfl

/-- the per-particle tables (`msds` of `imsd` / `emsd`) do not move -/
theorem perParticle_frame_shift (k : Int) (t : List PRow) (d : Nat) (mpp fps : Rat) (maxLag : Nat) :
    perParticle (shiftTable k t) d mpp fps maxLag = perParticle t d mpp fps maxLag := by
  unfold perParticle
  rw [particleIds_frame_shift]
  apply List.map_congr_left
  intro p _
  rw [rowsOf_frame_shift, msd_frame_shift]

/-- **(b) imsd**: every cell (lag, particle) of every statistic of the per-particle matrix is unchanged
when all frames of the table are renumbered by `k` (the particle columns and the lag axis —
`particleIds`, `lagCount` — too) -/
theorem imsd_frame_shift (k : Int) (t : List PRow) (d : Nat) (mpp fps : Rat) (maxLag : Nat)
    (col : Out → Option Rat) (p lag : Nat) :
    imsdCell (perParticle (shiftTable k t) d mpp fps maxLag) col p lag
        = imsdCell (perParticle t d mpp fps maxLag) col p lag
      ∧ particleIds (shiftTable k t) = particleIds t
      ∧ lagCount (perParticle (shiftTable k t) d mpp fps maxLag)
        = lagCount (perParticle t d mpp fps maxLag) := by
  rw [perParticle_frame_shift, particleIds_frame_shift]
  exact ⟨rfl, rfl, rfl⟩

/-- **(b) emsd**: every column of the ensemble average at every lag (NaN in the same places), its
`N` column and its lag axis are unchanged when all frames are renumbered by `k` -/
theorem emsd_frame_shift (k : Int) (t : List PRow) (d : Nat) (mpp fps : Rat) (maxLag : Nat)
    (col : Out → Option Rat) (lag : Nat) :
    emsdAt (perParticle (shiftTable k t) d mpp fps maxLag) col lag
        = emsdAt (perParticle t d mpp fps maxLag) col lag
      ∧ emsdN (perParticle (shiftTable k t) d mpp fps maxLag) lag
        = emsdN (perParticle t d mpp fps maxLag) lag
      ∧ lagCount (perParticle (shiftTable k t) d mpp fps maxLag)
        = lagCount (perParticle t d mpp fps maxLag) := by
  rw [perParticle_frame_shift]
  exact ⟨rfl, rfl, rfl⟩

/-! ## (c) the unit of length -/

/-- every position multiplied by `c` (the same lengths in another unit) -/
def scalePos (c : Rat) (rows : List FullRow) : List FullRow := rows.map fun r => (r.1, r.2.map (· * c))

/-- an output row in the other unit: `<c>` times `c`, `<c^2>` and `msd` times `c²`; lag, `lagt`, `N`
as they are; NaN stays NaN -/
def Out.scale (c : Rat) (o : Out) : Out :=
  { o with disp := o.disp.map (Option.map (· * c)),
           sqd := o.sqd.map (Option.map (· * (c * c))),
           msd := o.msd.map (· * (c * c)) }

theorem getD_map_mul (l : List Rat) (i : Nat) (c : Rat) : (l.map (· * c)).getD i 0 = l.getD i 0 * c := by
  simp only [List.getD_eq_getElem?_getD, List.getElem?_map]
  cases l[i]? with
  | none => simp
  | some x => rfl

/-- scaling the positions by `c` and converting with `mpp` is converting with `c · mpp` -/
theorem coord_scalePos (mpp c : Rat) (col : Nat) (rows : List FullRow) :
    coord mpp col (scalePos c rows) = coord (c * mpp) col rows := by
  unfold coord scalePos
  rw [List.map_map]
  apply List.map_congr_left
  intro r _
  simp only [Function.comp, getD_map_mul, Prod.mk.injEq, true_and]
  ring

theorem scalePos_length (c : Rat) (rows : List FullRow) : (scalePos c rows).length = rows.length := by
  simp [scalePos]

theorem sortRows_scalePos (c : Rat) (rows : List FullRow) :
    sortRows (scalePos c rows) = scalePos c (sortRows rows) := by
  unfold sortRows scalePos
  symm
  apply List.map_mergeSort
  intro a _ b _
  rfl

/-- **(c) `msd_mpp_scale`**: for EVERY table, both code paths and all columns — giving the positions
in a unit `c` times smaller (every position multiplied by `c`) and converting with `mpp` is the same
as converting the original positions with `c · mpp`: the unit of length enters through the product
`position · mpp` only -/
theorem msd_mpp_scale (c : Rat) (rows : List FullRow) (d : Nat) (mpp fps : Rat) (maxLag : Nat) :
    msd (scalePos c rows) d mpp fps maxLag = msd rows d (c * mpp) fps maxLag := by
  unfold msd
  simp only [sortRows_scalePos]
  have hh : (scalePos c (sortRows rows)).head?
      = (sortRows rows).head?.map fun r => (r.1, r.2.map (· * c)) := by
    unfold scalePos; rw [List.head?_map]
  have hl : (scalePos c (sortRows rows)).getLast?
      = (sortRows rows).getLast?.map fun r => (r.1, r.2.map (· * c)) := by
    unfold scalePos; rw [List.getLast?_map]
  rw [hh, hl]
  cases (sortRows rows).head? with
  | none => rfl
  | some a =>
    cases (sortRows rows).getLast? with
    | none => rfl
    | some z =>
      simp only [Option.map_some, scalePos_length, fftOut, gapsOut, coord_scalePos]

theorem coord_rescale (mpp c : Rat) (col : Nat) (rows : List FullRow) :
    coord (c * mpp) col rows = (coord mpp col rows).map fun r => (r.1, r.2 * c) := by
  unfold coord
  rw [List.map_map]
  apply List.map_congr_left
  intro r _
  simp only [Function.comp, Prod.mk.injEq, true_and]
  ring

theorem dispDef_rescale (mpp c : Rat) (col : Nat) (rows : List FullRow) (lag : Nat) :
    dispDef (coord (c * mpp) col rows) lag = (dispDef (coord mpp col rows) lag).map (· * c) := by
  unfold dispDef
  rw [coord_rescale, diffs_scale, ← meanOpt_scale]

theorem sqDef_rescale (mpp c : Rat) (col : Nat) (rows : List FullRow) (lag : Nat) :
    sqDef (coord (c * mpp) col rows) lag = (sqDef (coord mpp col rows) lag).map (· * (c * c)) := by
  unfold sqDef
  rw [coord_rescale, diffs_scale, ← meanOpt_scale, List.map_map, List.map_map]
  congr 1
  apply List.map_congr_left
  intro x _
  simp only [Function.comp, sq]; ring

theorem sumOpt_scale (k : Rat) : ∀ (l : List (Option Rat)),
    sumOpt (l.map (Option.map (· * k))) = (sumOpt l).map (· * k)
  | [] => by simp [sumOpt]
  | none :: l => by simp [sumOpt]
  | some a :: l => by
    have ih := sumOpt_scale k l
    simp only [List.map_cons, Option.map_some, sumOpt, ih]
    cases sumOpt l with
    | none => rfl
    | some b => simp only [Option.map_some]; congr 1; ring

theorem msdDef_rescale (mpp c : Rat) (d : Nat) (rows : List FullRow) (lag : Nat) :
    msdDef (c * mpp) d rows lag = (msdDef mpp d rows lag).map (· * (c * c)) := by
  unfold msdDef
  rw [← sumOpt_scale, List.map_map]
  congr 1
  apply List.map_congr_left
  intro col _
  exact sqDef_rescale mpp c col rows lag

/-- **(c), the definition**: with every position multiplied by `c` the statistic is multiplied by
`c²` (NaN stays NaN), at every lag, for every table -/
theorem msdDef_length_unit (mpp c : Rat) (d : Nat) (rows : List FullRow) (lag : Nat) :
    msdDef mpp d (scalePos c rows) lag = (msdDef mpp d rows lag).map (· * (c * c)) := by
  unfold msdDef
  simp only [coord_scalePos]
  exact msdDef_rescale mpp c d rows lag

theorem scalePos_frames (c : Rat) (rows : List FullRow) :
    (scalePos c rows).map (·.1) = rows.map (·.1) := by
  simp [scalePos, List.map_map, Function.comp_def]

theorem defRow_rescale (rows : List FullRow) (d : Nat) (mpp c fps : Rat) (m : Nat) :
    defRow rows d (c * mpp) fps m = Out.scale c (defRow rows d mpp fps m) := by
  simp only [defRow, Out.scale, dispDef_rescale, sqDef_rescale, msdDef_rescale, List.map_map]
  rfl

/-- converting with `c · mpp` instead of `mpp`: every row of `msd` in the other unit -/
theorem msd_mpp_mul (c : Rat) (rows : List FullRow) (d : Nat) (mpp fps : Rat) (maxLag : Nat)
    (hnd : NodupFrames rows) :
    msd rows d (c * mpp) fps maxLag = (msd rows d mpp fps maxLag).map (Out.scale c) := by
  rw [msd_eq_rows rows d (c * mpp) fps maxLag hnd, msd_eq_rows rows d mpp fps maxLag hnd,
    List.map_map]
  apply List.map_congr_left
  intro i _
  exact defRow_rescale rows d mpp c fps (i + 1)

/-- **(c) the unit of length enters as the factor `c²` and nowhere else**: for every trajectory with
one row per frame (any length, gaps, start frame, row order) and every rational `c`, `msd` of the
trajectory with every position multiplied by `c` is `msd` of the trajectory with `<c>` multiplied by
`c`, `<c^2>` and `msd` by `c²` — the same lags listed, the same `lagt`, NaN in the same places, the
same `N` -/
theorem msd_length_unit (c : Rat) (rows : List FullRow) (d : Nat) (mpp fps : Rat) (maxLag : Nat)
    (hnd : NodupFrames rows) :
    msd (scalePos c rows) d mpp fps maxLag = (msd rows d mpp fps maxLag).map (Out.scale c) := by
  rw [msd_mpp_scale, msd_mpp_mul c rows d mpp fps maxLag hnd]

/-- what `Out.scale` leaves alone -/
theorem Out.scale_keeps (c : Rat) (o : Out) :
    (Out.scale c o).lag = o.lag ∧ (Out.scale c o).lagt = o.lagt ∧ (Out.scale c o).n = o.n :=
  ⟨rfl, rfl, rfl⟩

/-! ### the ensemble in another unit -/

/-- every position of a multi-particle table multiplied by `c` -/
def scaleTable (c : Rat) (t : List PRow) : List PRow := t.map fun r => (r.1, r.2.1, r.2.2.map (· * c))

/-- the per-particle tables with every row in the other unit -/
def scalePer (c : Rat) (per : List (Nat × List Out)) : List (Nat × List Out) :=
  per.map fun x => (x.1, x.2.map (Out.scale c))

theorem particleIds_scaleTable (c : Rat) (t : List PRow) : particleIds (scaleTable c t) = particleIds t := by
  unfold particleIds scaleTable
  rw [List.foldr_map]

theorem rowsOf_scaleTable (c : Rat) (t : List PRow) (p : Nat) :
    rowsOf (scaleTable c t) p = scalePos c (rowsOf t p) := by
  unfold rowsOf scaleTable scalePos
  rw [List.filter_map, List.map_map, List.map_map]
  rfl

theorem perParticle_length_unit (c : Rat) (t : List PRow) (d : Nat) (mpp fps : Rat) (maxLag : Nat)
    (hnd : ∀ p ∈ particleIds t, NodupFrames (rowsOf t p)) :
    perParticle (scaleTable c t) d mpp fps maxLag = scalePer c (perParticle t d mpp fps maxLag) := by
  unfold perParticle scalePer
  rw [particleIds_scaleTable, List.map_map]
  apply List.map_congr_left
  intro p hp
  simp only [Function.comp]
  rw [rowsOf_scaleTable, msd_length_unit c _ d mpp fps maxLag (hnd p hp)]

theorem rowAt_scale (c : Rat) (outs : List Out) (lag : Nat) :
    rowAt (outs.map (Out.scale c)) lag = (rowAt outs lag).map (Out.scale c) := by
  unfold rowAt
  rw [List.find?_map]
  rfl

theorem sum_map_mul_right {α} (l : List α) (f : α → Rat) (k : Rat) :
    (l.map fun x => f x * k).sum = (l.map f).sum * k := by
  induction l with
  | nil => simp
  | cons x xs ih => simp only [List.map_cons, List.sum_cons, ih]; ring

theorem wmean_scale (l : List (Rat × Rat)) (k : Rat) :
    wmean (l.map fun x => (x.1, x.2 * k)) = (wmean l).map (· * k) := by
  unfold wmean
  by_cases h : l.length = 0
  · simp [h]
  · simp only [List.length_map, h, if_false, Option.map_some, List.map_map, Function.comp_def]
    have : (l.map fun x => x.1 * (x.2 * k)) = l.map fun x => x.1 * x.2 * k := by
      apply List.map_congr_left; intro x _; ring
    rw [this, sum_map_mul_right]
    congr 1; ring

/-- a column that is multiplied by `k` in the other unit: so is its ensemble average -/
theorem emsdAt_scale (c k : Rat) (per : List (Nat × List Out)) (col : Out → Option Rat)
    (hcol : ∀ o, col (Out.scale c o) = (col o).map (· * k)) (lag : Nat) :
    emsdAt (scalePer c per) col lag = (emsdAt per col lag).map (· * k) := by
  rw [emsdAt_eq_wmean, emsdAt_eq_wmean, ← wmean_scale]
  congr 1
  unfold contrib scalePer
  rw [List.filterMap_map, List.map_filterMap]
  apply List.filterMap_congr
  intro x _
  simp only [Function.comp, rowAt_scale]
  cases rowAt x.2 lag with
  | none => rfl
  | some o =>
    simp only [Option.map_some, Option.bind_some, hcol]
    cases col o with
    | none => rfl
    | some v => rfl

theorem emsdN_scale (c : Rat) (per : List (Nat × List Out)) (lag : Nat) :
    emsdN (scalePer c per) lag = emsdN per lag := by
  unfold emsdN scalePer
  rw [List.filterMap_map]
  congr 1
  apply List.filterMap_congr
  intro x _
  simp only [Function.comp, rowAt_scale]
  cases rowAt x.2 lag with
  | none => rfl
  | some o => rfl

/-- **(c) emsd**: every position of the table multiplied by `c` — the ensemble `msd` and every
`<c^2>` column are multiplied by `c²`, every `<c>` column by `c` (NaN stays NaN), at every lag -/
theorem emsd_length_unit (c : Rat) (t : List PRow) (d : Nat) (mpp fps : Rat) (maxLag lag : Nat)
    (hnd : ∀ p ∈ particleIds t, NodupFrames (rowsOf t p)) :
    emsdAt (perParticle (scaleTable c t) d mpp fps maxLag) Out.msd lag
        = (emsdAt (perParticle t d mpp fps maxLag) Out.msd lag).map (· * (c * c))
      ∧ (∀ i, emsdAt (perParticle (scaleTable c t) d mpp fps maxLag) (fun o => o.sqd.getD i none) lag
        = (emsdAt (perParticle t d mpp fps maxLag) (fun o => o.sqd.getD i none) lag).map (· * (c * c)))
      ∧ (∀ i, emsdAt (perParticle (scaleTable c t) d mpp fps maxLag) (fun o => o.disp.getD i none) lag
        = (emsdAt (perParticle t d mpp fps maxLag) (fun o => o.disp.getD i none) lag).map (· * c)) := by
  rw [perParticle_length_unit c t d mpp fps maxLag hnd]
  have hget : ∀ (l : List (Option Rat)) (i : Nat) (k : Rat),
      (l.map (Option.map (· * k))).getD i none = (l.getD i none).map (· * k) := by
    intro l i k
    simp only [List.getD_eq_getElem?_getD, List.getElem?_map]
    cases l[i]? with
    | none => rfl
    | some x => rfl
  refine ⟨emsdAt_scale c (c * c) _ _ (fun _ => rfl) lag, ?_, ?_⟩
  · intro i
    exact emsdAt_scale c (c * c) _ _ (fun o => hget o.sqd i (c * c)) lag
  · intro i
    exact emsdAt_scale c c _ _ (fun o => hget o.disp i c) lag

/-- **(c) emsd, `N` and lags**: the weights and the lag axis do not see the unit of length -/
theorem emsdN_length_unit (c : Rat) (t : List PRow) (d : Nat) (mpp fps : Rat) (maxLag lag : Nat)
    (hnd : ∀ p ∈ particleIds t, NodupFrames (rowsOf t p)) :
    emsdN (perParticle (scaleTable c t) d mpp fps maxLag) lag
        = emsdN (perParticle t d mpp fps maxLag) lag
      ∧ lagCount (perParticle (scaleTable c t) d mpp fps maxLag)
        = lagCount (perParticle t d mpp fps maxLag) := by
  rw [perParticle_length_unit c t d mpp fps maxLag hnd]
  refine ⟨emsdN_scale c _ lag, ?_⟩
  unfold lagCount scalePer
  rw [List.map_map]
  congr 1
  apply List.map_congr_left
  intro x _
  simp [Function.comp]

/-! ## (d) the names and the order of the particles -/

/-- the particle ids renamed by `σ` -/
def relabel (σ : Nat → Nat) (t : List PRow) : List PRow := t.map fun r => (σ r.1, r.2)

theorem wmean_perm {l l' : List (Rat × Rat)} (h : l.Perm l') : wmean l = wmean l' := by
  unfold wmean
  rw [h.length_eq, sum_perm (h.map fun x => x.1 * x.2), sum_perm (h.map (·.1))]

/-- **(d) the order of the particles**: `emsd` (every column, and `N`) does not depend on the order
in which the per-particle tables are listed -/
theorem emsd_particle_order (per per' : List (Nat × List Out)) (h : per.Perm per')
    (col : Out → Option Rat) (lag : Nat) :
    emsdAt per col lag = emsdAt per' col lag ∧ emsdN per lag = emsdN per' lag := by
  constructor
  · rw [emsdAt_eq_wmean, emsdAt_eq_wmean]
    exact wmean_perm (h.filterMap _)
  · unfold emsdN
    exact sum_perm (h.filterMap _)

theorem rowsOf_relabel (σ : Nat → Nat) (hσ : ∀ a b, σ a = σ b → a = b) (t : List PRow) (p : Nat) :
    rowsOf (relabel σ t) (σ p) = rowsOf t p := by
  unfold rowsOf relabel
  rw [List.filter_map, List.map_map]
  have hp : ((fun r : PRow => r.1 == σ p) ∘ fun r : PRow => (σ r.1, r.2)) = fun r : PRow => r.1 == p := by
    funext r
    simp only [Function.comp]
    by_cases h : r.1 = p
    · simp [h]
    · have : ¬ (σ r.1 = σ p) := fun e => h (hσ _ _ e)
      simp [h, this]
  rw [hp]
  rfl

/-- the particles of the renamed table are the renamed particles (in the order of the NEW names) -/
theorem particleIds_relabel (σ : Nat → Nat) (hσ : ∀ a b, σ a = σ b → a = b) (t : List PRow) :
    (particleIds (relabel σ t)).Perm ((particleIds t).map σ) := by
  have hnd : ((particleIds t).map σ).Nodup := by
    unfold List.Nodup
    rw [List.pairwise_map]
    exact (particleIds_nodup t).imp (fun hne e => hne (hσ _ _ e))
  rw [List.perm_ext_iff_of_nodup (particleIds_nodup _) hnd]
  intro q
  rw [mem_particleIds, List.mem_map]
  constructor
  · rintro ⟨r, hr, rfl⟩
    obtain ⟨r0, hr0, rfl⟩ := List.mem_map.mp hr
    exact ⟨r0.1, (mem_particleIds t r0.1).mpr ⟨r0, hr0, rfl⟩, rfl⟩
  · rintro ⟨p, hp, rfl⟩
    obtain ⟨r0, hr0, rfl⟩ := (mem_particleIds t p).mp hp
    exact ⟨(σ r0.1, r0.2), List.mem_map.mpr ⟨r0, hr0, rfl⟩, rfl⟩

/-- **(d) renaming the particles**: for every multi-particle table and every injective renaming `σ`
of the particle ids, every column of `emsd` at every lag (NaN included) and its `N` are those of the
original table — although the per-particle tables are now listed in the order of the new names -/
theorem emsd_particle_relabel (σ : Nat → Nat) (hσ : ∀ a b, σ a = σ b → a = b) (t : List PRow)
    (d : Nat) (mpp fps : Rat) (maxLag : Nat) (col : Out → Option Rat) (lag : Nat) :
    emsdAt (perParticle (relabel σ t) d mpp fps maxLag) col lag
        = emsdAt (perParticle t d mpp fps maxLag) col lag
      ∧ emsdN (perParticle (relabel σ t) d mpp fps maxLag) lag
        = emsdN (perParticle t d mpp fps maxLag) lag := by
  have hper : (perParticle (relabel σ t) d mpp fps maxLag).map (·.2)
      |>.Perm ((perParticle t d mpp fps maxLag).map (·.2)) := by
    unfold perParticle
    rw [List.map_map, List.map_map]
    refine ((particleIds_relabel σ hσ t).map _).trans ?_
    rw [List.map_map]
    apply List.Perm.of_eq
    apply List.map_congr_left
    intro p _
    simp only [Function.comp, rowsOf_relabel σ hσ]
  -- both `emsdAt` and `emsdN` only see the tables, not the names
  have hA : ∀ per : List (Nat × List Out), emsdAt per col lag
      = wmean ((per.map (·.2)).filterMap fun outs =>
          (rowAt outs lag).bind fun o => (col o).map fun v => (o.n, v)) := by
    intro per
    rw [emsdAt_eq_wmean]
    unfold contrib
    rw [List.filterMap_map]
    rfl
  have hN : ∀ per : List (Nat × List Out), emsdN per lag
      = ((per.map (·.2)).filterMap fun outs => (rowAt outs lag).map (·.n)).sum := by
    intro per
    unfold emsdN
    rw [List.filterMap_map]
    rfl
  constructor
  · rw [hA, hA]
    exact wmean_perm (hper.filterMap _)
  · rw [hN, hN]
    exact sum_perm (hper.filterMap _)

/-- **(d) imsd**: the column of the per-particle matrix moves with the name -/
theorem imsd_particle_relabel (σ : Nat → Nat) (hσ : ∀ a b, σ a = σ b → a = b) (t : List PRow)
    (d : Nat) (mpp fps : Rat) (maxLag : Nat) (col : Out → Option Rat) (p lag : Nat)
    (hp : p ∈ particleIds t) :
    imsdCell (perParticle (relabel σ t) d mpp fps maxLag) col (σ p) lag
      = imsdCell (perParticle t d mpp fps maxLag) col p lag := by
  have hp' : σ p ∈ particleIds (relabel σ t) :=
    (particleIds_relabel σ hσ t).mem_iff.mpr (List.mem_map.mpr ⟨p, hp, rfl⟩)
  rw [imsd_eq_msd _ d mpp fps maxLag col (σ p) lag hp', imsd_eq_msd t d mpp fps maxLag col p lag hp,
    rowsOf_relabel σ hσ]

/-! ## (e) the seeded change: the trajectory laid out from frame 0 -/

/-- `msd` with the seeded change of `_msd_gaps` (seeded/C17-A4):
`pos.reindex(np.arange(1 + pos.index[-1]))` instead of
`pos.reindex(np.arange(pos.index[0], 1 + pos.index[-1]))` — the gaps path lays the trajectory out
from frame 0, so `len(pos)` (which clips `max_lagtime` and enters `N`) is `last + 1`.  NOT the model;
defined for the witness only. -/
def msdFromZero (rows : List FullRow) (d : Nat) (mpp fps : Rat) (maxLag : Nat) : List Out :=
  let s := sortRows rows
  match s.head?, s.getLast? with
  | some a, some z =>
    let n := (z.1 - a.1).toNat + 1
    if n = s.length then fftOut s d mpp fps maxLag
    else gapsOut s 0 (z.1.toNat + 1) d mpp fps maxLag
  | _, _ => []

/-- the variant is right exactly on the trajectories a test-suite tends to use: first frame 0 -/
theorem fromZero_eq_of_start_zero (rows : List FullRow) (d : Nat) (mpp fps : Rat) (maxLag : Nat)
    (h0 : ∀ a, (sortRows rows).head? = some a → a.1 = 0) :
    msdFromZero rows d mpp fps maxLag = msd rows d mpp fps maxLag := by
  unfold msdFromZero msd
  simp only
  cases hh : (sortRows rows).head? with
  | none => rfl
  | some a =>
    cases hl : (sortRows rows).getLast? with
    | none => rfl
    | some z =>
      have ha := h0 a hh
      simp only [ha, Int.sub_zero]

/-- a gapped trajectory (frame 5 missing) that starts at frame 3; one coordinate -/
def exGap : List FullRow := [(3, [0]), (4, [1]), (6, [4])]

theorem sortRows_exGap : sortRows exGap = exGap := by
  unfold sortRows exGap
  apply List.mergeSort_of_pairwise
  simp

theorem sortRows_exGap_zero : sortRows (shiftFrames (-3) exGap) = [(0, [0]), (1, [1]), (3, [4])] := by
  rw [sortRows_frame_shift, sortRows_exGap]
  rfl

/-- the model on `exGap` (mpp = 1, fps = 1, max_lagtime = 10): lags 1, 2, 3 = max − min; at lag 1
one pair (3→4: 1), at lag 2 one pair (4→6: 9), at lag 3 one pair (3→6: 16);
`N = _msd_N(4, lag) · 3/4` -/
theorem msd_exGap : (msd exGap 1 1 1 10).map (fun o => (o.lag, o.msd, o.n))
    = [(1, some 1, msdN 4 1 * 3 / 4), (2, some 9, msdN 4 2 * 3 / 4), (3, some 16, msdN 4 3 * 3 / 4)] := by
  unfold msd
  rw [sortRows_exGap]
  decide +kernel

/-- **(e) witness for the seeded change**: laid out from frame 0 instead of from its first frame,
the gapped trajectory `exGap` (frames 3, 4, 6) gets
* another lag list — `1 … 6` (= last frame) instead of `1 … 3` (= last − first),
* another weight `N` at the lags both list (`_msd_N(7, lag) · 3/7` instead of `_msd_N(4, lag) · 3/4`;
  at lag 1: `18/7` instead of `9/4`; the values of the statistic agree where both are defined),
* and it is NOT invariant under renumbering the frames: the same trajectory started at frame 0
  gives another table — while the model's `msd` gives the same one (`msd_frame_shift`) -/
theorem start_frame_matters_if_laid_out_from_zero :
    (msdFromZero exGap 1 1 1 10).map (·.lag) = [1, 2, 3, 4, 5, 6]
      ∧ (msd exGap 1 1 1 10).map (·.lag) = [1, 2, 3]
      ∧ (msdFromZero exGap 1 1 1 10).map (·.n) ≠ ((msd exGap 1 1 1 10).map (·.n))
      ∧ ((msdFromZero exGap 1 1 1 10).take 3).map (·.n) ≠ (msd exGap 1 1 1 10).map (·.n)
      ∧ (msdFromZero exGap 1 1 1 10).head?.map (·.n) = some (18 / 7)
      ∧ (msd exGap 1 1 1 10).head?.map (·.n) = some (9 / 4)
      ∧ ((msdFromZero exGap 1 1 1 10).take 3).map (·.msd) = (msd exGap 1 1 1 10).map (·.msd)
      ∧ msdFromZero (shiftFrames (-3) exGap) 1 1 1 10 ≠ msdFromZero exGap 1 1 1 10
      ∧ msdFromZero (shiftFrames (-3) exGap) 1 1 1 10 = msd exGap 1 1 1 10 := by
  have hm : msd exGap 1 1 1 10 = gapsOut exGap 3 4 1 1 1 10 := by
    unfold msd; rw [sortRows_exGap]; rfl
  have hz : msdFromZero exGap 1 1 1 10 = gapsOut exGap 0 7 1 1 1 10 := by
    unfold msdFromZero; rw [sortRows_exGap]; rfl
  have hs : msdFromZero (shiftFrames (-3) exGap) 1 1 1 10
      = gapsOut [(0, [0]), (1, [1]), (3, [4])] 0 4 1 1 1 10 := by
    unfold msdFromZero; rw [sortRows_exGap_zero]; rfl
  rw [hm, hz, hs]
  refine ⟨by decide +kernel, by decide +kernel, by decide +kernel, by decide +kernel,
    by decide +kernel, by decide +kernel, by decide +kernel, by decide +kernel, by decide +kernel⟩

/-! ## non-vacuity -/

/-- (a) on `exGap`, renumbered so that it starts at frame −4 (k = −7): a different table, the same
`msd` — whose content is the non-trivial table of `msd_exGap` (gaps path, one NaN-free row per lag) -/
example : shiftFrames (-7) exGap = [(-4, [0]), (-3, [1]), (-1, [4])] ∧ shiftFrames (-7) exGap ≠ exGap ∧
    msd (shiftFrames (-7) exGap) 1 1 1 10 = msd exGap 1 1 1 10 ∧
    isContiguous exGap = false ∧ (msd exGap 1 1 1 10).length = 3 := by
  refine ⟨by decide, by decide, msd_frame_shift _ _ _ _ _ _, ?_, ?_⟩
  · unfold isContiguous; rw [sortRows_exGap]; decide
  · have := congrArg List.length msd_exGap
    simpa using this

/-- (a) on the definition: lag 2 has the pair 4→6 whatever the origin of the frame axis, lag 4 has
no pair whatever the origin -/
example : msdDef 1 1 (shiftFrames 100 exGap) 2 = some 9 ∧ msdDef 1 1 exGap 2 = some 9 ∧
    msdDef 1 1 (shiftFrames 100 exGap) 4 = none := by
  rw [msdDef_frame_shift, msdDef_frame_shift]
  have hr : List.range 1 = [0] := by decide
  constructor
  · simp [msdDef, hr, sqDef, diffs, coord, exGap, meanOpt, sumOpt, sq]
    norm_num
  constructor
  · simp [msdDef, hr, sqDef, diffs, coord, exGap, meanOpt, sumOpt, sq]
    norm_num
  · simp [msdDef, hr, sqDef, diffs, coord, exGap, meanOpt, sumOpt]

/-- (c) on `exGap` with `c = 1/2` (positions 0, 1/2, 2): the hypothesis holds, the scaled table is a
different table, `msd` is multiplied by `1/4` (lag 2: 9 ↦ 9/4), `N` and the lags stay -/
example : NodupFrames exGap ∧ scalePos (1 / 2) exGap = [(3, [0]), (4, [1 / 2]), (6, [2])] ∧
    (msd (scalePos (1 / 2) exGap) 1 1 1 10).map (fun o => (o.lag, o.msd, o.n))
      = [(1, some (1 / 4), msdN 4 1 * 3 / 4), (2, some (9 / 4), msdN 4 2 * 3 / 4),
         (3, some 4, msdN 4 3 * 3 / 4)] := by
  have hnd : NodupFrames exGap := by unfold NodupFrames; decide
  refine ⟨hnd, by decide +kernel, ?_⟩
  rw [msd_length_unit _ _ _ _ _ _ hnd, List.map_map,
    show ((fun o : Out => (o.lag, o.msd, o.n)) ∘ Out.scale (1 / 2))
      = (fun x : Nat × Option Rat × Rat => (x.1, x.2.1.map (· * (1 / 2 * (1 / 2))), x.2.2))
        ∘ (fun o : Out => (o.lag, o.msd, o.n)) from rfl,
    ← List.map_map, msd_exGap]
  decide +kernel

/-- an injective renaming that reverses the order of the particles 1 and 2 of `exTable` -/
def exSigma (p : Nat) : Nat := if p ≤ 10 then 10 - p else p

theorem exSigma_injective : ∀ a b, exSigma a = exSigma b → a = b := by
  intro a b
  unfold exSigma
  split <;> split <;> omega

/-- (b), (c), (d) on the two-particle table `exTable` (particle 1 has a gap at frame 2): the
hypotheses of `emsd_length_unit` hold, `exSigma` is injective, the renamed table lists the particles
in the other order, the renumbered table is another table — and the invariant ensemble value at lag 1
is a genuine weighted mean of two particles -/
example : particleIds (relabel exSigma exTable) = [8, 9] ∧ particleIds exTable = [1, 2] ∧
    (∀ p ∈ particleIds exTable, NodupFrames (rowsOf exTable p)) ∧
    shiftTable 7 exTable ≠ exTable ∧
    emsdAt (perParticle (relabel exSigma (shiftTable 7 exTable)) 2 1 1 10) Out.msd 1
      = emsdAt (perParticle exTable 2 1 1 10) Out.msd 1 := by
  refine ⟨by decide, by decide, ?_, by decide, ?_⟩
  · unfold NodupFrames
    decide
  · rw [(emsd_particle_relabel exSigma exSigma_injective _ 2 1 1 10 Out.msd 1).1,
      (emsd_frame_shift 7 exTable 2 1 1 10 Out.msd 1).1]

end TrackpyV.MSD
