import TrackpyV.Props.C05
/-!
# C05 — the centroid error bound (perturbation of a symmetric neighbourhood)

`Props/C05.lean` proves the EXACT case of the accuracy clause: a neighbourhood that is
point-symmetric about its centre pixel is located at exactly that pixel
(`symmetric_blob_centroid_exact`).  This file proves the PERTURBATION bound that was left open
(`obligations/C05.json` "partial", former item `centroid_error_bound`):

* `centroid_perturbation`, `centroid_perturbation_uniform` (abstract, over ℚ): if the reference
  weights `s` have first moment 0 about the centre and every offset has `|x| ≤ R`, the weights `w`
  have centroid within `R · Σ|w − s| / M` of the centre, for every `M > 0` (in particular the
  mass `M = Σ w`); with `|w − s| ≤ ε` per pixel, within `R · n · ε / M`.
* `momAt_error_bound`, `posAt_error_bound`, `posAt_error_bound_uniform`, `posAt_error_bound_image`,
  `posAt_error_bound_image_uniform` (the model's centroid, `Refine.momAt` / `Refine.posAt` on the
  elliptical mask `Refine.maskOffsets`): along every axis `i` the reported sub-pixel position is
  within `radius_i · A / mass` of the mask centre `c`, `A = Σ_mask |img − s|` the total asymmetry
  with respect to ANY reference `s` that is point-symmetric about `c` (rational valued `SymRef`, or
  an image with `LocateFull.SymmetricAt`, the predicate of `momAt_symmetric`).
* `posAt_error_le_antisymmetric_part` — no reference needed: the error is at most
  `radius_i · (½ Σ_mask |img(c+o) − img(c−o)|) / mass` (the reference is the symmetrised image).
* `refine_error_bound`, `refine_error_bound_converged`, `near_symmetric_blob_centroid` — the same for
  what `refine_com` REPORTS (`Refine.refineOne`, the mask of the last evaluated iteration), and
  the generalisation of `symmetric_blob_centroid_exact`: when `radius_i · A / mass < shift_thresh`
  on every axis at the start pixel the loop breaks in its first iteration and the reported
  position is within `radius_i · A / mass` of that pixel.

So "the sub-pixel error is at most radius × relative asymmetry of the final neighbourhood" is a
theorem about the model.  NOT proved (still only exercised by the sampled oracle of
harness/c05.py): that a rendered, band-passed, discretised Gaussian blob HAS a small asymmetry `A`
about its brightest pixel — the quantitative 0.1 / 0.3 px claim for arbitrary sub-pixel centres.
-/
namespace TrackpyV.C05
open TrackpyV List

/-! ## (a) the abstract perturbation lemma over ℚ -/

theorem abs_sumMap_le {α} (l : List α) (f : α → ℚ) :
    |(l.map f).sum| ≤ (l.map (fun a => |f a|)).sum := by
  induction l with
  | nil => simp
  | cons a l ih =>
    simp only [map_cons, sum_cons]
    exact (abs_add_le _ _).trans (by linarith)

theorem sumMap_le_sumMap {α} (l : List α) (f g : α → ℚ) (h : ∀ a ∈ l, f a ≤ g a) :
    (l.map f).sum ≤ (l.map g).sum := by
  induction l with
  | nil => simp
  | cons a l ih =>
    simp only [map_cons, sum_cons]
    have h1 := h a (by simp)
    have h2 := ih (fun b hb => h b (by simp [hb]))
    linarith

theorem sumMap_mul_left {α} (l : List α) (k : ℚ) (f : α → ℚ) :
    (l.map (fun a => k * f a)).sum = k * (l.map f).sum := by
  induction l with
  | nil => simp
  | cons a l ih => simp only [map_cons, sum_cons, ih]; ring

theorem sumMap_const {α} (l : List α) (k : ℚ) :
    (l.map (fun _ => k)).sum = (l.length : ℚ) * k := by
  induction l with
  | nil => simp
  | cons a l ih => simp only [map_cons, sum_cons, ih, length_cons]; push_cast; ring

/-- the first moment of `w` about the centre equals that of the difference `w − s` when the
reference `s` has first moment 0; hence `|Σ w·x| ≤ R · Σ|w − s|` (triangle inequality). -/
theorem moment_perturbation {α} (l : List α) (x s w : α → ℚ) (R : ℚ)
    (hx : ∀ a ∈ l, |x a| ≤ R)
    (hs : (l.map (fun a => s a * x a)).sum = 0) :
    |(l.map (fun a => w a * x a)).sum| ≤ R * (l.map (fun a => |w a - s a|)).sum := by
  have e : (l.map (fun a => w a * x a)).sum = (l.map (fun a => (w a - s a) * x a)).sum := by
    have h := LocateFull.sum_map_add' l (fun a => (w a - s a) * x a) (fun a => s a * x a)
    rw [hs, add_zero] at h
    rw [← h]
    apply LocateFull.sum_map_congr'
    intro a _; ring
  rw [e, ← sumMap_mul_left]
  refine (abs_sumMap_le _ _).trans (sumMap_le_sumMap _ _ _ ?_)
  intro a ha
  rw [abs_mul, mul_comm]
  exact mul_le_mul_of_nonneg_right (hx a ha) (abs_nonneg _)

/-- **centroid_perturbation** (abstract form of the accuracy clause).  One axis: offsets `x a`
from the centre with `|x a| ≤ R`; a reference weighting `s` whose first moment about the centre
vanishes (`Σ s·x = 0`, e.g. a mirror-symmetric one); actual weights `w`; any `M > 0` (the use is
`M = Σ w`, the mass).  Then the centroid `Σ w·x / M` is within `R · Σ|w − s| / M` of the centre.
Neither `s ≥ 0`, `w ≥ 0` nor `Σ s = M` is needed. -/
theorem centroid_perturbation {α} (l : List α) (x s w : α → ℚ) (R M : ℚ)
    (hx : ∀ a ∈ l, |x a| ≤ R)
    (hs : (l.map (fun a => s a * x a)).sum = 0)
    (hM : 0 < M) :
    |(l.map (fun a => w a * x a)).sum / M| ≤ R * (l.map (fun a => |w a - s a|)).sum / M := by
  rw [abs_div, abs_of_pos hM]
  exact div_le_div_of_nonneg_right (moment_perturbation l x s w R hx hs) hM.le

/-- **centroid_perturbation_uniform**: per-pixel form.  If moreover `|w a − s a| ≤ ε` for each of
the `n = l.length` pixels, the centroid is within `R · n · ε / M` of the centre. -/
theorem centroid_perturbation_uniform {α} (l : List α) (x s w : α → ℚ) (R M ε : ℚ)
    (hx : ∀ a ∈ l, |x a| ≤ R)
    (hs : (l.map (fun a => s a * x a)).sum = 0)
    (hM : 0 < M)
    (hε : ∀ a ∈ l, |w a - s a| ≤ ε) :
    |(l.map (fun a => w a * x a)).sum / M| ≤ R * (l.length : ℚ) * ε / M := by
  refine (centroid_perturbation l x s w R M hx hs hM).trans ?_
  apply div_le_div_of_nonneg_right _ hM.le
  cases l with
  | nil => simp
  | cons a l =>
    have hR : 0 ≤ R := (abs_nonneg _).trans (hx a (by simp))
    have := sumMap_le_sumMap (a :: l) (fun a => |w a - s a|) (fun _ => ε) hε
    rw [sumMap_const] at this
    rw [mul_assoc]
    exact mul_le_mul_of_nonneg_left this hR

/-! ## (b) the model's centroid (`Refine.momAt`, `Refine.posAt` on the elliptical mask) -/

/-- a rational-valued reference neighbourhood on the mask array (indexed by mask array index) that
is point-symmetric about the mask centre: `s(2r − o) = s(o)` for every mask offset -/
def SymRef (radius : List Nat) (s : List Nat → ℚ) : Prop :=
  ∀ off ∈ Refine.maskOffsets radius, s (LocateFull.reflect radius off) = s off

/-- total asymmetry `A = Σ_{off ∈ mask} |img[c − r + off] − s(off)|` of the neighbourhood of the
mask centre `c` with respect to the reference `s` -/
def asym (img : Refine.Image) (radius : List Nat) (c : List Int) (s : List Nat → ℚ) : ℚ :=
  ((Refine.maskOffsets radius).map
    (fun off => |((img (Refine.addOff (Refine.origin radius c) off) : Nat) : ℚ) - s off|)).sum

/-- the reference read off an image: `s(off) = sym[c − r + off]` -/
def refOf (sym : Refine.Image) (radius : List Nat) (c : List Int) : List Nat → ℚ :=
  fun off => ((sym (Refine.addOff (Refine.origin radius c) off) : Nat) : ℚ)

theorem asym_nonneg (img : Refine.Image) (radius : List Nat) (c : List Int) (s : List Nat → ℚ) :
    0 ≤ asym img radius c s := by
  unfold asym
  have := sumMap_le_sumMap (Refine.maskOffsets radius) (fun _ => (0 : ℚ))
    (fun off => |((img (Refine.addOff (Refine.origin radius c) off) : Nat) : ℚ) - s off|)
    (fun _ _ => abs_nonneg _)
  rw [sumMap_const, mul_zero] at this
  exact this

/-- an image that is `SymmetricAt` (the predicate of `momAt_symmetric`) gives a `SymRef` -/
theorem symRef_of_symmetricAt (sym : Refine.Image) (radius : List Nat) (c : List Int)
    (h : LocateFull.SymmetricAt sym radius c) : SymRef radius (refOf sym radius c) := by
  intro off hoff
  unfold refOf
  rw [h off hoff]

open Refine in
/-- every mask offset is within `r_i` of the mask centre along axis `i` -/
theorem mask_offset_abs_le (radius : List Nat) (i : Nat) (hi : i < radius.length)
    (off : List Nat) (hoff : off ∈ maskOffsets radius) :
    |((off.getD i 0 : Nat) : ℚ) - ((radius.getD i 0 : Nat) : ℚ)| ≤ ((radius.getD i 0 : Nat) : ℚ) := by
  have hb := (LocateFull.reflect_getD radius off (maskOffsets_subset hoff) i hi).2
  have hq : ((off.getD i 0 : Nat) : ℚ) ≤ 2 * ((radius.getD i 0 : Nat) : ℚ) := by exact_mod_cast hb
  have h0 : (0 : ℚ) ≤ ((off.getD i 0 : Nat) : ℚ) := Nat.cast_nonneg _
  rw [abs_le]
  constructor <;> linarith

open Refine in
/-- a point-symmetric reference has first moment 0 about the mask centre, along every axis -/
theorem symRef_moment_zero (radius : List Nat) (s : List Nat → ℚ) (hs : SymRef radius s)
    (i : Nat) (hi : i < radius.length) :
    ((maskOffsets radius).map
      (fun off => s off * (((off.getD i 0 : Nat) : ℚ) - ((radius.getD i 0 : Nat) : ℚ)))).sum = 0 := by
  have h1 := LocateFull.mask_sum_reflect radius
    (fun off => s off * (((off.getD i 0 : Nat) : ℚ) - ((radius.getD i 0 : Nat) : ℚ)))
  have h2 : ((maskOffsets radius).map (fun o =>
        (fun off => s off * (((off.getD i 0 : Nat) : ℚ) - ((radius.getD i 0 : Nat) : ℚ)))
          (LocateFull.reflect radius o))).sum
      = ((maskOffsets radius).map (fun off =>
          (-1 : ℚ) * (s off * (((off.getD i 0 : Nat) : ℚ) - ((radius.getD i 0 : Nat) : ℚ))))).sum := by
    apply LocateFull.sum_map_congr'
    intro off hoff
    have hb := LocateFull.reflect_getD radius off (maskOffsets_subset hoff) i hi
    beta_reduce
    rw [hs off hoff, hb.1, Nat.cast_sub hb.2]
    push_cast; ring
  rw [h2, sumMap_mul_left] at h1
  linarith

open Refine in
/-- `Σ px·off_i − r_i·Σ px = Σ px·(off_i − r_i)`: the first moment about the mask centre -/
theorem momAt_sub_centre (img : Image) (mask : List (List Nat)) (org : List Int) (r : ℚ) (i : Nat) :
    momAt img mask org i - r * massAt img mask org
      = (mask.map (fun off => ((img (addOff org off) : Nat) : ℚ) * (((off.getD i 0 : Nat) : ℚ) - r))).sum := by
  unfold momAt massAt wsum
  induction mask with
  | nil => simp
  | cons a l ih =>
    simp only [map_cons, sum_cons]
    rw [← ih]; ring

open Refine in
/-- **momAt_error_bound** (division-free form, needs no hypothesis on the mass): the first moment
along axis `i` differs from its symmetric value `r_i · mass` (`momAt_symmetric`) by at most
`r_i · A`, `A` the total asymmetry with respect to any point-symmetric reference. -/
theorem momAt_error_bound (img : Image) (radius : List Nat) (c : List Int) (s : List Nat → ℚ)
    (hs : SymRef radius s) (i : Nat) (hi : i < radius.length) :
    |momAt img (maskOffsets radius) (origin radius c) i
        - ((radius.getD i 0 : Nat) : ℚ) * massAt img (maskOffsets radius) (origin radius c)|
      ≤ ((radius.getD i 0 : Nat) : ℚ) * asym img radius c s := by
  rw [momAt_sub_centre]
  exact moment_perturbation (maskOffsets radius)
    (fun off => ((off.getD i 0 : Nat) : ℚ) - ((radius.getD i 0 : Nat) : ℚ)) s
    (fun off => ((img (addOff (origin radius c) off) : Nat) : ℚ)) _
    (mask_offset_abs_le radius i hi) (symRef_moment_zero radius s hs i hi)

open Refine in
/-- the reported coordinate minus the mask centre is `(Σ px·(off_i − r_i)) / mass` -/
theorem posAt_sub_centre (img : Image) (radius : List Nat) (c : List Int)
    (hm : massAt img (maskOffsets radius) (origin radius c) ≠ 0) (i : Nat) (hi : i < radius.length) :
    (posAt img (maskOffsets radius) radius c).getD i 0 - ((c.getD i 0 : Int) : ℚ)
      = ((maskOffsets radius).map (fun off => ((img (addOff (origin radius c) off) : Nat) : ℚ)
            * (((off.getD i 0 : Nat) : ℚ) - ((radius.getD i 0 : Nat) : ℚ)))).sum
          / massAt img (maskOffsets radius) (origin radius c) := by
  rw [posAt_getD _ _ _ _ _ hi, ← momAt_sub_centre]
  unfold cmN
  rw [if_neg hm]
  field_simp
  ring

open Refine in
/-- **posAt_error_bound** (total-asymmetry form).  Let `s` be ANY reference neighbourhood that is
point-symmetric about the mask centre `c` and `A = Σ_mask |img − s|`.  If the mask mass is
positive then along every axis `i` the reported position is within `r_i · A / mass` of `c`
(`r_i` the PER-AXIS radius of the elliptical mask). -/
theorem posAt_error_bound (img : Image) (radius : List Nat) (c : List Int) (s : List Nat → ℚ)
    (hs : SymRef radius s)
    (hm : 0 < massAt img (maskOffsets radius) (origin radius c))
    (i : Nat) (hi : i < radius.length) :
    |(posAt img (maskOffsets radius) radius c).getD i 0 - ((c.getD i 0 : Int) : ℚ)|
      ≤ ((radius.getD i 0 : Nat) : ℚ) * asym img radius c s
          / massAt img (maskOffsets radius) (origin radius c) := by
  rw [posAt_sub_centre img radius c hm.ne' i hi]
  exact centroid_perturbation (maskOffsets radius)
    (fun off => ((off.getD i 0 : Nat) : ℚ) - ((radius.getD i 0 : Nat) : ℚ)) s
    (fun off => ((img (addOff (origin radius c) off) : Nat) : ℚ)) _ _
    (mask_offset_abs_le radius i hi) (symRef_moment_zero radius s hs i hi) hm

open Refine in
/-- **posAt_error_bound_uniform** (per-pixel form): if every masked pixel is within `ε` of the
point-symmetric reference, the reported position is within
`r_i · (number of mask pixels) · ε / mass` of `c` along every axis. -/
theorem posAt_error_bound_uniform (img : Image) (radius : List Nat) (c : List Int) (s : List Nat → ℚ)
    (ε : ℚ) (hs : SymRef radius s)
    (hε : ∀ off ∈ maskOffsets radius, |((img (addOff (origin radius c) off) : Nat) : ℚ) - s off| ≤ ε)
    (hm : 0 < massAt img (maskOffsets radius) (origin radius c))
    (i : Nat) (hi : i < radius.length) :
    |(posAt img (maskOffsets radius) radius c).getD i 0 - ((c.getD i 0 : Int) : ℚ)|
      ≤ ((radius.getD i 0 : Nat) : ℚ) * ((maskOffsets radius).length : ℚ) * ε
          / massAt img (maskOffsets radius) (origin radius c) := by
  rw [posAt_sub_centre img radius c hm.ne' i hi]
  exact centroid_perturbation_uniform (maskOffsets radius)
    (fun off => ((off.getD i 0 : Nat) : ℚ) - ((radius.getD i 0 : Nat) : ℚ)) s
    (fun off => ((img (addOff (origin radius c) off) : Nat) : ℚ)) _ _ ε
    (mask_offset_abs_le radius i hi) (symRef_moment_zero radius s hs i hi) hm hε

open Refine in
/-- **posAt_error_bound_image**: the reference is an integer image `sym` whose neighbourhood of
`c` is `LocateFull.SymmetricAt` — exactly the hypothesis of `momAt_symmetric` /
`symmetric_blob_centroid_exact`; `img = sym` gives `A = 0`, the exact case. -/
theorem posAt_error_bound_image (img sym : Image) (radius : List Nat) (c : List Int)
    (hsym : LocateFull.SymmetricAt sym radius c)
    (hm : 0 < massAt img (maskOffsets radius) (origin radius c))
    (i : Nat) (hi : i < radius.length) :
    |(posAt img (maskOffsets radius) radius c).getD i 0 - ((c.getD i 0 : Int) : ℚ)|
      ≤ ((radius.getD i 0 : Nat) : ℚ) * asym img radius c (refOf sym radius c)
          / massAt img (maskOffsets radius) (origin radius c) :=
  posAt_error_bound img radius c _ (symRef_of_symmetricAt sym radius c hsym) hm i hi

open Refine in
/-- **posAt_error_bound_image_uniform**: `img` within `ε` per masked pixel of an image that is
`SymmetricAt c`  ⇒  error ≤ `r_i · |mask| · ε / mass`. -/
theorem posAt_error_bound_image_uniform (img sym : Image) (radius : List Nat) (c : List Int) (ε : ℚ)
    (hsym : LocateFull.SymmetricAt sym radius c)
    (hε : ∀ off ∈ maskOffsets radius,
      |((img (addOff (origin radius c) off) : Nat) : ℚ)
        - ((sym (addOff (origin radius c) off) : Nat) : ℚ)| ≤ ε)
    (hm : 0 < massAt img (maskOffsets radius) (origin radius c))
    (i : Nat) (hi : i < radius.length) :
    |(posAt img (maskOffsets radius) radius c).getD i 0 - ((c.getD i 0 : Int) : ℚ)|
      ≤ ((radius.getD i 0 : Nat) : ℚ) * ((maskOffsets radius).length : ℚ) * ε
          / massAt img (maskOffsets radius) (origin radius c) :=
  posAt_error_bound_uniform img radius c _ ε (symRef_of_symmetricAt sym radius c hsym) hε hm i hi

/-! ### the intrinsic form: no reference image -/

open Refine in
/-- the point reflection is an involution on the mask box -/
theorem reflect_reflect : ∀ (radius off : List Nat), off ∈ boxOffsets radius →
    LocateFull.reflect radius (LocateFull.reflect radius off) = off
  | [], off, h => by
    simp [boxOffsets] at h; subst h; rfl
  | r :: rs, off, h => by
    simp only [boxOffsets, mem_flatMap, mem_range, mem_map] at h
    obtain ⟨o, ho, t, ht, rfl⟩ := h
    simp only [LocateFull.reflect, reflect_reflect rs t ht]
    congr 1; omega

/-- the symmetrised neighbourhood `(img(c+o) + img(c−o)) / 2` -/
def symmetrised (img : Refine.Image) (radius : List Nat) (c : List Int) : List Nat → ℚ :=
  fun off => (((img (Refine.addOff (Refine.origin radius c) off) : Nat) : ℚ)
    + ((img (Refine.addOff (Refine.origin radius c) (LocateFull.reflect radius off)) : Nat) : ℚ)) / 2

theorem symmetrised_symRef (img : Refine.Image) (radius : List Nat) (c : List Int) :
    SymRef radius (symmetrised img radius c) := by
  intro off hoff
  unfold symmetrised
  rw [reflect_reflect radius off (Refine.maskOffsets_subset hoff), add_comm]

open Refine in
/-- **posAt_error_le_antisymmetric_part**: with the symmetrised image as the reference the
asymmetry is the antisymmetric part, so — without any reference image —
`|pos_i − c_i| ≤ r_i · (½ Σ_mask |img(c+o) − img(c−o)|) / mass`. -/
theorem posAt_error_le_antisymmetric_part (img : Image) (radius : List Nat) (c : List Int)
    (hm : 0 < massAt img (maskOffsets radius) (origin radius c))
    (i : Nat) (hi : i < radius.length) :
    |(posAt img (maskOffsets radius) radius c).getD i 0 - ((c.getD i 0 : Int) : ℚ)|
      ≤ ((radius.getD i 0 : Nat) : ℚ)
          * (1 / 2 * ((maskOffsets radius).map (fun off =>
              |((img (addOff (origin radius c) off) : Nat) : ℚ)
                - ((img (addOff (origin radius c) (LocateFull.reflect radius off)) : Nat) : ℚ)|)).sum)
          / massAt img (maskOffsets radius) (origin radius c) := by
  have h := posAt_error_bound img radius c _ (symmetrised_symRef img radius c) hm i hi
  have e : asym img radius c (symmetrised img radius c)
      = 1 / 2 * ((maskOffsets radius).map (fun off =>
              |((img (addOff (origin radius c) off) : Nat) : ℚ)
                - ((img (addOff (origin radius c) (LocateFull.reflect radius off)) : Nat) : ℚ)|)).sum := by
    unfold asym symmetrised
    rw [← sumMap_mul_left]
    apply LocateFull.sum_map_congr'
    intro off _
    have : ∀ a b : ℚ, a - (a + b) / 2 = 1 / 2 * (a - b) := by intro a b; ring
    rw [this, abs_mul, abs_of_pos (by norm_num : (0 : ℚ) < 1 / 2)]
  rw [e] at h
  exact h

/-! ## (c) what `refine_com` reports -/

open Refine in
/-- **refine_error_bound**: for every start pixel, `shift_thresh`, `max_iterations` — whether or not
the loop broke — the position `refine_com` reports lies, along every axis, within
`r_i · A / mass` of the REPORTED mask centre (`R.centre`, the last evaluated iteration), `A` the
total asymmetry of that final neighbourhood with respect to any point-symmetric reference and
`mass` the reported mass.  "Sub-pixel error ≤ radius × relative asymmetry of the final
neighbourhood." -/
theorem refine_error_bound (thr : ℚ) (img raw : Image) (radius shape : List Nat) (maxIter : Nat)
    (start : List Int) (s : List Nat → ℚ) (hs : SymRef radius s) :
    let R := refineOne thr img raw radius shape maxIter start
    0 < R.mass → ∀ i, i < radius.length →
      |R.pos.getD i 0 - ((R.centre.getD i 0 : Int) : ℚ)|
        ≤ ((radius.getD i 0 : Nat) : ℚ) * asym img radius R.centre s / R.mass := by
  intro R hm i hi
  exact posAt_error_bound img radius R.centre s hs hm i hi

open Refine in
/-- **refine_error_bound_converged**: when the loop ENDS at `R.centre` by its break test
(`converged_iff`: every `|off_centre| < shift_thresh`), the result no longer depends on
`max_iterations` (`lastCentre_stable`), and the reported position is within BOTH `shift_thresh`
and `r_i · A / mass` of the final mask centre, on every axis. -/
theorem refine_error_bound_converged (thr : ℚ) (img raw : Image) (radius shape : List Nat)
    (n : Nat) (hn : 1 ≤ n) (start : List Int) (s : List Nat → ℚ) (hs : SymRef radius s)
    (h : converged thr (offCentre img (maskOffsets radius) radius
          (refineOne thr img raw radius shape n start).centre) = true) :
    let R := refineOne thr img raw radius shape n start
    (∀ j, refineOne thr img raw radius shape (n + j) start = R) ∧
    (0 < R.mass → ∀ i, i < radius.length →
      |R.pos.getD i 0 - ((R.centre.getD i 0 : Int) : ℚ)| < thr ∧
      |R.pos.getD i 0 - ((R.centre.getD i 0 : Int) : ℚ)|
        ≤ ((radius.getD i 0 : Nat) : ℚ) * asym img radius R.centre s / R.mass) := by
  intro R
  refine ⟨fun j => refine_maxiter_stable thr img raw radius shape n hn start h j, ?_⟩
  intro hm i hi
  exact ⟨refine_converged_offcentre thr img raw radius shape n start h i hi,
    refine_error_bound thr img raw radius shape n start s hs hm i hi⟩

open Refine in
/-- **near_symmetric_blob_centroid** (generalises `symmetric_blob_centroid_exact`, which is the case
`A = 0`).  If at the start pixel `c` the relative asymmetry is small enough that
`r_i · A / mass < shift_thresh` on every axis, then the break test holds in the first iteration,
`refine_com` reports mask centre `c` for every `max_iterations` / shape / raw image, and the
reported position is within `r_i · A / mass` of `c`. -/
theorem near_symmetric_blob_centroid (thr : ℚ) (img raw : Image) (radius shape : List Nat)
    (maxIter : Nat) (c : List Int) (s : List Nat → ℚ) (hs : SymRef radius s)
    (hm : 0 < massAt img (maskOffsets radius) (origin radius c))
    (hsmall : ∀ i, i < radius.length →
      ((radius.getD i 0 : Nat) : ℚ) * asym img radius c s
        / massAt img (maskOffsets radius) (origin radius c) < thr) :
    let R := refineOne thr img raw radius shape maxIter c
    converged thr (offCentre img (maskOffsets radius) radius c) = true ∧
    R.centre = c ∧
    ∀ i, i < radius.length →
      |R.pos.getD i 0 - ((c.getD i 0 : Int) : ℚ)|
        ≤ ((radius.getD i 0 : Nat) : ℚ) * asym img radius c s
            / massAt img (maskOffsets radius) (origin radius c) := by
  intro R
  have hconv : converged thr (offCentre img (maskOffsets radius) radius c) = true := by
    rw [converged_iff]
    intro o ho
    unfold offCentre at ho
    obtain ⟨i, hi, rfl⟩ := List.mem_map.mp ho
    have hi' := List.mem_range.mp hi
    have hb := posAt_error_bound img radius c s hs hm i hi'
    rw [posAt_getD _ _ _ _ _ hi', add_sub_cancel_right] at hb
    exact lt_of_le_of_lt hb (hsmall i hi')
  have hlast : ∀ k, lastCentre thr img (maskOffsets radius) radius shape k c = c := by
    intro k
    cases k with
    | zero => rfl
    | succ k => rw [lastCentre]; simp [hconv]
  have hR : R = measure img raw (maskOffsets radius) radius c := by
    show measure _ _ _ _ _ = _
    rw [hlast]
  refine ⟨hconv, by rw [hR]; rfl, ?_⟩
  intro i hi
  rw [hR]
  exact posAt_error_bound img radius c s hs hm i hi

/-! ## (d) worked example: 5×5 neighbourhood (radius 2), one pixel off by 1 -/

/-- a point-symmetric 5×5 blob, mass 288 on the 13-pixel mask -/
def bSym : Array Nat :=
  #[0,  0,  8,  0, 0,
    0, 16, 32, 16, 0,
    8, 32, 64, 32, 8,
    0, 16, 32, 16, 0,
    0,  0,  8,  0, 0]
/-- the same with the pixel right of the centre raised by 1 (33 instead of 32), mass 289 -/
def bImg : Array Nat :=
  #[0,  0,  8,  0, 0,
    0, 16, 32, 16, 0,
    8, 32, 64, 33, 8,
    0, 16, 32, 16, 0,
    0,  0,  8,  0, 0]

example : (Refine.maskOffsets [2, 2]).length = 13 := by decide +kernel
example : LocateFull.SymmetricAt (Refine.ofArray [5, 5] bSym) [2, 2] [2, 2] :=
  (LocateFull.symmetricB_iff _ _ _).mp (by decide +kernel)
example : LocateFull.symmetricB (Refine.ofArray [5, 5] bImg) [2, 2] [2, 2] = false := by
  decide +kernel
example : Refine.massAt (Refine.ofArray [5, 5] bImg) (Refine.maskOffsets [2, 2])
    (Refine.origin [2, 2] [2, 2]) = 289 := by decide +kernel
/-- the ACTUAL reported position: `(2, 2 + 1/289)` — error 0 and 1/289 px -/
example : Refine.posAt (Refine.ofArray [5, 5] bImg) (Refine.maskOffsets [2, 2]) [2, 2] [2, 2]
    = [2, 2 + 1 / 289] := by decide +kernel
/-- the total asymmetry with respect to `bSym` is 1 (one pixel off by 1) -/
theorem ex_asym : asym (Refine.ofArray [5, 5] bImg) [2, 2] [2, 2]
    (refOf (Refine.ofArray [5, 5] bSym) [2, 2] [2, 2]) = 1 := by decide +kernel

/-- actual error `1/289` ≤ asymmetry bound `2·1/289` ≤ per-pixel bound `2·13·1/289` < `1/10`. -/
example :
    |(Refine.posAt (Refine.ofArray [5, 5] bImg) (Refine.maskOffsets [2, 2]) [2, 2] [2, 2]).getD 1 0
        - ((([2, 2] : List Int).getD 1 0 : Int) : ℚ)| = 1 / 289
    ∧ (1 : ℚ) / 289 ≤ (2 : ℚ) * 1 / 289
    ∧ (2 : ℚ) * 1 / 289 ≤ (2 : ℚ) * 13 * 1 / 289
    ∧ (2 : ℚ) * 13 * 1 / 289 < 1 / 10 := by
  refine ⟨by decide +kernel, by norm_num, by norm_num, by norm_num⟩

/-- … and the bound the theorem gives IS `2·1/289` (axis 1; `posAt_error_bound_image`) -/
example :
    |(Refine.posAt (Refine.ofArray [5, 5] bImg) (Refine.maskOffsets [2, 2]) [2, 2] [2, 2]).getD 1 0
        - ((([2, 2] : List Int).getD 1 0 : Int) : ℚ)| ≤ (2 : ℚ) * 1 / 289 := by
  have h := posAt_error_bound_image (Refine.ofArray [5, 5] bImg) (Refine.ofArray [5, 5] bSym)
    [2, 2] [2, 2] ((LocateFull.symmetricB_iff _ _ _).mp (by decide +kernel))
    (by decide +kernel) 1 (by decide)
  rw [ex_asym] at h
  have hm : Refine.massAt (Refine.ofArray [5, 5] bImg) (Refine.maskOffsets [2, 2])
      (Refine.origin [2, 2] [2, 2]) = 289 := by decide +kernel
  rw [hm] at h
  simpa using h

/-- non-vacuity of `near_symmetric_blob_centroid`: `2·1/289 < shift_thresh = 3/5` on both axes, so
`refine_com` started at the centre pixel stays there (for every `max_iterations`) -/
example : (Refine.refineOne (3 / 5) (Refine.ofArray [5, 5] bImg) (Refine.ofArray [5, 5] bImg)
    [2, 2] [5, 5] 10 [2, 2]).centre = [2, 2] := by
  have hm : Refine.massAt (Refine.ofArray [5, 5] bImg) (Refine.maskOffsets [2, 2])
      (Refine.origin [2, 2] [2, 2]) = 289 := by decide +kernel
  refine (near_symmetric_blob_centroid (3 / 5) (Refine.ofArray [5, 5] bImg) (Refine.ofArray [5, 5] bImg)
    [2, 2] [5, 5] 10 [2, 2] _
    (symRef_of_symmetricAt (Refine.ofArray [5, 5] bSym) [2, 2] [2, 2]
      ((LocateFull.symmetricB_iff _ _ _).mp (by decide +kernel)))
    (by rw [hm]; norm_num) ?_).2.1
  intro i hi
  rw [ex_asym, hm]
  have : i = 0 ∨ i = 1 := by simp at hi; omega
  rcases this with rfl | rfl <;> norm_num

end TrackpyV.C05
