import TrackpyV.Model.Find
namespace TrackpyV.Find
theorem float_rescale (shape : List Nat) (xs : List Rat) (sep : List Rat) (pct : Rat)
    (margin? : Option (List Nat)) (precise : Bool) :
    greyDilationFloat shape xs sep pct margin? precise
      = greyDilation ⟨shape, (convertToInt xs).toArray⟩ sep pct margin? precise := rfl
end TrackpyV.Find
