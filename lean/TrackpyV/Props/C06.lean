import TrackpyV.Proofs.Find
/-!
# C06 — grey_dilation returns exactly the admissible local maxima

Property theorems about the model `Model/Find.lean` (the definitions the native driver executes).
All of them quantify over every image (any number of axes, any shape, any pixel values),
separation (rational, scalar = constant list, or per axis), percentile and margin for which the
model returns a result (`greyDilation … = some R`, i.e. `wellFormed`: one separation/margin entry
per axis, positive separations giving box sizes ≥ 1).

* `maxima_iff`          clause 1: with `precise=False` the result is *precisely* the pixels that are
                        strictly brighter than the percentile threshold, not exceeded by any pixel
                        of the box around them (clipped to the image), and outside the margin.
* `box_inscribed`, `boxSize_largest`
                        "the box inscribed in the separation ellipse": every pixel of the box lies
                        within the ellipse `Σ((qᵢ−pᵢ)/sᵢ)² ≤ 1`; the box is the largest such cube
                        `k ≤ 2s/√ndim`.
* `black_image_empty`, `black_iff`
                        an all-black image has no threshold and yields no maxima.
* `float_rescale`       float images are first rescaled to 8 bits (`convert_to_int`).
* `precise_subset`      clause 2a: the `precise=True` result is a sub-list of the `precise=False` one.
* `precise_separated`   clause 2b: no two points of it are closer than separation.
* `precise_justified`   clause 2c: a candidate is discarded only if another candidate that is at
                        least as bright lies within separation of it.
* `whereClose_spec`, `dropClose_*`
                        the same three facts for `where_close`/`drop_close` on arbitrary feature
                        lists and *any* tie-break key (re-used by C08/C09/C14).
-/
namespace TrackpyV.Find

/-! ## clause 1: exactly the admissible maxima -/

/-- **maxima_iff.**  `p` is returned by `grey_dilation(precise=False)` iff it is a pixel of the
image, strictly brighter than the percentile threshold, no pixel `q` of the box of sizes
`⌊2sᵢ/√ndim⌋` around it (`pᵢ − (kᵢ−1)/2 ≤ qᵢ ≤ pᵢ + kᵢ/2`, inside the image) is brighter, and it
keeps the margin (`mᵢ ≤ pᵢ ≤ nᵢ − mᵢ − 1`, default `mᵢ = ⌊sᵢ/2⌋`). -/
theorem maxima_iff (img : Image) (sep : List Rat) (pct : Rat) (margin? : Option (List Nat))
    (R : List Pos) (thr : Rat)
    (h : greyDilation img sep pct margin? false = some R)
    (hthr : percentileThr img pct = some thr) (p : Pos) :
    p ∈ R ↔ InImage img.shape p ∧ thr < (img.pix p : Rat)
      ∧ (∀ q, InBox img.shape (sep.map (boxSize img.shape.length)) p q → img.pix q ≤ img.pix p)
      ∧ OutsideMargin img.shape (margin?.getD (defaultMargin sep)) p := by
  obtain ⟨hw, hcase⟩ := greyDilationK_some h
  obtain ⟨_, hsl, hml, _, _⟩ := (wellFormed_iff _ _ _).mp hw
  rcases hcase with ⟨hnone, _⟩ | ⟨thr', hthr', hR⟩
  · rw [hnone] at hthr; cases hthr
  · rw [hthr] at hthr'
    injection hthr' with e
    subst e
    simp only [Bool.false_eq_true, if_false] at hR
    subst hR
    exact mem_candidates img _ _ thr p (by simpa using hsl) hml

/-- the result has no repeated rows -/
theorem maxima_nodup (img : Image) (sep : List Rat) (pct : Rat) (margin? : Option (List Nat))
    (R : List Pos) (h : greyDilation img sep pct margin? false = some R) : R.Nodup := by
  obtain ⟨_, hcase⟩ := greyDilationK_some h
  rcases hcase with ⟨_, rfl⟩ | ⟨thr', _, hR⟩
  · exact List.nodup_nil
  · simp only [Bool.false_eq_true, if_false] at hR
    subst hR
    exact candidates_nodup _ _ _ _

/-- **box_inscribed.**  Every pixel `q` of the box around `p` lies inside (or on) the separation
ellipse around `p`: `Σ ((pᵢ − qᵢ)/sᵢ)² ≤ 1`.  (`sep` has one positive entry per axis.) -/
theorem box_inscribed (sep : List Rat) (hpos : ∀ s ∈ sep, 0 < s) (shape : List Nat) (p q : Pos)
    (h : InBox shape (sep.map (boxSize sep.length)) p q) :
    dist2 sep (p.map Int.ofNat) (q.map Int.ofNat) ≤ 1 := by
  cases sep with
  | nil => simp [dist2]
  | cons s ss =>
    have hd : 0 < (s :: ss).length := by simp
    have := box_dist2_le (s :: ss).length hd (s :: ss) shape p q hpos h
    have hne : (((s :: ss).length : Nat) : Rat) ≠ 0 := by
      exact_mod_cast (Nat.pos_iff_ne_zero.mp hd)
    rwa [div_self hne] at this

/-- the box is the *largest* cube inscribed in the ellipse: `k²·ndim ≤ 4s²` holds for the box size
and for no larger `k` -/
theorem boxSize_largest (ndim : Nat) (hd : 0 < ndim) (s : Rat) (hs : 0 ≤ s) :
    (((boxSize ndim s * boxSize ndim s * ndim : Nat) : Rat) ≤ 4 * s * s) ∧
      ∀ k : Nat, ((k * k * ndim : Nat) : Rat) ≤ 4 * s * s → k ≤ boxSize ndim s :=
  ⟨boxSize_fits ndim s, boxSize_max ndim hd s hs⟩

/-- the image has no threshold (`percentile_threshold` returns NaN) iff every pixel is 0 -/
theorem black_iff (img : Image) (pct : Rat) :
    percentileThr img pct = none ↔ ∀ v ∈ img.data.toList, v = 0 := by
  unfold percentileThr
  rw [percentileOf_none_iff]
  simp [nonzero, List.filter_eq_nil_iff]

/-- **black_image_empty.**  A completely black image yields no maxima (precise or not). -/
theorem black_image_empty (img : Image) (sep : List Rat) (pct : Rat)
    (margin? : Option (List Nat)) (precise : Bool) (R : List Pos)
    (h : greyDilation img sep pct margin? precise = some R)
    (hb : ∀ v ∈ img.data.toList, v = 0) : R = [] := by
  obtain ⟨_, hcase⟩ := greyDilationK_some h
  rcases hcase with ⟨_, hR⟩ | ⟨thr, hthr, _⟩
  · exact hR
  · rw [(black_iff img pct).mpr hb] at hthr; cases hthr

/-- **float_rescale.**  An image of non-integer dtype is first rescaled to 8 bits. -/
theorem float_rescale (shape : List Nat) (xs : List Rat) (sep : List Rat) (pct : Rat)
    (margin? : Option (List Nat)) (precise : Bool) :
    greyDilationFloat shape xs sep pct margin? precise
      = greyDilation ⟨shape, (convertToInt xs).toArray⟩ sep pct margin? precise := rfl

/-! ## where_close / drop_close on arbitrary features, any tie-break key -/

/-- `where_close` returns exactly the indices chosen by the pair rule on some pair `i < j` of
features closer than separation -/
theorem whereClose_spec (sep : List Rat) (fs : List Feat) (hs : ∀ s ∈ sep, s ≠ 0) (d : Nat) :
    d ∈ whereClose sep fs ↔
      ∃ a b, [a, b].Sublist (indexFrom 0 fs) ∧ close sep a.2 b.2 = true ∧ d = pairDrop a b :=
  mem_whereClose sep fs hs d

theorem dropClose_subset (sep : List Rat) (fs : List Feat) : (dropClose sep fs).Sublist fs :=
  dropClose_sublist sep fs

/-- two distinct entries of `drop_close`'s result are not closer than separation -/
theorem dropClose_pairwise_separated (sep : List Rat) (fs : List Feat) (hs : ∀ s ∈ sep, s ≠ 0) :
    (dropClose sep fs).Pairwise (fun f g => 1 ≤ dist2 sep f.pos g.pos) := by
  rw [List.pairwise_iff_forall_sublist]
  intro f g hsub
  have := dropClose_separated sep fs hs f g hsub
  simpa [close] using this

/-- a feature (at index `i`) missing from the result has another feature within separation that
is at least as bright -/
theorem dropClose_justified (sep : List Rat) (fs : List Feat) (hs : ∀ s ∈ sep, s ≠ 0)
    (i : Nat) (f : Feat) (hi : (i, f) ∈ indexFrom 0 fs) (hd : f ∉ dropClose sep fs) :
    ∃ j g, (j, g) ∈ indexFrom 0 fs ∧ j ≠ i ∧ dist2 sep f.pos g.pos < 1 ∧ f.inten ≤ g.inten := by
  have hD : i ∈ whereClose sep fs := by
    by_contra hn
    exact hd (mem_dropClose_of sep fs i f hi hn)
  obtain ⟨j, g, hj, hne, hc, hle⟩ := whereClose_justified sep fs hs i f hi hD
  exact ⟨j, g, hj, hne, by simpa [close] using hc, hle⟩

/-! ## clause 2: precise = True -/

section precise
variable (key : Pos → Rat) (img : Image) (sep : List Rat) (pct : Rat)
  (margin? : Option (List Nat))

theorem sep_ne_zero_of_wf {img : Image} {sep : List Rat} {margin : List Nat}
    (hw : wellFormed img sep margin = true) : ∀ s ∈ sep, s ≠ 0 := by
  intro s hs
  have := ((wellFormed_iff _ _ _).mp hw).2.2.2.2 s hs
  exact ne_of_gt this.1

/-- the precise and the imprecise result of the same call, related -/
theorem precise_eq (R C : List Pos)
    (hR : greyDilationK key img sep pct margin? true = some R)
    (hC : greyDilationK key img sep pct margin? false = some C) :
    R = (dropClose sep (C.map (featOf img key))).map toPos := by
  obtain ⟨_, h1⟩ := greyDilationK_some hR
  obtain ⟨_, h2⟩ := greyDilationK_some hC
  rcases h1 with ⟨hn, rfl⟩ | ⟨thr, hthr, hR'⟩
  · rcases h2 with ⟨_, rfl⟩ | ⟨thr', hthr', _⟩
    · simp [dropClose, whereClose, indexFrom, dropsAux, uniqueSorted]
    · rw [hn] at hthr'; cases hthr'
  · rcases h2 with ⟨hn, _⟩ | ⟨thr', hthr', hC'⟩
    · rw [hn] at hthr; cases hthr
    · rw [hthr] at hthr'
      injection hthr' with e
      subst e
      simp only [if_true] at hR'
      simp only [Bool.false_eq_true, if_false] at hC'
      rw [hR', hC']

theorem map_toPos_featOf (C : List Pos) : (C.map (featOf img key)).map toPos = C := by
  rw [List.map_map]
  conv_rhs => rw [← List.map_id C]
  apply List.map_congr_left
  intro p _
  exact toPos_featOf img key p

/-- **precise_subset.**  The `precise=True` result is a sub-list (same order) of the
`precise=False` result, for every tie-break key. -/
theorem precise_subset (R C : List Pos)
    (hR : greyDilationK key img sep pct margin? true = some R)
    (hC : greyDilationK key img sep pct margin? false = some C) : R.Sublist C := by
  rw [precise_eq key img sep pct margin? R C hR hC]
  have := (dropClose_sublist sep (C.map (featOf img key))).map toPos
  rwa [map_toPos_featOf] at this

/-- membership in the precise result, in terms of the features `drop_close` keeps -/
theorem mem_precise (R C : List Pos)
    (hR : greyDilationK key img sep pct margin? true = some R)
    (hC : greyDilationK key img sep pct margin? false = some C) (p : Pos) :
    p ∈ R ↔ featOf img key p ∈ dropClose sep (C.map (featOf img key)) := by
  rw [precise_eq key img sep pct margin? R C hR hC, List.mem_map]
  constructor
  · rintro ⟨f, hf, rfl⟩
    have hfC := (dropClose_sublist sep (C.map (featOf img key))).subset hf
    obtain ⟨p', _, rfl⟩ := List.mem_map.mp hfC
    rwa [toPos_featOf]
  · intro h
    exact ⟨_, h, toPos_featOf img key p⟩

/-- **precise_separated.**  No two distinct points of the `precise=True` result are closer than
separation: `Σ ((pᵢ − qᵢ)/sᵢ)² ≥ 1`. -/
theorem precise_separated (R : List Pos)
    (hR : greyDilationK key img sep pct margin? true = some R) (p q : Pos)
    (hp : p ∈ R) (hq : q ∈ R) (hne : p ≠ q) :
    1 ≤ dist2 sep (p.map Int.ofNat) (q.map Int.ofNat) := by
  obtain ⟨hw, hcase⟩ := greyDilationK_some hR
  have hs := sep_ne_zero_of_wf hw
  -- the imprecise run succeeds as well
  have hC : ∃ C, greyDilationK key img sep pct margin? false = some C := by
    unfold greyDilationK
    simp only [hw, Bool.not_true, Bool.false_eq_true, if_false]
    cases percentileThr img pct <;> simp
  obtain ⟨C, hC⟩ := hC
  have hp' := (mem_precise key img sep pct margin? R C hR hC p).mp hp
  have hq' := (mem_precise key img sep pct margin? R C hR hC q).mp hq
  have hfne : featOf img key p ≠ featOf img key q := by
    intro e
    apply hne
    rw [← toPos_featOf img key p, ← toPos_featOf img key q, e]
  have hpw := dropClose_pairwise_separated sep (C.map (featOf img key)) hs
  rw [List.pairwise_iff_forall_sublist] at hpw
  rcases pair_sublist_of_mem hp' hq' hfne with h | h
  · exact hpw h
  · have := hpw h
    rwa [dist2_comm] at this

/-- **precise_justified.**  A point of the `precise=False` result that is missing from the
`precise=True` result has another admissible maximum `c ≠ d` within separation
(`Σ ((dᵢ − cᵢ)/sᵢ)² < 1`) that is at least as bright. -/
theorem precise_justified (R C : List Pos)
    (hR : greyDilationK key img sep pct margin? true = some R)
    (hC : greyDilationK key img sep pct margin? false = some C) (d : Pos)
    (hd : d ∈ C) (hnd : d ∉ R) :
    ∃ c, c ∈ C ∧ c ≠ d ∧ dist2 sep (d.map Int.ofNat) (c.map Int.ofNat) < 1
      ∧ img.pix d ≤ img.pix c := by
  obtain ⟨hw, _⟩ := greyDilationK_some hR
  have hs := sep_ne_zero_of_wf hw
  have hnodup : C.Nodup := by
    obtain ⟨_, hcase⟩ := greyDilationK_some hC
    rcases hcase with ⟨_, rfl⟩ | ⟨thr', _, hC'⟩
    · exact List.nodup_nil
    · simp only [Bool.false_eq_true, if_false] at hC'
      subst hC'
      exact candidates_nodup _ _ _ _
  have hinj : Function.Injective (featOf img key) := by
    intro a b e
    rw [← toPos_featOf img key a, ← toPos_featOf img key b, e]
  have hfn : (C.map (featOf img key)).Nodup := hnodup.map hinj
  obtain ⟨i, hi⟩ := mem_indexFrom_of_mem 0 (C.map (featOf img key)) (featOf img key d)
    (List.mem_map_of_mem hd)
  have hnf : featOf img key d ∉ dropClose sep (C.map (featOf img key)) :=
    fun h => hnd ((mem_precise key img sep pct margin? R C hR hC d).mpr h)
  obtain ⟨j, g, hj, hji, hlt, hle⟩ :=
    dropClose_justified sep (C.map (featOf img key)) hs i _ hi hnf
  obtain ⟨c, hc, rfl⟩ := List.mem_map.mp (mem_indexFrom_snd hj)
  refine ⟨c, hc, ?_, hlt, hle⟩
  intro e
  subst e
  exact hji (indexFrom_snd_inj 0 _ hfn j i _ hj hi)

end precise

/-- **precise_spec.**  The three facts for the function the driver runs (`greyDilation`, exact
tie-break key): subset, pairwise separated, every discarded candidate justified. -/
theorem precise_spec (img : Image) (sep : List Rat) (pct : Rat) (margin? : Option (List Nat))
    (R C : List Pos)
    (hR : greyDilation img sep pct margin? true = some R)
    (hC : greyDilation img sep pct margin? false = some C) :
    R.Sublist C
      ∧ (∀ p ∈ R, ∀ q ∈ R, p ≠ q → 1 ≤ dist2 sep (p.map Int.ofNat) (q.map Int.ofNat))
      ∧ (∀ d ∈ C, d ∉ R → ∃ c ∈ C, c ≠ d ∧ dist2 sep (d.map Int.ofNat) (c.map Int.ofNat) < 1
            ∧ img.pix d ≤ img.pix c) :=
  ⟨precise_subset _ img sep pct margin? R C hR hC,
   fun p hp q hq hne => precise_separated _ img sep pct margin? R hR p q hp hq hne,
   fun d hd hnd => precise_justified _ img sep pct margin? R C hR hC d hd hnd⟩

/-- the model returns a result exactly on the well-formed inputs (so the hypotheses
`greyDilation … = some R` above are satisfied by every input the harness drives) -/
theorem greyDilation_total (key : Pos → Rat) (img : Image) (sep : List Rat) (pct : Rat)
    (margin? : Option (List Nat)) (precise : Bool) :
    (∃ R, greyDilationK key img sep pct margin? precise = some R) ↔
      wellFormed img sep (margin?.getD (defaultMargin sep)) = true := by
  constructor
  · rintro ⟨R, h⟩
    exact (greyDilationK_some h).1
  · intro hw
    unfold greyDilationK
    simp only [hw, Bool.not_true, Bool.false_eq_true, if_false]
    cases percentileThr img pct <;> cases precise <;> simp

/-! ## non-vacuity: the hypotheses are satisfiable on concrete, non-trivial inputs -/

/-- 3×3 image, one peak (5) in the centre, a lower peak (2) in the corner, background 1 -/
def exImg : Image := ⟨[3, 3], #[1, 1, 1, 1, 5, 1, 1, 1, 2]⟩

example : percentileThr exImg 50 = some 1 := by decide +kernel
/-- separation 2 → box size 2 (even: extends towards higher indices), both peaks are maxima -/
example : greyDilation exImg [2, 2] 50 (some [0, 0]) false = some [[1, 1], [2, 2]] := by
  decide +kernel
/-- default margin ⌊2/2⌋ = 1 removes the corner peak -/
example : greyDilation exImg [2, 2] 50 none false = some [[1, 1]] := by decide +kernel
/-- precise: the corner peak is within separation (distance² = 2/4 < 1) of the brighter one -/
example : greyDilation exImg [2, 2] 50 (some [0, 0]) true = some [[1, 1]] := by decide +kernel
/-- an equal-brightness pair: the one with the smaller key `Σ pᵢ/sᵢ` is dropped -/
example : greyDilation ⟨[1, 4], #[1, 7, 7, 0]⟩ [2, 2] 0 (some [0, 0]) true = some [[0, 2]] := by
  decide +kernel
example : greyDilation ⟨[2, 2], #[0, 0, 0, 0]⟩ [2, 2] 64 none true = some [] := by decide +kernel
/-- 3-D -/
example : greyDilation ⟨[2, 2, 2], #[1, 1, 1, 1, 1, 1, 1, 9]⟩ [1, 1, 1] 50 none false
    = some [[1, 1, 1]] := by decide +kernel
example : boxSize 2 (5 / 2) = 3 ∧ boxSize 2 3 = 4 ∧ boxSize 3 (7 / 2) = 4 := by decide +kernel
/-- float image: max 255/4 → scale 4 -/
example : convertToInt [255 / 4, 1 / 2, -3, 10] = [255, 2, 0, 40] := by decide +kernel
/-- where_close: three collinear points, the middle one brightest: both neighbours go -/
example : whereClose [2] [⟨[0], 1, 0⟩, ⟨[1], 5, 1 / 2⟩, ⟨[2], 1, 1⟩] = [0, 2] := by decide +kernel

end TrackpyV.Find
