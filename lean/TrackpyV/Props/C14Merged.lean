import TrackpyV.Props.C14DetectLink
/-!
# C14 — "… equals detect-then-link when nothing is withheld", under "no shortage AFTER merging"

`Props/C14DetectLink` proves label equality with the plain linker under `NoShort1` (no shortage
BEFORE `merge_lost_subnets`).  Under the weaker hypothesis of `flAlgoStep_no_short`
(`∀ g ∈ flGroups, short g = false`) FindLinker solves MERGED sub-nets as one problem.  Here:

* `flGroups_merged`   the exact relation the model gives between `flGroups` and the sub-nets before
                      merging: `MergedFrom (groups1 …) (flGroups …)` — there is a list of lists of
                      groups `pss` whose concatenation is a permutation of `groups1`
                      (= `orderGroups stepGroups ++ lostSingles`), and `flGroups = pss.map catG`:
                      every merged group is the CONCATENATION (sources and destinations, in order)
                      of groups of `groups1`, each of which is used once;
* `merged_group_cost` (a) for a merged group `catG ps` (`ps` a sub-permutation of `groups1`), the
                      cost of the solver's answer on the merged net is the sum of the costs of its
                      answers on the parts (`Props/C02.groups_compose_list` = components_compose;
                      destinations of different parts are disjoint, `groups1_inv`);
                      `merged_group_optimal`: the concatenation of the parts' answers is optimal;
* `flAlgoStep_cost_eq_plain` (b) under "no shortage after merging" the total cost of the choices
                      of the FindLinker step = total cost of the plain linker's `algoChoices`
                      + `cfg.B` (the null-link cost) for every source WITHOUT any candidate —
                      whatever the ties.  The correction term is needed
                      (`flAlgoStep_cost_lost_witness`): a source without a candidate is in no
                      sub-net of the plain linker (it is not among `algoChoices`), FindLinker makes
                      it a sub-net (`include_lost`), which can be merged with a neighbour that has
                      a surplus; `flAlgoStep_cost_eq_plain_of_no_lost` is the statement without it;
* `flAlgoStep_eq_algoLabels_of_unique` (c) if moreover the optimum of every plain sub-net is unique
                      (`countOptimal = 1` for every group of `stepGroups` with a source; implied by
                      `stepTied = false`, `uniqueStep_of_not_stepTied`), the labels are EXACTLY the
                      plain linker's: the unique optimum of a merged net is the concatenation of
                      the unique optima of its parts (`Proofs/AssignSplit.isOptimal_append_split`);
                      a source without candidate can only take the null link, which carries no
                      label;
* `flAlgoRun_eq_algoMovie_of_unique` (d) whole movies.
-/
namespace TrackpyV.FindLink
open TrackpyV.Linker TrackpyV.Assign
open TrackpyV.Relocate (FLevel)

/-! ## 1. merged groups are concatenations of the groups before merging -/

/-- concatenation of groups: sources and destinations, in order -/
def catG (ps : List Group) : Group := (ps.flatMap (·.1), ps.flatMap (·.2))

/-- `mergeInto` on the level of the parts -/
def mergeIntoL (p : Group → Bool) : List (List Group) → List (List Group)
  | [] => []
  | ps :: pss =>
    if p (catG ps) then
      (ps ++ (pss.filter (fun qs => p (catG qs))).flatten) ::
        pss.filter (fun qs => !(p (catG qs)))
    else ps :: mergeIntoL p pss

theorem catG_append (ps qs : List Group) :
    catG (ps ++ qs) = ((catG ps).1 ++ (catG qs).1, (catG ps).2 ++ (catG qs).2) := by
  simp [catG]

theorem catG_flatten (qss : List (List Group)) :
    catG qss.flatten = ((qss.map catG).flatMap (·.1), (qss.map catG).flatMap (·.2)) := by
  induction qss with
  | nil => rfl
  | cons q qs ih =>
    simp only [List.flatten_cons, catG_append, ih, List.map_cons, List.flatMap_cons]

theorem mergeInto_map (p : Group → Bool) :
    ∀ pss : List (List Group), mergeInto p (pss.map catG) = (mergeIntoL p pss).map catG
  | [] => rfl
  | ps :: pss => by
    simp only [List.map_cons, mergeInto, mergeIntoL]
    by_cases h : p (catG ps) = true
    · simp only [h, if_true, List.map_cons, List.filter_map, catG_append, catG_flatten]
      rfl
    · simp only [h, Bool.false_eq_true, if_false, List.map_cons]
      rw [mergeInto_map p pss]

theorem mergeIntoL_perm (p : Group → Bool) :
    ∀ pss : List (List Group), (mergeIntoL p pss).flatten.Perm pss.flatten
  | [] => List.Perm.refl _
  | ps :: pss => by
    unfold mergeIntoL
    split
    · simp only [List.flatten_cons, List.append_assoc]
      refine List.Perm.append_left ps ?_
      rw [← List.flatten_append]
      exact (List.filter_append_perm _ pss).flatten
    · simp only [List.flatten_cons]
      exact (mergeIntoL_perm p pss).append_left _

/-- `gs` arises from `gs0` by concatenating groups: a partition `pss` of (a permutation of) `gs0`
into lists, each list concatenated into one group -/
def MergedFrom (gs0 gs : List Group) : Prop :=
  ∃ pss : List (List Group), pss.flatten.Perm gs0 ∧ gs = pss.map catG

theorem MergedFrom.refl (gs : List Group) : MergedFrom gs gs := by
  refine ⟨gs.map (fun g => [g]), ?_, ?_⟩
  · have : (gs.map (fun g => [g])).flatten = gs := by
      induction gs with
      | nil => rfl
      | cons g gs ih =>
        show [g] ++ (gs.map (fun g => [g])).flatten = g :: gs
        rw [ih]
        rfl
    rw [this]
  · induction gs with
    | nil => rfl
    | cons g gs ih =>
      simp only [List.map_cons, List.map_map] at ih ⊢
      rw [← ih]
      simp [catG]

theorem mergeInto_merged (p : Group → Bool) {gs0 gs : List Group} (h : MergedFrom gs0 gs) :
    MergedFrom gs0 (mergeInto p gs) := by
  obtain ⟨pss, hp, rfl⟩ := h
  exact ⟨mergeIntoL p pss, (mergeIntoL_perm p pss).trans hp, mergeInto_map p pss⟩

theorem mergeLost_merged (cfg : Cfg) (st : State) (t : Int) (gs : List Group) :
    MergedFrom gs (mergeLost cfg st t gs) := by
  unfold mergeLost
  apply foldl_preserves (MergedFrom gs)
  · intro gs' a h
    apply foldl_preserves (MergedFrom gs)
    · intro gs'' b h'
      exact mergeInto_merged _ h'
    · exact h
  · exact MergedFrom.refl gs

/-- **flGroups_merged.**  The sub-nets FindLinker iterates over are concatenations of the sub-nets
after `include_lost` (the plain linker's, in dict order, then one per source without candidate),
each of which goes into exactly one merged sub-net. -/
theorem flGroups_merged (cfg : Cfg) (st : State) (t : Int) (dsts : List Pos) :
    MergedFrom (groups1 cfg st t dsts) (flGroups cfg st t dsts) :=
  mergeLost_merged cfg st t _

/-! ## 2. the solver's answer on a net; optimal cost of a concatenation -/

/-- the candidate lists of the sources of a group (the net the solver gets) -/
def netOf (cfg : Cfg) (st : State) (t : Int) (dsts : List Pos) (g : Group) : List Src :=
  g.1.map (srcOf (stepCands cfg st t dsts))

/-- the assignment the solver returns (`[]` for no source) -/
def solA (srcs : List Src) : List Cand :=
  match solveOrdered srcs with
  | some (_, a) => a
  | none => []

/-- cost of the solver's answer on a group: its optimal cost -/
def gcost (cfg : Cfg) (st : State) (t : Int) (dsts : List Pos) (g : Group) : Nat :=
  cost (solA (netOf cfg st t dsts g))

/-- total cost of a list of (source, chosen candidate) pairs -/
def chCost (l : List (Nat × Cand)) : Nat := cost (l.map (·.2))

theorem isOptimal_nil : IsOptimal [] [] := by
  refine ⟨(admTk_nil_left _ _).mpr rfl, fun a' ha' => ?_⟩
  rw [(admTk_nil_left _ _).mp ha']

theorem solA_nil : solA [] = [] := by simp [solA, solveOrdered]

theorem solA_isOptimal (srcs : List Src) (hs : AllSorted srcs) (hn : ∀ s ∈ srcs, HasNull s) :
    IsOptimal srcs (solA srcs) := by
  by_cases hne : srcs = []
  · subst hne
    rw [solA_nil]
    exact isOptimal_nil
  · obtain ⟨c, a, h⟩ := solveOrdered_total srcs hne hs hn
    have ad := solveOrdered_admissible _ _ _ h
    have e : solA srcs = a := by simp [solA, h]
    rw [e]
    refine ⟨ad.1, fun a' ha' => ?_⟩
    obtain ⟨c1, a1, e1, l1⟩ := solveOrdered_optimal srcs hne hs a' ha'
    rw [h] at e1
    cases e1
    have := ad.2
    omega

theorem optimal_cost_eq {srcs : List Src} {a b : List Cand} (ha : IsOptimal srcs a)
    (hb : IsOptimal srcs b) : cost a = cost b :=
  Nat.le_antisymm (ha.2 b hb.1) (hb.2 a ha.1)

theorem gch_eq_zip (cfg : Cfg) (st : State) (t : Int) (dsts : List Pos) (g : Group) :
    gch cfg st t dsts g = g.1.zip (solA (netOf cfg st t dsts g)) := by
  unfold gch groupChoice solA netOf
  by_cases he : g.1.isEmpty = true
  · have : g.1 = [] := by simpa using he
    simp [this]
  · simp only [he]
    cases solveOrdered (g.1.map (srcOf (stepCands cfg st t dsts))) with
    | none => simp
    | some r => simp

/-- every source number of the group is a source of the state -/
def GOK (st : State) (g : Group) : Prop := ∀ i ∈ g.1, i < st.srcs.length

theorem netOf_sorted (cfg : Cfg) (st : State) (t : Int) (dsts : List Pos) (g : Group)
    (hg : GOK st g) : AllSorted (netOf cfg st t dsts g) := by
  intro s hs
  simp only [netOf, List.mem_map] at hs
  obtain ⟨i, hi, rfl⟩ := hs
  rw [srcOf_stepCands cfg st t dsts i (hg i hi)]
  exact candsOf_sorted cfg t dsts _

theorem netOf_hasNull (cfg : Cfg) (st : State) (t : Int) (dsts : List Pos) (g : Group)
    (hg : GOK st g) : ∀ s ∈ netOf cfg st t dsts g, HasNull s := by
  intro s hs
  simp only [netOf, List.mem_map] at hs
  obtain ⟨i, hi, rfl⟩ := hs
  rw [srcOf_stepCands cfg st t dsts i (hg i hi)]
  exact ⟨cfg.B, candsOf_hasNull cfg t dsts _⟩

theorem solA_netOf_optimal (cfg : Cfg) (st : State) (t : Int) (dsts : List Pos) (g : Group)
    (hg : GOK st g) : IsOptimal (netOf cfg st t dsts g) (solA (netOf cfg st t dsts g)) :=
  solA_isOptimal _ (netOf_sorted cfg st t dsts g hg) (netOf_hasNull cfg st t dsts g hg)

theorem solA_netOf_length (cfg : Cfg) (st : State) (t : Int) (dsts : List Pos) (g : Group)
    (hg : GOK st g) : (solA (netOf cfg st t dsts g)).length = g.1.length := by
  have := picks_length (solA_netOf_optimal cfg st t dsts g hg).1.1
  simpa [netOf] using this

theorem GOK_catG (st : State) (ps : List Group) (h : ∀ g ∈ ps, GOK st g) : GOK st (catG ps) := by
  intro i hi
  simp only [catG, List.mem_flatMap] at hi
  obtain ⟨g, hg, hi⟩ := hi
  exact h g hg i hi

theorem netOf_catG (cfg : Cfg) (st : State) (t : Int) (dsts : List Pos) (ps : List Group) :
    netOf cfg st t dsts (catG ps) = (ps.map (netOf cfg st t dsts)).flatten := by
  induction ps with
  | nil => rfl
  | cons g ps ih =>
    simp only [netOf, catG, List.flatMap_cons, List.map_append, List.map_cons,
      List.flatten_cons] at ih ⊢
    rw [ih]

/-- two nets without a common destination -/
def DisjG (cfg : Cfg) (st : State) (t : Int) (dsts : List Pos) (g h : Group) : Prop :=
  ∀ x ∈ groupDests (netOf cfg st t dsts g), x ∉ groupDests (netOf cfg st t dsts h)

theorem mem_groupDests_netOf (cfg : Cfg) (st : State) (t : Int) (dsts : List Pos) (g : Group)
    (x : Nat) (hx : x ∈ groupDests (netOf cfg st t dsts g)) :
    ∃ i ∈ g.1, x ∈ dsOfCands (stepCands cfg st t dsts) i := by
  simp only [groupDests, netOf, List.mem_flatMap, List.mem_map] at hx
  obtain ⟨s, ⟨i, hi, rfl⟩, hx⟩ := hx
  exact ⟨i, hi, hx⟩

theorem pairwise_disj_of_closed (cfg : Cfg) (st : State) (t : Int) (dsts : List Pos) :
    ∀ gs : List Group, (gs.flatMap (·.2)).Nodup →
      (∀ g ∈ gs, ∀ i ∈ g.1, ∀ d ∈ dsOfCands (stepCands cfg st t dsts) i, d ∈ g.2) →
      gs.Pairwise (DisjG cfg st t dsts)
  | [], _, _ => List.Pairwise.nil
  | g :: gs, hn, hc => by
    rw [List.flatMap_cons, List.nodup_append] at hn
    refine List.Pairwise.cons ?_ (pairwise_disj_of_closed cfg st t dsts gs hn.2.1
      (fun g' hg' => hc g' (List.mem_cons_of_mem _ hg')))
    intro h hh x hx hx'
    obtain ⟨i, hi, hxi⟩ := mem_groupDests_netOf cfg st t dsts g x hx
    obtain ⟨i', hi', hxi'⟩ := mem_groupDests_netOf cfg st t dsts h x hx'
    have h1 := hc g (List.mem_cons_self ..) i hi x hxi
    have h2 := hc h (List.mem_cons_of_mem _ hh) i' hi' x hxi'
    exact hn.2.2 x h1 x (List.mem_flatMap.mpr ⟨h, hh, h2⟩) rfl

theorem groups1_pairwise (cfg : Cfg) (st : State) (t : Int) (dsts : List Pos) :
    (groups1 cfg st t dsts).Pairwise (DisjG cfg st t dsts) :=
  pairwise_disj_of_closed cfg st t dsts _ (groups1_inv cfg st t dsts).dst_nodup
    (groups1_inv cfg st t dsts).closed

theorem DisjG.symm {cfg : Cfg} {st : State} {t : Int} {dsts : List Pos} {g h : Group}
    (hd : DisjG cfg st t dsts g h) : DisjG cfg st t dsts h g :=
  fun x hx hx' => hd x hx' hx

theorem subperm_pairwise (cfg : Cfg) (st : State) (t : Int) (dsts : List Pos) (ps : List Group)
    (h : ps.Subperm (groups1 cfg st t dsts)) : ps.Pairwise (DisjG cfg st t dsts) := by
  obtain ⟨l, hl, hsub⟩ := h
  exact (hl.pairwise_iff (fun h => DisjG.symm h)).mp ((groups1_pairwise cfg st t dsts).sublist hsub)

theorem subperm_GOK (cfg : Cfg) (st : State) (t : Int) (dsts : List Pos) (ps : List Group)
    (h : ps.Subperm (groups1 cfg st t dsts)) : ∀ g ∈ ps, GOK st g := by
  intro g hg i hi
  exact (groups1_inv cfg st t dsts).src_lt i (List.mem_flatMap.mpr ⟨g, h.subset hg, hi⟩)

theorem cost_flatten (as : List (List Cand)) : cost as.flatten = (as.map cost).sum := by
  induction as with
  | nil => rfl
  | cons a as ih => simp only [List.flatten_cons, cost_append, ih, List.map_cons, List.sum_cons]

/-- **merged_group_optimal.**  Concatenating the solver's answers on the parts gives an optimal
assignment of the merged net (`groups_compose_list`). -/
theorem merged_group_optimal (cfg : Cfg) (st : State) (t : Int) (dsts : List Pos)
    (ps : List Group) (h : ps.Subperm (groups1 cfg st t dsts)) :
    IsOptimal (netOf cfg st t dsts (catG ps))
      ((ps.map (fun g => solA (netOf cfg st t dsts g))).flatten) := by
  rw [netOf_catG]
  apply groups_compose_list
  · rw [List.pairwise_map]
    exact subperm_pairwise cfg st t dsts ps h
  · simp
  · intro p hp
    rw [zip_map_same] at hp
    obtain ⟨g, hg, rfl⟩ := List.mem_map.mp hp
    exact solA_netOf_optimal cfg st t dsts g (subperm_GOK cfg st t dsts ps h g hg)

/-- **merged_group_cost** (a).  A merged group of `flGroups` is `catG ps` for a list `ps` of groups
of `groups1` (`flGroups_merged`): the optimal cost of the merged net is the sum of the optimal
costs of its parts. -/
theorem merged_group_cost (cfg : Cfg) (st : State) (t : Int) (dsts : List Pos)
    (ps : List Group) (h : ps.Subperm (groups1 cfg st t dsts)) :
    gcost cfg st t dsts (catG ps) = (ps.map (gcost cfg st t dsts)).sum := by
  have h1 := solA_netOf_optimal cfg st t dsts (catG ps)
    (GOK_catG st ps (subperm_GOK cfg st t dsts ps h))
  have h2 := merged_group_optimal cfg st t dsts ps h
  unfold gcost
  rw [optimal_cost_eq h1 h2, cost_flatten, List.map_map]
  rfl

/-- in `Option` form: what `solveOrdered` reports on a net with a source -/
theorem gcost_spec (cfg : Cfg) (st : State) (t : Int) (dsts : List Pos) (g : Group)
    (hg : GOK st g) (hne : g.1 ≠ []) :
    ∃ a, solveOrdered (netOf cfg st t dsts g) = some (gcost cfg st t dsts g, a) := by
  have hne' : netOf cfg st t dsts g ≠ [] := by simpa [netOf] using hne
  obtain ⟨c, a, h⟩ := solveOrdered_total _ hne' (netOf_sorted cfg st t dsts g hg)
    (netOf_hasNull cfg st t dsts g hg)
  have ad := solveOrdered_admissible _ _ _ h
  refine ⟨a, ?_⟩
  have : gcost cfg st t dsts g = c := by simp [gcost, solA, h, ad.2]
  rw [this, h]

/-! ## 3. (b) total cost of the step -/

theorem chCost_append (a b : List (Nat × Cand)) : chCost (a ++ b) = chCost a + chCost b := by
  simp [chCost, cost_append]

theorem chCost_flatMap {α} (f : α → List (Nat × Cand)) (l : List α) :
    chCost (l.flatMap f) = (l.map (fun x => chCost (f x))).sum := by
  induction l with
  | nil => rfl
  | cons x xs ih => simp only [List.flatMap_cons, chCost_append, ih, List.map_cons, List.sum_cons]

theorem chCost_gch (cfg : Cfg) (st : State) (t : Int) (dsts : List Pos) (g : Group)
    (hg : GOK st g) : chCost (gch cfg st t dsts g) = gcost cfg st t dsts g := by
  rw [gch_eq_zip]
  unfold chCost gcost
  have hl := solA_netOf_length cfg st t dsts g hg
  have : (g.1.zip (solA (netOf cfg st t dsts g))).map (·.2) = solA (netOf cfg st t dsts g) :=
    List.map_snd_zip (by omega)
  rw [this]

theorem sum_map_congr {α} (f g : α → Nat) (l : List α) (h : ∀ x ∈ l, f x = g x) :
    (l.map f).sum = (l.map g).sum := by
  rw [List.map_congr_left h]

theorem sum_map_flatten {α} (f : α → Nat) (ll : List (List α)) :
    (ll.flatten.map f).sum = (ll.map (fun l => (l.map f).sum)).sum := by
  induction ll with
  | nil => rfl
  | cons l ll ih =>
    simp only [List.flatten_cons, List.map_append, List.sum_append, ih, List.map_cons,
      List.sum_cons]

theorem mem_subperm_of_flatten {pss : List (List Group)} {gs : List Group}
    (hp : pss.flatten.Perm gs) {ps : List Group} (h : ps ∈ pss) : ps.Subperm gs :=
  (List.sublist_flatten_of_mem h).subperm.trans hp.subperm

/-- total optimal cost over the merged sub-nets = total over the sub-nets before merging -/
theorem flGroups_gcost_sum (cfg : Cfg) (st : State) (t : Int) (dsts : List Pos) :
    ((flGroups cfg st t dsts).map (gcost cfg st t dsts)).sum =
      ((groups1 cfg st t dsts).map (gcost cfg st t dsts)).sum := by
  obtain ⟨pss, hp, he⟩ := flGroups_merged cfg st t dsts
  rw [he, List.map_map]
  show (pss.map (fun ps => gcost cfg st t dsts (catG ps))).sum = _
  rw [sum_map_congr _ (fun ps => (ps.map (gcost cfg st t dsts)).sum) pss
    (fun ps hps => merged_group_cost cfg st t dsts ps (mem_subperm_of_flatten hp hps))]
  rw [← sum_map_flatten]
  exact ((hp.map _).sum_nat)

theorem mem_lostSingles (cands : List (List Cand)) (g : Group) (hg : g ∈ lostSingles cands) :
    ∃ i, g = ([i], []) ∧ i < cands.length ∧ dsOfCands cands i = [] := by
  simp only [lostSingles, List.mem_map, List.mem_filter, List.mem_range] at hg
  obtain ⟨i, ⟨hi, he⟩, rfl⟩ := hg
  exact ⟨i, rfl, hi, by simpa [dsOfCands] using he⟩

/-- a source without any candidate can only take the null link -/
theorem lost_adm (cfg : Cfg) (st : State) (t : Int) (dsts : List Pos) (i : Nat)
    (hi : i < st.srcs.length) (hd : dsOfCands (stepCands cfg st t dsts) i = [])
    (b : List Cand) (hb : Admissible [srcOf (stepCands cfg st t dsts) i] b) :
    b = [(none, cfg.B)] := by
  obtain ⟨hp, _⟩ := hb
  cases b with
  | nil => simp at hp
  | cons c cs =>
    simp only [picks_cons_cons] at hp
    obtain ⟨hc, hcs⟩ := hp
    cases cs with
    | cons _ _ => simp [Picks] at hcs
    | nil =>
      obtain ⟨d, k⟩ := c
      cases d with
      | some x =>
        have : x ∈ dsOfCands (stepCands cfg st t dsts) i := by
          simp only [dsOfCands, realDests, List.mem_filterMap]
          exact ⟨(some x, k), hc, rfl⟩
        rw [hd] at this
        cases this
      | none =>
        rw [srcOf_stepCands cfg st t dsts i hi] at hc
        rcases mem_candsOfRow _ _ _ hc with h0 | ⟨j, _, h0, _⟩
        · rw [h0]
        · cases h0

theorem lost_solA (cfg : Cfg) (st : State) (t : Int) (dsts : List Pos) (g : Group)
    (hg : g ∈ lostSingles (stepCands cfg st t dsts)) :
    ∃ i, g = ([i], []) ∧ i < st.srcs.length ∧
      dsOfCands (stepCands cfg st t dsts) i = [] ∧
      solA (netOf cfg st t dsts g) = [(none, cfg.B)] := by
  obtain ⟨i, rfl, hi, hd⟩ := mem_lostSingles _ g hg
  rw [stepCands_length] at hi
  refine ⟨i, rfl, hi, hd, ?_⟩
  have hok : GOK st ([i], []) := by
    intro j hj
    simp only [List.mem_singleton] at hj
    omega
  exact lost_adm cfg st t dsts i hi hd _ (solA_netOf_optimal cfg st t dsts _ hok).1

theorem lost_gcost (cfg : Cfg) (st : State) (t : Int) (dsts : List Pos) (g : Group)
    (hg : g ∈ lostSingles (stepCands cfg st t dsts)) : gcost cfg st t dsts g = cfg.B := by
  obtain ⟨i, _, _, _, h⟩ := lost_solA cfg st t dsts g hg
  simp [gcost, h, cost]

theorem sum_map_const {α} (f : α → Nat) (c : Nat) (l : List α) (h : ∀ x ∈ l, f x = c) :
    (l.map f).sum = l.length * c := by
  induction l with
  | nil => simp
  | cons x xs ih =>
    simp only [List.map_cons, List.sum_cons, List.length_cons, h x (List.mem_cons_self ..),
      ih (fun y hy => h y (List.mem_cons_of_mem _ hy))]
    rw [Nat.add_mul, Nat.one_mul, Nat.add_comm]

theorem flAcc_choices_no_short (cfg : Cfg) (st : State) (t : Int) (orc : Oracle) (dsts : List Pos)
    (h : ∀ g ∈ flGroups cfg st t dsts, short g = false) :
    (flAcc cfg st t orc dsts).choices = (flGroups cfg st t dsts).flatMap (gch cfg st t dsts) := by
  have h2 := foldl_processGroup_choices cfg st t orc dsts (flGroups cfg st t dsts)
    { lvl := dsts, masses := [], choices := [] } rfl h
  have : (flAcc cfg st t orc dsts).choices = [] ++ _ := h2
  simpa using this

/-- **flAlgoStep_cost_eq_plain** (b).  If no sub-net of the FindLinker step has a shortage (after
merging), the total cost of the links it chooses (null links at `cfg.B`) is the total cost of the
plain linker step's choices plus one null link for every source without any candidate — such a
source is in no sub-net of the plain linker.  No hypothesis on ties. -/
theorem flAlgoStep_cost_eq_plain (cfg : Cfg) (st : State) (t : Int) (orc : Oracle)
    (dsts : List Pos) (h : ∀ g ∈ flGroups cfg st t dsts, short g = false) :
    ∃ ch, algoChoices cfg st t dsts = some ch ∧
      chCost (flAcc cfg st t orc dsts).choices =
        chCost ch + (lostSingles (stepCands cfg st t dsts)).length * cfg.B := by
  refine ⟨_, algoChoices_eq cfg st t dsts, ?_⟩
  rw [flAcc_choices_no_short cfg st t orc dsts h, chCost_flatMap, chCost_flatMap]
  rw [sum_map_congr _ (gcost cfg st t dsts) (flGroups cfg st t dsts)
    (fun g hg => chCost_gch cfg st t dsts g
      (fun i hi => (flGroups_inv cfg st t dsts).src_lt i (List.mem_flatMap.mpr ⟨g, hg, hi⟩)))]
  rw [sum_map_congr _ (gcost cfg st t dsts) (stepGroups cfg st t dsts)
    (fun g hg => chCost_gch cfg st t dsts g (group_src_lt cfg st t dsts g hg))]
  rw [flGroups_gcost_sum]
  unfold groups1
  rw [List.map_append, List.sum_append,
    sum_map_const _ cfg.B _ (fun g hg => lost_gcost cfg st t dsts g hg)]
  congr 1
  exact (((orderGroups_perm (stepGroups cfg st t dsts)).map _).sum_nat)

/-- (b) when every source has a candidate: the costs are equal -/
theorem flAlgoStep_cost_eq_plain_of_no_lost (cfg : Cfg) (st : State) (t : Int) (orc : Oracle)
    (dsts : List Pos) (h : ∀ g ∈ flGroups cfg st t dsts, short g = false)
    (hl : lostSingles (stepCands cfg st t dsts) = []) :
    ∃ ch, algoChoices cfg st t dsts = some ch ∧
      chCost (flAcc cfg st t orc dsts).choices = chCost ch := by
  obtain ⟨ch, h1, h2⟩ := flAlgoStep_cost_eq_plain cfg st t orc dsts h
  exact ⟨ch, h1, by rw [h2, hl]; simp⟩

/-! ## 4. (c) unique optima: the merge changes nothing -/

/-- the solver's answer is the only optimum of the group's net -/
def UniqG (cfg : Cfg) (st : State) (t : Int) (dsts : List Pos) (g : Group) : Prop :=
  ∀ b, IsOptimal (netOf cfg st t dsts g) b → b = solA (netOf cfg st t dsts g)

/-- every plain sub-net with a source has exactly one optimal assignment (the driver's statistic) -/
def UniqueStep (cfg : Cfg) (st : State) (t : Int) (dsts : List Pos) : Prop :=
  ∀ g ∈ stepGroups cfg st t dsts, g.1 ≠ [] → countOptimal (netOf cfg st t dsts g) = 1

theorem uniqueStep_of_not_stepTied (cfg : Cfg) (st : State) (t : Int) (dsts : List Pos)
    (h : stepTied cfg st t dsts = false) : UniqueStep cfg st t dsts := by
  intro g hg hne
  unfold stepTied at h
  simp only [gSrcs, List.any_map, List.any_eq_false, Function.comp] at h
  have := h g hg
  have he : (g.1.map (srcOf (stepCands cfg st t dsts))).isEmpty = false := by simpa using hne
  simp only [he, Bool.false_eq_true, if_false] at this
  split at this
  · simp at this
  · simpa [netOf] using this

/-- `countOptimal = 1` ⇒ the solver's answer is THE optimum (as `Props/C03Perm.uniqueOpt_of_countOptimal`) -/
theorem unique_of_countOptimal (srcs : List Src) (hs : AllSorted srcs)
    (h : countOptimal srcs = 1) : ∀ b, IsOptimal srcs b → b = solA srcs := by
  unfold countOptimal at h
  cases hsol : solveOrdered srcs with
  | none => rw [hsol] at h; cases h
  | some r =>
    obtain ⟨c, a⟩ := r
    rw [hsol] at h
    simp only at h
    have hne : srcs ≠ [] := by rintro rfl; simp [solveOrdered] at hsol
    have ad := solveOrdered_admissible _ _ _ hsol
    have ho : IsOptimal srcs a := by
      refine ⟨ad.1, fun a' ha' => ?_⟩
      obtain ⟨c1, a1, e1, l1⟩ := solveOrdered_optimal srcs hne hs a' ha'
      rw [hsol] at e1
      cases e1
      have := ad.2
      omega
    have hA : solA srcs = a := by simp [solA, hsol]
    rw [hA]
    obtain ⟨p, hp⟩ := List.length_eq_one_iff.mp h
    have hmem : ∀ b, IsOptimal srcs b → (c, b) = p := by
      intro b hb
      have hcb : cost b = c := by rw [← ad.2]; exact optimal_cost_eq hb ho
      have : (c, b) ∈ (allCompletions srcs).filter (fun p => p.1 == c) := by
        rw [List.mem_filter]
        refine ⟨?_, by simp⟩
        cases srcs with
        | nil => exact absurd rfl hne
        | cons s rest => exact (mem_completions_iff rest s [] _).mpr ⟨hb.1, hcb.symm⟩
      rw [hp] at this
      simpa using this
    intro b hb
    have e1 := hmem b hb
    have e2 := hmem a ho
    rw [← e2] at e1
    exact (Prod.mk.inj e1).2

theorem groups1_uniq (cfg : Cfg) (st : State) (t : Int) (dsts : List Pos)
    (hu : UniqueStep cfg st t dsts) : ∀ g ∈ groups1 cfg st t dsts, UniqG cfg st t dsts g := by
  intro g hg b hb
  rcases List.mem_append.mp hg with hg | hg
  · have hg' := (orderGroups_perm _).mem_iff.mp hg
    by_cases hne : g.1 = []
    · have e : netOf cfg st t dsts g = [] := by simp [netOf, hne]
      rw [e] at hb ⊢
      rw [solA_nil]
      exact (admTk_nil_left _ _).mp hb.1
    · exact unique_of_countOptimal _ (netOf_sorted cfg st t dsts g (group_src_lt cfg st t dsts g hg'))
        (hu g hg' hne) b hb
  · obtain ⟨i, rfl, hi, hd, hs⟩ := lost_solA cfg st t dsts g hg
    rw [hs]
    exact lost_adm cfg st t dsts i hi hd b hb.1

/-- the only optimum of a concatenation of nets with disjoint destinations and unique optima is
the concatenation of the optima -/
theorem parts_unique (cfg : Cfg) (st : State) (t : Int) (dsts : List Pos) :
    ∀ ps : List Group, ps.Pairwise (DisjG cfg st t dsts) → (∀ g ∈ ps, GOK st g) →
      (∀ g ∈ ps, UniqG cfg st t dsts g) →
      ∀ b, IsOptimal ((ps.map (netOf cfg st t dsts)).flatten) b →
        b = (ps.map (fun g => solA (netOf cfg st t dsts g))).flatten
  | [], _, _, _, b, hb => (admTk_nil_left _ _).mp hb.1
  | g :: ps, hpw, hok, hu, b, hb => by
    rw [List.pairwise_cons] at hpw
    simp only [List.map_cons, List.flatten_cons] at hb ⊢
    have hlen : b.length = (netOf cfg st t dsts g ++ (ps.map (netOf cfg st t dsts)).flatten).length :=
      picks_length hb.1.1
    have hdis : ∀ x ∈ groupDests (netOf cfg st t dsts g),
        x ∉ groupDests (ps.map (netOf cfg st t dsts)).flatten := by
      intro x hx hx'
      simp only [groupDests, List.mem_flatMap, List.mem_flatten, List.mem_map] at hx'
      obtain ⟨s, ⟨B, ⟨h, hh, rfl⟩, hsB⟩, hxs⟩ := hx'
      exact hpw.1 h hh x hx (by
        simp only [groupDests, List.mem_flatMap]; exact ⟨s, hsB, hxs⟩)
    have hsplit : b = b.take (netOf cfg st t dsts g).length ++ b.drop (netOf cfg st t dsts g).length :=
      (List.take_append_drop _ _).symm
    rw [hsplit] at hb
    obtain ⟨h1, h2⟩ := isOptimal_append_split _ _ hdis _ _
      (by rw [List.length_take, hlen, List.length_append]; omega) hb
    have e1 := hu g (List.mem_cons_self ..) _ h1
    have e2 := parts_unique cfg st t dsts ps hpw.2
      (fun g' hg' => hok g' (List.mem_cons_of_mem _ hg'))
      (fun g' hg' => hu g' (List.mem_cons_of_mem _ hg')) _ h2
    rw [hsplit, e1, e2]

theorem zip_flatMap_flatten (f : Group → List Cand) :
    ∀ ps : List Group, (∀ g ∈ ps, (f g).length = g.1.length) →
      (ps.flatMap (·.1)).zip ((ps.map f).flatten) = ps.flatMap (fun g => g.1.zip (f g))
  | [], _ => rfl
  | g :: ps, h => by
    simp only [List.flatMap_cons, List.map_cons, List.flatten_cons]
    rw [List.zip_append (h g (List.mem_cons_self ..)).symm,
      zip_flatMap_flatten f ps (fun g' hg' => h g' (List.mem_cons_of_mem _ hg'))]

/-- with unique optima on the parts, the solver's choices on a merged group are the parts' choices -/
theorem gch_catG_of_unique (cfg : Cfg) (st : State) (t : Int) (dsts : List Pos)
    (hu : UniqueStep cfg st t dsts) (ps : List Group) (h : ps.Subperm (groups1 cfg st t dsts)) :
    gch cfg st t dsts (catG ps) = ps.flatMap (gch cfg st t dsts) := by
  have hok := subperm_GOK cfg st t dsts ps h
  have hopt := solA_netOf_optimal cfg st t dsts (catG ps) (GOK_catG st ps hok)
  rw [netOf_catG] at hopt
  have e := parts_unique cfg st t dsts ps (subperm_pairwise cfg st t dsts ps h) hok
    (fun g hg => groups1_uniq cfg st t dsts hu g (h.subset hg)) _ hopt
  rw [gch_eq_zip, netOf_catG, e]
  show (ps.flatMap (·.1)).zip _ = _
  rw [zip_flatMap_flatten _ ps (fun g hg => solA_netOf_length cfg st t dsts g (hok g hg))]
  exact flatMap_congr_mem (fun g _ => (gch_eq_zip cfg st t dsts g).symm)

theorem flatMap_flatten' {α β} (f : α → List β) (ll : List (List α)) :
    ll.flatten.flatMap f = ll.flatMap (fun l => l.flatMap f) := by
  induction ll with
  | nil => rfl
  | cons l ll ih => simp [ih]

/-- the choices of the FindLinker step are, up to order, the plain linker's plus the null links of
the sources without candidate -/
theorem flChoices_perm_of_unique (cfg : Cfg) (st : State) (t : Int) (dsts : List Pos)
    (hu : UniqueStep cfg st t dsts) :
    ((flGroups cfg st t dsts).flatMap (gch cfg st t dsts)).Perm
      (choices cfg st t dsts ++
        (lostSingles (stepCands cfg st t dsts)).flatMap (gch cfg st t dsts)) := by
  obtain ⟨pss, hp, he⟩ := flGroups_merged cfg st t dsts
  rw [he, List.flatMap_map]
  rw [flatMap_congr_mem (fun ps hps => gch_catG_of_unique cfg st t dsts hu ps
    (mem_subperm_of_flatten hp hps)), ← flatMap_flatten']
  refine (hp.flatMap_right _).trans ?_
  unfold groups1 choices
  rw [List.flatMap_append]
  exact ((orderGroups_perm _).flatMap_right _).append_right _

theorem lost_choice_null (cfg : Cfg) (st : State) (t : Int) (dsts : List Pos) (x : Nat × Cand)
    (hx : x ∈ (lostSingles (stepCands cfg st t dsts)).flatMap (gch cfg st t dsts)) :
    x.2.1 = none := by
  obtain ⟨g, hg, hx⟩ := List.mem_flatMap.mp hx
  obtain ⟨i, rfl, _, _, hs⟩ := lost_solA cfg st t dsts g hg
  rw [gch_eq_zip, hs] at hx
  simp only [List.zip_cons_cons, List.zip_nil_right, List.mem_singleton] at hx
  rw [hx]

/-- a label depends only on the choices of real destinations -/
theorem labelOf_congr_some (cfg : Cfg) (st : State) (t : Int) (dsts : List Pos)
    (ch : List (Nat × Cand)) (j : Nat)
    (hm : ∀ x : Nat × Cand, x.2.1 = some j → (x ∈ ch ↔ x ∈ choices cfg st t dsts)) :
    labelOf st ch j = labelOf st (choices cfg st t dsts) j := by
  rcases labelOf_cases' st ch j with ⟨x, hx, hxj, hl⟩ | ⟨hno, hl⟩
  · rw [hl, labelOf_chosen cfg st t dsts x ((hm x hxj).mp hx) j hxj]
  · rcases labelOf_cases cfg st t dsts j with ⟨y, hy, hyj, _⟩ | ⟨_, hl'⟩
    · exact absurd hyj (hno y ((hm y hyj).mpr hy))
    · rw [hl, hl']

/-- **flAlgoStep_eq_algoLabels_of_unique** (c).  If no sub-net of the FindLinker step has a
shortage AFTER merging and the optimum of every plain sub-net is unique, the labels are EXACTLY the
plain linker's, for every oracle: with unique optima the merge changes nothing. -/
theorem flAlgoStep_eq_algoLabels_of_unique (cfg : Cfg) (st : State) (t : Int) (orc : Oracle)
    (dsts : List Pos) (h : ∀ g ∈ flGroups cfg st t dsts, short g = false)
    (hu : UniqueStep cfg st t dsts) :
    algoLabels cfg st t dsts = some (flAlgoStep cfg st t orc dsts).labels := by
  rw [algoLabels_eq, flAlgoStep_labels_no_short cfg st t orc dsts h]
  congr 1
  unfold algoLab
  apply List.map_congr_left
  intro j _
  symm
  apply labelOf_congr_some
  intro x hxj
  rw [(flChoices_perm_of_unique cfg st t dsts hu).mem_iff, List.mem_append]
  constructor
  · rintro (hx | hx)
    · exact hx
    · rw [lost_choice_null cfg st t dsts x hx] at hxj
      cases hxj
  · exact Or.inl

/-- the whole step, in one statement -/
theorem flAlgoStep_eq_plain_of_unique (cfg : Cfg) (st : State) (t : Int) (orc : Oracle)
    (dsts : List Pos) (h : ∀ g ∈ flGroups cfg st t dsts, short g = false)
    (hu : UniqueStep cfg st t dsts) :
    flAlgoStep cfg st t orc dsts =
      { dsts := dsts, added := [], masses := [], labels := algoLab cfg st t dsts } := by
  obtain ⟨h1, h2, h3⟩ := flAlgoStep_no_short cfg st t orc dsts h
  have h4 := flAlgoStep_eq_algoLabels_of_unique cfg st t orc dsts h hu
  rw [algoLabels_eq] at h4
  have h5 : (flAlgoStep cfg st t orc dsts).labels = algoLab cfg st t dsts := (Option.some.inj h4).symm
  cases hs : flAlgoStep cfg st t orc dsts with
  | mk d a m l =>
    rw [hs] at h1 h2 h3 h5
    simp only at h1 h2 h3 h5
    rw [h1, h2, h3, h5]

/-! ## 5. (d) whole movies -/

/-- no step of the find_link run has a shortage AFTER merging, every plain sub-net has a unique
optimum, and no sub-net is oversize (where the plain linker raises) -/
def NoShortRunU (cfg : Cfg) : State → List Frame → Prop
  | _, [] => True
  | st, (t, dsts, orc) :: rest =>
    (∀ g ∈ flGroups cfg st t dsts, short g = false) ∧ UniqueStep cfg st t dsts ∧
    oversizeB cfg (stepGroups cfg st t dsts) = false ∧
    NoShortRunU cfg (nextState cfg st t (flAlgoStep cfg st t orc dsts).dsts
      (flAlgoStep cfg st t orc dsts).labels) rest

theorem flAlgoRunFrom_eq_algoFrom_of_unique (cfg : Cfg) :
    ∀ (frames : List Frame) (st : State), NoShortRunU cfg st frames →
      (flAlgoRunFrom cfg st frames).map (fun l => (l.t, l.dsts)) = detections frames ∧
      (∀ l ∈ flAlgoRunFrom cfg st frames, l.added = []) ∧
      algoFrom cfg st (detections frames) =
        ((flAlgoRunFrom cfg st frames).map (·.labels), false)
  | [], _, _ => ⟨rfl, by simp [flAlgoRunFrom], rfl⟩
  | (t, dsts, orc) :: rest, st, h => by
    obtain ⟨hns, hu, hov, hrest⟩ := h
    have hstep := flAlgoStep_eq_plain_of_unique cfg st t orc dsts hns hu
    rw [hstep] at hrest
    obtain ⟨ih1, ih2, ih3⟩ := flAlgoRunFrom_eq_algoFrom_of_unique cfg rest _ hrest
    have hj : jobLabels cfg st t dsts = some (algoLab cfg st t dsts) := by
      simp [jobLabels, hov, algoLabels_eq]
    refine ⟨?_, ?_, ?_⟩
    · simp only [flAlgoRunFrom, hstep, List.map_cons, detections] at ih1 ⊢
      rw [ih1]
    · intro l hl
      simp only [flAlgoRunFrom, hstep, List.mem_cons] at hl
      rcases hl with rfl | hl
      · rfl
      · exact ih2 l hl
    · simp only [flAlgoRunFrom, hstep, List.map_cons, detections, algoFrom, hj] at ih3 ⊢
      rw [ih3]

/-- **flAlgoRun_eq_algoMovie_of_unique** (d).  Whole movies under the weaker hypothesis: if at no
step a sub-net has a shortage after merging, every plain sub-net has a unique optimum and none is
oversize, the find_link model — with ANY oracles — emits exactly the detected levels, adds nothing,
and its labels are those of the plain linker run `algoMovie`, which does not raise. -/
theorem flAlgoRun_eq_algoMovie_of_unique (cfg : Cfg) (t0 : Int) (d0 : List Pos) (o0 : Oracle)
    (rest : List Frame) (h : NoShortRunU cfg (firstState t0 d0) rest) :
    (flAlgoRun cfg ((t0, d0, o0) :: rest)).map (fun l => (l.t, l.dsts)) =
        detections ((t0, d0, o0) :: rest) ∧
      (∀ l ∈ flAlgoRun cfg ((t0, d0, o0) :: rest), l.added = []) ∧
      algoMovie cfg (detections ((t0, d0, o0) :: rest)) =
        ((flAlgoRun cfg ((t0, d0, o0) :: rest)).map (·.labels), false) := by
  obtain ⟨h1, h2, h3⟩ := flAlgoRunFrom_eq_algoFrom_of_unique cfg rest _ h
  have hfs : Linker.firstState t0 d0 = firstState t0 d0 := rfl
  refine ⟨?_, ?_, ?_⟩
  · simp only [flAlgoRun, List.map_cons, detections] at h1 ⊢
    rw [h1]
  · intro l hl
    simp only [flAlgoRun, List.mem_cons] at hl
    rcases hl with rfl | hl
    · rfl
    · exact h2 l hl
  · have h3' : algoFrom cfg (firstState t0 d0) (List.map (fun f => (f.1, f.2.1)) rest) = _ := h3
    simp only [flAlgoRun, List.map_cons, detections, algoMovie, hfs, h3']

/-! ## 6. non-vacuity and witnesses (tests, labelled as such) -/

/-- the geometry of `noShort_flGroups_not_noShort1_witness`: sources (0,0), (1,0), (6,0) -/
def wSt3 : State := firstState 0 [[0, 0], [1, 0], [6, 0]]
/-- detections (0,0), (7,0), (8,0); search_range 3 -/
def wD3 : List Pos := [[0, 0], [7, 0], [8, 0]]

theorem wNoShort : ∀ g ∈ flGroups exL wSt3 1 wD3, short g = false :=
  noShort_flGroups_not_noShort1_witness.1

/-- the merged group of the witness is the concatenation of the two plain sub-nets -/
example : flGroups exL wSt3 1 wD3 = [catG [([1, 0], [0]), ([2], [1, 2])]] ∧
    groups1 exL wSt3 1 wD3 = [([1, 0], [0]), ([2], [1, 2])] := by decide +kernel

/-- both plain sub-nets of the witness have a unique optimum: (0,0) keeps its feature and (1,0)
is lost (cost 0 + 9 against 1 + 9); (6,0) takes (7,0) (cost 1 against 4) -/
theorem wUnique : UniqueStep exL wSt3 1 wD3 := by
  have hsg : stepGroups exL wSt3 1 wD3 = [([2], [1, 2]), ([1, 0], [0])] := by decide +kernel
  have hsc : stepCands exL wSt3 1 wD3 = [[(some 0, 0), (none, 9)], [(some 0, 1), (none, 9)],
      [(some 1, 1), (some 2, 4), (none, 9)]] := by decide +kernel
  intro g hg _
  rw [hsg] at hg
  simp only [List.mem_cons, List.not_mem_nil, or_false] at hg
  unfold netOf
  rw [hsc]
  rcases hg with rfl | rfl
  · simp [countOptimal, allCompletions, completions, solveOrdered, go, exceeds, taken, better,
      srcOf, getD']
  · simp [countOptimal, allCompletions, completions, solveOrdered, go, exceeds, taken, better,
      addTaken, srcOf, getD']

/-- (c) on the witness: `NoShort1` fails, the merged net is solved as one problem, and still the
labels are the plain linker's -/
example : algoLabels exL wSt3 1 wD3 = some (flAlgoStep exL wSt3 1 exOrc wD3).labels :=
  flAlgoStep_eq_algoLabels_of_unique exL wSt3 1 exOrc wD3 wNoShort wUnique

/-- (a) on the witness: optimum of the merged net = 9 + 1 -/
example : gcost exL wSt3 1 wD3 (catG [([1, 0], [0]), ([2], [1, 2])]) =
    gcost exL wSt3 1 wD3 ([1, 0], [0]) + gcost exL wSt3 1 wD3 ([2], [1, 2]) := by
  have h := merged_group_cost exL wSt3 1 wD3 [([1, 0], [0]), ([2], [1, 2])]
    (by
      have : groups1 exL wSt3 1 wD3 = [([1, 0], [0]), ([2], [1, 2])] := by decide +kernel
      rw [this])
  simpa using h

/-- (b) on the witness: every source has a candidate, the costs are equal -/
example : ∃ ch, algoChoices exL wSt3 1 wD3 = some ch ∧
    chCost (flAcc exL wSt3 1 exOrc wD3).choices = chCost ch :=
  flAlgoStep_cost_eq_plain_of_no_lost exL wSt3 1 exOrc wD3 wNoShort (by decide +kernel)

/-- (d) on the 2-frame movie of the witness -/
theorem wMovie_noShortU :
    NoShortRunU exL (firstState 0 [[0, 0], [1, 0], [6, 0]]) [(1, wD3, exOrc)] :=
  ⟨wNoShort, wUnique, by decide +kernel, trivial⟩

example : algoMovie exL (detections [(0, [[0, 0], [1, 0], [6, 0]], exOrc), (1, wD3, exOrc)]) =
    ((flAlgoRun exL [(0, [[0, 0], [1, 0], [6, 0]], exOrc), (1, wD3, exOrc)]).map (·.labels),
      false) :=
  (flAlgoRun_eq_algoMovie_of_unique exL 0 _ exOrc _ wMovie_noShortU).2.2

/-- **flAlgoStep_cost_lost_witness.**  The correction term of (b) is needed: sources (0,0), (5,0),
detections (5,0), (6,0), search_range 3.  Source 0 has no candidate: the plain linker has the one
sub-net `([1], [0, 1])` and `algoChoices` = source 1 ↦ feature 0 (cost 0); FindLinker adds the
sub-net `([0], [])` (shortage 1), merges it with the neighbour (distance 5 ≤ 2·search_range, a
surplus of 1): one sub-net `([1, 0], [0, 1])` without shortage, nothing relocated, and source 0
takes the null link: total cost 0 + 9. -/
theorem flAlgoStep_cost_lost_witness :
    (∀ g ∈ flGroups exL (firstState 0 [[0, 0], [5, 0]]) 1 [[5, 0], [6, 0]], short g = false) ∧
    flGroups exL (firstState 0 [[0, 0], [5, 0]]) 1 [[5, 0], [6, 0]] = [([1, 0], [0, 1])] ∧
    stepGroups exL (firstState 0 [[0, 0], [5, 0]]) 1 [[5, 0], [6, 0]] = [([1], [0, 1])] ∧
    ∃ ch, algoChoices exL (firstState 0 [[0, 0], [5, 0]]) 1 [[5, 0], [6, 0]] = some ch ∧
      chCost (flAcc exL (firstState 0 [[0, 0], [5, 0]]) 1 exOrc [[5, 0], [6, 0]]).choices =
        chCost ch + 9 := by
  have h : ∀ g ∈ flGroups exL (firstState 0 [[0, 0], [5, 0]]) 1 [[5, 0], [6, 0]],
      short g = false := by decide +kernel
  refine ⟨h, by decide +kernel, by decide +kernel, ?_⟩
  obtain ⟨ch, h1, h2⟩ := flAlgoStep_cost_eq_plain exL (firstState 0 [[0, 0], [5, 0]]) 1 exOrc
    [[5, 0], [6, 0]] h
  refine ⟨ch, h1, ?_⟩
  have hl : (lostSingles (stepCands exL (firstState 0 [[0, 0], [5, 0]]) 1
      [[5, 0], [6, 0]])).length = 1 := by decide +kernel
  rw [h2, hl]
  rfl

end TrackpyV.FindLink
