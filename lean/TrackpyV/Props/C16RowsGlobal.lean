import TrackpyV.Props.C16Rows
/-!
# C16 (X41) — the row-level clauses at level 'global' (a parameter in mode 2)

`Props/C16Rows.lean` carries the bounds / failed-fit clauses to the ROWS of the returned table for
the per-cluster loop (`hlevel`: no parameter in mode 2).  Here the other branch of `refineCtl`:
some parameter is `global`, so `refineGlobal` makes ONE solver call over the whole table (the block
is `List.range n`, `groups[0]` = the clusters) and writes either every row or none.

* `lastGroup_some`, `lastGroup_ne_none` — which cluster's value a row of a `cluster` column gets.
* `RowFitOKG` — the bound predicate on one row at global level (mode 2: packed over the whole
  table; mode ≥ 3: packed over the row's cluster); `RowFitOKAny` — the predicate that covers both
  levels, `rowFitOK_any_of_cluster` / `rowFitOKG_any`.
* `refineGlobal_decides` — the structural dichotomy (no `FiniteDev`): all rows failed or all rows
  fitted with one reported deviation.
* `refine_rows_within_bounds_global` (a), `refine_failed_rows_keep_input_global`,
  `refine_every_row_decided_global` (b), `refine_every_row_decided_any` (b, every mode assignment).
* `global_one_fails_all_witness` — ONE feature outside the image makes the whole table fail.
-/
namespace TrackpyV.Bounds
open List

/-! ## `lastGroup`: the cluster whose value a row receives -/

theorem lastGroup_some : ∀ (gs : List (List Nat)) (i k : Nat), lastGroup gs i = some k →
    ∃ h : k < gs.length, i ∈ gs[k]
  | [], _, _, h => by simp [lastGroup] at h
  | g :: gs, i, k, h => by
    unfold lastGroup at h
    cases hl : lastGroup gs i with
    | some k' =>
      simp only [hl, Option.some.injEq] at h
      subst h
      obtain ⟨h1, h2⟩ := lastGroup_some gs i k' hl
      exact ⟨by simp; omega, by simpa using h2⟩
    | none =>
      simp only [hl] at h
      split at h
      · rename_i hc
        simp only [Option.some.injEq] at h
        subst h
        exact ⟨by simp, by simpa using hc⟩
      · cases h

theorem lastGroup_ne_none : ∀ (gs : List (List Nat)) (i : Nat), (∃ g ∈ gs, i ∈ g) →
    lastGroup gs i ≠ none
  | [], _, h => by simp at h
  | g :: gs, i, h => by
    unfold lastGroup
    cases hl : lastGroup gs i with
    | some k' => simp
    | none =>
      obtain ⟨g', hg', hi⟩ := h
      rcases List.mem_cons.mp hg' with rfl | hg'
      · simp [hi]
      · exact absurd hl (lastGroup_ne_none gs i ⟨g', hg', hi⟩)

/-! ## the bound predicate on one row at global level -/

/-- THE BOUND PREDICATE ON ONE ROW, level 'global'.  Row `i` of `t` against the start table `t0`
(`n` rows, `clusters` = `groups[0]`): in every parameter column `j` (mode `m`, spec `s`) both cells
are finite — new value `x`, start value `p` of the same row — and
* `const` (0): `x = p`;  `var` (1): `x ∈ [lowOf s p, highOf s p]` (its OWN start value);
* `global` (2): `x` lies in the packed bounds of the start values `ps` of ALL `n` rows;
* `cluster` (≥ 3): `x` lies in the packed bounds of the start values `ps` of the rows of a cluster
  `cl ∈ clusters` that contains row `i` (the LAST such cluster: `lastGroup`).
By `packed_*` the packed bounds are the broadest of the members' bounds and still respect every
absolute bound / the default positivity. -/
def RowFitOKG (cfg : Cfg) (t0 t : Table) (clusters : List (List Nat)) (n i : Nat) : Prop :=
  ∀ j m s, cfg.modes[j]? = some m → cfg.specs[j]? = some s →
    ∃ x p, cell t j i = some (some x) ∧ cell t0 j i = some (some p) ∧
      (m = 0 → x = p) ∧
      (m = 1 → inB x (lowOf s p, highOf s p) = true) ∧
      (m = 2 → ∃ ps : List Rat, (List.range n).map (cell t0 j) = ps.map (fun q => some (some q)) ∧
          inB x (minLow (ps.map (lowOf s)), maxHigh (ps.map (highOf s))) = true) ∧
      (3 ≤ m → ∃ cl ∈ clusters, i ∈ cl ∧ ∃ ps : List Rat,
          cl.map (cell t0 j) = ps.map (fun q => some (some q)) ∧
          inB x (minLow (ps.map (lowOf s)), maxHigh (ps.map (highOf s))) = true)

/-- the bound predicate for EVERY mode assignment of the model: at cluster level (no mode 2) the
row is judged with its own cluster, at global level with `RowFitOKG` -/
def RowFitOKAny (cfg : Cfg) (t0 t : Table) (clusters : List (List Nat)) (n i : Nat) : Prop :=
  if cfg.modes.any (fun m => decide (m = 2)) then RowFitOKG cfg t0 t clusters n i
  else ∃ cl ∈ clusters, i ∈ cl ∧ RowFitOK cfg t0 t cl i

theorem rowFitOKG_any {cfg : Cfg} {t0 t : Table} {clusters : List (List Nat)} {n i : Nat}
    (hlevel : cfg.modes.any (fun m => decide (m = 2)) = true)
    (h : RowFitOKG cfg t0 t clusters n i) : RowFitOKAny cfg t0 t clusters n i := by
  simp only [RowFitOKAny, hlevel, if_true]
  exact h

theorem rowFitOK_any_of_cluster {cfg : Cfg} {t0 t : Table} {clusters : List (List Nat)}
    {n i : Nat} (hlevel : cfg.modes.any (fun m => decide (m = 2)) = false) (cl : List Nat)
    (hmem : cl ∈ clusters) (hi : i ∈ cl) (h : RowFitOK cfg t0 t cl i) :
    RowFitOKAny cfg t0 t clusters n i := by
  simp only [RowFitOKAny, hlevel, Bool.false_eq_true, if_false]
  exact ⟨cl, hmem, hi, h⟩

/-- at cluster level the cluster-level predicate is the global-level one restricted to the modes
that occur (no column is in mode 2, and a shared column is shared within the row's cluster) -/
theorem rowFitOKG_of_cluster {cfg : Cfg} {t0 t : Table} {clusters : List (List Nat)} {n i : Nat}
    (hlevel : cfg.modes.any (fun m => decide (m = 2)) = false) (cl : List Nat)
    (hmem : cl ∈ clusters) (hi : i ∈ cl) (h : RowFitOK cfg t0 t cl i) :
    RowFitOKG cfg t0 t clusters n i := by
  intro j m s hm hs
  obtain ⟨x, p, a1, a2, a3, a4, a5⟩ := h j m s hm hs
  refine ⟨x, p, a1, a2, a3, a4, fun h2 => ?_, fun h3 => ⟨cl, hmem, hi, a5 (by omega)⟩⟩
  subst h2
  have : cfg.modes.any (fun m => decide (m = 2)) = true :=
    List.any_eq_true.mpr ⟨2, List.mem_of_getElem? hm, by simp⟩
  rw [hlevel] at this
  cases this

/-! ## what a successful global fit writes into one column -/

/-- `fitted_col` for an arbitrary grouping: the column of the table, the start column `c0`, the
column `c1` the last round overwrote and the written column `c'`, with `ColOK` between them -/
theorem fitted_col_any (groups : Option (List (List Nat))) (cfg : Cfg) (t : Table) (cl : List Nat)
    (block0 prev cols' : List (List Rat))
    (hsm : cfg.specs.length = cfg.modes.length) (hcols : t.cols.length = cfg.modes.length)
    (hex : extract t cl = someBlock block0) (hsh : Shape block0 prev)
    (hk1 : Kept cfg.modes block0 prev) (hk2 : Kept cfg.modes prev cols')
    (hok : ColsOK groups cfg.modes cfg.specs block0 prev cols') (j : Nat) (hj : j < t.cols.length) :
    ∃ m s c0 c1 c', cfg.modes[j]? = some m ∧ cfg.specs[j]? = some s ∧ block0[j]? = some c0 ∧
      cols'[j]? = some c' ∧ gather none t.cols[j] cl = c0.map some ∧ c'.length = cl.length ∧
      c0.length = cl.length ∧ c1.length = cl.length ∧ (m = 0 → c' = c0) ∧
      ColOK groups m s c0 c1 c' := by
  have hl0 : block0.length = t.cols.length := by
    have := congrArg List.length hex
    simpa [extract, someBlock] using this.symm
  have hl1 := (kept_length _ _ _ hk1).1
  have hl2 := (kept_length _ _ _ hk2).1
  have hm : cfg.modes[j]? = some cfg.modes[j] := List.getElem?_eq_getElem (by omega)
  have hs : cfg.specs[j]? = some cfg.specs[j] := List.getElem?_eq_getElem (by omega)
  have h0 : block0[j]? = some block0[j] := List.getElem?_eq_getElem (by omega)
  have h1 : prev[j]? = some prev[j] := List.getElem?_eq_getElem (by omega)
  have h' : cols'[j]? = some cols'[j] := List.getElem?_eq_getElem (by omega)
  have hg : gather none t.cols[j] cl = block0[j].map some := by
    have := congrArg (·[j]?) hex
    simp only [extract_getElem?, List.getElem?_eq_getElem hj, Option.map_some, someBlock,
      List.getElem?_map, h0, Option.some.injEq] at this
    exact this
  have hc0 : block0[j].length = cl.length := by
    have := congrArg List.length hg
    simpa [gather] using this.symm
  have hsl := shape_get _ _ j _ _ hsh h0 h1
  have hcol := colsOK_get groups _ _ _ _ _ j _ _ _ _ _ hok hm hs h0 h1 h'
  refine ⟨_, _, _, _, _, hm, hs, h0, h', hg, by rw [hcol.1]; omega, hc0, by omega,
    fun hm0 => ?_, hcol⟩
  have e1 := kept_get _ _ _ j _ _ hk1 (hm0 ▸ hm) h0 h1
  have e2 := kept_get _ _ _ j _ _ hk2 (hm0 ▸ hm) h1 h'
  rw [e2, e1]

/-! ## the one step of level 'global', at row level -/

/-- every row failed: cost NaN and the parameter values of the input -/
def AllFailed (n : Nat) (t0 t : Table) : Prop :=
  ∀ i, i < n → t.cost[i]? = some Cost.nan ∧ ∀ j, cell t j i = cell t0 j i

/-- every row fitted: ONE deviation `dev` reported by the optimiser is the cost of every row, and
every row satisfies the global bound predicate -/
def AllFitted (cfg : Cfg) (opt : Problem → OptOut) (n : Nat) (clusters : List (List Nat))
    (t0 t : Table) : Prop :=
  ∃ dev, (∃ pb x, opt pb = .ok x dev) ∧
    ∀ i, i < n → t.cost[i]? = some (costOf dev) ∧ RowFitOKG cfg t0 t clusters n i

/-- THE GLOBAL STEP, at row level.  `refineGlobal` on a well-formed table of `n` rows whose
clusters lie inside the table and cover it returns a well-formed table that is DECIDED AS A WHOLE:
either every row failed (cost NaN, values kept) or every row was fitted (same cost, the reported
deviation; every row within its bounds, the shared parameters within the packed bounds of the start
values of the rows that share them).  No `FiniteDev` here.

`hcover` is used only for columns in mode ≥ 3 (`cluster`): a row of no cluster keeps in such a
column the value of the previous round (`newCol`, `lastGroup = none`), which the block-level
`ColOK` does not relate to the start value.  `groupby(['frame', 'cluster'])` of the same table
always covers it. -/
theorem refineGlobal_decides (cfg : Cfg) (opt : Problem → OptOut) (hc : OptContract opt)
    (hsm : cfg.specs.length = cfg.modes.length) (n : Nat) (t t' : Table)
    (clusters : List (List Nat)) (hT : TableOK cfg n t)
    (hin : ∀ cl ∈ clusters, ∀ i ∈ cl, i < n) (hcover : ∀ i, i < n → ∃ cl ∈ clusters, i ∈ cl)
    (hrun : refineGlobal cfg opt t clusters = .ok t') :
    TableOK cfg n t' ∧ (AllFailed n t t' ∨ AllFitted cfg opt n clusters t t') := by
  obtain ⟨hT1, hT2, hT3⟩ := hT
  unfold refineGlobal at hrun
  simp only [hT1] at hrun
  split at hrun
  · simp at hrun
  · rename_i o hfit
    simp only [Except.ok.injEq] at hrun
    subst hrun
    have hnd : (List.range n).Nodup := List.nodup_range
    have hinr : ∀ i ∈ List.range n, i < n := fun i hi => List.mem_range.mp hi
    cases o with
    | failed =>
      refine ⟨⟨by simp [writeBack, scatter_length, hT1], hT2, hT3⟩, Or.inl fun i hi => ?_⟩
      exact writeBack_failed_rows t _ i (List.mem_range.mpr hi) (by omega)
    | fitted blk dev =>
      obtain ⟨block0, prev, cols', hex, hblk, hsh, hk1, hk2, hok, hdev⟩ :=
        fitBlock_fitted_kept cfg opt hc hsm (some clusters) _ 0 _ _ blk dev
          (by simp [extract, hT2]) hfit
      have hl0 : block0.length = t.cols.length := by
        have := congrArg List.length hex
        simpa [extract, someBlock] using this.symm
      have hl1 := (kept_length _ _ _ hk1).1
      have hl2 := (kept_length _ _ _ hk2).1
      have hbl : blk.length = t.cols.length := by rw [hblk]; simp [someBlock]; omega
      have hbw : ∀ b ∈ blk, b.length = (List.range n).length := by
        intro b hb
        rw [hblk] at hb
        obtain ⟨j, hj, rfl⟩ := List.getElem_of_mem hb
        have hj' : j < t.cols.length := by simp [someBlock] at hj; omega
        obtain ⟨m, s, c0, c1, c', _, _, _, e', _, hlen, _⟩ :=
          fitted_col_any (some clusters) cfg t _ block0 prev cols' hsm hT2 hex hsh hk1 hk2 hok j hj'
        have : (someBlock cols')[j] = c'.map some := by
          simp only [someBlock, List.getElem_map]
          have := List.getElem?_eq_getElem (l := cols') (i := j) (by omega)
          rw [e'] at this
          simp only [Option.some.injEq] at this
          rw [← this]
        rw [this]
        simpa using hlen
      refine ⟨⟨by simp [writeBack, scatter_length, hT1], ?_, ?_⟩, Or.inr ⟨dev, hdev, ?_⟩⟩
      · simp [writeBack, hbl, hT2]
      · intro c hcm
        simp only [writeBack] at hcm
        obtain ⟨j, hj, rfl⟩ := List.getElem_of_mem hcm
        simp only [List.getElem_zipWith, scatter_length]
        exact hT3 _ (List.getElem_mem _)
      · intro i hi
        have hk : i < (List.range n).length := by simpa using hi
        obtain ⟨hcost, hcell⟩ :=
          writeBack_rows_of_cluster t _ blk dev n hT1 hT3 hnd hinr hbl hbw i hk
        simp only [List.getElem_range] at hcost hcell
        refine ⟨hcost, fun j m s hm hs => ?_⟩
        have hj : j < t.cols.length := by
          have := (List.getElem?_eq_some_iff.mp hm).1
          omega
        obtain ⟨m', s', c0, c1, c', em, es, e0, e', hg, hlen', hlen0, hlen1, f0, fok⟩ :=
          fitted_col_any (some clusters) cfg t _ block0 prev cols' hsm hT2 hex hsh hk1 hk2 hok j hj
        rw [hm] at em
        rw [hs] at es
        simp only [Option.some.injEq] at em es
        subst em es
        simp only [List.length_range] at hlen' hlen0 hlen1
        have hcellt : ∀ r, r < n → cell t j r = some (t.cols[j].getD r none) := by
          intro r hr
          have : r < t.cols[j].length := by rw [hT3 _ (List.getElem_mem _)]; exact hr
          simp [cell, List.getElem?_eq_getElem hj, List.getD_eq_getElem?_getD, this]
        have hpr : ∀ r, r < n → t.cols[j].getD r none = some (c0.getD r 0) := by
          intro r hr
          have := congrArg (·[r]?) hg
          simpa [gather, hr, List.getElem?_eq_getElem (show r < c0.length by omega),
            List.getD_eq_getElem?_getD] using this
        have hcellp : ∀ r, r < n → cell t j r = some (some (c0.getD r 0)) := fun r hr => by
          rw [hcellt r hr, hpr r hr]
        have hmapcell : ∀ g : List Nat, (∀ r ∈ g, r < n) →
            g.map (cell t j) = (g.map (fun r => c0.getD r 0)).map (fun q => some (some q)) := by
          intro g hgr
          rw [List.map_map]
          exact List.map_congr_left (fun r hr => hcellp r (hgr r hr))
        have hx : c'.getD i 0 = c'[i] := by
          simp [List.getD_eq_getElem?_getD, List.getElem?_eq_getElem (show i < c'.length by omega)]
        have hp0 : c0.getD i 0 = c0[i] := by
          simp [List.getD_eq_getElem?_getD, List.getElem?_eq_getElem (show i < c0.length by omega)]
        refine ⟨c'[i], c0[i], ?_, ?_, fun h => by subst h; simp [f0 rfl], fun h => ?_, fun h => ?_,
          fun h => ?_⟩
        · rw [hcell j, hblk]
          simp [someBlock, e', List.getElem?_eq_getElem (show i < c'.length by omega)]
        · rw [hcellp i hi, hp0]
        · have := fok.2
          simp only [h, one_ne_zero, if_false, if_true] at this
          exact this.get (by omega) (by omega)
        · have := fok.2
          subst h
          simp only [groupsFor, if_true] at this
          simp only [show (2 : Nat) ≠ 0 by omega, show (2 : Nat) ≠ 1 by omega, if_false] at this
          obtain ⟨v, ev, hv⟩ := this
          refine ⟨c0, ?_, ?_⟩
          · rw [hmapcell _ hinr]
            congr 1
            apply List.ext_getElem
            · simp [hlen0]
            · intro r h1 h2
              simp only [List.length_map, List.length_range] at h1
              simp [List.getD_eq_getElem?_getD,
                List.getElem?_eq_getElem (show r < c0.length by omega)]
          · have : c'[i] = v := by simp [ev]
            rw [this]
            exact hv
        · have := fok.2
          have hne0 : m ≠ 0 := by omega
          have hne1 : m ≠ 1 := by omega
          have hne2 : m ≠ 2 := by omega
          simp only [hne0, hne1, hne2, groupsFor, if_false] at this
          obtain ⟨vs, hvs, ev⟩ := this
          cases hlg : lastGroup clusters i with
          | none => exact absurd hlg (lastGroup_ne_none clusters i (hcover i hi))
          | some k =>
            obtain ⟨hkl, hik⟩ := lastGroup_some clusters i k hlg
            have hgr := hin _ (List.getElem_mem hkl)
            have hvl : k < vs.length := by rw [hvs.length_eq]; exact hkl
            have hxk : c'[i] = vs[k] := by
              simp [ev, hlg, List.getD_eq_getElem?_getD, List.getElem?_eq_getElem hvl]
            refine ⟨clusters[k], List.getElem_mem hkl, hik, _, hmapcell _ hgr, ?_⟩
            have hb := hvs.get hvl hkl
            simp only [List.get_eq_getElem] at hb
            rw [hxk]
            have e1 : ∀ (f : Rat → B), clusters[k].map (fun r => (c0.map f).getD r default) =
                (clusters[k].map (fun r => c0.getD r 0)).map f := by
              intro f
              rw [List.map_map]
              apply List.map_congr_left
              intro r hr
              have : r < c0.length := by have := hgr r hr; omega
              simp [List.getD_eq_getElem?_getD, List.getElem?_eq_getElem this]
            rw [e1, e1] at hb
            exact hb

/-! ## (a), (b): the property's sentences about the OUTPUT TABLE, level 'global' -/

/-- level 'global' (some parameter in mode `global`): `refineCtl` is the single global call -/
theorem refineCtl_global_decides (cfg : Cfg) (opt : Problem → OptOut) (hc : OptContract opt)
    (hsm : cfg.specs.length = cfg.modes.length)
    (hlevel : cfg.modes.any (fun m => decide (m = 2)) = true) (n : Nat) (t t' : Table)
    (clusters : List (List Nat)) (hT : TableOK cfg n t)
    (hin : ∀ cl ∈ clusters, ∀ i ∈ cl, i < n) (hcover : ∀ i, i < n → ∃ cl ∈ clusters, i ∈ cl)
    (hrun : refineCtl cfg opt t clusters = .ok t') :
    TableOK cfg n t' ∧ (AllFailed n t t' ∨ AllFitted cfg opt n clusters t t') := by
  unfold refineCtl at hrun
  simp only [hlevel, if_true] at hrun
  exact refineGlobal_decides cfg opt hc hsm n t t' clusters hT hin hcover hrun

/-- (a) at level 'global', about the returned table, ASSUMING the optimiser's contract and
`FiniteDev`.  When some parameter is `global` and the run returns `t'`, then
* EITHER the whole fit failed: every row has cost NaN and its input value in every column,
* OR every row has THE SAME finite cost `r` and satisfies the bound predicate `RowFitOKG` against
  the input table — `const` unchanged, `var` within the bounds of its own start value, `global`
  within the packed bounds of the start values of all rows, `cluster` within the packed bounds of
  the start values of the rows of its cluster.
There is no mixed outcome: with a global parameter the whole table is one optimisation.
(`FiniteDev` only serves to make the cost of the second case a number; the dichotomy itself is
`refineCtl_global_decides`.) -/
theorem refine_rows_within_bounds_global (cfg : Cfg) (opt : Problem → OptOut)
    (hc : OptContract opt) (hfd : FiniteDev opt) (hsm : cfg.specs.length = cfg.modes.length)
    (hlevel : cfg.modes.any (fun m => decide (m = 2)) = true) (n : Nat) (t t' : Table)
    (clusters : List (List Nat)) (hT : TableOK cfg n t)
    (hin : ∀ cl ∈ clusters, ∀ i ∈ cl, i < n) (hcover : ∀ i, i < n → ∃ cl ∈ clusters, i ∈ cl)
    (hrun : refineCtl cfg opt t clusters = .ok t') :
    (∀ i, i < n → t'.cost[i]? = some Cost.nan ∧ ∀ j, cell t' j i = cell t j i) ∨
    (∃ r : Rat, ∀ i, i < n →
      t'.cost[i]? = some (Cost.val r) ∧ RowFitOKG cfg t t' clusters n i) := by
  rcases (refineCtl_global_decides cfg opt hc hsm hlevel n t t' clusters hT hin hcover hrun).2
    with h | ⟨dev, ⟨pb, x, hd⟩, h⟩
  · exact Or.inl h
  · cases dev with
    | none => exact absurd hd (hfd pb x)
    | some r => exact Or.inr ⟨r, h⟩

/-- (a), read off ONE row's cost (the form of `refine_rows_within_bounds`): a row whose output cost
is a number satisfies the bound predicate — and then so does every other row.  No `FiniteDev`. -/
theorem refine_numeric_cost_rows_within_bounds_global (cfg : Cfg) (opt : Problem → OptOut)
    (hc : OptContract opt) (hsm : cfg.specs.length = cfg.modes.length)
    (hlevel : cfg.modes.any (fun m => decide (m = 2)) = true) (n : Nat) (t t' : Table)
    (clusters : List (List Nat)) (hT : TableOK cfg n t)
    (hin : ∀ cl ∈ clusters, ∀ i ∈ cl, i < n) (hcover : ∀ i, i < n → ∃ cl ∈ clusters, i ∈ cl)
    (hrun : refineCtl cfg opt t clusters = .ok t') (i : Nat) (hi : i < n) (r : Rat)
    (hcost : t'.cost[i]? = some (Cost.val r)) :
    ∀ k, k < n → t'.cost[k]? = some (Cost.val r) ∧ RowFitOKG cfg t t' clusters n k := by
  rcases (refineCtl_global_decides cfg opt hc hsm hlevel n t t' clusters hT hin hcover hrun).2
    with h | ⟨dev, _, h⟩
  · have := (h i hi).1
    rw [hcost] at this
    cases this
  · have := (h i hi).1
    rw [hcost] at this
    have hd : costOf dev = Cost.val r := (Option.some.inj this).symm
    intro k hk
    exact ⟨hd ▸ (h k hk).1, (h k hk).2⟩

/-- the failed-fit clause at level 'global' (the form of `refine_failed_rows_keep_input`): under
`FiniteDev`, ONE row with cost NaN means the whole fit failed — EVERY row has cost NaN and its
input value in every column. -/
theorem refine_failed_rows_keep_input_global (cfg : Cfg) (opt : Problem → OptOut)
    (hc : OptContract opt) (hfd : FiniteDev opt) (hsm : cfg.specs.length = cfg.modes.length)
    (hlevel : cfg.modes.any (fun m => decide (m = 2)) = true) (n : Nat) (t t' : Table)
    (clusters : List (List Nat)) (hT : TableOK cfg n t)
    (hin : ∀ cl ∈ clusters, ∀ i ∈ cl, i < n) (hcover : ∀ i, i < n → ∃ cl ∈ clusters, i ∈ cl)
    (hrun : refineCtl cfg opt t clusters = .ok t') (i : Nat) (hi : i < n)
    (hcost : t'.cost[i]? = some Cost.nan) :
    ∀ k, k < n → t'.cost[k]? = some Cost.nan ∧ ∀ j, cell t' j k = cell t j k := by
  rcases (refineCtl_global_decides cfg opt hc hsm hlevel n t t' clusters hT hin hcover hrun).2
    with h | ⟨dev, ⟨pb, x, hd⟩, h⟩
  · exact h
  · have := (h i hi).1
    rw [hcost] at this
    have hn := costOf_ne_val_of_nan (Option.some.inj this).symm
    subst hn
    exact absurd hd (hfd pb x)

/-- (b) at level 'global': no third case, no row lost or added.  The returned table has the same
`n` rows in the same columns, and EVERY row either has a numeric cost and satisfies the bound
predicate, or has cost NaN and its input values. -/
theorem refine_every_row_decided_global (cfg : Cfg) (opt : Problem → OptOut)
    (hc : OptContract opt) (hfd : FiniteDev opt) (hsm : cfg.specs.length = cfg.modes.length)
    (hlevel : cfg.modes.any (fun m => decide (m = 2)) = true) (n : Nat) (t t' : Table)
    (clusters : List (List Nat)) (hT : TableOK cfg n t)
    (hin : ∀ cl ∈ clusters, ∀ i ∈ cl, i < n) (hcover : ∀ i, i < n → ∃ cl ∈ clusters, i ∈ cl)
    (hrun : refineCtl cfg opt t clusters = .ok t') :
    TableOK cfg n t' ∧ t'.cols.length = t.cols.length ∧
    ∀ i, i < n →
      (∃ r, t'.cost[i]? = some (Cost.val r) ∧ RowFitOKG cfg t t' clusters n i) ∨
      (t'.cost[i]? = some Cost.nan ∧ ∀ j, cell t' j i = cell t j i) := by
  have hT' := (refineCtl_global_decides cfg opt hc hsm hlevel n t t' clusters hT hin hcover hrun).1
  refine ⟨hT', by rw [hT'.2.1, hT.2.1], fun i hi => ?_⟩
  rcases refine_rows_within_bounds_global cfg opt hc hfd hsm hlevel n t t' clusters hT hin hcover
    hrun with h | ⟨r, h⟩
  · exact Or.inr (h i hi)
  · exact Or.inl ⟨r, h i hi⟩

/-- (b) for EVERY mode assignment the model covers (`refineCtl` dispatches on "some mode is 2";
so does this theorem): when the clusters are distinct positions inside the table, pairwise disjoint
and cover it, the returned table has the same `n` rows in the same columns and EVERY row either has
a numeric cost and satisfies the bound predicate of its level (`RowFitOKAny`: at cluster level
`RowFitOK` with its own cluster, at global level `RowFitOKG`), or has cost NaN and its input values
in every column. -/
theorem refine_every_row_decided_any (cfg : Cfg) (opt : Problem → OptOut) (hc : OptContract opt)
    (hfd : FiniteDev opt) (hsm : cfg.specs.length = cfg.modes.length) (n : Nat) (t t' : Table)
    (clusters : List (List Nat)) (hT : TableOK cfg n t) (hcl : ClustersOK n clusters)
    (hcover : ∀ i, i < n → ∃ cl ∈ clusters, i ∈ cl)
    (hrun : refineCtl cfg opt t clusters = .ok t') :
    TableOK cfg n t' ∧ t'.cols.length = t.cols.length ∧
    ∀ i, i < n →
      (∃ r, t'.cost[i]? = some (Cost.val r) ∧ RowFitOKAny cfg t t' clusters n i) ∨
      (t'.cost[i]? = some Cost.nan ∧ ∀ j, cell t' j i = cell t j i) := by
  cases hlevel : cfg.modes.any (fun m => decide (m = 2)) with
  | true =>
    obtain ⟨h1, h2, h3⟩ := refine_every_row_decided_global cfg opt hc hfd hsm hlevel n t t' clusters
      hT hcl.inRange hcover hrun
    refine ⟨h1, h2, fun i hi => ?_⟩
    rcases h3 i hi with ⟨r, hr, hok⟩ | h
    · exact Or.inl ⟨r, hr, rowFitOKG_any hlevel hok⟩
    · exact Or.inr h
  | false =>
    obtain ⟨h1, h2, h3⟩ := refine_every_row_decided cfg opt hc hfd hsm hlevel n t t' clusters
      hT hcl hcover hrun
    refine ⟨h1, h2, fun i hi => ?_⟩
    rcases h3 i hi with ⟨r, hr, cl, hmem, hicl, hok⟩ | h
    · exact Or.inl ⟨r, hr, rowFitOK_any_of_cluster hlevel cl hmem hicl hok⟩
    · exact Or.inr h

/-! ## witness and non-vacuity -/

/-- `demoCfg` with `size` GLOBAL (mode 2); `background` stays per cluster (mode 3) -/
def globalCfg : Cfg := { demoCfg with modes := [3, 1, 1, 1, 2] }

/-- a 3-row table entirely inside the 40x50 image: rows 0 and 2 form a dimer, row 1 is a single -/
def rowsTableIn : Table :=
  { cols := [[some 0, some 0, some 0], [some 180, some 180, some 170],
             [some 15, some 15, some 18], [some 30, some 40, some 33],
             [some 2, some 3, some 2]],
    cost := [Cost.unset, Cost.unset, Cost.unset] }

theorem rowsTableIn_ok : TableOK globalCfg 3 rowsTableIn := by
  refine ⟨by decide, by decide, ?_⟩
  intro c hc
  simp [rowsTableIn] at hc
  rcases hc with rfl | rfl | rfl | rfl | rfl <;> rfl

theorem rowsTable_ok_global : TableOK globalCfg 3 rowsTable := by
  refine ⟨by decide, by decide, ?_⟩
  intro c hc
  simp [rowsTable] at hc
  rcases hc with rfl | rfl | rfl | rfl | rfl <;> rfl

/-- NON-VACUITY of (a)/(b) at level 'global': every hypothesis holds for the dimer `[0, 2]` + single
`[1]` with `size` global under `clampOpt (some 1/100)`, and the run SUCCEEDS: all three rows are
written and carry the same cost 1/100; the global `size` column has ONE value for the three rows,
the per-cluster `background` one value per cluster. -/
example :
    OptContract (clampOpt (some (1/100))) ∧ FiniteDev (clampOpt (some (1/100))) ∧
    globalCfg.specs.length = globalCfg.modes.length ∧
    globalCfg.modes.any (fun m => decide (m = 2)) = true ∧
    TableOK globalCfg 3 rowsTableIn ∧ ClustersOK 3 [[0, 2], [1]] ∧
    (∀ i, i < 3 → ∃ cl ∈ [[0, 2], [1]], i ∈ cl) ∧
    refineCtl globalCfg (clampOpt (some (1/100))) rowsTableIn [[0, 2], [1]] =
      .ok { cols := [[some (1/10000000), some (1/10000000), some (1/10000000)],
                     [some (1/10000000), some (1/10000000), some (1/10000000)],
                     [some 10, some 10, some 13], [some 25, some 35, some 28],
                     [some (1/10000000), some (1/10000000), some (1/10000000)]],
            cost := [Cost.val (1/100), Cost.val (1/100), Cost.val (1/100)] } := by
  refine ⟨clampOpt_contract _, clampOpt_finiteDev _, by decide, by decide, rowsTableIn_ok, ?_, ?_,
    ?_⟩
  · refine ⟨by decide, by decide, ?_⟩
    simp [List.Disjoint]
  · decide
  · decide +kernel

/-- … and the conclusions of (a) and of the all-modes (b) on it -/
example (t' : Table)
    (h : refineCtl globalCfg (clampOpt (some (1/100))) rowsTableIn [[0, 2], [1]] = .ok t') :
    ((∀ i, i < 3 → t'.cost[i]? = some Cost.nan ∧ ∀ j, cell t' j i = cell rowsTableIn j i) ∨
      (∃ r : Rat, ∀ i, i < 3 →
        t'.cost[i]? = some (Cost.val r) ∧ RowFitOKG globalCfg rowsTableIn t' [[0, 2], [1]] 3 i)) ∧
    ∀ i, i < 3 →
      (∃ r, t'.cost[i]? = some (Cost.val r) ∧
        RowFitOKAny globalCfg rowsTableIn t' [[0, 2], [1]] 3 i) ∨
      (t'.cost[i]? = some Cost.nan ∧ ∀ j, cell t' j i = cell rowsTableIn j i) :=
  ⟨refine_rows_within_bounds_global globalCfg _ (clampOpt_contract _) (clampOpt_finiteDev _)
      (by decide) (by decide) 3 rowsTableIn t' [[0, 2], [1]] rowsTableIn_ok (by decide) (by decide) h,
    (refine_every_row_decided_any globalCfg _ (clampOpt_contract _) (clampOpt_finiteDev _)
      (by decide) 3 rowsTableIn t' [[0, 2], [1]] rowsTableIn_ok
      ⟨by decide, by decide, by simp [List.Disjoint]⟩ (by decide) h).2.2⟩

/-- WITNESS: with a global parameter ONE failing feature makes EVERY row fail.  `rowsTable` is the
table of `C16Rows`'s non-vacuity example: rows 0 and 2 form a dimer inside the image, row 1 is a
single whose start (x = 70) is outside it.  At cluster level (`demoCfg`, `size` constant) the dimer
is fitted and only row 1 fails; with `size` GLOBAL (`globalCfg`), same table, same clusters, same
optimiser, `prepare_subimages` raises for the single's cluster and ALL THREE rows come back with
cost NaN and their input values.  This is not a defect of the model: it is what the code does — at
level 'global' `iterable = [(None, f)]`, the whole table is ONE optimisation, and its `except
RefineException` sets `f['cost'] = np.nan` for all of `f` (least_squares.py L895-917). -/
theorem global_one_fails_all_witness :
    OptContract (clampOpt (some (1/100))) ∧ FiniteDev (clampOpt (some (1/100))) ∧
    TableOK globalCfg 3 rowsTable ∧ ClustersOK 3 [[0, 2], [1]] ∧
    refineCtl demoCfg (clampOpt (some (1/100))) rowsTable [[0, 2], [1]] =
      .ok { cols := [[some (1/10000000), some 0, some (1/10000000)],
                     [some (1/10000000), some 180, some (1/10000000)],
                     [some 10, some 15, some 13], [some 25, some 70, some 28],
                     [some 2, some 2, some 2]],
            cost := [Cost.val (1/100), Cost.nan, Cost.val (1/100)] } ∧
    refineCtl globalCfg (clampOpt (some (1/100))) rowsTable [[0, 2], [1]] =
      .ok { rowsTable with cost := [Cost.nan, Cost.nan, Cost.nan] } := by
  refine ⟨clampOpt_contract _, clampOpt_finiteDev _, rowsTable_ok_global,
    ⟨by decide, by decide, by simp [List.Disjoint]⟩, by decide +kernel, by decide +kernel⟩

end TrackpyV.Bounds
