import TrackpyV.Props.C20
import Mathlib.Tactic.Linarith
/-
C20, invariances (X50).  The harness exercises the filters metamorphically (shuffled rows, renamed
trajectory ids, shifted frame numbers, rescaled sizes, a sweep of thresholds); these theorems say
what the MODEL guarantees under those changes of representation, for every table.

 (a) row order       `filterStubs_perm`, `filterStubs_perm_kept`, `filterClusters_perm`, `…_perm_kept`
                     (the model keeps the input order - `filterStubs_sublist` - so a permuted input
                     gives the correspondingly permuted output: `List.Perm` in, `List.Perm` out, and
                     for a concrete permutation `filterStubs_perm_filter`: the output is the permuted
                     table filtered with the ORIGINAL table's predicate)
 (b) representation  `filterStubs_particle_relabel` (injective renaming; FALSE for a merging renaming:
                     `filterStubs_relabel_noninjective_witness`), `filterStubs_frame_renumber`,
                     `filterStubs_frame_blind` (the count is the number of ROWS of the trajectory, not
                     of distinct frames: ANY rewriting of the frame column commutes, a constant shift
                     is a special case; `obs_counts_rows_witness`)
 (c) clusters        `filterClusters_perm`, `filterClusters_particle_relabel`,
                     `filterClusters_frame_renumber`, `filterClusters_size_unit` (c > 0; for c < 0
                     false: `filterClusters_size_unit_negative_witness`)
 (d) thresholds      `filterStubs_monotone`, `filterClusters_monotone`, and the stronger
                     `filterStubs_compose` (filtering at thr then at thr' ≥ thr = filtering at thr')
 (e) non-vacuity     `example`s on the 6-row `demo` table of Props/C20
-/

namespace TrackpyV.Filter

/-! ### a general transport lemma for the group-wise filter -/

/-- If `g` rewrites rows so that the trajectory id is renamed injectively (`f`), and the predicate
`pred'` on rewritten groups agrees with `pred` on the original groups, then the group-wise filter
commutes with the rewriting. -/
theorem gfilter_map (pred pred' : List Row → Bool) (g : Row → Row) (f : Int → Int)
    (hf : ∀ a b, f a = f b → a = b) (hg : ∀ r, (g r).particle = f r.particle)
    (hp : ∀ l, pred' (l.map g) = pred l) (rows : List Row) :
    gfilter pred' (rows.map g) = (gfilter pred rows).map g := by
  have hgroup : ∀ p, group (f p) (rows.map g) = (group p rows).map g := by
    intro p
    unfold group
    rw [List.filter_map]
    congr 1
    apply List.filter_congr
    intro r _
    simp only [Function.comp, hg]
    by_cases h : r.particle = p
    · subst h; simp
    · have : f r.particle ≠ f p := fun e => h (hf _ _ e)
      simp [h, this]
  rw [gfilter_eq, gfilter_eq, List.filter_map]
  congr 1
  apply List.filter_congr
  intro r _
  simp only [Function.comp, hg, hgroup, hp]

theorem sumSize_perm {l l' : List Row} (h : l.Perm l') : sumSize l = sumSize l' := by
  induction h with
  | nil => rfl
  | cons x _ ih => simp [sumSize, ih]
  | swap x y l => simp only [sumSize]; rw [← Rat.add_assoc, ← Rat.add_assoc, Rat.add_comm y.size]
  | trans _ _ ih1 ih2 => exact ih1.trans ih2

theorem group_perm (p : Int) {rows rows' : List Row} (h : rows.Perm rows') :
    (group p rows).Perm (group p rows') := h.filter _

theorem obs_perm (p : Int) {rows rows' : List Row} (h : rows.Perm rows') :
    obs p rows = obs p rows' := by
  unfold obs count; rw [(group_perm p h).length_eq]

theorem trajMean_perm (p : Int) {rows rows' : List Row} (h : rows.Perm rows') :
    trajMean p rows = trajMean p rows' := by
  unfold trajMean meanSize
  rw [(group_perm p h).length_eq, sumSize_perm (group_perm p h)]

/-! ## (a) row order -/

/-- the output for a permuted table is the permuted table filtered with the ORIGINAL table's
per-trajectory counts: the same rows are kept, at the places the permutation moved them to -/
theorem filterStubs_perm_filter (thr : Int) {rows rows' : List Row} (h : rows.Perm rows') :
    filterStubs thr rows' = rows'.filter (fun r => decide (thr ≤ obs r.particle rows)) := by
  rw [filterStubs_exact]
  apply List.filter_congr
  intro r _
  rw [obs_perm r.particle h]

/-- ROW ORDER: permuting the rows of the table permutes the result accordingly -/
theorem filterStubs_perm (thr : Int) {rows rows' : List Row} (h : rows.Perm rows') :
    (filterStubs thr rows).Perm (filterStubs thr rows') := by
  rw [filterStubs_perm_filter thr h, filterStubs_exact]
  exact h.filter _

theorem mem_keptKeys (pred : List Row → Bool) (rows : List Row) (p : Int) :
    p ∈ keptKeys pred rows ↔ (∃ r ∈ rows, r.particle = p) ∧ pred (group p rows) = true := by
  unfold keptKeys
  rw [List.mem_filter, mem_keys]

/-- the set of kept trajectories does not depend on the row order -/
theorem filterStubs_perm_kept (thr : Int) {rows rows' : List Row} (h : rows.Perm rows') (p : Int) :
    p ∈ keptKeys (fun g => decide (thr ≤ count g)) rows ↔
    p ∈ keptKeys (fun g => decide (thr ≤ count g)) rows' := by
  rw [mem_keptKeys, mem_keptKeys]
  have e : count (group p rows) = count (group p rows') := obs_perm p h
  rw [e]
  constructor
  · rintro ⟨⟨r, hr, e⟩, hp⟩; exact ⟨⟨r, h.mem_iff.mp hr, e⟩, hp⟩
  · rintro ⟨⟨r, hr, e⟩, hp⟩; exact ⟨⟨r, h.mem_iff.mpr hr, e⟩, hp⟩

theorem filterClusters_perm_filter (cut : Rat) {rows rows' : List Row} (h : rows.Perm rows') :
    filterClusters cut rows' = rows'.filter (fun r => decide (trajMean r.particle rows < cut)) := by
  rw [filterClusters_exact]
  apply List.filter_congr
  intro r _
  rw [trajMean_perm r.particle h]

theorem filterClusters_perm (cut : Rat) {rows rows' : List Row} (h : rows.Perm rows') :
    (filterClusters cut rows).Perm (filterClusters cut rows') := by
  rw [filterClusters_perm_filter cut h, filterClusters_exact]
  exact h.filter _

theorem filterClusters_perm_kept (cut : Rat) {rows rows' : List Row} (h : rows.Perm rows')
    (p : Int) :
    p ∈ keptKeys (fun g => decide (meanSize g < cut)) rows ↔
    p ∈ keptKeys (fun g => decide (meanSize g < cut)) rows' := by
  rw [mem_keptKeys, mem_keptKeys]
  have e : meanSize (group p rows) = meanSize (group p rows') := trajMean_perm p h
  rw [e]
  constructor
  · rintro ⟨⟨r, hr, e⟩, hp⟩; exact ⟨⟨r, h.mem_iff.mp hr, e⟩, hp⟩
  · rintro ⟨⟨r, hr, e⟩, hp⟩; exact ⟨⟨r, h.mem_iff.mpr hr, e⟩, hp⟩

/-! ## (b) representation of trajectory ids and frame numbers -/

/-- rename every trajectory id -/
def relabel (f : Int → Int) (rows : List Row) : List Row :=
  rows.map (fun r => { r with particle := f r.particle })

/-- rewrite every frame number (row-wise, arbitrary) -/
def reframe (h : Row → Int) (rows : List Row) : List Row :=
  rows.map (fun r => { r with frame := h r })

/-- add a constant to every frame number -/
def shiftFrames (k : Int) (rows : List Row) : List Row := reframe (fun r => r.frame + k) rows

/-- multiply every size by `c` -/
def scaleSizes (c : Rat) (rows : List Row) : List Row :=
  rows.map (fun r => { r with size := c * r.size })

theorem sumSize_map_of_size (g : Row → Row) (hg : ∀ r, (g r).size = r.size) (l : List Row) :
    sumSize (l.map g) = sumSize l := by
  induction l with
  | nil => rfl
  | cons r rs ih => simp [sumSize, ih, hg]

theorem meanSize_map_of_size (g : Row → Row) (hg : ∀ r, (g r).size = r.size) (l : List Row) :
    meanSize (l.map g) = meanSize l := by
  unfold meanSize; rw [sumSize_map_of_size g hg, List.length_map]

/-- PARTICLE RELABEL: an injective renaming of the trajectory ids commutes with the filter -/
theorem filterStubs_particle_relabel (thr : Int) (f : Int → Int) (hf : ∀ a b, f a = f b → a = b)
    (rows : List Row) :
    filterStubs thr (relabel f rows) = relabel f (filterStubs thr rows) :=
  gfilter_map (fun g => decide (thr ≤ count g)) (fun g => decide (thr ≤ count g))
    (fun r => { r with particle := f r.particle }) f hf (fun _ => rfl)
    (fun l => by unfold count; rw [List.length_map]) rows

/-- FRAME-BLIND: the count is the number of ROWS of the trajectory; the frame values are never
read, so ANY rewriting of the frame column commutes with the filter -/
theorem filterStubs_frame_blind (thr : Int) (h : Row → Int) (rows : List Row) :
    filterStubs thr (reframe h rows) = reframe h (filterStubs thr rows) :=
  gfilter_map (fun g => decide (thr ≤ count g)) (fun g => decide (thr ≤ count g))
    (fun r => { r with frame := h r }) id (fun _ _ e => e) (fun _ => rfl)
    (fun l => by unfold count; rw [List.length_map]) rows

/-- FRAME RENUMBER: adding a constant to every frame number commutes with the filter -/
theorem filterStubs_frame_renumber (thr k : Int) (rows : List Row) :
    filterStubs thr (shiftFrames k rows) = shiftFrames k (filterStubs thr rows) :=
  filterStubs_frame_blind thr _ rows

/-! ## (c) the same for `filterClusters`, and the unit of `size` -/

theorem filterClusters_particle_relabel (cut : Rat) (f : Int → Int)
    (hf : ∀ a b, f a = f b → a = b) (rows : List Row) :
    filterClusters cut (relabel f rows) = relabel f (filterClusters cut rows) :=
  gfilter_map (fun g => decide (meanSize g < cut)) (fun g => decide (meanSize g < cut))
    (fun r => { r with particle := f r.particle }) f hf (fun _ => rfl)
    (fun l => by
      rw [meanSize_map_of_size (fun r => { r with particle := f r.particle }) (fun _ => rfl)]) rows

theorem filterClusters_frame_blind (cut : Rat) (h : Row → Int) (rows : List Row) :
    filterClusters cut (reframe h rows) = reframe h (filterClusters cut rows) :=
  gfilter_map (fun g => decide (meanSize g < cut)) (fun g => decide (meanSize g < cut))
    (fun r => { r with frame := h r }) id (fun _ _ e => e) (fun _ => rfl)
    (fun l => by
      rw [meanSize_map_of_size (fun r => { r with frame := h r }) (fun _ => rfl)]) rows

theorem filterClusters_frame_renumber (cut : Rat) (k : Int) (rows : List Row) :
    filterClusters cut (shiftFrames k rows) = shiftFrames k (filterClusters cut rows) :=
  filterClusters_frame_blind cut _ rows

theorem sumSize_scale (c : Rat) (l : List Row) :
    sumSize (l.map (fun r => { r with size := c * r.size })) = c * sumSize l := by
  induction l with
  | nil => simp [sumSize]
  | cons r rs ih => simp only [List.map_cons, sumSize, ih]; rw [Rat.mul_add]

theorem meanSize_scale (c : Rat) (l : List Row) :
    meanSize (l.map (fun r => { r with size := c * r.size })) = c * meanSize l := by
  unfold meanSize; rw [sumSize_scale, List.length_map, mul_div_assoc]

/-- SIZE UNIT: multiplying every size and the cut by the same positive rational commutes -/
theorem filterClusters_size_unit (c : Rat) (hc : 0 < c) (cut : Rat) (rows : List Row) :
    filterClusters (c * cut) (scaleSizes c rows) = scaleSizes c (filterClusters cut rows) :=
  gfilter_map (fun g => decide (meanSize g < cut)) (fun g => decide (meanSize g < c * cut))
    (fun r => { r with size := c * r.size }) id (fun _ _ e => e) (fun _ => rfl)
    (fun l => by
      rw [meanSize_scale]
      by_cases h : meanSize l < cut
      · have : c * meanSize l < c * cut := by nlinarith
        simp [h, this]
      · have : ¬ c * meanSize l < c * cut := by
          intro h'; apply h; nlinarith
        simp [h, this]) rows

/-! ## (d) thresholds -/

theorem filter_sublist_of_imp {α} (p q : α → Bool) (hpq : ∀ a, p a = true → q a = true)
    (l : List α) : (l.filter p).Sublist (l.filter q) := by
  induction l with
  | nil => exact List.Sublist.slnil
  | cons a as ih =>
    by_cases hp : p a = true
    · simp only [List.filter_cons, hp, hpq a hp, if_true]; exact ih.cons_cons a
    · have hp' : p a = false := by simpa using hp
      by_cases hq : q a = true
      · simp only [List.filter_cons, hp', hq, if_true]; exact (ih.cons a)
      · have hq' : q a = false := by simpa using hq
        simp only [List.filter_cons, hp', hq']; exact ih

/-- a larger threshold keeps a sub-list of what a smaller one keeps -/
theorem filterStubs_monotone {thr thr' : Int} (h : thr ≤ thr') (rows : List Row) :
    (filterStubs thr' rows).Sublist (filterStubs thr rows) := by
  rw [filterStubs_exact, filterStubs_exact]
  apply filter_sublist_of_imp
  intro r hr
  have : thr' ≤ obs r.particle rows := by simpa using hr
  simpa using Int.le_trans h this

/-- filtering at `thr` and then at a larger `thr'` is filtering at `thr'` -/
theorem filterStubs_compose {thr thr' : Int} (h : thr ≤ thr') (rows : List Row) :
    filterStubs thr' (filterStubs thr rows) = filterStubs thr' rows := by
  rw [filterStubs_exact thr' (filterStubs thr rows), filterStubs_exact thr rows,
    filterStubs_exact thr' rows, List.filter_filter]
  apply List.filter_congr
  intro r _
  rw [← filterStubs_exact thr rows]
  have hg : obs r.particle (filterStubs thr rows)
      = if thr ≤ obs r.particle rows then obs r.particle rows else 0 := by
    unfold obs; rw [filterStubs_group]; unfold obs
    split <;> simp [count]
  rw [hg]
  by_cases h1 : thr ≤ obs r.particle rows
  · simp [h1]
  · have h2 : ¬ thr' ≤ obs r.particle rows := fun h2 => h1 (Int.le_trans h h2)
    simp [h1, h2]

/-- a smaller cut keeps a sub-list of what a larger one keeps -/
theorem filterClusters_monotone {cut cut' : Rat} (h : cut ≤ cut') (rows : List Row) :
    (filterClusters cut rows).Sublist (filterClusters cut' rows) := by
  rw [filterClusters_exact, filterClusters_exact]
  apply filter_sublist_of_imp
  intro r hr
  have : trajMean r.particle rows < cut := by simpa using hr
  simpa using lt_of_lt_of_le this h

/-! ## (e) non-vacuity and sharpness, on the 6-row `demo` table of Props/C20 -/

example : (filterStubs 2 demo.reverse).map (·.rid) = [5, 4, 3, 2, 0] := by decide
example : (filterStubs 2 (relabel (fun p => 10 - p) demo)).map (fun r => (r.particle, r.rid))
    = [(5, 0), (5, 2), (8, 3), (8, 4), (8, 5)] := by decide
example : (filterStubs 3 (shiftFrames 100 demo)).map (fun r => (r.frame, r.rid))
    = [(100, 3), (101, 4), (102, 5)] := by decide
example : (filterClusters 10 (scaleSizes 2 demo)).map (·.rid) = [1, 3, 4, 5] := by decide +kernel
example : (filterStubs 3 demo).map (·.rid) = [3, 4, 5] ∧
    (filterStubs 2 demo).map (·.rid) = [0, 2, 3, 4, 5] := by decide
example : (filterClusters (7/3) demo).map (·.rid) = [1] ∧
    (filterClusters 5 demo).map (·.rid) = [1, 3, 4, 5] := by decide +kernel

/-- injectivity is needed: merging trajectories 5 (2 rows) and 7 (1 row) makes a 3-row one -/
theorem filterStubs_relabel_noninjective_witness :
    filterStubs 3 (relabel (fun p => if p = 7 then 5 else p) demo)
      ≠ relabel (fun p => if p = 7 then 5 else p) (filterStubs 3 demo) := by decide

/-- the count is of rows, not of distinct frames: two rows of one trajectory in the same frame
count twice -/
theorem obs_counts_rows_witness :
    filterStubs 2 [⟨0, 1, 1, 0⟩, ⟨0, 1, 1, 1⟩] = [⟨0, 1, 1, 0⟩, ⟨0, 1, 1, 1⟩] := by decide

/-- positivity is needed: a negative unit reverses the comparison -/
theorem filterClusters_size_unit_negative_witness :
    filterClusters ((-1) * 5) (scaleSizes (-1) demo) ≠ scaleSizes (-1) (filterClusters 5 demo) := by
  decide +kernel

end TrackpyV.Filter
