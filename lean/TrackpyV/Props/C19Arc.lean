import TrackpyV.Props.C19
import TrackpyV.Proofs.Arc
/-!
# C19 (continued) — the 2-D edge correction is the true arc length inside the box

Clause: "the edge correction equals the true length (2D) … of the part of the circle … inside the
bounding box".  Anchors: `circle_cap_arclen`, `circle_corner_arclen`, `arclen_2d_bounded`
(trackpy/static.py:264-277, 322-342).

Setting.  The centre `(x, y)` lies in the closed box `[x0, x1] × [y0, y1]`; its distances to the
left / right / bottom / top side are `hL = x - x0`, `hR = x1 - x`, `hB = y - y0`, `hT = y1 - y`
(the rows `h[0..3]` of the code), all `≥ 0`.  A direction is an angle `θ ∈ (-π, π]`; its point is
`(x + r cos θ, y + r sin θ)`.  `capArclen`, `cornerArclen`, `arclen2d` (Proofs/Arc.lean) are the
code's three formulas over `ℝ` with the code's masks and argument order; the driver executes the
same expressions over `Float` (Model/Arc.lean) and every run compares them with the real code.

* a side at distance `h` cuts off the open interval of directions `|θ| < arccos (h/r)`
  (`cap_angles`, `cap_set`, `cap_length`; the other three sides: `cap_angles_top/bottom/left`);
* two adjacent sides cut off, in common, the open interval `(arcsin (h2/r), arccos (h1/r))`
  (`corner_angles`, `corner_set`), non-empty exactly when the corner is strictly inside the circle
  (`corner_nonempty_iff`, `adjacent_overlap_iff`), of length = the code's corner formula
  (`corner_length`, by `arccos x − arcsin y = arccos y − arcsin x`);
* caps of opposite sides never overlap as soon as the box has non-negative width
  (`opposite_disjoint`) — so inclusion–exclusion stops at the pairwise adjacent terms;
* `arclen_inclusion_exclusion`: the set of directions whose point lies in the box is the union of
  four non-overlapping closed intervals (one per quadrant), and `r` times their total length is
  exactly `arclen2d` — for EVERY radius `r > 0` and every centre in the closed box (no upper bound
  on `r`: the formula is exact on the whole domain `h ≥ 0`, also when the circle swallows one or
  all corners, where it returns 0).

The NaN guard `arclen < 1e-5 * dist → NaN` (static.py:341) is a numerical threshold outside these
statements (modelled as `arc = none` in Model/Static.lean; mirrored in Model/Arc.lean).
The 3-D analogue (`area_3d_bounded`) is NOT proved (see obligations/C19.json "partial").
-/
namespace TrackpyV.Arc
open Real

variable {r h h1 h2 hL hR hB hT θ : ℝ}

/-! ### caps -/

/-- **Cap.**  For a side at (signed) distance `h ≥ -r` from the centre in the direction `θ = 0`,
the direction `θ ∈ (-π, π]` points beyond that side iff `|θ| < arccos (h / r)`.
(For `h ≥ r` both sides are false: the side is not reached, `arccos = 0`.) -/
theorem cap_angles (hr : 0 < r) (hh : -r ≤ h) (h0 : -π < θ) (h1 : θ ≤ π) :
    h < r * cos θ ↔ |θ| < arccos (h / r) := by
  rw [← cos_abs θ]
  exact lt_cos_iff hr hh (abs_nonneg θ) (abs_le.2 ⟨h0.le, h1⟩)

/-- the directions cut off by a side form the open interval `(-arccos (h/r), arccos (h/r))` -/
theorem cap_set (hr : 0 < r) (hh : -r ≤ h) :
    {θ : ℝ | -π < θ ∧ θ ≤ π ∧ h < r * cos θ} = Set.Ioo (-arccos (h / r)) (arccos (h / r)) := by
  ext θ
  simp only [Set.mem_ofPred_eq, Set.mem_Ioo]
  constructor
  · rintro ⟨h0, h1, hc⟩
    exact abs_lt.1 ((cap_angles hr hh h0 h1).1 hc)
  · rintro ⟨ha, hb⟩
    have hp := arccos_le_pi (h / r)
    have h0 : -π < θ := by linarith
    have h1 : θ ≤ π := by linarith
    exact ⟨h0, h1, (cap_angles hr hh h0 h1).2 (abs_lt.2 ⟨ha, hb⟩)⟩

/-- … whose arc length is `circle_cap_arclen h r` -/
theorem cap_length : r * (arccos (h / r) - -arccos (h / r)) = capArclen h r := by
  unfold capArclen; ring

/-- auxiliary: the cap criterion for an angle measured from the normal of the side, valid up to
`|φ| ≤ 3π/2` when `h ≥ 0` -/
theorem cap_angles_wide {φ : ℝ} (hr : 0 < r) (hh : 0 ≤ h) (hφ : |φ| ≤ π + π / 2) :
    h < r * cos φ ↔ |φ| < arccos (h / r) := by
  rw [← cos_abs φ]
  by_cases hp : |φ| ≤ π
  · exact lt_cos_iff hr (by linarith) (abs_nonneg φ) hp
  · have hp := not_le.1 hp
    have hc : cos |φ| ≤ 0 :=
      cos_nonpos_of_pi_div_two_le_of_le (by linarith [pi_pos]) hφ
    have h1 : r * cos |φ| ≤ 0 := mul_nonpos_of_nonneg_of_nonpos hr.le hc
    have h2 := arccos_le_pi (h / r)
    constructor
    · intro h'; linarith
    · intro h'; linarith

/-- top side (`y + r sin θ > y1`): the interval of half-width `arccos (h/r)` around `π/2` -/
theorem cap_angles_top (hr : 0 < r) (hh : 0 ≤ h) (h0 : -π < θ) (h1 : θ ≤ π) :
    h < r * sin θ ↔ |θ - π / 2| < arccos (h / r) := by
  rw [← cos_sub_pi_div_two θ]
  exact cap_angles_wide hr hh (abs_le.2 ⟨by linarith, by linarith [pi_pos]⟩)

/-- bottom side (`y + r sin θ < y0`): the interval of half-width `arccos (h/r)` around `-π/2` -/
theorem cap_angles_bottom (hr : 0 < r) (hh : 0 ≤ h) (h0 : -π < θ) (h1 : θ ≤ π) :
    h < -(r * sin θ) ↔ |θ + π / 2| < arccos (h / r) := by
  rw [← mul_neg, ← cos_add_pi_div_two θ]
  exact cap_angles_wide hr hh (abs_le.2 ⟨by linarith [pi_pos], by linarith⟩)

/-- left side (`x + r cos θ < x0`): the directions within `arccos (h/r)` of `±π` (the interval
around `π` wraps: in `(-π, π]` it is `(π - α, π] ∪ (-π, -π + α)`, total length `2α`) -/
theorem cap_angles_left (hr : 0 < r) (hh : -r ≤ h) (h0 : -π < θ) (h1 : θ ≤ π) :
    h < -(r * cos θ) ↔ π - |θ| < arccos (h / r) := by
  have hab : |θ| ≤ π := abs_le.2 ⟨h0.le, h1⟩
  rw [← mul_neg, ← cos_abs θ, ← cos_pi_sub]
  exact lt_cos_iff hr hh (by linarith) (by linarith [abs_nonneg θ])

/-! ### corners -/

/-- **Corner.**  For two adjacent sides at distances `h1` (in the direction `θ = 0`) and `h2` (in
the direction `θ = π/2`), the direction `θ ∈ (-π, π]` points beyond BOTH sides iff
`arcsin (h2/r) < θ < arccos (h1/r)`. -/
theorem corner_angles (hr : 0 < r) (hh1 : 0 ≤ h1) (hh2 : 0 ≤ h2) (h0 : -π < θ) (hπ : θ ≤ π) :
    (h1 < r * cos θ ∧ h2 < r * sin θ) ↔ (arcsin (h2 / r) < θ ∧ θ < arccos (h1 / r)) := by
  constructor
  · rintro ⟨hc, hs⟩
    have hs0 : 0 < sin θ := by
      by_contra hn
      have : r * sin θ ≤ 0 := mul_nonpos_of_nonneg_of_nonpos hr.le (not_lt.1 hn)
      linarith
    have hc0 : 0 < cos θ := by
      by_contra hn
      have : r * cos θ ≤ 0 := mul_nonpos_of_nonneg_of_nonpos hr.le (not_lt.1 hn)
      linarith
    have hθ0 : 0 < θ := by
      by_contra hn
      have := sin_nonpos_of_nonpos_of_neg_pi_le (not_lt.1 hn) h0.le
      linarith
    have hθ1 : θ < π / 2 := by
      by_contra hn
      have := cos_nonpos_of_pi_div_two_le_of_le (not_lt.1 hn) (by linarith [pi_pos])
      linarith
    exact ⟨(lt_sin_iff hr (by linarith) (by linarith) hθ1.le).1 hs,
      (lt_cos_iff hr (by linarith) hθ0.le hπ).1 hc⟩
  · rintro ⟨ha, hb⟩
    have ha0 : 0 ≤ arcsin (h2 / r) := arcsin_nonneg.2 (div_nonneg hh2 hr.le)
    have hb1 : arccos (h1 / r) ≤ π / 2 := arccos_le_pi_div_two.2 (div_nonneg hh1 hr.le)
    exact ⟨(lt_cos_iff hr (by linarith) (by linarith) hπ).2 hb,
      (lt_sin_iff hr (by linarith) (by linarith [pi_pos]) (by linarith)).2 ha⟩

/-- the directions cut off by both sides form the open interval `(arcsin (h2/r), arccos (h1/r))` -/
theorem corner_set (hr : 0 < r) (hh1 : 0 ≤ h1) (hh2 : 0 ≤ h2) :
    {θ : ℝ | -π < θ ∧ θ ≤ π ∧ h1 < r * cos θ ∧ h2 < r * sin θ} =
      Set.Ioo (arcsin (h2 / r)) (arccos (h1 / r)) := by
  ext θ
  simp only [Set.mem_ofPred_eq, Set.mem_Ioo]
  constructor
  · rintro ⟨h0, hπ, hc⟩
    exact (corner_angles hr hh1 hh2 h0 hπ).1 hc
  · rintro ⟨ha, hb⟩
    have ha0 : 0 ≤ arcsin (h2 / r) := arcsin_nonneg.2 (div_nonneg hh2 hr.le)
    have hb1 := arccos_le_pi (h1 / r)
    have h0 : -π < θ := by linarith [pi_pos]
    have hπ : θ ≤ π := by linarith
    exact ⟨h0, hπ, (corner_angles hr hh1 hh2 h0 hπ).2 ⟨ha, hb⟩⟩

/-- the corner interval is non-empty exactly under the code's mask `h1² + h2² < r²`
(the corner of the box lies strictly inside the circle) -/
theorem corner_nonempty_iff (hr : 0 < r) (hh1 : 0 ≤ h1) (hh2 : 0 ≤ h2) :
    arcsin (h2 / r) < arccos (h1 / r) ↔ h1 ^ 2 + h2 ^ 2 < r ^ 2 :=
  arcsin_lt_arccos_iff hr hh1 hh2

/-- the length of the corner interval is the code's `circle_corner_arclen` — with the arguments in
EITHER order (the code passes the x-side first and evaluates `arccos` on the second argument,
`arcsin` on the first: `arccos (h2/r) − arcsin (h1/r) = arccos (h1/r) − arcsin (h2/r)`) -/
theorem corner_length :
    r * (arccos (h1 / r) - arcsin (h2 / r)) = cornerArclen h1 h2 r ∧
    cornerArclen h1 h2 r = cornerArclen h2 h1 r := by
  unfold cornerArclen
  rw [arccos_sub_arcsin_comm (h1 / r) (h2 / r)]
  exact ⟨rfl, by rw [arccos_sub_arcsin_comm (h2 / r) (h1 / r)]⟩

/-- caps of two ADJACENT sides overlap exactly when the corner is strictly inside the circle
(and then the overlap is the corner interval, `corner_set`) -/
theorem adjacent_overlap_iff (hr : 0 < r) (hh1 : 0 ≤ h1) (hh2 : 0 ≤ h2) :
    (∃ θ, -π < θ ∧ θ ≤ π ∧ h1 < r * cos θ ∧ h2 < r * sin θ) ↔ h1 ^ 2 + h2 ^ 2 < r ^ 2 := by
  rw [← corner_nonempty_iff hr hh1 hh2]
  constructor
  · rintro ⟨θ, h0, hπ, hc⟩
    have := (corner_angles hr hh1 hh2 h0 hπ).1 hc
    linarith
  · intro hlt
    have ha0 : 0 ≤ arcsin (h2 / r) := arcsin_nonneg.2 (div_nonneg hh2 hr.le)
    have hb1 := arccos_le_pi (h1 / r)
    refine ⟨(arcsin (h2 / r) + arccos (h1 / r)) / 2, by linarith [pi_pos], by linarith, ?_⟩
    exact (corner_angles hr hh1 hh2 (by linarith [pi_pos]) (by linarith)).2
      ⟨by linarith, by linarith⟩

/-- **Opposite caps are disjoint** as soon as the box has non-negative extent along that axis
(`hL + hR = x1 - x0 ≥ 0`, `hB + hT = y1 - y0 ≥ 0`) — no condition on `r`.  Hence no direction is
cut off by three sides that include an opposite pair, and inclusion–exclusion over the four caps
stops at the four adjacent pairs. -/
theorem opposite_disjoint (hw : 0 ≤ hL + hR) (hv : 0 ≤ hB + hT) :
    ¬ (hR < r * cos θ ∧ hL < -(r * cos θ)) ∧ ¬ (hT < r * sin θ ∧ hB < -(r * sin θ)) :=
  ⟨fun ⟨h1, h2⟩ => by linarith, fun ⟨h1, h2⟩ => by linarith⟩

/-- a direction is outside the box iff it lies in one of the four caps -/
theorem outside_iff_caps : ¬ Inside hL hR hB hT r θ ↔
    (hR < r * cos θ ∨ hL < -(r * cos θ) ∨ hT < r * sin θ ∨ hB < -(r * sin θ)) := by
  unfold Inside
  constructor
  · intro hn
    by_contra hc
    simp only [not_or, not_lt] at hc
    exact hn ⟨by linarith, hc.1, by linarith, hc.2.2.1⟩
  · rintro (h | h | h | h) ⟨h1, h2, h3, h4⟩ <;> linarith

/-! ### the inside set and its length -/

/-- the four intervals are sorted and do not overlap (they can only touch at `-π/2`, `0`, `π/2`) -/
theorem insideIntervals_sorted (hL hR hB hT r : ℝ) :
    (insideIntervals hL hR hB hT r).Pairwise (fun i j => i.2 ≤ j.1) := by
  have a1 := arcsin_le_pi_div_two (hB / r)
  have a2 := neg_pi_div_two_le_arcsin (hB / r)
  have a3 := arcsin_le_pi_div_two (hT / r)
  have a4 := neg_pi_div_two_le_arcsin (hT / r)
  have c1 := arccos_nonneg (hR / r)
  have c2 := arccos_nonneg (hL / r)
  have hp := pi_pos
  unfold insideIntervals
  simp only [List.pairwise_cons, List.mem_cons, List.not_mem_nil, or_false, forall_eq_or_imp,
    forall_eq, List.Pairwise.nil, and_true, IsEmpty.forall_iff, implies_true]
  refine ⟨⟨?_, ?_, ?_⟩, ⟨?_, ?_⟩, ?_⟩ <;> linarith

/-- … and lie in `[-π, π]` -/
theorem insideIntervals_range (hL hR hB hT r : ℝ) :
    ∀ i ∈ insideIntervals hL hR hB hT r, -π ≤ i.1 ∧ i.2 ≤ π := by
  have a1 := arcsin_le_pi_div_two (hB / r)
  have a2 := neg_pi_div_two_le_arcsin (hB / r)
  have a3 := arcsin_le_pi_div_two (hT / r)
  have a4 := neg_pi_div_two_le_arcsin (hT / r)
  have c1 := arccos_nonneg (hR / r)
  have c2 := arccos_nonneg (hL / r)
  have hp := pi_pos
  unfold insideIntervals
  simp only [List.mem_cons, List.not_mem_nil, or_false, forall_eq_or_imp, forall_eq]
  refine ⟨⟨?_, ?_⟩, ⟨?_, ?_⟩, ⟨?_, ?_⟩, ⟨?_, ?_⟩⟩ <;> linarith

/-- **The inside set.**  For a centre in the closed box (`h ≥ 0`) and any radius, a direction
`θ ∈ (-π, π]` has its point in the box iff it lies in one of the four intervals. -/
theorem inside_iff_covers (hr : 0 < r) (hL0 : 0 ≤ hL) (hR0 : 0 ≤ hR) (hB0 : 0 ≤ hB) (hT0 : 0 ≤ hT)
    (h0 : -π < θ) (hπ : θ ≤ π) :
    Inside hL hR hB hT r θ ↔ Covers (insideIntervals hL hR hB hT r) θ := by
  have a1 := arcsin_le_pi_div_two (hB / r)
  have a2 : 0 ≤ arcsin (hB / r) := arcsin_nonneg.2 (div_nonneg hB0 hr.le)
  have a3 := arcsin_le_pi_div_two (hT / r)
  have a4 : 0 ≤ arcsin (hT / r) := arcsin_nonneg.2 (div_nonneg hT0 hr.le)
  have c1 := arccos_nonneg (hR / r)
  have c2 := arccos_nonneg (hL / r)
  have hp := pi_pos
  have q1 := @inside_q1 r θ hL hR hB hT hr hL0 hR0 hB0 hT0
  have q2 := @inside_q2 r θ hL hR hB hT hr hL0 hR0 hB0 hT0
  have q3 := @inside_q3 r θ hL hR hB hT hr hL0 hR0 hB0 hT0
  have q4 := @inside_q4 r θ hL hR hB hT hr hL0 hR0 hB0 hT0
  unfold Covers insideIntervals
  simp only [List.mem_cons, List.not_mem_nil, or_false, exists_eq_or_imp, exists_eq_left]
  constructor
  · intro hin
    rcases le_total θ (-(π / 2)) with k1 | k1
    · exact Or.inl ((q3 h0.le k1).1 hin)
    · rcases le_total θ 0 with k2 | k2
      · exact Or.inr (Or.inl ((q4 k1 k2).1 hin))
      · rcases le_total θ (π / 2) with k3 | k3
        · exact Or.inr (Or.inr (Or.inl ((q1 k2 k3).1 hin)))
        · exact Or.inr (Or.inr (Or.inr ((q2 k3 hπ).1 hin)))
  · rintro (hA | hB' | hC | hD)
    · exact (q3 h0.le (by linarith [hA.2])).2 hA
    · exact (q4 (by linarith [hB'.1]) (by linarith [hB'.2])).2 hB'
    · exact (q1 (by linarith [hC.1]) (by linarith [hC.2])).2 hC
    · exact (q2 (by linarith [hD.1]) hπ).2 hD

/-- **Length = the code's formula.**  `r ·` (total length of the four intervals) is the full
circle minus the caps of the sides with `h < r` plus the corner arcs of the corners with
`h1² + h2² < r²`, exactly as `arclen_2d_bounded` computes it (before its NaN guard). -/
theorem len_insideIntervals (hr : 0 < r) (hL0 : 0 ≤ hL) (hR0 : 0 ≤ hR) (hB0 : 0 ≤ hB)
    (hT0 : 0 ≤ hT) :
    r * len (insideIntervals hL hR hB hT r) = arclen2d hL hR hB hT r := by
  have qA := quadrant_len hr hL0 hB0
  have qB := quadrant_len hr hR0 hB0
  have qC := quadrant_len hr hR0 hT0
  have qD := quadrant_len hr hL0 hT0
  have eA : (-π + arcsin (hB / r)) - (-π + arccos (hL / r))
      = arcsin (hB / r) - arccos (hL / r) := by ring
  have eB : (-arccos (hR / r)) - (-arcsin (hB / r))
      = arcsin (hB / r) - arccos (hR / r) := by ring
  have eD : (π - arccos (hL / r)) - (π - arcsin (hT / r))
      = arcsin (hT / r) - arccos (hL / r) := by ring
  simp only [len, insideIntervals, List.map_cons, List.map_nil, List.sum_cons, List.sum_nil]
  rw [eA, eB, eD, qA, qB, qC, qD]
  unfold arclen2d
  rw [cap_if hr, cap_if hr, cap_if hr, cap_if hr]
  simp only [capArclen, cornerArclen]
  split_ifs <;> ring

/-- **Inclusion–exclusion for `arclen_2d_bounded`.**  Centre `(x, y)` in the closed box
`[x0, x1] × [y0, y1]`, ANY radius `r > 0`.  The set of directions `θ ∈ (-π, π]` whose point
`(x + r cos θ, y + r sin θ)` lies in the box is the union of the four sorted, non-overlapping
closed intervals `insideIntervals …` inside `[-π, π]`, and `r` times their total length is the
value the code computes from `h = [x - x0, x1 - x, y - y0, y1 - y]`:
`2πr − Σ_{h<r} cap + Σ_{h1²+h2²<r²} corner`. -/
theorem arclen_inclusion_exclusion (x y x0 x1 y0 y1 r : ℝ) (hr : 0 < r)
    (hx0 : x0 ≤ x) (hx1 : x ≤ x1) (hy0 : y0 ≤ y) (hy1 : y ≤ y1) :
    (insideIntervals (x - x0) (x1 - x) (y - y0) (y1 - y) r).Pairwise (fun i j => i.2 ≤ j.1) ∧
    (∀ i ∈ insideIntervals (x - x0) (x1 - x) (y - y0) (y1 - y) r, -π ≤ i.1 ∧ i.2 ≤ π) ∧
    (∀ θ, -π < θ → θ ≤ π →
      ((x0 ≤ x + r * cos θ ∧ x + r * cos θ ≤ x1 ∧ y0 ≤ y + r * sin θ ∧ y + r * sin θ ≤ y1) ↔
        Covers (insideIntervals (x - x0) (x1 - x) (y - y0) (y1 - y) r) θ)) ∧
    r * len (insideIntervals (x - x0) (x1 - x) (y - y0) (y1 - y) r)
      = arclen2d (x - x0) (x1 - x) (y - y0) (y1 - y) r := by
  have hL0 : 0 ≤ x - x0 := by linarith
  have hR0 : 0 ≤ x1 - x := by linarith
  have hB0 : 0 ≤ y - y0 := by linarith
  have hT0 : 0 ≤ y1 - y := by linarith
  refine ⟨insideIntervals_sorted _ _ _ _ _, insideIntervals_range _ _ _ _ _, ?_,
    len_insideIntervals hr hL0 hR0 hB0 hT0⟩
  intro θ h0 hπ
  rw [← inside_iff_covers hr hL0 hR0 hB0 hT0 h0 hπ]
  unfold Inside
  constructor <;> rintro ⟨h1, h2, h3, h4⟩ <;>
    exact ⟨by linarith, by linarith, by linarith, by linarith⟩

/-! ### the same statements for the definitions the driver executes (Model/Arc.lean at ℝ) -/

/-- the model's `circleCapArclen` (= `circle_cap_arclen`), at ℝ, is `r ·` the length of the cap
interval `(-arccos (h/r), arccos (h/r))` of `cap_set` -/
theorem model_cap_length (h r : ℝ) :
    circleCapArclen h r = r * (arccos (h / r) - -arccos (h / r)) := by
  rw [circleCapArclen_real, cap_length]

/-- the model's `circleCornerArclen` (= `circle_corner_arclen`), at ℝ, is `r ·` the length of the
corner interval `(arcsin (h2/r), arccos (h1/r))` of `corner_set` -/
theorem model_corner_length (h1 h2 r : ℝ) :
    circleCornerArclen h1 h2 r = r * (arccos (h1 / r) - arcsin (h2 / r)) := by
  rw [circleCornerArclen_real, corner_length.1]

/-- the model's `arclenRaw` (= `arclen_2d_bounded` before the NaN guard: the very definition the
driver runs at `Float`), at ℝ, is `r ·` the total length of the directions inside the box — for
every centre in the closed box and EVERY radius -/
theorem model_arclen_exact (x y x0 x1 y0 y1 r : ℝ) (hr : 0 < r)
    (hx0 : x0 ≤ x) (hx1 : x ≤ x1) (hy0 : y0 ≤ y) (hy1 : y ≤ y1) :
    arclenRaw (x - x0) (x1 - x) (y - y0) (y1 - y) r
      = r * len (insideIntervals (x - x0) (x1 - x) (y - y0) (y1 - y) r) := by
  rw [arclenRaw_real]
  exact (arclen_inclusion_exclusion x y x0 x1 y0 y1 r hr hx0 hx1 hy0 hy1).2.2.2.symm

/-- consequence: the code's value (before the NaN guard) is never negative -/
theorem arclen2d_nonneg (hr : 0 < r) (hL0 : 0 ≤ hL) (hR0 : 0 ≤ hR) (hB0 : 0 ≤ hB)
    (hT0 : 0 ≤ hT) : 0 ≤ arclen2d hL hR hB hT r := by
  rw [← len_insideIntervals hr hL0 hR0 hB0 hT0]
  apply mul_nonneg hr.le
  simp only [len, insideIntervals, List.map_cons, List.map_nil, List.sum_cons, List.sum_nil]
  have := le_max_left (0 : ℝ)
  linarith [this (-π + arcsin (hB / r) - (-π + arccos (hL / r))),
    this (-arccos (hR / r) - -arcsin (hB / r)), this (arcsin (hT / r) - arccos (hR / r)),
    this (π - arccos (hL / r) - (π - arcsin (hT / r)))]

/-- … and never exceeds the full circle -/
theorem arclen2d_le_full (hr : 0 < r) (hL0 : 0 ≤ hL) (hR0 : 0 ≤ hR) (hB0 : 0 ≤ hB)
    (hT0 : 0 ≤ hT) : arclen2d hL hR hB hT r ≤ 2 * π * r := by
  rw [← len_insideIntervals hr hL0 hR0 hB0 hT0]
  have := len_le_of_sorted (insideIntervals hL hR hB hT r) (-π) π (by linarith [pi_pos])
    (insideIntervals_sorted _ _ _ _ _) (insideIntervals_range _ _ _ _ _)
  nlinarith

/-! ### non-vacuity: concrete values -/

/-- a side through the centre cuts off half the circle -/
example : capArclen 0 1 = π := by simp [capArclen]; ring

/-- `h = 1, r = 2`: the cap spans `|θ| < π/3`, arc length `4π/3` -/
example : capArclen 1 2 = 4 * π / 3 := by
  have : arccos (1 / 2) = π / 3 :=
    arccos_eq_of_eq_cos (by positivity) (by linarith [pi_pos]) cos_pi_div_three.symm
  simp only [capArclen, this]; ring

/-- the hypotheses of `cap_angles` hold for `h = 1, r = 2, θ = 0`, and the direction is cut off -/
example : (0:ℝ) < 2 ∧ -(2:ℝ) ≤ 1 ∧ -π < 0 ∧ (0:ℝ) ≤ π ∧ (1:ℝ) < 2 * cos 0 := by
  refine ⟨by norm_num, by norm_num, by linarith [pi_pos], pi_pos.le, by simp⟩

/-- centre in a corner of the box: the corner arc is a quarter circle -/
example : cornerArclen 0 0 1 = π / 2 := by simp [cornerArclen]

/-- `h1 = h2 = 1, r = 2` satisfies the corner mask (`1 + 1 < 4`), the interval `(π/6, π/3)` is
non-empty and contains `π/4` -/
example : ∃ θ, -π < θ ∧ θ ≤ π ∧ (1:ℝ) < 2 * cos θ ∧ (1:ℝ) < 2 * sin θ :=
  (adjacent_overlap_iff (by norm_num) (by norm_num) (by norm_num)).2 (by norm_num)

/-- centre at the bottom-left corner of the unit box, `r = 1`: caps left and bottom (`π` each),
one corner arc (`π/2`): a quarter circle remains -/
example : arclen2d 0 1 0 1 1 = π / 2 := by
  norm_num [arclen2d, capArclen, cornerArclen]
  ring

/-- a circle that swallows the whole box (`r = 2` around the centre of the unit box… all four
corners inside the circle): the formula returns exactly 0 -/
example : arclen2d (1/2) (1/2) (1/2) (1/2) 2 = 0 := by
  have h := len_insideIntervals (r := 2) (hL := 1/2) (hR := 1/2) (hB := 1/2) (hT := 1/2)
    (by norm_num) (by norm_num) (by norm_num) (by norm_num) (by norm_num)
  have q := quadrant_len (r := 2) (a := 1/2) (b := 1/2) (by norm_num) (by norm_num) (by norm_num)
  have e := arccos_eq_pi_div_two_sub_arcsin ((1/2 : ℝ) / 2)
  rw [if_pos (by norm_num)] at q
  rw [← h]
  simp only [len, insideIntervals, List.map_cons, List.map_nil, List.sum_cons, List.sum_nil]
  have e1 : (-π + arcsin ((1/2 : ℝ) / 2)) - (-π + arccos ((1/2 : ℝ) / 2))
      = arcsin ((1/2 : ℝ) / 2) - arccos ((1/2 : ℝ) / 2) := by ring
  have e2 : (-arccos ((1/2 : ℝ) / 2)) - (-arcsin ((1/2 : ℝ) / 2))
      = arcsin ((1/2 : ℝ) / 2) - arccos ((1/2 : ℝ) / 2) := by ring
  have e3 : (π - arccos ((1/2 : ℝ) / 2)) - (π - arcsin ((1/2 : ℝ) / 2))
      = arcsin ((1/2 : ℝ) / 2) - arccos ((1/2 : ℝ) / 2) := by ring
  rw [e1, e2, e3, q]
  linarith

end TrackpyV.Arc
