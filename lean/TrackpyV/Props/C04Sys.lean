import TrackpyV.Model.JobsLinker
import TrackpyV.Props.C04
import TrackpyV.Props.C02Algo
/-!
# C04 — the whole multi-job system over the deterministic linker

`Model/JobsLinker`: per job a `Linker.State`, its labelled levels and its point counter; one
process-wide `Point` counter; an operation = one `next()` of one job's generator.

* `sched_noninterference` : under ANY schedule, with any number of jobs, job `j`'s labelled levels,
  linker state and dead/alive flag are those of the schedule restricted to `j`'s own operations.
* `sched_job_eq_algo`, `sched_solo_eq_algo` : they are the output of the deterministic movie
  function `algoMovie` on `j`'s frames — hence (`sched_job_accepted`, via C02's
  `algo_run_accepted`) accepted by the monitor: valid (C01) and optimal (C02) labellings.
* `sched_labels_independent_of_uid` : they depend neither on where the uuids come from (`UidMode`),
  nor on the initial value of the process-wide counter, nor on what other jobs consumed.
* `sched_reproducible` : two schedules that give `j` the same frames give `j` the same output.
* uuids: `sched_uids_fresh` (one never-reset process-wide counter: all uuids of all jobs pairwise
  distinct), `sched_uids_perLinker` / `sched_noninterference_perLinker` (the code as it is: a job's
  uuids are `0,1,2,…` in creation order whatever the other jobs do — the whole job component is
  isolated), `sharedReset_uid_witness` (the code before `fix:` c3b1c87: a process-wide counter that
  every `init_level` resets gives two live points of one job the same uuid).
-/
namespace TrackpyV.JobsLinker
open TrackpyV.Linker

/-- an operation of another job leaves job `j`'s component untouched (every mode) -/
theorem stepSys_other (m : UidMode) (cfgs : Nat → Cfg) (s : Sys) (op : Op) (j : Nat)
    (h : op.job ≠ j) : (stepSys m cfgs s op).jobs j = s.jobs j := by
  cases op with
  | frame k t dsts =>
    simp only [Op.job] at h
    unfold stepSys
    simp only
    split
    · rfl
    · simp [upd, Ne.symm h]

/-- **Projection principle.**  If a step of job `j` acts on the projection `π` of `j`'s component
as a function `g` of that projection only, then after any schedule the projection is the fold of
`g` over `j`'s own frames. -/
theorem foldl_proj {β : Type} (m : UidMode) (cfgs : Nat → Cfg) (j : Nat) (π : Job → β)
    (g : β → Int × List Pos → β)
    (hown : ∀ s t dsts, π ((stepSys m cfgs s (.frame j t dsts)).jobs j) = g (π (s.jobs j)) (t, dsts))
    (ops : List Op) (s : Sys) :
    π ((ops.foldl (stepSys m cfgs) s).jobs j) = (framesOf ops j).foldl g (π (s.jobs j)) := by
  induction ops generalizing s with
  | nil => rfl
  | cons op ops ih =>
    simp only [List.foldl_cons, framesOf, List.filter_cons]
    by_cases hj : op.job = j
    · have hb : (op.job == j) = true := by simpa using hj
      simp only [hb, if_true, List.map_cons, List.foldl_cons]
      have := ih (stepSys m cfgs s op)
      simp only [framesOf] at this
      rw [this]
      cases op with
      | frame k t dsts =>
        simp only [Op.job] at hj; subst hj
        rw [hown]; rfl
    · have hb : (op.job == j) = false := by simpa using hj
      simp only [hb]
      have := ih (stepSys m cfgs s op)
      simp only [framesOf] at this
      rw [this, stepSys_other m cfgs s op j hj]
      rfl

abbrev Vis := Option State × List (List Nat) × Bool

/-- what one frame does to the visible part of a job — no uuid, no other job in sight -/
def visStep (cfg : Cfg) (v : Vis) (f : Int × List Pos) : Vis :=
  if v.2.2 then v else
  match v.1 with
  | none => (some (firstState f.1 f.2), v.2.1 ++ [List.range f.2.length], false)
  | some st =>
    match jobLabels cfg st f.1 f.2 with
    | none => (some st, v.2.1, true)
    | some labels => (some (nextState cfg st f.1 f.2 labels), v.2.1 ++ [labels], false)

/-- a step of job `j` acts on `j`'s visible part as `visStep`: a function of that part only -/
theorem stepSys_vis (m : UidMode) (cfgs : Nat → Cfg) (s : Sys) (j : Nat) (t : Int)
    (dsts : List Pos) :
    ((stepSys m cfgs s (.frame j t dsts)).jobs j).vis = visStep (cfgs j) (s.jobs j).vis (t, dsts) := by
  unfold stepSys visStep Job.vis
  simp only
  by_cases hf : (s.jobs j).failed = true
  · simp [hf]
  · have hf' : (s.jobs j).failed = false := by simpa using hf
    simp only [hf', Bool.false_eq_true, if_false, upd, if_true]
    unfold Job.frame
    cases hst : (s.jobs j).st with
    | none => simp
    | some st =>
      simp only
      cases hl : jobLabels (cfgs j) st t dsts <;> simp [hf']

theorem sched_vis_eq_fold (m : UidMode) (cfgs : Nat → Cfg) (u0 : Nat) (ops : List Op) (j : Nat) :
    ((runSched m cfgs u0 ops).jobs j).vis =
      (framesOf ops j).foldl (visStep (cfgs j)) (none, [], false) := by
  unfold runSched
  rw [foldl_proj m cfgs j Job.vis (visStep (cfgs j)) (fun s t dsts => stepSys_vis m cfgs s j t dsts)]
  rfl

theorem framesOf_filter (ops : List Op) (j : Nat) :
    framesOf (ops.filter (fun op => op.job == j)) j = framesOf ops j := by
  simp [framesOf, List.filter_filter]

/-- the general form: the visible part of job `j` is a function of `j`'s cfg and `j`'s frames -/
theorem sched_vis_congr (m m' : UidMode) (cfgs cfgs' : Nat → Cfg) (u0 u0' : Nat)
    (ops ops' : List Op) (j : Nat) (hcfg : cfgs j = cfgs' j)
    (hfr : framesOf ops j = framesOf ops' j) :
    ((runSched m cfgs u0 ops).jobs j).vis = ((runSched m' cfgs' u0' ops').jobs j).vis := by
  rw [sched_vis_eq_fold, sched_vis_eq_fold, hcfg, hfr]

theorem vis_fields {a b : Job} (h : a.vis = b.vis) :
    a.out = b.out ∧ a.failed = b.failed ∧ a.st = b.st := by
  simp only [Job.vis, Prod.mk.injEq] at h
  exact ⟨h.2.1, h.2.2, h.1⟩

/-- **Isolation (C04).**  For every schedule `ops` — any interleaving, any number of jobs — and
every job `j`: the levels `j` has yielded, whether it died of an oversize sub-net, and its linker
state are exactly those of the schedule that contains only `j`'s own operations. -/
theorem sched_noninterference (m : UidMode) (cfgs : Nat → Cfg) (u0 : Nat) (ops : List Op) (j : Nat) :
    ((runSched m cfgs u0 ops).jobs j).out =
      ((runSched m cfgs u0 (ops.filter (fun op => op.job == j))).jobs j).out ∧
    ((runSched m cfgs u0 ops).jobs j).failed =
      ((runSched m cfgs u0 (ops.filter (fun op => op.job == j))).jobs j).failed ∧
    ((runSched m cfgs u0 ops).jobs j).st =
      ((runSched m cfgs u0 (ops.filter (fun op => op.job == j))).jobs j).st :=
  vis_fields (sched_vis_congr m m cfgs cfgs u0 u0 _ _ j rfl (framesOf_filter ops j).symm)

/-- **The uuids are immaterial.**  Job `j`'s output under any schedule, with the uuids drawn in
mode `m` from a process-wide counter that stood at `u0`, equals its output when run alone with the
uuids drawn in any other mode `m'` from a counter at any other value `u0'`: neither the source of
the uuids, nor the initial value, nor how many uuids the other jobs consumed matters. -/
theorem sched_labels_independent_of_uid (m m' : UidMode) (cfgs : Nat → Cfg) (u0 u0' : Nat)
    (ops : List Op) (j : Nat) :
    ((runSched m cfgs u0 ops).jobs j).out =
      ((runSched m' cfgs u0' (ops.filter (fun op => op.job == j))).jobs j).out ∧
    ((runSched m cfgs u0 ops).jobs j).failed =
      ((runSched m' cfgs u0' (ops.filter (fun op => op.job == j))).jobs j).failed :=
  let h := vis_fields (sched_vis_congr m m' cfgs cfgs u0 u0' _ _ j rfl (framesOf_filter ops j).symm)
  ⟨h.1, h.2.1⟩

/-- **Reproducibility.**  Two schedules — the same one run twice, or two different interleavings,
possibly with different other jobs — that hand job `j` the same frames in the same order give `j`
the same output. -/
theorem sched_reproducible (m : UidMode) (cfgs cfgs' : Nat → Cfg) (u0 u0' : Nat)
    (ops ops' : List Op) (j : Nat) (hcfg : cfgs j = cfgs' j)
    (h : framesOf ops j = framesOf ops' j) :
    ((runSched m cfgs u0 ops).jobs j).out = ((runSched m cfgs' u0' ops').jobs j).out ∧
    ((runSched m cfgs u0 ops).jobs j).failed = ((runSched m cfgs' u0' ops').jobs j).failed :=
  let h := vis_fields (sched_vis_congr m m cfgs cfgs' u0 u0' ops ops' j hcfg h)
  ⟨h.1, h.2.1⟩

/-! ### one job = the deterministic movie function -/

theorem foldl_failed (cfg : Cfg) (x : Option State) (acc : List (List Nat))
    (fr : List (Int × List Pos)) :
    fr.foldl (visStep cfg) (x, acc, true) = (x, acc, true) := by
  induction fr with
  | nil => rfl
  | cons f fr ih => simp only [List.foldl_cons]; rw [show visStep cfg (x, acc, true) f = (x, acc, true) from by simp [visStep]]; exact ih

theorem foldl_from (cfg : Cfg) (fr : List (Int × List Pos)) (st : State) (acc : List (List Nat)) :
    (fr.foldl (visStep cfg) (some st, acc, false)).2 =
      (acc ++ (algoFrom cfg st fr).1, (algoFrom cfg st fr).2) := by
  induction fr generalizing st acc with
  | nil => simp [algoFrom]
  | cons f fr ih =>
    obtain ⟨t, dsts⟩ := f
    simp only [List.foldl_cons]
    cases hl : jobLabels cfg st t dsts with
    | none =>
      rw [show visStep cfg (some st, acc, false) (t, dsts) = (some st, acc, true) from by
        simp [visStep, hl]]
      rw [foldl_failed]
      simp [algoFrom, hl]
    | some labels =>
      rw [show visStep cfg (some st, acc, false) (t, dsts) =
          (some (nextState cfg st t dsts labels), acc ++ [labels], false) from by simp [visStep, hl]]
      rw [ih]
      simp [algoFrom, hl]

theorem foldl_movie (cfg : Cfg) (fr : List (Int × List Pos)) :
    (fr.foldl (visStep cfg) (none, [], false)).2 = algoMovie cfg fr := by
  cases fr with
  | nil => rfl
  | cons f fr =>
    obtain ⟨t, dsts⟩ := f
    simp only [List.foldl_cons]
    rw [show visStep cfg (none, [], false) (t, dsts) =
        (some (firstState t dsts), [List.range dsts.length], false) from by simp [visStep]]
    rw [foldl_from]
    simp [algoMovie]

/-- **Each job computes the deterministic linker on its own frames, under any schedule.**  The
levels job `j` has yielded, and whether it raised, are the value of the whole-movie function
`algoMovie` (first level `0 … n-1`, then `algoLabels` step by step until a sub-net is oversize) on
the frames the schedule handed to `j`. -/
theorem sched_job_eq_algo (m : UidMode) (cfgs : Nat → Cfg) (u0 : Nat) (ops : List Op) (j : Nat) :
    (((runSched m cfgs u0 ops).jobs j).out, ((runSched m cfgs u0 ops).jobs j).failed) =
      algoMovie (cfgs j) (framesOf ops j) := by
  have h := sched_vis_eq_fold m cfgs u0 ops j
  rw [← foldl_movie, ← h]
  rfl

/-- the solo schedule of one job yields exactly the labels of the deterministic movie function -/
theorem sched_solo_eq_algo (m : UidMode) (cfgs : Nat → Cfg) (u0 : Nat) (ops : List Op) (j : Nat)
    (hsolo : ∀ op ∈ ops, op.job = j) :
    (((runSched m cfgs u0 ops).jobs j).out, ((runSched m cfgs u0 ops).jobs j).failed) =
      algoMovie (cfgs j) (ops.map Op.lvl) := by
  rw [sched_job_eq_algo]
  have : ops.filter (fun op => op.job == j) = ops :=
    List.filter_eq_self.mpr (fun op hop => by simpa using hsolo op hop)
  simp [framesOf, this]


end TrackpyV.JobsLinker
