import TrackpyV.Model.JobsLinker
import TrackpyV.Props.C04
import TrackpyV.Props.C02Algo
/-!
# C04 — the whole multi-job system over the deterministic linker

`Model/JobsLinker`: per job a `Linker.State`, its labelled levels and its point counter; one
process-wide `Point` counter; an operation = one `next()` of one job's generator.

* `sched_noninterference` : under ANY schedule, with any number of jobs, job `j`'s labelled levels,
  linker state and dead/alive flag are those of the schedule restricted to `j`'s own operations.
* `sched_job_eq_algo`, `sched_solo_eq_algo` : they are the output of the deterministic movie
  function `algoMovie` on `j`'s frames — hence (`sched_job_accepted`, via C02's
  `algo_run_accepted`) accepted by the monitor: valid (C01) and optimal (C02) labellings.
* `sched_labels_independent_of_uid` : they depend neither on where the uuids come from (`UidMode`),
  nor on the initial value of the process-wide counter, nor on what other jobs consumed.
* `sched_reproducible` : two schedules that give `j` the same frames give `j` the same output.
* uuids: `sched_uids_fresh` (one never-reset process-wide counter: all uuids of all jobs pairwise
  distinct), `sched_uids_perLinker` / `sched_noninterference_perLinker` (the code as it is: a job's
  uuids are `0,1,2,…` in creation order whatever the other jobs do — the whole job component is
  isolated), `sharedReset_uid_witness` (the code before `fix:` c3b1c87: a process-wide counter that
  every `init_level` resets gives two live points of one job the same uuid).
-/
namespace TrackpyV.JobsLinker
open TrackpyV.Linker

/-- an operation of another job leaves job `j`'s component untouched (every mode) -/
theorem stepSys_other (m : UidMode) (cfgs : Nat → Cfg) (s : Sys) (op : Op) (j : Nat)
    (h : op.job ≠ j) : (stepSys m cfgs s op).jobs j = s.jobs j := by
  cases op with
  | frame k t dsts =>
    simp only [Op.job] at h
    unfold stepSys
    simp only
    split
    · rfl
    · simp [upd, Ne.symm h]

/-- **Projection principle.**  If a step of job `j` acts on the projection `π` of `j`'s component
as a function `g` of that projection only, then after any schedule the projection is the fold of
`g` over `j`'s own frames. -/
theorem foldl_proj {β : Type} (m : UidMode) (cfgs : Nat → Cfg) (j : Nat) (π : Job → β)
    (g : β → Int × List Pos → β)
    (hown : ∀ s t dsts, π ((stepSys m cfgs s (.frame j t dsts)).jobs j) = g (π (s.jobs j)) (t, dsts))
    (ops : List Op) (s : Sys) :
    π ((ops.foldl (stepSys m cfgs) s).jobs j) = (framesOf ops j).foldl g (π (s.jobs j)) := by
  induction ops generalizing s with
  | nil => rfl
  | cons op ops ih =>
    simp only [List.foldl_cons, framesOf, List.filter_cons]
    by_cases hj : op.job = j
    · have hb : (op.job == j) = true := by simpa using hj
      simp only [hb, if_true, List.map_cons, List.foldl_cons]
      have := ih (stepSys m cfgs s op)
      simp only [framesOf] at this
      rw [this]
      cases op with
      | frame k t dsts =>
        simp only [Op.job] at hj; subst hj
        rw [hown]; rfl
    · have hb : (op.job == j) = false := by simpa using hj
      simp only [hb]
      have := ih (stepSys m cfgs s op)
      simp only [framesOf] at this
      rw [this, stepSys_other m cfgs s op j hj]
      rfl

abbrev Vis := Option State × List (List Nat) × Bool

/-- what one frame does to the visible part of a job — no uuid, no other job in sight -/
def visStep (cfg : Cfg) (v : Vis) (f : Int × List Pos) : Vis :=
  if v.2.2 then v else
  match v.1 with
  | none => (some (firstState f.1 f.2), v.2.1 ++ [List.range f.2.length], false)
  | some st =>
    match jobLabels cfg st f.1 f.2 with
    | none => (some st, v.2.1, true)
    | some labels => (some (nextState cfg st f.1 f.2 labels), v.2.1 ++ [labels], false)

/-- a step of job `j` acts on `j`'s visible part as `visStep`: a function of that part only -/
theorem stepSys_vis (m : UidMode) (cfgs : Nat → Cfg) (s : Sys) (j : Nat) (t : Int)
    (dsts : List Pos) :
    ((stepSys m cfgs s (.frame j t dsts)).jobs j).vis = visStep (cfgs j) (s.jobs j).vis (t, dsts) := by
  unfold stepSys visStep Job.vis
  simp only
  by_cases hf : (s.jobs j).failed = true
  · simp [hf]
  · have hf' : (s.jobs j).failed = false := by simpa using hf
    simp only [hf', Bool.false_eq_true, if_false, upd, if_true]
    unfold Job.frame
    cases hst : (s.jobs j).st with
    | none => simp
    | some st =>
      simp only
      cases hl : jobLabels (cfgs j) st t dsts <;> simp [hf']

theorem sched_vis_eq_fold (m : UidMode) (cfgs : Nat → Cfg) (u0 : Nat) (ops : List Op) (j : Nat) :
    ((runSched m cfgs u0 ops).jobs j).vis =
      (framesOf ops j).foldl (visStep (cfgs j)) (none, [], false) := by
  unfold runSched
  rw [foldl_proj m cfgs j Job.vis (visStep (cfgs j)) (fun s t dsts => stepSys_vis m cfgs s j t dsts)]
  rfl

theorem framesOf_filter (ops : List Op) (j : Nat) :
    framesOf (ops.filter (fun op => op.job == j)) j = framesOf ops j := by
  simp [framesOf, List.filter_filter]

/-- the general form: the visible part of job `j` is a function of `j`'s cfg and `j`'s frames -/
theorem sched_vis_congr (m m' : UidMode) (cfgs cfgs' : Nat → Cfg) (u0 u0' : Nat)
    (ops ops' : List Op) (j : Nat) (hcfg : cfgs j = cfgs' j)
    (hfr : framesOf ops j = framesOf ops' j) :
    ((runSched m cfgs u0 ops).jobs j).vis = ((runSched m' cfgs' u0' ops').jobs j).vis := by
  rw [sched_vis_eq_fold, sched_vis_eq_fold, hcfg, hfr]

theorem vis_fields {a b : Job} (h : a.vis = b.vis) :
    a.out = b.out ∧ a.failed = b.failed ∧ a.st = b.st := by
  simp only [Job.vis, Prod.mk.injEq] at h
  exact ⟨h.2.1, h.2.2, h.1⟩

/-- **Isolation (C04).**  For every schedule `ops` — any interleaving, any number of jobs — and
every job `j`: the levels `j` has yielded, whether it died of an oversize sub-net, and its linker
state are exactly those of the schedule that contains only `j`'s own operations. -/
theorem sched_noninterference (m : UidMode) (cfgs : Nat → Cfg) (u0 : Nat) (ops : List Op) (j : Nat) :
    ((runSched m cfgs u0 ops).jobs j).out =
      ((runSched m cfgs u0 (ops.filter (fun op => op.job == j))).jobs j).out ∧
    ((runSched m cfgs u0 ops).jobs j).failed =
      ((runSched m cfgs u0 (ops.filter (fun op => op.job == j))).jobs j).failed ∧
    ((runSched m cfgs u0 ops).jobs j).st =
      ((runSched m cfgs u0 (ops.filter (fun op => op.job == j))).jobs j).st :=
  vis_fields (sched_vis_congr m m cfgs cfgs u0 u0 _ _ j rfl (framesOf_filter ops j).symm)

/-- **The uuids are immaterial.**  Job `j`'s output under any schedule, with the uuids drawn in
mode `m` from a process-wide counter that stood at `u0`, equals its output when run alone with the
uuids drawn in any other mode `m'` from a counter at any other value `u0'`: neither the source of
the uuids, nor the initial value, nor how many uuids the other jobs consumed matters. -/
theorem sched_labels_independent_of_uid (m m' : UidMode) (cfgs : Nat → Cfg) (u0 u0' : Nat)
    (ops : List Op) (j : Nat) :
    ((runSched m cfgs u0 ops).jobs j).out =
      ((runSched m' cfgs u0' (ops.filter (fun op => op.job == j))).jobs j).out ∧
    ((runSched m cfgs u0 ops).jobs j).failed =
      ((runSched m' cfgs u0' (ops.filter (fun op => op.job == j))).jobs j).failed :=
  let h := vis_fields (sched_vis_congr m m' cfgs cfgs u0 u0' _ _ j rfl (framesOf_filter ops j).symm)
  ⟨h.1, h.2.1⟩

/-- **Reproducibility.**  Two schedules — the same one run twice, or two different interleavings,
possibly with different other jobs — that hand job `j` the same frames in the same order give `j`
the same output. -/
theorem sched_reproducible (m : UidMode) (cfgs cfgs' : Nat → Cfg) (u0 u0' : Nat)
    (ops ops' : List Op) (j : Nat) (hcfg : cfgs j = cfgs' j)
    (h : framesOf ops j = framesOf ops' j) :
    ((runSched m cfgs u0 ops).jobs j).out = ((runSched m cfgs' u0' ops').jobs j).out ∧
    ((runSched m cfgs u0 ops).jobs j).failed = ((runSched m cfgs' u0' ops').jobs j).failed :=
  let h := vis_fields (sched_vis_congr m m cfgs cfgs' u0 u0' ops ops' j hcfg h)
  ⟨h.1, h.2.1⟩

/-! ### one job = the deterministic movie function -/

theorem foldl_failed (cfg : Cfg) (x : Option State) (acc : List (List Nat))
    (fr : List (Int × List Pos)) :
    fr.foldl (visStep cfg) (x, acc, true) = (x, acc, true) := by
  induction fr with
  | nil => rfl
  | cons f fr ih => simp only [List.foldl_cons]; rw [show visStep cfg (x, acc, true) f = (x, acc, true) from by simp [visStep]]; exact ih

theorem foldl_from (cfg : Cfg) (fr : List (Int × List Pos)) (st : State) (acc : List (List Nat)) :
    (fr.foldl (visStep cfg) (some st, acc, false)).2 =
      (acc ++ (algoFrom cfg st fr).1, (algoFrom cfg st fr).2) := by
  induction fr generalizing st acc with
  | nil => simp [algoFrom]
  | cons f fr ih =>
    obtain ⟨t, dsts⟩ := f
    simp only [List.foldl_cons]
    cases hl : jobLabels cfg st t dsts with
    | none =>
      rw [show visStep cfg (some st, acc, false) (t, dsts) = (some st, acc, true) from by
        simp [visStep, hl]]
      rw [foldl_failed]
      simp [algoFrom, hl]
    | some labels =>
      rw [show visStep cfg (some st, acc, false) (t, dsts) =
          (some (nextState cfg st t dsts labels), acc ++ [labels], false) from by simp [visStep, hl]]
      rw [ih]
      simp [algoFrom, hl]

theorem foldl_movie (cfg : Cfg) (fr : List (Int × List Pos)) :
    (fr.foldl (visStep cfg) (none, [], false)).2 = algoMovie cfg fr := by
  cases fr with
  | nil => rfl
  | cons f fr =>
    obtain ⟨t, dsts⟩ := f
    simp only [List.foldl_cons]
    rw [show visStep cfg (none, [], false) (t, dsts) =
        (some (firstState t dsts), [List.range dsts.length], false) from by simp [visStep]]
    rw [foldl_from]
    simp [algoMovie]

/-- **Each job computes the deterministic linker on its own frames, under any schedule.**  The
levels job `j` has yielded, and whether it raised, are the value of the whole-movie function
`algoMovie` (first level `0 … n-1`, then `algoLabels` step by step until a sub-net is oversize) on
the frames the schedule handed to `j`. -/
theorem sched_job_eq_algo (m : UidMode) (cfgs : Nat → Cfg) (u0 : Nat) (ops : List Op) (j : Nat) :
    (((runSched m cfgs u0 ops).jobs j).out, ((runSched m cfgs u0 ops).jobs j).failed) =
      algoMovie (cfgs j) (framesOf ops j) := by
  have h := sched_vis_eq_fold m cfgs u0 ops j
  rw [← foldl_movie, ← h]
  rfl

/-- the solo schedule of one job yields exactly the labels of the deterministic movie function -/
theorem sched_solo_eq_algo (m : UidMode) (cfgs : Nat → Cfg) (u0 : Nat) (ops : List Op) (j : Nat)
    (hsolo : ∀ op ∈ ops, op.job = j) :
    (((runSched m cfgs u0 ops).jobs j).out, ((runSched m cfgs u0 ops).jobs j).failed) =
      algoMovie (cfgs j) (ops.map Op.lvl) := by
  rw [sched_job_eq_algo]
  have : ops.filter (fun op => op.job == j) = ops :=
    List.filter_eq_self.mpr (fun op hop => by simpa using hsolo op hop)
  simp [framesOf, this]


/-! ### the uuids -/

theorem run_inv (m : UidMode) (cfgs : Nat → Cfg) (P : Sys → Prop)
    (hstep : ∀ s op, P s → P (stepSys m cfgs s op)) (ops : List Op) (s : Sys) (h : P s) :
    P (ops.foldl (stepSys m cfgs) s) := by
  induction ops generalizing s with
  | nil => exact h
  | cons op ops ih => exact ih _ (hstep s op h)

theorem frame_uids (cfg : Cfg) (jb : Job) (us : List Nat) (t : Int) (dsts : List Pos) :
    (Job.frame cfg jb us t dsts).uids = jb.uids ++ [us] := by
  unfold Job.frame
  cases jb.st with
  | none => rfl
  | some st => simp only; cases jobLabels cfg st t dsts <;> rfl

/-- the ghost log restricted to job `j` is what `j` recorded (every mode) -/
theorem sched_handed_job (m : UidMode) (cfgs : Nat → Cfg) (u0 : Nat) (ops : List Op) (j : Nat) :
    (((runSched m cfgs u0 ops).handed.filter (fun x => x.1 == j)).map (·.2)) =
      ((runSched m cfgs u0 ops).jobs j).uids.flatten := by
  refine run_inv m cfgs (fun s => ∀ k, ((s.handed.filter (fun x => x.1 == k)).map (·.2)) =
      (s.jobs k).uids.flatten) ?_ ops (Sys.init0 u0) (fun k => by simp [Sys.init0]) j
  intro s op hs k
  cases op with
  | frame i t dsts =>
    unfold stepSys
    simp only
    split
    · exact hs k
    · simp only [List.filter_append, List.map_append, hs k]
      by_cases hk : k = i
      · subst hk
        simp [upd, frame_uids, List.filter_map, Function.comp_def]
      · have : (i == k) = false := by simpa using Ne.symm hk
        simp [upd, hk, List.filter_map, Function.comp_def, this]

/-- one process-wide counter that is never reset hands out `u0, u0+1, …` -/
theorem shared_handed_eq (cfgs : Nat → Cfg) (u0 : Nat) (ops : List Op) :
    ∃ k, (runSched .shared cfgs u0 ops).uid = u0 + k ∧
      (runSched .shared cfgs u0 ops).handed.map (·.2) = List.range' u0 k := by
  refine run_inv .shared cfgs (fun s => ∃ k, s.uid = u0 + k ∧ s.handed.map (·.2) = List.range' u0 k)
    ?_ ops (Sys.init0 u0) ⟨0, by simp [Sys.init0]⟩
  intro s op ⟨k, hu, hh⟩
  cases op with
  | frame i t dsts =>
    unfold stepSys
    simp only
    split
    · exact ⟨k, hu, hh⟩
    · refine ⟨k + dsts.length, by simp [uidAfter, hu, Nat.add_assoc], ?_⟩
      simp [uidBase, hu, hh, List.map_append, Function.comp_def]

/-- **A process-wide point counter is harmless.**  With one never-reset counter shared by all
jobs, all uuids handed out along a schedule — to every level of every job — are pairwise
distinct; by `sched_labels_independent_of_uid` they have no influence on any label. -/
theorem sched_uids_fresh (cfgs : Nat → Cfg) (u0 : Nat) (ops : List Op) :
    ((runSched .shared cfgs u0 ops).handed.map (·.2)).Nodup := by
  obtain ⟨k, _, h⟩ := shared_handed_eq cfgs u0 ops
  rw [h]; exact List.nodup_range'

/-- … in particular within every job (the concatenation of a job's levels has no repetition) -/
theorem sched_uids_fresh_job (cfgs : Nat → Cfg) (u0 : Nat) (ops : List Op) (j : Nat) :
    ((runSched .shared cfgs u0 ops).jobs j).uids.flatten.Nodup := by
  rw [← sched_handed_job]
  have h := sched_uids_fresh cfgs u0 ops
  exact (h.sublist (List.Sublist.map _ List.filter_sublist))

/-- the step of a job whose points are numbered by the job's own counter -/
def jobStepPL (cfg : Cfg) (jb : Job) (f : Int × List Pos) : Job :=
  if jb.failed then jb else
  Job.frame cfg jb (List.range' (if jb.st.isNone then 0 else jb.nextUid) f.2.length) f.1 f.2

theorem stepSys_perLinker_own (cfgs : Nat → Cfg) (s : Sys) (j : Nat) (t : Int) (dsts : List Pos) :
    (stepSys .perLinker cfgs s (.frame j t dsts)).jobs j = jobStepPL (cfgs j) (s.jobs j) (t, dsts) := by
  unfold stepSys jobStepPL
  simp only
  split
  · rfl
  · simp [upd, uidBase]

/-- **The code as it is (per-Linker point counter): the WHOLE job component is isolated** — labels,
state and the uuids of its points (which decide the iteration order of its point sets, hence the
choice among tied optima in the real code) are those of the job run alone, whatever the base
counter held. -/
theorem sched_noninterference_perLinker (cfgs : Nat → Cfg) (u0 u0' : Nat) (ops : List Op) (j : Nat) :
    (runSched .perLinker cfgs u0 ops).jobs j =
      (runSched .perLinker cfgs u0' (ops.filter (fun op => op.job == j))).jobs j := by
  unfold runSched
  have h1 := foldl_proj .perLinker cfgs j id (jobStepPL (cfgs j))
    (fun s t dsts => stepSys_perLinker_own cfgs s j t dsts) ops (Sys.init0 u0)
  have h2 := foldl_proj .perLinker cfgs j id (jobStepPL (cfgs j))
    (fun s t dsts => stepSys_perLinker_own cfgs s j t dsts)
    (ops.filter (fun op => op.job == j)) (Sys.init0 u0')
  rw [framesOf_filter] at h2
  simp only [id] at h1 h2
  rw [h1, h2]
  rfl

theorem range'_app (a n : Nat) : List.range' 0 a ++ List.range' a n = List.range' 0 (a + n) := by
  have := List.range'_append (s := 0) (m := a) (n := n) (step := 1)
  simpa using this

/-- a job's points are numbered `0, 1, 2, …` in creation order -/
theorem sched_uids_perLinker (cfgs : Nat → Cfg) (u0 : Nat) (ops : List Op) (j : Nat) :
    ((runSched .perLinker cfgs u0 ops).jobs j).uids.flatten =
      List.range' 0 ((runSched .perLinker cfgs u0 ops).jobs j).nextUid := by
  refine (run_inv .perLinker cfgs (fun s => ∀ k, ((s.jobs k).st = none → (s.jobs k).uids = []) ∧
      (s.jobs k).uids.flatten = List.range' 0 (s.jobs k).nextUid) ?_ ops (Sys.init0 u0)
      (fun k => by simp [Sys.init0]) j).2
  intro s op hs k
  cases op with
  | frame i t dsts =>
    by_cases hk : k = i
    · subst hk
      rw [stepSys_perLinker_own]
      unfold jobStepPL
      split
      · exact hs k
      · obtain ⟨h1, h2⟩ := hs k
        unfold Job.frame
        cases hst : (s.jobs k).st with
        | none => simp [h1 hst]
        | some st =>
          simp only
          cases jobLabels (cfgs k) st t dsts <;> simp [h2, range'_app]
    · rw [stepSys_other .perLinker cfgs s _ k (by simpa [Op.job] using Ne.symm hk)]
      exact hs k

theorem sched_uids_fresh_perLinker (cfgs : Nat → Cfg) (u0 : Nat) (ops : List Op) (j : Nat) :
    ((runSched .perLinker cfgs u0 ops).jobs j).uids.flatten.Nodup := by
  rw [sched_uids_perLinker]; exact List.nodup_range'


/-! ### every job's output is an accepted (valid, optimal) labelling -/

/-- a job's frames paired with the labels it yielded -/
def jobLLevels (fr : List (Int × List Pos)) (out : List (List Nat)) : List LLevel :=
  List.zipWith (fun f l => ({ t := f.1, dsts := f.2, labels := l } : LLevel)) fr out

theorem algoFrom_within (cfg : Cfg) (fr : List (Int × List Pos)) (st : State)
    (hc : WithinCaps cfg st fr) :
    algoFrom cfg st fr = ((algoRun cfg st fr).map (·.labels), false) := by
  induction fr generalizing st with
  | nil => rfl
  | cons f fr ih =>
    obtain ⟨t, dsts⟩ := f
    obtain ⟨_, hover, hrest⟩ := hc
    have hl : jobLabels cfg st t dsts = some (algoLab cfg st t dsts) := by
      simp [jobLabels, hover, algoLabels_eq]
    simp [algoFrom, hl, algoRun, ih _ hrest]

theorem jobLLevels_algoRun (cfg : Cfg) (fr : List (Int × List Pos)) (st : State) :
    jobLLevels fr ((algoRun cfg st fr).map (·.labels)) = algoRun cfg st fr := by
  induction fr generalizing st with
  | nil => rfl
  | cons f fr ih =>
    obtain ⟨t, dsts⟩ := f
    simp only [algoRun, List.map_cons, jobLLevels, List.zipWith_cons_cons]
    congr 1
    exact ih _

/-- **Under any schedule each job's output is accepted by the monitor** (hence valid — C01
`accepted_valid` — and step-wise optimal — C02 `step_optimal`): if job `j`'s own movie stays within
the neighbour cap and the sub-net size limit (`WithinCaps`, a condition on `j`'s frames alone), then
`j` does not raise and the levels it yields form a movie the step relation accepts. -/
theorem sched_job_accepted (m : UidMode) (cfgs : Nat → Cfg) (u0 : Nat) (ops : List Op) (j : Nat)
    (t0 : Int) (d0 : List Pos) (rest : List (Int × List Pos))
    (hfr : framesOf ops j = (t0, d0) :: rest) (hdrop : (cfgs j).drop = false)
    (hc : WithinCaps (cfgs j) (firstState t0 d0) rest) :
    ((runSched m cfgs u0 ops).jobs j).failed = false ∧
    Accepts (cfgs j) (jobLLevels (framesOf ops j) ((runSched m cfgs u0 ops).jobs j).out) := by
  have h := sched_job_eq_algo m cfgs u0 ops j
  rw [hfr] at h
  simp only [algoMovie, algoFrom_within _ _ _ hc, Prod.mk.injEq] at h
  obtain ⟨hout, hfail⟩ := h
  refine ⟨hfail, ?_⟩
  rw [hout, hfr]
  simp only [jobLLevels, List.zipWith_cons_cons]
  have hi : initCheck t0 d0 (List.range d0.length) =
      .ok (firstState t0 d0) 0 0 (List.range d0.length).length false := by
    simp [initCheck, firstState, List.nodup_range]
  refine ⟨firstState t0 d0, 0, 0, _, false, hi, ?_⟩
  have hinv := (initCheck_ok (cfgs j) hi).2
  have := algo_run_accepted (cfgs j) hdrop rest (firstState t0 d0) _ hinv hc
  have he := jobLLevels_algoRun (cfgs j) rest (firstState t0 d0)
  simp only [jobLLevels] at he
  rw [he]
  exact this

/-- … so it is a valid history: one label per feature, none twice in a level, consecutive
observations of a label at most `memory+1` levels and `search_range` apart -/
theorem sched_job_valid (m : UidMode) (cfgs : Nat → Cfg) (u0 : Nat) (ops : List Op) (j : Nat)
    (t0 : Int) (d0 : List Pos) (rest : List (Int × List Pos))
    (hfr : framesOf ops j = (t0, d0) :: rest) (hdrop : (cfgs j).drop = false)
    (hc : WithinCaps (cfgs j) (firstState t0 d0) rest) :
    ValidHist (cfgs j)
      (jobLLevels (framesOf ops j) ((runSched m cfgs u0 ops).jobs j).out).reverse :=
  accepted_valid _ _ (sched_job_accepted m cfgs u0 ops j t0 d0 rest hfr hdrop hc).2

/-! ### non-vacuity: two jobs, alternating -/

/-- 1-D, range² = 16, no memory -/
def exCfg : Cfg :=
  { w := [1], B := 16, memory := 0, maxNeighbors := 10, maxSize := 30, vel := none, drop := false }

/-- job 0: three frames of two features (the two swap their order in frame 1; one leaves in frame
2); job 1: two frames; stepped 0, 1, 0, 1, 0 -/
def exOps : List Op :=
  [.frame 0 0 [[0], [10]], .frame 1 0 [[5]], .frame 0 1 [[11], [1]], .frame 1 1 [[6], [20]],
   .frame 0 2 [[2], [30]]]

/-- job 0 alone -/
def exSolo : List Op := [.frame 0 0 [[0], [10]], .frame 0 1 [[11], [1]], .frame 0 2 [[2], [30]]]

example : exOps.filter (fun op => op.job == 0) = exSolo := by decide

section
open TrackpyV.Assign
macro "jsched_eval" : tactic => `(tactic|
  simp [runSched, stepSys, Sys.init0, upd, uidBase, uidAfter, Job.frame, jobLabels, firstState,
    exOps, exSolo, oversizeB, nextState, initCfg,
    algoLabels, algoChoices, groupChoice, allSomeL, srcOf, solveOrdered, go, exceeds,
    taken, better, labelOf, trackOf, freshBase,
    stepGroups, stepCands, subnets, candsOf, candsOfRow, distRow, dist2,
    view, sqI, insCand, exCfg, addSource,
    hasDest, realDests, List.find?, getD', List.zipIdx, List.range, List.range.loop, List.range'])

/-- the interleaved run (code as it is, base counter at 7): labels of both jobs … -/
example : ((runSched .perLinker (fun _ => exCfg) 7 exOps).jobs 0).out = [[0, 1], [1, 0], [0, 3]] := by
  jsched_eval
example : ((runSched .perLinker (fun _ => exCfg) 7 exOps).jobs 1).out = [[0], [0, 2]] := by
  jsched_eval
/-- … are those of the solo run (the instance of `sched_noninterference`, evaluated) -/
example : ((runSched .perLinker (fun _ => exCfg) 0 exSolo).jobs 0).out = [[0, 1], [1, 0], [0, 3]] := by
  jsched_eval
/-- uuids of job 0's points in the three modes -/
example : ((runSched .perLinker (fun _ => exCfg) 7 exOps).jobs 0).uids = [[0, 1], [2, 3], [4, 5]] := by
  jsched_eval
example : ((runSched .shared (fun _ => exCfg) 7 exOps).jobs 0).uids = [[7, 8], [10, 11], [14, 15]] := by
  jsched_eval

/-- **The code before `fix:` c3b1c87** (one base counter drawn by every point and reset by every
`init_level`): job 1's first frame, stepped between job 0's frames 0 and 1, resets the counter, so
the points of job 0's frame 1 get the uuids 1, 2 while those of its frame 0 — the sources of that
very step, alive in the same sets — carry 0, 1: two live points of one job share uuid 1. -/
theorem sharedReset_uid_witness :
    ((runSched .sharedReset (fun _ => exCfg) 0 exOps).jobs 0).uids = [[0, 1], [1, 2], [5, 6]] ∧
    ¬ ((runSched .sharedReset (fun _ => exCfg) 0 exOps).jobs 0).uids.flatten.Nodup := by
  have h : ((runSched .sharedReset (fun _ => exCfg) 0 exOps).jobs 0).uids = [[0, 1], [1, 2], [5, 6]] := by
    jsched_eval
  refine ⟨h, ?_⟩
  rw [h]; decide
end

end TrackpyV.JobsLinker
