import TrackpyV.Props.C03
import Mathlib.Tactic.FieldSimp
import Mathlib.Tactic.Ring
import Mathlib.Tactic.Linarith
import Mathlib.Tactic.Positivity
/-!
# C03 — per-axis search_range ≡ pre-divided coordinates (the geometry behind the monitor's weights)

With a per-axis range `(a₁/4, …)` the Linker divides every coordinate by its range and links with
range 1 (`to_eucl = x / search_range`), so a pair is a candidate iff `Σ (Δᵢ/(aᵢ/4))² ≤ 1` and a
link costs `Σ (Δᵢ/(aᵢ/4))²` — exactly what linking PRE-DIVIDED coordinates with `search_range = 1`
computes.  The monitor works on the integer lattice with weights `wᵢ` and bound `B`
(`harness/linkcommon.weights`): these theorems show that its candidate relation and its cost order
are the rational ones, in 1, 2 and 3 dimensions (the only ones trackpy links in).
-/
namespace TrackpyV.Scale

/-- 1-D -/
theorem perAxis1 (a dx : ℚ) (ha : 0 < a) :
    (dx / (a / 4)) ^ 2 ≤ 1 ↔ 16 * dx ^ 2 ≤ a ^ 2 := by
  have e : (dx / (a / 4)) ^ 2 = (16 * dx ^ 2) / a ^ 2 := by
    field_simp
    ring
  rw [e, div_le_one (by positivity)]

/-- 2-D: weights `(16·b², 16·a²)`, bound `a²·b²` -/
theorem perAxis2 (a b dx dy : ℚ) (ha : 0 < a) (hb : 0 < b) :
    (dx / (a / 4)) ^ 2 + (dy / (b / 4)) ^ 2 ≤ 1 ↔
      16 * b ^ 2 * dx ^ 2 + 16 * a ^ 2 * dy ^ 2 ≤ a ^ 2 * b ^ 2 := by
  have e : (dx / (a / 4)) ^ 2 + (dy / (b / 4)) ^ 2 =
      (16 * b ^ 2 * dx ^ 2 + 16 * a ^ 2 * dy ^ 2) / (a ^ 2 * b ^ 2) := by
    field_simp
    ring
  rw [e, div_le_one (by positivity)]

/-- 3-D: weights `(16·b²c², 16·a²c², 16·a²b²)`, bound `a²·b²·c²` -/
theorem perAxis3 (a b c dx dy dz : ℚ) (ha : 0 < a) (hb : 0 < b) (hc : 0 < c) :
    (dx / (a / 4)) ^ 2 + (dy / (b / 4)) ^ 2 + (dz / (c / 4)) ^ 2 ≤ 1 ↔
      16 * (b ^ 2 * c ^ 2) * dx ^ 2 + 16 * (a ^ 2 * c ^ 2) * dy ^ 2 + 16 * (a ^ 2 * b ^ 2) * dz ^ 2
        ≤ a ^ 2 * b ^ 2 * c ^ 2 := by
  have e : (dx / (a / 4)) ^ 2 + (dy / (b / 4)) ^ 2 + (dz / (c / 4)) ^ 2 =
      (16 * (b ^ 2 * c ^ 2) * dx ^ 2 + 16 * (a ^ 2 * c ^ 2) * dy ^ 2 +
        16 * (a ^ 2 * b ^ 2) * dz ^ 2) / (a ^ 2 * b ^ 2 * c ^ 2) := by
    field_simp
    ring
  rw [e, div_le_one (by positivity)]

/-- the weighted integer cost is the rescaled squared distance times the positive constant `B`,
so comparing weighted costs is comparing rescaled distances (2-D; the other dimensions alike) -/
theorem cost_scale2 (a b dx dy : ℚ) (ha : 0 < a) (hb : 0 < b) :
    16 * b ^ 2 * dx ^ 2 + 16 * a ^ 2 * dy ^ 2 =
      (a ^ 2 * b ^ 2) * ((dx / (a / 4)) ^ 2 + (dy / (b / 4)) ^ 2) := by
  field_simp
  ring

theorem cost_scale3 (a b c dx dy dz : ℚ) (ha : 0 < a) (hb : 0 < b) (hc : 0 < c) :
    16 * (b ^ 2 * c ^ 2) * dx ^ 2 + 16 * (a ^ 2 * c ^ 2) * dy ^ 2 + 16 * (a ^ 2 * b ^ 2) * dz ^ 2 =
      (a ^ 2 * b ^ 2 * c ^ 2) *
        ((dx / (a / 4)) ^ 2 + (dy / (b / 4)) ^ 2 + (dz / (c / 4)) ^ 2) := by
  field_simp
  ring

/-- isotropic range `r/4`: weights 16, bound `r²` -/
theorem iso (r : ℚ) (hr : 0 < r) (d2 : ℚ) : d2 ≤ (r / 4) ^ 2 ↔ 16 * d2 ≤ r ^ 2 := by
  constructor <;> intro h <;> nlinarith [h]

example : (3 / (8 / 4 : ℚ)) ^ 2 + (1 / (4 / 4 : ℚ)) ^ 2 ≤ 1 ↔
    16 * (4 : ℚ) ^ 2 * 3 ^ 2 + 16 * 8 ^ 2 * 1 ^ 2 ≤ 8 ^ 2 * 4 ^ 2 :=
  perAxis2 8 4 3 1 (by norm_num) (by norm_num)

end TrackpyV.Scale
