import TrackpyV.Props.C19Arc
import Mathlib.Tactic.Ring
/-!
# C19 (X45) — invariance of `cluster` and `proximity`

The harness runs metamorphic passes (shuffled rows, renamed columns, shifted / rescaled
coordinates, renumbered frames); these theorems are what those passes test.

Clause map:

* rows of a frame permuted (labels carried along by the row bijection `σ`)
    → `cluster_relabel_invariant` (every row bijection that carries the rows),
      `cluster_perm_invariant` (`List.Perm` form), `cluster_perm_labels_witness`
      (the label VALUES do change), `proximity_relabel_invariant`, `proximity_perm_invariant`
* translation by a constant vector → `cluster_translation_invariant`,
      `proximity_translation_invariant`
* rescaling → `cluster_scale_invariant` (per-axis non-zero factors, positions and per-axis
      separations alike), `cluster_scale_uniform` (one factor), `proximity_scale`
      (SQUARED distances, which is what the model's `proximity` returns, scale by `c²`)
* frames renumbered by a map that is strictly increasing on the frame numbers that occur
    → `cluster_frame_renumber`

What is TRUE of the model, and where it differs from the naive phrasing:

* `from_pairs` receives the pairs in the iteration order of a Python `set`; all theorems hold for
  EVERY pair order on either side (`E`, `E'` arbitrary lists with the members of `pairs`).
  Therefore only the PARTITION (labels equal ⇔ labels equal) and the `cluster_size` column are
  invariant — label values are not, not even under the identity (see the last example of
  Props/C19.lean) — and the statements say exactly that.
* scale invariance needs factors `≠ 0` only (reflections included), not `> 0`.
* `proximity` of the model is the squared distance; `proximity_scale` holds for every `c`
  (also `c ≤ 0`); the distance itself scales by `|c|`.
* `clusterIter` takes the frames already grouped in ascending frame number: frame numbers enter
  only through that order.  `cluster_frame_renumber` therefore states grouping explicitly
  (`IsFrameIndex`, `framesOf`) and proves that the grouped frames — hence the whole output, label
  VALUES included — are literally unchanged.  A renumbering that is not increasing reorders the
  frames and shifts the ids.
-/
namespace TrackpyV.Static

/-! ### vocabulary -/

/-- `σ` and `τ` are mutually inverse bijections of the row numbers `0 … n-1` -/
structure IdxIso (n : Nat) (σ τ : Nat → Nat) : Prop where
  lt : ∀ i, i < n → σ i < n
  lt' : ∀ i, i < n → τ i < n
  left : ∀ i, i < n → τ (σ i) = i
  right : ∀ i, i < n → σ (τ i) = i

/-- row `i` of `pts` is row `σ i` of `pts'` (the rows are "carried along") -/
structure RowIso (pts pts' : List Point) (σ τ : Nat → Nat) : Prop where
  len : pts.length = pts'.length
  idx : IdxIso pts.length σ τ
  row : ∀ i, i < pts.length → pts'.getD (σ i) [] = pts.getD i []

/-- multiplication of coordinate `k` by `cs[k]` (also applied to a per-axis separation) -/
def scaleAxes (cs p : Point) : Point := List.zipWith (· * ·) p cs

/-- multiplication of every coordinate by `c` -/
def scale (c : Rat) (p : Point) : Point := p.map (c * ·)

/-- the frame numbers of a table, as `groupby` lists them: ascending, each once -/
def IsFrameIndex (rows : List (Nat × Point)) (keys : List Nat) : Prop :=
  keys.Pairwise (· < ·) ∧ ∀ k, k ∈ keys ↔ ∃ r ∈ rows, r.1 = k

/-- the groups of `groupby(t_column)`: per frame number the rows in table order -/
def framesOf (rows : List (Nat × Point)) (keys : List Nat) : List (List Point) :=
  keys.map fun k => (rows.filter (·.1 == k)).map (·.2)

/-- the frame column rewritten by `g` -/
def renumber (g : Nat → Nat) (rows : List (Nat × Point)) : List (Nat × Point) :=
  rows.map fun r => (g r.1, r.2)

/-! ### helpers -/

theorem idxIso_id (n : Nat) : IdxIso n id id :=
  ⟨fun _ h => h, fun _ h => h, fun _ _ => rfl, fun _ _ => rfl⟩

theorem IdxIso.symm {n : Nat} {σ τ : Nat → Nat} (h : IdxIso n σ τ) : IdxIso n τ σ :=
  ⟨h.lt', h.lt, h.right, h.left⟩

theorem IdxIso.inj {n : Nat} {σ τ : Nat → Nat} (h : IdxIso n σ τ) {x y : Nat} (hx : x < n)
    (hy : y < n) (he : σ x = σ y) : x = y := by
  rw [← h.left x hx, ← h.left y hy, he]

theorem RowIso.symm {pts pts' : List Point} {σ τ : Nat → Nat} (h : RowIso pts pts' σ τ) :
    RowIso pts' pts τ σ := by
  refine ⟨h.len.symm, h.len ▸ h.idx.symm, fun i hi => ?_⟩
  have hi' : i < pts.length := h.len ▸ hi
  rw [← h.row (τ i) (h.idx.lt' i hi'), h.idx.right i hi']

theorem reach_map {R S : Nat → Nat → Prop} (f : Nat → Nat)
    (h : ∀ x y, R x y → S (f x) (f y)) {a b : Nat} (hr : Reach R a b) : Reach S (f a) (f b) := by
  induction hr with
  | refl => exact Reach.refl _
  | step _ hbc ih => exact Reach.step ih (h _ _ hbc)

theorem getD_map_nil (f : Point → Point) (hf : f [] = []) (pts : List Point) (x : Nat) :
    (pts.map f).getD x [] = f (pts.getD x []) := by
  simp only [List.getD_eq_getElem?_getD, List.getElem?_map]
  cases pts[x]? <;> simp [hf]

theorem getD_mem_of_lt (pts : List Point) {x : Nat} (hx : x < pts.length) :
    pts.getD x [] ∈ pts := by
  simp [List.getD_eq_getElem?_getD, List.getElem?_eq_getElem hx]

/-- a `List.Perm` is realised by a bijection of the row numbers -/
theorem perm_rowIso {pts pts' : List Point} (h : pts.Perm pts') :
    ∃ σ τ, RowIso pts pts' σ τ := by
  induction h with
  | nil => exact ⟨id, id, rfl, idxIso_id _, fun _ _ => rfl⟩
  | @cons x l l' _ ih =>
    obtain ⟨σ, τ, hl, hi, hr⟩ := ih
    refine ⟨fun i => match i with | 0 => 0 | i + 1 => σ i + 1,
            fun i => match i with | 0 => 0 | i + 1 => τ i + 1, by simp [hl], ⟨?_, ?_, ?_, ?_⟩, ?_⟩
    · intro i h; cases i with
      | zero => simp
      | succ i => simpa using hi.lt i (by simpa using h)
    · intro i h; cases i with
      | zero => simp
      | succ i => simpa using hi.lt' i (by simpa using h)
    · intro i h; cases i with
      | zero => rfl
      | succ i => simpa using hi.left i (by simpa using h)
    · intro i h; cases i with
      | zero => rfl
      | succ i => simpa using hi.right i (by simpa using h)
    · intro i h; cases i with
      | zero => rfl
      | succ i => simpa using hr i (by simpa using h)
  | swap x y l =>
    refine ⟨fun i => match i with | 0 => 1 | 1 => 0 | i + 2 => i + 2,
            fun i => match i with | 0 => 1 | 1 => 0 | i + 2 => i + 2, rfl, ⟨?_, ?_, ?_, ?_⟩, ?_⟩
    all_goals
      intro i h
      match i with
      | 0 => simp
      | 1 => simp
      | i + 2 => first | exact h | simp
  | @trans l₁ l₂ l₃ _ _ ih₁ ih₂ =>
    obtain ⟨σ₁, τ₁, hl₁, hi₁, hr₁⟩ := ih₁
    obtain ⟨σ₂, τ₂, hl₂, hi₂, hr₂⟩ := ih₂
    rw [← hl₁] at hi₂ hr₂
    refine ⟨σ₂ ∘ σ₁, τ₁ ∘ τ₂, hl₁.trans hl₂, ⟨?_, ?_, ?_, ?_⟩, ?_⟩
    · intro i h; exact hi₂.lt _ (hi₁.lt i h)
    · intro i h; exact hi₁.lt' _ (hi₂.lt' i h)
    · intro i h
      show τ₁ (τ₂ (σ₂ (σ₁ i))) = i
      rw [hi₂.left _ (hi₁.lt i h), hi₁.left i h]
    · intro i h
      show σ₂ (σ₁ (τ₁ (τ₂ i))) = i
      rw [hi₁.right _ (hi₂.lt' i h), hi₂.right i h]
    · intro i h
      show l₃.getD (σ₂ (σ₁ i)) [] = _
      rw [hr₂ _ (hi₁.lt i h), hr₁ i h]

/-- the workhorse: an isomorphism of the "closer than separation" graphs carries the partition
and the sizes, whatever the two pair orders -/
theorem cluster_transport (sep sep' : Point) (pts pts' : List Point) (E E' : List (Nat × Nat))
    (hE : ∀ p, p ∈ E ↔ p ∈ pairs sep pts) (hE' : ∀ p, p ∈ E' ↔ p ∈ pairs sep' pts')
    (σ τ : Nat → Nat) (hn : pts.length = pts'.length) (hi : IdxIso pts.length σ τ)
    (fwd : ∀ x y, Close sep pts x y → Close sep' pts' (σ x) (σ y))
    (bwd : ∀ x y, Close sep' pts' x y → Close sep pts (τ x) (τ y))
    (a b : Nat) (ha : a < pts.length) (hb : b < pts.length) :
    ((Clusters.fromPairs E pts.length).posIds.getD a 0 =
        (Clusters.fromPairs E pts.length).posIds.getD b 0 ↔
      (Clusters.fromPairs E' pts'.length).posIds.getD (σ a) 0 =
        (Clusters.fromPairs E' pts'.length).posIds.getD (σ b) 0) ∧
    (Clusters.fromPairs E pts.length).clusterSize[a]? =
      (Clusters.fromPairs E' pts'.length).clusterSize[σ a]? := by
  have reach_iff : ∀ a b, a < pts.length → b < pts.length →
      (Reach (Close sep pts) a b ↔ Reach (Close sep' pts') (σ a) (σ b)) := by
    intro a b ha hb
    refine ⟨reach_map σ fwd, fun h => ?_⟩
    have := reach_map τ bwd h
    rwa [hi.left a ha, hi.left b hb] at this
  have hσa : σ a < pts'.length := hn ▸ hi.lt a ha
  have hσb : σ b < pts'.length := hn ▸ hi.lt b hb
  refine ⟨?_, ?_⟩
  · rw [cluster_iff_connected sep pts E hE a b ha hb,
      cluster_iff_connected sep' pts' E' hE' (σ a) (σ b) hσa hσb]
    exact reach_iff a b ha hb
  · obtain ⟨comp, hnd, hmem, hsz⟩ := cluster_size_correct sep pts E hE a ha
    obtain ⟨comp', hnd', hmem', hsz'⟩ := cluster_size_correct sep' pts' E' hE' (σ a) hσa
    rw [hsz, hsz']
    have hnd₂ : (comp.map σ).Nodup := by
      unfold List.Nodup
      rw [List.pairwise_map]
      exact List.Pairwise.imp_of_mem (l := comp)
        (fun {x y} hx hy hne he =>
          hne (hi.inj ((hmem x).1 hx).1 ((hmem y).1 hy).1 he)) hnd
    have hp : (comp.map σ).Perm comp' := by
      rw [List.perm_ext_iff_of_nodup hnd₂ hnd']
      intro g
      rw [List.mem_map, hmem']
      constructor
      · rintro ⟨x, hx, rfl⟩
        obtain ⟨hxl, hxr⟩ := (hmem x).1 hx
        exact ⟨hn ▸ hi.lt x hxl, (reach_iff a x ha hxl).1 hxr⟩
      · rintro ⟨hg, hr⟩
        have hg' : g < pts.length := hn ▸ hg
        refine ⟨τ g, (hmem _).2 ⟨hi.lt' g hg', ?_⟩, hi.right g hg'⟩
        rw [reach_iff a (τ g) ha (hi.lt' g hg'), hi.right g hg']
        exact hr
    have := hp.length_eq
    rw [List.length_map] at this
    rw [this]

theorem close_of_rowIso (sep : Point) {pts pts' : List Point} {σ τ : Nat → Nat}
    (h : RowIso pts pts' σ τ) (x y : Nat) (hc : Close sep pts x y) :
    Close sep pts' (σ x) (σ y) := by
  obtain ⟨hx, hy, hne, hd⟩ := hc
  refine ⟨h.len ▸ h.idx.lt x hx, h.len ▸ h.idx.lt y hy,
    fun he => hne (h.idx.inj hx hy he), ?_⟩
  rw [h.row x hx, h.row y hy]
  exact hd

theorem close_congr {sep sep' : Point} {pts pts' : List Point} (hn : pts.length = pts'.length)
    (hd : ∀ x y, x < pts.length → y < pts.length →
      sdist2 sep' (pts'.getD x []) (pts'.getD y []) = sdist2 sep (pts.getD x []) (pts.getD y []))
    (x y : Nat) : Close sep pts x y ↔ Close sep' pts' x y := by
  unfold Close
  constructor
  · rintro ⟨hx, hy, hne, h⟩
    exact ⟨hn ▸ hx, hn ▸ hy, hne, by rw [hd x y hx hy]; exact h⟩
  · rintro ⟨hx, hy, hne, h⟩
    have hx' : x < pts.length := hn ▸ hx
    have hy' : y < pts.length := hn ▸ hy
    exact ⟨hx', hy', hne, by rw [← hd x y hx' hy']; exact h⟩

/-- the identity-relabelling case of `cluster_transport` -/
theorem cluster_congr (sep sep' : Point) (pts pts' : List Point) (E E' : List (Nat × Nat))
    (hE : ∀ p, p ∈ E ↔ p ∈ pairs sep pts) (hE' : ∀ p, p ∈ E' ↔ p ∈ pairs sep' pts')
    (hn : pts.length = pts'.length)
    (hd : ∀ x y, x < pts.length → y < pts.length →
      sdist2 sep' (pts'.getD x []) (pts'.getD y []) = sdist2 sep (pts.getD x []) (pts.getD y []))
    (a b : Nat) (ha : a < pts.length) (hb : b < pts.length) :
    ((Clusters.fromPairs E pts.length).posIds.getD a 0 =
        (Clusters.fromPairs E pts.length).posIds.getD b 0 ↔
      (Clusters.fromPairs E' pts'.length).posIds.getD a 0 =
        (Clusters.fromPairs E' pts'.length).posIds.getD b 0) ∧
    (Clusters.fromPairs E pts.length).clusterSize[a]? =
      (Clusters.fromPairs E' pts'.length).clusterSize[a]? :=
  cluster_transport sep sep' pts pts' E E' hE hE' id id hn (idxIso_id _)
    (fun x y => (close_congr hn hd x y).1) (fun x y => (close_congr hn hd x y).2) a b ha hb

theorem sdist2_translate (t : Point) : ∀ (sep p q : Point), p.length = t.length →
    q.length = t.length → sdist2 sep (translate t p) (translate t q) = sdist2 sep p q := by
  unfold sdist2 dist2 scaled translate
  induction t with
  | nil =>
    intro sep p q hp hq
    simp at hp hq; subst hp; subst hq; rfl
  | cons s t ih =>
    intro sep p q hp hq
    cases p with
    | nil => simp at hp
    | cons a p =>
      cases q with
      | nil => simp at hq
      | cons b q =>
        cases sep with
        | nil => simp
        | cons u sep =>
          simp only [List.length_cons, Nat.add_right_cancel_iff] at hp hq
          simp only [List.zipWith_cons_cons, List.sum_cons, ih sep p q hp hq]
          congr 1
          ring

theorem sdist2_scaleAxes (cs : Point) : ∀ (sep p q : Point), (∀ c ∈ cs, c ≠ 0) →
    p.length = cs.length → q.length = cs.length →
    sdist2 (scaleAxes cs sep) (scaleAxes cs p) (scaleAxes cs q) = sdist2 sep p q := by
  unfold sdist2 dist2 scaled scaleAxes
  induction cs with
  | nil =>
    intro sep p q _ hp hq
    simp at hp hq; subst hp; subst hq; simp
  | cons c cs ih =>
    intro sep p q hc hp hq
    cases p with
    | nil => simp at hp
    | cons a p =>
      cases q with
      | nil => simp at hq
      | cons b q =>
        cases sep with
        | nil => simp
        | cons u sep =>
          have hc0 : c ≠ 0 := hc c (by simp)
          simp only [List.length_cons, Nat.add_right_cancel_iff] at hp hq
          simp only [List.zipWith_cons_cons, List.sum_cons,
            ih sep p q (fun c h => hc c (by simp [h])) hp hq,
            mul_div_mul_right _ _ hc0]

theorem sdist2_scale (c : Rat) (hc : c ≠ 0) : ∀ (sep p q : Point),
    sdist2 (scale c sep) (scale c p) (scale c q) = sdist2 sep p q := by
  unfold sdist2 dist2 scaled scale
  intro sep
  induction sep with
  | nil => intro p q; simp
  | cons u sep ih =>
    intro p q
    cases p with
    | nil => simp
    | cons a p =>
      cases q with
      | nil => simp
      | cons b q =>
        simp only [List.map_cons, List.zipWith_cons_cons, List.sum_cons, ih p q,
          mul_div_mul_left _ _ hc]

theorem dist2_scale (c : Rat) : ∀ (p q : Point),
    dist2 (scale c p) (scale c q) = c * c * dist2 p q := by
  unfold dist2 scale
  intro p
  induction p with
  | nil => intro q; simp
  | cons a p ih =>
    intro q
    cases q with
    | nil => simp
    | cons b q =>
      simp only [List.map_cons, List.zipWith_cons_cons, List.sum_cons, ih q]
      ring

/-! ### (a) rows permuted -/

/-- **Relabelling the rows of a frame does not change the partition nor any `cluster_size`.**
For EVERY bijection `σ` of the row numbers that carries the rows (`pts'[σ i] = pts[i]`; with
duplicate positions there are several) and every two pair orders `E`, `E'`: rows `a`, `b` share a
label before iff rows `σ a`, `σ b` share one after, and `cluster_size` of row `a` before is
`cluster_size` of row `σ a` after.  Label VALUES are not preserved: `cluster_perm_labels_witness`. -/
theorem cluster_relabel_invariant (sep : Point) (pts pts' : List Point) (σ τ : Nat → Nat)
    (h : RowIso pts pts' σ τ) (E E' : List (Nat × Nat))
    (hE : ∀ p, p ∈ E ↔ p ∈ pairs sep pts) (hE' : ∀ p, p ∈ E' ↔ p ∈ pairs sep pts')
    (a b : Nat) (ha : a < pts.length) (hb : b < pts.length) :
    ((Clusters.fromPairs E pts.length).posIds.getD a 0 =
        (Clusters.fromPairs E pts.length).posIds.getD b 0 ↔
      (Clusters.fromPairs E' pts'.length).posIds.getD (σ a) 0 =
        (Clusters.fromPairs E' pts'.length).posIds.getD (σ b) 0) ∧
    (Clusters.fromPairs E pts.length).clusterSize[a]? =
      (Clusters.fromPairs E' pts'.length).clusterSize[σ a]? :=
  cluster_transport sep sep pts pts' E E' hE hE' σ τ h.len h.idx
    (close_of_rowIso sep h)
    (fun x y hc => close_of_rowIso sep h.symm x y hc) a b ha hb

/-- **`List.Perm` form**: a permutation of the point list of a frame is realised by a row
bijection `σ` that carries the rows, and along it partition and sizes are unchanged. -/
theorem cluster_perm_invariant (sep : Point) (pts pts' : List Point) (hp : pts.Perm pts') :
    ∃ σ τ, RowIso pts pts' σ τ ∧
      ∀ (E E' : List (Nat × Nat)), (∀ p, p ∈ E ↔ p ∈ pairs sep pts) →
        (∀ p, p ∈ E' ↔ p ∈ pairs sep pts') →
        ∀ a b, a < pts.length → b < pts.length →
          ((Clusters.fromPairs E pts.length).posIds.getD a 0 =
              (Clusters.fromPairs E pts.length).posIds.getD b 0 ↔
            (Clusters.fromPairs E' pts'.length).posIds.getD (σ a) 0 =
              (Clusters.fromPairs E' pts'.length).posIds.getD (σ b) 0) ∧
          (Clusters.fromPairs E pts.length).clusterSize[a]? =
            (Clusters.fromPairs E' pts'.length).clusterSize[σ a]? := by
  obtain ⟨σ, τ, h⟩ := perm_rowIso hp
  exact ⟨σ, τ, h, fun E E' hE hE' a b ha hb =>
    cluster_relabel_invariant sep pts pts' σ τ h E E' hE hE' a b ha hb⟩

/-- **The label VALUES are not permutation invariant** (model's own pair order): the lone feature
`[0]` is labelled 0 when it is the first row and 2 when it is the last; the pair `{[5], [11/2]}`
is labelled 1 resp. 0. -/
theorem cluster_perm_labels_witness :
    [[0], [5], [11/2]].Perm [[5], [11/2], [(0 : Rat)]] ∧
    (Clusters.fromCoords [1] [[0], [5], [11/2]]).posIds = [0, 1, 1] ∧
    (Clusters.fromCoords [1] [[5], [11/2], [0]]).posIds = [0, 0, 2] := by
  refine ⟨?_, by decide +kernel, by decide +kernel⟩
  exact (List.perm_append_comm (l₁ := [[(0 : Rat)]]) (l₂ := [[5], [11/2]]))

/-! ### (b) translation and rescaling -/

/-- **Adding a constant vector to every position does not change partition nor sizes** (every
position has the dimension of `t`; any separation, any two pair orders). -/
theorem cluster_translation_invariant (sep t : Point) (pts : List Point)
    (hp : ∀ p ∈ pts, p.length = t.length) (E E' : List (Nat × Nat))
    (hE : ∀ p, p ∈ E ↔ p ∈ pairs sep pts)
    (hE' : ∀ p, p ∈ E' ↔ p ∈ pairs sep (pts.map (translate t)))
    (a b : Nat) (ha : a < pts.length) (hb : b < pts.length) :
    ((Clusters.fromPairs E pts.length).posIds.getD a 0 =
        (Clusters.fromPairs E pts.length).posIds.getD b 0 ↔
      (Clusters.fromPairs E' (pts.map (translate t)).length).posIds.getD a 0 =
        (Clusters.fromPairs E' (pts.map (translate t)).length).posIds.getD b 0) ∧
    (Clusters.fromPairs E pts.length).clusterSize[a]? =
      (Clusters.fromPairs E' (pts.map (translate t)).length).clusterSize[a]? := by
  refine cluster_congr sep sep pts _ E E' hE hE' (by simp) (fun x y hx hy => ?_) a b ha hb
  rw [getD_map_nil _ (by simp [translate]), getD_map_nil _ (by simp [translate])]
  exact sdist2_translate t sep _ _ (hp _ (getD_mem_of_lt pts hx)) (hp _ (getD_mem_of_lt pts hy))

/-- **Per-axis rescaling**: multiplying coordinate `k` of every position AND of the (per-axis)
separation by the same factor `cs[k] ≠ 0` does not change partition nor sizes. -/
theorem cluster_scale_invariant (sep cs : Point) (pts : List Point) (hc : ∀ c ∈ cs, c ≠ 0)
    (hp : ∀ p ∈ pts, p.length = cs.length) (E E' : List (Nat × Nat))
    (hE : ∀ p, p ∈ E ↔ p ∈ pairs sep pts)
    (hE' : ∀ p, p ∈ E' ↔ p ∈ pairs (scaleAxes cs sep) (pts.map (scaleAxes cs)))
    (a b : Nat) (ha : a < pts.length) (hb : b < pts.length) :
    ((Clusters.fromPairs E pts.length).posIds.getD a 0 =
        (Clusters.fromPairs E pts.length).posIds.getD b 0 ↔
      (Clusters.fromPairs E' (pts.map (scaleAxes cs)).length).posIds.getD a 0 =
        (Clusters.fromPairs E' (pts.map (scaleAxes cs)).length).posIds.getD b 0) ∧
    (Clusters.fromPairs E pts.length).clusterSize[a]? =
      (Clusters.fromPairs E' (pts.map (scaleAxes cs)).length).clusterSize[a]? := by
  refine cluster_congr sep _ pts _ E E' hE hE' (by simp) (fun x y hx hy => ?_) a b ha hb
  rw [getD_map_nil _ (by simp [scaleAxes]), getD_map_nil _ (by simp [scaleAxes])]
  exact sdist2_scaleAxes cs sep _ _ hc (hp _ (getD_mem_of_lt pts hx))
    (hp _ (getD_mem_of_lt pts hy))

/-- **Uniform rescaling**: positions and separation multiplied by one `c ≠ 0` (no hypothesis on
the dimensions). -/
theorem cluster_scale_uniform (sep : Point) (c : Rat) (hc : c ≠ 0) (pts : List Point)
    (E E' : List (Nat × Nat)) (hE : ∀ p, p ∈ E ↔ p ∈ pairs sep pts)
    (hE' : ∀ p, p ∈ E' ↔ p ∈ pairs (scale c sep) (pts.map (scale c)))
    (a b : Nat) (ha : a < pts.length) (hb : b < pts.length) :
    ((Clusters.fromPairs E pts.length).posIds.getD a 0 =
        (Clusters.fromPairs E pts.length).posIds.getD b 0 ↔
      (Clusters.fromPairs E' (pts.map (scale c)).length).posIds.getD a 0 =
        (Clusters.fromPairs E' (pts.map (scale c)).length).posIds.getD b 0) ∧
    (Clusters.fromPairs E pts.length).clusterSize[a]? =
      (Clusters.fromPairs E' (pts.map (scale c)).length).clusterSize[a]? := by
  refine cluster_congr sep _ pts _ E E' hE hE' (by simp) (fun x y _ _ => ?_) a b ha hb
  rw [getD_map_nil _ (by simp [scale]), getD_map_nil _ (by simp [scale])]
  exact sdist2_scale c hc sep _ _

/-! ### (c) frames renumbered -/

/-- **Renumbering the frames by a map that is strictly increasing on the frame numbers that
occur changes nothing**: the renumbered keys are again the ascending frame index of the
renumbered table, `groupby` yields literally the same groups in the same order, so the whole
output of `cluster_iter` — every frame's labels (values included) and sizes — is the same, and
the ids of different frames are still disjoint. -/
theorem cluster_frame_renumber (sep : Point) (rows : List (Nat × Point)) (keys : List Nat)
    (g : Nat → Nat) (hk : IsFrameIndex rows keys)
    (hg : ∀ a ∈ keys, ∀ b ∈ keys, a < b → g a < g b) :
    IsFrameIndex (renumber g rows) (keys.map g) ∧
    framesOf (renumber g rows) (keys.map g) = framesOf rows keys ∧
    clusterIter sep (framesOf (renumber g rows) (keys.map g)) =
      clusterIter sep (framesOf rows keys) ∧
    List.Pairwise (fun o1 o2 : FrameOut => ∀ a ∈ o1.ids, ∀ b ∈ o2.ids, a ≠ b)
      (clusterIter sep (framesOf (renumber g rows) (keys.map g))) := by
  have hinj : ∀ a ∈ keys, ∀ b ∈ keys, g a = g b → a = b := by
    intro a ha b hb he
    rcases Nat.lt_trichotomy a b with h | h | h
    · have := hg a ha b hb h; omega
    · exact h
    · have := hg b hb a ha h; omega
  have hfr : framesOf (renumber g rows) (keys.map g) = framesOf rows keys := by
    unfold framesOf renumber
    rw [List.map_map]
    apply List.map_congr_left
    intro k hkm
    simp only [Function.comp_apply, List.filter_map, List.map_map]
    have : (List.filter ((fun x : Nat × Point => x.1 == g k) ∘ fun r => (g r.1, r.2)) rows) =
        List.filter (fun x => x.1 == k) rows := by
      apply List.filter_congr
      intro r hr
      have hrk : r.1 ∈ keys := (hk.2 r.1).2 ⟨r, hr, rfl⟩
      simp only [Function.comp_apply]
      by_cases h : r.1 = k
      · simp [h]
      · have : g r.1 ≠ g k := fun he => h (hinj _ hrk _ hkm he)
        simp [h, this]
    rw [this]
    apply List.map_congr_left
    intro r _
    rfl
  refine ⟨⟨?_, ?_⟩, hfr, by rw [hfr], clusterIter_ids_disjoint sep _⟩
  · rw [List.pairwise_map]
    exact List.Pairwise.imp_of_mem (fun {a b} ha hb h => hg a ha b hb h) hk.1
  · intro k'
    unfold renumber
    simp only [List.mem_map]
    constructor
    · rintro ⟨k, hkm, rfl⟩
      obtain ⟨r, hr, rfl⟩ := (hk.2 k).1 hkm
      exact ⟨(g r.1, r.2), ⟨r, hr, rfl⟩, rfl⟩
    · rintro ⟨_, ⟨r, hr, rfl⟩, rfl⟩
      exact ⟨r.1, (hk.2 r.1).2 ⟨r, hr, rfl⟩, rfl⟩

/-! ### (d) proximity -/

/-- the workhorse for `proximity`: a row bijection under which every squared distance is mapped
by a monotone `f` maps the nearest-neighbour squared distance by `f` -/
theorem proximity_transport (pts pts' : List Point) (σ τ : Nat → Nat) (f : Rat → Rat)
    (hn : pts.length = pts'.length) (hi : IdxIso pts.length σ τ)
    (hf : ∀ x y : Rat, x ≤ y → f x ≤ f y)
    (hd : ∀ x y, x < pts.length → y < pts.length →
      dist2 (pts'.getD (σ x) []) (pts'.getD (σ y) []) = f (dist2 (pts.getD x []) (pts.getD y [])))
    (i : Nat) (hil : i < pts.length) :
    proximity pts' (σ i) = (proximity pts i).map f := by
  cases h : proximity pts i with
  | none =>
    rw [proximity_none_iff] at h
    rw [Option.map_none, proximity_none_iff]
    intro j hj
    have hj' : j < pts.length := hn ▸ hj
    rw [← hi.right j hj', h (τ j) (hi.lt' j hj')]
  | some d =>
    rw [proximity_is_min] at h
    rw [Option.map_some, proximity_is_min]
    obtain ⟨⟨j, hj, hne, hdj⟩, hall⟩ := h
    refine ⟨⟨σ j, hn ▸ hi.lt j hj, fun he => hne (hi.inj hj hil he), ?_⟩, fun j' hj' hne' => ?_⟩
    · rw [hd i j hil hj, hdj]
    · have hj'' : j' < pts.length := hn ▸ hj'
      have hτ : τ j' ≠ i := fun he => hne' (by rw [← he, hi.right j' hj''])
      rw [← hi.right j' hj'', hd i (τ j') hil (hi.lt' j' hj'')]
      exact hf _ _ (hall (τ j') (hi.lt' j' hj'') hτ)

/-- **Relabelling the rows carries `proximity` along**: row `σ i` of the permuted frame has the
proximity of row `i`. -/
theorem proximity_relabel_invariant (pts pts' : List Point) (σ τ : Nat → Nat)
    (h : RowIso pts pts' σ τ) (i : Nat) (hi : i < pts.length) :
    proximity pts' (σ i) = proximity pts i := by
  have := proximity_transport pts pts' σ τ id h.len h.idx (fun _ _ h => h)
    (fun x y hx hy => by rw [h.row x hx, h.row y hy]; rfl) i hi
  rw [this]; cases proximity pts i <;> rfl

/-- **`List.Perm` form.** -/
theorem proximity_perm_invariant (pts pts' : List Point) (hp : pts.Perm pts') :
    ∃ σ τ, RowIso pts pts' σ τ ∧ ∀ i, i < pts.length → proximity pts' (σ i) = proximity pts i := by
  obtain ⟨σ, τ, h⟩ := perm_rowIso hp
  exact ⟨σ, τ, h, fun i hi => proximity_relabel_invariant pts pts' σ τ h i hi⟩

/-- **Translation does not change `proximity`.** -/
theorem proximity_translation_invariant (t : Point) (pts : List Point)
    (hp : ∀ p ∈ pts, p.length = t.length) (i : Nat) (hi : i < pts.length) :
    proximity (pts.map (translate t)) i = proximity pts i := by
  have := proximity_transport pts (pts.map (translate t)) id id id (by simp) (idxIso_id _)
    (fun _ _ h => h)
    (fun x y hx hy => by
      simp only [id]
      rw [getD_map_nil _ (by simp [translate]), getD_map_nil _ (by simp [translate])]
      exact dist2_translate t _ _ (hp _ (getD_mem_of_lt pts hx)) (hp _ (getD_mem_of_lt pts hy)))
    i hi
  simp only [id] at this
  rw [this]; cases proximity pts i <;> rfl

/-- **Scaling**: multiplying every coordinate by `c` (any rational) multiplies the squared
nearest-neighbour distance by `c²` — i.e. the distance by `|c|`; `inf` stays `inf`. -/
theorem proximity_scale (c : Rat) (pts : List Point) (i : Nat) (hi : i < pts.length) :
    proximity (pts.map (scale c)) i = (proximity pts i).map (c * c * ·) := by
  have := proximity_transport pts (pts.map (scale c)) id id (c * c * ·) (by simp) (idxIso_id _)
    (fun x y h => mul_le_mul_of_nonneg_left h (mul_self_nonneg c))
    (fun x y _ _ => by
      simp only [id]
      rw [getD_map_nil _ (by simp [scale]), getD_map_nil _ (by simp [scale])]
      exact dist2_scale c _ _)
    i hi
  simpa only [id] using this

/-! ### (e) non-vacuity: a 5-point frame with classes {0,1}, {2,3}, {4} -/

/-- the frame -/
def frame5 : List Point := [[0, 0], [1/2, 0], [3, 3], [3, 7/2], [10, 10]]

/-- the same rows in reverse order -/
def frame5r : List Point := [[10, 10], [3, 7/2], [3, 3], [1/2, 0], [0, 0]]

example : frame5.Perm frame5r := by
  show frame5.Perm frame5.reverse
  exact (List.reverse_perm frame5).symm

/-- the hypotheses of `cluster_relabel_invariant` / `proximity_relabel_invariant` hold for the
reversal `i ↦ 4 - i` -/
example : RowIso frame5 frame5r (4 - ·) (4 - ·) :=
  ⟨rfl, ⟨by decide, by decide, by decide, by decide⟩, by decide +kernel⟩

/-- before and after: the labels differ, the partition and the sizes correspond along `4 - ·` -/
example : (Clusters.fromCoords [1, 1] frame5).posIds = [0, 0, 2, 2, 4] ∧
    (Clusters.fromCoords [1, 1] frame5r).posIds = [0, 1, 1, 3, 3] ∧
    (Clusters.fromCoords [1, 1] frame5).clusterSize = [some 2, some 2, some 2, some 2, some 1] ∧
    (Clusters.fromCoords [1, 1] frame5r).clusterSize =
      [some 1, some 2, some 2, some 2, some 2] := by decide +kernel

/-- translation by `(-7, 2)`; per-axis rescaling by `(2, -3)` with separation `(1, 1) ↦ (2, -3)`;
uniform rescaling by 4: the hypotheses hold and the partition is as before -/
example : (∀ p ∈ frame5, p.length = [(-7 : Rat), 2].length) ∧
    (∀ c ∈ [(2 : Rat), -3], c ≠ 0) ∧
    (Clusters.fromCoords [1, 1] (frame5.map (translate [-7, 2]))).posIds = [0, 0, 2, 2, 4] ∧
    (Clusters.fromCoords (scaleAxes [2, -3] [1, 1]) (frame5.map (scaleAxes [2, -3]))).posIds =
      [0, 0, 2, 2, 4] ∧
    (Clusters.fromCoords (scale 4 [1, 1]) (frame5.map (scale 4))).posIds = [0, 0, 2, 2, 4] := by
  decide +kernel

/-- rescaling the positions but NOT the separation merges everything: the separation has to be
rescaled too -/
example : (Clusters.fromCoords [1, 1] (frame5.map (scale (1/100)))).posIds = [0, 0, 0, 0, 0] := by
  decide +kernel

/-- frames 3, 7 renumbered to 0, 1 (`g = (· / 4)`, strictly increasing on {3, 7}) -/
example : IsFrameIndex [(7, [0, 0]), (3, [1, 1]), (7, [0, 1/2]), (3, [5, 5])] [3, 7] ∧
    (∀ a ∈ [3, 7], ∀ b ∈ [3, 7], a < b → a / 4 < b / 4) ∧
    framesOf [(7, [0, 0]), (3, [1, 1]), (7, [0, 1/2]), (3, [5, 5])] [3, 7] =
      [[[1, 1], [5, 5]], [[0, 0], [0, 1/2]]] ∧
    framesOf (renumber (· / 4) [(7, [0, 0]), (3, [1, 1]), (7, [0, 1/2]), (3, [5, 5])]) [0, 1] =
      [[[1, 1], [5, 5]], [[0, 0], [0, 1/2]]] := by
  refine ⟨⟨by decide, fun k => ?_⟩, by decide, by decide +kernel, by decide +kernel⟩
  simp only [List.mem_cons, List.not_mem_nil, or_false]
  constructor
  · rintro (rfl | rfl)
    · exact ⟨(3, [1, 1]), by simp, rfl⟩
    · exact ⟨(7, [0, 0]), by simp, rfl⟩
  · rintro ⟨r, (rfl | rfl | rfl | rfl), rfl⟩ <;> simp

/-- proximity (squared): before, reversed, translated, scaled by −3 (factor 9) -/
example : (List.range 5).map (proximity frame5) =
      [some (1/4), some (1/4), some (1/4), some (1/4), some (365/4)] ∧
    (List.range 5).map (proximity frame5r) =
      [some (365/4), some (1/4), some (1/4), some (1/4), some (1/4)] ∧
    (List.range 5).map (proximity (frame5.map (translate [-7, 2]))) =
      [some (1/4), some (1/4), some (1/4), some (1/4), some (365/4)] ∧
    (List.range 5).map (proximity (frame5.map (scale (-3)))) =
      [some (9/4), some (9/4), some (9/4), some (9/4), some (3285/4)] := by decide +kernel

end TrackpyV.Static
