import TrackpyV.Proofs.Static
/-!
# C19 — static structure measures match their geometric definitions

Clause map (property text → theorem):

* "cluster labels two features of a frame alike exactly when they are connected by a chain of
  features each closer than separation"            → `cluster_iff_connected`, `cluster_column_iff_connected`
* "reports the true cluster sizes"                  → `cluster_size_correct`
* "never reuses a cluster id across frames"         → `cluster_ids_disjoint_frames`
* "proximity returns each feature's distance to its nearest other feature"
                                                    → `proximity_is_min`, `proximity_none_iff`

* "g(r) equals the corrected pair histogram normalised by density"
                                                    → `paircorr_norm`, `density_default`, `binSum_eq_sum`, `binSum_nan`
* "unchanged by translating or permuting the particles"
                                                    → `paircorr_perm_invariant`, `paircorr_translation_invariant`
* "the edge correction equals the true length (2D) or area (3D) of the part of the circle or
  sphere inside the bounding box"
  2-D → Props/C19Arc.lean: `cap_angles`, `corner_angles`, `opposite_disjoint`,
        `arclen_inclusion_exclusion`, `model_arclen_exact` (Mathlib real trigonometry; centre in
        the closed box, every radius).
  3-D → NOT PROVED.
  -- FULL (not proved): area_3d_bounded = area of the part of the sphere inside the box.
  --   The pair-correlation theorems below take the correction as an abstract `arc`; the code's
  --   area_3d_bounded is tied to the geometric definition by the correspondence only
  --   (slice quadrature), see obligations/C19.json "partial".

All statements are about the definitions of `Model/Static.lean` that the native driver executes.
The order in which `from_pairs` receives the pairs is the iteration order of a Python `set`; the
theorems therefore hold for EVERY list `E` with the same members as the model's `pairs`
(the driver checks that decidable side condition on the order the implementation really used).
-/
namespace TrackpyV.Static

/-- **Clusters = connected components.**  After `from_pairs` has been fed (in any order, with
any repetitions) exactly the pairs of features that are strictly closer than `separation`, two
rows of the frame carry the same `pos_ids` entry iff a chain of features, each closer than
`separation` to the next, joins them. -/
theorem cluster_iff_connected (sep : Point) (pts : List Point) (E : List (Nat × Nat))
    (hE : ∀ p, p ∈ E ↔ p ∈ pairs sep pts) (a b : Nat)
    (ha : a < pts.length) (hb : b < pts.length) :
    (Clusters.fromPairs E pts.length).posIds.getD a 0 =
        (Clusters.fromPairs E pts.length).posIds.getD b 0 ↔
      Reach (Close sep pts) a b := by
  have hlt : ∀ p ∈ E, p.1 < pts.length ∧ p.2 < pts.length :=
    fun p hp => pairs_lt p ((hE p).1 hp)
  rw [(good_fromPairs hlt).2 a b ha hb]
  apply reach_congr
  intro x y
  rw [← adj_pairs_iff_close]
  unfold Adj
  rw [hE, hE]

/-- the representation invariant holds after `from_pairs` (dict entries list exactly the rows of
each id, no repetitions) — used by the size theorem, exported because the driver relies on it -/
theorem fromPairs_inv (n : Nat) (E : List (Nat × Nat)) (hE : ∀ p ∈ E, p.1 < n ∧ p.2 < n) :
    Inv n (Clusters.fromPairs E n) := (good_fromPairs hE).1

/-- **True cluster sizes.**  The `cluster_size` entry of row `f` is the number of rows of the
frame that are chain-connected to `f` (itself included). -/
theorem cluster_size_correct (sep : Point) (pts : List Point) (E : List (Nat × Nat))
    (hE : ∀ p, p ∈ E ↔ p ∈ pairs sep pts) (f : Nat) (hf : f < pts.length) :
    ∃ comp : List Nat, comp.Nodup ∧
      (∀ g, g ∈ comp ↔ g < pts.length ∧ Reach (Close sep pts) f g) ∧
      (Clusters.fromPairs E pts.length).clusterSize[f]? = some (some comp.length) := by
  have hlt : ∀ p ∈ E, p.1 < pts.length ∧ p.2 < pts.length :=
    fun p hp => pairs_lt p ((hE p).1 hp)
  have hinv := fromPairs_inv pts.length E hlt
  refine ⟨(List.range (Clusters.fromPairs E pts.length).posIds.length).filter fun g =>
      (Clusters.fromPairs E pts.length).posIds.getD g 0 ==
        (Clusters.fromPairs E pts.length).posIds.getD f 0,
    List.Nodup.sublist List.filter_sublist List.nodup_range, ?_, clusterSize_correct hinv hf⟩
  intro g
  simp only [List.mem_filter, List.mem_range, beq_iff_eq, hinv.len]
  constructor
  · rintro ⟨hg, he⟩
    exact ⟨hg, (cluster_iff_connected sep pts E hE f g hf hg).1 he.symm⟩
  · rintro ⟨hg, hr⟩
    exact ⟨hg, ((cluster_iff_connected sep pts E hE f g hf hg).2 hr).symm⟩

/-- **The `cluster` column of every frame** is `pos_ids` shifted by that frame's start id, and
`cluster_size` is the frame's `cluster_size`; so inside a frame two rows get the same cluster id
iff they are chain-connected (combine with `cluster_iff_connected`). -/
theorem cluster_column (L : List (List (Nat × Nat) × Nat)) (k : Nat) (E : List (Nat × Nat))
    (n : Nat) (hk : L[k]? = some (E, n)) :
    ∃ start, (clusterIterFrom 0 L)[k]? =
      some { ids := (Clusters.fromPairs E n).posIds.map (· + start),
             sizes := (Clusters.fromPairs E n).clusterSize } := by
  obtain ⟨s, _, h⟩ := clusterIterFrom_frame L 0 k E n hk
  exact ⟨s, h⟩

/-- **No cluster id is reused across frames**: every id of an earlier frame is smaller than
every id of a later frame (for any pair orders, any frame sizes). -/
theorem cluster_ids_disjoint_frames (L : List (List (Nat × Nat) × Nat)) :
    List.Pairwise (fun o1 o2 : FrameOut => ∀ a ∈ o1.ids, ∀ b ∈ o2.ids, a < b)
      (clusterIterFrom 0 L) :=
  clusterIterFrom_pairwise L 0

/-- the same for the model's own entry point -/
theorem clusterIter_ids_disjoint (sep : Point) (frames : List (List Point)) :
    List.Pairwise (fun o1 o2 : FrameOut => ∀ a ∈ o1.ids, ∀ b ∈ o2.ids, a ≠ b)
      (clusterIter sep frames) := by
  have := cluster_ids_disjoint_frames (frames.map fun pts => (pairs sep pts, pts.length))
  exact List.Pairwise.imp (fun h a ha b hb => Nat.ne_of_lt (h a ha b hb)) this

/-- **Proximity is the distance to the nearest other feature** (in squared distances):
`proximity pts i = some d` iff some other row is at squared distance `d` and no other row is
closer. -/
theorem proximity_is_min (pts : List Point) (i : Nat) (d : Rat) :
    proximity pts i = some d ↔
      (∃ j, j < pts.length ∧ j ≠ i ∧ dist2 (pts.getD i []) (pts.getD j []) = d) ∧
      (∀ j, j < pts.length → j ≠ i → d ≤ dist2 (pts.getD i []) (pts.getD j [])) := by
  unfold proximity
  rw [List.min?_eq_some_iff, mem_otherDists]
  constructor
  · rintro ⟨h1, h2⟩
    exact ⟨h1, fun j hj hne => h2 _ (mem_otherDists.2 ⟨j, hj, hne, rfl⟩)⟩
  · rintro ⟨h1, h2⟩
    refine ⟨h1, fun b hb => ?_⟩
    obtain ⟨j, hj, hne, rfl⟩ := mem_otherDists.1 hb
    exact h2 j hj hne

/-- `inf` (no value) exactly when there is no other feature -/
theorem proximity_none_iff (pts : List Point) (i : Nat) :
    proximity pts i = none ↔ ∀ j, j < pts.length → j = i := by
  unfold proximity
  rw [List.min?_eq_none_iff]
  constructor
  · intro h j hj
    by_cases hji : j = i
    · exact hji
    · have : dist2 (pts.getD i []) (pts.getD j []) ∈ otherDists pts i :=
        mem_otherDists.2 ⟨j, hj, hji, rfl⟩
      rw [h] at this; cases this
  · intro h
    cases hd : otherDists pts i with
    | nil => rfl
    | cons d t =>
      have : d ∈ otherDists pts i := by rw [hd]; simp
      obtain ⟨j, hj, hne, _⟩ := mem_otherDists.1 this
      exact absurd (h j hj) hne

/-! ### pair correlation: normalisation and invariance (`arc` abstract) -/

/-- **g(r) is the corrected pair histogram normalised by density.**  Bin `k` of the result is the
sum over the retained ordered pairs whose distance lies in `[k·dr, (k+1)·dr)` of `1/arc`,
divided by `ndensity · N · dr`, where `N` counts the particles inside the box. -/
theorem paircorr_norm (arc : Rat → List Rat → Option Rat) (box : Box) (cutoff dr : Rat)
    (nd : Option Rat) (pts : List Point) (k : Nat) (hk : k < nbins cutoff dr) :
    (pairCorr arc box cutoff dr nd pts)[k]? =
      some ((binSum arc dr (samples box cutoff (pts.filter (inBox box))) k).map
        (· / (density box (pts.filter (inBox box)).length nd *
                (pts.filter (inBox box)).length * dr))) := by
  simp [pairCorr, hk]

/-- the default density is `(N − 1) / volume of the box` -/
theorem density_default (box : Box) (n : Nat) :
    density box n none = ((n : Rat) - 1) / volume box := rfl

/-- when every edge correction in the bin is defined, the bin value is the plain sum of `1/arc` -/
theorem binSum_eq_sum (arc : Rat → List Rat → Option Rat) (dr : Rat) (ss : List Sample) (k : Nat)
    (h : ∀ s ∈ ss, inBin dr k s.1 = true → (arc s.1 s.2).isSome = true) :
    binSum arc dr ss k =
      some (sumRat ((ss.filter fun s => inBin dr k s.1).map fun s => 1 / (arc s.1 s.2).getD 1)) := by
  unfold binSum
  have : ((ss.filter fun s => inBin dr k s.1).map fun s => arc s.1 s.2).any Option.isNone = false := by
    rw [List.any_eq_false]
    intro w hw
    simp only [List.mem_map, List.mem_filter] at hw
    obtain ⟨s, ⟨hs, hb⟩, rfl⟩ := hw
    have := h s hs hb
    cases hq : arc s.1 s.2 <;> simp [hq] at this ⊢
  simp [this, List.map_map, Function.comp_def]

/-- a single undefined (NaN) edge correction makes its OWN bin undefined (and no other: see
`paircorr_norm`, every bin only looks at its own samples) -/
theorem binSum_nan (arc : Rat → List Rat → Option Rat) (dr : Rat) (ss : List Sample) (k : Nat)
    (s : Sample) (hs : s ∈ ss) (hb : inBin dr k s.1 = true) (hn : arc s.1 s.2 = none) :
    binSum arc dr ss k = none := by
  unfold binSum
  have : ((ss.filter fun s => inBin dr k s.1).map fun s => arc s.1 s.2).any Option.isNone = true := by
    rw [List.any_eq_true]
    exact ⟨none, by simp only [List.mem_map, List.mem_filter]; exact ⟨s, ⟨hs, hb⟩, hn⟩, rfl⟩
  simp [this]

/-- **Permuting the particles does not change g(r).** -/
theorem paircorr_perm_invariant (arc : Rat → List Rat → Option Rat) (box : Box) (cutoff dr : Rat)
    (nd : Option Rat) (pts pts' : List Point) (h : pts.Perm pts') :
    pairCorr arc box cutoff dr nd pts = pairCorr arc box cutoff dr nd pts' :=
  pairCorr_perm arc box cutoff dr nd h

/-- **Translating particles and box together does not change g(r)** (the edge correction only
sees the pair distance and the distances to the box sides, which are translation invariant). -/
theorem paircorr_translation_invariant (arc : Rat → List Rat → Option Rat) (box : Box)
    (cutoff dr : Rat) (nd : Option Rat) (pts : List Point) (t : Point)
    (hp : ∀ p ∈ pts, p.length = t.length) (hb : box.length = t.length) :
    pairCorr arc (translateBox t box) cutoff dr nd (pts.map (translate t)) =
      pairCorr arc box cutoff dr nd pts :=
  pairCorr_congr arc (translate t) box (translateBox t box) cutoff dr nd pts
    (fun p h => inBox_translate t box p (hp p h) hb)
    (fun p h => sideDists_translate t box p (hp p h) hb)
    (fun p h q h' => dist2_translate t p q (hp p h) (hp q h'))
    (volume_translate t box hb)

/-! ### non-vacuity -/

/-- four particles in the box `[0,4]²` (one more outside, disregarded), cutoff 2, dr 1, `arc`
constant 2: N = 4, density 3/16, the two unit-distance pairs fall in bin 1 (each counted from
both ends): g = [0, (4·½) / (3/16·4·1)] -/
example : pairCorr (fun _ _ => some 2) [(0, 4), (0, 4)] 2 1 none
    [[0, 0], [1, 0], [4, 4], [4, 3], [5, 5]] = [some 0, some (8 / 3)] := by decide +kernel

/-- an undefined correction only blanks its own bin -/
example : pairCorr (fun d2 _ => if d2 = 1 then none else some 1) [(0, 4), (0, 4)] 3 1 (some 1)
    [[0, 0], [1, 0], [3, 0]] = [some 0, none, some (2 / 3)] := by decide +kernel


/-- four collinear points, separation 1: 0 –½– ½ –1– 3/2 –1/4– 7/4.  The middle gap is EXACTLY
the separation and is not a pair (strict). -/
example : pairs [1] [[0], [1/2], [3/2], [7/4]] = [(0, 1), (2, 3)] := by decide +kernel

example : (Clusters.fromCoords [1] [[0], [1/2], [3/2], [7/4]]).posIds = [0, 0, 2, 2] := by decide +kernel

example : (Clusters.fromCoords [1] [[0], [1/2], [3/2], [7/4]]).clusterSize =
    [some 2, some 2, some 2, some 2] := by decide +kernel

/-- the pair order decides the NAMES, not the partition -/
example : (Clusters.fromPairs [(0, 2), (1, 2)] 4).posIds = [1, 1, 1, 3] ∧
    (Clusters.fromPairs [(1, 2), (0, 2)] 4).posIds = [0, 0, 0, 3] ∧
    (Clusters.fromPairs [(2, 3), (0, 1), (1, 2)] 5).posIds = [0, 0, 0, 0, 4] := by decide

/-- two frames: ids 0,0,2 then 3,4 — the second frame starts after the first frame's maximum -/
example : (clusterIter [1, 1] [[[0, 0], [0, 1/2], [3, 3]], [[0, 0], [5, 5]]]).map (·.ids) =
    [[0, 0, 2], [3, 4]] := by decide +kernel

example : proximity [[0, 0], [3, 4], [0, 1]] 0 = some 1 ∧ proximity [[0, 0]] 0 = none := by
  decide +kernel

/-- the hypotheses of `cluster_iff_connected` are satisfiable with a non-trivial chain -/
example : Reach (Close [1] [[0], [1/2], [1]]) 0 2 :=
  Reach.step (b := 1) (Reach.step (b := 0) (Reach.refl 0) (by unfold Close; decide +kernel))
    (by unfold Close; decide +kernel)

end TrackpyV.Static
