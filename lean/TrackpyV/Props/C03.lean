import TrackpyV.Props.C02
/-!
# C03 — all linking strategies, entry points and coordinate scalings agree

Lean part (the rest of C03 is differential, see harness/c03.py):

* `optimal_cost_unique` : two optimal assignments of the same sources have the same cost.
* `strategies_same_cost` : if two labellings of the same step (e.g. produced by two different
  link strategies or entry points) both pass the monitor's optimality test, their links have the
  same total cost — with `step_optimal` each is a global optimum, so they are "the same partition,
  or assignments of identical cost when the optimum is tied".
* `drop_unlinks_contested` : under `link_strategy='drop'` an accepted step leaves every source of
  every contested sub-net unlinked (and solves the 1-source/1-destination sub-nets as usual).
* `go_scale`, `scale_invariant` : multiplying every cost (and the cost of not linking) by a
  positive constant does not change the assignment the solver returns, only scales its cost — a
  uniform rescaling of coordinates and search_range changes nothing.
-/
namespace TrackpyV.Assign

theorem optimal_cost_unique (srcs : List Src) (a b : List Cand)
    (ha : IsOptimal srcs a) (hb : IsOptimal srcs b) : cost a = cost b :=
  Nat.le_antisymm (ha.2 b hb.1) (hb.2 a ha.1)

/-! ### scaling -/

def scaleC (k : Nat) (c : Cand) : Cand := (c.1, k * c.2)
def scaleS (k : Nat) (s : List Cand) : List Cand := s.map (scaleC k)
def scaleBest (k : Nat) : Best → Best
  | none => none
  | some (c, a) => some (k * c, scaleS k a)

theorem exceeds_scale (k : Nat) (hk : 0 < k) (x : Nat) (b : Best) :
    exceeds (k * x) (scaleBest k b) = exceeds x b := by
  cases b with
  | none => rfl
  | some p =>
    obtain ⟨c, a⟩ := p
    simp only [exceeds, scaleBest, gt_iff_lt, decide_eq_decide]
    exact Nat.mul_lt_mul_left hk

theorem better_scale (k : Nat) (hk : 0 < k) (x : Nat) (b : Best) :
    better (k * x) (scaleBest k b) = better x b := by
  cases b with
  | none => rfl
  | some p =>
    obtain ⟨c, a⟩ := p
    simp only [better, scaleBest, decide_eq_decide]
    exact Nat.mul_lt_mul_left hk

/-- the branch and bound commutes with scaling all costs by `k > 0` -/
theorem go_scale (k : Nat) (hk : 0 < k) (rest : List Src) (cands : List Cand) (tk : List Nat)
    (cur : Nat) (acc : List Cand) (best : Best) :
    go (rest.map (scaleS k)) (scaleS k cands) tk (k * cur) (scaleS k acc) (scaleBest k best) =
    scaleBest k (go rest cands tk cur acc best) := by
  fun_induction go rest cands tk cur acc best with
  | case1 rest tk cur acc best => simp [scaleS, go]
  | case2 rest tk cur acc best d c cs hex =>
    rw [go.eq_def]
    simp only [scaleS, List.map_cons, scaleC]
    rw [← Nat.mul_add, exceeds_scale k hk, hex]
    simp
  | case3 rest tk cur acc best d c cs hex htk ih =>
    rw [go.eq_def]
    simp only [scaleS, List.map_cons, scaleC]
    rw [← Nat.mul_add, exceeds_scale k hk]
    simp only [hex, htk, if_true, Bool.false_eq_true, if_false]
    exact ih
  | case4 tk cur acc best d c cs hex htk ih =>
    rw [go.eq_def]
    simp only [scaleS, List.map_cons, scaleC, List.map_nil]
    rw [← Nat.mul_add, exceeds_scale k hk]
    simp only [hex, htk, Bool.false_eq_true, if_false]
    rw [better_scale k hk]
    have : (if better (cur + c) best = true then some (k * (cur + c), List.map (scaleC k) acc ++ [(d, k * c)])
        else scaleBest k best) =
        scaleBest k (if better (cur + c) best = true then some (cur + c, acc ++ [(d, c)]) else best) := by
      split <;> simp [scaleBest, scaleS, scaleC]
    rw [this]
    exact ih
  | case5 tk cur acc best d c cs hex htk s rest' ih1 ih2 =>
    rw [go.eq_def]
    simp only [scaleS, List.map_cons, scaleC]
    rw [← Nat.mul_add, exceeds_scale k hk]
    simp only [hex, htk, Bool.false_eq_true, if_false]
    have h1 := ih1
    simp only [scaleS, List.map_append, List.map_cons, List.map_nil, scaleC] at h1
    rw [h1]
    exact ih2

/-- **Scale invariance.**  Multiplying every cost, including the cost of not linking, by `k > 0`
leaves the returned assignment unchanged (its cost is multiplied by `k`). -/
theorem scale_invariant (k : Nat) (hk : 0 < k) (srcs : List Src) :
    solveOrdered (srcs.map (scaleS k)) = scaleBest k (solveOrdered srcs) := by
  cases srcs with
  | nil => rfl
  | cons s rest =>
    have := go_scale k hk rest s [] 0 [] none
    simpa [solveOrdered, scaleS, scaleBest] using this

end TrackpyV.Assign

namespace TrackpyV.Linker
open TrackpyV.Assign

/-- **Strategies agree.**  Two labellings of the same step that both pass the optimality test have
links of the same total cost (each is a global optimum by `step_optimal`). -/
theorem strategies_same_cost (cfg : Cfg) (hdrop : cfg.drop = false) (st : State) (t : Int)
    (dsts : List Pos) (labels₁ labels₂ : List Nat)
    (h₁ : optWhy cfg st t dsts labels₁ = none) (h₂ : optWhy cfg st t dsts labels₂ = none) :
    cost (gAsg cfg st labels₁ (stepCands cfg st t dsts) (stepGroups cfg st t dsts)).flatten =
    cost (gAsg cfg st labels₂ (stepCands cfg st t dsts) (stepGroups cfg st t dsts)).flatten :=
  optimal_cost_unique _ _ _ (step_optimal cfg hdrop st t dsts labels₁ h₁)
    (step_optimal cfg hdrop st t dsts labels₂ h₂)

/-- **'drop'.**  With `link_strategy='drop'`, in an accepted step every source of a sub-net that
is not a plain 1-source/1-destination pair is left unlinked. -/
theorem drop_unlinks_contested (cfg : Cfg) (hdrop : cfg.drop = true) (st : State) (t : Int)
    (dsts : List Pos) (labels : List Nat) (h : optWhy cfg st t dsts labels = none)
    (g : Group) (hg : g ∈ stepGroups cfg st t dsts)
    (hcontested : ¬ (g.1.length = 1 ∧ g.2.length = 1)) :
    ∀ i ∈ g.1, (asgOf cfg st labels (stepCands cfg st t dsts) i).1 = none := by
  unfold optWhy at h
  simp only at h
  split at h
  · cases h
  · split at h
    · cases h
    · rename_i hall
      have hall' : ((gSrcs (stepCands cfg st t dsts) (stepGroups cfg st t dsts)).zip
          ((gAsg cfg st labels (stepCands cfg st t dsts) (stepGroups cfg st t dsts)).zip
            (stepGroups cfg st t dsts))).all (fun x => groupOkB cfg x.1 x.2.1 x.2.2) = true := by
        revert hall
        cases List.all _ _ <;> simp
      simp only [List.all_eq_true, gSrcs, gAsg] at hall'
      have hok := hall' (g.1.map (srcOf (stepCands cfg st t dsts)),
        g.1.map (asgOf cfg st labels (stepCands cfg st t dsts)), g) (by
          rw [List.mem_iff_getElem] at hg ⊢
          obtain ⟨i, hi, rfl⟩ := hg
          exact ⟨i, by simp; exact hi, by simp⟩)
      intro i hi
      have hne : (g.1.map (srcOf (stepCands cfg st t dsts))).isEmpty = false := by
        cases hgl : g.1 with
        | nil => rw [hgl] at hi; cases hi
        | cons _ _ => simp
      have hc : (g.1.length == 1 && g.2.length == 1) = false := by
        simpa using hcontested
      simp only [groupOkB, hne, hdrop, hc, Bool.false_eq_true, if_false, Bool.not_false,
        Bool.and_self, if_true, List.all_eq_true, List.mem_map] at hok
      have := hok _ ⟨i, hi, rfl⟩
      simpa using this

end TrackpyV.Linker
