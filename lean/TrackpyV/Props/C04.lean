import TrackpyV.Model.Jobs
import TrackpyV.Props.C01
/-!
# C04 — linking jobs are isolated from one another

* `perJob_noninterference` : with per-job counters the ids a job hands out under ANY schedule are
  those of its own operations run alone (induction over the schedule).
* `perJob_handed_eq`, `perJob_fresh` : they are `0,1,…` without repetition — two distinct
  trajectories of a job never share a label.
* `shared_counterexample` : with the process-wide counter that every `init_level` resets (the
  code before the `fix:` commit) a 3-operation schedule makes job 0 hand out id 1 twice.
* The partition clause is carried by C01's monitor: each job's labelled output under the
  interleaving is judged by the monitor on that job's own levels (`accepted_valid`); the
  correspondence additionally compares the partition with the job's solo run.
-/
namespace TrackpyV.Jobs

theorem upd_same {α} (f : Nat → α) (j : Nat) (v : α) : upd f j v j = v := by simp [upd]
theorem upd_other {α} (f : Nat → α) (j k : Nat) (v : α) (h : k ≠ j) : upd f j v k = f k := by
  simp [upd, h]

/-- an operation of another job leaves job `j`'s component untouched -/
theorem stepPerJob_other (s : PJ) (op : Op) (j : Nat) (h : op.job ≠ j) :
    (stepPerJob s op).counter j = s.counter j ∧ (stepPerJob s op).handed j = s.handed j := by
  cases op with
  | init k n => simp only [Op.job] at h; simp [stepPerJob, upd, Ne.symm h]
  | step k b => simp only [Op.job] at h; simp [stepPerJob, upd, Ne.symm h]

/-- an operation of job `j` acts on `j`'s component as a function of that component only -/
theorem stepPerJob_own (s s' : PJ) (op : Op) (j : Nat) (h : op.job = j)
    (hc : s.counter j = s'.counter j) (hh : s.handed j = s'.handed j) :
    (stepPerJob s op).counter j = (stepPerJob s' op).counter j ∧
    (stepPerJob s op).handed j = (stepPerJob s' op).handed j := by
  cases op with
  | init k n => simp only [Op.job] at h; subst h; simp [stepPerJob, upd]
  | step k b => simp only [Op.job] at h; subst h; simp [stepPerJob, upd, hc, hh]

theorem foldl_perJob_noninterference (ops : List Op) (j : Nat) (s s' : PJ)
    (hc : s.counter j = s'.counter j) (hh : s.handed j = s'.handed j) :
    (ops.foldl stepPerJob s).counter j =
      ((ops.filter (fun op => op.job == j)).foldl stepPerJob s').counter j ∧
    (ops.foldl stepPerJob s).handed j =
      ((ops.filter (fun op => op.job == j)).foldl stepPerJob s').handed j := by
  induction ops generalizing s s' with
  | nil => exact ⟨hc, hh⟩
  | cons op ops ih =>
    simp only [List.foldl_cons, List.filter_cons]
    by_cases hj : op.job = j
    · have : (op.job == j) = true := by simpa using hj
      simp only [this, if_true, List.foldl_cons]
      obtain ⟨h1, h2⟩ := stepPerJob_own s s' op j hj hc hh
      exact ih _ _ h1 h2
    · have : (op.job == j) = false := by simpa using hj
      simp only [this]
      obtain ⟨h1, h2⟩ := stepPerJob_other s op j hj
      exact ih _ _ (h1.trans hc) (h2.trans hh)

/-- **Isolation.**  Under any schedule, what job `j` has handed out equals what it hands out when
its own operations are run alone: starting, advancing or finishing other jobs between its steps
changes nothing. -/
theorem perJob_noninterference (ops : List Op) (j : Nat) :
    (runPerJob ops).handed j = (runPerJob (ops.filter (fun op => op.job == j))).handed j :=
  (foldl_perJob_noninterference ops j PJ.init0 PJ.init0 rfl rfl).2

theorem names_append (c a b : Nat) : names c a ++ names (c + a) b = names c (a + b) := by
  simp [names, List.range'_append]

/-- invariant: a job's handed-out ids are exactly `0 … counter-1` -/
theorem perJob_handed_eq (ops : List Op) (j : Nat) :
    (runPerJob ops).handed j = names 0 ((runPerJob ops).counter j) := by
  unfold runPerJob
  suffices h : ∀ s : PJ, (∀ k, s.handed k = names 0 (s.counter k)) →
      ∀ k, (ops.foldl stepPerJob s).handed k = names 0 ((ops.foldl stepPerJob s).counter k) by
    exact h PJ.init0 (fun k => by simp [PJ.init0, names]) j
  induction ops with
  | nil => intro s hs k; exact hs k
  | cons op ops ih =>
    intro s hs
    simp only [List.foldl_cons]
    apply ih
    intro k
    cases op with
    | init i n =>
      by_cases hk : k = i
      · subst hk; simp [stepPerJob, upd]
      · simp [stepPerJob, upd, hk, hs k]
    | step i b =>
      by_cases hk : k = i
      · subst hk
        simp only [stepPerJob, upd, if_true]
        rw [hs k]
        have := names_append 0 (s.counter k) b
        simpa using this
      · simp [stepPerJob, upd, hk, hs k]

/-- **Distinct trajectories of a job never share a label**, whatever the other jobs do. -/
theorem perJob_fresh (ops : List Op) (j : Nat) : ((runPerJob ops).handed j).Nodup := by
  rw [perJob_handed_eq]
  exact List.nodup_range'

/-- The process-wide counter violates the property: jobs A = job 0 (3 features, then one new
trajectory) and B = job 1 (1 feature) stepped A, B, A make A hand out the id `1` twice. -/
theorem shared_counterexample :
    (runShared [.init 0 3, .init 1 1, .step 0 1]).handed 0 = [0, 1, 2, 1] ∧
    ¬ ((runShared [.init 0 3, .init 1 1, .step 0 1]).handed 0).Nodup := by
  constructor
  · simp [runShared, stepShared, SH.init0, upd, names, List.range']
  · simp [runShared, stepShared, SH.init0, upd, names, List.range']

/-- the same schedule with per-job counters -/
example : (runPerJob [.init 0 3, .init 1 1, .step 0 1]).handed 0 = [0, 1, 2, 3] := by
  simp [runPerJob, stepPerJob, PJ.init0, upd, names, List.range']

end TrackpyV.Jobs

