import TrackpyV.Props.C07
import Mathlib.Tactic.Ring
import Mathlib.Tactic.FieldSimp
/-!
# C07 — brightness unit (X53)

The harness has a metamorphic pass "brightness unit": image and raw image are multiplied by a
power of two; positions and sizes must not change, mass / signal / raw_mass are multiplied.
Here that pass is a theorem about `Model/Refine.lean`, for **every** positive natural factor `k`
(pixels are naturals) and every image, mask, radius, shape, threshold, `max_iterations`, start:

* `wsum_scale`, `massAt_scale`, `momAt_scale` — every mask sum is homogeneous of degree 1;
* `cmN_scale`, `posAt_scale`, `offCentre_scale` — the quotient `mom / mass` (and the black-mask
  fallback: `k·mass = 0 ↔ mass = 0` needs `k > 0`) does not see the factor;
* `refine_step_brightness_unit` — one iteration: same break test, same moved coordinate
  (`shift_thresh` is compared with the off-centre, a quantity of degree 0 — the model has NO
  absolute brightness constant);
* `lastCentre_scale`, `trace_scale` — hence every evaluated mask centre, for every fuel;
* `refineOne_brightness_unit` — the reported record: centre, position, Rg² size(s) unchanged; mass,
  signal and the eccentricity sums / centre pixel multiplied by `k`; raw mass multiplied by the raw
  image's own factor `k'` (no positivity needed for `k'`).

`k = 0` is excluded for a reason, not for convenience: a black image takes the
`_safe_center_of_mass` branch (`brightness_unit_zero_witness`).
-/
namespace TrackpyV.Refine

/-- every pixel multiplied by `k` -/
def scaleImg (k : Nat) (img : Image) : Image := fun p => k * img p

theorem wsum_scale (k : Nat) (img : Image) (mask : List (List Nat)) (org : List Int)
    (w : List Nat → Rat) :
    wsum (scaleImg k img) mask org w = (k : Rat) * wsum img mask org w := by
  unfold wsum
  induction mask with
  | nil => simp
  | cons a t ih =>
    simp only [List.map_cons, List.sum_cons, ih]
    simp only [scaleImg, Nat.cast_mul]
    ring

/-- (a) the mass is multiplied by `k` -/
theorem massAt_scale (k : Nat) (img : Image) (mask : List (List Nat)) (org : List Int) :
    massAt (scaleImg k img) mask org = (k : Rat) * massAt img mask org :=
  wsum_scale k img mask org _

/-- (a) every first moment is multiplied by `k` -/
theorem momAt_scale (k : Nat) (img : Image) (mask : List (List Nat)) (org : List Int) (i : Nat) :
    momAt (scaleImg k img) mask org i = (k : Rat) * momAt img mask org i :=
  wsum_scale k img mask org _

theorem cmN_scale (k : Nat) (hk : 0 < k) (img : Image) (mask : List (List Nat)) (radius : List Nat)
    (org : List Int) (i : Nat) :
    cmN (scaleImg k img) mask radius org i = cmN img mask radius org i := by
  have hk' : (k : Rat) ≠ 0 := by exact_mod_cast (Nat.pos_iff_ne_zero.mp hk)
  unfold cmN
  rw [massAt_scale, momAt_scale]
  by_cases h : massAt img mask org = 0
  · simp [h]
  · have h2 : (k : Rat) * massAt img mask org ≠ 0 := mul_ne_zero hk' h
    rw [if_neg h, if_neg h2, mul_div_mul_left _ _ hk']

/-- (a) the position measured at a mask centre does not see the brightness unit -/
theorem posAt_scale (k : Nat) (hk : 0 < k) (img : Image) (mask : List (List Nat))
    (radius : List Nat) (c : List Int) :
    posAt (scaleImg k img) mask radius c = posAt img mask radius c := by
  unfold posAt
  simp only [cmN_scale k hk]

theorem offCentre_scale (k : Nat) (hk : 0 < k) (img : Image) (mask : List (List Nat))
    (radius : List Nat) (c : List Int) :
    offCentre (scaleImg k img) mask radius c = offCentre img mask radius c := by
  unfold offCentre
  simp only [cmN_scale k hk]

/-- one iteration: the break test and the moved-and-clipped coordinate are the same -/
theorem refine_step_brightness_unit (k : Nat) (hk : 0 < k) (thr : Rat) (img : Image)
    (mask : List (List Nat)) (radius shape : List Nat) (c : List Int) :
    converged thr (offCentre (scaleImg k img) mask radius c)
        = converged thr (offCentre img mask radius c) ∧
    next thr radius shape (offCentre (scaleImg k img) mask radius c) c
        = next thr radius shape (offCentre img mask radius c) c := by
  rw [offCentre_scale k hk]; exact ⟨rfl, rfl⟩

theorem lastCentre_scale (k : Nat) (hk : 0 < k) (thr : Rat) (img : Image) (mask : List (List Nat))
    (radius shape : List Nat) (fuel : Nat) (c : List Int) :
    lastCentre thr (scaleImg k img) mask radius shape fuel c
      = lastCentre thr img mask radius shape fuel c := by
  induction fuel generalizing c with
  | zero => rfl
  | succ n ih => simp only [lastCentre, offCentre_scale k hk, ih]

theorem trace_scale (k : Nat) (hk : 0 < k) (thr : Rat) (img : Image) (mask : List (List Nat))
    (radius shape : List Nat) (fuel : Nat) (c : List Int) :
    trace thr (scaleImg k img) mask radius shape fuel c
      = trace thr img mask radius shape fuel c := by
  induction fuel generalizing c with
  | zero => rfl
  | succ n ih => simp only [trace, offCentre_scale k hk, ih]

theorem rg2At_scale (k : Nat) (hk : 0 < k) (img : Image) (mask : List (List Nat))
    (radius : List Nat) (org : List Int) :
    rg2At (scaleImg k img) mask radius org = rg2At img mask radius org := by
  have hk' : (k : Rat) ≠ 0 := by exact_mod_cast (Nat.pos_iff_ne_zero.mp hk)
  unfold rg2At
  simp only [wsum_scale, massAt_scale, mul_div_mul_left _ _ hk']

theorem foldl_max_scale (k : Nat) (l : List Nat) (a : Nat) :
    (l.map (fun x => k * x)).foldl max (k * a) = k * l.foldl max a := by
  induction l generalizing a with
  | nil => rfl
  | cons x t ih =>
    simp only [List.map_cons, List.foldl_cons]
    rw [← ih (max a x), Nat.mul_max_mul_left]

/-- `signal` (largest masked pixel) is multiplied by `k` (any `k`, also 0) -/
theorem maskMax_scale (k : Nat) (img : Image) (mask : List (List Nat)) (org : List Int) :
    maskMax (scaleImg k img) mask org = k * maskMax img mask org := by
  unfold maskMax
  have := foldl_max_scale k (mask.map (fun off => img (addOff org off))) 0
  simpa [scaleImg, List.map_map, Function.comp_def] using this

theorem eccAt_scale (k : Nat) (img : Image) (mask : List (List Nat)) (radius : List Nat)
    (org : List Int) :
    eccAt (scaleImg k img) mask radius org
      = (eccAt img mask radius org).map (fun e => ((k : Rat) * e.1, (k : Rat) * e.2.1, k * e.2.2)) := by
  unfold eccAt
  by_cases h : radius.length = 2
  · simp only [if_pos h, Option.map_some, wsum_scale]; rfl
  · simp only [if_neg h, Option.map_none]

/-- (b) **brightness unit.**  Image multiplied by `k > 0`, raw image by any `k'`: every evaluated
mask centre (`trace`), the last one, the reported centre, position and Rg² size(s) are unchanged;
mass, signal (and the eccentricity numerator sums and centre pixel) are multiplied by `k`, the raw
mass by `k'`. -/
theorem refineOne_brightness_unit (k k' : Nat) (hk : 0 < k) (thr : Rat) (img raw : Image)
    (radius shape : List Nat) (maxIter : Nat) (start : List Int) :
    let R := refineOne thr img raw radius shape maxIter start
    let R' := refineOne thr (scaleImg k img) (scaleImg k' raw) radius shape maxIter start
    (∀ fuel, trace thr (scaleImg k img) (maskOffsets radius) radius shape fuel start
        = trace thr img (maskOffsets radius) radius shape fuel start) ∧
    (∀ fuel, lastCentre thr (scaleImg k img) (maskOffsets radius) radius shape fuel start
        = lastCentre thr img (maskOffsets radius) radius shape fuel start) ∧
    R'.centre = R.centre ∧ R'.pos = R.pos ∧ R'.rg2 = R.rg2 ∧
    R'.mass = (k : Rat) * R.mass ∧ R'.signal = k * R.signal ∧
    R'.rawMass = (k' : Rat) * R.rawMass ∧
    R'.ecc = R.ecc.map (fun e => ((k : Rat) * e.1, (k : Rat) * e.2.1, k * e.2.2)) := by
  intro R R'
  refine ⟨fun f => trace_scale k hk .., fun f => lastCentre_scale k hk .., ?_⟩
  simp only [R, R', refineOne, measure, lastCentre_scale k hk, posAt_scale k hk,
    rg2At_scale k hk, massAt_scale, maskMax_scale, eccAt_scale]
  refine ⟨?_, ?_, ?_, ?_, ?_, ?_, ?_⟩ <;> trivial

/-- the scaled record, as one equation -/
theorem refineOne_brightness_unit_record (k k' : Nat) (hk : 0 < k) (thr : Rat) (img raw : Image)
    (radius shape : List Nat) (maxIter : Nat) (start : List Int) :
    refineOne thr (scaleImg k img) (scaleImg k' raw) radius shape maxIter start =
      let R := refineOne thr img raw radius shape maxIter start
      { R with mass := (k : Rat) * R.mass, signal := k * R.signal,
               rawMass := (k' : Rat) * R.rawMass,
               ecc := R.ecc.map (fun e => ((k : Rat) * e.1, (k : Rat) * e.2.1, k * e.2.2)) } := by
  simp only [refineOne, measure, lastCentre_scale k hk, posAt_scale k hk,
    rg2At_scale k hk, massAt_scale, maskMax_scale, eccAt_scale]

/-! ## non-vacuity: the 5×5 example of `Props/C07.lean`, `k = 4` (raw: `k' = 8`) -/

example : trace (3/5) (scaleImg 4 exImg) (maskOffsets [1, 1]) [1, 1] [5, 5] 9 [2, 2]
    = [[2, 2], [2, 3]] := by decide +kernel
example :
    let R' := refineOne (3/5) (scaleImg 4 exImg) (scaleImg 8 exRaw) [1, 1] [5, 5] 10 [2, 2]
    R'.centre = [2, 3] ∧ R'.pos = [2, 29/10] ∧ R'.rg2 = [1/10] ∧
    R'.mass = 40 ∧ R'.signal = 36 ∧ R'.rawMass = 120 := by decide +kernel
/-- the same numbers through the theorem (4·10, 4·9, 8·15) -/
example :
    (refineOne (3/5) (scaleImg 4 exImg) (scaleImg 8 exRaw) [1, 1] [5, 5] 10 [2, 2]).mass
      = 4 * (refineOne (3/5) exImg exRaw [1, 1] [5, 5] 10 [2, 2]).mass :=
  (refineOne_brightness_unit 4 8 (by decide) (3/5) exImg exRaw [1, 1] [5, 5] 10 [2, 2]).2.2.2.2.2.1
example : momAt (scaleImg 4 exImg) (maskOffsets [1, 1]) (origin [1, 1] [2, 2]) 1 = 4 * 19 ∧
    momAt exImg (maskOffsets [1, 1]) (origin [1, 1] [2, 2]) 1 = 19 := by decide +kernel

/-- `k > 0` is necessary: with `k = 0` the mask is black, `cmN` falls back to the mask centre and
the loop breaks at the start pixel instead of moving to (2,3). -/
theorem brightness_unit_zero_witness :
    (refineOne (3/5) (scaleImg 0 exImg) exRaw [1, 1] [5, 5] 10 [2, 2]).centre = [2, 2] ∧
    (refineOne (3/5) exImg exRaw [1, 1] [5, 5] 10 [2, 2]).centre = [2, 3] := by decide +kernel

end TrackpyV.Refine
