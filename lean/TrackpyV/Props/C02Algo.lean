import TrackpyV.Proofs.Algo
/-!
# The step relation is not stricter than the algorithm (C01/C02 non-vacuity, all inputs)

`algo_accepted` : for EVERY state satisfying the linker invariant and EVERY new level that stays
within the neighbour cap and the sub-net size limit, the deterministic step `algoLabels`
(sub-nets → branch-and-bound per sub-net → labels) produces labels that the monitor `stepCheck`
accepts: valid (C01 part) and optimal (C02 part).  Hence the shadow relation used to judge the
implementation accepts the faithful mirror of the algorithm on all inputs — it is neither vacuous
nor stricter than the code it was written to judge.
`algo_run_accepted` lifts this to whole movies: an accepted labelling exists for every movie whose
steps stay within the caps.
-/
namespace TrackpyV.Linker
open TrackpyV.Assign

theorem algo_accepted (cfg : Cfg) (hdrop : cfg.drop = false) (st : State) (hist : List LLevel)
    (hinv : Inv cfg st hist) (t : Int) (dsts : List Pos)
    (hcap : cappedB cfg st t dsts = false)
    (hover : oversizeB cfg (stepGroups cfg st t dsts) = false) :
    algoLabels cfg st t dsts = some (algoLab cfg st t dsts) ∧
    ∃ c r b cap, stepCheck cfg st t dsts (some (algoLab cfg st t dsts)) =
      .ok (nextState cfg st t dsts (algoLab cfg st t dsts)) c r b cap := by
  have hg := good_of_inv hinv
  refine ⟨algoLabels_eq cfg st t dsts, ?_⟩
  unfold stepCheck
  simp only [hover, hcap, Bool.false_and, Bool.false_eq_true, if_false,
    algo_valid cfg st t dsts hg, Bool.false_or]
  by_cases hno : cfg.noOpt = true
  · simp only [hno, if_true]
    exact ⟨_, _, _, _, rfl⟩
  · have hno' : cfg.noOpt = false := by simpa using hno
    simp only [hno', Bool.false_eq_true, if_false, algo_optimal cfg hdrop st t dsts hg]
    exact ⟨_, _, _, _, rfl⟩

/-- the steps of a movie stay within the neighbour cap and the size limit when labelled by the
deterministic algorithm -/
def WithinCaps (cfg : Cfg) : State → List (Int × List Pos) → Prop
  | _, [] => True
  | st, (t, dsts) :: rest =>
    cappedB cfg st t dsts = false ∧ oversizeB cfg (stepGroups cfg st t dsts) = false ∧
    WithinCaps cfg (nextState cfg st t dsts (algoLab cfg st t dsts)) rest

/-- the movie labelled by the deterministic algorithm -/
def algoRun (cfg : Cfg) : State → List (Int × List Pos) → List LLevel
  | _, [] => []
  | st, (t, dsts) :: rest =>
    { t := t, dsts := dsts, labels := algoLab cfg st t dsts } ::
      algoRun cfg (nextState cfg st t dsts (algoLab cfg st t dsts)) rest

/-- **Existence of an accepted labelling for every movie** (within the caps): the monitor accepts
the deterministic algorithm's output step after step. -/
theorem algo_run_accepted (cfg : Cfg) (hdrop : cfg.drop = false) (levels : List (Int × List Pos))
    (st : State) (hist : List LLevel) (hinv : Inv cfg st hist) (hc : WithinCaps cfg st levels) :
    AcceptsFrom cfg st (algoRun cfg st levels) := by
  induction levels generalizing st hist with
  | nil => trivial
  | cons l rest ih =>
    obtain ⟨t, dsts⟩ := l
    obtain ⟨hcap, hover, hrest⟩ := hc
    obtain ⟨_, c, r, b, cap, hstep⟩ := algo_accepted cfg hdrop st hist hinv t dsts hcap hover
    refine ⟨_, c, r, b, cap, hstep, ?_⟩
    obtain ⟨hv, _, _⟩ := stepCheck_ok hstep
    obtain ⟨_, hinv'⟩ := step_preserves hinv hv
    exact ih _ _ hinv' hrest

end TrackpyV.Linker
