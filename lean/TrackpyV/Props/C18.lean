import TrackpyV.Proofs.Drift
/-!
# C18 — drift is the mean frame-to-frame displacement, and subtracting it removes it

Theorems about `Model/Drift.lean` (mirror of `trackpy/motion.py: compute_drift, subtract_drift`,
smoothing = 0), exact arithmetic over `Rat`, for **all** tables (`List Row`), any number of
particles / frames / gaps / row order.  `KeysNodup t` (no two rows share (particle, frame)) is the
validity condition of a trajectory table; the driver re-checks it on every generated case.

* `drift_def`, `drift_frames`, `drift_frames_sorted` — the value at frame `f` is
  `Σ_{g measured, g ≤ f} mean{ x_p(g) − x_p(g−1) | p observed in g and g−1 }`, and a frame has a
  value iff some particle is observed in it and in the frame before.
* `drift_order_indep` — independent of row order.
* `subtract_pointwise`, `subtract_unmeasured_unchanged`, `subtract_other_columns`,
  `subtract_rows_perm` — exactly that curve is subtracted, frame by frame; frames without a drift
  value are unchanged; particle / frame / every other cell are carried; same rows, reordered.
* `redrift_zero`, `rigid_motion_removed` (+ `later_measured_imp_contig`, `redrift_zero_of_later`) —
  under "every frame after the first measured one is measured" the drift re-measured on the output
  is identically zero, and a common motion `c(frame)` added to a drift-free table is removed up
  to the constant `c(m0 − 1)`.
The caller's-table clause is about Python object identity; it is checked by the harness only.
-/
namespace TrackpyV.Drift
open List

/-! ## compute_drift -/

/-- Clause "returns for each frame the cumulative sum of the mean displacement of all particles
observed in both that frame and the previous one". -/
theorem drift_def (k : Nat) (t : List Row) (h : KeysNodup t) :
    computeDriftCol k t = (mframes t).map (fun f => (f, specDrift k t f)) :=
  computeDriftCol_eq k t h

/-- which frames carry a drift value -/
theorem drift_frames (t : List Row) (f : Int) :
    f ∈ mframes t ↔
      ∃ a r, r ∈ t ∧ a ∈ t ∧ r.frame = f ∧ a.particle = r.particle ∧ a.frame + 1 = f :=
  mem_mframes'

theorem drift_frames_sorted (t : List Row) : (mframes t).Pairwise (· < ·) := mframes_sorted t

/-- the displacements averaged at frame `f` are exactly `x_r − x_a` over those pairs -/
theorem drift_pairs (t : List Row) (f : Int) (a r : Row) :
    (a, r) ∈ pairsAt t f ↔
      r ∈ t ∧ a ∈ t ∧ r.frame = f ∧ a.particle = r.particle ∧ a.frame + 1 = f :=
  mem_pairsAt

/-- Clause "independent of row order". -/
theorem drift_order_indep (k : Nat) (t t' : List Row) (hp : t.Perm t') (h : KeysNodup t) :
    computeDriftCol k t = computeDriftCol k t' := by
  unfold computeDriftCol
  rw [sortPF_eq_of_perm hp h]

/-! ## subtract_drift -/

/-- Clause "subtracts exactly that curve, frame by frame, from every position". -/
theorem subtract_pointwise (ds : List (List (Int × Rat))) (r : Row) (k : Nat)
    (hk : k < r.pos.length) :
    (subRow ds r).x k = r.x k - driftAt (ds.getD k []) r.frame :=
  subRow_x ds r k hk

theorem driftAt_of_not_mem (d : List (Int × Rat)) (f : Int) (h : ∀ v, (f, v) ∉ d) :
    driftAt d f = 0 := by
  induction d with
  | nil => simp [driftAt]
  | cons e l ih =>
    obtain ⟨g, v⟩ := e
    unfold driftAt at *
    rw [lookup_cons]
    have hne : ¬ f = g := by
      intro hfg; subst hfg; exact h v mem_cons_self
    have : (f == g) = false := by simp [hne]
    rw [this]
    exact ih (fun v hv => h v (mem_cons_of_mem _ hv))

/-- Clause "frames for which no drift value exists are left unchanged". -/
theorem subtract_unmeasured_unchanged (ds : List (List (Int × Rat))) (r : Row) (k : Nat)
    (hk : k < r.pos.length) (h : ∀ v, (r.frame, v) ∉ ds.getD k []) :
    (subRow ds r).x k = r.x k := by
  rw [subRow_x ds r k hk, driftAt_of_not_mem _ _ h]; ring

/-- Clause "without touching other columns": particle, frame and every other cell (`tag`) of a
row are carried, and the number of position columns is unchanged. -/
theorem subtract_other_columns (ds : List (List (Int × Rat))) (r : Row) :
    (subRow ds r).particle = r.particle ∧ (subRow ds r).frame = r.frame ∧
      (subRow ds r).tag = r.tag ∧ (subRow ds r).pos.length = r.pos.length := by
  refine ⟨rfl, rfl, rfl, ?_⟩
  simp [subRow]

/-- the output consists of the rows of the input (each with its drift subtracted), reordered -/
theorem subtract_rows_perm (ds : List (List (Int × Rat))) (t : List Row) :
    (subtractDrift ds t).Perm (t.map (subRow ds)) := sortFP_perm _

/-! ## re-measured drift, rigid motion -/

/-- the hypothesis as worded in the property implies the form used below -/
theorem later_measured_imp_contig (t : List Row) (h : LaterFramesMeasured t) :
    Contig (mframes t) := by
  intro m0 rest hm f hf
  have hs := mframes_sorted t
  rw [hm] at hs
  have hlt : m0 < f := (pairwise_cons.mp hs).1 f hf
  have hfm : f ∈ mframes t := by rw [hm]; exact mem_cons_of_mem _ hf
  obtain ⟨a, r, _, ha, _, _, haf⟩ := mem_mframes'.mp hfm
  by_cases h1 : f - 1 = m0
  · rw [h1, hm]; exact mem_cons_self
  · have : m0 < a.frame := by omega
    have := h m0 rest hm a ha this
    have e : a.frame = f - 1 := by omega
    rw [e] at this; exact this

theorem laterFramesMeasuredB_iff (t : List Row) :
    laterFramesMeasuredB t = true ↔ LaterFramesMeasured t := by
  unfold laterFramesMeasuredB LaterFramesMeasured
  cases hm : mframes t with
  | nil => simp
  | cons m0 rest =>
    simp only [all_eq_true, Bool.or_eq_true, decide_eq_true_eq, contains_iff_mem, cons.injEq,
      and_imp]
    constructor
    · intro h a b ha hb r hr hlt
      subst ha; subst hb
      rcases h r hr with h1 | h1
      · omega
      · exact h1
    · intro h r hr
      by_cases h1 : r.frame ≤ m0
      · exact Or.inl h1
      · exact Or.inr (h m0 rest rfl rfl r hr (by omega))

/-- Clause "the drift re-measured on its output is zero": same measured frames, value 0 at each.
`hrect`: column `k` exists in every row. -/
theorem redrift_zero (d k : Nat) (t : List Row) (hk : k < d) (h : KeysNodup t)
    (hrect : ∀ r ∈ t, k < r.pos.length) (hc : Contig (mframes t)) :
    computeDriftCol k (subtractOwnDrift d t) = (mframes t).map (fun f => (f, 0)) := by
  have hp : ∀ r, (subRow (ownDrift d t) r).particle = r.particle := fun _ => rfl
  have hf : ∀ r, (subRow (ownDrift d t) r).frame = r.frame := fun _ => rfl
  have hperm : (subtractOwnDrift d t).Perm (t.map (subRow (ownDrift d t))) := sortFP_perm _
  have hk' : KeysNodup (subtractOwnDrift d t) :=
    (keysNodup_perm hperm).mpr ((keysNodup_map _ hp hf t).mpr h)
  have hmf : mframes (subtractOwnDrift d t) = mframes t := by
    rw [mframes_perm hperm, mframes_map _ hp hf]
  rw [computeDriftCol_eq k _ hk', hmf]
  apply map_congr_left
  intro f _
  congr 1
  unfold specDrift
  rw [hmf]
  apply sum_map_zero
  intro x hx
  have hx' : x ∈ mframes t := (mem_filter.mp hx).1
  rw [meanDisp_perm hperm,
    meanDisp_map_offset _ hp hf k (fun f => - driftAt (computeDriftCol k t) f) t ?_ x hx']
  · have := drift_increment k t h hc x hx'
    linarith
  · intro r hr
    rw [subRow_x _ _ _ (hrect r hr), ownDrift_getD d t k hk]; ring

/-- the same under the hypothesis exactly as the property words it -/
theorem redrift_zero_of_later (d k : Nat) (t : List Row) (hk : k < d) (h : KeysNodup t)
    (hrect : ∀ r ∈ t, k < r.pos.length) (hl : LaterFramesMeasured t) :
    computeDriftCol k (subtractOwnDrift d t) = (mframes t).map (fun f => (f, 0)) :=
  redrift_zero d k t hk h hrect (later_measured_imp_contig t hl)

/-- Clause "a rigid common motion is removed completely": if `s` is drift-free (every mean
displacement 0) and the table is `s` with `c k frame` added to column `k` of every row, then on
every measured frame and on the frame `m0 − 1` before the first measured one the corrected
positions are those of `s` up to the one constant `c k (m0 − 1)`. -/
theorem rigid_motion_removed (d k : Nat) (s : List Row) (c : Nat → Int → Rat) (hk : k < d)
    (h : KeysNodup s) (hrect : ∀ r ∈ s, k < r.pos.length) (hc : Contig (mframes s))
    (hz : ∀ f ∈ mframes s, meanDisp k s f = 0)
    (m0 : Int) (rest : List Int) (hm : mframes s = m0 :: rest) (r : Row)
    (hfr : r.frame ∈ mframes s ∨ r.frame = m0 - 1) (hkr : k < r.pos.length) :
    (subRow (ownDrift d (s.map (shiftRow c))) (shiftRow c r)).x k = r.x k + c k (m0 - 1) := by
  have hp : ∀ r, (shiftRow c r).particle = r.particle := fun _ => rfl
  have hf : ∀ r, (shiftRow c r).frame = r.frame := fun _ => rfl
  have ht : KeysNodup (s.map (shiftRow c)) := (keysNodup_map _ hp hf s).mpr h
  have hmf : mframes (s.map (shiftRow c)) = mframes s := mframes_map _ hp hf s
  have hs := mframes_sorted s
  rw [hm] at hs
  have hge : ∀ f ∈ mframes s, m0 ≤ f := by
    intro f hf'
    rw [hm] at hf'
    rcases mem_cons.mp hf' with h1 | h1
    · omega
    · exact Int.le_of_lt ((pairwise_cons.mp hs).1 f h1)
  -- increments of the drift of the moved table
  have hinc : ∀ f ∈ mframes s,
      driftAt (computeDriftCol k (s.map (shiftRow c))) f
        - driftAt (computeDriftCol k (s.map (shiftRow c))) (f - 1) = c k f - c k (f - 1) := by
    intro f hf'
    rw [drift_increment k _ ht (hmf ▸ hc) f (hmf ▸ hf'),
      meanDisp_map_offset _ hp hf k (c k) s (fun r hr => shiftRow_x c r k (hrect r hr)) f hf',
      hz f hf']
    ring
  have hbefore : driftAt (computeDriftCol k (s.map (shiftRow c))) (m0 - 1) = 0 := by
    rw [driftAt_computeDriftCol k _ ht, hmf, if_neg]
    intro hmem
    have := hge _ hmem
    omega
  have key : ∀ n : Nat, ∀ f ∈ mframes s, f = m0 + n →
      driftAt (computeDriftCol k (s.map (shiftRow c))) f = c k f - c k (m0 - 1) := by
    intro n
    induction n with
    | zero =>
      intro f hf' hfe
      have hfm : f = m0 := by omega
      have := hinc f hf'
      rw [hfm] at this ⊢
      rw [hbefore] at this
      linarith
    | succ n ih =>
      intro f hf' hfe
      have hne : f ∈ rest := by
        have : f ∈ m0 :: rest := hm ▸ hf'
        rcases mem_cons.mp this with h1 | h1
        · omega
        · exact h1
      have hprev : f - 1 ∈ mframes s := hc m0 rest hm f hne
      have h1 := ih (f - 1) hprev (by omega)
      have h2 := hinc f hf'
      linarith
  have hlen : k < (shiftRow c r).pos.length := by simpa [shiftRow] using hkr
  rw [subRow_x _ _ _ hlen, ownDrift_getD d _ k hk, shiftRow_x c r k hkr]
  show r.x k + c k r.frame - driftAt (computeDriftCol k (s.map (shiftRow c))) r.frame = _
  rcases hfr with h1 | h1
  · have hn : r.frame = m0 + ((r.frame - m0).toNat : Int) := by
      have := hge _ h1; omega
    rw [key _ r.frame h1 hn]; ring
  · rw [h1, hbefore]; ring

/-! ## non-vacuity: a concrete table (2 particles, a gap, a particle entering) -/

def exT : List Row :=
  [ ⟨1, 1, [10, 0], 5⟩, ⟨0, 2, [3, 1], 2⟩, ⟨0, 0, [0, 0], 0⟩, ⟨1, 2, [21/2, 0], 6⟩,
    ⟨0, 1, [1, 1], 1⟩, ⟨1, 3, [12, 4], 7⟩ ]

example : keysNodupB exT = true := by decide
example : mframes exT = [1, 2, 3] := by decide
example : contigB (mframes exT) = true := by decide
example : laterFramesMeasuredB exT = true := by decide
example : computeDriftCol 0 exT = [(1, 1), (2, 9/4), (3, 15/4)] := by decide +kernel
example : computeDriftCol 0 (subtractOwnDrift 2 exT) = [(1, 0), (2, 0), (3, 0)] := by decide +kernel
example : computeDriftCol 0 exT.reverse = computeDriftCol 0 exT := by decide +kernel
/-- the hypothesis of `redrift_zero` is needed: frames 0,1,3,4 (frame 2 missing) -/
def exGap : List Row := [⟨0, 0, [0], 0⟩, ⟨0, 1, [1], 1⟩, ⟨0, 3, [5], 2⟩, ⟨0, 4, [6], 3⟩]
example : contigB (mframes exGap) = false := by decide
example : computeDriftCol 0 (subtractOwnDrift 1 exGap) = [(1, 0), (4, -1)] := by decide +kernel

/-- hypotheses of `rigid_motion_removed` are satisfiable: a drift-free base (two particles moving
oppositely) plus the common motion `c k f = 3 f / 2` -/
def exS : List Row :=
  [⟨0, 0, [0], 0⟩, ⟨1, 0, [5], 1⟩, ⟨0, 1, [1], 2⟩, ⟨1, 1, [4], 3⟩, ⟨0, 2, [3], 4⟩, ⟨1, 2, [2], 5⟩]
def exC : Nat → Int → Rat := fun _ f => 3 * (f : Rat) / 2
example : keysNodupB exS = true := by decide
example : mframes exS = [1, 2] := by decide
example : contigB (mframes exS) = true := by decide
example : (mframes exS).all (fun f => meanDisp 0 exS f == 0) = true := by decide +kernel
example : computeDriftCol 0 (exS.map (shiftRow exC)) = [(1, 3/2), (2, 3)] := by decide +kernel
example : (subtractOwnDrift 1 (exS.map (shiftRow exC))).map (fun r => r.x 0) = [0, 5, 1, 4, 3, 2] := by
  decide +kernel

end TrackpyV.Drift
