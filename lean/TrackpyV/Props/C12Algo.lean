import TrackpyV.Props.C12Split
import TrackpyV.Proofs.AdaptiveAlgoOpt
/-!
# C12 — the adaptive step relation is not stricter than the algorithm (all inputs)

`algoA_accepted` : for EVERY state satisfying the linker invariant and EVERY new level that stays
within the neighbour cap, the deterministic adaptive step `algoLabelsA`
(`Model/AdaptiveAlgo.lean`: sub-nets → `plan` (reduce the range / split until every group fits)
→ branch-and-bound per final group with the reduced range as the cost of not linking → labels)
and the monitor `stepCheckA` agree:

* if the algorithm returns labels, the monitor accepts them (valid in the sense of C01, every
  final group solved optimally, every source that fell out of all groups left unlinked) and moves
  to the state the labels induce;
* if the algorithm raises (some still-oversize group has reached `adaptive_stop`), the monitor
  expects exactly that raise.

Hence the relation used to judge `adaptive_link_wrap` + `split_subnet` is satisfiable on every
input and not stricter than the faithful mirror of the algorithm.  No hypothesis on the adaptive
parameters is needed (not even `0 < p ≤ q`), and none on `cfg.drop` (`stepCheckA` does not read
it); `cfg.numbaCap = false` and `cappedB = false` select the branch of the relation in which the
adaptive claims are judged at all.

`algoA_run_accepted` lifts this to whole movies.
-/
namespace TrackpyV.Adaptive
open TrackpyV.Assign TrackpyV.Linker

/-- what suffices for the monitor to accept returned labels -/
theorem stepCheckA_accepts (a : ACfg) (cfg : Cfg) (hnc : cfg.numbaCap = false) (st : State)
    (t : Int) (dsts : List Pos) (hcap : cappedB cfg st t dsts = false) (labels : List Nat)
    (hplans : PlansOK a cfg st t dsts) (hv : validWhy cfg st t dsts labels = none)
    (hfin : ∀ n ∈ stepNets cfg st t dsts, ∀ fs, plan a cfg.B 64 0 n = some fs →
      (∀ f ∈ fs, finalOkB a cfg st labels f = true) ∧ orphansOkB st labels n fs = true) :
    ∃ r f, stepCheckA a cfg st t dsts (some labels) =
      .ok (nextState cfg st t dsts labels) r f false := by
  unfold stepCheckA
  simp only [hcap, hnc, Bool.false_and, Bool.or_false, Bool.false_eq_true, if_false]
  split
  · rename_i hr
    exfalso
    simp only [List.any_eq_true, List.mem_map] at hr
    obtain ⟨x, ⟨n, hn, rfl⟩, hx⟩ := hr
    obtain ⟨fs, hfs⟩ := hplans n hn
    simp [hfs] at hx
  · split
    · rename_i why hw
      rw [hv] at hw; cases hw
    · split
      · rename_i hok
        exfalso
        rw [Bool.not_eq_true', List.all_eq_false] at hok
        obtain ⟨x, hx, hxf⟩ := hok
        obtain ⟨n, hn, rfl⟩ := List.mem_map.mp hx
        obtain ⟨fs, hfs⟩ := hplans n hn
        obtain ⟨h1, h2⟩ := hfin n hn fs hfs
        apply hxf
        simp only [hfs, Bool.and_eq_true, List.all_eq_true]
        exact ⟨h1, h2⟩
      · exact ⟨_, _, rfl⟩

/-- what suffices for the monitor to expect the raise -/
theorem stepCheckA_expects (a : ACfg) (cfg : Cfg) (hnc : cfg.numbaCap = false) (st : State)
    (t : Int) (dsts : List Pos) (hcap : cappedB cfg st t dsts = false)
    (n : Net) (hn : n ∈ stepNets cfg st t dsts) (hp : plan a cfg.B 64 0 n = none) :
    stepCheckA a cfg st t dsts none = .expectOversize := by
  unfold stepCheckA
  simp only [hcap, hnc, Bool.false_and, Bool.or_false, Bool.false_eq_true, if_false]
  split
  · rfl
  · rename_i hr
    exfalso
    apply hr
    simp only [List.any_eq_true, List.mem_map]
    exact ⟨(n, plan a cfg.B 64 0 n), ⟨n, hn, rfl⟩, by simp [hp]⟩

/-- **The adaptive monitor accepts the deterministic adaptive step on every reachable state and
every level within the neighbour cap — and expects the raise exactly when the algorithm raises.** -/
theorem algoA_accepted (a : ACfg) (cfg : Cfg) (hnc : cfg.numbaCap = false) (st : State)
    (hist : List LLevel) (hinv : Inv cfg st hist) (t : Int) (dsts : List Pos)
    (hcap : cappedB cfg st t dsts = false) :
    (∀ labels, algoLabelsA a cfg st t dsts = some labels →
      ∃ r f, stepCheckA a cfg st t dsts (some labels) =
        .ok (nextState cfg st t dsts labels) r f false) ∧
    (algoLabelsA a cfg st t dsts = none →
      stepCheckA a cfg st t dsts none = .expectOversize) := by
  have hg := good_of_inv hinv
  rcases algoLabelsA_cases a cfg st t dsts with ⟨hp, he⟩ | ⟨⟨n, hn, hpn⟩, he⟩
  · refine ⟨?_, fun h => by rw [he] at h; cases h⟩
    intro labels hl
    rw [he] at hl
    cases hl
    refine stepCheckA_accepts a cfg hnc st t dsts hcap _ hp (algoA_valid a cfg st t dsts hg) ?_
    intro n hn fs hfs
    refine ⟨?_, orphansOk_algo a cfg st t dsts hg n hn fs hfs⟩
    intro f hf
    apply finalOk_algo a cfg st t dsts hg f
    simp only [stepFinals, List.mem_flatMap]
    exact ⟨n, hn, by simp [pf, hfs, hf]⟩
  · refine ⟨fun labels h => (by rw [he] at h; cases h), fun _ => ?_⟩
    exact stepCheckA_expects a cfg hnc st t dsts hcap n hn hpn

/-- the algorithm's labels are valid in the sense of C01 on every reachable state (no cap
hypothesis at all) -/
theorem algoA_labels_valid (a : ACfg) (cfg : Cfg) (st : State) (hist : List LLevel)
    (hinv : Inv cfg st hist) (t : Int) (dsts : List Pos) (labels : List Nat)
    (h : algoLabelsA a cfg st t dsts = some labels) : validWhy cfg st t dsts labels = none := by
  rcases algoLabelsA_cases a cfg st t dsts with ⟨_, he⟩ | ⟨_, he⟩
  · rw [he] at h; cases h
    exact algoA_valid a cfg st t dsts (good_of_inv hinv)
  · rw [he] at h; cases h

/-! ### whole movies -/

/-- the labelled levels are accepted one after the other by the adaptive monitor (with the
adaptive claims judged: flag `capped = false`), starting from state `st` -/
def AcceptsFromA (a : ACfg) (cfg : Cfg) : State → List LLevel → Prop
  | _, [] => True
  | st, lv :: rest =>
    ∃ st' r f, stepCheckA a cfg st lv.t lv.dsts (some lv.labels) = .ok st' r f false ∧
      AcceptsFromA a cfg st' rest

/-- the steps of a movie stay within the neighbour cap and never raise when labelled by the
deterministic adaptive algorithm -/
def WithinCapsA (a : ACfg) (cfg : Cfg) : State → List (Int × List Pos) → Prop
  | _, [] => True
  | st, (t, dsts) :: rest =>
    cappedB cfg st t dsts = false ∧
    ∃ labels, algoLabelsA a cfg st t dsts = some labels ∧
      WithinCapsA a cfg (nextState cfg st t dsts labels) rest

/-- the movie labelled by the deterministic adaptive algorithm (a raising step gets no labels;
excluded by `WithinCapsA`) -/
def algoRunA (a : ACfg) (cfg : Cfg) : State → List (Int × List Pos) → List LLevel
  | _, [] => []
  | st, (t, dsts) :: rest =>
    let labels := (algoLabelsA a cfg st t dsts).getD []
    { t := t, dsts := dsts, labels := labels } ::
      algoRunA a cfg (nextState cfg st t dsts labels) rest

/-- **Existence of an accepted labelling for every movie** whose steps stay within the neighbour
cap and do not raise: the adaptive monitor accepts the deterministic adaptive algorithm's output
step after step. -/
theorem algoA_run_accepted (a : ACfg) (cfg : Cfg) (hnc : cfg.numbaCap = false)
    (levels : List (Int × List Pos)) (st : State) (hist : List LLevel) (hinv : Inv cfg st hist)
    (hc : WithinCapsA a cfg st levels) : AcceptsFromA a cfg st (algoRunA a cfg st levels) := by
  induction levels generalizing st hist with
  | nil => trivial
  | cons l rest ih =>
    obtain ⟨t, dsts⟩ := l
    obtain ⟨hcap, labels, hlab, hrest⟩ := hc
    obtain ⟨r, f, hstep⟩ := (algoA_accepted a cfg hnc st hist hinv t dsts hcap).1 labels hlab
    simp only [algoRunA, hlab, Option.getD_some]
    refine ⟨_, r, f, hstep, ?_⟩
    obtain ⟨_, hinv'⟩ := stepCheckA_valid hinv hstep
    exact ih _ _ hinv' hrest

/-! ### non-vacuity (tests, labelled as such) -/

/-- 1-D, range² = 16: two tracks at 0 and 5, two new features at 1 and 4 — one sub-net of two
sources (near pairs cost 1, far pairs cost 16 = B), above the adaptive limit 1 of `exA` -/
def exCfgA : Cfg :=
  { w := [1], B := 16, memory := 0, maxNeighbors := 10, maxSize := 30, vel := none, drop := false }

def exStA : State :=
  { srcs := [{ pos := [0], track := 0, t := 0, age := 0 }, { pos := [5], track := 1, t := 0, age := 0 }],
    used := [0, 1] }

/-- the sub-net is reduced once (k = 1 for both final groups) … -/
example : (stepNets exCfgA exStA 1 [[1], [4]]).map
    (fun n => (plan exA exCfgA.B 64 0 n).map (fun fs => fs.map (fun f => (f.k, netIds f.net, f.net.dsts)))) =
    [some [(1, [1], [1]), (1, [0], [0])]] := by
  simp [stepNets, stepGroups, stepCands, subnets, candsOf, candsOfRow, realOfRow, distRow, dist2,
    view, sqI, insCand, exCfgA, exStA, exA, plan, shortcut, atStop, split, prune, inForce, addSource,
    hasDest, realDests, allSome, List.find?, getD', netIds, List.zipIdx, List.range, List.range.loop]

/-- … and the algorithm returns labels: each feature continues the near track -/
example : algoLabelsA exA exCfgA exStA 1 [[1], [4]] = some [0, 1] := by
  simp [algoLabelsA, algoChoicesA, netChoice, finalChoice, finalSrcs, solveOrdered, go, exceeds,
    taken, better, labelOf, trackOf, freshBase,
    stepNets, stepGroups, stepCands, subnets, candsOf, candsOfRow, realOfRow, distRow, dist2,
    view, sqI, insCand, exCfgA, exStA, exA, plan, shortcut, atStop, split, prune, inForce, addSource,
    hasDest, realDests, allSome, List.find?, getD', netIds, List.zipIdx, List.range, List.range.loop]

/-- the level is within the neighbour cap … -/
example : cappedB exCfgA exStA 1 [[1], [4]] = false := by
  simp [cappedB, nNeighbors, dist2, view, sqI, exCfgA, exStA]

/-- … and the monitor accepts exactly these labels: one sub-net reduced, two final groups
(the instance of `algoA_accepted`, evaluated) -/
example : stepCheckA exA exCfgA exStA 1 [[1], [4]] (some [0, 1]) =
    .ok (nextState exCfgA exStA 1 [[1], [4]] [0, 1]) 1 2 false := by
  simp [stepCheckA, cappedB, nNeighbors, validWhy, freshLabels, linksOkB, finalOkB, finalAsg, chosenA,
    orphansOkB, admissibleB, sortedB, cost, finalSrcs, solveOrdered, go, exceeds, taken, better,
    stepNets, stepGroups, stepCands, subnets, candsOf, candsOfRow, realOfRow, distRow, dist2,
    view, sqI, insCand, exCfgA, exStA, exA, plan, shortcut, atStop, split, prune, inForce, addSource,
    hasDest, realDests, allSome, List.find?, getD', List.zipIdx, List.range, List.range.loop,
    List.idxOf?, List.findIdx?, List.findIdx?.go]

end TrackpyV.Adaptive
