import TrackpyV.Props.C01
import TrackpyV.Proofs.LinkTable
/-!
# C01, last sentence — the table adapters

"The returned rows are the input rows (same index, columns and values, frame coerced to integer,
ordered by frame) and the caller's table is left unmodified."

Model: `Model/LinkTable.lean` (`linkTable` = `trackpy.linking.linking.link`, `coordsFromDf` =
`trackpy.linking.utils.coords_from_df`, `linkDfIter` = `link_df_iter`).  Every theorem about
`linkTable` is stated for **every** sort permutation `σ` with `SortPerm σ rows` (a permutation of the
row positions that leaves the coerced frame column non-decreasing): pandas' default `sort_values`
is not stable, so nothing is assumed about the order within a frame.  The labelling function
`labelsOf` (what `link_iter` yields for the levels) is a parameter; the hypothesis "one label per
feature of every level" is what `accepted_valid` (Props/C01) provides for every labelling the
monitor accepts (`accepted_label_counts`, `linkTable_total_of_accepted`).

* `linkTable_rows`, `linkTable_perm`, `linkTable_sorted`, `linkTable_payload` — returned rows =
  input rows, frame coerced, reordered by `σ`, sorted by frame, nothing else touched.
* `coordsFromDf_levels`, `coordsFromDf_sizes` — the levels handed to the linker: one per integer
  frame in `[min, max]`, holding exactly the rows of that frame in table order, empty for a
  missing frame; level sizes add up to the number of rows.
* `linkTable_labels_match`, `linkTable_total_labels` — positional write-back: the output is the
  concatenation, level by level, of (rows of that frame, in sorted-table order) zipped with the
  labels the linker returned for that level.
* `linkDfIter_levels`, `linkDfIter_rows`, `linkDfIter_labels`, `linkDfIter_total` — the same for the
  iterator adapter (no coercion, no sorting).

Purity ("the caller's table is left unmodified") is trivial here — the model is a function of
`rows` and cannot modify them — and therefore stays an oracle check on the real DataFrames
(harness/c01.py: `assert_frame_equal` against a deep copy taken before the call).
-/
namespace TrackpyV.LinkTable

/-- the levels `coords_from_df` must produce: one per integer in `[lo, hi]`, each with the
coordinates of the rows of that frame, in table order -/
def levelsSpec (lo hi : Int) (rows : List IRow) : List (Int × List Pos) :=
  (List.range (hi + 1 - lo).toNat).map (fun (k : Nat) =>
    (lo + (k : Int), (rows.filter (fun r => r.frame == lo + (k : Int))).map (·.coords)))

/-! ## coercion -/

/-- on an integer-valued frame the coercion is the identity (so one function models both branches
of `if not np.issubdtype(f[t_column].dtype, np.integer)`, and float frames like `3.0` become `3`) -/
theorem coerceFrame_int (n : Int) : coerceFrame (n : Rat) = n := by
  simp [coerceFrame]

/-- non-integral float frames are truncated toward zero, as `astype(np.int64)` does (tests) -/
example : coerceFrame ⟨27, 10, by decide, by decide⟩ = 2 ∧
    coerceFrame ⟨-27, 10, by decide, by decide⟩ = -2 ∧
    coerceFrame ⟨-1, 2, by decide, by decide⟩ = 0 := by decide

/-! ## coords_from_df -/

theorem levels_of_blocks (lo : Int) (n : Nat) (s : List IRow) :
    (List.range n).zipWith (fun (k : Nat) (blk : List IRow) => (lo + (k : Int), blk.map (·.coords)))
      (frameBlocks lo n s) =
    (List.range n).map (fun (k : Nat) =>
      (lo + (k : Int), (s.filter (fun r => r.frame == lo + (k : Int))).map (·.coords))) := by
  unfold frameBlocks
  rw [List.zipWith_map_right, List.zipWith_self]

theorem coordsFromDf_eq (rows : List IRow) (a : IRow) (s' : List IRow)
    (hs : stableSort rows = a :: s') :
    coordsFromDf rows =
      some (levelsSpec a.frame ((a :: s').getLast (by simp)).frame rows) := by
  have hsorted := stableSort_sorted rows
  rw [hs] at hsorted
  have hge : ∀ r ∈ a :: s', a.frame ≤ r.frame := by
    intro r hr
    rcases List.mem_cons.mp hr with rfl | h
    · exact Int.le_refl _
    · exact (List.pairwise_cons.mp hsorted).1 r h
  have hlast : ∃ g, (runs (a :: s')).getLast? = some (((a :: s').getLast (by simp)).frame, g) := by
    have := runs_getLast (a :: s')
    rw [List.getLast?_eq_some_getLast (l := a :: s') (by simp)] at this
    cases hl : (runs (a :: s')).getLast? with
    | none => rw [hl] at this; simp at this
    | some x =>
      rw [hl] at this
      simp only [Option.map_some, Option.some.injEq] at this
      exact ⟨x.2, by rw [← this]⟩
  obtain ⟨g, hg⟩ := hlast
  unfold coordsFromDf
  simp only [hs]
  have hpipe := pipeline_groups (a :: s') (by simp)
  have hhead : ∃ c, (List.map (fun ug : Int × List IRow => (ug.1, ug.2.length))
      (runs (a :: s'))).head? = some (a.frame, c) := by
    rw [runs_cons]; exact ⟨_, rfl⟩
  obtain ⟨c, hc⟩ := hhead
  rw [hpipe, rle_runs, List.getLast?_map, hg, hc]
  simp only [Option.map_some]
  rw [emit_spec _ _ _ hsorted hge, levels_of_blocks]
  unfold levelsSpec
  congr 1
  apply List.map_congr_left
  intro k _
  rw [← hs, stableSort_filter]

/-- **`coords_from_df` (utils.py:33-58).**  For a non-empty table the generator yields exactly one
level per integer frame number between the smallest and the largest frame present; the level of
frame `t` holds the coordinates of exactly the rows with frame `t`, in table order (the argsort
is stable); a frame number without rows gets an empty level. -/
theorem coordsFromDf_levels (rows : List IRow) (hne : rows ≠ []) :
    ∃ lo hi, (∃ r ∈ rows, r.frame = lo) ∧ (∃ r ∈ rows, r.frame = hi) ∧
      (∀ r ∈ rows, lo ≤ r.frame ∧ r.frame ≤ hi) ∧
      coordsFromDf rows = some (levelsSpec lo hi rows) := by
  have hperm := stableSort_perm rows
  cases hs : stableSort rows with
  | nil => rw [hs] at hperm; exact absurd hperm.symm.eq_nil hne
  | cons a s' =>
    have hsorted := stableSort_sorted rows
    rw [hs] at hsorted hperm
    refine ⟨a.frame, ((a :: s').getLast (by simp)).frame, ⟨a, ?_, rfl⟩, ⟨_, ?_, rfl⟩, ?_,
      coordsFromDf_eq rows a s' hs⟩
    · exact hperm.mem_iff.mp List.mem_cons_self
    · exact hperm.mem_iff.mp (List.getLast_mem _)
    · intro r hr
      have hr' : r ∈ a :: s' := hperm.mem_iff.mpr hr
      refine ⟨?_, sorted_le_getLast _ hsorted (by simp) r hr'⟩
      rcases List.mem_cons.mp hr' with rfl | h
      · exact Int.le_refl _
      · exact (List.pairwise_cons.mp hsorted).1 r h

/-- the empty table: `unique_times[0]` raises IndexError -/
theorem coordsFromDf_nil : coordsFromDf [] = none := by
  simp [coordsFromDf, stableSort, rle]

theorem sum_blocks (lo hi : Int) (s : List IRow)
    (hs : s.Pairwise (fun a b => a.frame ≤ b.frame))
    (hb : ∀ r ∈ s, lo ≤ r.frame ∧ r.frame ≤ hi) :
    (frameBlocks lo (hi + 1 - lo).toNat s).flatten = s := by
  apply sorted_eq_flatten _ _ _ hs
  intro r hr
  have := hb r hr
  refine ⟨this.1, ?_⟩
  have : ((hi + 1 - lo).toNat : Int) = hi + 1 - lo := Int.toNat_of_nonneg (by omega)
  omega

theorem levelsSpec_sizes (lo hi : Int) (rows : List IRow) :
    (levelsSpec lo hi rows).map (fun lv => lv.2.length) =
      (frameBlocks lo (hi + 1 - lo).toNat rows).map List.length := by
  simp [levelsSpec, frameBlocks, Function.comp_def]

/-- **level sizes add up** — `Σ level sizes = #rows`: every row is in exactly one level (this is what
makes the positional write-back `f['particle'] = ids` well defined). -/
theorem coordsFromDf_sizes (rows : List IRow) (levels : List (Int × List Pos))
    (h : coordsFromDf rows = some levels) :
    (levels.map (fun lv => lv.2.length)).sum = rows.length := by
  cases rows with
  | nil => rw [coordsFromDf_nil] at h; cases h
  | cons r rs =>
    obtain ⟨lo, hi, _, _, hb, heq⟩ := coordsFromDf_levels (r :: rs) (by simp)
    rw [heq] at h
    cases h
    -- count on the sorted table (same rows), where the blocks concatenate to the table
    have hperm := stableSort_perm (r :: rs)
    have hsz : (levelsSpec lo hi (r :: rs)).map (fun lv => lv.2.length) =
        (frameBlocks lo (hi + 1 - lo).toNat (stableSort (r :: rs))).map List.length := by
      rw [levelsSpec_sizes]
      unfold frameBlocks
      simp only [List.map_map]
      apply List.map_congr_left
      intro k _
      simp only [Function.comp]
      rw [stableSort_filter]
    rw [hsz, ← List.length_flatten,
      sum_blocks lo hi _ (stableSort_sorted _) (fun x hx => hb x (hperm.mem_iff.mp hx))]
    exact hperm.length_eq

/-! ## link -/

theorem sortedTable_perm (σ : List Nat) (rows : List Row) (H : SortPerm σ rows) :
    (sortedTable σ rows).Perm (rows.map coerceRow) :=
  applyPerm_perm σ _ (by simpa using H.1)

theorem sortedTable_length (σ : List Nat) (rows : List Row) (H : SortPerm σ rows) :
    (sortedTable σ rows).length = rows.length := by
  simpa using (sortedTable_perm σ rows H).length_eq

theorem map_row_zipWith (a : List IRow) (b : List Nat) (h : b.length = a.length) :
    (List.zipWith ORow.mk a b).map (·.row) = a ∧ (List.zipWith ORow.mk a b).map (·.particle) = b := by
  induction a generalizing b with
  | nil => cases b <;> simp at h ⊢
  | cons x a ih =>
    cases b with
    | nil => simp at h
    | cons y b =>
      have := ih b (by simpa using h)
      simp [this.1, this.2]

theorem attach_some {sorted : List IRow} {labels : List (List Nat)} {out : List ORow}
    (h : attach sorted labels = some out) :
    out.map (·.row) = sorted ∧ out.map (·.particle) = labels.flatten := by
  unfold attach at h
  simp only at h
  split at h
  · rename_i hl
    cases h
    exact map_row_zipWith _ _ hl
  · cases h

/-- **returned rows, positionally**: the rows of the returned table (without the new `particle`
column) are the coerced input rows reordered by the sort permutation — whole rows move together
(index value, coordinates and payload stay attached to each other). -/
theorem linkTable_rows (labelsOf : List (Int × List Pos) → List (List Nat)) (σ : List Nat)
    (rows : List Row) (out : List ORow) (h : linkTable labelsOf σ rows = some out) :
    out.map (·.row) = sortedTable σ rows := by
  unfold linkTable at h
  simp only at h
  split at h
  · cases h
  · exact (attach_some h).1

/-- **"The returned rows are the input rows … frame coerced to integer"**: without the label
column the output is a permutation of the input rows with the frame coerced (as a multiset of whole
rows: duplicated index values, duplicated rows are handled). -/
theorem linkTable_perm (labelsOf : List (Int × List Pos) → List (List Nat)) (σ : List Nat)
    (rows : List Row) (H : SortPerm σ rows) (out : List ORow)
    (h : linkTable labelsOf σ rows = some out) :
    (out.map (·.row)).Perm (rows.map coerceRow) := by
  rw [linkTable_rows labelsOf σ rows out h]
  exact sortedTable_perm σ rows H

/-- **"ordered by frame"** -/
theorem linkTable_sorted (labelsOf : List (Int × List Pos) → List (List Nat)) (σ : List Nat)
    (rows : List Row) (H : SortPerm σ rows) (out : List ORow)
    (h : linkTable labelsOf σ rows = some out) :
    out.Pairwise (fun a b => a.row.frame ≤ b.row.frame) := by
  have := H.2
  rw [← linkTable_rows labelsOf σ rows out h, List.pairwise_map] at this
  exact this

/-- **"same index, columns and values"**: every returned row is an input row whose index value,
coordinates and payload are unchanged and whose frame is the integer coercion of the given frame;
and every input row is returned. -/
theorem linkTable_payload (labelsOf : List (Int × List Pos) → List (List Nat)) (σ : List Nat)
    (rows : List Row) (H : SortPerm σ rows) (out : List ORow)
    (h : linkTable labelsOf σ rows = some out) :
    (∀ o ∈ out, ∃ r ∈ rows, o.row.index = r.index ∧ o.row.coords = r.coords ∧
        o.row.payload = r.payload ∧ o.row.frame = coerceFrame r.frame) ∧
    (∀ r ∈ rows, ∃ o ∈ out, o.row = coerceRow r) ∧ out.length = rows.length := by
  have hp := linkTable_perm labelsOf σ rows H out h
  refine ⟨?_, ?_, by simpa using hp.length_eq⟩
  · intro o ho
    have : o.row ∈ rows.map coerceRow := hp.mem_iff.mp (List.mem_map_of_mem ho)
    obtain ⟨r, hr, he⟩ := List.mem_map.mp this
    exact ⟨r, hr, by simp [← he, coerceRow]⟩
  · intro r hr
    have : coerceRow r ∈ out.map (·.row) := hp.mem_iff.mpr (List.mem_map_of_mem hr)
    obtain ⟨o, ho, he⟩ := List.mem_map.mp this
    exact ⟨o, ho, he⟩

/-- **the levels `link` feeds to `link_iter`** are those of the sorted table: one per integer frame
in `[min, max]`, rows of a frame in sorted-table order, missing frames empty. -/
theorem linkTable_levels (labelsOf : List (Int × List Pos) → List (List Nat)) (σ : List Nat)
    (rows : List Row) (H : SortPerm σ rows) (hne : rows ≠ []) :
    ∃ lo hi, (∃ r ∈ rows, coerceFrame r.frame = lo) ∧ (∃ r ∈ rows, coerceFrame r.frame = hi) ∧
      (∀ r ∈ rows, lo ≤ coerceFrame r.frame ∧ coerceFrame r.frame ≤ hi) ∧
      coordsFromDf (sortedTable σ rows) = some (levelsSpec lo hi (sortedTable σ rows)) ∧
      linkTable labelsOf σ rows =
        attach (sortedTable σ rows) (labelsOf (levelsSpec lo hi (sortedTable σ rows))) := by
  have hp := sortedTable_perm σ rows H
  have hne' : sortedTable σ rows ≠ [] := by
    intro h0
    rw [h0] at hp
    have := hp.symm.eq_nil
    simp at this
    exact hne this
  obtain ⟨lo, hi, ⟨a, ha, hlo⟩, ⟨b, hb, hhi⟩, hall, heq⟩ := coordsFromDf_levels _ hne'
  have key : ∀ x ∈ sortedTable σ rows, ∃ r ∈ rows, coerceFrame r.frame = x.frame := by
    intro x hx
    obtain ⟨r, hr, he⟩ := List.mem_map.mp (hp.mem_iff.mp hx)
    exact ⟨r, hr, by rw [← he]; rfl⟩
  refine ⟨lo, hi, ?_, ?_, ?_, heq, ?_⟩
  · obtain ⟨r, hr, he⟩ := key a ha; exact ⟨r, hr, by rw [he, hlo]⟩
  · obtain ⟨r, hr, he⟩ := key b hb; exact ⟨r, hr, by rw [he, hhi]⟩
  · intro r hr
    have : coerceRow r ∈ sortedTable σ rows := hp.mem_iff.mpr (List.mem_map_of_mem hr)
    exact hall _ this
  · unfold linkTable
    simp only [heq]

/-- **positional write-back** (`ids.extend(_ids)`; `f['particle'] = ids`).  If the linker returns
one label per feature of every level, the returned table is, level after level, the rows of that
frame (in sorted-table order) paired with the labels the linker returned for that level, in the
same order: the label attached to a row is the label of that row's position within its level.
(An off-by-one in the write-back, or levels that do not partition the rows, breaks this.) -/
theorem linkTable_labels_match (labelsOf : List (Int × List Pos) → List (List Nat)) (σ : List Nat)
    (rows : List Row) (H : SortPerm σ rows) (levels : List (Int × List Pos))
    (hl : coordsFromDf (sortedTable σ rows) = some levels)
    (hL : (labelsOf levels).map List.length = levels.map (fun lv => lv.2.length)) :
    ∃ lo hi, levels = levelsSpec lo hi (sortedTable σ rows) ∧
      linkTable labelsOf σ rows =
        some ((List.zipWith (List.zipWith ORow.mk)
          (frameBlocks lo (hi + 1 - lo).toNat (sortedTable σ rows)) (labelsOf levels)).flatten) := by
  have hne : sortedTable σ rows ≠ [] := by
    intro h0; rw [h0, coordsFromDf_nil] at hl; cases hl
  obtain ⟨lo, hi, _, _, hall, heq⟩ := coordsFromDf_levels _ hne
  rw [heq] at hl
  cases hl
  refine ⟨lo, hi, rfl, ?_⟩
  have hflat := sum_blocks lo hi _ H.2 hall
  have hlen : (frameBlocks lo (hi + 1 - lo).toNat (sortedTable σ rows)).map List.length =
      (labelsOf (levelsSpec lo hi (sortedTable σ rows))).map List.length := by
    rw [hL, levelsSpec_sizes]
  unfold linkTable
  simp only [heq]
  unfold attach
  simp only
  have hcount : (labelsOf (levelsSpec lo hi (sortedTable σ rows))).flatten.length =
      (sortedTable σ rows).length := by
    rw [List.length_flatten, ← hlen, ← List.length_flatten, hflat]
  rw [if_pos hcount]
  congr 1
  conv => lhs; arg 2; rw [← hflat]
  exact zipWith_flatten _ _ _ hlen

/-- **every row gets exactly one label**: under the same hypothesis `link` does not raise at the
write-back, returns as many rows as it was given, and row `j` of the result carries `ids[j]`. -/
theorem linkTable_total_labels (labelsOf : List (Int × List Pos) → List (List Nat)) (σ : List Nat)
    (rows : List Row) (H : SortPerm σ rows) (levels : List (Int × List Pos))
    (hl : coordsFromDf (sortedTable σ rows) = some levels)
    (hL : (labelsOf levels).map List.length = levels.map (fun lv => lv.2.length)) :
    ∃ out, linkTable labelsOf σ rows = some out ∧ out.length = rows.length ∧
      out.map (·.particle) = (labelsOf levels).flatten := by
  have hsum := coordsFromDf_sizes _ _ hl
  have hcount : (labelsOf levels).flatten.length = (sortedTable σ rows).length := by
    rw [List.length_flatten, hL, hsum]
  unfold linkTable
  simp only [hl]
  unfold attach
  simp only
  rw [if_pos hcount]
  refine ⟨_, rfl, ?_, (map_row_zipWith _ _ hcount).2⟩
  simp [hcount, sortedTable_length σ rows H]

/-- conversely `link` raises at `f['particle'] = ids` exactly when the number of labels differs from
the number of rows -/
theorem linkTable_none_iff (labelsOf : List (Int × List Pos) → List (List Nat)) (σ : List Nat)
    (rows : List Row) (levels : List (Int × List Pos))
    (hl : coordsFromDf (sortedTable σ rows) = some levels) :
    linkTable labelsOf σ rows = none ↔
      (labelsOf levels).flatten.length ≠ (sortedTable σ rows).length := by
  unfold linkTable
  simp only [hl]
  unfold attach
  simp only
  split <;> simp_all

/-! ### the hypothesis is what C01's monitor theorem provides -/

open TrackpyV.Linker in
theorem validHist_label_counts (cfg : Cfg) (hist : List LLevel) (h : ValidHist cfg hist) :
    hist.map (fun lv => lv.labels.length) = hist.map (fun lv => lv.dsts.length) := by
  induction hist with
  | nil => rfl
  | cons lv hist ih =>
    obtain ⟨hok, hrest⟩ := h
    simp only [List.map_cons, ih hrest, hok.1]

open TrackpyV.Linker in
/-- every movie accepted by the monitor has one label per feature in every level
(`accepted_valid`, Props/C01) -/
theorem accepted_label_counts (cfg : Cfg) (lls : List LLevel) (h : Accepts cfg lls) :
    lls.map (fun lv => lv.labels.length) = lls.map (fun lv => lv.dsts.length) := by
  have := validHist_label_counts cfg _ (accepted_valid cfg lls h)
  simp only [List.map_reverse] at this
  exact List.reverse_inj.mp this

open TrackpyV.Linker in
/-- **C01 end to end for `link`**: if the labels the linker returned for the levels of the sorted
table are accepted by the monitor, every row of the table gets exactly one label. -/
theorem linkTable_total_of_accepted (cfg : Cfg) (lls : List LLevel) (hacc : Accepts cfg lls)
    (labelsOf : List (Int × List Pos) → List (List Nat)) (σ : List Nat)
    (rows : List Row) (H : SortPerm σ rows) (levels : List (Int × List Pos))
    (hl : coordsFromDf (sortedTable σ rows) = some levels)
    (hlev : lls.map (fun lv => (lv.t, lv.dsts)) = levels)
    (hlab : lls.map (fun lv => lv.labels) = labelsOf levels) :
    ∃ out, linkTable labelsOf σ rows = some out ∧ out.length = rows.length ∧
      out.map (·.particle) = (labelsOf levels).flatten := by
  apply linkTable_total_labels labelsOf σ rows H levels hl
  have := accepted_label_counts cfg lls hacc
  rw [← hlab, ← hlev]
  simpa [List.map_map, Function.comp_def] using this

/-! ## link_df_iter -/

/-- **levels of `link_df_iter`**: per table the first row's frame number as given (`None` for an
empty table) and all its coordinates in table order — no coercion, no sorting. -/
theorem linkDfIter_levels (tables : List (List Row)) :
    coordsFromDfIter tables =
      tables.map (fun df => (df.head?.map (·.frame), df.map (·.coords))) := by
  unfold coordsFromDfIter
  apply List.map_congr_left
  intro df _
  cases df <;> rfl

theorem zipAttach_some (tables : List (List Row)) (labels : List (List Nat))
    (out : List (List (Row × Nat))) (h : zipAttach tables labels = some out) :
    out.map (List.map Prod.fst) = tables.take labels.length ∧
    out.map (List.map Prod.snd) = labels.take tables.length := by
  induction tables generalizing labels out with
  | nil => simp [zipAttach] at h; subst h; simp
  | cons df dfs ih =>
    cases labels with
    | nil => simp [zipAttach] at h; subst h; simp
    | cons ids rest =>
      simp only [zipAttach] at h
      cases ha : attachIter df ids with
      | none => rw [ha] at h; simp at h
      | some o =>
        cases hz : zipAttach dfs rest with
        | none => rw [ha, hz] at h; simp at h
        | some os =>
          rw [ha, hz] at h
          simp only [Option.some.injEq] at h
          subst h
          obtain ⟨h1, h2⟩ := ih rest os hz
          unfold attachIter at ha
          split at ha
          · rename_i hlen
            cases ha
            simp only [List.map_cons, List.length_cons, List.take_succ_cons, h1, h2]
            constructor
            · rw [List.map_fst_zip (by omega)]
            · rw [List.map_snd_zip (by omega)]
          · cases ha

/-- **`link_df_iter`, rows**: every yielded table is the given table of that step (same rows, same
order, frame untouched) … -/
theorem linkDfIter_rows (labelsOf : List (Option Rat × List Pos) → List (List Nat))
    (tables : List (List Row)) (out : List (List (Row × Nat)))
    (h : linkDfIter labelsOf tables = some out) :
    out.map (List.map Prod.fst) =
      tables.take (labelsOf (coordsFromDfIter tables)).length :=
  (zipAttach_some _ _ _ h).1

/-- … **and labels**: plus the `particle` column holding, positionally, the labels the linker
returned for that step. -/
theorem linkDfIter_labels (labelsOf : List (Option Rat × List Pos) → List (List Nat))
    (tables : List (List Row)) (out : List (List (Row × Nat)))
    (h : linkDfIter labelsOf tables = some out) :
    out.map (List.map Prod.snd) = (labelsOf (coordsFromDfIter tables)).take tables.length :=
  (zipAttach_some _ _ _ h).2

theorem zipAttach_total (tables : List (List Row)) (labels : List (List Nat))
    (hL : labels.map List.length = tables.map List.length) :
    zipAttach tables labels = some (List.zipWith List.zip tables labels) := by
  induction tables generalizing labels with
  | nil => cases labels <;> simp [zipAttach]
  | cons df dfs ih =>
    cases labels with
    | nil => simp at hL
    | cons ids rest =>
      simp only [List.map_cons, List.cons.injEq] at hL
      simp [zipAttach, attachIter, hL.1, ih rest hL.2]

/-- **every feature of every table gets exactly one label** when the linker returns one label list
per table with one label per row (what `accepted_valid` provides): nothing raises, one output table
per input table, each `zip(rows, labels)`. -/
theorem linkDfIter_total (labelsOf : List (Option Rat × List Pos) → List (List Nat))
    (tables : List (List Row))
    (hL : (labelsOf (coordsFromDfIter tables)).map List.length = tables.map List.length) :
    linkDfIter labelsOf tables =
      some (List.zipWith List.zip tables (labelsOf (coordsFromDfIter tables))) :=
  zipAttach_total _ _ hL

/-! ## non-vacuity (tests, labelled as such) -/

/-- five rows, shuffled, float frames (two non-integral: 3.5 and -0.5), frame 2 missing,
duplicate index value -/
def exRows : List Row :=
  [ { index := 7, frame := 3, coords := [5, 5], payload := 0 },
    { index := 7, frame := 1, coords := [1, 1], payload := 1 },
    { index := 2, frame := 1, coords := [9, 9], payload := 2 },
    { index := 4, frame := ⟨7, 2, by decide, by decide⟩, coords := [6, 5], payload := 3 },
    { index := 5, frame := ⟨-1, 2, by decide, by decide⟩, coords := [1, 0], payload := 4 } ]

/-- an unstable sort result: within frame 1 and within frame 3 the table order is reversed -/
def exSigma : List Nat := [4, 2, 1, 3, 0]

def exSorted : List IRow :=
  [ { index := 5, frame := 0, coords := [1, 0], payload := 4 },
    { index := 2, frame := 1, coords := [9, 9], payload := 2 },
    { index := 7, frame := 1, coords := [1, 1], payload := 1 },
    { index := 4, frame := 3, coords := [6, 5], payload := 3 },
    { index := 7, frame := 3, coords := [5, 5], payload := 0 } ]

def exLabels : List (Int × List Pos) → List (List Nat) := fun _ => [[0], [1, 0], [], [2, 3]]

example : SortPerm exSigma exRows := by decide

theorem exSorted_eq : sortedTable exSigma exRows = exSorted := by decide

theorem exLevels : coordsFromDf exSorted =
    some [(0, [[1, 0]]), (1, [[9, 9], [1, 1]]), (2, []), (3, [[6, 5], [5, 5]])] := by
  unfold coordsFromDf
  rw [stableSort_of_sorted exSorted (by decide)]
  decide

example : (linkTable exLabels exSigma exRows).map
      (List.map (fun o => (o.row.payload, o.row.frame, o.particle))) =
    some [(4, 0, 0), (2, 1, 1), (1, 1, 0), (3, 3, 2), (0, 3, 3)] := by
  unfold linkTable
  rw [exSorted_eq]
  simp only [exLevels]
  decide

example : linkDfIter (fun _ => [[4], [], [5, 6]])
    [[exRows[0]], [], [exRows[1], exRows[2]]] =
    some [[(exRows[0], 4)], [], [(exRows[1], 5), (exRows[2], 6)]] := by decide

end TrackpyV.LinkTable
