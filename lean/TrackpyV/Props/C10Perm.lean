import TrackpyV.Props.C10
/-!
C10, "commutes with transposition" for EVERY permutation of the axes (DESIGN §0.6 X18).

`Props/C10` proves the commutation for every product `w` of exchanges of two ADJACENT axes
(`bandpass_permute_axes`, relation `IsSwaps`).  Here the remaining step is formalised: such products
are all the permutations of the axes.

* `permList p l` is numpy's `transpose(p)` on a per-axis list (entry `i` of the result is entry
  `p[i]` of `l`), `IsAxisPerm p sh img img'` says that `p` is a permutation of the axes
  `0 … ndim-1` and that `img'` is `numpy.transpose(img, p)` (pixel equation + shape);
* `adjacent_swaps_generate`: any two lists that are permutations of each other are connected by a
  word of adjacent position exchanges (adjacent transpositions generate the symmetric group);
* `isSwaps_of_perm`: for every axis permutation `p` the permuted image is reached by a product of
  exchanges of adjacent axes, and that product acts on every per-axis list as `permList p`;
* `bandpass_permute_axes_all` (+ `_pixel`): bandpass commutes with every permutation of the axes.
-/
namespace TrackpyV.Bandpass

/-! ## the group-theoretic core: adjacent exchanges connect any two arrangements of a list -/

theorem swaps_append {α : Type} : ∀ (w1 w2 : List Nat) (l : List α),
    swaps (w1 ++ w2) l = swaps w2 (swaps w1 l)
  | [], _, _ => rfl
  | k :: w1, w2, l => by
    simp only [List.cons_append, swaps]
    exact swaps_append w1 w2 _

/-- lifting under a fixed outer axis: the word shifted by one acts on the tail -/
theorem swaps_succ_cons {α : Type} (a : α) : ∀ (w : List Nat) (l : List α),
    swaps (w.map (· + 1)) (a :: l) = a :: swaps w l
  | [], _ => rfl
  | k :: w, l => by
    simp only [List.map, swaps, swapAt]
    exact swaps_succ_cons a w _

@[simp] theorem length_swaps {α : Type} : ∀ (w : List Nat) (l : List α),
    (swaps w l).length = l.length
  | [], _ => rfl
  | k :: w, l => by simp only [swaps, length_swaps w, length_swapAt]

theorem map_swaps {α β : Type} (f : α → β) : ∀ (w : List Nat) (l : List α),
    (swaps w l).map f = swaps w (l.map f)
  | [], _ => rfl
  | k :: w, l => by simp only [swaps, map_swaps f w, map_swapAt]

theorem prod_swaps : ∀ (w : List Nat) (l : List Nat), (swaps w l).prod = l.prod
  | [], _ => rfl
  | k :: w, l => by simp only [swaps, prod_swaps w, prod_swapAt]

/-- **adjacent transpositions generate the symmetric group**, stated on lists: if `l'` is a
    permutation of `l` then `l'` is obtained from `l` by finitely many exchanges of adjacent
    positions `k`, `k+1` (all of them inside the list).  Induction on `List.Perm`: `swap` is one
    exchange at the two outermost positions, `cons` lifts a word under a fixed head
    (`swaps_succ_cons`), `trans` is concatenation (`swaps_append`). -/
theorem adjacent_swaps_generate {α : Type} {l l' : List α} (h : l.Perm l') :
    ∃ w : List Nat, (∀ k ∈ w, k + 1 < l.length) ∧ swaps w l = l' := by
  induction h with
  | nil => exact ⟨[], by simp, rfl⟩
  | cons a _ ih =>
    obtain ⟨w, hb, hw⟩ := ih
    refine ⟨w.map (· + 1), ?_, ?_⟩
    · intro k hk
      obtain ⟨j, hj, rfl⟩ := List.mem_map.mp hk
      have := hb j hj
      simp only [List.length_cons]; omega
    · rw [swaps_succ_cons, hw]
  | swap a b l => exact ⟨[0], by simp, rfl⟩
  | trans h1 _ ih1 ih2 =>
    obtain ⟨w1, hb1, hw1⟩ := ih1
    obtain ⟨w2, hb2, hw2⟩ := ih2
    refine ⟨w1 ++ w2, ?_, ?_⟩
    · intro k hk
      rcases List.mem_append.mp hk with hk | hk
      · exact hb1 k hk
      · rw [h1.length_eq]; exact hb2 k hk
    · rw [swaps_append, hw1, hw2]

/-! ## permuting a per-axis list by an axis permutation given as numpy gives it -/

/-- numpy's `transpose(p)` on a per-axis list (shape, multi-index, per-axis parameters): entry `i`
    of the result is entry `p[i]` of `l` -/
def permList {α : Type} (p : List Nat) (l : List α) : List α := p.filterMap (fun i => l[i]?)

theorem filterMap_map_some {α : Type} (g : Nat → Option α) : ∀ (p : List Nat),
    (∀ i ∈ p, (g i).isSome) → (p.filterMap g).map some = p.map g
  | [], _ => rfl
  | i :: p, h => by
    have hi := h i (by simp)
    have ih := filterMap_map_some g p (fun j hj => h j (by simp [hj]))
    cases hg : g i with
    | none => simp [hg] at hi
    | some v => simp [hg, ih]

theorem map_some_eq_range {α : Type} (l : List α) :
    l.map some = (List.range l.length).map (fun i => l[i]?) := by
  apply List.ext_getElem (by simp)
  intro i h1 h2
  simp at h1
  simp [h1]

/-- a word of exchanges that rearranges `0 … n-1` into `p` rearranges every list of length `n`
    the way `permList p` does -/
theorem swaps_eq_permList {α : Type} {n : Nat} {p w : List Nat}
    (hw : swaps w (List.range n) = p) (l : List α) (hl : l.length = n) :
    swaps w l = permList p l := by
  subst hl
  have hmem : ∀ i ∈ p, ((fun i => l[i]?) i).isSome := by
    intro i hi
    have hlen : i ∈ swaps w (List.range l.length) := hw ▸ hi
    have : ∀ (w : List Nat) (r : List Nat), i ∈ swaps w r → i ∈ r := by
      intro w
      induction w with
      | nil => intro r h; exact h
      | cons k w ih => intro r h; exact (mem_swapAt k r i).mp (ih _ h)
    have := List.mem_range.mp (this w _ hlen)
    simp [this]
  have key : (swaps w l).map some = (permList p l).map some := by
    rw [map_swaps, map_some_eq_range l, ← map_swaps, hw]
    unfold permList
    rw [filterMap_map_some _ p hmem]
  exact (List.map_inj_right (fun _ _ h => Option.some.inj h)).mp key

/-- every permutation `p` of the axes `0 … n-1` is a product `w` of exchanges of adjacent axes:
    `w` rearranges every per-axis list of length `n` the way `p` does -/
theorem swaps_word_of_perm {n : Nat} {p : List Nat} (hp : p.Perm (List.range n)) :
    ∃ w : List Nat, (∀ k ∈ w, k + 1 < n) ∧
      ∀ {α : Type} (l : List α), l.length = n → swaps w l = permList p l := by
  obtain ⟨w, hb, hw⟩ := adjacent_swaps_generate hp.symm
  exact ⟨w, by simpa using hb, fun l hl => swaps_eq_permList hw l hl⟩

theorem length_permList {α : Type} {p : List Nat} {l : List α}
    (hp : p.Perm (List.range l.length)) : (permList p l).length = l.length := by
  obtain ⟨w, _, hw⟩ := swaps_word_of_perm hp
  rw [← hw l rfl, length_swaps]

/-! ## the image with its axes permuted -/

/-- `p` is a permutation of the axes `0 … ndim-1` and `img'` is `numpy.transpose(img, p)`: it has
    the permuted shape `permList p sh` and its pixel at the permuted multi-index is the pixel of
    `img` at the original multi-index -/
def IsAxisPerm (p : List Nat) (sh : List Nat) (img img' : Array Rat) : Prop :=
  p.Perm (List.range sh.length) ∧ img.size = sh.prod ∧ img'.size = sh.prod ∧
  ∀ ix, Valid sh ix → pxN (permList p sh) img' (permList p ix) = pxN sh img ix

theorem valid_swaps : ∀ (w : List Nat) (sh ix : List Nat), Valid sh ix →
    Valid (swaps w sh) (swaps w ix)
  | [], _, _, h => h
  | k :: w, sh, ix, h => valid_swaps w _ _ (valid_swapAt k sh ix h)

/-- every multi-index of the rearranged shape is the rearrangement of a multi-index of `sh` -/
theorem valid_swaps_surj : ∀ (w : List Nat) (sh ix' : List Nat), Valid (swaps w sh) ix' →
    ∃ ix, Valid sh ix ∧ swaps w ix = ix'
  | [], _, ix', h => ⟨ix', h, rfl⟩
  | k :: w, sh, ix', h => by
    obtain ⟨jx, hj, e⟩ := valid_swaps_surj w (swapAt k sh) ix' h
    refine ⟨swapAt k jx, ?_, ?_⟩
    · have := valid_swapAt k (swapAt k sh) jx hj
      rwa [swapAt_swapAt] at this
    · simp only [swaps, swapAt_swapAt]; exact e

theorem flat_unflat : ∀ {sh : List Nat} {q : Nat}, q < sh.prod →
    Valid sh (unflat sh q) ∧ flat sh (unflat sh q) = q
  | [], q, h => by
    simp only [List.prod_nil] at h
    have : q = 0 := by omega
    subst this
    exact ⟨trivial, rfl⟩
  | n :: rest, q, h => by
    simp only [List.prod_cons] at h
    have hR : 0 < rest.prod := by
      rcases Nat.eq_zero_or_pos rest.prod with h0 | h0
      · rw [h0] at h; omega
      · exact h0
    have hd : q / rest.prod < n := Nat.div_lt_of_lt_mul (by rwa [Nat.mul_comm] at h)
    have hm : q % rest.prod < rest.prod := Nat.mod_lt _ hR
    obtain ⟨v, f⟩ := flat_unflat (sh := rest) hm
    simp only [unflat, Valid, flat, Nat.mod_eq_of_lt hd, f]
    exact ⟨⟨hd, v⟩, Nat.div_add_mod' q rest.prod⟩

/-- an image is determined by its shape-sized array length and its pixels at valid multi-indices -/
theorem ext_of_pxN {sh : List Nat} {a b : Array Rat} (ha : a.size = sh.prod)
    (hb : b.size = sh.prod) (h : ∀ ix, Valid sh ix → pxN sh a ix = pxN sh b ix) : a = b := by
  apply Array.ext (by rw [ha, hb])
  intro q h1 h2
  have hq : q < sh.prod := ha ▸ h1
  have := h (unflat sh q) (flat_unflat hq).1
  unfold pxN at this
  rw [(flat_unflat hq).2] at this
  simpa [TrackpyV.Bandpass.get, h1, h2] using this

theorem isSwaps_size : ∀ (w : List Nat) (sh : List Nat) (img img' : Array Rat),
    IsSwaps w sh img img' → img.size = sh.prod → img'.size = sh.prod
  | [], _, _, _, h, hs => by simp only [IsSwaps] at h; subst h; exact hs
  | k :: w, sh, img, img'', h, _ => by
    simp only [IsSwaps] at h
    obtain ⟨img', h1, h2⟩ := h
    have := isSwaps_size w (swapAt k sh) img' img'' h2 (by rw [prod_swapAt]; exact h1.2.1)
    rwa [prod_swapAt] at this

/-- a product `w` of adjacent-axis exchanges that acts on per-axis lists as `permList p` turns
    `img` into its `p`-permuted image -/
theorem isAxisPerm_of_isSwaps {p w : List Nat} {sh : List Nat} {img img' : Array Rat}
    (hp : p.Perm (List.range sh.length))
    (hw : ∀ (l : List Nat), l.length = sh.length → swaps w l = permList p l)
    (hsz : img.size = sh.prod) (h : IsSwaps w sh img img') : IsAxisPerm p sh img img' := by
  refine ⟨hp, hsz, isSwaps_size w sh img img' h hsz, ?_⟩
  intro ix hv
  rw [← hw sh rfl, ← hw ix (valid_length hv)]
  exact isSwaps_px w sh img img' h ix hv

/-- **every axis permutation is a product of exchanges of adjacent axes**: if `img'` is `img` with
    its axes permuted by `p`, then there is a word `w` of exchanges of adjacent axes (each inside
    `0 … ndim-1`) that acts on every per-axis list as `p` does and that leads from `img` to `img'`
    (`IsSwaps`, the relation under which `bandpass_permute_axes` is proved). -/
theorem isSwaps_of_perm (p : List Nat) (sh : List Nat) (img img' : Array Rat)
    (h : IsAxisPerm p sh img img') :
    ∃ w : List Nat, (∀ k ∈ w, k + 1 < sh.length) ∧
      (∀ {α : Type} (l : List α), l.length = sh.length → swaps w l = permList p l) ∧
      IsSwaps w sh img img' := by
  obtain ⟨hp, hsz, hsz', hpx⟩ := h
  obtain ⟨w, hb, hw⟩ := swaps_word_of_perm hp
  refine ⟨w, hb, hw, ?_⟩
  obtain ⟨img'', h2⟩ := exists_isSwaps w sh img hsz
  have hs2 := isSwaps_size w sh img img'' h2 hsz
  have : img'' = img' := by
    apply ext_of_pxN (sh := swaps w sh) (by rw [prod_swaps]; exact hs2)
      (by rw [prod_swaps]; exact hsz')
    intro ix' hv'
    obtain ⟨ix, hv, rfl⟩ := valid_swaps_surj w sh ix' hv'
    rw [isSwaps_px w sh img img'' h2 ix hv, hw sh rfl, hw ix (valid_length hv)]
    exact (hpx ix hv).symm
  rwa [this] at h2

/-- the permuted image exists for every image and every permutation of its axes, and it is unique:
    `IsAxisPerm` is never vacuous and determines `img'` -/
theorem exists_isAxisPerm (p : List Nat) (sh : List Nat) (img : Array Rat)
    (hp : p.Perm (List.range sh.length)) (hsz : img.size = sh.prod) :
    ∃ img', IsAxisPerm p sh img img' := by
  obtain ⟨w, _, hw⟩ := swaps_word_of_perm hp
  obtain ⟨img', h⟩ := exists_isSwaps w sh img hsz
  exact ⟨img', isAxisPerm_of_isSwaps hp (fun l hl => hw l hl) hsz h⟩

theorem isAxisPerm_unique {p : List Nat} {sh : List Nat} {img a b : Array Rat}
    (ha : IsAxisPerm p sh img a) (hb : IsAxisPerm p sh img b) : a = b := by
  obtain ⟨w, _, hw, _⟩ := isSwaps_of_perm p sh img a ha
  have hprod : (permList p sh).prod = sh.prod := by rw [← hw sh rfl, prod_swaps]
  apply ext_of_pxN (sh := permList p sh) (by rw [hprod]; exact ha.2.2.1)
    (by rw [hprod]; exact hb.2.2.1)
  intro ix' hv'
  rw [← hw sh rfl] at hv'
  obtain ⟨ix, hv, rfl⟩ := valid_swaps_surj w sh ix' hv'
  rw [hw ix (valid_length hv), ha.2.2.2 ix hv, hb.2.2.2 ix hv]

/-! ## bandpass commutes with every permutation of the axes -/

/-- how two results correspond under the axis permutation `p`: same error, or `p`-permuted images -/
def AxisPermRel (p : List Nat) (sh : List Nat) :
    Except Err (Array Rat) → Except Err (Array Rat) → Prop
  | .ok out, .ok out' => IsAxisPerm p sh out out'
  | .error e, .error e' => e = e'
  | .ok _, .error _ => False
  | .error _, .ok _ => False

/-- **"commutes with transposition"**, any dimension, EVERY permutation `p` of the axes: if `img'`
    is `img` with its axes permuted by `p` (`numpy.transpose(img, p)`), then `bandpass` of `img'`
    with every per-axis parameter tuple permuted by `p` is `bandpass` of `img` with its axes
    permuted by `p` — and both calls refuse the same arguments with the same error.  The per-axis
    tuples have one entry per axis (what `validate_tuple` guarantees before the filter runs). -/
theorem bandpass_permute_axes_all (p : List Nat) (sh : List Nat) (img img' : Array Rat)
    (h : IsAxisPerm p sh img img') (lshort : List Rat) (kernels : List (Array Rat))
    (llong : List Int) (thr : Option Rat) (h1 : lshort.length = sh.length)
    (h2 : kernels.length = sh.length) (h3 : llong.length = sh.length) :
    AxisPermRel p sh (bandpass sh img lshort kernels llong thr)
      (bandpass (permList p sh) img' (permList p lshort) (permList p kernels)
        (permList p llong) thr) := by
  obtain ⟨w, _, hw, hS⟩ := isSwaps_of_perm p sh img img' h
  have key := bandpass_permute_axes w sh img img' hS lshort kernels llong thr
  rw [hw sh rfl, hw lshort h1, hw kernels h2, hw llong h3] at key
  cases e0 : bandpass sh img lshort kernels llong thr with
  | error e =>
    cases e1 : bandpass (permList p sh) img' (permList p lshort) (permList p kernels)
        (permList p llong) thr with
    | error e' => rw [e0, e1] at key; exact key
    | ok out' => rw [e0, e1] at key; exact key
  | ok out =>
    cases e1 : bandpass (permList p sh) img' (permList p lshort) (permList p kernels)
        (permList p llong) thr with
    | error e' => rw [e0, e1] at key; exact key
    | ok out' =>
      rw [e0, e1] at key
      have hso : out.size = sh.prod := by
        rw [bandpass_shape _ _ _ _ _ _ _ e0]; exact h.2.1
      exact isAxisPerm_of_isSwaps h.1 (fun l hl => hw l hl) hso key

/-- … pixel for pixel: pixel `p·ix` of the result for the permuted image is pixel `ix` of the
    result for the original image -/
theorem bandpass_permute_axes_all_pixel (p : List Nat) (sh : List Nat) (img img' : Array Rat)
    (h : IsAxisPerm p sh img img') (lshort : List Rat) (kernels : List (Array Rat))
    (llong : List Int) (thr : Option Rat) (h1 : lshort.length = sh.length)
    (h2 : kernels.length = sh.length) (h3 : llong.length = sh.length) (out out' : Array Rat)
    (e0 : bandpass sh img lshort kernels llong thr = .ok out)
    (e1 : bandpass (permList p sh) img' (permList p lshort) (permList p kernels)
            (permList p llong) thr = .ok out')
    (ix : List Nat) (hv : Valid sh ix) :
    pxN (permList p sh) out' (permList p ix) = pxN sh out ix := by
  have := bandpass_permute_axes_all p sh img img' h lshort kernels llong thr h1 h2 h3
  rw [e0, e1] at this
  exact this.2.2.2 ix hv

/-- … and an accepted call stays accepted: the permuted call returns an image whenever the
    original one does -/
theorem bandpass_permute_axes_all_ok (p : List Nat) (sh : List Nat) (img img' : Array Rat)
    (h : IsAxisPerm p sh img img') (lshort : List Rat) (kernels : List (Array Rat))
    (llong : List Int) (thr : Option Rat) (h1 : lshort.length = sh.length)
    (h2 : kernels.length = sh.length) (h3 : llong.length = sh.length) (out : Array Rat)
    (e0 : bandpass sh img lshort kernels llong thr = .ok out) :
    ∃ out', bandpass (permList p sh) img' (permList p lshort) (permList p kernels)
        (permList p llong) thr = .ok out' ∧ IsAxisPerm p sh out out' := by
  have := bandpass_permute_axes_all p sh img img' h lshort kernels llong thr h1 h2 h3
  rw [e0] at this
  cases e1 : bandpass (permList p sh) img' (permList p lshort) (permList p kernels)
      (permList p llong) thr with
  | error e' => rw [e1] at this; exact this.elim
  | ok out' => rw [e1] at this; exact ⟨out', rfl, this⟩

/-! ## non-vacuity: a 2 × 3 × 2 image and the cyclic permutation (0 1 2) ↦ (1 2 0) -/

/-- `numpy.arange(12).reshape(2, 3, 2)` -/
def exA : Array Rat := #[0, 1, 2, 3, 4, 5, 6, 7, 8, 9, 10, 11]
/-- `exA.transpose(1, 2, 0)`, shape 3 × 2 × 2, C order -/
def exA' : Array Rat := #[0, 6, 1, 7, 2, 8, 3, 9, 4, 10, 5, 11]

example : permList [1, 2, 0] [2, 3, 2] = [3, 2, 2] := rfl
example : permList [1, 2, 0] ["z", "y", "x"] = ["y", "x", "z"] := rfl
example : swaps [0, 1] [2, 3, 2] = permList [1, 2, 0] [2, 3, 2] := rfl

theorem exA_isAxisPerm : IsAxisPerm [1, 2, 0] [2, 3, 2] exA exA' := by
  refine ⟨by decide, rfl, rfl, ?_⟩
  intro ix hv
  match ix, hv with
  | [i, j, k], hv =>
    simp only [Valid] at hv
    obtain ⟨hi, hj, hk, _⟩ := hv
    have hi' : i = 0 ∨ i = 1 := by omega
    have hj' : j = 0 ∨ j = 1 ∨ j = 2 := by omega
    have hk' : k = 0 ∨ k = 1 := by omega
    rcases hi' with rfl | rfl <;> rcases hj' with rfl | rfl | rfl <;>
      rcases hk' with rfl | rfl <;>
      simp [permList, pxN, flat, TrackpyV.Bandpass.get, exA, exA']

/-- the cyclically permuted image is reached by two exchanges of adjacent axes … -/
example : ∃ w, (∀ k ∈ w, k + 1 < 3) ∧ IsSwaps w [2, 3, 2] exA exA' := by
  obtain ⟨w, hb, _, h⟩ := isSwaps_of_perm _ _ _ _ exA_isAxisPerm
  exact ⟨w, hb, h⟩

/-- … and bandpass (σ = 1 on every axis, box 3 × 5 × 3 permuted along) commutes with it -/
example : AxisPermRel [1, 2, 0] [2, 3, 2]
    (bandpass [2, 3, 2] exA [1, 1, 1] [exK, exK, exK] [3, 5, 3] (some 1))
    (bandpass [3, 2, 2] exA' [1, 1, 1] [exK, exK, exK] [5, 3, 3] (some 1)) :=
  bandpass_permute_axes_all [1, 2, 0] [2, 3, 2] exA exA' exA_isAxisPerm [1, 1, 1]
    [exK, exK, exK] [3, 5, 3] (some 1) rfl rfl rfl

/-- … the call is accepted, so the relation above is between two images -/
example : ∃ out, bandpass [2, 3, 2] exA [1, 1, 1] [exK, exK, exK] [3, 5, 3] (some 1) = .ok out :=
  ⟨_, (bandpass_ok_iff _ _ _ _ _ _ _).mpr ⟨by simp [Accepts, scaleClash, isOdd], rfl⟩⟩

end TrackpyV.Bandpass
