import TrackpyV.Model.Filter
import TrackpyV.Model.Pipeline

/-!
# C20 — trajectory filters are exact; every stage accepts the previous stage's table
-/

namespace TrackpyV.Filter

theorem mem_keys (rows : List Row) (p : Int) : p ∈ keys rows ↔ ∃ r ∈ rows, r.particle = p := by
  induction rows with
  | nil => simp [keys]
  | cons r rs ih =>
    simp only [keys]
    split
    · rename_i h
      have h' : r.particle ∈ keys rs := by simpa using h
      constructor
      · intro hp
        obtain ⟨x, hx, e⟩ := ih.mp hp
        exact ⟨x, List.mem_cons_of_mem _ hx, e⟩
      · rintro ⟨x, hx, e⟩
        rcases List.mem_cons.mp hx with rfl | hx
        · exact e ▸ h'
        · exact ih.mpr ⟨x, hx, e⟩
    · constructor
      · intro hp
        rcases List.mem_cons.mp hp with rfl | hp
        · exact ⟨r, List.mem_cons_self, rfl⟩
        · obtain ⟨x, hx, e⟩ := ih.mp hp
          exact ⟨x, List.mem_cons_of_mem _ hx, e⟩
      · rintro ⟨x, hx, e⟩
        rcases List.mem_cons.mp hx with rfl | hx
        · exact e ▸ List.mem_cons_self
        · exact List.mem_cons_of_mem _ (ih.mpr ⟨x, hx, e⟩)

/-- the group-wise filter keeps a row iff the predicate holds on the row's whole trajectory -/
theorem gfilter_eq (pred : List Row → Bool) (rows : List Row) :
    gfilter pred rows = rows.filter (fun r => pred (group r.particle rows)) := by
  unfold gfilter
  apply List.filter_congr
  intro r hr
  unfold keptKeys
  by_cases h : pred (group r.particle rows) = true
  · rw [h]
    simp only [List.contains_iff_mem, List.mem_filter]
    exact ⟨(mem_keys rows r.particle).mpr ⟨r, hr, rfl⟩, h⟩
  · have h' : pred (group r.particle rows) = false := by simpa using h
    rw [h']
    apply Bool.eq_false_iff.mpr
    intro hc
    simp only [List.contains_iff_mem, List.mem_filter] at hc
    exact h hc.2

/-- per trajectory: a kept trajectory keeps all of its rows, a dropped one loses all of them -/
theorem gfilter_group (pred : List Row → Bool) (rows : List Row) (p : Int) :
    group p (gfilter pred rows) = if pred (group p rows) then group p rows else [] := by
  rw [gfilter_eq]
  unfold group
  rw [List.filter_filter]
  have : (rows.filter fun r => (r.particle == p) && pred (List.filter (fun r' => r'.particle == r.particle) rows))
       = rows.filter fun r => (r.particle == p) && pred (List.filter (fun r' => r'.particle == p) rows) := by
    apply List.filter_congr
    intro r _
    by_cases h : r.particle = p
    · subst h; rfl
    · have : (r.particle == p) = false := by simpa using h
      simp [this]
  rw [this]
  by_cases h : pred (List.filter (fun r' => r'.particle == p) rows) = true
  · simp [h]
  · have h' : pred (List.filter (fun r' => r'.particle == p) rows) = false := by simpa using h
    simp [h']

theorem gfilter_sublist (pred : List Row → Bool) (rows : List Row) :
    (gfilter pred rows).Sublist rows := List.filter_sublist

/-! ## Clause 1: `filter_stubs` returns exactly the rows of the trajectories with at least
`threshold` observations, values unchanged -/

/-- EXACT ROW SET (as an equation): the result is the table restricted - in storage order - to the
rows whose trajectory has at least `thr` observations. -/
theorem filterStubs_exact (thr : Int) (rows : List Row) :
    filterStubs thr rows = rows.filter (fun r => decide (thr ≤ obs r.particle rows)) :=
  gfilter_eq _ rows

/-- membership form of `filterStubs_exact` -/
theorem filterStubs_mem (thr : Int) (rows : List Row) (r : Row) :
    r ∈ filterStubs thr rows ↔ r ∈ rows ∧ thr ≤ obs r.particle rows := by
  rw [filterStubs_exact]; simp

/-- VALUES UNCHANGED / ORDER / MULTIPLICITY: the result is a sub-list of the input - every returned
row is an input row with all its values, in the input's order, none duplicated or invented. -/
theorem filterStubs_sublist (thr : Int) (rows : List Row) :
    (filterStubs thr rows).Sublist rows := gfilter_sublist _ rows

/-- WHOLE TRAJECTORIES: a trajectory with enough observations is returned complete, any other one
disappears completely. -/
theorem filterStubs_group (thr : Int) (rows : List Row) (p : Int) :
    group p (filterStubs thr rows) = if thr ≤ obs p rows then group p rows else [] := by
  unfold filterStubs
  rw [gfilter_group]
  by_cases h : thr ≤ count (group p rows) <;> simp [obs, h]

/-- the filter is idempotent: its own output is accepted and left unchanged -/
theorem filterStubs_idem (thr : Int) (rows : List Row) :
    filterStubs thr (filterStubs thr rows) = filterStubs thr rows := by
  conv => lhs; rw [filterStubs_exact]
  apply List.filter_eq_self.mpr
  intro r hr
  have h := (filterStubs_mem thr rows r).mp hr
  have : obs r.particle (filterStubs thr rows) = obs r.particle rows := by
    unfold obs
    rw [filterStubs_group]
    simp [obs] at h
    simp [obs, h.2]
  simp [this, h.2]

/-! ## Clause 2: `filter_clusters` returns exactly the rows of the trajectories whose mean size
is below the cut (strictly), values unchanged -/

theorem filterClusters_exact (cut : Rat) (rows : List Row) :
    filterClusters cut rows = rows.filter (fun r => decide (trajMean r.particle rows < cut)) :=
  gfilter_eq _ rows

theorem filterClusters_mem (cut : Rat) (rows : List Row) (r : Row) :
    r ∈ filterClusters cut rows ↔ r ∈ rows ∧ trajMean r.particle rows < cut := by
  rw [filterClusters_exact]; simp

theorem filterClusters_sublist (cut : Rat) (rows : List Row) :
    (filterClusters cut rows).Sublist rows := gfilter_sublist _ rows

theorem filterClusters_group (cut : Rat) (rows : List Row) (p : Int) :
    group p (filterClusters cut rows) = if trajMean p rows < cut then group p rows else [] := by
  unfold filterClusters
  rw [gfilter_group]
  by_cases h : meanSize (group p rows) < cut <;> simp [trajMean, h]

/-! non-vacuity: a table with a stub (particle 7, one row) and a cluster (particle 5, mean 5) -/
def demo : List Row :=
  [⟨0, 5, 4, 0⟩, ⟨0, 7, 1, 1⟩, ⟨1, 5, 6, 2⟩, ⟨0, 2, 2, 3⟩, ⟨1, 2, 3, 4⟩, ⟨2, 2, 2, 5⟩]

example : (filterStubs 2 demo).map (·.rid) = [0, 2, 3, 4, 5] := by decide
example : (filterStubs 3 demo).map (·.rid) = [3, 4, 5] := by decide
example : (filterClusters 5 demo).map (·.rid) = [1, 3, 4, 5] := by decide +kernel   -- mean 5 is not < 5
example : (filterClusters (7/3) demo).map (·.rid) = [1] := by decide +kernel         -- mean 7/3 is not < 7/3
example : obs 5 demo = 2 ∧ trajMean 2 demo = 7/3 := by decide +kernel

end TrackpyV.Filter

namespace TrackpyV.Pipeline

theorem Producer.mem_all (p : Producer) : p ∈ Producer.all := by
  cases p <;> simp [Producer.all]

theorem Consumer.mem_all (c : Consumer) : c ∈ Consumer.all := by
  cases c <;> simp [Consumer.all]

theorem Stage.mem_all (s : Stage) : s ∈ Stage.all := by
  cases s with
  | prod p => exact List.mem_append_left _ (List.mem_map.mpr ⟨p, Producer.mem_all p, rfl⟩)
  | cons c => exact List.mem_append_right _ (List.mem_map.mpr ⟨c, Consumer.mem_all c, rfl⟩)

theorem good_iff (T : Table) (s : Stage) (l : Layout) :
    good T s l = true ↔ ∃ o, T s l = .accepts o true := by
  unfold good
  split
  · rename_i o h; exact ⟨fun _ => ⟨o, h⟩, fun _ => rfl⟩
  · rename_i h
    constructor
    · intro hf; cases hf
    · rintro ⟨o, ho⟩; exact absurd ho (h o)

theorem mem_seed (T : Table) (init : List Layout) {l0 o : Layout} {p : Producer}
    (hl : l0 ∈ init) (ho : o ∈ outs T p l0) : (p, o) ∈ seed T init := by
  unfold seed
  simp only [List.mem_flatMap, List.mem_map]
  exact ⟨l0, hl, p, Producer.mem_all p, o, ho, rfl⟩

/-- what the Boolean check `closedOn` says, as propositions -/
theorem closedOn_spec (T : Table) (excl : Excl) (init : List Layout) (R : List Node)
    (h : closedOn T excl init R = true) :
    (∀ n ∈ seed T init, n ∈ R) ∧
    ∀ n ∈ R, ∀ s, (n.1, s) ∉ excl →
      good T s n.2 = true ∧ ∀ p, s = .prod p → ∀ o ∈ outs T p n.2, (p, o) ∈ R := by
  unfold closedOn at h
  rw [Bool.and_eq_true] at h
  obtain ⟨h1, h2⟩ := h
  refine ⟨?_, ?_⟩
  · intro n hn
    have := (List.all_eq_true.mp h1) n hn
    simpa using this
  · intro n hn s hs
    have hn' := (List.all_eq_true.mp h2) n hn
    have hs' := (List.all_eq_true.mp hn') s (Stage.mem_all s)
    rw [Bool.or_eq_true] at hs'
    rcases hs' with hex | hg
    · exact absurd (by simpa using hex) hs
    · rw [Bool.and_eq_true] at hg
      refine ⟨hg.1, ?_⟩
      intro p hp o ho
      subst hp
      have := (List.all_eq_true.mp hg.2) o ho
      simpa using this

/-- invariant form: from any node of a closed set, every pipeline that avoids the excluded pairs
ends in a table on which the (non-excluded) next stage is good -/
theorem closedOn_chain (T : Table) (excl : Excl) (init : List Layout) (R : List Node)
    (h : closedOn T excl init R = true) (l : Layout) (s : Stage) :
    ∀ (ps : List Producer) (q : Producer) (l1 : Layout), (q, l1) ∈ R → ChainTo T l1 ps l →
      Avoids excl q ps s → good T s l = true ∧ (lastProd q ps, l) ∈ R := by
  have spec := (closedOn_spec T excl init R h).2
  intro ps
  induction ps with
  | nil =>
    intro q l1 hR hc ha
    simp only [ChainTo] at hc
    subst hc
    exact ⟨(spec (q, l1) hR s ha).1, hR⟩
  | cons p ps ih =>
    intro q l1 hR hc ha
    obtain ⟨m, hm, hc'⟩ := hc
    obtain ⟨ha1, ha2⟩ := ha
    have hR' : (p, m) ∈ R := (spec (q, l1) hR (.prod p) ha1).2 p rfl m hm
    exact ih p m hR' hc' ha2

/-! ## Clause 3: every stage accepts the table returned by any pipeline of producer stages and
gives the same numbers as with a plain default-indexed table — for pipelines of ANY length,
reduced to the finite, regenerated check `tableClosedExcept … = true`. -/

/-- GENERIC CLOSURE THEOREM with exclusions.  If the measured table passes the check then: for every
initial layout `l0 ∈ init`, every non-empty pipeline `q :: ps` of producer stages (any length) whose
first stage returned a table of layout `l1`, every layout `l` the final table can have, and every
stage `s` (producer or consumer) such that the program `q, ps…, s` uses no excluded adjacent
(producer → stage) pair: `s` accepts the final table and returns the same numbers as on the plain
table of the same data. -/
theorem closed_except_of_table (T : Table) (init : List Layout) (excl : Excl)
    (h : tableClosedExcept T init excl = true) :
    ∀ l0 ∈ init, ∀ (q : Producer) (ps : List Producer) (l1 l : Layout),
      l1 ∈ outs T q l0 → ChainTo T l1 ps l →
      ∀ s : Stage, Avoids excl q ps s → ∃ o, T s l = .accepts o true := by
  intro l0 hl0 q ps l1 l hl1 hc s ha
  unfold tableClosedExcept at h
  have hseed := (closedOn_spec T excl init _ h).1 (q, l1) (mem_seed T init hl0 hl1)
  exact (good_iff T s l).mp (closedOn_chain T excl init _ h l s ps q l1 hseed hc ha).1

theorem avoids_nil (q : Producer) (ps : List Producer) (s : Stage) : Avoids [] q ps s := by
  induction ps generalizing q with
  | nil => simp [Avoids]
  | cons p ps ih => exact ⟨by simp, ih p⟩

/-- GENERIC CLOSURE THEOREM (no exclusions): every pipeline, every stage. -/
theorem closed_of_table (T : Table) (init : List Layout) (h : tableClosed T init = true) :
    ∀ l0 ∈ init, ∀ (q : Producer) (ps : List Producer) (l1 l : Layout),
      l1 ∈ outs T q l0 → ChainTo T l1 ps l → ∀ s : Stage, ∃ o, T s l = .accepts o true :=
  fun l0 hl0 q ps l1 l hl1 hc s =>
    closed_except_of_table T init [] h l0 hl0 q ps l1 l hl1 hc s (avoids_nil q ps s)

/-- PROGRESS: under the same check a pipeline never gets stuck - whatever layout the table has
after `q :: ps`, the next producer accepts it (so the pipeline can always be extended). -/
theorem chain_never_stuck (T : Table) (init : List Layout) (h : tableClosed T init = true) :
    ∀ l0 ∈ init, ∀ (q : Producer) (ps : List Producer) (l1 l : Layout),
      l1 ∈ outs T q l0 → ChainTo T l1 ps l → ∀ p : Producer, T (.prod p) l ≠ .rejects := by
  intro l0 hl0 q ps l1 l hl1 hc p hrej
  obtain ⟨o, ho⟩ := closed_of_table T init h l0 hl0 q ps l1 l hl1 hc (.prod p)
  rw [hrej] at ho
  cases ho

/-- SAME NUMBERS THROUGH WHOLE PIPELINES.  For any concrete stage semantics `sem` that the table
describes (`Sem.Sound`: the assumption attacked by the measurement and the pipeline stream), once
the first producer has returned a table `(d1, l1)`: every pipeline `ps` run on the returned tables
terminates normally, yields exactly the data obtained by running the same pipeline with every
intermediate result re-stored in a plain default-indexed table, and every stage run on the final
table returns, with the same data as on the plain table. -/
theorem pipeline_same_numbers {D : Type} (sem : Sem D) (T : Table) (init : List Layout)
    (h : tableClosed T init = true) (hs : sem.Sound T)
    (l0 : Layout) (hl0 : l0 ∈ init) (q : Producer) (l1 : Layout) (hl1 : l1 ∈ outs T q l0) :
    ∀ (ps : List Producer) (d1 : D), ∃ d' l', sem.exec (d1, l1) ps = some (d', l') ∧
      sem.execPlain d1 ps = some d' ∧
      ∀ s : Stage, ∃ r l'', sem.run s d' l' = some r ∧ sem.run s d' .range = some (r.1, l'') := by
  unfold tableClosed tableClosedExcept at h
  have spec := (closedOn_spec T [] init _ h)
  have hseed := spec.1 (q, l1) (mem_seed T init hl0 hl1)
  generalize reach T [] init Layout.all.length = R at spec hseed
  clear h hl1 hl0
  intro ps
  induction ps generalizing q l1 with
  | nil =>
    intro d1
    refine ⟨d1, l1, rfl, rfl, ?_⟩
    intro s
    have hg := (spec.2 (q, l1) hseed s (by simp)).1
    obtain ⟨d', l', hr, _, l'', hp⟩ := hs s l1 hg d1
    exact ⟨(d', l'), l'', hr, hp⟩
  | cons p ps ih =>
    intro d1
    have hg := spec.2 (q, l1) hseed (.prod p) (by simp)
    obtain ⟨d2, l2, hr, hout, l'', hp⟩ := hs (.prod p) l1 hg.1 d1
    have hR : (p, l2) ∈ R := hg.2 p rfl l2 (hout p rfl)
    obtain ⟨d', l', he, hpl, hall⟩ := ih p l2 hR d2
    refine ⟨d', l', ?_, ?_, hall⟩
    · simp only [Sem.exec, hr]; exact he
    · simp only [Sem.execPlain, hp]; exact hpl

/-! ### non-vacuity: a small closed table, a table with a rejecting entry, an exclusion -/

/-- toy table: every stage is good on `range`, `labels`, `frameIdx`; `filterStubs` returns
`frameIdx`, `link` returns `labels` or `range`, the other producers keep the layout. -/
def toyGood : Table := fun s l =>
  match l with
  | .range | .labels | .frameIdx =>
    (match s with
     | .prod .filterStubs => .accepts [.frameIdx] true
     | .prod .link => .accepts [.labels, .range] true
     | _ => .accepts [l] true)
  | _ => .rejects

/-- as `toyGood`, but `subtractDrift` returns the MultiIndex layout, which everything rejects -/
def toyBad : Table := fun s l =>
  match s, l with
  | .prod .subtractDrift, .range => .accepts [.frameParticleMI] true
  | _, _ => toyGood s l

example : tableClosed toyGood [.range] = true := by decide +kernel
example : tableClosed toyBad [.range] = false := by decide +kernel
/-- excluding every pair that starts with `subtractDrift` restores closure -/
example : tableClosedExcept toyBad [.range] (Stage.all.map fun s => (.subtractDrift, s)) = true := by
  decide +kernel
/-- hypotheses of `closed_of_table` are satisfiable by a pipeline of length 3 -/
example : ChainTo toyGood .range [.filterStubs, .link, .filterClusters] .labels :=
  ⟨.frameIdx, by decide, .labels, by decide, .labels, by decide, rfl⟩
example : ∃ o, toyGood (.cons .cluster) .labels = .accepts o true :=
  closed_of_table toyGood [.range] (by decide +kernel) .range (by simp) .link
    [.filterStubs, .link, .filterClusters] .range .labels (by decide)
    ⟨.frameIdx, by decide, .labels, by decide, .labels, by decide, rfl⟩ (.cons .cluster)

/-! ### the property is FALSE of the pinned tree: recorded witness

`recordedPinnedRows` is the table as measured (harness/c20.py, 2026-09-30, pandas 3.0.6) on the
unchanged pinned tree; `recordedRepairedRows` the one measured with repo-fixes/C20-*.patch applied.
They are static records (the live table is regenerated and re-checked on every run in a standalone
file); they show the closure check is neither vacuous nor trivially false on realistic tables and
name the concrete failing programs: `subtract_drift` returns a `(frame, particle)` MultiIndex with
both columns kept, which `link`, `link_partial`, `subtract_drift`, `compute_drift`, `imsd`,
`cluster` reject; `filter_stubs`/`filter_clusters` return a `frame`-indexed table, which `cluster`
rejects. -/

def recordedPinnedRows : List (Stage × Layout × Outcome) := [
  (.prod .link, .range, .accepts [.labels, .range] true),
  (.prod .link, .labels, .accepts [.labels] true),
  (.prod .link, .dupLabels, .accepts [.dupLabels] true),
  (.prod .link, .frameIdx, .accepts [.otherNamed] true),
  (.prod .link, .particleIdx, .accepts [.particleIdx] true),
  (.prod .link, .otherNamed, .accepts [.otherNamed] true),
  (.prod .link, .frameParticleMI, .rejects),
  (.prod .link, .frameMI, .rejects),
  (.prod .link, .particleMI, .accepts [.particleMI] true),
  (.prod .link, .otherMI, .accepts [.otherMI] true),
  (.prod .linkPartial, .range, .accepts [.labels, .range] true),
  (.prod .linkPartial, .labels, .accepts [.labels] true),
  (.prod .linkPartial, .dupLabels, .accepts [.dupLabels] true),
  (.prod .linkPartial, .frameIdx, .accepts [.otherNamed] true),
  (.prod .linkPartial, .particleIdx, .accepts [.particleIdx] true),
  (.prod .linkPartial, .otherNamed, .accepts [.otherNamed] true),
  (.prod .linkPartial, .frameParticleMI, .rejects),
  (.prod .linkPartial, .frameMI, .rejects),
  (.prod .linkPartial, .particleMI, .accepts [.particleMI] true),
  (.prod .linkPartial, .otherMI, .accepts [.otherMI] true),
  (.prod .filterStubs, .range, .accepts [.frameIdx] true),
  (.prod .filterStubs, .labels, .accepts [.frameIdx] true),
  (.prod .filterStubs, .dupLabels, .accepts [.frameIdx] true),
  (.prod .filterStubs, .frameIdx, .accepts [.frameIdx] true),
  (.prod .filterStubs, .particleIdx, .accepts [.frameIdx] true),
  (.prod .filterStubs, .otherNamed, .accepts [.frameIdx] true),
  (.prod .filterStubs, .frameParticleMI, .accepts [.frameIdx] true),
  (.prod .filterStubs, .frameMI, .accepts [.frameIdx] true),
  (.prod .filterStubs, .particleMI, .accepts [.frameIdx] true),
  (.prod .filterStubs, .otherMI, .accepts [.frameIdx] true),
  (.prod .filterClusters, .range, .accepts [.frameIdx] true),
  (.prod .filterClusters, .labels, .accepts [.frameIdx] true),
  (.prod .filterClusters, .dupLabels, .accepts [.frameIdx] true),
  (.prod .filterClusters, .frameIdx, .accepts [.frameIdx] true),
  (.prod .filterClusters, .particleIdx, .accepts [.frameIdx] true),
  (.prod .filterClusters, .otherNamed, .accepts [.frameIdx] true),
  (.prod .filterClusters, .frameParticleMI, .accepts [.frameIdx] true),
  (.prod .filterClusters, .frameMI, .accepts [.frameIdx] true),
  (.prod .filterClusters, .particleMI, .accepts [.frameIdx] true),
  (.prod .filterClusters, .otherMI, .accepts [.frameIdx] true),
  (.prod .subtractDrift, .range, .accepts [.frameParticleMI] true),
  (.prod .subtractDrift, .labels, .accepts [.frameParticleMI] true),
  (.prod .subtractDrift, .dupLabels, .accepts [.frameParticleMI] true),
  (.prod .subtractDrift, .frameIdx, .accepts [.frameParticleMI] true),
  (.prod .subtractDrift, .particleIdx, .accepts [.frameParticleMI] true),
  (.prod .subtractDrift, .otherNamed, .accepts [.frameParticleMI] true),
  (.prod .subtractDrift, .frameParticleMI, .rejects),
  (.prod .subtractDrift, .frameMI, .rejects),
  (.prod .subtractDrift, .particleMI, .rejects),
  (.prod .subtractDrift, .otherMI, .accepts [.frameParticleMI] true),
  (.cons .computeDrift, .range, .accepts [] true),
  (.cons .computeDrift, .labels, .accepts [] true),
  (.cons .computeDrift, .dupLabels, .accepts [] true),
  (.cons .computeDrift, .frameIdx, .accepts [] true),
  (.cons .computeDrift, .particleIdx, .accepts [] true),
  (.cons .computeDrift, .otherNamed, .accepts [] true),
  (.cons .computeDrift, .frameParticleMI, .rejects),
  (.cons .computeDrift, .frameMI, .rejects),
  (.cons .computeDrift, .particleMI, .rejects),
  (.cons .computeDrift, .otherMI, .accepts [] true),
  (.cons .msd, .range, .accepts [] true),
  (.cons .msd, .labels, .accepts [] true),
  (.cons .msd, .dupLabels, .accepts [] true),
  (.cons .msd, .frameIdx, .accepts [] true),
  (.cons .msd, .particleIdx, .accepts [] true),
  (.cons .msd, .otherNamed, .accepts [] true),
  (.cons .msd, .frameParticleMI, .accepts [] true),
  (.cons .msd, .frameMI, .accepts [] true),
  (.cons .msd, .particleMI, .accepts [] true),
  (.cons .msd, .otherMI, .accepts [] true),
  (.cons .imsd, .range, .accepts [] true),
  (.cons .imsd, .labels, .accepts [] true),
  (.cons .imsd, .dupLabels, .accepts [] true),
  (.cons .imsd, .frameIdx, .accepts [] true),
  (.cons .imsd, .particleIdx, .rejects),
  (.cons .imsd, .otherNamed, .accepts [] true),
  (.cons .imsd, .frameParticleMI, .rejects),
  (.cons .imsd, .frameMI, .accepts [] true),
  (.cons .imsd, .particleMI, .rejects),
  (.cons .imsd, .otherMI, .accepts [] true),
  (.cons .emsd, .range, .accepts [] true),
  (.cons .emsd, .labels, .accepts [] true),
  (.cons .emsd, .dupLabels, .accepts [] true),
  (.cons .emsd, .frameIdx, .accepts [] true),
  (.cons .emsd, .particleIdx, .accepts [] true),
  (.cons .emsd, .otherNamed, .accepts [] true),
  (.cons .emsd, .frameParticleMI, .accepts [] true),
  (.cons .emsd, .frameMI, .accepts [] true),
  (.cons .emsd, .particleMI, .accepts [] true),
  (.cons .emsd, .otherMI, .accepts [] true),
  (.cons .cluster, .range, .accepts [] true),
  (.cons .cluster, .labels, .accepts [] true),
  (.cons .cluster, .dupLabels, .accepts [] true),
  (.cons .cluster, .frameIdx, .rejects),
  (.cons .cluster, .particleIdx, .accepts [] true),
  (.cons .cluster, .otherNamed, .accepts [] true),
  (.cons .cluster, .frameParticleMI, .rejects),
  (.cons .cluster, .frameMI, .rejects),
  (.cons .cluster, .particleMI, .accepts [] true),
  (.cons .cluster, .otherMI, .accepts [] true),
  (.cons .proximity, .range, .accepts [] true),
  (.cons .proximity, .labels, .accepts [] true),
  (.cons .proximity, .dupLabels, .accepts [] true),
  (.cons .proximity, .frameIdx, .accepts [] true),
  (.cons .proximity, .particleIdx, .accepts [] true),
  (.cons .proximity, .otherNamed, .accepts [] true),
  (.cons .proximity, .frameParticleMI, .accepts [] true),
  (.cons .proximity, .frameMI, .accepts [] true),
  (.cons .proximity, .particleMI, .accepts [] true),
  (.cons .proximity, .otherMI, .accepts [] true),
  (.cons .relateFrames, .range, .accepts [] true),
  (.cons .relateFrames, .labels, .accepts [] true),
  (.cons .relateFrames, .dupLabels, .accepts [] true),
  (.cons .relateFrames, .frameIdx, .accepts [] true),
  (.cons .relateFrames, .particleIdx, .accepts [] true),
  (.cons .relateFrames, .otherNamed, .accepts [] true),
  (.cons .relateFrames, .frameParticleMI, .accepts [] true),
  (.cons .relateFrames, .frameMI, .accepts [] true),
  (.cons .relateFrames, .particleMI, .accepts [] true),
  (.cons .relateFrames, .otherMI, .accepts [] true)]

def recordedRepairedRows : List (Stage × Layout × Outcome) := [
  (.prod .link, .range, .accepts [.labels, .range] true),
  (.prod .link, .labels, .accepts [.labels] true),
  (.prod .link, .dupLabels, .accepts [.dupLabels] true),
  (.prod .link, .frameIdx, .accepts [.otherNamed] true),
  (.prod .link, .particleIdx, .accepts [.particleIdx] true),
  (.prod .link, .otherNamed, .accepts [.otherNamed] true),
  (.prod .link, .frameParticleMI, .rejects),
  (.prod .link, .frameMI, .rejects),
  (.prod .link, .particleMI, .accepts [.particleMI] true),
  (.prod .link, .otherMI, .accepts [.otherMI] true),
  (.prod .linkPartial, .range, .accepts [.labels, .range] true),
  (.prod .linkPartial, .labels, .accepts [.labels] true),
  (.prod .linkPartial, .dupLabels, .accepts [.dupLabels] true),
  (.prod .linkPartial, .frameIdx, .accepts [.otherNamed] true),
  (.prod .linkPartial, .particleIdx, .accepts [.particleIdx] true),
  (.prod .linkPartial, .otherNamed, .accepts [.otherNamed] true),
  (.prod .linkPartial, .frameParticleMI, .rejects),
  (.prod .linkPartial, .frameMI, .rejects),
  (.prod .linkPartial, .particleMI, .accepts [.particleMI] true),
  (.prod .linkPartial, .otherMI, .accepts [.otherMI] true),
  (.prod .filterStubs, .range, .accepts [.frameIdx] true),
  (.prod .filterStubs, .labels, .accepts [.frameIdx] true),
  (.prod .filterStubs, .dupLabels, .accepts [.frameIdx] true),
  (.prod .filterStubs, .frameIdx, .accepts [.frameIdx] true),
  (.prod .filterStubs, .particleIdx, .accepts [.frameIdx] true),
  (.prod .filterStubs, .otherNamed, .accepts [.frameIdx] true),
  (.prod .filterStubs, .frameParticleMI, .accepts [.frameIdx] true),
  (.prod .filterStubs, .frameMI, .accepts [.frameIdx] true),
  (.prod .filterStubs, .particleMI, .accepts [.frameIdx] true),
  (.prod .filterStubs, .otherMI, .accepts [.frameIdx] true),
  (.prod .filterClusters, .range, .accepts [.frameIdx] true),
  (.prod .filterClusters, .labels, .accepts [.frameIdx] true),
  (.prod .filterClusters, .dupLabels, .accepts [.frameIdx] true),
  (.prod .filterClusters, .frameIdx, .accepts [.frameIdx] true),
  (.prod .filterClusters, .particleIdx, .accepts [.frameIdx] true),
  (.prod .filterClusters, .otherNamed, .accepts [.frameIdx] true),
  (.prod .filterClusters, .frameParticleMI, .accepts [.frameIdx] true),
  (.prod .filterClusters, .frameMI, .accepts [.frameIdx] true),
  (.prod .filterClusters, .particleMI, .accepts [.frameIdx] true),
  (.prod .filterClusters, .otherMI, .accepts [.frameIdx] true),
  (.prod .subtractDrift, .range, .accepts [.frameIdx] true),
  (.prod .subtractDrift, .labels, .accepts [.frameIdx] true),
  (.prod .subtractDrift, .dupLabels, .accepts [.frameIdx] true),
  (.prod .subtractDrift, .frameIdx, .accepts [.frameIdx] true),
  (.prod .subtractDrift, .particleIdx, .accepts [.frameIdx] true),
  (.prod .subtractDrift, .otherNamed, .accepts [.frameIdx] true),
  (.prod .subtractDrift, .frameParticleMI, .rejects),
  (.prod .subtractDrift, .frameMI, .rejects),
  (.prod .subtractDrift, .particleMI, .rejects),
  (.prod .subtractDrift, .otherMI, .accepts [.frameIdx] true),
  (.cons .computeDrift, .range, .accepts [] true),
  (.cons .computeDrift, .labels, .accepts [] true),
  (.cons .computeDrift, .dupLabels, .accepts [] true),
  (.cons .computeDrift, .frameIdx, .accepts [] true),
  (.cons .computeDrift, .particleIdx, .accepts [] true),
  (.cons .computeDrift, .otherNamed, .accepts [] true),
  (.cons .computeDrift, .frameParticleMI, .rejects),
  (.cons .computeDrift, .frameMI, .rejects),
  (.cons .computeDrift, .particleMI, .rejects),
  (.cons .computeDrift, .otherMI, .accepts [] true),
  (.cons .msd, .range, .accepts [] true),
  (.cons .msd, .labels, .accepts [] true),
  (.cons .msd, .dupLabels, .accepts [] true),
  (.cons .msd, .frameIdx, .accepts [] true),
  (.cons .msd, .particleIdx, .accepts [] true),
  (.cons .msd, .otherNamed, .accepts [] true),
  (.cons .msd, .frameParticleMI, .accepts [] true),
  (.cons .msd, .frameMI, .accepts [] true),
  (.cons .msd, .particleMI, .accepts [] true),
  (.cons .msd, .otherMI, .accepts [] true),
  (.cons .imsd, .range, .accepts [] true),
  (.cons .imsd, .labels, .accepts [] true),
  (.cons .imsd, .dupLabels, .accepts [] true),
  (.cons .imsd, .frameIdx, .accepts [] true),
  (.cons .imsd, .particleIdx, .rejects),
  (.cons .imsd, .otherNamed, .accepts [] true),
  (.cons .imsd, .frameParticleMI, .rejects),
  (.cons .imsd, .frameMI, .accepts [] true),
  (.cons .imsd, .particleMI, .rejects),
  (.cons .imsd, .otherMI, .accepts [] true),
  (.cons .emsd, .range, .accepts [] true),
  (.cons .emsd, .labels, .accepts [] true),
  (.cons .emsd, .dupLabels, .accepts [] true),
  (.cons .emsd, .frameIdx, .accepts [] true),
  (.cons .emsd, .particleIdx, .accepts [] true),
  (.cons .emsd, .otherNamed, .accepts [] true),
  (.cons .emsd, .frameParticleMI, .accepts [] true),
  (.cons .emsd, .frameMI, .accepts [] true),
  (.cons .emsd, .particleMI, .accepts [] true),
  (.cons .emsd, .otherMI, .accepts [] true),
  (.cons .cluster, .range, .accepts [] true),
  (.cons .cluster, .labels, .accepts [] true),
  (.cons .cluster, .dupLabels, .accepts [] true),
  (.cons .cluster, .frameIdx, .accepts [] true),
  (.cons .cluster, .particleIdx, .accepts [] true),
  (.cons .cluster, .otherNamed, .accepts [] true),
  (.cons .cluster, .frameParticleMI, .accepts [] true),
  (.cons .cluster, .frameMI, .accepts [] true),
  (.cons .cluster, .particleMI, .accepts [] true),
  (.cons .cluster, .otherMI, .accepts [] true),
  (.cons .proximity, .range, .accepts [] true),
  (.cons .proximity, .labels, .accepts [] true),
  (.cons .proximity, .dupLabels, .accepts [] true),
  (.cons .proximity, .frameIdx, .accepts [] true),
  (.cons .proximity, .particleIdx, .accepts [] true),
  (.cons .proximity, .otherNamed, .accepts [] true),
  (.cons .proximity, .frameParticleMI, .accepts [] true),
  (.cons .proximity, .frameMI, .accepts [] true),
  (.cons .proximity, .particleMI, .accepts [] true),
  (.cons .proximity, .otherMI, .accepts [] true),
  (.cons .relateFrames, .range, .accepts [] true),
  (.cons .relateFrames, .labels, .accepts [] true),
  (.cons .relateFrames, .dupLabels, .accepts [] true),
  (.cons .relateFrames, .frameIdx, .accepts [] true),
  (.cons .relateFrames, .particleIdx, .accepts [] true),
  (.cons .relateFrames, .otherNamed, .accepts [] true),
  (.cons .relateFrames, .frameParticleMI, .accepts [] true),
  (.cons .relateFrames, .frameMI, .accepts [] true),
  (.cons .relateFrames, .particleMI, .accepts [] true),
  (.cons .relateFrames, .otherMI, .accepts [] true)]

def recordedInit : List Layout := [.range, .labels, .dupLabels, .frameIdx, .otherNamed]

/-- the pairs excluded when the defects are kept as known findings -/
def recordedExcl : Excl :=
  [(.filterStubs, .cons .cluster), (.filterClusters, .cons .cluster),
   (.subtractDrift, .prod .link), (.subtractDrift, .prod .linkPartial),
   (.subtractDrift, .prod .subtractDrift), (.subtractDrift, .cons .computeDrift),
   (.subtractDrift, .cons .imsd), (.subtractDrift, .cons .cluster)]

/-- WITNESS (pinned tree): the closure property fails … -/
theorem pinned_not_closed_witness :
    tableClosed (tableOf recordedPinnedRows) recordedInit = false := by decide +kernel

/-- … by the concrete program `subtract_drift ; compute_drift` on a plain table … -/
theorem pinned_subtract_drift_witness :
    .frameParticleMI ∈ outs (tableOf recordedPinnedRows) .subtractDrift .range ∧
    tableOf recordedPinnedRows (.cons .computeDrift) .frameParticleMI = .rejects ∧
    tableOf recordedPinnedRows (.prod .link) .frameParticleMI = .rejects := by decide +kernel

/-- … and by `filter_stubs ; cluster`. -/
theorem pinned_filter_cluster_witness :
    .frameIdx ∈ outs (tableOf recordedPinnedRows) .filterStubs .range ∧
    tableOf recordedPinnedRows (.cons .cluster) .frameIdx = .rejects := by decide +kernel

/-- PARTIAL (pinned tree): every pipeline that avoids the eight excluded pairs is accepted. -/
theorem pinned_closed_except_partial :
    tableClosedExcept (tableOf recordedPinnedRows) recordedInit recordedExcl = true := by
  decide +kernel

/-- with the two repairs the full property holds of the recorded table -/
theorem repaired_closed : tableClosed (tableOf recordedRepairedRows) recordedInit = true := by
  decide +kernel

/-- instantiation: on the repaired tree, after `filter_stubs ; subtract_drift ; link` every stage
accepts the table with the same numbers (a pipeline of length 3; any length works the same way) -/
example : ∀ s : Stage, ∃ o, tableOf recordedRepairedRows s .otherNamed = .accepts o true :=
  fun s => closed_of_table _ recordedInit repaired_closed .range (by decide) .filterStubs
    [.subtractDrift, .link] .frameIdx .otherNamed (by decide +kernel)
    ⟨.frameIdx, by decide +kernel, .otherNamed, by decide +kernel, rfl⟩ s

end TrackpyV.Pipeline
