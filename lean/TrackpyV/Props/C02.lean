import TrackpyV.Proofs.Assign
import TrackpyV.Proofs.Linker
import TrackpyV.Proofs.Subnets
import TrackpyV.Props.C01
/-!
# C02 — every frame-to-frame assignment is the global optimum

Property theorems about the solver model (`Model/Assign.lean`).  Costs are exact naturals.

* `solveOrdered_admissible / _optimal / _total` : the branch-and-bound (mirror of `do_recur`)
  returns an admissible assignment of minimal total cost among **all** admissible assignments,
  provided every candidate list is sorted by cost (what `Linker.assign_links` establishes and
  the anchor names); it returns something whenever every source carries a null candidate.
* `solve_optimal`, `solve_order_indep` : the same after the stable sort of the sources by
  candidate count; the optimal cost does not depend on the order in which sources are presented
  (the code iterates a Python `set`).
* `admissibleB_iff` : the decidable test the driver applies to the *implementation's* output is
  exactly admissibility; `checked_output_optimal`: an output accepted by the driver
  (admissible, cost equal to the model's optimum) is a global optimum — this licenses the shadow
  comparison for every link strategy.
* `groups_compose`, `groups_compose_list` : if the sources are split into groups with pairwise
  disjoint destinations (sub-nets), per-group optima concatenate to a global optimum, i.e.
  solving sub-net by sub-net yields the optimum over **all** one-to-one assignments.
-/
namespace TrackpyV.Assign

/-! ## the solver on a fixed order of sources -/

theorem solveOrdered_admissible (srcs : List Src) (c : Nat) (a : List Cand)
    (h : solveOrdered srcs = some (c, a)) : Admissible srcs a ∧ cost a = c := by
  cases srcs with
  | nil => simp [solveOrdered] at h
  | cons s rest =>
    simp only [solveOrdered] at h
    rcases go_achieved rest s [] 0 [] none with h0 | ⟨p, hp, h1⟩
    · rw [h0] at h; cases h
    · rw [h1] at h
      simp only [Nat.zero_add, List.nil_append, Option.some.injEq, Prod.mk.injEq] at h
      obtain ⟨hc, ha⟩ := h
      have := (mem_completions_iff rest s [] p).mp hp
      subst hc; subst ha
      exact ⟨this.1, this.2.symm⟩

/-- Pruning soundness: no admissible assignment is cheaper than what the solver returns. -/
theorem solveOrdered_optimal (srcs : List Src) (hne : srcs ≠ []) (hs : AllSorted srcs)
    (a' : List Cand) (ha : Admissible srcs a') :
    ∃ c a, solveOrdered srcs = some (c, a) ∧ c ≤ cost a' := by
  cases srcs with
  | nil => exact absurd rfl hne
  | cons s rest =>
    have hp : (cost a', a') ∈ completions rest s [] :=
      (mem_completions_iff rest s [] (cost a', a')).mpr ⟨ha, rfl⟩
    have hl := go_lower rest s [] 0 [] none (hs s (List.mem_cons_self ..))
      (fun x hx => hs x (List.mem_cons_of_mem _ hx)) (cost a', a') hp
    simp only [Nat.zero_add] at hl
    simp only [solveOrdered]
    cases hg : go rest s [] 0 [] none with
    | none => rw [hg] at hl; exact hl.elim
    | some r =>
      obtain ⟨c, a⟩ := r
      rw [hg] at hl
      exact ⟨c, a, rfl, hl⟩

/-- a source that carries the null candidate -/
def HasNull (s : Src) : Prop := ∃ c, (none, c) ∈ s

theorem exists_admissible_of_null (srcs : List Src) (tk : List Nat)
    (h : ∀ s ∈ srcs, HasNull s) : ∃ a, AdmTk srcs a tk := by
  induction srcs with
  | nil => exact ⟨[], (admTk_nil_left _ _).mpr rfl⟩
  | cons s rest ih =>
    obtain ⟨c, hc⟩ := h s (List.mem_cons_self ..)
    obtain ⟨a, ha⟩ := ih (fun x hx => h x (List.mem_cons_of_mem _ hx))
    refine ⟨(none, c) :: a, ?_⟩
    rw [admTk_cons_iff]
    exact ⟨hc, by simp [taken], by simpa [addTaken] using ha⟩

/-- With the null candidate appended to every source (as the `subnet_linker_*` wrappers do) the
solver always returns an assignment: it never fails for a reason other than size. -/
theorem solveOrdered_total (srcs : List Src) (hne : srcs ≠ []) (hs : AllSorted srcs)
    (h : ∀ s ∈ srcs, HasNull s) : ∃ c a, solveOrdered srcs = some (c, a) := by
  obtain ⟨a', ha'⟩ := exists_admissible_of_null srcs [] h
  obtain ⟨c, a, hsol, _⟩ := solveOrdered_optimal srcs hne hs a' ha'
  exact ⟨c, a, hsol⟩

/-! ## the driver's decidable admissibility test -/

theorem admissibleB_iff (srcs : List Src) (a : List Cand) (tk : List Nat) :
    admissibleB srcs a tk = true ↔ AdmTk srcs a tk := by
  induction srcs generalizing a tk with
  | nil =>
    cases a with
    | nil => simp [admissibleB, admTk_nil_left]
    | cons c cs => simp [admissibleB, admTk_nil_left]
  | cons s ss ih =>
    cases a with
    | nil => simp [admissibleB, AdmTk]
    | cons c cs =>
      obtain ⟨d, c⟩ := c
      rw [admTk_cons_iff]
      simp only [admissibleB, Bool.and_eq_true, Bool.not_eq_true', List.contains_eq_mem,
        decide_eq_true_eq, ih]
      constructor
      · rintro ⟨⟨h1, h2⟩, h3⟩; exact ⟨h1, h2, h3⟩
      · rintro ⟨h1, h2, h3⟩; exact ⟨⟨h1, h2⟩, h3⟩

/-- What the shadow comparison establishes: an output that passes the driver's test and has the
cost of the model's optimum is admissible and globally optimal, whatever algorithm produced it. -/
theorem checked_output_optimal (srcs : List Src) (hne : srcs ≠ []) (hs : AllSorted srcs)
    (out : List Cand) (c : Nat) (b : List Cand)
    (hadm : admissibleB srcs out [] = true) (hsol : solveOrdered srcs = some (c, b))
    (hcost : cost out = c) :
    Admissible srcs out ∧ ∀ a', Admissible srcs a' → cost out ≤ cost a' := by
  refine ⟨(admissibleB_iff srcs out []).mp hadm, ?_⟩
  intro a' ha'
  obtain ⟨c', b', h', hle⟩ := solveOrdered_optimal srcs hne hs a' ha'
  rw [hsol] at h'
  cases h'
  omega

/-! ## independence of the order of the sources -/

theorem picks_perm {srcs srcs' : List Src} (hp : srcs.Perm srcs') (a : List Cand)
    (h : Picks srcs a) : ∃ a', Picks srcs' a' ∧ a.Perm a' := by
  induction hp generalizing a with
  | nil => exact ⟨a, h, List.Perm.refl _⟩
  | cons s _ ih =>
    cases a with
    | nil => simp at h
    | cons c cs =>
      simp only [picks_cons_cons] at h
      obtain ⟨a', h1, h2⟩ := ih cs h.2
      exact ⟨c :: a', by simp [h.1, h1], List.Perm.cons _ h2⟩
  | swap s t l =>
    cases a with
    | nil => simp at h
    | cons c cs =>
      cases cs with
      | nil => simp at h
      | cons c2 cs =>
        simp only [picks_cons_cons] at h
        exact ⟨c2 :: c :: cs, by simp [h.1, h.2.1, h.2.2], List.Perm.swap ..⟩
  | trans _ _ ih1 ih2 =>
    obtain ⟨a1, h1, p1⟩ := ih1 a h
    obtain ⟨a2, h2, p2⟩ := ih2 a1 h1
    exact ⟨a2, h2, p1.trans p2⟩

theorem admissible_perm {srcs srcs' : List Src} (hp : srcs.Perm srcs') (a : List Cand)
    (h : Admissible srcs a) : ∃ a', Admissible srcs' a' ∧ cost a' = cost a := by
  obtain ⟨h1, h2, _⟩ := h
  obtain ⟨a', hp', hperm⟩ := picks_perm hp a h1
  refine ⟨a', ⟨hp', ?_, by simp⟩, ?_⟩
  · exact ((hperm.filterMap (fun c : Cand => c.1)).nodup_iff).mp h2
  · exact ((hperm.map (fun c : Cand => c.2)).sum_nat).symm

theorem insLen_perm (s : Src) (l : List Src) : (insLen s l).Perm (s :: l) := by
  induction l with
  | nil => exact List.Perm.refl _
  | cons t ts ih =>
    simp only [insLen]
    split
    · exact List.Perm.refl _
    · exact (List.Perm.cons t ih).trans (List.Perm.swap ..)

theorem sortByLen_perm (l : List Src) : (sortByLen l).Perm l := by
  induction l with
  | nil => exact List.Perm.refl _
  | cons s t ih =>
    simp only [sortByLen, List.foldr_cons]
    exact (insLen_perm s _).trans (List.Perm.cons s ih)

/-- `solve` (stable sort by candidate count, then branch and bound) returns an assignment no more
expensive than any admissible assignment of the sources *in any order*. -/
theorem solve_optimal (srcs : List Src) (hne : srcs ≠ []) (hs : AllSorted srcs)
    (a' : List Cand) (ha : Admissible srcs a') :
    ∃ c a, solve srcs = some (c, a) ∧ Admissible (sortByLen srcs) a ∧ cost a = c ∧ c ≤ cost a' := by
  have hperm := sortByLen_perm srcs
  have hne' : sortByLen srcs ≠ [] := by
    intro h; rw [h] at hperm; exact hne (List.Perm.eq_nil hperm.symm)
  have hs' : AllSorted (sortByLen srcs) := fun s hm => hs s ((hperm.mem_iff).mp hm)
  obtain ⟨a'', ha'', hc''⟩ := admissible_perm hperm.symm a' ha
  obtain ⟨c, a, hsol, hle⟩ := solveOrdered_optimal _ hne' hs' a'' ha''
  have := solveOrdered_admissible _ c a hsol
  exact ⟨c, a, hsol, this.1, this.2, by omega⟩

/-- The optimal cost does not depend on the order in which the sources are presented. -/
theorem solve_order_indep (srcs srcs' : List Src) (hp : srcs.Perm srcs') (hne : srcs ≠ [])
    (hs : AllSorted srcs) (c c' : Nat) (a a' : List Cand)
    (h : solveOrdered srcs = some (c, a)) (h' : solveOrdered srcs' = some (c', a')) : c = c' := by
  have hne' : srcs' ≠ [] := by
    intro h0; rw [h0] at hp; exact hne (List.Perm.eq_nil hp)
  have hs' : AllSorted srcs' := fun s hm => hs s ((hp.mem_iff).mpr hm)
  have ad := solveOrdered_admissible _ _ _ h
  have ad' := solveOrdered_admissible _ _ _ h'
  obtain ⟨b, hb, hcb⟩ := admissible_perm hp a ad.1
  obtain ⟨b', hb', hcb'⟩ := admissible_perm hp.symm a' ad'.1
  obtain ⟨c1, a1, e1, l1⟩ := solveOrdered_optimal srcs hne hs b' hb'
  obtain ⟨c2, a2, e2, l2⟩ := solveOrdered_optimal srcs' hne' hs' b hb
  rw [h] at e1; cases e1
  rw [h'] at e2; cases e2
  have := ad.2; have := ad'.2
  omega

/-! ## sub-nets compose: per-group optima give the global optimum -/

theorem picks_dests_subset (g : List Src) (a : List Cand) (h : Picks g a) :
    ∀ x ∈ dests a, x ∈ groupDests g := by
  induction g generalizing a with
  | nil =>
    cases a with
    | nil => simp [dests]
    | cons c cs => simp at h
  | cons s ss ih =>
    cases a with
    | nil => simp [dests]
    | cons c cs =>
      simp only [picks_cons_cons] at h
      intro x hx
      obtain ⟨d, k⟩ := c
      simp only [groupDests, List.flatMap_cons, List.mem_append]
      cases d with
      | none =>
        rw [dests_cons_none] at hx
        exact Or.inr (ih cs h.2 x hx)
      | some y =>
        rw [dests_cons_some] at hx
        rcases List.mem_cons.mp hx with rfl | hx
        · left
          simp only [dests, List.mem_filterMap]
          exact ⟨(some x, k), h.1, rfl⟩
        · exact Or.inr (ih cs h.2 x hx)

theorem picks_append (A B : List Src) (a : List Cand) :
    Picks (A ++ B) a ↔ ∃ a1 a2, a = a1 ++ a2 ∧ Picks A a1 ∧ Picks B a2 := by
  induction A generalizing a with
  | nil =>
    constructor
    · intro h; exact ⟨[], a, rfl, by simp, h⟩
    · rintro ⟨a1, a2, rfl, h1, h2⟩
      cases a1 with
      | nil => simpa using h2
      | cons c cs => simp at h1
  | cons s ss ih =>
    cases a with
    | nil =>
      constructor
      · intro h; simp at h
      · rintro ⟨a1, a2, he, h1, _⟩
        cases a1 with
        | nil => simp at h1
        | cons c cs => simp at he
    | cons c cs =>
      simp only [List.cons_append, picks_cons_cons, ih]
      constructor
      · rintro ⟨hc, a1, a2, rfl, h1, h2⟩
        exact ⟨c :: a1, a2, rfl, by simp [hc, h1], h2⟩
      · rintro ⟨a1, a2, he, h1, h2⟩
        cases a1 with
        | nil => simp at h1
        | cons c' cs' =>
          simp only [List.cons_append, List.cons.injEq] at he
          obtain ⟨rfl, rfl⟩ := he
          simp only [picks_cons_cons] at h1
          exact ⟨h1.1, cs', a2, rfl, h1.2, h2⟩

theorem dests_append (a b : List Cand) : dests (a ++ b) = dests a ++ dests b := by
  simp [dests]

theorem cost_append (a b : List Cand) : cost (a ++ b) = cost a + cost b := by
  simp [cost]

/-- Two groups of sources without a common destination: the admissible assignments of the union
are exactly the concatenations of admissible assignments of the parts. -/
theorem admissible_append (A B : List Src)
    (hd : ∀ x ∈ groupDests A, x ∉ groupDests B) (a : List Cand) :
    Admissible (A ++ B) a ↔ ∃ a1 a2, a = a1 ++ a2 ∧ Admissible A a1 ∧ Admissible B a2 := by
  unfold Admissible AdmTk
  constructor
  · rintro ⟨hp, hn, _⟩
    obtain ⟨a1, a2, rfl, h1, h2⟩ := (picks_append A B a).mp hp
    rw [dests_append, List.nodup_append] at hn
    exact ⟨a1, a2, rfl, ⟨h1, hn.1, by simp⟩, ⟨h2, hn.2.1, by simp⟩⟩
  · rintro ⟨a1, a2, rfl, ⟨h1, n1, _⟩, ⟨h2, n2, _⟩⟩
    refine ⟨(picks_append A B _).mpr ⟨a1, a2, rfl, h1, h2⟩, ?_, by simp⟩
    rw [dests_append, List.nodup_append]
    refine ⟨n1, n2, ?_⟩
    intro x hx y hy hxy
    subst hxy
    exact hd x (picks_dests_subset A a1 h1 x hx) (picks_dests_subset B a2 h2 x hy)

/-- an assignment that is admissible and of minimal cost -/
def IsOptimal (srcs : List Src) (a : List Cand) : Prop :=
  Admissible srcs a ∧ ∀ a', Admissible srcs a' → cost a ≤ cost a'

theorem groups_compose (A B : List Src) (hd : ∀ x ∈ groupDests A, x ∉ groupDests B)
    (a1 a2 : List Cand) (h1 : IsOptimal A a1) (h2 : IsOptimal B a2) :
    IsOptimal (A ++ B) (a1 ++ a2) := by
  refine ⟨(admissible_append A B hd _).mpr ⟨a1, a2, rfl, h1.1, h2.1⟩, ?_⟩
  intro a' ha'
  obtain ⟨b1, b2, rfl, hb1, hb2⟩ := (admissible_append A B hd a').mp ha'
  have := h1.2 b1 hb1
  have := h2.2 b2 hb2
  simp only [cost_append]
  omega

theorem groupDests_append (A B : List Src) : groupDests (A ++ B) = groupDests A ++ groupDests B := by
  simp [groupDests]

/-- Any number of sub-nets: if no destination is shared between two groups, concatenating one
optimal assignment per group gives an optimal assignment of all sources together.  Hence the
links made sub-net by sub-net minimise the total over **all** one-to-one assignments. -/
theorem groups_compose_list (groups : List (List Src)) (asg : List (List Cand))
    (hd : groups.Pairwise (fun A B => ∀ x ∈ groupDests A, x ∉ groupDests B))
    (hlen : groups.length = asg.length)
    (hopt : ∀ p ∈ groups.zip asg, IsOptimal p.1 p.2) :
    IsOptimal groups.flatten asg.flatten := by
  induction groups generalizing asg with
  | nil =>
    cases asg with
    | nil =>
      refine ⟨(admTk_nil_left _ _).mpr rfl, ?_⟩
      intro a' ha'
      have := (admTk_nil_left _ _).mp ha'
      subst this; exact Nat.le_refl _
    | cons _ _ => simp at hlen
  | cons g gs ih =>
    cases asg with
    | nil => simp at hlen
    | cons a as =>
      simp only [List.flatten_cons]
      rw [List.pairwise_cons] at hd
      have hrest := ih as hd.2 (by simpa using hlen)
        (fun p hp => hopt p (by simp only [List.zip_cons_cons]; exact List.mem_cons_of_mem _ hp))
      apply groups_compose g gs.flatten _ a as.flatten
        (hopt (g, a) (by simp)) hrest
      intro x hx hx'
      simp only [groupDests, List.mem_flatMap, List.mem_flatten] at hx'
      obtain ⟨s, ⟨B, hB, hsB⟩, hxs⟩ := hx'
      exact hd.1 B hB x hx (by
        simp only [groupDests, List.mem_flatMap]; exact ⟨s, hsB, hxs⟩)

/-! ## non-vacuity: concrete instances of the hypotheses (tests, labelled as such) -/

/-- two sources competing for destination 0; sorted lists with null candidates -/
def ex1 : List Src := [[(some 0, 1), (some 1, 4), (none, 9)], [(some 0, 2), (none, 9)]]

example : solveOrdered ex1 = some (6, [(some 1, 4), (some 0, 2)]) := by
  simp [solveOrdered, ex1, go, exceeds, taken, better, addTaken]
example : AllSorted ex1 ∧ ex1 ≠ [] ∧ (∀ s ∈ ex1, HasNull s) := by
  refine ⟨?_, by decide, ?_⟩
  · intro s hs; simp [ex1] at hs; rcases hs with rfl | rfl <;> simp [SortedC]
  · intro s hs; simp [ex1] at hs; rcases hs with rfl | rfl <;> exact ⟨9, by simp⟩
example : admissibleB ex1 [(some 1, 4), (some 0, 2)] [] = true := by decide
/-- an exact tie: two optimal assignments of equal cost -/
example : countOptimal [[(some 0, 1), (none, 9)], [(some 0, 1), (none, 9)]] = 2 := by
  simp [countOptimal, allCompletions, completions, solveOrdered, go, exceeds, taken, better, addTaken]

end TrackpyV.Assign

/-! ## step level: what the monitor's optimality test establishes -/
namespace TrackpyV.Linker
open TrackpyV.Assign

theorem pairwiseDisjointB_pairwise (ls : List (List Nat)) (h : pairwiseDisjointB ls = true) :
    ls.Pairwise (fun A B => ∀ x ∈ A, x ∉ B) := by
  induction ls with
  | nil => exact List.Pairwise.nil
  | cons x xs ih =>
    simp only [pairwiseDisjointB, Bool.and_eq_true, List.all_eq_true, Bool.not_eq_true',
      List.contains_eq_mem, decide_eq_false_iff_not] at h
    exact List.Pairwise.cons (fun y hy a ha => h.1 y hy a ha) (ih h.2)

theorem zip_map_same {α β γ} (f : α → β) (h : α → γ) (l : List α) :
    (l.map f).zip (l.map h) = l.map (fun g => (f g, h g)) := by
  induction l with
  | nil => rfl
  | cons a as ih => simp [ih]

/-- **C02 at step level.**  If the monitor's optimality test passes for the labels the
implementation produced, then the implementation's links — read as one chosen candidate per
candidate source — are admissible and of minimal total cost (squared displacements plus
`search_range²` per unlinked candidate source) among ALL one-to-one assignments that use only
pairs within range, over all sub-nets together. -/
theorem step_optimal (cfg : Cfg) (hdrop : cfg.drop = false) (st : State) (t : Int) (dsts : List Pos)
    (labels : List Nat) (h : optWhy cfg st t dsts labels = none) :
    IsOptimal (gSrcs (stepCands cfg st t dsts) (stepGroups cfg st t dsts)).flatten
      (gAsg cfg st labels (stepCands cfg st t dsts) (stepGroups cfg st t dsts)).flatten := by
  unfold optWhy at h
  simp only at h
  split at h
  · cases h
  · rename_i hd
    split at h
    · cases h
    · rename_i hall
      simp only [Bool.not_eq_true, Bool.not_eq_false, Bool.not_eq_eq_eq_not, Bool.not_false, Bool.not_true] at hd hall
      have hd : pairwiseDisjointB (List.map groupDests (gSrcs (stepCands cfg st t dsts) (stepGroups cfg st t dsts))) = true := by
        revert hd; cases pairwiseDisjointB _ <;> simp
      apply groups_compose_list
      · have := pairwiseDisjointB_pairwise _ hd
        exact (List.pairwise_map).mp this
      · simp [gSrcs, gAsg]
      · intro p hp
        simp only [gSrcs, gAsg, zip_map_same, List.mem_map] at hp
        obtain ⟨g, hg, rfl⟩ := hp
        simp only [gSrcs, gAsg, List.all_eq_true] at hall
        have hok := hall (g.1.map (srcOf (stepCands cfg st t dsts)),
          g.1.map (asgOf cfg st labels (stepCands cfg st t dsts)), g) (by
            rw [List.mem_iff_getElem] at hg ⊢
            obtain ⟨i, hi, rfl⟩ := hg
            exact ⟨i, by simp; exact hi, by simp⟩)
        simp only [groupOkB, hdrop, Bool.false_and] at hok
        by_cases hemp : g.1 = []
        · simp only [hemp, List.map_nil]
          refine ⟨(admTk_nil_left _ _).mpr rfl, ?_⟩
          intro a' ha'
          have := (admTk_nil_left _ _).mp ha'
          subst this; exact Nat.le_refl _
        · have hne : (g.1.map (srcOf (stepCands cfg st t dsts))) ≠ [] := by
            simpa using hemp
          have hise : (g.1.map (srcOf (stepCands cfg st t dsts))).isEmpty = false := by
            simpa using hemp
          simp only [hise, Bool.false_eq_true, if_false, Bool.and_eq_true] at hok
          obtain ⟨⟨hsorted, hadm⟩, hcost⟩ := hok
          have hs : AllSorted (g.1.map (srcOf (stepCands cfg st t dsts))) := by
            intro s hsm
            exact (sortedB_iff s).mp (List.all_eq_true.mp hsorted s hsm)
          split at hcost
          · rename_i c b hsol
            exact checked_output_optimal _ hne hs _ c b hadm hsol (by simpa using hcost)
          · cases hcost

/-! ## the sub-nets are a partition closed under candidate edges -/

/-- every destination of the new level lies in exactly one sub-net -/
theorem step_subnets_cover (cfg : Cfg) (st : State) (t : Int) (dsts : List Pos) :
    ((stepGroups cfg st t dsts).flatMap (·.2)).Perm (List.range dsts.length) :=
  (stepGroups_inv cfg st t dsts).dests_perm

/-- a source's candidate destinations all lie in the sub-net the source belongs to: no candidate
pair crosses two sub-nets ("group of mutually competing particles") -/
theorem step_subnets_closed (cfg : Cfg) (st : State) (t : Int) (dsts : List Pos)
    (g : Group) (hg : g ∈ stepGroups cfg st t dsts) (i : Nat) (hi : i ∈ g.1)
    (d : Nat) (hd : d ∈ realDests (srcOf (stepCands cfg st t dsts) i)) : d ∈ g.2 :=
  (stepGroups_inv cfg st t dsts).closed g hg i hi d hd

/-- the candidate destinations of different sub-nets are disjoint — so the run-time test of this
fact inside `optWhy` can never fail, and `groups_compose_list` applies to every step -/
theorem step_subnets_disjoint (cfg : Cfg) (st : State) (t : Int) (dsts : List Pos) :
    pairwiseDisjointB ((gSrcs (stepCands cfg st t dsts) (stepGroups cfg st t dsts)).map groupDests)
      = true :=
  step_groups_disjoint cfg st t dsts

/-- every candidate the monitor considers is within range, and every in-range pair is a candidate
(so "pairs within search_range" is literally the candidate relation) -/
theorem candidate_iff_in_range (cfg : Cfg) (t : Int) (dsts : List Pos) (s : Source) (j c : Nat) :
    (some j, c) ∈ candsOf cfg t dsts s ↔
      ∃ hj : j < dsts.length, c = dist2 cfg.w (view cfg t s) dsts[j] ∧ c ≤ cfg.B := by
  constructor
  · intro h
    rcases mem_candsOfRow _ _ _ h with h0 | ⟨j', hj', heq, hle⟩
    · cases h0
    · simp only [Prod.mk.injEq, Option.some.injEq] at heq
      obtain ⟨rfl, rfl⟩ := heq
      have hj : j < dsts.length := by simpa [distRow] using hj'
      refine ⟨hj, by simp [distRow], hle⟩
  · rintro ⟨hj, rfl, hle⟩
    simp only [candsOf, candsOfRow, List.mem_append, List.mem_singleton, mem_foldr_insCand,
      List.mem_filterMap]
    left
    refine ⟨(dist2 cfg.w (view cfg t s) dsts[j], j), ?_, by simp [hle]⟩
    rw [List.mem_iff_getElem]
    refine ⟨j, by simp [distRow]; exact hj, by simp [distRow]⟩

end TrackpyV.Linker
