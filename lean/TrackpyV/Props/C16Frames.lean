import TrackpyV.Props.C16
import TrackpyV.Model.LeastsqFrames
/-!
# C16 (X15) — every cluster of `refine_leastsq` is fitted against ITS OWN frame

Theorems about `Model/LeastsqFrames.lean` (mirror of `prepare_subimages` and of the call plan of
`refine_leastsq`).  The accuracy clause of C16 ("returns the true centres …") and the bounds clause
both presuppose that the residual of a feature is computed on the pixels of the frame the feature
belongs to; on a multi-frame table this is a statement about `frame_nos[cl_inds[0]]`.

* `framesRead_own_frame` (a) — clusters within frames ⇒ the frame read for a cluster is the frame
  of EVERY member.
* `framesRead_none` (b) — the `groups is None` shortcut reads row 0's frame, which is every row's
  frame when `f_iter` holds one frame.
* `clusters_within_frames_of_per_frame_clustering` (c) — clustering frame by frame (as
  `static.cluster_iter` does) yields clusters within frames.
* `first_frame_for_all_wrong` (d) — the seeded variant "read `frame_nos[0]` once for all clusters"
  differs from `framesRead` on a 2-frame, 2-cluster table: what the harness tie must see.
* `plan_covers_rows_with_own_frame` (e) — over the whole plan (global and per-cluster) every row
  is fitted exactly once, against its own frame.
* `cwfCheck_sound` — the driver's run-time flag `cwf=1` implies the hypothesis of (a), (e).
-/
namespace TrackpyV.LeastsqFrames
open List

theorem frameAt_of_getElem? {rows : List Int} {i : Nat} {fr : Int} (h : rows[i]? = some fr) :
    frameAt rows i = fr := by
  simp [frameAt, List.getD_eq_getElem?_getD, h]

/-- the first member's frame is every member's frame -/
theorem clusterFrame_of_within {rows : List Int} {cl : List Nat} {fr : Int} (hne : cl ≠ [])
    (hfr : ∀ i ∈ cl, rows[i]? = some fr) : clusterFrame rows cl = fr := by
  cases cl with
  | nil => exact absurd rfl hne
  | cons a t =>
    simp only [clusterFrame, List.headD_cons]
    exact frameAt_of_getElem? (hfr a (by simp))

/-- (a) **every feature is fitted against its own frame**: if every cluster is non-empty and lies
within one frame, then `prepare_subimages` cuts exactly one sub-image per cluster and the frame it
reads for the `k`-th cluster is the frame of every member `i` of that cluster. -/
theorem framesRead_own_frame (rows : List Int) (clusters : List (List Nat))
    (h : ClustersWithinFrames rows clusters) :
    (framesRead rows (some clusters)).length = clusters.length ∧
    ∀ (k : Nat) (cl : List Nat), clusters[k]? = some cl → ∀ i ∈ cl,
      (framesRead rows (some clusters))[k]? = rows[i]? := by
  refine ⟨by simp [framesRead], ?_⟩
  intro k cl hk i hi
  obtain ⟨hne, fr, hfr⟩ := h cl (List.mem_of_getElem? hk)
  simp [framesRead, List.getElem?_map, hk, hfr i hi, clusterFrame_of_within hne hfr]

/-- (b) the `groups is None` shortcut reads ONE frame, the frame of row 0 of `f_iter`; when all
rows of `f_iter` carry the same frame number this is the frame of every row. -/
theorem framesRead_none (rows : List Int) (fr : Int) (hne : rows ≠ [])
    (hone : ∀ x ∈ rows, x = fr) :
    framesRead rows none = [fr] ∧ ∀ i, i < rows.length → rows[i]? = some fr := by
  constructor
  · cases rows with
    | nil => exact absurd rfl hne
    | cons a t => simp [framesRead, frameAt, hone a (by simp)]
  · intro i hi
    rw [List.getElem?_eq_getElem hi]
    exact congrArg some (hone _ (List.getElem_mem hi))

/-- (c) clusters produced frame by frame (`static.cluster_iter`: one clustering per frame, results
concatenated) never span two frames. -/
theorem clusters_within_frames_of_per_frame_clustering (rows : List Int)
    (parts : List (Int × List (List Nat))) (h : PerFrameClustering rows parts) :
    ClustersWithinFrames rows (clustersOf parts) := by
  intro cl hcl
  simp only [clustersOf, List.mem_flatMap] at hcl
  obtain ⟨p, hp, hclp⟩ := hcl
  obtain ⟨hne, hfr⟩ := h p hp cl hclp
  exact ⟨hne, p.1, hfr⟩

/-- the seeded variant (C16-A5): `frame = reader[frame_nos[0]]` read once, used for ALL clusters -/
def firstFrameForAll (rows : List Int) : Option (List (List Nat)) → List Int
  | none => [frameAt rows 0]
  | some cls => cls.map (fun _ => frameAt rows 0)

/-- (d) witness / non-vacuity: on the table with frames `[0, 1]` and the clusters `[[0], [1]]`
(two frames, one single feature each: what a 'global' mode hands to `prepare_subimages`) the code
reads frames `0, 1`, the seeded variant reads `0, 0`; and the input satisfies the hypothesis of
(a).  The two agree on the `None` shortcut, so only a multi-frame 'global' call tells them apart. -/
theorem first_frame_for_all_wrong :
    framesRead [0, 1] (some [[0], [1]]) = [0, 1] ∧
    firstFrameForAll [0, 1] (some [[0], [1]]) = [0, 0] ∧
    framesRead [0, 1] (some [[0], [1]]) ≠ firstFrameForAll [0, 1] (some [[0], [1]]) ∧
    ClustersWithinFrames [0, 1] [[0], [1]] ∧
    (∀ rows, framesRead rows none = firstFrameForAll rows none) := by
  refine ⟨by decide, by decide, by decide, ?_, fun _ => rfl⟩
  intro cl hcl
  simp only [List.mem_cons, List.not_mem_nil, or_false] at hcl
  rcases hcl with rfl | rfl
  · exact ⟨by simp, 0, by simp⟩
  · exact ⟨by simp, 1, by simp⟩

/-- the run-time flag of the driver implies the hypothesis of (a) and (e) -/
theorem cwfCheck_sound (rows : List Int) (clusters : List (List Nat))
    (h : cwfCheck rows clusters = true) : ClustersWithinFrames rows clusters := by
  intro cl hcl
  have hc := (List.all_eq_true.mp h) cl hcl
  cases cl with
  | nil => simp at hc
  | cons a t =>
    refine ⟨by simp, ?_⟩
    simp only at hc
    cases hra : rows[a]? with
    | none => simp [hra] at hc
    | some fr =>
      simp only [hra] at hc
      refine ⟨fr, fun i hi => ?_⟩
      have := (List.all_eq_true.mp hc) i hi
      simpa using this

/-! ## plan level -/

theorem map_frameAt_range (rows : List Int) :
    (List.range rows.length).map (frameAt rows) = rows := by
  apply List.ext_getElem?
  intro i
  by_cases hi : i < rows.length
  · simp [List.getElem?_map, List.getElem?_range hi, frameAt, List.getD_eq_getElem?_getD,
      List.getElem?_eq_getElem hi]
  · have h1 : (List.range rows.length)[i]? = none := by
      simp; omega
    have h2 : rows[i]? = none := by simp; omega
    simp [List.getElem?_map, h1, h2]

/-- inside one cluster of a within-frames clustering, the pair recorded for member `i` is
`(i, frame of row i)` — global call -/
theorem global_cluster_pairs {rows : List Int} {cl : List Nat} {fr : Int} (hne : cl ≠ [])
    (hfr : ∀ i ∈ cl, rows[i]? = some fr) :
    (cl.map (fun i => (i, clusterFrame rows cl))).map
        (fun p => ((List.range rows.length).getD p.1 0, p.2))
      = cl.map (fun i => (i, frameAt rows i)) := by
  rw [List.map_map]
  apply List.map_congr_left
  intro i hi
  have hlt : i < rows.length := by
    have := hfr i hi
    exact (List.getElem?_eq_some_iff.mp this).1
  simp [clusterFrame_of_within hne hfr, frameAt_of_getElem? (hfr i hi),
    List.getD_eq_getElem?_getD, List.getElem?_range hlt]

/-- the same for a per-cluster call (`groups is None`, `f_iter` = the rows of the cluster) -/
theorem local_cluster_pairs {rows : List Int} {cl : List Nat} {fr : Int} (hne : cl ≠ [])
    (hfr : ∀ i ∈ cl, rows[i]? = some fr) :
    ((List.range (cl.map (frameAt rows)).length).map
        (fun j => (j, frameAt (cl.map (frameAt rows)) 0))).map
        (fun p => (cl.getD p.1 0, p.2))
      = cl.map (fun i => (i, frameAt rows i)) := by
  have h0 : frameAt (cl.map (frameAt rows)) 0 = fr := by
    cases cl with
    | nil => exact absurd rfl hne
    | cons a t =>
      simp [frameAt, List.getD_eq_getElem?_getD]
      have := frameAt_of_getElem? (hfr a (by simp))
      simpa [frameAt, List.getD_eq_getElem?_getD] using this
  rw [List.map_map, h0]
  apply List.ext_getElem?
  intro j
  by_cases hj : j < cl.length
  · have hmem : cl[j] ∈ cl := List.getElem_mem hj
    simp [hj, List.getD_eq_getElem?_getD, frameAt_of_getElem? (hfr _ hmem)]
  · have hj' : cl.length ≤ j := by omega
    simp [hj']

theorem planPairs_eq (isGlobal : Bool) (rows : List Int) (clusters : List (List Nat))
    (h : ClustersWithinFrames rows clusters) :
    planPairs isGlobal rows clusters = clusters.flatten.map (fun i => (i, frameAt rows i)) := by
  have hcl : ∀ cl ∈ clusters, ∃ fr : Int, cl ≠ [] ∧ ∀ i ∈ cl, rows[i]? = some fr := by
    intro cl hc; obtain ⟨hne, fr, hfr⟩ := h cl hc; exact ⟨fr, hne, hfr⟩
  cases isGlobal with
  | true =>
    simp only [planPairs, planCalls, if_true, List.flatMap_cons, List.flatMap_nil,
      List.append_nil, Call.frameNos, map_frameAt_range, rowsRead]
    rw [List.map_flatMap, List.map_flatten, List.flatMap_def]
    congr 1
    apply List.map_congr_left
    intro cl hc
    obtain ⟨fr, hne, hfr⟩ := hcl cl hc
    exact global_cluster_pairs hne hfr
  | false =>
    simp only [planPairs, planCalls, Bool.false_eq_true, if_false, Call.frameNos, rowsRead]
    rw [List.flatMap_map, List.map_flatten, List.flatMap_def]
    congr 1
    apply List.map_congr_left
    intro cl hc
    obtain ⟨fr, hne, hfr⟩ := hcl cl hc
    exact local_cluster_pairs hne hfr

/-- (e) plan level: if the clusters lie within frames and partition the rows of the table, then
over the whole plan — one call for everything (a 'global' parameter) or one call per cluster — the
(row, frame read) pairs are, up to order, exactly `(i, rows[i])` for every row `i` once: every
feature is fitted exactly once and against its own frame. -/
theorem plan_covers_rows_with_own_frame (isGlobal : Bool) (rows : List Int)
    (clusters : List (List Nat)) (h : ClustersWithinFrames rows clusters)
    (hpart : clusters.flatten.Perm (List.range rows.length)) :
    (planPairs isGlobal rows clusters).Perm
      ((List.range rows.length).map (fun i => (i, frameAt rows i))) := by
  rw [planPairs_eq isGlobal rows clusters h]
  exact hpart.map _

/-- the plan itself: a global parameter ⇒ one call reading one frame per cluster; otherwise one
call per cluster, each reading that cluster's first (= only) frame. -/
theorem plan_shape (rows : List Int) (clusters : List (List Nat))
    (hne : ∀ cl ∈ clusters, cl ≠ []) :
    plan true rows clusters = [clusters.map (clusterFrame rows)] ∧
    plan false rows clusters = clusters.map (fun cl => [clusterFrame rows cl]) := by
  constructor
  · simp [plan, planCalls, Call.frameNos, map_frameAt_range, framesRead]
  · simp only [plan, planCalls, Bool.false_eq_true, if_false, List.map_map]
    apply List.map_congr_left
    intro cl hc
    cases cl with
    | nil => exact absurd rfl (hne _ hc)
    | cons a t => simp [Call.frameNos, framesRead, clusterFrame, frameAt]

/-! ## non-vacuity: a 3-frame table, 5 rows, one dimer in frame 1 -/

example : ClustersWithinFrames [0, 1, 1, 1, 2] [[0], [1, 3], [2], [4]] :=
  cwfCheck_sound _ _ (by decide)

example : plan true [0, 1, 1, 1, 2] [[0], [1, 3], [2], [4]] = [[0, 1, 1, 2]] := by decide
example : plan false [0, 1, 1, 1, 2] [[0], [1, 3], [2], [4]] = [[0], [1], [1], [2]] := by decide
example : planPairs true [0, 1, 1, 1, 2] [[0], [1, 3], [2], [4]]
    = [(0, 0), (1, 1), (3, 1), (2, 1), (4, 2)] := by decide
example : planPairs false [0, 1, 1, 1, 2] [[0], [1, 3], [2], [4]]
    = [(0, 0), (1, 1), (3, 1), (2, 1), (4, 2)] := by decide
example : PerFrameClustering [0, 1, 1, 1, 2] [(0, [[0]]), (1, [[1, 3], [2]]), (2, [[4]])] := by
  intro p hp cl hcl
  simp only [List.mem_cons, List.not_mem_nil, or_false] at hp
  rcases hp with rfl | rfl | rfl <;> simp only [List.mem_cons, List.not_mem_nil, or_false] at hcl
  · subst hcl; simp
  · rcases hcl with rfl | rfl <;> simp
  · subst hcl; simp

end TrackpyV.LeastsqFrames
