import TrackpyV.Props.C18Smooth
import TrackpyV.Proofs.DriftInv
/-
C18, invariances (X46).  The harness runs metamorphic passes (length unit 2^k, renamed position
columns) and seeded changes exploited absolute thresholds / absolute frame numbers; these theorems
say what the MODEL guarantees under those changes of representation, for every table:

 (a) length unit       `drift_length_unit`, `drift_length_unit_frames`, `subtract_length_unit`
 (b) translation       `drift_translation_invariant`, `subtract_translation`
 (c) frame renumbering `drift_frame_renumber`, `…_smoothed`, `…_keysNodup/_mframes/_contig/_later`
 (d) particle relabel  `drift_particle_relabel`, `…_smoothed`        (valid tables: `KeysNodup`)
 (e) column independence `drift_column_independent`, `…_smoothed`

(a), (b), (c), (e) hold for EVERY table (no `KeysNodup`): the row maps keep the (particle, frame)
order, so the stable sort, the mask and the groups are literally the same.  (d) changes the sort
order; it is proved through the closed form `drift_def`, hence for valid tables only.
The pipeline is per column, so the length unit may differ per axis (`c : Nat → Rat`).
(b) needs column `k` to exist in every row: a row without column `k` reads as 0 (`Row.x`) and
would not be translated.
-/
namespace TrackpyV.Drift
open List

/-! ## (a) length unit -/

private theorem scale_hf (c : Nat → Rat) (r : Row) : (scaleRow c r).frame = r.frame + 0 := by
  simp [scaleRow]

/-- (a) multiplying column `j` of every position by `c j` multiplies every drift value of column
`k` by `c k`; the frame axis of the curve is unchanged.  No hypothesis on the table; `c k` may be 0
or negative (mirror image). -/
theorem drift_length_unit (c : Nat → Rat) (k : Nat) (t : List Row) :
    computeDriftCol k (t.map (scaleRow c))
      = (computeDriftCol k t).map (fun e => (e.1, c k * e.2)) := by
  rw [computeDriftCol_map (scaleRow c) 0 (fun _ => rfl) (scale_hf c) k (c k) 0 t
    (fun r _ => by rw [scaleRow_x]; ring)]
  exact map_congr_left (fun e _ => by simp)

/-- (a) the same for the smoothed drift, every window -/
theorem drift_length_unit_smoothed (c : Nat → Rat) (w k : Nat) (t : List Row) :
    driftSmoothedCol w k (t.map (scaleRow c))
      = (driftSmoothedCol w k t).map (fun e => (e.1, c k * e.2)) := by
  rw [driftSmoothedCol_map (scaleRow c) 0 (fun _ => rfl) (scale_hf c) w k (c k) 0 t
    (fun r _ => by rw [scaleRow_x]; ring)]
  exact map_congr_left (fun e _ => by simp)

/-- (a) the measured frames do not depend on the length unit -/
theorem drift_length_unit_frames (c : Nat → Rat) (t : List Row) :
    mframes (t.map (scaleRow c)) = mframes t :=
  mframes_map (scaleRow c) (fun _ => rfl) (fun _ => rfl) t

/-- (a) `subtract_drift` (own drift, `d` columns) commutes with the change of unit -/
theorem subtract_length_unit (c : Nat → Rat) (d : Nat) (t : List Row) :
    subtractOwnDrift d (t.map (scaleRow c)) = (subtractOwnDrift d t).map (scaleRow c) := by
  unfold subtractOwnDrift
  apply subtractDrift_map (scaleRow c) 0 (fun _ => rfl) (scale_hf c)
  intro r _
  apply subRow_scaleRow
  intro k
  by_cases hk : k < d
  · rw [ownDrift_getD _ _ _ hk, ownDrift_getD _ _ _ hk,
      computeDriftCol_map (scaleRow c) 0 (fun _ => rfl) (scale_hf c) k (c k) 0 t
        (fun r _ => by rw [scaleRow_x]; ring)]
    have := driftAt_reindex 0 (c k) (computeDriftCol k t) r.frame
    simpa using this
  · rw [ownDrift_getD_ge _ _ _ hk, ownDrift_getD_ge _ _ _ hk]
    simp [driftAt]

/-- (a) the same with the smoothed drift -/
theorem subtract_length_unit_smoothed (c : Nat → Rat) (w d : Nat) (t : List Row) :
    subtractSmoothedDrift w d (t.map (scaleRow c))
      = (subtractSmoothedDrift w d t).map (scaleRow c) := by
  unfold subtractSmoothedDrift
  apply subtractDrift_map (scaleRow c) 0 (fun _ => rfl) (scale_hf c)
  intro r _
  apply subRow_scaleRow
  intro k
  by_cases hk : k < d
  · rw [ownDriftSmoothed_getD _ _ _ _ hk, ownDriftSmoothed_getD _ _ _ _ hk,
      driftSmoothedCol_map (scaleRow c) 0 (fun _ => rfl) (scale_hf c) w k (c k) 0 t
        (fun r _ => by rw [scaleRow_x]; ring)]
    have := driftAt_reindex 0 (c k) (driftSmoothedCol w k t) r.frame
    simpa using this
  · rw [ownDriftSmoothed_getD_ge _ _ _ _ hk, ownDriftSmoothed_getD_ge _ _ _ _ hk]
    simp [driftAt]

/-! ## (b) translation -/

private theorem shift_hf (v : Nat → Rat) (r : Row) :
    (shiftRow (fun j _ => v j) r).frame = r.frame + 0 := by
  simp [shiftRow]

/-- (b) adding the constant vector `v` to every position changes nothing in the drift of column
`k`, provided every row has a column `k`.  (`shiftRow` is the model's row offset; here the offset
does not depend on the frame.) -/
theorem drift_translation_invariant (v : Nat → Rat) (k : Nat) (t : List Row)
    (hlen : ∀ r ∈ t, k < r.pos.length) :
    computeDriftCol k (t.map (shiftRow (fun j _ => v j))) = computeDriftCol k t := by
  rw [computeDriftCol_map (shiftRow (fun j _ => v j)) 0 (fun _ => rfl) (shift_hf v) k 1 (v k) t
    (fun r hr => by rw [shiftRow_x _ _ _ (hlen r hr)]; ring)]
  exact (map_congr_left (fun e _ => by simp)).trans (map_id _)

/-- (b) the same for the smoothed drift -/
theorem drift_translation_invariant_smoothed (v : Nat → Rat) (w k : Nat) (t : List Row)
    (hlen : ∀ r ∈ t, k < r.pos.length) :
    driftSmoothedCol w k (t.map (shiftRow (fun j _ => v j))) = driftSmoothedCol w k t := by
  rw [driftSmoothedCol_map (shiftRow (fun j _ => v j)) 0 (fun _ => rfl) (shift_hf v) w k 1 (v k) t
    (fun r hr => by rw [shiftRow_x _ _ _ (hlen r hr)]; ring)]
  exact (map_congr_left (fun e _ => by simp)).trans (map_id _)

/-- (b) `subtract_drift` commutes with the translation (every row has the `d` columns) -/
theorem subtract_translation (v : Nat → Rat) (d : Nat) (t : List Row)
    (hlen : ∀ r ∈ t, d ≤ r.pos.length) :
    subtractOwnDrift d (t.map (shiftRow (fun j _ => v j)))
      = (subtractOwnDrift d t).map (shiftRow (fun j _ => v j)) := by
  unfold subtractOwnDrift
  have hown : ownDrift d (t.map (shiftRow (fun j _ => v j))) = ownDrift d t := by
    unfold ownDrift
    apply map_congr_left
    intro k hk
    exact drift_translation_invariant v k t
      (fun r hr => Nat.lt_of_lt_of_le (mem_range.mp hk) (hlen r hr))
  rw [hown]
  exact subtractDrift_map (shiftRow (fun j _ => v j)) 0 (fun _ => rfl) (shift_hf v) _ _ t
    (fun r _ => subRow_shiftRow v _ r)

/-! ## (c) frame renumbering -/

private theorem reframe_hp (n : Int) (a b : Row) :
    (reframeRow n a).particle = (reframeRow n b).particle ↔ a.particle = b.particle := Iff.rfl

/-- (c) adding `n` to every frame number shifts the frame axis of the drift curve by `n` and
changes no value (no absolute frame number enters the computation). -/
theorem drift_frame_renumber (n : Int) (k : Nat) (t : List Row) :
    computeDriftCol k (t.map (reframeRow n))
      = (computeDriftCol k t).map (fun e => (e.1 + n, e.2)) := by
  rw [computeDriftCol_map (reframeRow n) n (fun _ => rfl) (fun _ => rfl) k 1 0 t
    (fun r _ => by show r.x k = _; ring)]
  exact map_congr_left (fun e _ => by simp)

/-- (c) the same for the smoothed drift of X19: the rolling window is positional over the
measured frames, so it does not see the renumbering either -/
theorem drift_frame_renumber_smoothed (n : Int) (w k : Nat) (t : List Row) :
    driftSmoothedCol w k (t.map (reframeRow n))
      = (driftSmoothedCol w k t).map (fun e => (e.1 + n, e.2)) := by
  rw [driftSmoothedCol_map (reframeRow n) n (fun _ => rfl) (fun _ => rfl) w k 1 0 t
    (fun r _ => by show r.x k = _; ring)]
  exact map_congr_left (fun e _ => by simp)

/-- (c) the measured frames are shifted by `n` -/
theorem drift_frame_renumber_mframes (n : Int) (t : List Row) :
    mframes (t.map (reframeRow n)) = (mframes t).map (· + n) :=
  mframes_map' (reframeRow n) n (reframe_hp n) (fun _ => rfl) t

/-- (c) validity of the table is preserved -/
theorem drift_frame_renumber_keysNodup (n : Int) (t : List Row) :
    KeysNodup (t.map (reframeRow n)) ↔ KeysNodup t :=
  keysNodup_map' (reframeRow n) n (reframe_hp n) (fun _ => rfl) t

private theorem reframe_inv (n : Int) (t : List Row) :
    (t.map (reframeRow n)).map (reframeRow (-n)) = t := by
  rw [map_map]
  refine (map_congr_left (fun r _ => ?_)).trans (map_id _)
  cases r
  simp [reframeRow]

/-- (c) the hypothesis of `redrift_zero` is preserved -/
theorem drift_frame_renumber_contig (n : Int) (t : List Row) :
    Contig (mframes (t.map (reframeRow n))) ↔ Contig (mframes t) := by
  constructor
  · intro h
    have := contig_mframes_map' (reframeRow (-n)) (-n) (reframe_hp (-n)) (fun _ => rfl) _ h
    rwa [reframe_inv] at this
  · exact contig_mframes_map' (reframeRow n) n (reframe_hp n) (fun _ => rfl) t

/-- (c) the hypothesis of `redrift_zero_of_later` ("every later frame measured") is preserved -/
theorem drift_frame_renumber_later (n : Int) (t : List Row) :
    LaterFramesMeasured (t.map (reframeRow n)) ↔ LaterFramesMeasured t := by
  constructor
  · intro h
    have := laterFramesMeasured_map' (reframeRow (-n)) (-n) (reframe_hp (-n)) (fun _ => rfl) _ h
    rwa [reframe_inv] at this
  · exact laterFramesMeasured_map' (reframeRow n) n (reframe_hp n) (fun _ => rfl) t

/-- (c) `subtract_drift` commutes with the renumbering -/
theorem subtract_frame_renumber (n : Int) (d : Nat) (t : List Row) :
    subtractOwnDrift d (t.map (reframeRow n)) = (subtractOwnDrift d t).map (reframeRow n) := by
  unfold subtractOwnDrift
  apply subtractDrift_map (reframeRow n) n (fun _ => rfl) (fun _ => rfl)
  intro r _
  apply subRow_reframeRow
  intro k
  by_cases hk : k < d
  · rw [ownDrift_getD _ _ _ hk, ownDrift_getD _ _ _ hk,
      computeDriftCol_map (reframeRow n) n (fun _ => rfl) (fun _ => rfl) k 1 0 t
        (fun r _ => by show r.x k = _; ring)]
    have := driftAt_reindex n 1 (computeDriftCol k t) r.frame
    rwa [one_mul] at this
  · rw [ownDrift_getD_ge _ _ _ hk, ownDrift_getD_ge _ _ _ hk]
    rfl

/-! ## (d) particle relabelling -/

private theorem relabel_hp (σ : Int → Int) (hσ : Function.Injective σ) (a b : Row) :
    (relabelRow σ a).particle = (relabelRow σ b).particle ↔ a.particle = b.particle :=
  ⟨fun h => hσ h, fun h => congrArg σ h⟩

private theorem relabel_hf (σ : Int → Int) (r : Row) :
    (relabelRow σ r).frame = r.frame + 0 := by
  simp [relabelRow]

/-- (d) validity is preserved by an injective renaming -/
theorem drift_particle_relabel_keysNodup (σ : Int → Int) (hσ : Function.Injective σ)
    (t : List Row) : KeysNodup (t.map (relabelRow σ)) ↔ KeysNodup t :=
  keysNodup_map' (relabelRow σ) 0 (relabel_hp σ hσ) (relabel_hf σ) t

/-- (d) renaming the particle ids injectively changes nothing (valid tables; the renaming need
not be monotone, so the internal sort order does change) -/
theorem drift_particle_relabel (σ : Int → Int) (hσ : Function.Injective σ) (k : Nat)
    (t : List Row) (h : KeysNodup t) :
    computeDriftCol k (t.map (relabelRow σ)) = computeDriftCol k t := by
  rw [computeDriftCol_map' (relabelRow σ) 0 (relabel_hp σ hσ) (relabel_hf σ) k t h (fun _ _ => rfl)]
  exact (map_congr_left (fun e _ => by simp)).trans (map_id _)

/-- (d) the measured frames do not depend on the ids (every table) -/
theorem drift_particle_relabel_mframes (σ : Int → Int) (hσ : Function.Injective σ)
    (t : List Row) : mframes (t.map (relabelRow σ)) = mframes t := by
  rw [mframes_map' (relabelRow σ) 0 (relabel_hp σ hσ) (relabel_hf σ) t]
  exact (map_congr_left (fun e _ => by simp)).trans (map_id _)

/-- (d) the same for the smoothed drift -/
theorem drift_particle_relabel_smoothed (σ : Int → Int) (hσ : Function.Injective σ) (w k : Nat)
    (t : List Row) (h : KeysNodup t) :
    driftSmoothedCol w k (t.map (relabelRow σ)) = driftSmoothedCol w k t := by
  rw [driftSmoothed_def w k _ ((drift_particle_relabel_keysNodup σ hσ t).2 h),
    driftSmoothed_def w k t h, drift_particle_relabel_mframes σ hσ t]
  congr 3
  apply map_congr_left
  intro f _
  have := meanDisp_map' (relabelRow σ) 0 (relabel_hp σ hσ) (relabel_hf σ) k t (fun _ _ => rfl) f
  simpa using this

/-! ## (e) column independence -/

/-- (e) the drift of column `k` depends only on the keys and on column `k`: any row map that keeps
particle, frame and the value of column `k` — whatever it does to the other position columns, to
their number, and to the rest of the row (`tag`) — leaves it unchanged.  Model-level counterpart of
"custom position column names / extra columns". -/
theorem drift_column_independent (g : Row → Row) (hp : ∀ r, (g r).particle = r.particle)
    (hf : ∀ r, (g r).frame = r.frame) (k : Nat) (t : List Row)
    (hx : ∀ r ∈ t, (g r).x k = r.x k) :
    computeDriftCol k (t.map g) = computeDriftCol k t := by
  rw [computeDriftCol_map g 0 hp (fun r => by rw [hf]; simp) k 1 0 t
    (fun r hr => by rw [hx r hr]; ring)]
  exact (map_congr_left (fun e _ => by simp)).trans (map_id _)

/-- (e) the same for the smoothed drift -/
theorem drift_column_independent_smoothed (g : Row → Row) (hp : ∀ r, (g r).particle = r.particle)
    (hf : ∀ r, (g r).frame = r.frame) (w k : Nat) (t : List Row)
    (hx : ∀ r ∈ t, (g r).x k = r.x k) :
    driftSmoothedCol w k (t.map g) = driftSmoothedCol w k t := by
  rw [driftSmoothedCol_map g 0 hp (fun r => by rw [hf]; simp) w k 1 0 t
    (fun r hr => by rw [hx r hr]; ring)]
  exact (map_congr_left (fun e _ => by simp)).trans (map_id _)

/-! ## (f) non-vacuity: particle 0 in frames 0,1,2,4,5 (gap at 3), particle 1 enters at frame 1 -/

def exI : List Row :=
  [ ⟨0, 4, [7, 7], 5⟩, ⟨1, 1, [10, 10], 2⟩, ⟨0, 0, [0, 0], 0⟩, ⟨0, 2, [3, 3], 3⟩,
    ⟨1, 2, [12, 9], 4⟩, ⟨0, 1, [1, 2], 1⟩, ⟨0, 5, [8, 9], 6⟩ ]

/-- unit change: x in quarter units, y mirrored -/
def exUnit : Nat → Rat := fun j => if j = 0 then 4 else -1
/-- a non-monotone injective renaming on the ids present (0 ↦ 7, 1 ↦ -3) -/
def exSigma : Int → Int := fun p => 7 - 10 * p
/-- scrambles column 1 and the tag, appends a column, keeps column 0 -/
def exScramble (r : Row) : Row :=
  { r with pos := [r.x 0, 100 - r.x 1 * r.x 1, 42], tag := r.tag + 1000 }

example : keysNodupB exI = true := by decide
example : mframes exI = [1, 2, 5] := by decide
example : contigB (mframes exI) = false := by decide
example : computeDriftCol 0 exI = [(1, 1), (2, 3), (5, 4)] := by decide +kernel
example : computeDriftCol 1 exI = [(1, 2), (2, 2), (5, 4)] := by decide +kernel
-- (a)
example : computeDriftCol 0 (exI.map (scaleRow exUnit)) = [(1, 4), (2, 12), (5, 16)] := by
  decide +kernel
example : computeDriftCol 1 (exI.map (scaleRow exUnit)) = [(1, -2), (2, -2), (5, -4)] := by
  decide +kernel
example : subtractOwnDrift 2 (exI.map (scaleRow exUnit))
    = (subtractOwnDrift 2 exI).map (scaleRow exUnit) := by decide +kernel
-- (b)
example : exI.all (fun r => decide (2 ≤ r.pos.length)) = true := by decide
example : computeDriftCol 0 (exI.map (shiftRow (fun j _ => if j = 0 then 1000 else -1/3)))
    = [(1, 1), (2, 3), (5, 4)] := by decide +kernel
/-- (b) the column hypothesis is needed: a row lacking column 1 reads as 0 and is not moved -/
example : computeDriftCol 1 ([⟨0, 0, [0, 5], 0⟩, ⟨0, 1, [1], 1⟩].map (shiftRow (fun _ _ => 10)))
      = [(1, -15)]
    ∧ computeDriftCol 1 [⟨0, 0, [0, 5], 0⟩, ⟨0, 1, [1], 1⟩] = [(1, -5)] := by decide +kernel
-- (c)
example : computeDriftCol 0 (exI.map (reframeRow (-1000))) = [(-999, 1), (-998, 3), (-995, 4)] := by
  decide +kernel
example : driftSmoothedCol 2 0 exI = [(1, 1), (2, 5/2), (5, 4)] := by decide +kernel
example : driftSmoothedCol 2 0 (exI.map (reframeRow 1000000))
    = [(1000001, 1), (1000002, 5/2), (1000005, 4)] := by decide +kernel
-- (d)
example : Function.Injective exSigma := by intro a b h; simp only [exSigma] at h; omega
example : computeDriftCol 0 (exI.map (relabelRow exSigma)) = [(1, 1), (2, 3), (5, 4)] := by
  decide +kernel
-- (e)
example : computeDriftCol 0 (exI.map exScramble) = [(1, 1), (2, 3), (5, 4)] := by decide +kernel
example : ∀ r ∈ exI, (exScramble r).x 0 = r.x 0 := by decide +kernel

end TrackpyV.Drift
