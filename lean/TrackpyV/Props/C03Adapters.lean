import TrackpyV.Props.C03Scale
import TrackpyV.Props.C01Table
/-!
# C03 — `link` and `link_df_iter` are thin adapters over `link_iter`

The entry-point clause of C03 ("link, link_df_iter and link_iter give the same partition") rests on
the table adapters doing nothing but build levels and paste labels back.  `Model/LinkTable`
(built for C01) models exactly that, **parametric in the linker** `labelsOf` — so the statements
below hold for whatever `link_iter` returns, in particular for every strategy:

* `link_adapter`     : the table `link` returns is, level after level, the rows of that frame paired
                       positionally with the labels the linker returned for the level
                       `coords_from_df` built from them (restatement of `linkTable_labels_match`);
* `link_df_iter_adapter` : each table `link_df_iter` yields carries positionally the labels the
                       linker returned for the level built from that table
                       (restatement of `linkDfIter_labels`).

Hence two features get the same label from `link` / `link_df_iter` iff `link_iter` gives the same
label to the corresponding positions of the corresponding levels.  (Invariance under a permutation
of the rows is NOT a consequence: it changes the order of features inside a level, and with tied
optima the code may then choose another optimum — decided by the differential comparison, under
the tie rule.)
-/
namespace TrackpyV.LinkTable

theorem link_adapter (labelsOf : List (Int × List Pos) → List (List Nat)) (σ : List Nat)
    (rows : List Row) (H : SortPerm σ rows) (levels : List (Int × List Pos))
    (hl : coordsFromDf (sortedTable σ rows) = some levels)
    (hL : (labelsOf levels).map List.length = levels.map (fun lv => lv.2.length)) :
    ∃ lo hi, levels = levelsSpec lo hi (sortedTable σ rows) ∧
      linkTable labelsOf σ rows =
        some ((List.zipWith (List.zipWith ORow.mk)
          (frameBlocks lo (hi + 1 - lo).toNat (sortedTable σ rows)) (labelsOf levels)).flatten) :=
  linkTable_labels_match labelsOf σ rows H levels hl hL

theorem link_df_iter_adapter (labelsOf : List (Option Rat × List Pos) → List (List Nat))
    (tables : List (List Row)) (out : List (List (Row × Nat)))
    (h : linkDfIter labelsOf tables = some out) :
    out.map (List.map Prod.fst) = tables.take (labelsOf (coordsFromDfIter tables)).length ∧
    out.map (List.map Prod.snd) = (labelsOf (coordsFromDfIter tables)).take tables.length :=
  ⟨linkDfIter_rows labelsOf tables out h, linkDfIter_labels labelsOf tables out h⟩

end TrackpyV.LinkTable
