import TrackpyV.Proofs.Refine
/-!
# C07 — centre-of-mass refinement is engine-independent and self-consistent

Theorems about `Model/Refine.lean` (one model of `_refine` and of the four numba kernels of
`trackpy/refine/center_of_mass.py`, mask geometry of `trackpy/masks.py`), exact arithmetic over
`Rat`, for **all** integer images `img raw : List Int → Nat`, all dimensions (`radius.length`), all
per-axis radii, shapes, thresholds, `max_iterations` and start pixels.

* `refine_mask_inside`, `mask_pixels_inside_image`, `refine_reported_mask_inside` — "that mask lies
  wholly inside the image": the clip re-establishes `r_i ≤ c_i ≤ shape_i−1−r_i` after every move, so
  every evaluated mask (in particular the reported one) only touches pixels of the image; those
  indices are valid indices of the flat array the driver reads (`flatIndex_isSome`).
* `refine_position_is_centroid` — "the reported position is the brightness centroid of the mask
  neighbourhood …": `pos_i = Σ px·(image coordinate_i) / Σ px` over the reported mask.
* `refine_measures_same_mask` — "… the reported mass, size, signal and raw_mass were measured on":
  all of them (and the eccentricity sums) are sums / the maximum over exactly the mask whose
  centre is reported, the one `refine_position_is_centroid` speaks about.
* `refine_within_image` — the position lies in `[origin, origin + 2r] ⊆ [0, shape−1]` (used by C08).
* `refine_moves_bounded`, `inEllipse_2d_iff`, `weights_2d` — the mask centre stays within
  `max_iterations − 1` pixels of the start; the mask test and the size weights mean what
  masks.py computes.
* `refine_iter_monotone`, `refine_maxiter_stable`, `refine_converged_offcentre` — one more allowed
  iteration either changes nothing (the loop had broken) or performs exactly one more
  move-and-evaluate; a converged result is the result for every larger `max_iterations` and lies
  within `shift_thresh` of its mask centre on every axis.

Engine independence ("same numbers from the python engine and the numba kernels") is NOT a Lean
theorem about five pieces of code: it follows from each implementation corresponding to this one
model, which the harness establishes on every run (function mode, every column).
-/
namespace TrackpyV.Refine
open List

/-! ## specification vocabulary -/

/-- brightness centroid along axis `i`, in IMAGE coordinates, of the mask `mask` whose box has its
lower corner at `org`:  `Σ px·(org_i + off_i) / Σ px`. -/
def centroid (img : Image) (mask : List (List Nat)) (org : List Int) (i : Nat) : Rat :=
  wsum img mask org (fun off => ((org.getD i 0 : Int) : Rat) + ((off.getD i 0 : Nat) : Rat))
    / wsum img mask org (fun _ => 1)

/-- `p` is a pixel of the image of shape `shape` -/
def InImage (shape : List Nat) (p : List Int) : Prop :=
  p.length = shape.length ∧ ∀ i, i < shape.length → 0 ≤ p.getD i 0 ∧ p.getD i 0 < (shape.getD i 0 : Nat)

/-! ## the mask lies wholly inside the image -/

/-- Clause "that mask lies wholly inside the image", invariant form: from a start pixel whose mask
box is inside the image, every mask centre the loop evaluates — in particular the last one, the
one reported — keeps its mask box inside the image (for ANY mask list, threshold and fuel). -/
theorem refine_mask_inside (thr : Rat) (img : Image) (mask : List (List Nat))
    (radius shape : List Nat) (k : Nat) (start : List Int) (h : Inside radius shape start) :
    (∀ c ∈ trace thr img mask radius shape k start, Inside radius shape c) ∧
    Inside radius shape (lastCentre thr img mask radius shape k start) :=
  ⟨trace_inside thr img mask radius shape k start h,
   trace_inside thr img mask radius shape k start h _ (lastCentre_mem_trace ..)⟩

/-- `Inside` means what it should: every pixel the mask (any sub-list of the `(2r+1)` box, e.g. the
ellipse `maskOffsets radius`) reads is a pixel of the image. -/
theorem mask_pixels_inside_image (radius shape : List Nat) (c : List Int)
    (h : Inside radius shape c) (off : List Nat) (hoff : off ∈ boxOffsets radius) :
    InImage shape (addOff (origin radius c) off) := by
  obtain ⟨_, hs, hb⟩ := h
  obtain ⟨_, ho⟩ := mem_boxOffsets hoff
  refine ⟨by rw [addOff_length, origin_length, hs], ?_⟩
  intro i hi
  rw [hs] at hi
  rw [addOff_getD _ _ _ (by rw [origin_length]; exact hi), origin_getD _ _ _ hi]
  have h1 := hb i hi
  have h2 := ho i hi
  constructor <;> omega

/-- an in-image index is a valid index of the flat row-major array (the driver's `ofArray` never
falls back to its default there) -/
theorem flatIndex_isSome (shape : List Nat) (p : List Int) (h : InImage shape p) :
    (flatIndex shape p).isSome = true := by
  induction shape generalizing p with
  | nil =>
    obtain ⟨hl, _⟩ := h
    have : p = [] := by simpa using hl
    subst this; rfl
  | cons s ss ih =>
    obtain ⟨hl, hb⟩ := h
    cases p with
    | nil => simp at hl
    | cons a as =>
      have h0 := hb 0 (by simp)
      simp only [getD_cons_zero] at h0
      have hrest : InImage ss as := by
        refine ⟨by simpa using hl, ?_⟩
        intro i hi
        have := hb (i + 1) (by simpa using hi)
        simpa using this
      have := ih as hrest
      simp only [flatIndex, h0, and_self, if_true, Option.isSome_map, this]

/-- Clause "that mask lies wholly inside the image" for what `refine_com` reports: every pixel of
the mask at the reported centre is a pixel of the image. -/
theorem refine_reported_mask_inside (thr : Rat) (img raw : Image) (radius shape : List Nat)
    (maxIter : Nat) (start : List Int) (h : Inside radius shape start) :
    ∀ off ∈ maskOffsets radius,
      InImage shape
        (addOff (origin radius (refineOne thr img raw radius shape maxIter start).centre) off) := by
  intro off hoff
  exact mask_pixels_inside_image radius shape _
    (refine_mask_inside thr img _ radius shape _ start h).2 off (maskOffsets_subset hoff)

/-! ## the reported position is the centroid of the reported mask -/

theorem wsum_const (img : Image) (mask : List (List Nat)) (org : List Int) (a : Rat) :
    wsum img mask org (fun _ => a) = a * massAt img mask org := by
  have := wsum_const_mul img mask org a (fun _ => 1)
  simpa [massAt] using this

/-- the code's `cm_n − radius + coord` is the centroid in image coordinates of the mask at `c` -/
theorem posAt_eq_centroid (img : Image) (mask : List (List Nat)) (radius : List Nat) (c : List Int)
    (hm : massAt img mask (origin radius c) ≠ 0) (i : Nat) (hi : i < radius.length) :
    (posAt img mask radius c).getD i 0 = centroid img mask (origin radius c) i := by
  rw [posAt_getD _ _ _ _ _ hi]
  unfold centroid cmN
  rw [if_neg hm, wsum_add, wsum_const, origin_getD _ _ _ hi]
  have hm' : wsum img mask (origin radius c) (fun _ => 1) ≠ 0 := hm
  unfold momAt massAt
  field_simp
  push_cast
  ring

/-- Clause "The reported position is the brightness centroid of the mask neighbourhood the
reported mass … were measured on": with `R` the reported record, `R.pos_i` is
`Σ px·(image coordinate_i) / Σ px` over the mask centred at `R.centre` — the same mask
`refine_measures_same_mask` speaks about.  Hypothesis: non-zero brightness. -/
theorem refine_position_is_centroid (thr : Rat) (img raw : Image) (radius shape : List Nat)
    (maxIter : Nat) (start : List Int)
    (hm : (refineOne thr img raw radius shape maxIter start).mass ≠ 0)
    (i : Nat) (hi : i < radius.length) :
    (refineOne thr img raw radius shape maxIter start).pos.getD i 0 =
      centroid img (maskOffsets radius)
        (origin radius (refineOne thr img raw radius shape maxIter start).centre) i :=
  posAt_eq_centroid img _ radius _ hm i hi

/-! ## every reported number is measured on that same mask -/

/-- `maskMax` is the largest masked pixel (0 for the box pixels outside the ellipse) -/
theorem maskMax_spec (img : Image) (mask : List (List Nat)) (org : List Int) :
    (∀ off ∈ mask, img (addOff org off) ≤ maskMax img mask org) ∧
    (maskMax img mask org = 0 ∨ ∃ off ∈ mask, img (addOff org off) = maskMax img mask org) := by
  unfold maskMax
  constructor
  · intro off hoff
    exact foldl_max_ge_mem _ 0 _ (mem_map.mpr ⟨off, hoff, rfl⟩)
  · rcases foldl_max_mem (mask.map fun off => img (addOff org off)) 0 with h | h
    · left; exact h
    · right
      obtain ⟨off, hoff, he⟩ := mem_map.mp h
      exact ⟨off, hoff, he⟩

/-- Clause "… the mask neighbourhood the reported mass, size, signal and raw_mass were measured
on": with `R` the reported record, `M` the elliptical mask and `org = R.centre − radius`, the
centre is the last evaluated one, and mass, size² (isotropic `Σ r²·px / mass`, anisotropic per axis
`ndim·Σ x_i²·px / mass`), the eccentricity sums and centre pixel (2-D), the signal (largest masked
pixel) and raw_mass (same mask, raw image) are all taken over `M` placed at that one `org`.
A model that characterised anywhere else (e.g. at the moved coordinate) would not satisfy this
together with `refine_position_is_centroid`. -/
theorem refine_measures_same_mask (thr : Rat) (img raw : Image) (radius shape : List Nat)
    (maxIter : Nat) (start : List Int) :
    let R := refineOne thr img raw radius shape maxIter start
    let M := maskOffsets radius
    let org := origin radius R.centre
    R.centre = lastCentre thr img M radius shape (fuelOf maxIter) start ∧
    R.mass = wsum img M org (fun _ => 1) ∧
    R.rawMass = wsum raw M org (fun _ => 1) ∧
    (∀ off ∈ M, img (addOff org off) ≤ R.signal) ∧
    (R.signal = 0 ∨ ∃ off ∈ M, img (addOff org off) = R.signal) ∧
    R.rg2 = (if isotropic radius then [wsum img M org (wR2 radius) / R.mass]
             else (List.range radius.length).map (fun i => wsum img M org (wX2 radius i) / R.mass)) ∧
    R.ecc = (if radius.length = 2 then
               some (wsum img M org (wCos radius), wsum img M org (wSin radius),
                     img (addOff org radius))
             else none) := by
  intro R M org
  exact ⟨rfl, rfl, rfl, (maskMax_spec img M org).1, (maskMax_spec img M org).2, rfl, rfl⟩

/-- the weights mean what their names say: `wR2` is the squared pixel distance from the mask
centre, `wX2 i` is `ndim ·` the squared distance along axis `i` (2-D statement) -/
theorem weights_2d (ry rx oy ox : Nat) :
    wR2 [ry, rx] [oy, ox] = (((oy : Int) - ry) ^ 2 + ((ox : Int) - rx) ^ 2 : Int) ∧
    wX2 [ry, rx] 0 [oy, ox] = ((2 * ((oy : Int) - ry) ^ 2 : Int)) ∧
    wX2 [ry, rx] 1 [oy, ox] = ((2 * ((ox : Int) - rx) ^ 2 : Int)) := by
  refine ⟨?_, ?_, ?_⟩ <;> simp [wR2, wX2, rel, List.range_succ] <;> ring

/-! ## the reported position lies inside the mask box, hence inside the image -/

/-- `refine_within_image` (used by C08): for non-zero brightness the reported position lies in
`[origin, origin + 2r]` on every axis (convex combination of mask pixels with non-negative
weights), and when the start mask is inside the image that box is inside `[0, shape−1]`. -/
theorem posAt_in_box (img : Image) (mask : List (List Nat)) (radius : List Nat) (c : List Int)
    (hmask : ∀ off ∈ mask, off ∈ boxOffsets radius)
    (hm : 0 < massAt img mask (origin radius c)) (i : Nat) (hi : i < radius.length) :
    (((origin radius c).getD i 0 : Int) : Rat) ≤ (posAt img mask radius c).getD i 0 ∧
    (posAt img mask radius c).getD i 0 ≤
      (((origin radius c).getD i 0 : Int) : Rat) + 2 * ((radius.getD i 0 : Nat) : Rat) := by
  rw [posAt_getD _ _ _ _ _ hi, origin_getD _ _ _ hi]
  unfold cmN
  rw [if_neg (ne_of_gt hm)]
  have h0 : 0 ≤ momAt img mask (origin radius c) i :=
    wsum_nonneg _ _ _ _ (fun _ _ => Nat.cast_nonneg _)
  have h1 : momAt img mask (origin radius c) i ≤
      (2 * ((radius.getD i 0 : Nat) : Rat)) * massAt img mask (origin radius c) := by
    apply wsum_le_mul_mass
    intro off hoff
    have := (mem_boxOffsets (hmask off hoff)).2 i hi
    exact_mod_cast this
  have hq0 : 0 ≤ momAt img mask (origin radius c) i / massAt img mask (origin radius c) :=
    div_nonneg h0 (le_of_lt hm)
  have hq1 : momAt img mask (origin radius c) i / massAt img mask (origin radius c) ≤
      2 * ((radius.getD i 0 : Nat) : Rat) := by
    rw [div_le_iff₀ hm]; exact h1
  push_cast
  constructor <;> linarith

theorem refine_within_image (thr : Rat) (img raw : Image) (radius shape : List Nat)
    (maxIter : Nat) (start : List Int) (h : Inside radius shape start)
    (hm : 0 < (refineOne thr img raw radius shape maxIter start).mass)
    (i : Nat) (hi : i < radius.length) :
    let R := refineOne thr img raw radius shape maxIter start
    let o : Int := (origin radius R.centre).getD i 0
    (o : Rat) ≤ R.pos.getD i 0 ∧ R.pos.getD i 0 ≤ (o : Rat) + 2 * ((radius.getD i 0 : Nat) : Rat) ∧
    0 ≤ o ∧ o + 2 * (radius.getD i 0 : Nat) ≤ (shape.getD i 0 : Nat) - 1 ∧
    0 ≤ R.pos.getD i 0 ∧ R.pos.getD i 0 ≤ ((shape.getD i 0 : Nat) : Rat) - 1 := by
  intro R o
  have hin : Inside radius shape R.centre := (refine_mask_inside thr img _ radius shape _ start h).2
  have hb := posAt_in_box img (maskOffsets radius) radius R.centre
    (fun off ho => maskOffsets_subset ho) hm i hi
  have hc := hin.2.2 i hi
  have ho : o = R.centre.getD i 0 - (radius.getD i 0 : Nat) := origin_getD _ _ _ hi
  have h0 : 0 ≤ o := by omega
  have h1 : o + 2 * (radius.getD i 0 : Nat) ≤ (shape.getD i 0 : Nat) - 1 := by omega
  have h0' : (0 : Rat) ≤ (o : Rat) := by exact_mod_cast h0
  have h1' : (o : Rat) + 2 * ((radius.getD i 0 : Nat) : Rat) ≤ ((shape.getD i 0 : Nat) : Rat) - 1 := by
    exact_mod_cast h1
  refine ⟨hb.1, hb.2, h0, h1, ?_, ?_⟩
  · exact le_trans h0' hb.1
  · exact le_trans hb.2 h1'

/-! ## max_iterations -/

theorem fuelOf_succ (n : Nat) (hn : 1 ≤ n) : fuelOf (n + 1) = fuelOf n + 1 := by
  unfold fuelOf; omega

/-- `refine_iter_monotone`: allowing one more iteration either changes nothing (the loop had
broken at the reported centre) or performs exactly one more move-and-clip and reports the
measurements at the moved centre. -/
theorem refine_iter_monotone (thr : Rat) (img raw : Image) (radius shape : List Nat)
    (n : Nat) (hn : 1 ≤ n) (start : List Int) :
    let R := refineOne thr img raw radius shape n start
    let oc := offCentre img (maskOffsets radius) radius R.centre
    refineOne thr img raw radius shape (n + 1) start =
      if converged thr oc then R
      else measure img raw (maskOffsets radius) radius (next thr radius shape oc R.centre) := by
  intro R oc
  unfold refineOne
  rw [fuelOf_succ n hn, lastCentre_succ]
  split
  · next h => exact (if_pos (show converged thr oc = true from h)).symm
  · next h => exact (if_neg (show ¬ converged thr oc = true from h)).symm

/-- a result that passed the break test is the result for every larger `max_iterations` -/
theorem refine_maxiter_stable (thr : Rat) (img raw : Image) (radius shape : List Nat)
    (n : Nat) (hn : 1 ≤ n) (start : List Int)
    (h : converged thr (offCentre img (maskOffsets radius) radius
          (refineOne thr img raw radius shape n start).centre) = true) (j : Nat) :
    refineOne thr img raw radius shape (n + j) start = refineOne thr img raw radius shape n start := by
  unfold refineOne
  have : fuelOf (n + j) = fuelOf n + j := by unfold fuelOf; omega
  rw [this, lastCentre_stable _ _ _ _ _ _ _ h]

/-- the break test is `|off_i| < shift_thresh` on every axis (strict) -/
theorem converged_iff (thr : Rat) (oc : List Rat) :
    converged thr oc = true ↔ ∀ o ∈ oc, |o| < thr := by
  simp [converged, abs_lt]

/-- a converged result lies within `shift_thresh` of its (integer) mask centre on every axis -/
theorem refine_converged_offcentre (thr : Rat) (img raw : Image) (radius shape : List Nat)
    (maxIter : Nat) (start : List Int)
    (h : converged thr (offCentre img (maskOffsets radius) radius
          (refineOne thr img raw radius shape maxIter start).centre) = true)
    (i : Nat) (hi : i < radius.length) :
    let R := refineOne thr img raw radius shape maxIter start
    |R.pos.getD i 0 - ((R.centre.getD i 0 : Int) : Rat)| < thr := by
  intro R
  have hmem : (offCentre img (maskOffsets radius) radius R.centre).getD i 0 ∈
      offCentre img (maskOffsets radius) radius R.centre := by
    have hl : i < (offCentre img (maskOffsets radius) radius R.centre).length := by
      simp [offCentre, hi]
    exact getD_mem _ _ _ hl
  have := (converged_iff thr _).mp h _ hmem
  rw [offCentre_getD _ _ _ _ _ hi] at this
  have hp : R.pos.getD i 0 = cmN img (maskOffsets radius) radius (origin radius R.centre) i
      - ((radius.getD i 0 : Nat) : Rat) + ((R.centre.getD i 0 : Int) : Rat) :=
    posAt_getD _ _ _ _ _ hi
  rw [hp]
  simpa using this

/-- the reported mask centre is within `max_iterations − 1` pixels of the start on every axis
(each iteration moves by at most one pixel per axis; used for C09's padding hypothesis) -/
theorem refine_moves_bounded (thr : Rat) (img raw : Image) (radius shape : List Nat)
    (maxIter : Nat) (start : List Int) (h : Inside radius shape start)
    (i : Nat) (hi : i < radius.length) :
    let R := refineOne thr img raw radius shape maxIter start
    start.getD i 0 - (fuelOf maxIter : Nat) ≤ R.centre.getD i 0 ∧
    R.centre.getD i 0 ≤ start.getD i 0 + (fuelOf maxIter : Nat) :=
  lastCentre_near thr img _ radius shape _ start h i hi

/-! ## the mask is the ellipse, in cross-multiplied integer form (2-D) -/

/-- `binary_mask`'s float test `(y/ry)² + (x/rx)² ≤ 1` as the model has it (exact rationals) is the
integer inequality `dy²·rx² + dx²·ry² ≤ ry²·rx²` (`d = array index − radius`). -/
theorem inEllipse_2d_iff (ry rx oy ox : Nat) (hy : 0 < ry) (hx : 0 < rx) :
    inEllipse [ry, rx] [oy, ox] = true ↔
      rel ry oy * rel ry oy * ((rx : Int) * rx) + rel rx ox * rel rx ox * ((ry : Int) * ry)
        ≤ (ry : Int) * ry * ((rx : Int) * rx) := by
  have hy' : (0 : Rat) < (ry : Rat) := by exact_mod_cast hy
  have hx' : (0 : Rat) < (rx : Rat) := by exact_mod_cast hx
  have he : ellipseSum [ry, rx] [oy, ox] =
      ((rel ry oy : Int) : Rat) / (ry : Rat) * (((rel ry oy : Int) : Rat) / (ry : Rat)) +
        (((rel rx ox : Int) : Rat) / (rx : Rat) * (((rel rx ox : Int) : Rat) / (rx : Rat)) + 0) := rfl
  unfold inEllipse
  rw [decide_eq_true_eq, he, ellipse_cross _ _ _ _ hy' hx']
  constructor
  · intro h; exact_mod_cast h
  · intro h; exact_mod_cast h

/-! ## non-vacuity: a 5×5 image, radius 1, the mask moves once and converges -/

/-- one bright pixel at (2,3), a dim one at (2,2) -/
def exImg : Image := fun p => if p = [2, 3] then 9 else if p = [2, 2] then 1 else 0
def exRaw : Image := fun p => if p = [2, 3] then 7 else 2

example : Inside [1, 1] [5, 5] [2, 2] := (insideB_iff _ _ _).mp (by decide)

/-- start (2,2): off-centre (0, 9/10) > 3/5, move to (2,3), there off-centre (0, -1/10): break. -/
example : trace (3/5) exImg (maskOffsets [1, 1]) [1, 1] [5, 5] 9 [2, 2] = [[2, 2], [2, 3]] := by
  decide +kernel

example : (refineOne (3/5) exImg exRaw [1, 1] [5, 5] 10 [2, 2]).centre = [2, 3] := by decide +kernel
example : (refineOne (3/5) exImg exRaw [1, 1] [5, 5] 10 [2, 2]).pos = [2, 29/10] := by decide +kernel
example : (refineOne (3/5) exImg exRaw [1, 1] [5, 5] 10 [2, 2]).mass = 10 := by decide +kernel
example : (refineOne (3/5) exImg exRaw [1, 1] [5, 5] 10 [2, 2]).rawMass = 15 := by decide +kernel
example : (refineOne (3/5) exImg exRaw [1, 1] [5, 5] 10 [2, 2]).signal = 9 := by decide +kernel
example : (refineOne (3/5) exImg exRaw [1, 1] [5, 5] 10 [2, 2]).rg2 = [1/10] := by decide +kernel
/-- with a single allowed iteration the values of the START mask are reported -/
example : (refineOne (3/5) exImg exRaw [1, 1] [5, 5] 1 [2, 2]).pos = [2, 29/10] ∧
          (refineOne (3/5) exImg exRaw [1, 1] [5, 5] 1 [2, 2]).centre = [2, 2] := by decide +kernel
/-- the centre pixel always belongs to the mask; radius-1 mask in 2-D is the 5-pixel plus -/
example : maskOffsets [1, 1] = [[0, 1], [1, 0], [1, 1], [1, 2], [2, 1]] := by decide +kernel

end TrackpyV.Refine
