import TrackpyV.Props.C12Algo
import TrackpyV.Proofs.AdaptivePlain
/-!
# C12 — adaptive search = plain linking when no group is oversize, at STEP level

First clause of the property: "With adaptive_stop set, linking gives exactly the result of plain
linking whenever no group of competing particles exceeds the adaptive size limit."

`Props/C12.plan_small` + `finalSrcs_k0` say this for ONE group.  Here the two step relations are
compared as wholes.  For every adaptive configuration `a`, every linker configuration `cfg` without
'drop', with the optimality part switched on and without the numba cap, every state `st` and every
new level `(t, dsts)` within the neighbour cap: IF every sub-net of the step fits the adaptive
limit (`shortcut n ∨ n.srcs.length ≤ a.maxSizeA` — the very test of `plan`) THEN

* `adaptive_iff_plain` : the adaptive monitor `stepCheckA a cfg` accepts labels (verdict
  `.ok st' r f false`) IF AND ONLY IF the plain monitor `stepCheck` with
  `maxSize := a.maxSizeA` accepts the same labels (verdict `.ok st' c r b false`), with the same
  successor state `st'` — the set of accepted outputs is the same, so (by C02 `step_optimal`) both
  describe the global optimum with `search_range²` as the cost of not linking;
* `adaptive_nothing_reduced` : in that case the adaptive monitor reports `reduced = 0` and one final
  group per sub-net;
* `adaptive_plain_next` : the common successor state is `nextState cfg st t dsts labels`;
* `fits_iff_not_oversize` : the hypothesis is exactly "the plain monitor with
  `maxSize := a.maxSizeA` sees no oversize sub-net" (`oversizeB = false`);
* `raise_rejected_when_fits` : both monitors reject a SubnetOversizeException on such a step;
* `adaptive_iff_plain_movie` : the same equivalence for whole labelled movies (`AcceptsFromA` iff
  C01/C02's `AcceptsFrom` with the adaptive limit as size limit) when no sub-net of any step along
  the movie is oversize (`FitsAlong`).

The per-group bridge is `Proofs/AdaptivePlain.finalOk_final0`: `finalSrcs` of the unreduced group
is the plain monitor's `gSrcs` entry (`candsOfRow = realOfRow ++ [(none, B)]`) with the sources in
reverse order — the optimum's cost does not depend on the order (`Assign.solve_order_indep`) — and
`chosenA` at `k = 0` reads back the same candidate as `asgOf` unless the link goes to a
non-candidate, which both reject.

The hypothesis `cfg.drop = false` cannot be dropped: `adaptive_plain_drop_witness` (the adaptive
monitor does not model 'drop'; the harness never combines the two).
-/
namespace TrackpyV.Adaptive
open TrackpyV.Assign TrackpyV.Linker

/-- **adaptive = plain, step level** (form with the size limit as a hypothesis on `cfg`;
`stepCheckA` never reads `cfg.maxSize`) -/
theorem adaptive_iff_plain_of_maxSize (a : ACfg) (cfg : Cfg) (hms : cfg.maxSize = a.maxSizeA)
    (hdrop : cfg.drop = false) (hno : cfg.noOpt = false) (hnc : cfg.numbaCap = false)
    (st : State) (t : Int) (dsts : List Pos) (hcap : cappedB cfg st t dsts = false)
    (hfit : ∀ n ∈ stepNets cfg st t dsts, shortcut n = true ∨ n.srcs.length ≤ a.maxSizeA)
    (labels : List Nat) (st' : State) :
    (∃ r f, stepCheckA a cfg st t dsts (some labels) = .ok st' r f false) ↔
    (∃ c r b, stepCheck cfg st t dsts (some labels) = .ok st' c r b false) := by
  have hov : oversizeB cfg (stepGroups cfg st t dsts) = false :=
    (oversizeB_false_iff a cfg hms st t dsts).mpr hfit
  rw [stepCheckA_accepts_iff a cfg hnc st t dsts hcap hfit labels st',
    stepCheck_accepts_iff cfg hno st t dsts hcap hov labels st', optWhy_none_iff]
  constructor
  · rintro ⟨h1, h2, h3⟩
    exact ⟨h1, h2, fun g hg => by rw [← finalOk_final0 a cfg hdrop st t dsts labels g hg]; exact h3 g hg⟩
  · rintro ⟨h1, h2, h3⟩
    exact ⟨h1, h2, fun g hg => by rw [finalOk_final0 a cfg hdrop st t dsts labels g hg]; exact h3 g hg⟩

/-- **Adaptive search gives exactly the result of plain linking when no group is oversize — step
level.**  The adaptive monitor accepts the labels of a step iff the plain monitor whose size limit
is the adaptive limit accepts them, and both move to the same successor state. -/
theorem adaptive_iff_plain (a : ACfg) (cfg : Cfg)
    (hdrop : cfg.drop = false) (hno : cfg.noOpt = false) (hnc : cfg.numbaCap = false)
    (st : State) (t : Int) (dsts : List Pos) (hcap : cappedB cfg st t dsts = false)
    (hfit : ∀ n ∈ stepNets cfg st t dsts, shortcut n = true ∨ n.srcs.length ≤ a.maxSizeA)
    (labels : List Nat) (st' : State) :
    (∃ r f, stepCheckA a cfg st t dsts (some labels) = .ok st' r f false) ↔
    (∃ c r b, stepCheck { cfg with maxSize := a.maxSizeA } st t dsts (some labels) =
      .ok st' c r b false) :=
  adaptive_iff_plain_of_maxSize a { cfg with maxSize := a.maxSizeA } rfl hdrop hno hnc st t dsts
    hcap hfit labels st'

/-- … and then nothing was reduced: the adaptive monitor counts no reduced group and exactly one
final group per sub-net -/
theorem adaptive_nothing_reduced (a : ACfg) (cfg : Cfg) (st : State) (t : Int) (dsts : List Pos)
    (hfit : ∀ n ∈ stepNets cfg st t dsts, shortcut n = true ∨ n.srcs.length ≤ a.maxSizeA)
    (labels : List Nat) (st' : State) (r f : Nat)
    (h : stepCheckA a cfg st t dsts (some labels) = .ok st' r f false) :
    r = 0 ∧ f = (stepNets cfg st t dsts).length :=
  stepCheckA_reduced_zero a cfg st t dsts hfit labels st' r f h

/-- … and the common successor state is the one the labels induce -/
theorem adaptive_plain_next (a : ACfg) (cfg : Cfg)
    (hdrop : cfg.drop = false) (hno : cfg.noOpt = false) (hnc : cfg.numbaCap = false)
    (st : State) (t : Int) (dsts : List Pos) (hcap : cappedB cfg st t dsts = false)
    (hfit : ∀ n ∈ stepNets cfg st t dsts, shortcut n = true ∨ n.srcs.length ≤ a.maxSizeA)
    (labels : List Nat) :
    (∃ r f, stepCheckA a cfg st t dsts (some labels) =
        .ok (nextState cfg st t dsts labels) r f false) ↔
    (∃ c r b, stepCheck { cfg with maxSize := a.maxSizeA } st t dsts (some labels) =
        .ok (nextState cfg st t dsts labels) c r b false) :=
  adaptive_iff_plain a cfg hdrop hno hnc st t dsts hcap hfit labels _

/-- the hypothesis "every sub-net fits the adaptive limit" is exactly "plain linking with that
size limit sees no oversize sub-net" -/
theorem fits_iff_not_oversize (a : ACfg) (cfg : Cfg) (st : State) (t : Int) (dsts : List Pos) :
    (∀ n ∈ stepNets cfg st t dsts, shortcut n = true ∨ n.srcs.length ≤ a.maxSizeA) ↔
    oversizeB { cfg with maxSize := a.maxSizeA }
      (stepGroups { cfg with maxSize := a.maxSizeA } st t dsts) = false :=
  (oversizeB_false_iff a { cfg with maxSize := a.maxSizeA } rfl st t dsts).symm

/-- on such a step both monitors reject a SubnetOversizeException (`labels? = none`) -/
theorem raise_rejected_when_fits (a : ACfg) (cfg : Cfg) (hnc : cfg.numbaCap = false)
    (st : State) (t : Int) (dsts : List Pos) (hcap : cappedB cfg st t dsts = false)
    (hfit : ∀ n ∈ stepNets cfg st t dsts, shortcut n = true ∨ n.srcs.length ≤ a.maxSizeA) :
    (∃ why, stepCheckA a cfg st t dsts none = .bad why) ∧
    (∃ why, stepCheck { cfg with maxSize := a.maxSizeA } st t dsts none = .bad why) := by
  constructor
  · unfold stepCheckA
    simp only [hcap, hnc, Bool.false_and, Bool.or_false, Bool.false_eq_true, if_false]
    split
    · rename_i hr
      exfalso
      simp only [List.any_eq_true, List.mem_map] at hr
      obtain ⟨x, ⟨n, hn, rfl⟩, hx⟩ := hr
      simp [plan_small a cfg.B 63 0 n (hfit n hn)] at hx
    · exact ⟨_, rfl⟩
  · exact stepCheck_none_bad { cfg with maxSize := a.maxSizeA } hnc st t dsts hcap
      ((fits_iff_not_oversize a cfg st t dsts).mp hfit)

/-! ### whole movies -/

/-- along the labelled levels, starting from `st` and moving by `nextState`: every step is within
the neighbour cap and every sub-net of every step fits the adaptive limit -/
def FitsAlong (a : ACfg) (cfg : Cfg) : State → List LLevel → Prop
  | _, [] => True
  | st, lv :: rest =>
    cappedB cfg st lv.t lv.dsts = false ∧
    (∀ n ∈ stepNets cfg st lv.t lv.dsts, shortcut n = true ∨ n.srcs.length ≤ a.maxSizeA) ∧
    FitsAlong a cfg (nextState cfg st lv.t lv.dsts lv.labels) rest

/-- **Adaptive search gives exactly the result of plain linking when no group is oversize — whole
movies.**  If no sub-net of any step exceeds the adaptive limit, the adaptive monitor accepts a
labelled movie (step after step, adaptive claims judged) iff the plain monitor with that size
limit accepts it (`Linker.AcceptsFrom`, the relation of C01 / C02). -/
theorem adaptive_iff_plain_movie (a : ACfg) (cfg : Cfg)
    (hdrop : cfg.drop = false) (hno : cfg.noOpt = false) (hnc : cfg.numbaCap = false)
    (levels : List LLevel) (st : State) (hfit : FitsAlong a cfg st levels) :
    AcceptsFromA a cfg st levels ↔ AcceptsFrom { cfg with maxSize := a.maxSizeA } st levels := by
  induction levels generalizing st with
  | nil => simp [AcceptsFromA, AcceptsFrom]
  | cons lv rest ih =>
    obtain ⟨hcap, hf, hrest⟩ := hfit
    simp only [AcceptsFromA, AcceptsFrom]
    constructor
    · rintro ⟨st', r, f, h, hacc⟩
      obtain ⟨c, r', b, h'⟩ :=
        (adaptive_iff_plain a cfg hdrop hno hnc st lv.t lv.dsts hcap hf lv.labels st').mp ⟨r, f, h⟩
      have hst : st' = nextState cfg st lv.t lv.dsts lv.labels := (stepCheckA_ok h).2.1
      subst hst
      exact ⟨_, c, r', b, false, h', (ih _ hrest).mp hacc⟩
    · rintro ⟨st', c, r, b, cap, h, hacc⟩
      have hcf : cap = false :=
        stepCheck_cap_false (cfg := { cfg with maxSize := a.maxSizeA }) hno hcap h
      subst hcf
      obtain ⟨r', f, h'⟩ :=
        (adaptive_iff_plain a cfg hdrop hno hnc st lv.t lv.dsts hcap hf lv.labels st').mpr ⟨c, r, b, h⟩
      have hst : st' = nextState cfg st lv.t lv.dsts lv.labels := (stepCheckA_ok h').2.1
      subst hst
      exact ⟨_, r', f, h', (ih _ hrest).mpr hacc⟩

/-! ### non-vacuity (tests, labelled as such) -/

/-- adaptive limit 2: the two-source sub-net of `exCfgA / exStA` (Props/C12Algo) fits -/
def exA2 : ACfg := { p := 1, q := 2, stopNum := 1, stopDen := 16, maxSizeA := 2 }

/-- the step has one sub-net, two sources competing for two destinations -/
example : (stepNets exCfgA exStA 1 [[1], [4]]).map (fun n => (netIds n, n.dsts)) = [([0, 1], [0, 1])] := by
  simp [stepNets, stepGroups, stepCands, subnets, candsOf, candsOfRow, distRow, dist2,
    view, sqI, insCand, exCfgA, exStA, addSource, hasDest, realDests, getD', netIds, List.zipIdx,
    List.range, List.range.loop]

/-- … which fits the limit 2 (hypothesis `hfit`), but not the limit 1 of `exA` -/
example : ∀ n ∈ stepNets exCfgA exStA 1 [[1], [4]], shortcut n = true ∨ n.srcs.length ≤ exA2.maxSizeA := by
  intro n hn
  right
  simp [stepNets, stepGroups, stepCands, subnets, candsOf, candsOfRow, distRow, dist2,
    view, sqI, insCand, exCfgA, exStA, addSource, hasDest, realDests, getD', List.zipIdx,
    List.range, List.range.loop] at hn
  subst hn
  simp [exA2]

/-- `FitsAlong` holds for the one-step movie of this example -/
example : FitsAlong exA2 exCfgA exStA [{ t := 1, dsts := [[1], [4]], labels := [0, 1] }] := by
  refine ⟨?_, ?_, trivial⟩
  · simp [cappedB, nNeighbors, dist2, view, sqI, exCfgA, exStA]
  · intro n hn
    right
    simp [stepNets, stepGroups, stepCands, subnets, candsOf, candsOfRow, distRow, dist2,
      view, sqI, insCand, exCfgA, exStA, addSource, hasDest, realDests, getD', List.zipIdx,
      List.range, List.range.loop] at hn
    subst hn
    simp [exA2]

/-- the adaptive monitor accepts the near links, nothing reduced, one final group
(`adaptive_nothing_reduced`, evaluated) … -/
example : stepCheckA exA2 exCfgA exStA 1 [[1], [4]] (some [0, 1]) =
    .ok (nextState exCfgA exStA 1 [[1], [4]] [0, 1]) 0 1 false := by
  simp [stepCheckA, cappedB, nNeighbors, validWhy, freshLabels, linksOkB, finalOkB, finalAsg, chosenA,
    orphansOkB, admissibleB, addTaken, sortedB, cost, finalSrcs, solveOrdered, go, exceeds, taken, better,
    stepNets, stepGroups, stepCands, subnets, candsOf, candsOfRow, realOfRow, distRow, dist2,
    view, sqI, insCand, exCfgA, exStA, exA2, plan, shortcut, atStop, split, addSource,
    hasDest, realDests, List.find?, getD', List.zipIdx, List.range, List.range.loop,
    List.idxOf?, List.findIdx?, List.findIdx?.go]

/-- … and so does the plain monitor with size limit 2 (`adaptive_iff_plain`, evaluated) -/
example : stepCheck { exCfgA with maxSize := exA2.maxSizeA } exStA 1 [[1], [4]] (some [0, 1]) =
    .ok (nextState exCfgA exStA 1 [[1], [4]] [0, 1]) 1 0 0 false := by
  simp [stepCheck, optWhy, oversizeB, groupOkB, gSrcs, gAsg, asgOf, chosenOf, srcOf, pairwiseDisjointB,
    groupDests, dests, cappedB, nNeighbors, validWhy, freshLabels, linksOkB,
    admissibleB, sortedB, cost, solveOrdered, go, exceeds, taken, better, addTaken, nextState,
    stepGroups, stepCands, subnets, candsOf, candsOfRow, distRow, dist2,
    view, sqI, insCand, exCfgA, exStA, exA2, addSource,
    hasDest, realDests, getD', List.zipIdx, List.range, List.range.loop,
    List.idxOf?, List.findIdx?, List.findIdx?.go]

/-- **'drop' is a genuine difference between the two monitors**: with `link_strategy = 'drop'`
the plain monitor demands that the contested sub-net stays unlinked and rejects the near links,
the adaptive monitor (which does not model 'drop') accepts them — the hypothesis `cfg.drop = false`
of `adaptive_iff_plain` is needed. -/
theorem adaptive_plain_drop_witness :
    (∃ st' r f, stepCheckA exA2 { exCfgA with drop := true } exStA 1 [[1], [4]] (some [0, 1]) =
      .ok st' r f false) ∧
    ¬ (∃ st' c r b, stepCheck { exCfgA with drop := true, maxSize := exA2.maxSizeA } exStA 1 [[1], [4]]
      (some [0, 1]) = .ok st' c r b false) := by
  constructor
  · refine ⟨nextState { exCfgA with drop := true } exStA 1 [[1], [4]] [0, 1], 0, 1, ?_⟩
    simp [stepCheckA, cappedB, nNeighbors, validWhy, freshLabels, linksOkB, finalOkB, finalAsg, chosenA,
      orphansOkB, admissibleB, addTaken, sortedB, cost, finalSrcs, solveOrdered, go, exceeds, taken, better,
      stepNets, stepGroups, stepCands, subnets, candsOf, candsOfRow, realOfRow, distRow, dist2,
      view, sqI, insCand, exCfgA, exStA, exA2, plan, shortcut, atStop, split, addSource,
      hasDest, realDests, List.find?, getD', List.zipIdx, List.range, List.range.loop,
      List.idxOf?, List.findIdx?, List.findIdx?.go]
  · rintro ⟨st', c, r, b, h⟩
    simp [stepCheck, optWhy, oversizeB, groupOkB, gSrcs, gAsg, asgOf, chosenOf, srcOf, pairwiseDisjointB,
      groupDests, dests, cappedB, nNeighbors, validWhy, freshLabels, linksOkB,
      cost, solveOrdered,
      stepGroups, stepCands, subnets, candsOf, candsOfRow, distRow, dist2,
      view, sqI, insCand, exCfgA, exStA, exA2, addSource,
      hasDest, realDests, getD', List.zipIdx, List.range, List.range.loop,
      List.idxOf?, List.findIdx?, List.findIdx?.go] at h

end TrackpyV.Adaptive
