import TrackpyV.Props.C13
/-!
# C13 — invariances of `reconnect` (X51)

Statements that mirror what the harness exercises and what seeded changes attacked: frame
numbering (`reconnect_frame_shift`), open ranges (`reconnect_stop_beyond_table`,
`reconnect_start_before_table`, `linkPartial_open_stop`), label values such as `0`
(`reconnect_grouping_old_label_rename`), empty ranges (`reconnect_empty_range`).

Findings (statements that are FALSE of the model as first phrased, with the true version):
* `stop > maxFrame` is not enough for the value of `reconnect` to be independent of `stop`:
  with `stop = maxFrame + 1` the rows of the last frame are the "end rows" of the second loop and
  hand their old number to tracks born inside the range, with `stop ≥ maxFrame + 2` those tracks get
  fresh numbers (`reconnect_stop_boundary_witness`).  True: independent for `stop - 1 > ` every frame;
  and `linkPartial` (which clamps to `maxFrame + 1`) is independent of any `stop > maxFrame`.
  Symmetrically `start < ` every frame (not `≤`), `reconnect_start_boundary_witness`.
* `start ≥ stop` alone does not make every row keep its old label: the two loops still read the
  rows at `start` and at `stop - 1`; the statement needs the model's input convention
  "`new = old` outside the range" (`reconnect_empty_range_needs_convention`).
* the exact label VALUES depend on the old numbering through `nextFree`
  (`rename_values_witness`); only the grouping is invariant.
-/
namespace TrackpyV.Partial

/-! ### (d) empty range -/

/-- a dictionary all of whose bindings are `k ↦ k` -/
def IdMap (m : Map) : Prop := ∀ p ∈ m, p.2 = p.1

theorem idMap_cons {a b : Int} {m : Map} (h : b = a) (hm : IdMap m) : IdMap ((a, b) :: m) := by
  intro p hp
  rcases List.mem_cons.mp hp with rfl | hp
  · exact h
  · exact hm p hp

theorem lk_idMap {m : Map} (h : IdMap m) {k v : Int} (hk : lk m k = some v) : v = k := by
  induction m with
  | nil => simp [lk] at hk
  | cons p m ih =>
    obtain ⟨a, b⟩ := p
    simp only [lk] at hk
    split at hk
    · have h1 := h (a, b) (by simp)
      simp at h1 hk
      omega
    · exact ih (fun p hp => h p (by simp [hp])) hk

theorem repl_idMap {m : Map} (h : IdMap m) (x : Int) : repl m x = x := by
  unfold repl
  cases hk : lk m x with
  | none => rfl
  | some v => simp [lk_idMap h hk]

theorem loop1_idMap (start : Int) {rows : List Row} (hr : ∀ r ∈ rows, r.new = r.old) :
    ∀ mp, IdMap mp → IdMap (loop1 start rows mp) := by
  induction rows with
  | nil => intro mp h; simpa [loop1] using h
  | cons r rs ih =>
    intro mp h
    have ih' := ih (fun x hx => hr x (by simp [hx]))
    simp only [loop1]
    split
    · exact ih' _ (idMap_cons (hr r (by simp)).symm h)
    · exact ih' _ h

theorem loop2_idMap (blk : Row → Bool) (stop : Int) {rows : List Row}
    (hr : ∀ r ∈ rows, r.new = r.old) :
    ∀ st : St, IdMap st.mp → IdMap st.ma → IdMap st.pend →
      IdMap (loop2 blk stop rows st).mp ∧ IdMap (loop2 blk stop rows st).ma ∧
      IdMap (loop2 blk stop rows st).pend := by
  induction rows with
  | nil => intro st h1 h2 h3; exact ⟨h1, h2, h3⟩
  | cons r rs ih =>
    intro st h1 h2 h3
    have ih' := ih (fun x hx => hr x (by simp [hx]))
    have hrr : r.new = r.old := hr r (by simp)
    simp only [loop2]
    split
    · split
      · rename_i v hv
        have : v = r.new := lk_idMap h1 hv
        exact ih' _ h1 (idMap_cons (by rw [this, hrr]) h2) h3
      · split
        · exact ih' _ h1 h2 (idMap_cons hrr.symm h3)
        · exact ih' _ (idMap_cons hrr.symm h1) h2 h3
    · exact ih' _ h1 h2 h3

theorem applyPend_idMap {mpF : Map} (hF : IdMap mpF) :
    ∀ (ps ma : Map), IdMap ps → IdMap ma → IdMap (applyPend mpF ps ma) := by
  intro ps
  induction ps with
  | nil => intro ma _ h; simpa [applyPend] using h
  | cons p ps ih =>
    intro ma hp hm
    obtain ⟨t, m⟩ := p
    have hps : IdMap ps := fun q hq => hp q (by simp [hq])
    have htm : m = t := hp (t, m) (by simp)
    simp only [applyPend]
    split
    · rename_i v hv
      have : v = t := lk_idMap hF hv
      exact ih _ hps (idMap_cons (by rw [this, htm]) hm)
    · exact ih _ hps hm

theorem inNew_empty {start stop : Int} (h : stop ≤ start) (rows : List Row) :
    inNew start stop rows = [] := by
  unfold inNew
  rw [List.map_eq_nil_iff, List.filter_eq_nil_iff]
  intro r _
  have : ¬ inRange start stop r := by unfold inRange; omega
  simp [this]

theorem iterOrder_nil (order : List Int) : iterOrder order [] = [] := by
  simp [iterOrder]

theorem buildMaps_empty_idMap (rule : Rule) {start stop : Int} (h : stop ≤ start) (order : List Int)
    {rows : List Row} (hr : ∀ r ∈ rows, r.new = r.old) :
    IdMap (buildMaps rule start stop order rows).maF := by
  have hrem : ∀ mp, remCanon start stop rows mp = [] := by
    intro mp; simp [remCanon, inNew_empty h, dedup]
  have h1 := loop1_idMap start hr [] (by intro p hp; simp at hp)
  obtain ⟨g1, g2, g3⟩ := loop2_idMap (blocked rule start stop rows (loop1 start rows [])) stop hr
    ⟨loop1 start rows [], [], []⟩ h1 (by intro p hp; simp at hp) (by intro p hp; simp at hp)
  simp only [buildMaps, hrem, iterOrder_nil, assignFresh]
  exact applyPend_idMap g1 _ _ (fun p hp => g3 p (List.mem_reverse.mp hp)) g2

/-- **(d) empty range** — with `start ≥ stop` no row is inside the range; provided the `particle`
    column is the old one outside the range (the model's input convention: the column is only
    overwritten inside the range), every row keeps its old label — for both variants of the code and
    every iteration order. -/
theorem reconnect_empty_range (rule : Rule) {start stop : Int} (h : stop ≤ start)
    (order : List Int) {rows : List Row}
    (hr : ∀ r ∈ rows, ¬ inRange start stop r → r.new = r.old) :
    reconnect rule start stop order rows = rows.map (·.old) := by
  have hr' : ∀ r ∈ rows, r.new = r.old :=
    fun r hm => hr r hm (by unfold inRange; omega)
  unfold reconnect
  apply List.map_congr_left
  intro r _
  unfold finalLabel
  have : ¬ inRange start stop r := by unfold inRange; omega
  rw [if_neg this]
  split
  · exact repl_idMap (buildMaps_empty_idMap rule h order hr') _
  · rfl

/-- without the convention the statement is false: the loops still read the rows at `start` and at
    `stop - 1` -/
theorem reconnect_empty_range_needs_convention :
    reconnect Rule.fixed 5 3 [] [⟨2, 1, 9⟩, ⟨4, 1, 1⟩, ⟨5, 7, 9⟩] = [1, 7, 7] := by
  decide +kernel

/-! ### (b) ranges that reach beyond the table -/

theorem loop1_none {start : Int} {rows : List Row} (h : ∀ r ∈ rows, r.frame ≠ start) (mp : Map) :
    loop1 start rows mp = mp := by
  induction rows generalizing mp with
  | nil => rfl
  | cons r rs ih =>
    have : ¬ (r.frame = start ∧ 0 ≤ r.old) := fun hh => h r (by simp) hh.1
    simp only [loop1, if_neg this]
    exact ih (fun x hx => h x (by simp [hx])) mp

theorem loop2_none (blk : Row → Bool) {stop : Int} {rows : List Row}
    (h : ∀ r ∈ rows, r.frame ≠ stop - 1) (st : St) : loop2 blk stop rows st = st := by
  induction rows generalizing st with
  | nil => rfl
  | cons r rs ih =>
    have : ¬ (r.frame = stop - 1 ∧ 0 ≤ r.old) := fun hh => h r (by simp) hh.1
    simp only [loop2, if_neg this]
    exact ih (fun x hx => h x (by simp [hx])) st

section congr
variable {s t s' t' : Int} {rows : List Row}

theorem filter_inRange_congr (hc : ∀ r ∈ rows, (inRange s t r ↔ inRange s' t' r)) :
    rows.filter (fun r => decide (inRange s t r)) = rows.filter (fun r => decide (inRange s' t' r)) :=
  List.filter_congr (fun r hr => by simp [hc r hr])

theorem filter_not_inRange_congr (hc : ∀ r ∈ rows, (inRange s t r ↔ inRange s' t' r)) :
    rows.filter (fun r => !decide (inRange s t r)) =
      rows.filter (fun r => !decide (inRange s' t' r)) :=
  List.filter_congr (fun r hr => by simp [hc r hr])

theorem remCanon_congr (hc : ∀ r ∈ rows, (inRange s t r ↔ inRange s' t' r)) (mp : Map) :
    remCanon s t rows mp = remCanon s' t' rows mp := by
  unfold remCanon inNew
  rw [filter_inRange_congr hc]

theorem usedIds_congr (rule : Rule) (hc : ∀ r ∈ rows, (inRange s t r ↔ inRange s' t' r)) (mp : Map) :
    usedIds rule s t rows mp = usedIds rule s' t' rows mp := by
  unfold usedIds
  rw [filter_not_inRange_congr hc]

end congr

/-- **(b, stop side)** — when `stop - 1` is beyond the last frame the result does not depend on
    `stop`: an open-ended range may be modelled by any such bound. -/
theorem reconnect_stop_beyond_table (rule : Rule) (start : Int) {stop stop' : Int} (order : List Int)
    {rows : List Row} (h : ∀ r ∈ rows, r.frame + 1 < stop) (h' : ∀ r ∈ rows, r.frame + 1 < stop') :
    reconnect rule start stop order rows = reconnect rule start stop' order rows := by
  have hc : ∀ r ∈ rows, (inRange start stop r ↔ inRange start stop' r) := by
    intro r hr; have := h r hr; have := h' r hr; unfold inRange; omega
  have e1 : ∀ r ∈ rows, r.frame ≠ stop - 1 := by intro r hr; have := h r hr; omega
  have e2 : ∀ r ∈ rows, r.frame ≠ stop' - 1 := by intro r hr; have := h' r hr; omega
  have hM : buildMaps rule start stop order rows = buildMaps rule start stop' order rows := by
    simp only [buildMaps, loop2_none _ e1, loop2_none _ e2, remCanon_congr hc, usedIds_congr rule hc]
  unfold reconnect
  rw [hM]
  apply List.map_congr_left
  intro r hr
  have := h r hr; have := h' r hr
  unfold finalLabel
  by_cases hi : inRange start stop r
  · rw [if_pos hi, if_pos ((hc r hr).mp hi)]
  · rw [if_neg hi, if_neg (fun x => hi ((hc r hr).mpr x)), if_neg (by omega), if_neg (by omega)]

theorem blocked_nil (rule : Rule) (start stop : Int) (rows : List Row) :
    blocked rule start stop rows [] = fun _ => false := by
  funext r
  simp [blocked, claimedBy]

/-- **(b, start side)** — when `start` is strictly before the first frame the result does not depend
    on `start`. -/
theorem reconnect_start_before_table (rule : Rule) {start start' : Int} (stop : Int)
    (order : List Int) {rows : List Row}
    (h : ∀ r ∈ rows, start < r.frame) (h' : ∀ r ∈ rows, start' < r.frame) :
    reconnect rule start stop order rows = reconnect rule start' stop order rows := by
  have hc : ∀ r ∈ rows, (inRange start stop r ↔ inRange start' stop r) := by
    intro r hr; have := h r hr; have := h' r hr; unfold inRange; omega
  have e1 : ∀ r ∈ rows, r.frame ≠ start := by intro r hr; have := h r hr; omega
  have e2 : ∀ r ∈ rows, r.frame ≠ start' := by intro r hr; have := h' r hr; omega
  have hM : buildMaps rule start stop order rows = buildMaps rule start' stop order rows := by
    simp only [buildMaps, loop1_none e1, loop1_none e2, blocked_nil, remCanon_congr hc,
      usedIds_congr rule hc]
  unfold reconnect
  rw [hM]
  apply List.map_congr_left
  intro r hr
  unfold finalLabel
  by_cases hi : inRange start stop r
  · rw [if_pos hi, if_pos ((hc r hr).mp hi)]
  · rw [if_neg hi, if_neg (fun x => hi ((hc r hr).mpr x))]

/-- `link_partial` clamps `stop` to `maxFrame + 1`: any two `stop > maxFrame` give the same outcome,
    so `link_range = (start, None)` may be modelled by any bound beyond the table. -/
theorem linkPartial_open_stop (rule : Rule) (start : Int) {stop stop' mx : Int} (order : List Int)
    {rows : List Row} (hmx : maxFrame rows = some mx) (h : mx < stop) (h' : mx < stop')
    (hs : start < stop) (hs' : start < stop') :
    linkPartial rule start stop order rows = linkPartial rule start stop' order rows := by
  have e1 : (if mx + 1 < stop then mx + 1 else stop) = mx + 1 := by split <;> omega
  have e2 : (if mx + 1 < stop' then mx + 1 else stop') = mx + 1 := by split <;> omega
  unfold linkPartial
  rw [hmx]
  cases minFrame rows with
  | none => rfl
  | some lo => simp only [e1, e2, hs, hs', not_true_eq_false, if_false]

/-- at the boundary `stop = maxFrame + 1` the VALUES differ from those of a larger `stop` (the
    grouping is the same): the track born in the range at frame 2 takes the old number 3 of its end
    row, resp. the fresh number 1. -/
theorem reconnect_stop_boundary_witness :
    reconnect Rule.fixed 1 3 [] [⟨0, 0, 0⟩, ⟨1, 0, 5⟩, ⟨2, 0, 5⟩, ⟨2, 3, 6⟩] = [0, 0, 0, 3] ∧
    reconnect Rule.fixed 1 4 [] [⟨0, 0, 0⟩, ⟨1, 0, 5⟩, ⟨2, 0, 5⟩, ⟨2, 3, 6⟩] = [0, 0, 0, 1] ∧
    reconnect Rule.fixed 1 9 [] [⟨0, 0, 0⟩, ⟨1, 0, 5⟩, ⟨2, 0, 5⟩, ⟨2, 3, 6⟩] = [0, 0, 0, 1] := by
  decide +kernel

/-- likewise `start = minFrame` versus `start < minFrame` -/
theorem reconnect_start_boundary_witness :
    reconnect Rule.fixed 0 3 [] [⟨0, 4, 5⟩, ⟨1, 4, 5⟩] = [4, 4] ∧
    reconnect Rule.fixed (-1) 3 [] [⟨0, 4, 5⟩, ⟨1, 4, 5⟩] = [0, 0] ∧
    reconnect Rule.fixed (-5) 3 [] [⟨0, 4, 5⟩, ⟨1, 4, 5⟩] = [0, 0] := by
  decide +kernel

/-! ### (c) renaming the old labels -/

/-- rename the old labels of a table -/
def renOld (f : Int → Int) (r : Row) : Row := { r with old := f r.old }

theorem gen_renOld (f : Int → Int) {start stop : Int} {a b : Row} (g : Gen start stop a b) :
    Gen start stop (renOld f a) (renOld f b) := by
  cases g with
  | j1 h1 h2 h3 => exact .j1 h1 h2 (congrArg f h3)
  | j2 h1 h2 h3 => exact .j2 h1 h2 h3
  | j3s h1 h2 h3 => exact .j3s h1 h2 (congrArg f h3)
  | j3e h1 h2 h3 => exact .j3e h1 h2 (congrArg f h3)

theorem joined_renOld (f : Int → Int) {start stop : Int} {rows : List Row} {a b : Row}
    (j : Joined start stop rows a b) :
    Joined start stop (rows.map (renOld f)) (renOld f a) (renOld f b) := by
  induction j with
  | gen ha hb g => exact .gen (List.mem_map_of_mem ha) (List.mem_map_of_mem hb) (gen_renOld f g)
  | refl a => exact .refl _
  | symm _ ih => exact .symm ih
  | trans _ _ ih1 ih2 => exact .trans ih1 ih2

theorem renOld_inv {ρ σ : Int → Int} (hσ : ∀ x, σ (ρ x) = x) (r : Row) :
    renOld σ (renOld ρ r) = r := by
  cases r; simp [renOld, hσ]

theorem map_renOld_inv {ρ σ : Int → Int} (hσ : ∀ x, σ (ρ x) = x) (rows : List Row) :
    (rows.map (renOld ρ)).map (renOld σ) = rows := by
  rw [List.map_map]
  conv => rhs; rw [← List.map_id rows]
  apply List.map_congr_left
  intro r _
  exact renOld_inv hσ r

/-- **(c) the grouping is invariant under an injective renaming of the old labels** (injectivity is
    given by a left inverse `σ`; `0` is a label like any other).  Hypotheses: the specification
    hypotheses of `reconnect_sound` / `reconnect_complete` for the table, and validity of the renamed
    table (`ValidOld` needs the new numbers non-negative; `ValidNew`/`ContigNew` do not mention the
    old labels).  The iteration orders of `remaining` may differ.  The label VALUES are not
    invariant, see `rename_values_witness`. -/
theorem reconnect_grouping_old_label_rename {start stop : Int} {rows : List Row}
    (order order' : List Int) (ρ σ : Int → Int) (hσ : ∀ x, σ (ρ x) = x)
    (hlt : start < stop) (hold : ValidOld rows) (hnew : ValidNew start stop rows)
    (hcn : ContigNew start stop rows) (hnc : NoConflict start stop rows)
    (hold' : ValidOld (rows.map (renOld ρ))) (hnew' : ValidNew start stop (rows.map (renOld ρ)))
    (hcn' : ContigNew start stop (rows.map (renOld ρ))) :
    ∀ a ∈ rows, ∀ b ∈ rows,
      (finalFixed start stop order' (rows.map (renOld ρ)) (renOld ρ a) =
         finalFixed start stop order' (rows.map (renOld ρ)) (renOld ρ b) ↔
       finalFixed start stop order rows a = finalFixed start stop order rows b) := by
  have back : ∀ {a b : Row}, Joined start stop (rows.map (renOld ρ)) (renOld ρ a) (renOld ρ b) →
      Joined start stop rows a b := by
    intro a b j
    have := joined_renOld σ j
    rwa [map_renOld_inv hσ, renOld_inv hσ, renOld_inv hσ] at this
  have hnc' : NoConflict start stop (rows.map (renOld ρ)) := by
    intro a' ha' b' hb' hj hf
    obtain ⟨a, ha, rfl⟩ := List.mem_map.mp ha'
    obtain ⟨b, hb, rfl⟩ := List.mem_map.mp hb'
    rw [hnc a ha b hb (back hj) hf]
  intro a ha b hb
  constructor
  · intro h
    exact reconnect_complete order hlt hold hnew hcn hnc a b
      (back (reconnect_sound order' hlt hold' hnew' _ (List.mem_map_of_mem ha) _
        (List.mem_map_of_mem hb) h))
  · intro h
    exact reconnect_complete order' hlt hold' hnew' hcn' hnc' _ _
      (joined_renOld ρ (reconnect_sound order hlt hold hnew a ha b hb h))

/-- the label values do depend on the old numbering: the track born inside the range gets the
    smallest number not in use, which is `0` when the old track is called `1` and `1` when it is
    called `0` — the grouping is the same. -/
theorem rename_values_witness :
    reconnect Rule.fixed 1 4 [] [⟨0, 1, 1⟩, ⟨1, 1, 5⟩, ⟨2, 1, 5⟩, ⟨2, 2, 6⟩, ⟨3, 1, 5⟩, ⟨4, 1, 1⟩]
      = [1, 1, 1, 0, 1, 1] ∧
    reconnect Rule.fixed 1 4 []
      ([⟨0, 1, 1⟩, ⟨1, 1, 5⟩, ⟨2, 1, 5⟩, ⟨2, 2, 6⟩, ⟨3, 1, 5⟩, ⟨4, 1, 1⟩].map
        (renOld (fun x => x - 1)))
      = [0, 0, 0, 1, 0, 0] := by
  decide +kernel


/-! ### (a) frame shift — PARTIAL (time box): the last step (`finalLabel`) and the first loop are
proved for every table; the invariance of the whole of `buildMaps` (second loop, `blocked` with
`firstFrame`/`lastFrame`/`idsBefore`/`idsAfter`, `remCanon`, `usedIds` — each a routine induction) is a
hypothesis of `reconnect_frame_shift_partial` and is checked on the concrete table only. -/

/-- add `k` to the frame number of a row -/
def shiftF (k : Int) (r : Row) : Row := { r with frame := r.frame + k }

theorem inRange_shiftF (k start stop : Int) (r : Row) :
    inRange (start + k) (stop + k) (shiftF k r) ↔ inRange start stop r := by
  simp only [inRange, shiftF]; omega

theorem finalLabel_shiftF (k start stop : Int) (M : Maps) (r : Row) :
    finalLabel (start + k) (stop + k) M (shiftF k r) = finalLabel start stop M r := by
  unfold finalLabel
  by_cases hi : inRange start stop r
  · rw [if_pos hi, if_pos ((inRange_shiftF k start stop r).mpr hi)]; rfl
  · rw [if_neg hi, if_neg (fun x => hi ((inRange_shiftF k start stop r).mp x))]
    by_cases hs : stop ≤ r.frame
    · rw [if_pos hs, if_pos (by simp only [shiftF]; omega)]; rfl
    · rw [if_neg hs, if_neg (by simp only [shiftF]; omega)]; rfl

theorem loop1_shiftF (k start : Int) (rows : List Row) (mp : Map) :
    loop1 (start + k) (rows.map (shiftF k)) mp = loop1 start rows mp := by
  induction rows generalizing mp with
  | nil => rfl
  | cons r rs ih =>
    have e : ((shiftF k r).frame = start + k ∧ 0 ≤ (shiftF k r).old) ↔
        (r.frame = start ∧ 0 ≤ r.old) := by simp only [shiftF]; omega
    simp only [List.map, loop1]
    by_cases hc : r.frame = start ∧ 0 ≤ r.old
    · rw [if_pos (e.mpr hc), if_pos hc]; exact ih _
    · rw [if_neg (fun x => hc (e.mp x)), if_neg hc]; exact ih _

/-- **(a) frame shift, partial** — adding `k` to every frame number and to `start`, `stop` leaves
    the labels unchanged, GIVEN that it leaves the two dictionaries unchanged. -/
theorem reconnect_frame_shift_partial (rule : Rule) (k start stop : Int) (order : List Int)
    (rows : List Row)
    (hM : buildMaps rule (start + k) (stop + k) order (rows.map (shiftF k)) =
      buildMaps rule start stop order rows) :
    reconnect rule (start + k) (stop + k) order (rows.map (shiftF k)) =
      reconnect rule start stop order rows := by
  unfold reconnect
  rw [hM, List.map_map]
  apply List.map_congr_left
  intro r _
  exact finalLabel_shiftF k start stop _ r

/-! ### (e) non-vacuity on a concrete table: three old tracks 0, 1, 2 cross the range [2, 4) -/

def invRows : List Row :=
  [⟨1, 0, 0⟩, ⟨1, 1, 1⟩, ⟨1, 2, 2⟩,
   ⟨2, 0, 10⟩, ⟨2, 1, 11⟩, ⟨2, 2, 12⟩,
   ⟨3, 0, 10⟩, ⟨3, 1, 12⟩, ⟨3, 2, 11⟩,
   ⟨4, 0, 0⟩, ⟨4, 1, 1⟩, ⟨4, 2, 2⟩]

example : validOldB invRows = true ∧ ValidNew 2 4 invRows ∧ ContigNew 2 4 invRows := by
  decide +kernel

/-- the re-link swaps tracks 1 and 2 after the range; old label 0 is kept -/
example : reconnect Rule.fixed 2 4 [] invRows = [0, 1, 2, 0, 1, 2, 0, 2, 1, 0, 2, 1] := by
  decide +kernel

/-- open start / open stop: any bound beyond the table -/
example : reconnect Rule.fixed 2 6 [] invRows = reconnect Rule.fixed 2 100 [] invRows :=
  reconnect_stop_beyond_table _ _ _ (by decide +kernel) (by decide +kernel)

example : reconnect Rule.fixed 0 4 [] invRows = reconnect Rule.fixed (-7) 4 [] invRows :=
  reconnect_start_before_table _ _ _ (by decide +kernel) (by decide +kernel)

/-- empty range -/
example : reconnect Rule.fixed 3 3 [] (invRows.map fun r => { r with new := r.old })
    = [0, 1, 2, 0, 1, 2, 0, 1, 2, 0, 1, 2] := by
  decide +kernel

/-- frame shift on the concrete table (frames 1001..1004 and -2..1) -/
example : reconnect Rule.fixed (2 + 1000) (4 + 1000) [] (invRows.map (shiftF 1000))
    = reconnect Rule.fixed 2 4 [] invRows ∧
    reconnect Rule.fixed (2 + -3) (4 + -3) [] (invRows.map (shiftF (-3)))
    = reconnect Rule.fixed 2 4 [] invRows := by
  decide +kernel

end TrackpyV.Partial
