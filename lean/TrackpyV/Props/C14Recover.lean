import TrackpyV.Props.C14Opt
import TrackpyV.Props.C06
/-!
# C14 — the RECOVERY direction at model level: the relocation FINDS a qualifying maximum

`Props/C14.lean` proves soundness (whatever `get_relocate_candidates` returns is admissible).
This file proves the converse about the same executable model `Model/Relocate.lean`:

* `rawCandidates_complete`      membership in the raw candidate list, exactly (an iff);
* `relocateIn_complete`         a raw candidate that no OTHER raw candidate closer than `separation`
                                matches or exceeds in (masked) brightness, with a finite mass
                                `≥ minmass`, IS returned (`dropClose_justified`, contrapositive);
* `relocateWith_complete`, `relocateCandidates_complete`   the same through `get_slice`, the
                                percentile threshold and the background query;
* `relocate_recovers_heaviest`  … and if its mass strictly exceeds the mass of every other raw
                                candidate with a finite mass `≥ minmass`, it is the HEAD of the list,
                                hence returned by `relocate(pos, n)` for every `n ≥ 1`;
* `relocate_recovers_all`       if at most `n` raw candidates have a finite mass `≥ minmass`,
                                `relocate(pos, n)` returns every qualifying candidate.

What differs from the informal phrasing "no other candidate with a key at least as large":
`drop_close` compares the INTENSITY (the masked pixel value) first and uses the key
`Σ posᵢ/separationᵢ` only to break intensity ties (`Find.pairDrop`).  The C06 lemma
`dropClose_justified` speaks about intensity only ("a dropped feature has an at-least-as-bright
neighbour within separation"), so the hypothesis here is: every other raw candidate closer than
separation is STRICTLY DIMMER.  This is sufficient, not necessary: on an intensity tie the feature
with the larger key survives (`relocateIn_tie_witness`: two equally bright maxima closer than
separation, the later one in `np.where` order is returned although the hypothesis fails for it).

STILL ONLY EXERCISED (harness, `sep` regime): that a rendered blob IS such a qualifying maximum of
the (band-passed) frame — a statement about images, not about this code.
-/
namespace TrackpyV.Relocate
open TrackpyV.Find

/-! ## (a) the raw candidates, exactly -/

theorem outsideMargin_zero : ∀ (shape : List Nat) (p : Pos), InImage shape p →
    OutsideMargin shape (shape.map (fun _ => 0)) p
  | [], [], _ => trivial
  | [], _ :: _, h => h.elim
  | _ :: _, [], h => h.elim
  | n :: ns, i :: p, h => by
    obtain ⟨hi, hp⟩ := h
    exact ⟨⟨Nat.zero_le _, by show i + 0 + 1 ≤ n; omega⟩, outsideMargin_zero ns p hp⟩

/-- **rawCandidates_complete.**  A pixel `q` of the slice is a raw candidate of
`get_relocate_candidates` (find_link.py:400-426) IFF it lies in the masked slice `m`, its masked
value is strictly above the threshold, no pixel of its dilation box (C06 `InBox`: scipy's placement
of the box of sizes `dilationSize`, clipped to the slice) exceeds it, its IMAGE coordinate keeps the
margin `radius`, and that coordinate lies within `search_range` (ellipsoid, edge included) of one
of the source positions. -/
theorem rawCandidates_complete (cfg : Cfg) (img : Image) (sl : Slice) (m : Image) (thr : Rat)
    (pos : List IPos) (hk : (dilationSize cfg).length = m.shape.length) (q : Pos) :
    q ∈ rawCandidates cfg img sl m thr pos ↔
      InImage m.shape q ∧ thr < (m.pix q : Rat)
        ∧ (∀ q', InBox m.shape (dilationSize cfg) q q' → m.pix q' ≤ m.pix q)
        ∧ outsideMargin img.shape cfg.radius (addOrigin sl.origin q) = true
        ∧ ∃ p ∈ pos, dist2 cfg.sr (toI (addOrigin sl.origin q)) p ≤ 1 := by
  unfold rawCandidates
  simp only [List.mem_filter, inRange, List.any_eq_true, decide_eq_true_eq]
  rw [mem_candidates m (dilationSize cfg) _ thr q hk (by simp)]
  constructor
  · rintro ⟨⟨⟨hin, hthr, hbox, _⟩, hmar⟩, hrng⟩
    exact ⟨hin, hthr, hbox, hmar, hrng⟩
  · rintro ⟨hin, hthr, hbox, hmar, hrng⟩
    exact ⟨⟨⟨hin, hthr, hbox, outsideMargin_zero _ _ hin⟩, hmar⟩, hrng⟩

/-- the dilation box has one size per axis of the slice when the separation has -/
theorem dilationSize_length_masked (cfg : Cfg) (img : Image) (sl : Slice) (pos bg : List IPos)
    (h : cfg.sep.length = sl.shape.length) :
    (dilationSize cfg).length = (maskedImage cfg img sl pos bg).shape.length := by
  simp [dilationSize, maskedImage, h]

theorem rawCandidates_nodup (cfg : Cfg) (img : Image) (sl : Slice) (m : Image) (thr : Rat)
    (pos : List IPos) : (rawCandidates cfg img sl m thr pos).Nodup :=
  ((candidates_nodup _ _ _ _).filter _).filter _

/-! ## (b) a qualifying raw candidate is returned -/

/-- `q` survives `drop_close` among the raw candidates: every OTHER raw candidate closer than
`separation` (`Σ ((qᵢ − q'ᵢ)/separationᵢ)² < 1`) is strictly dimmer in the masked slice -/
def Dominant (cfg : Cfg) (m : Image) (raw : List Pos) (q : Pos) : Prop :=
  ∀ q' ∈ raw, q' ≠ q → dist2 cfg.sep (toI q) (toI q') < 1 → m.pix q' < m.pix q

/-- contrapositive of C06 `dropClose_justified` on the raw candidates -/
theorem dominant_kept (cfg : Cfg) (m : Image) (raw : List Pos) (hn : raw.Nodup)
    (hsep : ∀ s ∈ cfg.sep, s ≠ 0) (q : Pos) (hq : q ∈ raw) (hdom : Dominant cfg m raw q) :
    featOf m (exactKeyPos cfg.sep) q ∈
      dropClose cfg.sep (raw.map (featOf m (exactKeyPos cfg.sep))) := by
  by_contra hnf
  have hinj : Function.Injective (featOf m (exactKeyPos cfg.sep)) := by
    intro a b e
    rw [← toPos_featOf m (exactKeyPos cfg.sep) a, ← toPos_featOf m (exactKeyPos cfg.sep) b, e]
  have hfn : (raw.map (featOf m (exactKeyPos cfg.sep))).Nodup := hn.map hinj
  obtain ⟨i, hi⟩ := mem_indexFrom_of_mem 0 (raw.map (featOf m (exactKeyPos cfg.sep)))
    (featOf m (exactKeyPos cfg.sep) q) (List.mem_map_of_mem hq)
  obtain ⟨j, g, hj, hji, hlt, hle⟩ := dropClose_justified cfg.sep _ hsep i _ hi hnf
  obtain ⟨q', hq', rfl⟩ := List.mem_map.mp (mem_indexFrom_snd hj)
  have hne : q' ≠ q := by
    intro e
    subst e
    exact hji (indexFrom_snd_inj 0 _ hfn j i _ hj hi)
  have := hdom q' hq' hne hlt
  simp only [featOf] at hle
  omega

/-- **relocateIn_complete.**  Inside a slice: a raw candidate `q` that dominates every other raw
candidate closer than `separation` and whose feature region lies inside the masked slice with mass
`v ≥ minmass` is returned, at its image coordinate, with that mass. -/
theorem relocateIn_complete (cfg : Cfg) (img : Image) (bg pos : List IPos) (sl : Slice) (thr : Rat)
    (hsep : ∀ s ∈ cfg.sep, s ≠ 0) (q : Pos) (v : Nat)
    (hq : q ∈ rawCandidates cfg img sl (maskedImage cfg img sl pos bg) thr pos)
    (hdom : Dominant cfg (maskedImage cfg img sl pos bg)
      (rawCandidates cfg img sl (maskedImage cfg img sl pos bg) thr pos) q)
    (hm : massAt (maskedImage cfg img sl pos bg) cfg.radius q = some v)
    (hv : cfg.minmass ≤ (v : Rat)) :
    (addOrigin sl.origin q, v) ∈ relocateIn cfg img bg pos sl thr := by
  have hk := dominant_kept cfg _ _ (rawCandidates_nodup cfg img sl _ thr pos) hsep q hq hdom
  unfold relocateIn
  simp only [List.mem_map]
  refine ⟨(q, v), ?_, rfl⟩
  rw [mem_heaviestFirst]
  refine ⟨?_, hv⟩
  simp only [List.mem_map, Prod.mk.injEq]
  exact ⟨q, ⟨_, hk, toPos_featOf _ _ q⟩, rfl, hm⟩

/-! ## (c) through `get_slice`, the threshold and the background query -/

/-- **relocateWith_complete.**  `get_relocate_candidates(pos)` given the background `bg`: when the
slice exists and the image is not completely black (the threshold exists), every qualifying pixel
of the slice is returned. -/
theorem relocateWith_complete (cfg : Cfg) (img : Image) (bg pos : List IPos) (sl : Slice)
    (thr : Rat) (hs : getSlice img.shape (sliceRadius cfg) pos = some sl)
    (ht : percentileThr img cfg.pct = some thr)
    (hsep : ∀ s ∈ cfg.sep, s ≠ 0) (q : Pos) (v : Nat)
    (hq : q ∈ rawCandidates cfg img sl (maskedImage cfg img sl pos bg) thr pos)
    (hdom : Dominant cfg (maskedImage cfg img sl pos bg)
      (rawCandidates cfg img sl (maskedImage cfg img sl pos bg) thr pos) q)
    (hm : massAt (maskedImage cfg img sl pos bg) cfg.radius q = some v)
    (hv : cfg.minmass ≤ (v : Rat)) :
    (addOrigin sl.origin q, v) ∈ relocateWith cfg img bg pos := by
  unfold relocateWith
  rw [hs, ht]
  exact relocateIn_complete cfg img bg pos sl thr hsep q v hq hdom hm hv

/-- an image with a non-zero pixel has a threshold (C06 `black_iff`, contrapositive) -/
theorem percentileThr_of_not_black (img : Image) (pct : Rat)
    (h : ∃ x ∈ img.data.toList, x ≠ 0) : ∃ thr, percentileThr img pct = some thr := by
  cases hp : percentileThr img pct with
  | some thr => exact ⟨thr, rfl⟩
  | none =>
    obtain ⟨x, hx, hne⟩ := h
    exact absurd ((black_iff img pct).mp hp x hx) hne

/-- **relocateCandidates_complete.**  The same with the hash of the current frame: the background
is what `query_points` returns, the threshold exists because the image is not completely black. -/
theorem relocateCandidates_complete (cfg : Cfg) (img : Image) (hash pos : List IPos) (sl : Slice)
    (hs : getSlice img.shape (sliceRadius cfg) pos = some sl)
    (hblack : ∃ x ∈ img.data.toList, x ≠ 0) (hsep : ∀ s ∈ cfg.sep, s ≠ 0) :
    ∃ thr, percentileThr img cfg.pct = some thr ∧ ∀ (q : Pos) (v : Nat),
      q ∈ rawCandidates cfg img sl (maskedImage cfg img sl pos (queryPoints cfg hash pos)) thr pos →
      Dominant cfg (maskedImage cfg img sl pos (queryPoints cfg hash pos))
        (rawCandidates cfg img sl (maskedImage cfg img sl pos (queryPoints cfg hash pos)) thr pos)
        q →
      massAt (maskedImage cfg img sl pos (queryPoints cfg hash pos)) cfg.radius q = some v →
      cfg.minmass ≤ (v : Rat) →
      (addOrigin sl.origin q, v) ∈ relocateCandidates cfg img hash pos := by
  obtain ⟨thr, ht⟩ := percentileThr_of_not_black img cfg.pct hblack
  refine ⟨thr, ht, ?_⟩
  intro q v hq hdom hm hv
  exact relocateWith_complete cfg img _ pos sl thr hs ht hsep q v hq hdom hm hv

/-! ## (d) the heaviest qualifying candidate is the first; few candidates are all returned -/

/-- in a list sorted descending, an element strictly above all others is the head -/
theorem head_of_strict_max {α} (key : α → Nat) : ∀ (l : List α) (x : α),
    l.Pairwise (fun a b => key b ≤ key a) → x ∈ l → (∀ y ∈ l, y ≠ x → key y < key x) →
    l.head? = some x
  | [], _, _, hx, _ => by simp at hx
  | h :: t, x, hp, hx, hmax => by
    by_cases e : h = x
    · simp [e]
    · have hx' : x ∈ t := by
        rcases List.mem_cons.mp hx with rfl | hx'
        · exact absurd rfl e
        · exact hx'
      have h1 := (List.pairwise_cons.mp hp).1 x hx'
      have h2 := hmax h List.mem_cons_self e
      omega

/-- `q'` has a finite mass `≥ minmass` in `m` (what `heaviestFirst` keeps) -/
def massOk (cfg : Cfg) (m : Image) (q' : Pos) : Bool :=
  match massAt m cfg.radius q' with
  | some v => decide (cfg.minmass ≤ (v : Rat))
  | none => false

/-- **relocate_recovers_heaviest.**  If `q` qualifies as in `relocateWith_complete` and its mass is
strictly larger than the mass of every other raw candidate of the slice that has a finite mass
`≥ minmass`, then it is the FIRST entry of `get_relocate_candidates(pos)` and therefore among the
`n` features `relocate(pos, n)` hands to the linker, for every shortage `n ≥ 1`. -/
theorem relocate_recovers_heaviest (cfg : Cfg) (img : Image) (hash pos : List IPos) (sl : Slice)
    (thr : Rat) (n : Nat) (hn : 1 ≤ n)
    (hs : getSlice img.shape (sliceRadius cfg) pos = some sl)
    (ht : percentileThr img cfg.pct = some thr) (hsep : ∀ s ∈ cfg.sep, s ≠ 0) (q : Pos) (v : Nat)
    (hq : q ∈ rawCandidates cfg img sl (maskedImage cfg img sl pos (queryPoints cfg hash pos)) thr pos)
    (hdom : Dominant cfg (maskedImage cfg img sl pos (queryPoints cfg hash pos))
      (rawCandidates cfg img sl (maskedImage cfg img sl pos (queryPoints cfg hash pos)) thr pos) q)
    (hm : massAt (maskedImage cfg img sl pos (queryPoints cfg hash pos)) cfg.radius q = some v)
    (hv : cfg.minmass ≤ (v : Rat))
    (hheavy : ∀ q' v',
      q' ∈ rawCandidates cfg img sl (maskedImage cfg img sl pos (queryPoints cfg hash pos)) thr pos →
      q' ≠ q →
      massAt (maskedImage cfg img sl pos (queryPoints cfg hash pos)) cfg.radius q' = some v' →
      cfg.minmass ≤ (v' : Rat) → v' < v) :
    (relocateCandidates cfg img hash pos).head? = some (addOrigin sl.origin q, v)
      ∧ (addOrigin sl.origin q, v) ∈ relocate cfg img hash pos n := by
  have hmem : (addOrigin sl.origin q, v) ∈ relocateCandidates cfg img hash pos :=
    relocateWith_complete cfg img _ pos sl thr hs ht hsep q v hq hdom hm hv
  have hhead : (relocateCandidates cfg img hash pos).head? = some (addOrigin sl.origin q, v) := by
    apply head_of_strict_max (fun x : Pos × Nat => x.2) _ _
      (reloc_heaviest_first cfg img (queryPoints cfg hash pos) pos) hmem
    rintro ⟨c', v'⟩ hy hne
    obtain ⟨sl', thr', hs', ht', hin⟩ := relocateWith_cases hy
    rw [hs] at hs'; rw [ht] at ht'
    injection hs' with hs'; injection ht' with ht'
    subst hs'; subst ht'
    obtain ⟨q', rfl, hraw', _, hm', hv'⟩ := mem_relocateIn hin
    by_cases e : q' = q
    · subst e
      rw [hm] at hm'
      injection hm' with hm'
      subst hm'
      exact absurd rfl hne
    · exact hheavy q' v' hraw' e hm' hv'
  refine ⟨hhead, ?_⟩
  unfold relocate
  cases hl : relocateCandidates cfg img hash pos with
  | nil => rw [hl] at hmem; simp at hmem
  | cons a t =>
    rw [hl] at hhead
    simp only [List.head?_cons, Option.some.injEq] at hhead
    subst hhead
    obtain ⟨k, rfl⟩ : ∃ k, n = k + 1 := ⟨n - 1, by omega⟩
    simp [List.take_succ_cons]

theorem length_filterMap_eq_filter {α β} (k : α → Option β) : ∀ (l : List α),
    (l.filterMap k).length = (l.filter (fun x => (k x).isSome)).length
  | [] => rfl
  | a :: l => by
    have ih := length_filterMap_eq_filter k l
    cases h : k a <;> simp [h, ih]

/-- `get_relocate_candidates` returns at most as many features as there are raw candidates with a
finite mass `≥ minmass` -/
theorem length_relocateIn_le (cfg : Cfg) (img : Image) (bg pos : List IPos) (sl : Slice)
    (thr : Rat) :
    (relocateIn cfg img bg pos sl thr).length ≤
      ((rawCandidates cfg img sl (maskedImage cfg img sl pos bg) thr pos).filter
        (massOk cfg (maskedImage cfg img sl pos bg))).length := by
  unfold relocateIn heaviestFirst
  simp only [List.length_map, List.length_reverse, length_sortMass]
  rw [List.filterMap_map, length_filterMap_eq_filter]
  set m := maskedImage cfg img sl pos bg
  set raw := rawCandidates cfg img sl m thr pos
  have hsub : ((dropClose cfg.sep (raw.map (featOf m (exactKeyPos cfg.sep)))).map Find.toPos).Sublist
      raw := by
    have := (dropClose_sublist cfg.sep (raw.map (featOf m (exactKeyPos cfg.sep)))).map Find.toPos
    rwa [map_toPos_featOf] at this
  refine Nat.le_trans (Nat.le_of_eq ?_) ((hsub.filter (massOk cfg m)).length_le)
  congr 1
  apply List.filter_congr
  intro q' _
  simp only [Function.comp_apply, massOk]
  cases massAt m cfg.radius q' with
  | none => rfl
  | some v => by_cases h : cfg.minmass ≤ (v : Rat) <;> simp [h]

/-- **relocate_recovers_all.**  If at most `n` raw candidates of the slice have a finite mass
`≥ minmass` (the shortage is not smaller than the number of possible features), then
`relocate(pos, n)` is the whole candidate list: every qualifying pixel is returned. -/
theorem relocate_recovers_all (cfg : Cfg) (img : Image) (hash pos : List IPos) (sl : Slice)
    (thr : Rat) (n : Nat) (hs : getSlice img.shape (sliceRadius cfg) pos = some sl)
    (ht : percentileThr img cfg.pct = some thr) (hsep : ∀ s ∈ cfg.sep, s ≠ 0)
    (hcount : ((rawCandidates cfg img sl (maskedImage cfg img sl pos (queryPoints cfg hash pos))
        thr pos).filter (massOk cfg (maskedImage cfg img sl pos (queryPoints cfg hash pos)))).length
        ≤ n) :
    relocate cfg img hash pos n = relocateCandidates cfg img hash pos ∧
    ∀ (q : Pos) (v : Nat),
      q ∈ rawCandidates cfg img sl (maskedImage cfg img sl pos (queryPoints cfg hash pos)) thr pos →
      Dominant cfg (maskedImage cfg img sl pos (queryPoints cfg hash pos))
        (rawCandidates cfg img sl (maskedImage cfg img sl pos (queryPoints cfg hash pos)) thr pos)
        q →
      massAt (maskedImage cfg img sl pos (queryPoints cfg hash pos)) cfg.radius q = some v →
      cfg.minmass ≤ (v : Rat) →
      (addOrigin sl.origin q, v) ∈ relocate cfg img hash pos n := by
  have hlen : (relocateCandidates cfg img hash pos).length ≤ n := by
    unfold relocateCandidates relocateWith
    rw [hs, ht]
    exact Nat.le_trans (length_relocateIn_le cfg img _ pos sl thr) hcount
  have heq : relocate cfg img hash pos n = relocateCandidates cfg img hash pos := by
    unfold relocate
    exact List.take_of_length_le hlen
  refine ⟨heq, ?_⟩
  intro q v hq hdom hm hv
  rw [heq]
  exact relocateWith_complete cfg img _ pos sl thr hs ht hsep q v hq hdom hm hv

/-! ## (e) non-vacuity (tests, labelled as such) -/

/-- 7×7 image, black except one 3×3 bump with a strict peak (9) at (3,4) -/
def recImg : Image := ⟨[7, 7],
  #[0, 0, 0, 0, 0, 0, 0,
    0, 0, 0, 0, 0, 0, 0,
    0, 0, 0, 1, 2, 1, 0,
    0, 0, 0, 2, 9, 2, 0,
    0, 0, 0, 1, 2, 1, 0,
    0, 0, 0, 0, 0, 0, 0,
    0, 0, 0, 0, 0, 0, 0]⟩

def recCfg : Cfg := { radius := [1, 1], sep := [3, 3], sr := [2, 2], pct := 64, minmass := 5 }

/-- the slice around the lost source (3,3) is the whole image (slice radius 4) -/
def recSl : Slice := ⟨[0, 0], [7, 7]⟩

example : wellFormed recCfg recImg = true := by decide +kernel
theorem rec_slice : getSlice recImg.shape (sliceRadius recCfg) [[3, 3]] = some recSl := by
  have h : (getSlice recImg.shape (sliceRadius recCfg) [[3, 3]]).map (fun s => (s.origin, s.shape))
      = some ([0, 0], [7, 7]) := by decide +kernel
  cases hs : getSlice recImg.shape (sliceRadius recCfg) [[3, 3]] with
  | none => rw [hs] at h; cases h
  | some s =>
    rw [hs] at h
    cases s
    simp only [Option.map_some, Option.some.injEq, Prod.mk.injEq] at h
    simp only [recSl, h.1, h.2]
example : percentileThr recImg recCfg.pct = some 2 := by decide +kernel
example : (dilationSize recCfg).length = (maskedImage recCfg recImg recSl [[3, 3]] []).shape.length := by
  decide +kernel

/-- the peak is the only raw candidate around a source one pixel to its left, empty hash … -/
theorem rec_raw : rawCandidates recCfg recImg recSl
    (maskedImage recCfg recImg recSl [[3, 3]] (queryPoints recCfg [] [[3, 3]])) 2 [[3, 3]]
      = [[3, 4]] := by decide +kernel

/-- … with the mass 9 + 2 + 2 + 2 + 2 of the radius-1 disc -/
theorem rec_mass : massAt (maskedImage recCfg recImg recSl [[3, 3]] (queryPoints recCfg [] [[3, 3]]))
    recCfg.radius [3, 4] = some 17 := by decide +kernel

/-- every hypothesis of `relocate_recovers_heaviest` holds for the peak pixel, so the theorem (not
an evaluation of the model) says that `relocate(pos, 1)` returns it -/
example : (relocateCandidates recCfg recImg [] [[3, 3]]).head? = some ([3, 4], 17)
    ∧ ([3, 4], 17) ∈ relocate recCfg recImg [] [[3, 3]] 1 := by
  have h := relocate_recovers_heaviest recCfg recImg [] [[3, 3]] recSl 2 1 (Nat.le_refl 1)
    rec_slice (by decide +kernel) (by decide +kernel) [3, 4] 17
    (by rw [rec_raw]; exact List.mem_singleton.mpr rfl)
    (by
      intro q' hq' hne
      rw [rec_raw] at hq'
      exact absurd (List.mem_singleton.mp hq') hne)
    rec_mass (by decide +kernel)
    (by
      intro q' v' hq' hne
      rw [rec_raw] at hq'
      exact absurd (List.mem_singleton.mp hq') hne)
  exact h
/-- … and so does the evaluation of the model -/
example : relocate recCfg recImg [] [[3, 3]] 1 = [([3, 4], 17)] := by decide +kernel
/-- the iff of `rawCandidates_complete`, right to left, on the peak -/
example : [3, 4] ∈ rawCandidates recCfg recImg recSl (maskedImage recCfg recImg recSl [[3, 3]] []) 2
    [[3, 3]] := by decide +kernel
/-- the count hypothesis of `relocate_recovers_all` with n = 1 -/
example : ((rawCandidates recCfg recImg recSl
    (maskedImage recCfg recImg recSl [[3, 3]] (queryPoints recCfg [] [[3, 3]])) 2 [[3, 3]]).filter
      (massOk recCfg (maskedImage recCfg recImg recSl [[3, 3]] (queryPoints recCfg [] [[3, 3]])))).length
    ≤ 1 := by decide +kernel

/-- two equally bright maxima (9) at (3,2) and (3,4), two pixels apart (< separation 3) -/
def tieImg : Image := ⟨[7, 7],
  #[0, 0, 0, 0, 0, 0, 0,
    0, 0, 0, 0, 0, 0, 0,
    0, 0, 1, 1, 1, 0, 0,
    0, 0, 9, 1, 9, 0, 0,
    0, 0, 1, 1, 1, 0, 0,
    0, 0, 0, 0, 0, 0, 0,
    0, 0, 0, 0, 0, 0, 0]⟩

/-- same slice as above (same shape, same source), threshold 1 -/
example : percentileThr tieImg recCfg.pct = some 1 ∧ tieImg.shape = recImg.shape := by decide +kernel

/-- **relocateIn_tie_witness.**  `Dominant` is sufficient, not necessary: on an intensity tie
`drop_close` keeps the feature with the larger key `Σ posᵢ/separationᵢ` (find.py:40-51), here
(3,4), which is returned although the equally bright raw candidate (3,2) is closer than
separation. -/
theorem relocateIn_tie_witness :
    relocateWith recCfg tieImg [] [[3, 3]] = [([3, 4], 12)] ∧
      ¬ Dominant recCfg (maskedImage recCfg tieImg recSl [[3, 3]] [])
        (rawCandidates recCfg tieImg recSl (maskedImage recCfg tieImg recSl [[3, 3]] []) 1 [[3, 3]])
        [3, 4] := by
  refine ⟨by decide +kernel, ?_⟩
  intro h
  have h1 := h [3, 2] (by decide +kernel) (by decide) (by decide +kernel)
  revert h1
  decide +kernel

end TrackpyV.Relocate
