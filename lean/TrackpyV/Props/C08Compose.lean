import TrackpyV.Props.C08
import TrackpyV.Props.C06
import TrackpyV.Props.C07
import TrackpyV.Proofs.Locate
/-!
# C08 (composition) — the two gaps of `Props/C08.lean` closed at the level of the composed model

New root module of C08; every theorem of `Props/C08.lean` is kept (imported).

**(1) "every returned feature lies inside the image" with no hypothesis about the refinement.**
`post_inside_image` (Props/C08) takes "every refined position is inside the image" as a
hypothesis.  Here that hypothesis is *proved* for the table the composed model produces
(`Locate.locateModel` = bandpass → convert_to_int → grey_dilation(margin) → refine_com, followed by
`LocateFull.rows`, the table `LocatePost` consumes), for ANY raw image, any parameters, with or
without preprocessing, under the model's own guard

* `Locate.locateModel P shape raw = some ms` (no stage refuses its arguments; this contains
  `Find.wellFormed`: one separation / margin entry per axis, the pixel array has `Π shape` entries), and
* `MarginCoversMask P shape`: one radius per axis and `radius_k ≤ margin_k` — what
  feature.py:L389-390 computes (`margin = max(radius, separation // 2 − 1, smoothing // 2)`).

Chain: `grey_dilation` only returns pixels that keep the margin (`Find.maxima_iff`, C06) ⇒ the
start mask box is inside the image (`start_inside`) ⇒ the clip keeps every evaluated mask inside
(`Refine.refine_mask_inside`, C07) ⇒ the reported position is a convex combination of pixels of that
mask, or the mask centre itself when the mask is black (`posAt_in_box_any`; C07's `posAt_in_box`
needs non-zero brightness, the black branch is added here) ⇒ `0 ≤ x_k ≤ shape_k − 1`
(`locate_positions_inside_image`) ⇒ the clause for every filter triple, ep included
(`locatePost_rows_inside_image`) and for `LocateFull.locateFull` (`locateFull_post_inside_image`).
Positions are `List Rat` on both sides (`Refine.Measure.pos`, `LocatePost.Feat.pos`): the bridge is
`toFeat_pos`, definitional.

**(2) topn = 1.**  `topn_monotone` (Props/C08) covers `2 ≤ n' ≤ n`.
`topn_one_mem_of_unique_max`: if any two rows of maximal mass (after the other filters) are the
same row, the row kept by `topn = 1` is among the rows kept by every `topn = n ≥ 1` and is the
heaviest of them (`topn_one_subperm_of_unique_max`: sub-multiset form, as `topn_monotone`).  The
proof uses nothing about how ties are ordered, so it holds for the code whatever permutation of
tied rows `np.argsort` returns.
`topn_one_tie_witness`: with three rows of equal maximal mass, `np.argmax` (first maximal row) and a
*stable* ascending `argsort` followed by `[-2:]` (last rows; what numpy does for fewer than 16
elements) disagree on membership.  The model's own `sortByMass` happens to put the *first* of tied
rows *last* (last conjuncts of the witness: it keeps rows 1 and 0), so on this table the model's
`topn = 1` row is kept by its `topn = 2`; the harness compares tied cuts as multisets of masses
("up to ties"), which is why the witness is stated for the order numpy really uses (`sortStable`,
`topnStable`, defined below for the witness only).
-/
namespace TrackpyV.C08Compose
open List TrackpyV TrackpyV.LocatePost

/-! ## (1) positions inside the image -/

/-- the clause "lies inside the image": one coordinate per axis, `0 ≤ x_k ≤ shape_k − 1` -/
def InsideImage (shape : List Nat) (pos : List Rat) : Prop :=
  pos.length = shape.length ∧
  ∀ i, i < shape.length → 0 ≤ pos.getD i 0 ∧ pos.getD i 0 ≤ ((shape.getD i 0 : Nat) : Rat) - 1

/-- guard on the arguments of `locate` (feature.py:L389-390): one radius per axis and the margin
handed to `grey_dilation` is at least the mask radius on every axis -/
def MarginCoversMask (P : Locate.Params) (shape : List Nat) : Prop :=
  P.radius.length = shape.length ∧ ∀ i, i < shape.length → P.radius.getD i 0 ≤ P.margin.getD i 0

/-- `Find.OutsideMargin` read axis by axis -/
theorem outsideMargin_getD (shape : List Nat) : ∀ (margin : List Nat) (p : Find.Pos),
    Find.OutsideMargin shape margin p →
    p.length = shape.length ∧ margin.length = shape.length ∧
    ∀ i, i < shape.length →
      margin.getD i 0 ≤ p.getD i 0 ∧ p.getD i 0 + margin.getD i 0 + 1 ≤ shape.getD i 0 := by
  induction shape with
  | nil =>
    intro margin p h
    cases margin <;> cases p <;> simp [Find.OutsideMargin] at h ⊢
  | cons n ns ih =>
    intro margin p h
    cases margin with
    | nil => cases p <;> simp [Find.OutsideMargin] at h
    | cons m ms =>
      cases p with
      | nil => simp [Find.OutsideMargin] at h
      | cons a p =>
        obtain ⟨h1, h2⟩ := h
        obtain ⟨l1, l2, hb⟩ := ih ms p h2
        refine ⟨by simp [l1], by simp [l2], ?_⟩
        intro i hi
        cases i with
        | zero => simpa using h1
        | succ j => simpa using hb j (by simpa using hi)

theorem getD_map_ofNat (p : List Nat) (i : Nat) :
    (p.map Int.ofNat).getD i 0 = ((p.getD i 0 : Nat) : Int) := by
  simp only [List.getD_eq_getElem?_getD, List.getElem?_map]
  cases p[i]? <;> simp

/-- a pixel that keeps a margin `≥ radius` is a start pixel whose mask box is inside the image -/
theorem start_inside (P : Locate.Params) (shape : List Nat) (p : Find.Pos)
    (hg : MarginCoversMask P shape) (hm : Find.OutsideMargin shape P.margin p) :
    Refine.Inside P.radius shape (p.map Int.ofNat) := by
  obtain ⟨hr, hle⟩ := hg
  obtain ⟨hp, _, hb⟩ := outsideMargin_getD shape P.margin p hm
  refine ⟨by rw [length_map, hp, hr], hr.symm, ?_⟩
  intro i hi
  rw [hr] at hi
  have h1 := hle i hi
  have h2 := hb i hi
  rw [getD_map_ofNat]
  constructor <;> omega

/-- `Refine.posAt_in_box` without the brightness hypothesis: on a black mask `_safe_center_of_mass`
reports the mask centre, which is the middle of the box. -/
theorem posAt_in_box_any (img : Refine.Image) (mask : List (List Nat)) (radius : List Nat)
    (c : List Int) (hmask : ∀ off ∈ mask, off ∈ Refine.boxOffsets radius)
    (i : Nat) (hi : i < radius.length) :
    (((Refine.origin radius c).getD i 0 : Int) : Rat) ≤ (Refine.posAt img mask radius c).getD i 0 ∧
    (Refine.posAt img mask radius c).getD i 0 ≤
      (((Refine.origin radius c).getD i 0 : Int) : Rat) + 2 * ((radius.getD i 0 : Nat) : Rat) := by
  have h0 : 0 ≤ Refine.massAt img mask (Refine.origin radius c) :=
    Refine.wsum_nonneg _ _ _ _ (fun _ _ => by norm_num)
  rcases lt_or_eq_of_le h0 with h | h
  · exact Refine.posAt_in_box img mask radius c hmask h i hi
  · rw [Refine.posAt_getD _ _ _ _ _ hi, Refine.origin_getD _ _ _ hi]
    unfold Refine.cmN
    rw [if_pos h.symm]
    have hr : (0 : Rat) ≤ ((radius.getD i 0 : Nat) : Rat) := Nat.cast_nonneg _
    push_cast
    constructor <;> linarith

/-- **C07 ⇒ the hypothesis of `post_inside_image`, one feature**: from a start pixel whose mask box
is inside the image, the position `refine_com` reports satisfies `0 ≤ x_k ≤ shape_k − 1` on every
axis — for every image, threshold and `max_iterations`, bright or black mask. -/
theorem refineOne_pos_inside (thr : Rat) (img raw : Refine.Image) (radius shape : List Nat)
    (maxIter : Nat) (start : List Int) (h : Refine.Inside radius shape start) :
    InsideImage shape (Refine.refineOne thr img raw radius shape maxIter start).pos := by
  have hin : Refine.Inside radius shape
      (Refine.lastCentre thr img (Refine.maskOffsets radius) radius shape (Refine.fuelOf maxIter) start) :=
    (Refine.refine_mask_inside thr img _ radius shape _ start h).2
  have hs : shape.length = radius.length := h.2.1
  refine ⟨?_, ?_⟩
  · show (Refine.posAt img _ radius _).length = shape.length
    simp [Refine.posAt, hs]
  · intro i hi
    rw [hs] at hi
    have hb := posAt_in_box_any img (Refine.maskOffsets radius) radius
      (Refine.lastCentre thr img (Refine.maskOffsets radius) radius shape (Refine.fuelOf maxIter) start)
      (fun off ho => Refine.maskOffsets_subset ho) i hi
    have hc := hin.2.2 i hi
    rw [Refine.origin_getD _ _ _ hi] at hb
    obtain ⟨hb1, hb2⟩ := hb
    obtain ⟨hc1, hc2⟩ := hc
    have hc1' : ((radius.getD i 0 : Nat) : Rat) ≤
        ((((Refine.lastCentre thr img (Refine.maskOffsets radius) radius shape
          (Refine.fuelOf maxIter) start).getD i 0 : Int)) : Rat) := by exact_mod_cast hc1
    have hc2' : ((((Refine.lastCentre thr img (Refine.maskOffsets radius) radius shape
          (Refine.fuelOf maxIter) start).getD i 0 : Int)) : Rat) ≤
        ((shape.getD i 0 : Nat) : Rat) - 1 - ((radius.getD i 0 : Nat) : Rat) := by exact_mod_cast hc2
    push_cast at hb1 hb2
    show 0 ≤ (Refine.posAt img _ radius _).getD i 0 ∧
      (Refine.posAt img _ radius _).getD i 0 ≤ ((shape.getD i 0 : Nat) : Rat) - 1
    constructor <;> linarith

/-- the bridge between the two representations of a row: `LocatePost` sees the position
`refine_com` reported, unchanged (both are `List Rat`) -/
theorem toFeat_pos (x : Nat × Refine.Measure) : (LocateFull.toFeat x).pos = x.2.pos := rfl

/-- every maximum `grey_dilation(…, margin, precise=False)` returns keeps the margin -/
theorem greyDilation_mem_outsideMargin (img : Find.Image) (sep : List Rat) (pct : Rat)
    (margin : List Nat) (R : List Find.Pos)
    (hR : Find.greyDilation img sep pct (some margin) false = some R) (p : Find.Pos) (hp : p ∈ R) :
    Find.OutsideMargin img.shape margin p := by
  obtain ⟨thr, hthr⟩ : ∃ thr, Find.percentileThr img pct = some thr := by
    obtain ⟨_, hcase⟩ := Find.greyDilationK_some hR
    rcases hcase with ⟨_, rfl⟩ | ⟨thr, hthr, _⟩
    · simp at hp
    · exact ⟨thr, hthr⟩
  exact ((Find.maxima_iff img sep pct (some margin) R thr hR hthr p).mp hp).2.2.2

/-- **locate_positions_inside_image.**  The hypothesis of `post_inside_image`, proved for the
composed model: on ANY raw image, for any parameters (preprocessing on or off), every row of the
table `refine_com` hands to the post-filters has its refined position inside the image,
`0 ≤ x_k ≤ shape_k − 1` on every axis.  Guards: the model answers (`hloc`) and the margin covers
the mask (`hg`); nothing is assumed about the refinement or the brightness. -/
theorem locate_positions_inside_image (P : Locate.Params) (shape : List Nat) (raw : Array Nat)
    (ms : List Refine.Measure) (hloc : Locate.locateModel P shape raw = some ms)
    (hg : MarginCoversMask P shape) :
    ∀ f ∈ LocateFull.rows ms, InsideImage shape f.pos := by
  intro f hf
  unfold Locate.locateModel at hloc
  cases hw : Locate.workImage P shape raw with
  | none => simp [hw] at hloc
  | some work =>
    cases hgd : Find.greyDilation ⟨shape, work⟩ P.sep P.pct (some P.margin) false with
    | none => simp [hw, hgd] at hloc
    | some coords =>
      simp only [hw, hgd, Option.some.injEq] at hloc
      subst hloc
      unfold LocateFull.rows at hf
      obtain ⟨x, hx, rfl⟩ := mem_map.mp hf
      have hx2 := Find.mem_indexFrom_snd hx
      obtain ⟨p, hp, hxp⟩ := mem_map.mp hx2
      rw [toFeat_pos, ← hxp]
      have hm : Find.OutsideMargin shape P.margin p :=
        greyDilation_mem_outsideMargin ⟨shape, work⟩ P.sep P.pct P.margin coords hgd p hp
      exact refineOne_pos_inside _ _ _ _ _ _ _ (start_inside P shape p hg hm)

/-- **Clause "every feature returned lies inside the image", composed model, every filter triple.**
`post_inside_image` with its hypothesis discharged: every row `locate` returns on the table of the
composed model — after de-duplication, rescaling, minmass / maxsize / topn and with its ep cells —
lies inside the image. -/
theorem locatePost_rows_inside_image (N : Noise) (scale : Rat) (F : Filt)
    (P : Locate.Params) (shape : List Nat) (raw : Array Nat) (ms : List Refine.Measure)
    (hloc : Locate.locateModel P shape raw = some ms) (hg : MarginCoversMask P shape) :
    ∀ o ∈ locatePost N P.sep scale F (LocateFull.rows ms), InsideImage shape o.feat.pos :=
  post_inside_image N P.sep scale F (LocateFull.rows ms) (InsideImage shape)
    (locate_positions_inside_image P shape raw ms hloc hg)

/-- `LocateFull.locateFull` is `locateModel` followed by `locatePost` with the triple
`(minmass, None, None)`, ep cells dropped (for any noise measurement). -/
theorem locateFull_eq_locatePost (N : Noise) (P : Locate.Params) (scale minmass : Rat)
    (shape : List Nat) (raw : Array Nat) :
    LocateFull.locateFull P scale minmass shape raw =
      (Locate.locateModel P shape raw).map (fun ms =>
        (locatePost N P.sep scale ⟨minmass, none, none⟩ (LocateFull.rows ms)).map (·.feat)) := by
  unfold LocateFull.locateFull
  congr 1
  funext ms
  simp [locatePost, select, topnSel, withEp, Function.comp_def]

/-- **locateFull_post_inside_image.**  The clause for the composed model `LocateFull.locateFull`
(bandpass → convert_to_int → grey_dilation → refine_com → where_close → rescale → minmass), with
no hypothesis about the refinement: whenever the model answers and the margin covers the mask,
every feature it reports lies inside the image. -/
theorem locateFull_post_inside_image (P : Locate.Params) (scale minmass : Rat) (shape : List Nat)
    (raw : Array Nat) (fs : List Feat)
    (h : LocateFull.locateFull P scale minmass shape raw = some fs) (hg : MarginCoversMask P shape) :
    ∀ f ∈ fs, InsideImage shape f.pos := by
  intro f hf
  rw [locateFull_eq_locatePost ⟨none, none, 0, true, [], []⟩] at h
  cases hloc : Locate.locateModel P shape raw with
  | none => simp [hloc] at h
  | some ms =>
    simp only [hloc, Option.map_some, Option.some.injEq] at h
    subst h
    obtain ⟨o, ho, rfl⟩ := mem_map.mp hf
    exact locatePost_rows_inside_image _ scale _ P shape raw ms hloc hg o ho

/-! ## (2) topn = 1 -/

/-- Feat-level core: under "any two rows of maximal mass are the same row", the row `argmax`
picks is among the rows kept for every `n ≥ 1`, and no kept row is heavier. -/
theorem topnSel_one_mem {n : Nat} (hn : 1 ≤ n) (l : List Feat)
    (huniq : ∀ a ∈ l, ∀ b ∈ l, (∀ c ∈ l, c.mass ≤ a.mass) → (∀ c ∈ l, c.mass ≤ b.mass) → a = b) :
    ∀ x ∈ topnSel (some 1) l, x ∈ topnSel (some n) l ∧ ∀ y ∈ topnSel (some n) l, y.mass ≤ x.mass := by
  intro x hx
  -- `x` is a row of maximal mass
  have hxmax : x ∈ l ∧ ∀ y ∈ l, y.mass ≤ x.mass := by
    unfold topnSel at hx
    simp only [if_true] at hx
    by_cases hlen : l.length > 1
    · rw [if_pos hlen] at hx
      cases hm : argmaxFirst l with
      | none => simp [hm] at hx
      | some m =>
        simp only [hm, Option.toList_some, mem_singleton] at hx
        subst hx
        exact argmaxFirst_spec l x hm
    · rw [if_neg hlen] at hx
      refine ⟨hx, ?_⟩
      intro y hy
      have : l = [x] := by
        cases l with
        | nil => simp at hx
        | cons a t =>
          cases t with
          | nil => simp at hx; subst hx; rfl
          | cons b t => simp at hlen
      subst this
      simp only [mem_singleton] at hy
      subst hy
      exact le_refl _
  obtain ⟨hxl, hmax⟩ := hxmax
  refine ⟨?_, fun y hy => hmax y (topnSel_subset hy)⟩
  obtain ⟨d, hperm, hsplit⟩ := topnSel_split (some n) l
  have hx' : x ∈ topnSel (some n) l ++ d := hperm.mem_iff.mpr hxl
  rcases mem_append.mp hx' with hk | hd
  · exact hk
  · -- `x` dropped: some kept row `k` is at least as heavy, hence maximal, hence `x` itself
    have hlenk : (topnSel (some n) l).length = min n l.length := topnSel_length_eq n hn l
    have hlpos : 0 < l.length := length_pos_of_mem hxl
    have hne : topnSel (some n) l ≠ [] := by
      intro he
      rw [he] at hlenk
      simp at hlenk
      omega
    obtain ⟨k, hk⟩ := exists_mem_of_ne_nil _ hne
    have hkx : x.mass ≤ k.mass := hsplit ⟨n, rfl, hn⟩ k hk x hd
    have hkl : k ∈ l := topnSel_subset hk
    have hkmax : ∀ c ∈ l, c.mass ≤ k.mass := fun c hc => le_trans (hmax c hc) hkx
    have : k = x := huniq k hkl x hxl hkmax hmax
    rw [← this]
    exact hk

/-- **topn_one_mem_of_unique_max** (the case `n' = 1` of `topn_monotone`).  Let `U` be the result
without topn (the rows left by the other filters).  If the maximal mass of `U` is attained by one
row only — any two rows of `U` that are both at least as heavy as every row of `U` are the same
row — then the row returned with `topn = 1` is among the rows returned with every `topn = n ≥ 1`,
and it is their heaviest.  Nothing is assumed about the order `argsort` gives tied rows. -/
theorem topn_one_mem_of_unique_max (N : Noise) (sep : List Rat) (scale : Rat)
    (mm : Rat) (ms : Option Rat) (n : Nat) (hn : 1 ≤ n) (l : List Feat)
    (huniq : ∀ a ∈ locatePost N sep scale ⟨mm, ms, none⟩ l,
             ∀ b ∈ locatePost N sep scale ⟨mm, ms, none⟩ l,
      (∀ c ∈ locatePost N sep scale ⟨mm, ms, none⟩ l, c.feat.mass ≤ a.feat.mass) →
      (∀ c ∈ locatePost N sep scale ⟨mm, ms, none⟩ l, c.feat.mass ≤ b.feat.mass) → a = b) :
    ∀ o ∈ locatePost N sep scale ⟨mm, ms, some 1⟩ l,
      o ∈ locatePost N sep scale ⟨mm, ms, some n⟩ l ∧
      ∀ o' ∈ locatePost N sep scale ⟨mm, ms, some n⟩ l, o'.feat.mass ≤ o.feat.mass := by
  unfold locatePost select at *
  simp only [topnSel] at huniq
  generalize massSizeFilter mm ms (stage12 sep scale l) = L at *
  have huniq' : ∀ a ∈ L, ∀ b ∈ L, (∀ c ∈ L, c.mass ≤ a.mass) → (∀ c ∈ L, c.mass ≤ b.mass) → a = b := by
    intro a ha b hb hamax hbmax
    have := huniq (withEp N a) (mem_map_of_mem ha) (withEp N b) (mem_map_of_mem hb)
      (by intro c hc; obtain ⟨c', hc', rfl⟩ := mem_map.mp hc; exact hamax c' hc')
      (by intro c hc; obtain ⟨c', hc', rfl⟩ := mem_map.mp hc; exact hbmax c' hc')
    exact congrArg Out.feat this
  intro o ho
  obtain ⟨x, hx, rfl⟩ := mem_map.mp ho
  obtain ⟨h1, h2⟩ := topnSel_one_mem hn L huniq' x hx
  refine ⟨mem_map_of_mem h1, ?_⟩
  intro o' ho'
  obtain ⟨y, hy, rfl⟩ := mem_map.mp ho'
  exact h2 y hy

/-- the same as a sub-multiset statement, the form of `topn_monotone`: with a unique row of
maximal mass, lowering topn to 1 yields a sub-multiset of the result for any `n ≥ 1`. -/
theorem topn_one_subperm_of_unique_max (N : Noise) (sep : List Rat) (scale : Rat)
    (mm : Rat) (ms : Option Rat) (n : Nat) (hn : 1 ≤ n) (l : List Feat)
    (huniq : ∀ a ∈ locatePost N sep scale ⟨mm, ms, none⟩ l,
             ∀ b ∈ locatePost N sep scale ⟨mm, ms, none⟩ l,
      (∀ c ∈ locatePost N sep scale ⟨mm, ms, none⟩ l, c.feat.mass ≤ a.feat.mass) →
      (∀ c ∈ locatePost N sep scale ⟨mm, ms, none⟩ l, c.feat.mass ≤ b.feat.mass) → a = b) :
    (locatePost N sep scale ⟨mm, ms, some 1⟩ l).Subperm (locatePost N sep scale ⟨mm, ms, some n⟩ l) := by
  have hlen : (locatePost N sep scale ⟨mm, ms, some 1⟩ l).length ≤ 1 :=
    topn_length_le N sep scale mm ms 1 (le_refl 1) l
  have hmem := topn_one_mem_of_unique_max N sep scale mm ms n hn l huniq
  cases hL : locatePost N sep scale ⟨mm, ms, some 1⟩ l with
  | nil => exact (nil_sublist _).subperm
  | cons o t =>
    rw [hL] at hlen hmem
    have ht : t = [] := by
      cases t with
      | nil => rfl
      | cons _ _ => simp at hlen
    subst ht
    exact (singleton_sublist.mpr (hmem o (by simp)).1).subperm

/-! ### the tied case -/

/-- stable ascending insertion sort (ties keep their row order): the permutation `np.argsort`
returns on fewer than 16 rows -/
def insertStable (r : Feat) : List Feat → List Feat
  | [] => [r]
  | a :: l => if r.mass ≤ a.mass then r :: a :: l else a :: insertStable r l

def sortStable (l : List Feat) : List Feat := l.foldr insertStable []

/-- feature.py:432-439 with the stable `argsort` -/
def topnStable (n : Nat) (l : List Feat) : List Feat :=
  if l.length > n then
    if n = 1 then (argmaxFirst l).toList else (sortStable l).drop (l.length - n)
  else l

/-- three rows of the same, maximal, mass and a light one -/
def tieTable : List Feat :=
  [ ⟨0, [10, 10], 500, none, none, 900, []⟩,
    ⟨1, [20, 10], 500, none, none, 900, []⟩,
    ⟨2, [30, 10], 500, none, none, 900, []⟩,
    ⟨3, [40, 10], 100, none, none, 300, []⟩ ]

/-- **topn_one_tie_witness.**  Why `topn_one_mem_of_unique_max` needs its hypothesis: on
`tieTable` `np.argmax` keeps row 0, the stable `argsort(mass)[-2:]` keeps rows 1 and 2 — the row of
`topn = 1` is NOT among the rows of `topn = 2`, although both answers are "heaviest rows"
(`topn_are_heaviest`).  Last conjuncts: what the model's `topnSel` does on the same table — its
`sortByMass` puts the first of tied rows last, so it keeps rows 1 and 0 (a different, equally
heavy, choice: "up to ties") and the disagreement does not show on the model itself. -/
theorem topn_one_tie_witness :
    (topnStable 1 tieTable).map (·.tag) = [0] ∧
    (topnStable 2 tieTable).map (·.tag) = [1, 2] ∧
    (∃ x ∈ topnStable 1 tieTable, x ∉ topnStable 2 tieTable) ∧
    (topnSel (some 1) tieTable).map (·.tag) = [0] ∧
    (topnSel (some 2) tieTable).map (·.tag) = [1, 0] ∧
    (topnSel (some 2) tieTable).map (·.mass) = (topnStable 2 tieTable).map (·.mass) := by
  decide +kernel

/-! ## non-vacuity -/

section Examples

/-- a 6×7 image with one lop-sided blob next to the lower border and a second blob -/
def exData : Array Nat :=
  #[0, 0, 0, 0, 0, 0, 0,
    0, 9, 5, 0, 0, 0, 0,
    0, 2, 1, 0, 0, 0, 0,
    0, 0, 0, 0, 3, 0, 0,
    0, 0, 0, 1, 7, 6, 0,
    0, 0, 0, 0, 0, 0, 0]

def exParams : Locate.Params :=
  { preprocess := false, lshort := [1, 1], kernels := [], llong := [3, 3], thr := none,
    sep := [2, 2], pct := 64, margin := [1, 1], radius := [1, 1], shiftThr := 3 / 5, maxIter := 10 }

/-- the guard holds … -/
example : MarginCoversMask exParams [6, 7] := by
  refine ⟨rfl, ?_⟩
  intro i hi
  have : i = 0 ∨ i = 1 := by simp at hi; omega
  rcases this with rfl | rfl <;> decide

/-- … the model answers, with three features at non-integer positions (masks touching the border;
the last two are one flat-topped blob found twice) … -/
example : ((Locate.locateModel exParams [6, 7] exData).map (·.map (fun f => (f.centre, f.pos))))
    = some [([1, 1], [9/8, 21/16]), ([4, 4], [65/17, 73/17]), ([4, 5], [4, 58/13])] := by
  decide +kernel

/-- … and `locateFull` reports two rows (the duplicate is dropped), so
`locateFull_post_inside_image` is not about an empty table -/
example : ((LocateFull.locateFull exParams 1 10 [6, 7] exData).map (·.map (fun f => f.tag)))
    = some [0, 1] := by decide +kernel

/-- unique maximum: hypothesis of `topn_one_mem_of_unique_max` on `exTable` (masses 150, 400, 50) -/
example : ∀ a ∈ locatePost exNoise [8, 8] 2 ⟨0, none, none⟩ exTable,
    ∀ b ∈ locatePost exNoise [8, 8] 2 ⟨0, none, none⟩ exTable,
      (∀ c ∈ locatePost exNoise [8, 8] 2 ⟨0, none, none⟩ exTable, c.feat.mass ≤ a.feat.mass) →
      (∀ c ∈ locatePost exNoise [8, 8] 2 ⟨0, none, none⟩ exTable, c.feat.mass ≤ b.feat.mass) → a = b := by
  decide +kernel

/-- and its conclusion is about a real row: topn = 1 keeps row 2, topn = 2 keeps rows 1 and 2 -/
example : (locatePost exNoise [8, 8] 2 ⟨0, none, some 1⟩ exTable).map (·.feat.tag) = [2] ∧
    (locatePost exNoise [8, 8] 2 ⟨0, none, some 2⟩ exTable).map (·.feat.tag) = [1, 2] := by
  decide +kernel

end Examples

end TrackpyV.C08Compose
