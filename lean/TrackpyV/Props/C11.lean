import TrackpyV.Props.C01
/-!
# C11 — a predictor only moves the search origin

Model: `Cfg.vel = some v` makes the monitor (and hence every statement about accepted movies)
look at each source at `pos + v·(t − t_obs)` — the prediction uses each source's OWN observation
time, which is what makes remembered points work (mirrors `set_predictor` on the previous hash +
`coords_predict` in `rebuild`).

* `stepCheck_drift` : one step on the drifted data with the drift predictor is, verdict for
  verdict, the step on the undrifted data without predictor (states correspond point-wise up to
  `+ v·t_obs`).  No bound relating `v` to the search range is needed.
* `acceptsFrom_drift`, `accepts_drift` : hence a labelling is accepted for the drifted movie with
  predictor iff it is accepted for the undrifted movie without: same candidate graphs, same
  costs, same optimal assignments, same partitions.
* `null_predictor_eq` : the zero-velocity predictor (NullPredict) changes nothing at all.
* uniqueness of labels with ANY predictor is `accepted_valid` (Props/C01), which holds for every
  `cfg`, in particular every `vel`.
-/
namespace TrackpyV.Linker
open TrackpyV.Assign

def withVel (cfg : Cfg) (v : Option (List Int)) : Cfg := { cfg with vel := v }

/-- add the drift `v·t` to a position -/
def shiftPos (v : List Int) (t : Int) (p : Pos) : Pos := List.zipWith (fun x vi => x + vi * t) p v

def shiftSrc (v : List Int) (s : Source) : Source := { s with pos := shiftPos v s.t s.pos }

def shiftState (v : List Int) (st : State) : State := { st with srcs := st.srcs.map (shiftSrc v) }

def Verdict.mapState (f : State → State) : Verdict → Verdict
  | .ok st c r b cap => .ok (f st) c r b cap
  | x => x

theorem any_congr_mem {α} {l : List α} {p q : α → Bool} (h : ∀ a ∈ l, p a = q a) :
    l.any p = l.any q := by
  induction l with
  | nil => rfl
  | cons a l ih =>
    simp only [List.any_cons, h a (List.mem_cons_self ..)]
    rw [ih (fun b hb => h b (List.mem_cons_of_mem _ hb))]

theorem all_congr_mem {α} {l : List α} {p q : α → Bool} (h : ∀ a ∈ l, p a = q a) :
    l.all p = l.all q := by
  induction l with
  | nil => rfl
  | cons a l ih =>
    simp only [List.all_cons, h a (List.mem_cons_self ..)]
    rw [ih (fun b hb => h b (List.mem_cons_of_mem _ hb))]

theorem filterMap_congr_mem {α β} {l : List α} {f g : α → Option β} (h : ∀ a ∈ l, f a = g a) :
    l.filterMap f = l.filterMap g := by
  induction l with
  | nil => rfl
  | cons a l ih =>
    simp only [List.filterMap_cons, h a (List.mem_cons_self ..)]
    rw [ih (fun b hb => h b (List.mem_cons_of_mem _ hb))]

/-- positions have at most as many coordinates as the velocity (so no coordinate is dropped) -/
def PosOK (v : List Int) (p : Pos) : Prop := p.length ≤ v.length

theorem shiftPos_length (v : List Int) (t : Int) (p : Pos) (h : PosOK v p) :
    (shiftPos v t p).length = p.length := by
  simp only [shiftPos, List.length_zipWith]
  unfold PosOK at h; omega

/-- predicted position of a drifted source = drifted position of the original source -/
theorem view_shift (cfg : Cfg) (v : List Int) (t : Int) (s : Source) (h : PosOK v s.pos) :
    view (withVel cfg (some v)) t (shiftSrc v s) = shiftPos v t s.pos := by
  simp only [view, withVel, shiftSrc, shiftPos]
  unfold PosOK at h
  generalize s.pos = p at h
  induction p generalizing v with
  | nil => simp
  | cons x xs ih =>
    cases v with
    | nil => simp at h
    | cons vi vs =>
      simp only [List.zipWith_cons_cons, List.cons.injEq]
      refine ⟨?_, ih vs (by simpa using h)⟩
      rw [Int.add_assoc, ← Int.mul_add]
      congr 2
      omega

theorem view_none (cfg : Cfg) (t : Int) (s : Source) : view (withVel cfg none) t s = s.pos := by
  simp [view, withVel]

theorem sqI_sub_shift (a b c : Int) : sqI ((a + c) - (b + c)) = sqI (a - b) := by
  congr 1; omega

/-- the weighted distance is invariant under a common shift -/
theorem dist2_shift (w : List Nat) (v : List Int) (t : Int) (p q : Pos)
    (hp : PosOK v p) (hq : PosOK v q) :
    dist2 w (shiftPos v t p) (shiftPos v t q) = dist2 w p q := by
  unfold PosOK at hp hq
  induction w generalizing p q v with
  | nil => simp [dist2]
  | cons w0 ws ih =>
    cases p with
    | nil => simp [shiftPos, dist2]
    | cons p0 ps =>
      cases q with
      | nil => simp [shiftPos, dist2]
      | cons q0 qs =>
        cases v with
        | nil => simp at hp
        | cons v0 vs =>
          simp only [shiftPos, List.zipWith_cons_cons, dist2]
          rw [sqI_sub_shift]
          have := ih vs ps qs (by simpa using hp) (by simpa using hq)
          simp only [shiftPos] at this
          rw [this]

theorem dist_view_shift (cfg : Cfg) (v : List Int) (t : Int) (s : Source) (q : Pos)
    (hs : PosOK v s.pos) (hq : PosOK v q) :
    dist2 (withVel cfg (some v)).w (view (withVel cfg (some v)) t (shiftSrc v s)) (shiftPos v t q) =
    dist2 (withVel cfg none).w (view (withVel cfg none) t s) q := by
  rw [view_shift cfg v t s hs, view_none]
  exact dist2_shift cfg.w v t s.pos q hs hq

/-- well-formedness of a state / a level w.r.t. the velocity's dimension -/
def StateOK (v : List Int) (st : State) : Prop := ∀ s ∈ st.srcs, PosOK v s.pos
def DstsOK (v : List Int) (dsts : List Pos) : Prop := ∀ q ∈ dsts, PosOK v q

theorem distRow_shift (cfg : Cfg) (v : List Int) (t : Int) (dsts : List Pos) (s : Source)
    (hs : PosOK v s.pos) (hd : DstsOK v dsts) :
    distRow (withVel cfg (some v)) t (dsts.map (shiftPos v t)) (shiftSrc v s) =
    distRow (withVel cfg none) t dsts s := by
  simp only [distRow, List.map_map]
  apply List.map_congr_left
  intro q hq
  exact dist_view_shift cfg v t s q hs (hd q hq)

theorem stepCands_shift (cfg : Cfg) (v : List Int) (t : Int) (dsts : List Pos) (st : State)
    (hs : StateOK v st) (hd : DstsOK v dsts) :
    stepCands (withVel cfg (some v)) (shiftState v st) t (dsts.map (shiftPos v t)) =
    stepCands (withVel cfg none) st t dsts := by
  simp only [stepCands, shiftState, List.map_map]
  apply List.map_congr_left
  intro s hsm
  simp only [Function.comp, candsOf]
  rw [distRow_shift cfg v t dsts s (hs s hsm) hd]
  rfl

theorem stepGroups_shift (cfg : Cfg) (v : List Int) (t : Int) (dsts : List Pos) (st : State)
    (hs : StateOK v st) (hd : DstsOK v dsts) :
    stepGroups (withVel cfg (some v)) (shiftState v st) t (dsts.map (shiftPos v t)) =
    stepGroups (withVel cfg none) st t dsts := by
  simp only [stepGroups, stepCands_shift cfg v t dsts st hs hd, List.length_map]

theorem nNeighbors_shift (cfg : Cfg) (v : List Int) (t : Int) (st : State) (q : Pos)
    (hs : StateOK v st) (hq : PosOK v q) :
    nNeighbors (withVel cfg (some v)) t (shiftState v st).srcs (shiftPos v t q) =
    nNeighbors (withVel cfg none) t st.srcs q := by
  simp only [nNeighbors, shiftState, List.filter_map, List.length_map]
  congr 1
  apply List.filter_congr
  intro s hsm
  simp only [Function.comp]
  rw [dist_view_shift cfg v t s q (hs s hsm) hq]
  rfl

theorem cappedB_shift (cfg : Cfg) (v : List Int) (t : Int) (dsts : List Pos) (st : State)
    (hs : StateOK v st) (hd : DstsOK v dsts) :
    cappedB (withVel cfg (some v)) (shiftState v st) t (dsts.map (shiftPos v t)) =
    cappedB (withVel cfg none) st t dsts := by
  simp only [cappedB, List.any_map]
  apply any_congr_mem
  intro q hq
  simp only [Function.comp]
  rw [nNeighbors_shift cfg v t st q hs (hd q hq)]
  rfl

theorem tracks_shift (v : List Int) (st : State) :
    (shiftState v st).srcs.map (·.track) = st.srcs.map (·.track) := by
  simp [shiftState, shiftSrc, Function.comp]

theorem freshLabels_shift (v : List Int) (st : State) (labels : List Nat) :
    freshLabels (shiftState v st) labels = freshLabels st labels := by
  simp only [freshLabels, tracks_shift]

theorem find_shift (v : List Int) (st : State) (l : Nat) :
    (shiftState v st).srcs.find? (fun s => s.track == l) =
    (st.srcs.find? (fun s => s.track == l)).map (shiftSrc v) := by
  simp only [shiftState, List.find?_map]
  rfl

theorem linksOkB_shift (cfg : Cfg) (v : List Int) (t : Int) (dsts : List Pos) (st : State)
    (labels : List Nat) (hs : StateOK v st) (hd : DstsOK v dsts) :
    linksOkB (withVel cfg (some v)) (shiftState v st) t (dsts.map (shiftPos v t)) labels =
    linksOkB (withVel cfg none) st t dsts labels := by
  simp only [linksOkB]
  have hz : (dsts.map (shiftPos v t)).zip labels =
      (dsts.zip labels).map (fun x => (shiftPos v t x.1, x.2)) := by
    rw [show labels = labels.map id by simp, List.zip_map]
    simp [Prod.map]
  rw [hz, List.all_map]
  apply all_congr_mem
  intro x hx
  obtain ⟨q, l⟩ := x
  simp only [Function.comp, find_shift]
  cases hf : st.srcs.find? (fun s => s.track == l) with
  | none => simp
  | some s =>
    simp only [Option.map_some]
    have hsm : s ∈ st.srcs := List.mem_of_find?_eq_some hf
    have hq : q ∈ dsts := (List.of_mem_zip hx).1
    rw [dist_view_shift cfg v t s q (hs s hsm) (hd q hq)]
    rfl

theorem validWhy_shift (cfg : Cfg) (v : List Int) (t : Int) (dsts : List Pos) (st : State)
    (labels : List Nat) (hs : StateOK v st) (hd : DstsOK v dsts) :
    validWhy (withVel cfg (some v)) (shiftState v st) t (dsts.map (shiftPos v t)) labels =
    validWhy (withVel cfg none) st t dsts labels := by
  simp only [validWhy, List.length_map, freshLabels_shift, linksOkB_shift cfg v t dsts st labels hs hd]
  rfl

theorem getElem?_shift (v : List Int) (st : State) (i : Nat) :
    (shiftState v st).srcs[i]? = (st.srcs[i]?).map (shiftSrc v) := by
  simp [shiftState]

theorem gAsg_shift (cfg : Cfg) (v : List Int) (st : State) (labels : List Nat)
    (cands : List (List Cand)) (groups : List Group) :
    gAsg (withVel cfg (some v)) (shiftState v st) labels cands groups =
    gAsg (withVel cfg none) st labels cands groups := by
  simp only [gAsg]
  apply List.map_congr_left
  intro g _
  apply List.map_congr_left
  intro i _
  simp only [asgOf, getElem?_shift]
  cases st.srcs[i]? with
  | none => rfl
  | some s => rfl

theorem optWhy_shift (cfg : Cfg) (v : List Int) (t : Int) (dsts : List Pos) (st : State)
    (labels : List Nat) (hs : StateOK v st) (hd : DstsOK v dsts) :
    optWhy (withVel cfg (some v)) (shiftState v st) t (dsts.map (shiftPos v t)) labels =
    optWhy (withVel cfg none) st t dsts labels := by
  simp only [optWhy, stepCands_shift cfg v t dsts st hs hd, stepGroups_shift cfg v t dsts st hs hd,
    gAsg_shift]
  rfl

theorem nextState_shift (cfg : Cfg) (v : List Int) (t : Int) (dsts : List Pos) (st : State)
    (labels : List Nat) :
    nextState (withVel cfg (some v)) (shiftState v st) t (dsts.map (shiftPos v t)) labels =
    shiftState v (nextState (withVel cfg none) st t dsts labels) := by
  simp only [nextState, shiftState, List.map_append, State.mk.injEq, and_true]
  congr 1
  · -- the new level
    have hz : (dsts.map (shiftPos v t)).zip labels =
        (dsts.zip labels).map (fun x => (shiftPos v t x.1, x.2)) := by
      rw [show labels = labels.map id by simp, List.zip_map]
      simp [Prod.map]
    rw [hz, List.map_map, List.map_map]
    apply List.map_congr_left
    intro x _
    simp [shiftSrc]
  · -- the remembered sources
    rw [List.filterMap_map, List.map_filterMap]
    apply filterMap_congr_mem
    intro s _
    simp only [Function.comp, shiftSrc, withVel]
    by_cases h1 : s.track ∈ labels
    · simp [h1]
    · by_cases h2 : s.age < cfg.memory
      · simp [h1, h2, shiftSrc]
      · simp [h1, h2]

theorem nextState_ok (cfg : Cfg) (v : List Int) (t : Int) (dsts : List Pos) (st : State)
    (labels : List Nat) (hs : StateOK v st) (hd : DstsOK v dsts) :
    StateOK v (nextState cfg st t dsts labels) := by
  intro s hsm
  rw [nextState_srcs] at hsm
  rcases List.mem_append.mp hsm with h | h
  · obtain ⟨hz, _, _⟩ := mem_lvlSrcs h
    exact hd _ (List.of_mem_zip hz).1
  · obtain ⟨s0, hs0, _, _, rfl⟩ := mem_keptSrcs h
    exact hs s0 hs0

/-- **One step.**  Drifted data + drift predictor ≡ undrifted data, no predictor. -/
theorem stepCheck_drift (cfg : Cfg) (v : List Int) (st : State) (t : Int) (dsts : List Pos)
    (labels? : Option (List Nat)) (hs : StateOK v st) (hd : DstsOK v dsts) :
    stepCheck (withVel cfg (some v)) (shiftState v st) t (dsts.map (shiftPos v t)) labels? =
    (stepCheck (withVel cfg none) st t dsts labels?).mapState (shiftState v) := by
  unfold stepCheck
  simp only [stepGroups_shift cfg v t dsts st hs hd, cappedB_shift cfg v t dsts st hs hd]
  have hover : oversizeB (withVel cfg (some v)) (stepGroups (withVel cfg none) st t dsts) =
      oversizeB (withVel cfg none) (stepGroups (withVel cfg none) st t dsts) := rfl
  rw [hover]
  cases labels? with
  | none =>
    simp only [stepCands_shift cfg v t dsts st hs hd]
    have hnc : (withVel cfg (some v)).numbaCap = (withVel cfg none).numbaCap := rfl
    rw [hnc]
    split
    · rfl
    · split
      · rfl
      · split <;> rfl
  | some labels =>
    simp only [validWhy_shift cfg v t dsts st labels hs hd, optWhy_shift cfg v t dsts st labels hs hd,
      freshLabels_shift, nextState_shift]
    split
    · rfl
    · split
      · rfl
      · have hno : (withVel cfg (some v)).noOpt = (withVel cfg none).noOpt := rfl
        have hrel : ((shiftState v st).srcs.filter (fun s => decide (s.age > 0) && labels.contains s.track)).length
            = (st.srcs.filter (fun s => decide (s.age > 0) && labels.contains s.track)).length := by
          simp only [shiftState, List.filter_map, List.length_map]
          rfl
        rw [hno, hrel]
        split
        · rfl
        · split <;> rfl

/-- drift a labelled level -/
def shiftLevel (v : List Int) (lv : LLevel) : LLevel :=
  { lv with dsts := lv.dsts.map (shiftPos v lv.t) }

/-- **Whole movies, any memory, any velocity.**  From corresponding states, the drifted levels
are accepted with the drift predictor iff the undrifted levels are accepted without predictor
(with the same labels, i.e. the same partition into trajectories). -/
theorem acceptsFrom_drift (cfg : Cfg) (v : List Int) (lls : List LLevel) (st : State)
    (hs : StateOK v st) (hd : ∀ lv ∈ lls, DstsOK v lv.dsts) :
    AcceptsFrom (withVel cfg (some v)) (shiftState v st) (lls.map (shiftLevel v)) ↔
    AcceptsFrom (withVel cfg none) st lls := by
  induction lls generalizing st with
  | nil => simp [AcceptsFrom]
  | cons lv rest ih =>
    have hd0 := hd lv (List.mem_cons_self ..)
    have hdr : ∀ l ∈ rest, DstsOK v l.dsts := fun l hl => hd l (List.mem_cons_of_mem _ hl)
    simp only [List.map_cons, AcceptsFrom, shiftLevel]
    rw [stepCheck_drift cfg v st lv.t lv.dsts (some lv.labels) hs hd0]
    constructor
    · rintro ⟨st', c, r, b, cap, h1, h2⟩
      cases hsc : stepCheck (withVel cfg none) st lv.t lv.dsts (some lv.labels) with
      | ok st0 c0 r0 b0 cap0 =>
        rw [hsc] at h1
        simp only [Verdict.mapState, Verdict.ok.injEq] at h1
        obtain ⟨rfl, rfl, rfl, rfl, rfl⟩ := h1
        obtain ⟨_, hst0, _⟩ := stepCheck_ok hsc
        refine ⟨st0, c0, r0, b0, cap0, rfl, ?_⟩
        have hok : StateOK v st0 := by
          rw [hst0]; exact nextState_ok _ v lv.t lv.dsts st lv.labels hs hd0
        exact (ih st0 hok hdr).mp h2
      | expectOversize => rw [hsc] at h1; simp [Verdict.mapState] at h1
      | capped => rw [hsc] at h1; simp [Verdict.mapState] at h1
      | bad w => rw [hsc] at h1; simp [Verdict.mapState] at h1
    · rintro ⟨st0, c, r, b, cap, h1, h2⟩
      obtain ⟨_, hst0, _⟩ := stepCheck_ok h1
      have hok : StateOK v st0 := by
        rw [hst0]; exact nextState_ok _ v lv.t lv.dsts st lv.labels hs hd0
      exact ⟨shiftState v st0, c, r, b, cap, by rw [h1]; rfl, (ih st0 hok hdr).mpr h2⟩

theorem accepts_drift (cfg : Cfg) (v : List Int) (lls : List LLevel)
    (hd : ∀ lv ∈ lls, DstsOK v lv.dsts) :
    Accepts (withVel cfg (some v)) (lls.map (shiftLevel v)) ↔ Accepts (withVel cfg none) lls := by
  cases lls with
  | nil => simp [Accepts]
  | cons lv0 rest =>
    have hd0 := hd lv0 (List.mem_cons_self ..)
    have hdr : ∀ l ∈ rest, DstsOK v l.dsts := fun l hl => hd l (List.mem_cons_of_mem _ hl)
    simp only [List.map_cons, Accepts, shiftLevel]
    -- the first level: `initCheck` looks at labels only; its state is the level itself
    have hinit : ∀ (dsts : List Pos),
        initCheck lv0.t dsts lv0.labels =
          if lv0.labels.length ≠ dsts.length then .bad "one label per feature expected" else
          if !(decide lv0.labels.Nodup) then .bad "label used twice in one level" else
          .ok (nextState initCfg { srcs := [], used := [] } lv0.t dsts lv0.labels) 0 0
            lv0.labels.length false := fun _ => rfl
    have hns : nextState initCfg { srcs := [], used := [] } lv0.t (lv0.dsts.map (shiftPos v lv0.t))
          lv0.labels =
        shiftState v (nextState initCfg { srcs := [], used := [] } lv0.t lv0.dsts lv0.labels) := by
      have := nextState_shift initCfg v lv0.t lv0.dsts { srcs := [], used := [] } lv0.labels
      simpa [shiftState, withVel, nextState, initCfg] using this
    have hok0 : StateOK v (nextState initCfg { srcs := [], used := [] } lv0.t lv0.dsts lv0.labels) :=
      nextState_ok _ v lv0.t lv0.dsts _ lv0.labels (by intro s hs; simp at hs) hd0
    rw [hinit, hinit, List.length_map, hns]
    constructor
    · rintro ⟨st0, c, r, b, cap, h1, h2⟩
      split at h1
      · cases h1
      · rename_i hc1
        split at h1
        · cases h1
        · rename_i hc2
          simp only [Verdict.ok.injEq] at h1
          obtain ⟨rfl, rfl, rfl, rfl, rfl⟩ := h1
          refine ⟨_, 0, 0, lv0.labels.length, false, ?_, (acceptsFrom_drift cfg v rest _ hok0 hdr).mp h2⟩
          rw [if_neg hc1, if_neg hc2]
    · rintro ⟨st0, c, r, b, cap, h1, h2⟩
      split at h1
      · cases h1
      · rename_i hc1
        split at h1
        · cases h1
        · rename_i hc2
          simp only [Verdict.ok.injEq] at h1
          obtain ⟨rfl, rfl, rfl, rfl, rfl⟩ := h1
          refine ⟨_, 0, 0, lv0.labels.length, false, ?_, (acceptsFrom_drift cfg v rest _ hok0 hdr).mpr h2⟩
          rw [if_neg hc1, if_neg hc2]

/-- a velocity of zeros of the right dimension -/
theorem shiftPos_zero (n : Nat) (t : Int) (p : Pos) (h : p.length ≤ n) :
    shiftPos (List.replicate n 0) t p = p := by
  induction p generalizing n with
  | nil => simp [shiftPos]
  | cons x xs ih =>
    cases n with
    | zero => simp at h
    | succ m =>
      simp only [shiftPos, List.replicate_succ, List.zipWith_cons_cons, Int.zero_mul, Int.add_zero,
        List.cons.injEq, true_and]
      exact ih m (by simpa using h)

/-- **NullPredict.**  A predictor that predicts no motion gives exactly plain linking: the same
labellings are accepted. -/
theorem null_predictor_eq (cfg : Cfg) (n : Nat) (lls : List LLevel)
    (hd : ∀ lv ∈ lls, ∀ q ∈ lv.dsts, q.length ≤ n) :
    Accepts (withVel cfg (some (List.replicate n 0))) lls ↔ Accepts (withVel cfg none) lls := by
  have hd' : ∀ lv ∈ lls, DstsOK (List.replicate n 0) lv.dsts := by
    intro lv hlv q hq
    simp only [PosOK, List.length_replicate]
    exact hd lv hlv q hq
  have hmap : lls.map (shiftLevel (List.replicate n 0)) = lls := by
    rw [show lls = lls.map id by simp]
    simp only [List.map_map]
    apply List.map_congr_left
    intro lv hlv
    simp only [Function.comp, id, shiftLevel]
    have : lv.dsts.map (shiftPos (List.replicate n 0) lv.t) = lv.dsts := by
      rw [show lv.dsts = lv.dsts.map id by simp, List.map_map]
      apply List.map_congr_left
      intro q hq
      simp only [Function.comp, id]
      exact shiftPos_zero n lv.t q (by
        have := hd lv (by simpa using hlv) q (by simpa using hq); exact this)
    rw [this]
  have := accepts_drift cfg (List.replicate n 0) lls hd'
  rw [hmap] at this
  exact this

end TrackpyV.Linker
