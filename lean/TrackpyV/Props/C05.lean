import TrackpyV.Proofs.Locate
import TrackpyV.Props.C06
import TrackpyV.Props.C07
/-!
# C05 — locate finds every resolved blob exactly once with sub-pixel accuracy  (PARTIAL)

Property: *for any noise-free image made of well-separated Gaussian blobs whose width suits the
chosen diameter and that lie clear of the image border, locate returns exactly one feature per blob
(above a mass cut far below the blob mass) and no blob is missed or doubled; each reported centre
lies within 0.1 pixel of the true centre in 2D (0.3 pixel in 3D with diameters of 7 or more), for
integer and float images alike.*

What is PROVED here, about the stage models the driver executes (`Find.greyDilation` of C06,
`Refine.refineOne` of C07, `Locate.locateModel` of C09, `LocatePost.dedupe/massSizeFilter` of C08,
composed in `Model/LocateFull.lean`), for ALL images, dimensions, shapes and parameters:

* `one_feature_per_peak`, `one_feature_per_peak_precise`, `feature_count_eq_peak_count`
      "exactly one feature per blob, none missed, none doubled", combinatorial clause: when the
      admissible maxima of the (pre-processed, integer) image are exactly the pixel set `P`,
      `grey_dilation` returns exactly `P` — each once; with `precise=True` as well when the peaks
      are at least `separation` apart.
* `strict_peak_is_unique_maximum`, `unimodal_blob_has_one_peak`
      the link between "blob" and "peak": a region in which every pixel other than `c` has a
      strictly brighter pixel in its own dilation window — in particular a region that is strictly
      increasing along lattice steps towards `c` — contains no admissible maximum besides `c`.
* `symmetric_blob_centroid_exact`
      "centre accurate", exact case: if the image on the mask around the integer pixel `c` is
      point-symmetric about `c` with non-zero mass, the centroid IS `c`, the loop breaks in its
      first iteration and `refine_com` reports position `c` exactly (error 0 ≤ 0.1).
* `locateModel_features`, `locate_symmetric_peaks_exact`, `locateFull_symmetric_peaks_exact`
      composition: `locateModel` is `refineOne` mapped over the maxima; for an image whose work
      image has the admissible maxima `P` (no repetition) with symmetric neighbourhoods, it returns
      one feature per peak, located exactly at it; if the peaks are at least `separation` apart
      and heavier than `minmass`, the duplicate rule and the mass cut of `locate` remove nothing.

-- FULL (not proved): ∀ noise-free image of N well-separated Gaussian blobs (amplitude A_k, width
--   σ_k within the resolved regime, ARBITRARY SUB-PIXEL centre x_k clear of the border), every dtype,
--   2-D / 3-D:  `locate(image, diameter, minmass)` has exactly N rows and row k lies within 0.1 px
--   (2-D) / 0.3 px (3-D, diameters ≥ 7) of x_k.
--   Missing: (a) that a discretised (and, for integer dtypes, rounded) Gaussian, after `bandpass`
--   and `convert_to_int`, HAS the strict single-peak structure assumed by
--   `unimodal_blob_has_one_peak` (transcendental pixel values, rounding plateaus); (b) a verified
--   error analysis of the iterated centroid of a discretised Gaussian truncated by the elliptical
--   mask for centres that are not pixel centres (the truncation bias is what limits the regime, see
--   the calibration in harness/c05.py); (c) the behaviour of the percentile threshold on blob
--   images.  These clauses are EXERCISED on the real code on every run (direct oracle of
--   harness/c05.py — a sampled test, named as such in obligations/C05.json "partial"), not proved.
-/
namespace TrackpyV.C05
open TrackpyV List

/-! ## specification vocabulary -/

/-- `p` is an admissible local maximum of `img` (find.py:116-127): a pixel of the image, strictly
brighter than the threshold, not exceeded by any pixel of its dilation box, outside the margin -/
def Admissible (img : Find.Image) (sep : List Rat) (thr : Rat) (margin : List Nat) (p : Find.Pos) : Prop :=
  Find.InImage img.shape p ∧ thr < (img.pix p : Rat)
    ∧ (∀ q, Find.InBox img.shape (sep.map (Find.boxSize img.shape.length)) p q → img.pix q ≤ img.pix p)
    ∧ Find.OutsideMargin img.shape margin p

/-! ## exactly one feature per peak -/

open Find in
/-- **one_feature_per_peak** ("exactly one feature per blob, no blob missed or doubled", on the
maxima stage as `locate` calls it, `precise=False`).  If every pixel of `P` is an admissible maximum
and every pixel not in `P` fails at least one of the conditions, then `grey_dilation` returns
exactly the pixels of `P`: none missing, nothing else, each once. -/
theorem one_feature_per_peak (img : Image) (sep : List Rat) (pct : Rat) (margin : List Nat)
    (R : List Pos) (thr : Rat) (P : List Pos)
    (h : greyDilation img sep pct (some margin) false = some R)
    (hthr : percentileThr img pct = some thr)
    (hin : ∀ p ∈ P, Admissible img sep thr margin p)
    (hout : ∀ p, p ∉ P → ¬ Admissible img sep thr margin p) :
    (∀ p, p ∈ R ↔ p ∈ P) ∧ R.Nodup := by
  refine ⟨?_, maxima_nodup img sep pct (some margin) R h⟩
  intro p
  rw [maxima_iff img sep pct (some margin) R thr h hthr p]
  constructor
  · intro hp
    by_contra hn
    exact hout p hn hp
  · exact hin p

open Find in
/-- corollary: the number of features equals the number of peaks -/
theorem feature_count_eq_peak_count (img : Image) (sep : List Rat) (pct : Rat) (margin : List Nat)
    (R : List Pos) (thr : Rat) (P : List Pos)
    (h : greyDilation img sep pct (some margin) false = some R)
    (hthr : percentileThr img pct = some thr)
    (hin : ∀ p ∈ P, Admissible img sep thr margin p)
    (hout : ∀ p, p ∉ P → ¬ Admissible img sep thr margin p) (hnd : P.Nodup) :
    R.Perm P ∧ R.length = P.length := by
  obtain ⟨hmem, hR⟩ := one_feature_per_peak img sep pct margin R thr P h hthr hin hout
  have hp : R.Perm P := (List.perm_ext_iff_of_nodup hR hnd).mpr hmem
  exact ⟨hp, hp.length_eq⟩

open Find in
/-- **one_feature_per_peak_precise.**  With `precise=True` (the candidates additionally go through
`drop_close`): if moreover any two peaks are at least `separation` apart
(`Σ((pᵢ−qᵢ)/sᵢ)² ≥ 1`), nothing is dropped — the result is the very list returned with
`precise=False`, i.e. exactly `P`, each peak once. -/
theorem one_feature_per_peak_precise (img : Image) (sep : List Rat) (pct : Rat) (margin : List Nat)
    (R' : List Pos) (thr : Rat) (P : List Pos)
    (h' : greyDilation img sep pct (some margin) true = some R')
    (hthr : percentileThr img pct = some thr)
    (hin : ∀ p ∈ P, Admissible img sep thr margin p)
    (hout : ∀ p, p ∉ P → ¬ Admissible img sep thr margin p)
    (hsep : ∀ p ∈ P, ∀ q ∈ P, p ≠ q → 1 ≤ dist2 sep (p.map Int.ofNat) (q.map Int.ofNat)) :
    greyDilation img sep pct (some margin) false = some R' ∧ (∀ p, p ∈ R' ↔ p ∈ P) ∧ R'.Nodup := by
  obtain ⟨hw, _⟩ := greyDilationK_some h'
  have hs := sep_ne_zero_of_wf hw
  obtain ⟨R, hR⟩ : ∃ R, greyDilation img sep pct (some margin) false = some R :=
    (greyDilation_total _ img sep pct (some margin) false).mpr hw
  obtain ⟨hmem, hnd⟩ := one_feature_per_peak img sep pct margin R thr P hR hthr hin hout
  have he := precise_eq _ img sep pct (some margin) R' R h' hR
  have hinj : Function.Injective (featOf img (exactKeyPos sep)) := by
    intro a b e
    rw [← toPos_featOf img (exactKeyPos sep) a, ← toPos_featOf img (exactKeyPos sep) b, e]
  have hfn : (R.map (featOf img (exactKeyPos sep))).Nodup := hnd.map hinj
  have hdc : dropClose sep (R.map (featOf img (exactKeyPos sep))) = R.map (featOf img (exactKeyPos sep)) := by
    apply LocateFull.dropClose_eq_self sep _ hs
    intro a b hsub
    have ha := hsub.subset (show a ∈ [a, b] by simp)
    have hb := hsub.subset (show b ∈ [a, b] by simp)
    obtain ⟨p, hp, hpe⟩ := List.mem_map.mp (mem_indexFrom_snd ha)
    obtain ⟨q, hq, hqe⟩ := List.mem_map.mp (mem_indexFrom_snd hb)
    have hlt := sublist_pair_lt hsub
    have hne : p ≠ q := by
      intro e
      subst e
      have : a.1 = b.1 := indexFrom_snd_inj 0 _ hfn a.1 b.1 a.2 (by simpa using ha)
        (by rw [← hpe, hqe]; simpa using hb)
      omega
    have hd := hsep p ((hmem p).mp hp) q ((hmem q).mp hq) hne
    rw [← hpe, ← hqe]
    simp only [close, featOf]
    exact decide_eq_false (not_lt.mpr hd)
  rw [hdc, map_toPos_featOf] at he
  subst he
  exact ⟨hR, hmem, hnd⟩

/-! ## from "blob" to "peak" -/

open Find in
/-- **strict_peak_is_unique_maximum.**  Let `B` be any region of the image.  If every pixel of `B`
other than `c` has a STRICTLY brighter pixel inside its own dilation window, then no pixel of `B`
other than `c` is returned by `grey_dilation`; if `c` itself is admissible it is returned.  So a
plateau-free blob contributes exactly one candidate. -/
theorem strict_peak_is_unique_maximum (img : Image) (sep : List Rat) (pct : Rat) (margin : List Nat)
    (R : List Pos) (thr : Rat) (B : Pos → Prop) (c : Pos)
    (h : greyDilation img sep pct (some margin) false = some R)
    (hthr : percentileThr img pct = some thr)
    (hc : Admissible img sep thr margin c)
    (hB : ∀ q, B q → q ≠ c → ∃ q', InBox img.shape (sep.map (boxSize img.shape.length)) q q'
            ∧ img.pix q < img.pix q') :
    c ∈ R ∧ ∀ p, B p → (p ∈ R ↔ p = c) := by
  have hcR : c ∈ R := (maxima_iff img sep pct (some margin) R thr h hthr c).mpr hc
  refine ⟨hcR, ?_⟩
  intro p hp
  constructor
  · intro hpR
    by_contra hne
    obtain ⟨q', hbox, hlt⟩ := hB p hp hne
    have := ((maxima_iff img sep pct (some margin) R thr h hthr p).mp hpR).2.2.1 q' hbox
    omega
  · rintro rfl
    exact hcR

open Find in
/-- **unimodal_blob_has_one_peak.**  Geometric form: the region `B` (pixels of the image) is
STRICTLY UNIMODAL about `c` — every pixel `q ≠ c` of `B` is strictly darker than the pixel one
lattice step closer to `c` (`LocateFull.stepToward`: every coordinate that differs from `c`'s moves
by one) — and every side of the dilation box is at least 3 pixels (true for `separation ≥ 3` in 2-D,
`≥ 3` in 3-D after `⌊2s/√ndim⌋`).  Then `c` is the only pixel of `B` that `grey_dilation` returns
(if admissible), however large `B` is. -/
theorem unimodal_blob_has_one_peak (img : Image) (sep : List Rat) (pct : Rat) (margin : List Nat)
    (R : List Pos) (thr : Rat) (B : Pos → Prop) (c : Pos)
    (h : greyDilation img sep pct (some margin) false = some R)
    (hthr : percentileThr img pct = some thr)
    (hc : Admissible img sep thr margin c)
    (hk : ∀ k ∈ sep.map (boxSize img.shape.length), 3 ≤ k)
    (hBin : ∀ q, B q → InImage img.shape q)
    (hmono : ∀ q, B q → q ≠ c → img.pix q < img.pix (LocateFull.stepToward c q)) :
    c ∈ R ∧ ∀ p, B p → (p ∈ R ↔ p = c) := by
  obtain ⟨hw, _⟩ := greyDilationK_some h
  obtain ⟨_, hsl, _, _, _⟩ := (wellFormed_iff _ _ _).mp hw
  apply strict_peak_is_unique_maximum img sep pct margin R thr B c h hthr hc
  intro q hq hne
  exact ⟨LocateFull.stepToward c q,
    LocateFull.stepToward_inBox img.shape _ c q hc.1 (hBin q hq) (by simpa using hsl) hk,
    hmono q hq hne⟩

/-! ## exact location of a symmetric, pixel-centred blob -/

open Refine in
/-- **symmetric_blob_centroid_exact** ("each reported centre lies within 0.1 pixel of the true
centre", exact case).  If the image on the mask around the integer pixel `c` is point-symmetric
about `c` (`img(c+o) = img(c−o)` for every mask offset `o`; `LocateFull.SymmetricAt`, decidable:
`symmetricB`) and the mask mass is non-zero, then for every positive `shift_thresh`, every
`max_iterations`, every image shape and raw image: the off-centre vector at `c` is 0, the break test
holds in the first iteration, `refine_com` started at `c` reports mask centre `c` and position
exactly `c` on every axis, which is the brightness centroid of that mask.  The error is 0. -/
theorem symmetric_blob_centroid_exact (thr : Rat) (hthr : 0 < thr) (img raw : Image)
    (radius shape : List Nat) (maxIter : Nat) (c : List Int)
    (hsym : LocateFull.SymmetricAt img radius c)
    (hm : massAt img (maskOffsets radius) (origin radius c) ≠ 0) :
    let R := refineOne thr img raw radius shape maxIter c
    (∀ o ∈ offCentre img (maskOffsets radius) radius c, o = 0) ∧
    converged thr (offCentre img (maskOffsets radius) radius c) = true ∧
    R.centre = c ∧
    (∀ i, i < radius.length → R.pos.getD i 0 = ((c.getD i 0 : Int) : Rat)) ∧
    (∀ i, i < radius.length →
      centroid img (maskOffsets radius) (origin radius c) i = ((c.getD i 0 : Int) : Rat)) := by
  intro R
  have hcm : ∀ i, i < radius.length →
      cmN img (maskOffsets radius) radius (origin radius c) i = ((radius.getD i 0 : Nat) : Rat) := by
    intro i hi
    unfold cmN
    rw [if_neg hm, LocateFull.momAt_symmetric img radius c hsym i hi]
    field_simp
  have hoc : ∀ o ∈ offCentre img (maskOffsets radius) radius c, o = 0 := by
    intro o ho
    unfold offCentre at ho
    obtain ⟨i, hi, rfl⟩ := List.mem_map.mp ho
    rw [hcm i (List.mem_range.mp hi)]; ring
  have hconv : converged thr (offCentre img (maskOffsets radius) radius c) = true := by
    rw [converged_iff]
    intro o ho
    rw [hoc o ho]; simpa using hthr
  have hlast : ∀ k, lastCentre thr img (maskOffsets radius) radius shape k c = c := by
    intro k
    cases k with
    | zero => rfl
    | succ k => rw [lastCentre]; simp [hconv]
  have hR : R = measure img raw (maskOffsets radius) radius c := by
    show measure _ _ _ _ _ = _
    rw [hlast]
  have hpos : ∀ i, i < radius.length → R.pos.getD i 0 = ((c.getD i 0 : Int) : Rat) := by
    intro i hi
    rw [hR]
    show (posAt img (maskOffsets radius) radius c).getD i 0 = _
    rw [posAt_getD _ _ _ _ _ hi, hcm i hi]; ring
  refine ⟨hoc, hconv, by rw [hR]; rfl, hpos, ?_⟩
  intro i hi
  rw [← posAt_eq_centroid img _ radius c hm i hi]
  have := hpos i hi
  rw [hR] at this
  exact this

/-! ## composition: locate on an image with separated, symmetric peaks -/

/-- **locateModel_features** (definitional): the features `locateModel` returns are `refineOne`
applied, in order, to the maxima `grey_dilation(precise=False)` finds on the work image. -/
theorem locateModel_features (P : Locate.Params) (shape : List Nat) (raw work : Array Nat)
    (coords : List Find.Pos)
    (hw : Locate.workImage P shape raw = some work)
    (hg : Find.greyDilation ⟨shape, work⟩ P.sep P.pct (some P.margin) false = some coords) :
    Locate.locateModel P shape raw = some (coords.map (fun p =>
      Refine.refineOne P.shiftThr (Refine.ofArray shape work) (Refine.ofArray shape raw)
        P.radius shape P.maxIter (p.map Int.ofNat))) := by
  unfold Locate.locateModel
  rw [hw]
  simp only [hg]

/-- **locate_symmetric_peaks_exact.**  Let the work image (`bandpass` + `convert_to_int` of the raw
image, or the raw image itself) have exactly the admissible maxima `P` (each listed once), let its
neighbourhood on the mask around every peak be point-symmetric with non-zero mass, and
`shift_thresh > 0`.  Then `locateModel` returns exactly one feature per peak — as many features as
peaks, their mask centres being the peaks up to order — and every feature is reported exactly at
its peak pixel on every axis. -/
theorem locate_symmetric_peaks_exact (P : Locate.Params) (shape : List Nat) (raw work : Array Nat)
    (feats : List Refine.Measure) (thr : Rat) (Pk : List Find.Pos)
    (hw : Locate.workImage P shape raw = some work)
    (hloc : Locate.locateModel P shape raw = some feats)
    (hthr : Find.percentileThr ⟨shape, work⟩ P.pct = some thr)
    (hin : ∀ p ∈ Pk, Admissible ⟨shape, work⟩ P.sep thr P.margin p)
    (hout : ∀ p, p ∉ Pk → ¬ Admissible ⟨shape, work⟩ P.sep thr P.margin p)
    (hnd : Pk.Nodup) (hst : 0 < P.shiftThr)
    (hsym : ∀ p ∈ Pk, LocateFull.SymmetricAt (Refine.ofArray shape work) P.radius (p.map Int.ofNat))
    (hmass : ∀ p ∈ Pk, Refine.massAt (Refine.ofArray shape work) (Refine.maskOffsets P.radius)
        (Refine.origin P.radius (p.map Int.ofNat)) ≠ 0) :
    feats.length = Pk.length ∧
    (feats.map (fun f => f.centre)).Perm (Pk.map (fun p => p.map Int.ofNat)) ∧
    ∀ f ∈ feats, ∀ i, i < P.radius.length → f.pos.getD i 0 = ((f.centre.getD i 0 : Int) : Rat) := by
  -- the maxima stage succeeded
  have hg : ∃ coords, Find.greyDilation ⟨shape, work⟩ P.sep P.pct (some P.margin) false = some coords := by
    unfold Locate.locateModel at hloc
    rw [hw] at hloc
    simp only at hloc
    cases hgd : Find.greyDilation ⟨shape, work⟩ P.sep P.pct (some P.margin) false with
    | none => rw [hgd] at hloc; cases hloc
    | some coords => exact ⟨coords, rfl⟩
  obtain ⟨coords, hg⟩ := hg
  have hfe := locateModel_features P shape raw work coords hw hg
  rw [hloc] at hfe
  injection hfe with hfe
  obtain ⟨hperm, hlen⟩ := feature_count_eq_peak_count ⟨shape, work⟩ P.sep P.pct P.margin coords thr Pk
    hg hthr hin hout hnd
  have hmem := (one_feature_per_peak ⟨shape, work⟩ P.sep P.pct P.margin coords thr Pk hg hthr hin hout).1
  -- every feature sits exactly on its peak
  have hex : ∀ p ∈ coords,
      (Refine.refineOne P.shiftThr (Refine.ofArray shape work) (Refine.ofArray shape raw)
        P.radius shape P.maxIter (p.map Int.ofNat)).centre = p.map Int.ofNat ∧
      ∀ i, i < P.radius.length →
        (Refine.refineOne P.shiftThr (Refine.ofArray shape work) (Refine.ofArray shape raw)
          P.radius shape P.maxIter (p.map Int.ofNat)).pos.getD i 0
          = (((p.map Int.ofNat).getD i 0 : Int) : Rat) := by
    intro p hp
    have hpk := (hmem p).mp hp
    have := symmetric_blob_centroid_exact P.shiftThr hst (Refine.ofArray shape work)
      (Refine.ofArray shape raw) P.radius shape P.maxIter (p.map Int.ofNat) (hsym p hpk) (hmass p hpk)
    exact ⟨this.2.2.1, this.2.2.2.1⟩
  subst hfe
  refine ⟨by simpa using hlen, ?_, ?_⟩
  · rw [List.map_map]
    have : coords.map ((fun f : Refine.Measure => f.centre) ∘ fun p =>
        Refine.refineOne P.shiftThr (Refine.ofArray shape work) (Refine.ofArray shape raw)
          P.radius shape P.maxIter (p.map Int.ofNat)) = coords.map (fun p => p.map Int.ofNat) :=
      List.map_congr_left (fun p hp => (hex p hp).1)
    rw [this]
    exact hperm.map _
  · intro f hf i hi
    obtain ⟨p, hp, rfl⟩ := List.mem_map.mp hf
    rw [(hex p hp).2 i hi, (hex p hp).1]

/-- **locateFull_symmetric_peaks_exact.**  The same through the duplicate rule and the mass cut
of `locate` (feature.py:403-422, `LocateFull.locateFull`): if in addition any two rows of `refine_com`'s
table are at least `separation` apart in `where_close`'s metric (`Σ((xᵢ−yᵢ)/sᵢ)² ≥ 1` on the reported
positions, which ARE the peak pixels; decidable, re-checked by the driver) and every feature's mass
divided by the scale factor exceeds `minmass`, then nothing is removed: `locate` reports exactly one row per
peak, located exactly at it. -/
theorem locateFull_symmetric_peaks_exact (P : Locate.Params) (scale minmass : Rat) (shape : List Nat)
    (raw work : Array Nat) (feats : List Refine.Measure) (out : List LocatePost.Feat)
    (thr : Rat) (Pk : List Find.Pos)
    (hw : Locate.workImage P shape raw = some work)
    (hloc : Locate.locateModel P shape raw = some feats)
    (hfull : LocateFull.locateFull P scale minmass shape raw = some out)
    (hthr : Find.percentileThr ⟨shape, work⟩ P.pct = some thr)
    (hin : ∀ p ∈ Pk, Admissible ⟨shape, work⟩ P.sep thr P.margin p)
    (hout : ∀ p, p ∉ Pk → ¬ Admissible ⟨shape, work⟩ P.sep thr P.margin p)
    (hnd : Pk.Nodup) (hst : 0 < P.shiftThr)
    (hsym : ∀ p ∈ Pk, LocateFull.SymmetricAt (Refine.ofArray shape work) P.radius (p.map Int.ofNat))
    (hmass : ∀ p ∈ Pk, Refine.massAt (Refine.ofArray shape work) (Refine.maskOffsets P.radius)
        (Refine.origin P.radius (p.map Int.ofNat)) ≠ 0)
    (hfar : ∀ x ∈ LocateFull.rows feats, ∀ y ∈ LocateFull.rows feats, x.tag < y.tag →
        1 ≤ LocatePost.dist2 P.sep x.pos y.pos)
    (hheavy : ∀ f ∈ feats, minmass < f.mass / scale) :
    out = (LocateFull.rows feats).map (LocatePost.rescale scale) ∧
    out.length = Pk.length ∧
    ∀ o ∈ out, ∃ f ∈ feats, o.pos = f.pos ∧
      ∀ i, i < P.radius.length → o.pos.getD i 0 = ((f.centre.getD i 0 : Int) : Rat) := by
  obtain ⟨hlen, _, hpos⟩ := locate_symmetric_peaks_exact P shape raw work feats thr Pk hw hloc hthr
    hin hout hnd hst hsym hmass
  unfold LocateFull.locateFull at hfull
  rw [hloc] at hfull
  simp only [Option.map_some, Option.some.injEq] at hfull
  -- members of `rows feats` come from `feats`
  have hrows : ∀ x ∈ LocateFull.rows feats, ∃ f ∈ feats, x.pos = f.pos ∧ x.mass = f.mass := by
    intro x hx
    unfold LocateFull.rows at hx
    obtain ⟨y, hy, rfl⟩ := List.mem_map.mp hx
    exact ⟨y.2, Find.mem_indexFrom_snd hy, rfl, rfl⟩
  have hded : LocatePost.dedupe P.sep (LocateFull.rows feats) = LocateFull.rows feats := by
    apply LocateFull.dedupe_eq_self
    intro x hx y hy hlt
    simp only [LocatePost.close]
    exact decide_eq_false (not_lt.mpr (hfar x hx y hy hlt))
  have hfilt : LocatePost.massSizeFilter minmass none
      ((LocateFull.rows feats).map (LocatePost.rescale scale))
      = (LocateFull.rows feats).map (LocatePost.rescale scale) := by
    unfold LocatePost.massSizeFilter
    apply List.filter_eq_self.mpr
    intro o ho
    obtain ⟨x, hx, rfl⟩ := List.mem_map.mp ho
    obtain ⟨f, hf, _, hfm⟩ := hrows x hx
    have := hheavy f hf
    simp only [LocatePost.keep, LocatePost.sizeOk, LocatePost.rescale, Bool.and_true, decide_eq_true_eq, hfm]
    exact this
  have hout' : out = (LocateFull.rows feats).map (LocatePost.rescale scale) := by
    rw [← hfull]
    unfold LocatePost.stage12
    rw [hded, hfilt]
  refine ⟨hout', ?_, ?_⟩
  · rw [hout', List.length_map]
    unfold LocateFull.rows
    rw [List.length_map, ← hlen]
    have := congrArg List.length (Find.indexFrom_map_snd 0 feats)
    simpa using this
  · intro o ho
    rw [hout'] at ho
    obtain ⟨x, hx, rfl⟩ := List.mem_map.mp ho
    obtain ⟨f, hf, hfp, _⟩ := hrows x hx
    refine ⟨f, hf, by simpa [LocatePost.rescale] using hfp, ?_⟩
    intro i hi
    have : (LocatePost.rescale scale x).pos = f.pos := by simpa [LocatePost.rescale] using hfp
    rw [this]
    exact hpos f hf i hi

/-! ## non-vacuity -/

/-- a 7×7 image with two pixel-centred, point-symmetric "blobs" (plus-shaped, peak 9 and 7) -/
def exData : Array Nat :=
  #[0, 0, 0, 0, 0, 0, 0,
    0, 0, 4, 0, 0, 0, 0,
    0, 4, 9, 4, 0, 0, 0,
    0, 0, 4, 0, 0, 0, 0,
    0, 0, 0, 0, 3, 0, 0,
    0, 0, 0, 3, 7, 3, 0,
    0, 0, 0, 0, 3, 0, 0]
def exImg : Find.Image := ⟨[7, 7], exData⟩
def exParams : Locate.Params :=
  { preprocess := false, lshort := [1, 1], kernels := [], llong := [3, 3], thr := none,
    sep := [2, 2], pct := 64, margin := [1, 1], radius := [1, 1], shiftThr := 3 / 5, maxIter := 10 }

example : Find.percentileThr exImg 64 = some 4 := by decide +kernel
/-- the maxima are exactly the two peaks -/
example : Find.greyDilation exImg [2, 2] 64 (some [1, 1]) false = some [[2, 2], [5, 4]] := by
  decide +kernel
example : LocateFull.admissibleB exImg [2, 2] 4 [1, 1] [2, 2] = true
    ∧ LocateFull.admissibleB exImg [2, 2] 4 [1, 1] [5, 4] = true
    ∧ LocateFull.admissibleB exImg [2, 2] 4 [1, 1] [2, 3] = false := by decide +kernel
example : LocateFull.peaksSeparatedB [2, 2] [[2, 2], [5, 4]] = true := by decide +kernel
/-- both neighbourhoods are point-symmetric (hypothesis of `symmetric_blob_centroid_exact`) -/
example : LocateFull.symmetricB (Refine.ofArray [7, 7] exData) [1, 1] [2, 2] = true
    ∧ LocateFull.symmetricB (Refine.ofArray [7, 7] exData) [1, 1] [5, 4] = true := by decide +kernel
/-- … and an off-centre pixel's is not -/
example : LocateFull.symmetricB (Refine.ofArray [7, 7] exData) [1, 1] [2, 3] = false := by decide +kernel
example : LocateFull.SymmetricAt (Refine.ofArray [7, 7] exData) [1, 1] [2, 2] :=
  (LocateFull.symmetricB_iff _ _ _).mp (by decide +kernel)
/-- `locateModel` puts one feature exactly on each peak -/
example : ((Locate.locateModel exParams [7, 7] exData).map (·.map (fun f => (f.centre, f.pos, f.mass))))
    = some [([2, 2], [2, 2], 25), ([5, 4], [5, 4], 19)] := by decide +kernel
/-- and `locate`'s duplicate rule and mass cut keep both (minmass 10 is far below 19) -/
example : ((LocateFull.locateFull exParams 1 10 [7, 7] exData).map (·.map (fun f => (f.pos, f.mass))))
    = some [([2, 2], 25), ([5, 4], 19)] := by decide +kernel
/-- a mass cut between the two removes the lighter one only -/
example : ((LocateFull.locateFull exParams 1 20 [7, 7] exData).map (·.map (fun f => f.pos)))
    = some [[2, 2]] := by decide +kernel
/-- strict unimodality: one lattice step towards the peak -/
example : LocateFull.stepToward [2, 2] [4, 1] = [3, 2] ∧ LocateFull.stepToward [2, 2] [2, 5] = [2, 4] := by
  decide
example : LocateFull.reflect [1, 1] [0, 2] = [2, 0] := by decide

end TrackpyV.C05
