import TrackpyV.Model.Partial

namespace TrackpyV.Partial

/-- rows preserved: one label per row, in row order -/
theorem reconnect_rows_preserved (rule : Rule) (start stop : Int) (order : List Int) (rows : List Row) :
    (reconnect rule start stop order rows).length = rows.length := by
  simp [reconnect]

end TrackpyV.Partial
