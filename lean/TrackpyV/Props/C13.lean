import TrackpyV.Proofs.PartialSpec
/-!
# C13 — `link_partial` re-links a frame range without corrupting labels elsewhere

Model: `TrackpyV/Model/Partial.lean` (`reconnect`, `linkPartial`; the native driver executes these very
definitions).  Specification: `Joined` (Proofs/PartialSpec.lean) = equivalence closure of
J1 (equal old label, both rows outside the range), J2 (equal in-range label), J3 (old label crossing
the first / last frame of the range).

The theorems are about `Rule.fixed`, i.e. the code after `repo-fixes/C13-*.patch (reconnect-id-collisions, empty-frame-in-range, range-outside-data)`.
For the code as found (`Rule.orig`) the property is false; the formal counter-examples are
`collision_witness`, `fresh_collision_witness` and `unsound_merge_witness` below.

Hypotheses (all decidable, evaluated by the driver on every case and by the harness independently):
`ValidOld` — the table being patched is validly labelled by a linking without memory (labels
non-negative, unique per frame, no gaps); `ValidNew` — the labels of the inner `link_iter` are unique
per frame; `start < stop` — the clamped range is non-empty.  `order` (the iteration order of the
Python set `remaining`) is universally quantified and unconstrained.
-/
namespace TrackpyV.Partial

/-- the final label of a row under the repaired code -/
abbrev finalFixed (start stop : Int) (order : List Int) (rows : List Row) (r : Row) : Int :=
  finalLabel start stop (buildMaps Rule.fixed start stop order rows) r

/-- **rows preserved** — `reconnect` returns one label per row, in row order, and the label of a row
    is `finalLabel` of that row (for both variants of the code). -/
theorem reconnect_rows_preserved (rule : Rule) (start stop : Int) (order : List Int)
    (rows : List Row) :
    (reconnect rule start stop order rows).length = rows.length ∧
    reconnect rule start stop order rows =
      rows.map (finalLabel start stop (buildMaps rule start stop order rows)) := by
  simp [reconnect]

/-- **rows outside the range keep their grouping** — rows before the range keep their label
    unchanged; two rows on the same side of the range share their final label exactly when they
    shared their old label. -/
theorem reconnect_outside_grouping {start stop : Int} {rows : List Row} (order : List Int)
    (hlt : start < stop) (hold : ValidOld rows) (hnew : ValidNew start stop rows) :
    (∀ r, r.frame < start → finalFixed start stop order rows r = r.old) ∧
    (∀ a ∈ rows, ∀ b ∈ rows, stop ≤ a.frame → stop ≤ b.frame →
      (finalFixed start stop order rows a = finalFixed start stop order rows b ↔ a.old = b.old)) := by
  refine ⟨fun r h => final_before hlt h, ?_⟩
  intro a ha b hb h1 h2
  constructor
  · exact after_inj hlt hold hnew (buildMaps_good hlt hold hnew order) ha hb h1 h2
  · intro ho
    exact genChain_final hlt hold hnew (buildMaps_good hlt hold hnew order) ha hb (.j1a h1 h2 ho)

/-- **(a) labels are unique per frame** — full strength, for every valid table, every range and
    every iteration order of `remaining`. -/
theorem reconnect_unique_per_frame {start stop : Int} {rows : List Row} (order : List Int)
    (hlt : start < stop) (hold : ValidOld rows) (hnew : ValidNew start stop rows) :
    rows.Pairwise (fun a b => a.frame = b.frame →
      finalFixed start stop order rows a ≠ finalFixed start stop order rows b) := by
  have hG := buildMaps_good hlt hold hnew order
  refine (hold.uniq.imp_of_mem ?_)
  intro a b ha hb hR hf heq
  have := final_inj_frame hlt hold hnew hG ha hb hf heq
  exact hR hf (by rw [this])

/-- **(b) soundness** — two rows that share a final label are joined by old labels outside the
    range, new links inside the range, or an old label crossing the first / last frame. -/
theorem reconnect_sound {start stop : Int} {rows : List Row} (order : List Int)
    (hlt : start < stop) (hold : ValidOld rows) (hnew : ValidNew start stop rows) :
    ∀ a ∈ rows, ∀ b ∈ rows,
      finalFixed start stop order rows a = finalFixed start stop order rows b →
      Joined start stop rows a b :=
  fun _ ha _ hb h => final_eq_joined hlt hold hnew (buildMaps_good hlt hold hnew order) ha hb h

/-- **(c) completeness on the generating pairs** that never force two rows of one frame together
    (J1 on one side of the range, J2, J3): such rows always share their final label. -/
theorem reconnect_complete_chain {start stop : Int} {rows : List Row} (order : List Int)
    (hlt : start < stop) (hold : ValidOld rows) (hnew : ValidNew start stop rows) :
    ∀ a ∈ rows, ∀ b ∈ rows, GenChain start stop a b →
      finalFixed start stop order rows a = finalFixed start stop order rows b :=
  fun _ ha _ hb g => genChain_final hlt hold hnew (buildMaps_good hlt hold hnew order) ha hb g

/-- **(c) completeness** — when no `Joined`-class contains two rows of one frame (otherwise (a) and
    (c) are jointly unsatisfiable) and the in-range tracks have no gaps (inner link without memory),
    `Joined` rows share their final label: together with `reconnect_sound` the final partition is
    exactly `Joined`. -/
theorem reconnect_complete {start stop : Int} {rows : List Row} (order : List Int)
    (hlt : start < stop) (hold : ValidOld rows) (hnew : ValidNew start stop rows)
    (hcn : ContigNew start stop rows) (hnc : NoConflict start stop rows) :
    ∀ a b, Joined start stop rows a b →
      finalFixed start stop order rows a = finalFixed start stop order rows b :=
  fun _ _ h => joined_final hlt hold hnew (buildMaps_good hlt hold hnew order) hcn hnc h

/-- **any range position; empty frames** — the repaired `link_partial` never raises on a non-empty
    table and a well-formed `link_range`, wherever the range lies and whether or not it contains an
    empty frame, and returns one label per row; in the reconnect branch the labels are `reconnect`
    on a clamped range that is non-empty (so the theorems above apply). -/
theorem linkPartial_fixed_total {start stop : Int} (order : List Int) {rows : List Row}
    (hne : rows ≠ []) (hlt : start < stop) :
    ∃ mode ls, linkPartial Rule.fixed start stop order rows = .labels mode ls ∧
      ls.length = rows.length ∧
      (mode = "reconnect" → ∃ start' stop', start' < stop' ∧
        ls = reconnect Rule.fixed start' stop' order rows) := by
  cases rows with
  | nil => exact absurd rfl hne
  | cons r rs =>
    obtain ⟨lo, hlo⟩ : ∃ lo, minFrame (r :: rs) = some lo := ⟨_, rfl⟩
    obtain ⟨mx, hmx⟩ : ∃ mx, maxFrame (r :: rs) = some mx := ⟨_, rfl⟩
    unfold linkPartial
    rw [hlo, hmx]
    simp only [Rule.fixed, Bool.not_true, Bool.false_and, Bool.false_eq_true, if_false, if_true]
    rw [if_neg (fun h => h hlt)]
    generalize (if start < lo then lo else start) = s'
    generalize (if mx + 1 < stop then mx + 1 else stop) = e'
    by_cases h1 : s' < e'
    · rw [if_neg (fun h => h h1)]
      by_cases h2 : lo < s' ∨ e' < mx + 1
      · rw [if_pos h2]
        exact ⟨_, _, rfl, by simp [reconnect], fun _ => ⟨_, _, h1, rfl⟩⟩
      · rw [if_neg h2]
        exact ⟨_, _, rfl, by simp, by intro h; simp at h⟩
    · rw [if_pos h1]
      exact ⟨_, _, rfl, by simp, by intro h; simp at h⟩

/-! ## The code as found (`Rule.orig`) violates the property: formal witnesses -/

/-- DESIGN §8: old track 7 at x=0 (frames 0–2) then x=10 (frames 3–5), old track 3 at x=1
    (frames 3–5); `link_partial(search_range=3, link_range=(2,4))`.  Rows `(frame, old, new)`. -/
def witnessRows : List Row :=
  [⟨0, 7, 7⟩, ⟨1, 7, 7⟩, ⟨2, 7, 0⟩, ⟨3, 7, 1⟩, ⟨3, 3, 0⟩, ⟨4, 7, 7⟩, ⟨4, 3, 3⟩, ⟨5, 7, 7⟩, ⟨5, 3, 3⟩]

/-- the original rule labels both rows of frames 3, 4 and 5 with 7 on a valid input: the patch-born
    track (new label 1) reuses old id 7, which the first loop already gave to the track present at
    the first frame (new label 0) — and the track after the range is renamed 3 ↦ 7 as well. -/
theorem collision_witness :
    validOldB witnessRows = true ∧ ValidNew 2 4 witnessRows ∧
    reconnect Rule.orig 2 4 [] witnessRows = [7, 7, 7, 7, 7, 7, 7, 7, 7] ∧
    ¬ witnessRows.Pairwise (fun a b => a.frame = b.frame →
        finalLabel 2 4 (buildMaps Rule.orig 2 4 [] witnessRows) a ≠
        finalLabel 2 4 (buildMaps Rule.orig 2 4 [] witnessRows) b) := by
  decide

/-- the repaired rule on the same input: the patch-born track and its continuation get the fresh
    id 0 (non-vacuity of the guard: `renumber_after` is exercised). -/
example : reconnect Rule.fixed 2 4 [] witnessRows = [7, 7, 7, 0, 7, 0, 7, 0, 7] := by decide

/-- old id 0 lives only inside the range (frames 0–1), old 5 spans frames 0–4, old 6 lives in
    frames 1–2; `link_range=(0,4)`: the track of old 6 is `remaining` and the original fresh-id
    generator hands out 0 (not used *outside* the range) although 0 was just reconnected. -/
def freshRows : List Row :=
  [⟨0, 0, 0⟩, ⟨0, 5, 1⟩, ⟨1, 0, 0⟩, ⟨1, 6, 2⟩, ⟨1, 5, 1⟩, ⟨2, 6, 2⟩, ⟨2, 5, 1⟩, ⟨3, 5, 1⟩, ⟨4, 5, 5⟩]

theorem fresh_collision_witness :
    validOldB freshRows = true ∧ ValidNew 0 4 freshRows ∧
    reconnect Rule.orig 0 4 [2] freshRows = [0, 5, 0, 0, 5, 0, 5, 5, 5] ∧
    reconnect Rule.fixed 0 4 [2] freshRows = [0, 5, 0, 1, 5, 1, 5, 5, 5] := by
  decide

/-- one particle, old label 7 in frames 0–5, jumping between frames 1 and 2; re-linking
    `link_range=(0,3)` with a small search range breaks the track inside the range. -/
def mergeRows : List Row :=
  [⟨0, 7, 0⟩, ⟨1, 7, 0⟩, ⟨2, 7, 1⟩, ⟨3, 7, 7⟩, ⟨4, 7, 7⟩, ⟨5, 7, 7⟩]

/-- nothing joins the rows of frames 0–1 to the rows of frames 2–5 -/
theorem mergeRows_separated : ∀ a b, Joined 0 3 mergeRows a b → (a.frame ≤ 1 ↔ b.frame ≤ 1) := by
  intro a b h
  induction h with
  | refl a => exact Iff.rfl
  | symm _ ih => exact ih.symm
  | trans _ _ ih1 ih2 => exact ih1.trans ih2
  | @gen a b ha hb g =>
    simp only [mergeRows, List.mem_cons, List.not_mem_nil, or_false] at ha hb
    cases g with
    | j1 h1 h2 _ =>
      unfold inRange at h1 h2
      rcases ha with rfl | rfl | rfl | rfl | rfl | rfl <;>
        rcases hb with rfl | rfl | rfl | rfl | rfl | rfl <;> simp_all
    | j2 _ _ hn =>
      rcases ha with rfl | rfl | rfl | rfl | rfl | rfl <;>
        rcases hb with rfl | rfl | rfl | rfl | rfl | rfl <;> simp_all
    | j3s _ h2 _ =>
      rcases hb with rfl | rfl | rfl | rfl | rfl | rfl <;> simp_all
    | j3e h1 h2 _ =>
      rcases ha with rfl | rfl | rfl | rfl | rfl | rfl <;>
        rcases hb with rfl | rfl | rfl | rfl | rfl | rfl <;> simp_all

/-- the original rule gives all six rows the label 7 — rows that are not `Joined` share a label
    (the break made by the re-link is lost); the repaired rule separates them. -/
theorem unsound_merge_witness :
    validOldB mergeRows = true ∧ ValidNew 0 3 mergeRows ∧
    reconnect Rule.orig 0 3 [] mergeRows = [7, 7, 7, 7, 7, 7] ∧
    ¬ Joined 0 3 mergeRows ⟨1, 7, 0⟩ ⟨2, 7, 1⟩ ∧
    reconnect Rule.fixed 0 3 [1] mergeRows = [7, 7, 0, 0, 0, 0] := by
  refine ⟨by decide, by decide, by decide, ?_, by decide⟩
  intro h
  have := mergeRows_separated _ _ h
  simp at this

/-! ## Non-vacuity of the hypotheses -/

theorem validOldB_iff (rows : List Row) : validOldB rows = true ↔ ValidOld rows := by
  unfold validOldB
  simp only [Bool.and_eq_true, decide_eq_true_eq]
  exact ⟨fun ⟨⟨a, b⟩, c⟩ => ⟨a, b, c⟩, fun ⟨a, b, c⟩ => ⟨⟨a, b⟩, c⟩⟩

/-- the hypotheses of (a), (b), (c-chain) hold on the 9-row table of DESIGN §8 (a table on which a
    `Joined`-class does contain two rows of frame 3) -/
example : (2 : Int) < 4 ∧ ValidOld witnessRows ∧ ValidNew 2 4 witnessRows :=
  ⟨by decide, (validOldB_iff _).1 (by decide), by decide⟩

/-- a broken old track whose pieces do not overlap: one particle, old label 7 in frames 0–5, broken
    by the patch `(2,4)` between frames 2 and 3 -/
def brokenRows : List Row :=
  [⟨0, 7, 7⟩, ⟨1, 7, 7⟩, ⟨2, 7, 0⟩, ⟨3, 7, 1⟩, ⟨4, 7, 7⟩, ⟨5, 7, 7⟩]

/-- all hypotheses of `reconnect_complete` hold on it, and the conclusion is the non-trivial
    "pieces of an old track that exists on both sides keep their common label" -/
example : (2 : Int) < 4 ∧ ValidOld brokenRows ∧ ValidNew 2 4 brokenRows ∧
    ContigNew 2 4 brokenRows ∧ NoConflict 2 4 brokenRows ∧
    reconnect Rule.fixed 2 4 [] brokenRows = [7, 7, 7, 7, 7, 7] := by
  refine ⟨by decide, (validOldB_iff _).1 (by decide), by decide, by decide, ?_, by decide⟩
  intro a ha b hb _ hf
  simp only [brokenRows, List.mem_cons, List.not_mem_nil, or_false] at ha hb
  rcases ha with rfl | rfl | rfl | rfl | rfl | rfl <;>
    rcases hb with rfl | rfl | rfl | rfl | rfl | rfl <;> simp_all

end TrackpyV.Partial
