import TrackpyV.Props.C03Perm
import TrackpyV.Proofs.SubnetsPerm
/-!
# C03 — order independence of one linker step, per SUB-NET (X23)

`Props/C03Perm` proves that a permutation of the destinations `dsts` of a level leaves the optimal
cost of the step *as one net* unchanged (`step_cost_perm_dsts_partial`).  Here the per-sub-net form:

* `stepGroups_perm_dsts` — the sub-nets `Model/Linker.subnets` computes after the permutation are
  the renumbered sub-nets before it, up to the order of the groups and of the members inside each
  group (`Proofs/SubnetsPerm.subnets_renumber`: the fold of `addSource` commutes with the
  renumbering, step by step);
* `step_cost_perm_dsts` — the list of per-sub-net optimal costs is the same up to `List.Perm`;
* `step_unique_perm_dsts` — if the optimum of a sub-net is unique (`countOptimal = 1`), the solver
  returns on the corresponding sub-net after the permutation exactly the renumbered assignment: the
  (source number, chosen candidate) pairs are the same up to `relabelC f` and order.
-/
namespace TrackpyV.Linker
open TrackpyV.Assign

/-- the per-sub-net optimal costs of a step, in the order of `stepGroups` -/
def stepCosts (cfg : Cfg) (st : State) (t : Int) (dsts : List Pos) : List (Option Nat) :=
  (gSrcs (stepCands cfg st t dsts) (stepGroups cfg st t dsts)).map optCost

theorem destsRenumbered_of_same (f : Nat → Nat) (cs cs' : List Cand)
    (h : ∀ c, c ∈ relabelS f cs ↔ c ∈ cs') : DestsRenumbered f cs cs' := by
  intro d'
  simp only [realDests, List.mem_filterMap]
  constructor
  · rintro ⟨c, hc, hcd⟩
    obtain ⟨c0, hc0, rfl⟩ := List.mem_map.mp ((h c).mpr hc)
    obtain ⟨o, k⟩ := c0
    cases o with
    | none => simp [relabelC] at hcd
    | some d => exact ⟨d, ⟨(some d, k), hc0, rfl⟩, by simpa [relabelC] using hcd⟩
  · rintro ⟨d, ⟨c0, hc0, hcd⟩, rfl⟩
    exact ⟨relabelC f c0, (h _).mp (List.mem_map_of_mem hc0), by simp [relabelC, hcd]⟩

theorem idxMap_lt {α} {l l' : List α} {f g : Nat → Nat} (h : IdxMap l l' f g) (j : Nat)
    (hj : j < l.length) : f j < l'.length := by
  have : l'[f j]? = some l[j] := by rw [h.2 j]; exact List.getElem?_eq_getElem hj
  exact (List.getElem?_eq_some_iff.mp this).1

/-- **(b) at step level.**  After a renumbering `f` of the positions of the level (as
`idxIso_perm` gives for a permutation) the sub-nets of the step are the `f`-image of the sub-nets
before it, up to a permutation of the groups and of the members of each group. -/
theorem stepGroups_renumber (cfg : Cfg) (st : State) (t : Int) {dsts dsts' : List Pos}
    {f g : Nat → Nat} (h : IdxMap dsts dsts' f g) (h' : IdxMap dsts' dsts g f)
    (hlen : dsts'.length = dsts.length) :
    GroupsEquiv f (stepGroups cfg st t dsts) (stepGroups cfg st t dsts') := by
  unfold stepGroups
  rw [hlen]
  apply subnets_renumber f g h'.1 h.1 dsts.length
  · intro j hj; rw [← hlen]; exact idxMap_lt h j hj
  · intro j hj; exact idxMap_lt h' j (by rw [hlen]; exact hj)
  · simp only [stepCands]
    rw [List.forall₂_map_left_iff, List.forall₂_map_right_iff]
    exact List.forall₂_same.mpr (fun s _ =>
      destsRenumbered_of_same f _ _ (fun c => candsOf_renumber cfg t h h' s c))

theorem stepGroups_perm_dsts (cfg : Cfg) (st : State) (t : Int) (dsts dsts' : List Pos)
    (hp : dsts.Perm dsts') :
    ∃ f g, IdxMap dsts dsts' f g ∧ IdxMap dsts' dsts g f ∧
      GroupsEquiv f (stepGroups cfg st t dsts) (stepGroups cfg st t dsts') := by
  obtain ⟨f, g, h, h'⟩ := idxIso_perm hp
  exact ⟨f, g, h, h', stepGroups_renumber cfg st t h h' hp.length_eq.symm⟩

theorem srcOf_renumber (cfg : Cfg) (st : State) (t : Int) {dsts dsts' : List Pos}
    {f g : Nat → Nat} (h : IdxMap dsts dsts' f g) (h' : IdxMap dsts' dsts g f) (i : Nat)
    (c : Cand) :
    c ∈ relabelS f (srcOf (stepCands cfg st t dsts) i) ↔ c ∈ srcOf (stepCands cfg st t dsts') i := by
  simp only [srcOf, getD', stepCands, List.getElem?_map]
  cases st.srcs[i]? with
  | none => simp [relabelS]
  | some s => simpa using candsOf_renumber cfg t h h' s c

theorem allSorted_srcOf (cfg : Cfg) (st : State) (t : Int) (dsts : List Pos) (is : List Nat) :
    AllSorted (is.map (srcOf (stepCands cfg st t dsts))) := by
  intro s hs
  obtain ⟨i, _, rfl⟩ := List.mem_map.mp hs
  simp only [srcOf, getD', stepCands, List.getElem?_map]
  cases st.srcs[i]? with
  | none => simp [SortedC]
  | some x => simpa using candsOf_sorted cfg t dsts x

/-- the cost-preserving bijection between the admissible assignments of a sub-net (sources `is`)
and of its counterpart after the renumbering (the same sources in another order `is'`): first the
permutation of the sources, then `relabelS f` -/
theorem group_admIso (cfg : Cfg) (st : State) (t : Int) {dsts dsts' : List Pos}
    {f g : Nat → Nat} (h : IdxMap dsts dsts' f g) (h' : IdxMap dsts' dsts g f)
    (is is' : List Nat) (hp : is.Perm is') :
    ∃ φ ψ, AdmIso (is.map (srcOf (stepCands cfg st t dsts)))
        (is'.map (srcOf (stepCands cfg st t dsts'))) (relabelS f ∘ φ) ψ ∧
      ∀ a, Admissible (is.map (srcOf (stepCands cfg st t dsts))) a →
        ((is'.map (srcOf (stepCands cfg st t dsts))).zip (φ a)).Perm
          ((is.map (srcOf (stepCands cfg st t dsts))).zip a) := by
  obtain ⟨φ, ψ, h1, hz⟩ := admIso_perm_sources (hp.map (srcOf (stepCands cfg st t dsts)))
  have h2 := admIso_relabel_of_leftInverse f g h.1 (is'.map (srcOf (stepCands cfg st t dsts)))
  have h3 : AdmIso ((is'.map (srcOf (stepCands cfg st t dsts))).map (relabelS f))
      (is'.map (srcOf (stepCands cfg st t dsts'))) id id := by
    apply admIso_same_cands
    rw [List.map_map, List.forall₂_map_left_iff, List.forall₂_map_right_iff]
    exact List.forall₂_same.mpr (fun i _ c => srcOf_renumber cfg st t h h' i c)
  exact ⟨φ, ψ ∘ relabelS g ∘ id, (h1.trans h2).trans h3, hz⟩

/-- **(c)** The per-sub-net optimal costs of a linker step are the same, up to the order of the
sub-nets, for every order `dsts'` of the destinations of the level.  (`none` = a sub-net without
source: an unclaimed destination.) -/
theorem step_cost_perm_dsts (cfg : Cfg) (st : State) (t : Int) (dsts dsts' : List Pos)
    (hp : dsts.Perm dsts') : (stepCosts cfg st t dsts').Perm (stepCosts cfg st t dsts) := by
  obtain ⟨f, g, h, h', mid, hpm, hfa⟩ := stepGroups_perm_dsts cfg st t dsts dsts' hp
  simp only [stepCosts, gSrcs, List.map_map]
  refine List.Perm.trans (List.Perm.of_eq ?_) (hpm.map _).symm
  symm
  apply forall₂_map_eq hfa
  intro a b _ hab
  obtain ⟨φ, ψ, hiso, _⟩ := group_admIso cfg st t h h' a.1 b.1 hab.1
  exact (hiso.optCost_eq (allSorted_srcOf cfg st t dsts a.1) (allSorted_srcOf cfg st t dsts' b.1)).symm

/-- **(c), unique optima.**  Pair the sub-nets before and after the permutation (`GroupsEquiv`:
`mid` is `stepGroups … dsts` in the order in which the groups come out for `dsts'`).  For every
sub-net whose optimum is unique (`countOptimal = 1`, i.e. `stepTied = false` where enumerable) the
solver returns on the counterpart the renumbered assignment `relabelS f a₁`, where `a₁` gives
every source of the sub-net the same candidate as the original answer `a` (the sources are listed
in another order `g'.1`, a permutation of `g.1`); both optima are unique and cost the same.  So
with unique optima a permutation of the level cannot change which source is linked to which
feature.  (Sources are identified by their candidate lists in the pairing `zip`, as in
`unique_optimum_perm`.) -/
theorem step_unique_perm_dsts (cfg : Cfg) (st : State) (t : Int) (dsts dsts' : List Pos)
    (hp : dsts.Perm dsts') :
    ∃ f g, IdxMap dsts dsts' f g ∧ IdxMap dsts' dsts g f ∧
    ∃ mid, (stepGroups cfg st t dsts).Perm mid ∧
      List.Forall₂ (fun gr gr' : Group => GroupRel f gr gr' ∧
        (countOptimal (gr.1.map (srcOf (stepCands cfg st t dsts))) = 1 →
          ∃ c a a₁, solveOrdered (gr.1.map (srcOf (stepCands cfg st t dsts))) = some (c, a) ∧
            solveOrdered (gr'.1.map (srcOf (stepCands cfg st t dsts'))) = some (c, relabelS f a₁) ∧
            ((gr'.1.map (srcOf (stepCands cfg st t dsts))).zip a₁).Perm
              ((gr.1.map (srcOf (stepCands cfg st t dsts))).zip a) ∧
            UniqueOpt (gr.1.map (srcOf (stepCands cfg st t dsts))) a ∧
            UniqueOpt (gr'.1.map (srcOf (stepCands cfg st t dsts'))) (relabelS f a₁)))
        mid (stepGroups cfg st t dsts') := by
  obtain ⟨f, g, h, h', mid, hpm, hfa⟩ := stepGroups_perm_dsts cfg st t dsts dsts' hp
  refine ⟨f, g, h, h', mid, hpm, hfa.imp ?_⟩
  intro a b hab
  refine ⟨hab, fun hu => ?_⟩
  obtain ⟨φ, ψ, hiso, hz⟩ := group_admIso cfg st t h h' a.1 b.1 hab.1
  obtain ⟨c, x, e1, e2, u1, u2⟩ := unique_optimum_iso hiso (allSorted_srcOf cfg st t dsts a.1)
    (allSorted_srcOf cfg st t dsts' b.1) hu
  exact ⟨c, x, φ x, e1, e2, hz x u1.1.1, u1, u2⟩

/-! ## non-vacuity (tests, labelled as such) -/

/-- a step with two separate sub-nets (2 sources / 2 destinations each: sources at 0, 2 with
features at 1, 3; sources at 100, 102 with features at 101, 104) and two unclaimed features (50, 70) -/
def x23Cfg : Cfg :=
  { w := [1], B := 9, memory := 0, maxNeighbors := 10, maxSize := 10, vel := none, drop := false }
def x23St : State :=
  { srcs := [⟨[0], 0, 0, 0⟩, ⟨[2], 1, 0, 0⟩, ⟨[100], 2, 0, 0⟩, ⟨[102], 3, 0, 0⟩],
    used := [0, 1, 2, 3] }
def x23Dsts : List Pos := [[1], [3], [50], [101], [104], [70]]

/-- the destination list reversed (`f j = 5 - j`): the `f`-image of the groups before is
`([3,2],[2,1]), ([1,0],[5,4]), ([],[3]), ([],[0])` — after the reversal the destinations of the
second group are listed in the other order and the two source-free groups come out in the other
order: equal only up to `GroupsEquiv`. -/
example :
    stepGroups x23Cfg x23St 1 x23Dsts = [([3, 2], [3, 4]), ([1, 0], [0, 1]), ([], [2]), ([], [5])] ∧
    stepGroups x23Cfg x23St 1 x23Dsts.reverse =
      [([3, 2], [2, 1]), ([1, 0], [4, 5]), ([], [0]), ([], [3])] := by
  decide +kernel

theorem x23_cands :
    stepCands x23Cfg x23St 1 x23Dsts =
      [[(some 0, 1), (some 1, 9), (none, 9)], [(some 1, 1), (some 0, 1), (none, 9)],
       [(some 3, 1), (none, 9)], [(some 3, 1), (some 4, 4), (none, 9)]] ∧
    stepCands x23Cfg x23St 1 x23Dsts.reverse =
      [[(some 5, 1), (some 4, 9), (none, 9)], [(some 5, 1), (some 4, 1), (none, 9)],
       [(some 2, 1), (none, 9)], [(some 2, 1), (some 1, 4), (none, 9)]] := by
  decide +kernel

/-- the per-sub-net costs on both orders, computed: the same multiset (here even the same list) -/
example : stepCosts x23Cfg x23St 1 x23Dsts = [some 5, some 2, none, none] ∧
    stepCosts x23Cfg x23St 1 x23Dsts.reverse = [some 5, some 2, none, none] := by
  have hg : stepGroups x23Cfg x23St 1 x23Dsts =
        [([3, 2], [3, 4]), ([1, 0], [0, 1]), ([], [2]), ([], [5])] ∧
      stepGroups x23Cfg x23St 1 x23Dsts.reverse =
        [([3, 2], [2, 1]), ([1, 0], [4, 5]), ([], [0]), ([], [3])] := by decide +kernel
  simp only [stepCosts, hg.1, hg.2, x23_cands.1, x23_cands.2]
  simp [gSrcs, srcOf, getD', optCost, solveOrdered, go, exceeds, taken, better, addTaken]

/-- the hypothesis of `step_cost_perm_dsts` / `step_unique_perm_dsts` on that instance, and both
sub-net optima are unique -/
example : x23Dsts.Perm x23Dsts.reverse ∧
    countOptimal ([3, 2].map (srcOf (stepCands x23Cfg x23St 1 x23Dsts))) = 1 ∧
    countOptimal ([1, 0].map (srcOf (stepCands x23Cfg x23St 1 x23Dsts))) = 1 := by
  refine ⟨(List.reverse_perm _).symm, ?_, ?_⟩ <;>
  · rw [x23_cands.1]
    simp [srcOf, getD', countOptimal, allCompletions, completions, solveOrdered, go, exceeds, taken,
      better, addTaken]

end TrackpyV.Linker
