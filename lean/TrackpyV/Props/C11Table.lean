import TrackpyV.Props.C11Any
import TrackpyV.Props.C01Table
import TrackpyV.Model.PredictTable
/-!
# C11 — the single-table entry of the predictor classes (`predictor.link_df`)

`NullPredict.link_df(table)` = `wrap_single(link_df_iter, table)` (predict.py:87-121; inherited by
`NearestVelocityPredict`, `DriftPredict`, `ChannelPredict` and every user subclass) cuts ONE
table into per-frame tables with `groupby(t_column)`, runs the iterator entry and concatenates.
Model: `Model/PredictTable.lean` (`wrapSingle`, built on `Model/LinkTable.linkDfIter`), parametric
in the linker `labelsOf` — the predictor (stateful or not) is part of that parameter, so every
statement holds for every predictor and every linking strategy.

* `wrapSingle_frames_ascending` (c) — the linker receives one level per distinct frame value, in
  STRICTLY INCREASING order, each with that frame's rows in table order.  `groupby`'s sort is
  the only thing that puts the frames in time order; a predictor extrapolates by `t1 - t0`, so a
  wrong order is not a relabelling but another movie.
* `wrapSingle_perm` (b) — tables with the same per-frame subsequences give the same levels and
  the same output (the row order of the table does not matter beyond the order inside a frame).
* `wrapSingle_eq_linkTable` (a) — for integer frame numbers without gaps, and `link`'s sort
  stable, the levels and the returned table are exactly `link`'s (`Model/LinkTable.linkTable`);
  `wrapSingle_gap_witness`: with a missing frame number the levels differ (documented TODO).
* `firstAppearance_differs` (d) — the seeded change C11-A5 (`groupby(…, sort=False)`) hands the
  frames over in order of first appearance: refuted on a 3-row table.
-/
namespace TrackpyV.PredictTable
open TrackpyV.LinkTable

/-! ## the group keys -/

theorem mem_insertKey (q x : Rat) (ks : List Rat) : x ∈ insertKey q ks ↔ x = q ∨ x ∈ ks := by
  induction ks with
  | nil => simp [insertKey]
  | cons k ks ih =>
    unfold insertKey
    split
    · simp
    · split
      · rename_i h; subst h; simp
      · simp only [List.mem_cons, ih]
        constructor
        · rintro (h | h | h) <;> simp [h]
        · rintro (h | h | h) <;> simp [h]

theorem rat_lt_trans {a b c : Rat} (h1 : a < b) (h2 : b < c) : a < c :=
  Std.lt_trans h1 h2

theorem insertKey_sorted (q : Rat) (ks : List Rat) (h : ks.Pairwise (· < ·)) :
    (insertKey q ks).Pairwise (· < ·) := by
  induction ks with
  | nil => simp [insertKey]
  | cons k ks ih =>
    rw [List.pairwise_cons] at h
    unfold insertKey
    split
    · rename_i hq
      rw [List.pairwise_cons]
      refine ⟨?_, List.pairwise_cons.mpr h⟩
      intro x hx
      rcases List.mem_cons.mp hx with rfl | hx
      · exact hq
      · exact rat_lt_trans hq (h.1 x hx)
    · split
      · exact List.pairwise_cons.mpr h
      · rename_i h1 h2
        rw [List.pairwise_cons]
        refine ⟨?_, ih h.2⟩
        intro x hx
        rcases (mem_insertKey q x ks).mp hx with rfl | hx
        · exact Rat.lt_of_le_of_ne (Rat.not_lt.mp h1) (fun e => h2 e.symm)
        · exact h.1 x hx

theorem mem_sortedKeys (rows : List Row) (k : Rat) :
    k ∈ sortedKeys rows ↔ ∃ r ∈ rows, r.frame = k := by
  induction rows with
  | nil => simp [sortedKeys]
  | cons r rs ih =>
    have : sortedKeys (r :: rs) = insertKey r.frame (sortedKeys rs) := rfl
    rw [this, mem_insertKey, ih]
    constructor
    · rintro (h | ⟨x, hx, he⟩)
      · exact ⟨r, List.mem_cons_self, h.symm⟩
      · exact ⟨x, List.mem_cons_of_mem _ hx, he⟩
    · rintro ⟨x, hx, he⟩
      rcases List.mem_cons.mp hx with rfl | hx
      · exact Or.inl he.symm
      · exact Or.inr ⟨x, hx, he⟩

theorem sortedKeys_sorted (rows : List Row) : (sortedKeys rows).Pairwise (· < ·) := by
  induction rows with
  | nil => simp [sortedKeys]
  | cons r rs ih => exact insertKey_sorted r.frame _ ih

/-- a strictly ascending list is determined by its members -/
theorem sorted_ext (l1 l2 : List Rat) (h1 : l1.Pairwise (· < ·)) (h2 : l2.Pairwise (· < ·))
    (h : ∀ k, k ∈ l1 ↔ k ∈ l2) : l1 = l2 := by
  induction l1 generalizing l2 with
  | nil =>
    cases l2 with
    | nil => rfl
    | cons b l2 => exact absurd ((h b).mpr List.mem_cons_self) (by simp)
  | cons a l1 ih =>
    cases l2 with
    | nil => exact absurd ((h a).mp List.mem_cons_self) (by simp)
    | cons b l2 =>
      rw [List.pairwise_cons] at h1 h2
      have hab : a = b := by
        rcases List.mem_cons.mp ((h a).mp List.mem_cons_self) with e | ha
        · exact e
        · rcases List.mem_cons.mp ((h b).mpr List.mem_cons_self) with e | hb
          · exact e.symm
          · exact absurd (rat_lt_trans (h2.1 a ha) (h1.1 b hb)) Rat.lt_irrefl
      subst hab
      congr 1
      apply ih l2 h1.2 h2.2
      intro k
      constructor
      · intro hk
        rcases List.mem_cons.mp ((h k).mp (List.mem_cons_of_mem _ hk)) with e | hk'
        · subst e; exact absurd (h1.1 k hk) Rat.lt_irrefl
        · exact hk'
      · intro hk
        rcases List.mem_cons.mp ((h k).mpr (List.mem_cons_of_mem _ hk)) with e | hk'
        · subst e; exact absurd (h2.1 k hk) Rat.lt_irrefl
        · exact hk'

/-! ## the frames handed to the linker -/

theorem head_filter_frame (rows : List Row) (k : Rat) (h : ∃ r ∈ rows, r.frame = k) :
    (rows.filter (fun r => r.frame == k)).head?.map (·.frame) = some k := by
  obtain ⟨r, hr, he⟩ := h
  cases hf : rows.filter (fun r => r.frame == k) with
  | nil =>
    have : r ∈ rows.filter (fun r => r.frame == k) := List.mem_filter.mpr ⟨hr, by simp [he]⟩
    rw [hf] at this; cases this
  | cons a l =>
    have : a ∈ rows.filter (fun r => r.frame == k) := by rw [hf]; exact List.mem_cons_self
    have := (List.mem_filter.mp this).2
    simp only [beq_iff_eq] at this
    simp [this]

/-- the levels that reach the linker for a list of keys that occur in the table: key and the
coordinates of the rows with that key, in table order -/
theorem levels_groupsBy (keys : List Rat) (rows : List Row)
    (hk : ∀ k ∈ keys, ∃ r ∈ rows, r.frame = k) :
    coordsFromDfIter (groupsBy keys rows) =
      keys.map (fun k => (some k, (rows.filter (fun r => r.frame == k)).map (·.coords))) := by
  rw [linkDfIter_levels, groupsBy, List.map_map]
  apply List.map_congr_left
  intro k hkm
  simp only [Function.comp, head_filter_frame rows k (hk k hkm)]

/-- **(c) the frames reach the linker in time order.**  `predictor.link_df(table)` hands the linker
one level per distinct frame value of the table, each exactly once, in STRICTLY INCREASING order of
the frame value, whatever the order of the rows of the table (`groupby` sorts its groups: this is
the only place where the frames are put in time order); the level of frame `k` holds the
coordinates of the rows of frame `k` in table order. -/
theorem wrapSingle_frames_ascending (rows : List Row) :
    ∃ keys : List Rat, keys.Pairwise (· < ·) ∧ (∀ k, k ∈ keys ↔ ∃ r ∈ rows, r.frame = k) ∧
      framesHanded rows = keys.map some ∧
      levelsHanded rows =
        keys.map (fun k => (some k, (rows.filter (fun r => r.frame == k)).map (·.coords))) := by
  have hl := levels_groupsBy (sortedKeys rows) rows (fun k hk => (mem_sortedKeys rows k).mp hk)
  refine ⟨sortedKeys rows, sortedKeys_sorted rows, mem_sortedKeys rows, ?_, hl⟩
  unfold framesHanded levelsHanded framesOf
  rw [hl, List.map_map]
  rfl

/-! ## (b) the order of the rows of the table does not matter beyond the order inside a frame -/

theorem mem_frame_iff_filter (rows : List Row) (k : Rat) :
    (∃ r ∈ rows, r.frame = k) ↔ rows.filter (fun r => r.frame == k) ≠ [] := by
  constructor
  · rintro ⟨r, hr, he⟩ h0
    have : r ∈ rows.filter (fun r => r.frame == k) := List.mem_filter.mpr ⟨hr, by simp [he]⟩
    rw [h0] at this; cases this
  · intro h
    obtain ⟨a, ha⟩ := List.exists_mem_of_ne_nil _ h
    have := List.mem_filter.mp ha
    exact ⟨a, this.1, by simpa using this.2⟩

theorem framesOf_congr (rows rows' : List Row)
    (h : ∀ k, rows'.filter (fun r => r.frame == k) = rows.filter (fun r => r.frame == k)) :
    framesOf rows' = framesOf rows := by
  have hk : sortedKeys rows' = sortedKeys rows := by
    apply sorted_ext _ _ (sortedKeys_sorted _) (sortedKeys_sorted _)
    intro k
    rw [mem_sortedKeys, mem_sortedKeys, mem_frame_iff_filter, mem_frame_iff_filter, h k]
  unfold framesOf groupsBy
  rw [hk]
  exact List.map_congr_left (fun k _ => h k)

/-- **(b) `predictor.link_df` does not depend on the order of the rows of the table**, as long as
the order INSIDE every frame is kept: two tables with the same rows per frame value, in the same
in-frame order (e.g. one a shuffle of the other's frames, or its stable sort by any column that is
constant inside a frame) reach the linker as the same sequence of levels and come back as the
same table — same rows, same labels, same row order, same exceptions.  (Reordering INSIDE a frame
reorders the features of a level; what the linker does then is the linker's business: C03.) -/
theorem wrapSingle_perm (labelsOf : List (Option Rat × List Pos) → List (List Nat))
    (rows rows' : List Row)
    (h : ∀ k, rows'.filter (fun r => r.frame == k) = rows.filter (fun r => r.frame == k)) :
    wrapSingle labelsOf rows' = wrapSingle labelsOf rows ∧ levelsHanded rows' = levelsHanded rows := by
  have hf := framesOf_congr rows rows' h
  have he : rows'.isEmpty = rows.isEmpty := by
    cases rows' with
    | nil =>
      cases rows with
      | nil => rfl
      | cons r rs =>
        have := h r.frame
        simp at this
    | cons r rs =>
      cases rows with
      | nil =>
        have := h r.frame
        simp at this
      | cons _ _ => rfl
  refine ⟨?_, by unfold levelsHanded; rw [hf]⟩
  unfold wrapSingle
  rw [hf, he]

/-! ## (a) agreement with `link` -/

theorem zip_toORow (t : List Row) (l : List Nat) :
    (List.zip t l).map toORow = List.zipWith ORow.mk (t.map coerceRow) l := by
  induction t generalizing l with
  | nil => simp
  | cons a t ih =>
    cases l with
    | nil => simp
    | cons b l => simp [ih, toORow]

theorem zipWith_zip_toORow (tables : List (List Row)) (labels : List (List Nat)) :
    ((List.zipWith List.zip tables labels).flatten).map toORow =
      (List.zipWith (List.zipWith ORow.mk) (tables.map (List.map coerceRow)) labels).flatten := by
  induction tables generalizing labels with
  | nil => simp
  | cons a t ih =>
    cases labels with
    | nil => simp
    | cons b l => simp [ih, zip_toORow]

/-- **(a) `predictor.link_df` labels every row as `link` does** (same linker, same levels).
For a table whose frame numbers are integers (possibly stored as floats) without a missing frame
number between the first and the last, and a linker that returns one label per feature of every
level, `wrap_single(link_df_iter, table)` hands the linker exactly the levels `link` hands it
(`coords_from_df` of the sorted table; `intLevel`: the iterator entry passes the frame value as
given) and returns exactly the table `link` returns — same rows, same labels, same row order —
PROVIDED `link`'s sort of the table by frame kept the table order inside every frame
(`hσ`: pandas' default `sort_values` is not stable; with another in-frame order `link` hands the
features of a level to the linker in another order).  The two hypotheses on the frame column are
necessary: `link` truncates non-integral frame values where `groupby` keeps them apart, and `link`
inserts an empty level for every missing frame number where `wrap_single` does not
(predict.py:98 "TODO: Properly handle empty frames"): `wrapSingle_gap_witness`. -/
theorem wrapSingle_eq_linkTable (labelsOf : List (Option Rat × List Pos) → List (List Nat))
    (σ : List Nat) (rows : List Row) (H : SortPerm σ rows)
    (hσ : sortedTable σ rows = stableSort (rows.map coerceRow))
    (hint : ∀ r ∈ rows, r.frame = ((coerceFrame r.frame : Int) : Rat))
    (hcontig : ∀ t : Int, (∃ a ∈ rows, coerceFrame a.frame ≤ t) →
      (∃ b ∈ rows, t ≤ coerceFrame b.frame) → ∃ r ∈ rows, coerceFrame r.frame = t)
    (hL : (labelsOf (levelsHanded rows)).map List.length =
      (levelsHanded rows).map (fun lv => lv.2.length)) :
    (wrapSingle labelsOf rows).map (List.map toORow) =
      linkTable (fun lv => labelsOf (lv.map intLevel)) σ rows ∧
    (coordsFromDf (sortedTable σ rows)).map (List.map intLevel) =
      (if rows.isEmpty then none else some (levelsHanded rows)) := by
  by_cases hne : rows = []
  · subst hne
    have h0 : sortedTable σ [] = [] := by rw [hσ]; simp [stableSort]
    simp [wrapSingle, linkTable, h0, coordsFromDf_nil]
  obtain ⟨lo, hi, ⟨a, ha, hlo⟩, ⟨b, hb, hhi⟩, hall, heq, hlink⟩ :=
    linkTable_levels (fun lv => labelsOf (lv.map intLevel)) σ rows H hne
  have hemp : rows.isEmpty = false := by
    cases rows with
    | nil => exact absurd rfl hne
    | cons _ _ => rfl
  -- the group keys are lo, lo+1, …, hi
  have hkeys : sortedKeys rows =
      (List.range (hi + 1 - lo).toNat).map (fun (k : Nat) => ((lo + (k : Int) : Int) : Rat)) := by
    apply sorted_ext _ _ (sortedKeys_sorted rows)
    · rw [List.pairwise_map]
      apply List.Pairwise.imp _ List.pairwise_lt_range
      intro i j hij
      exact Rat.intCast_lt_intCast.mpr (by omega)
    · intro k
      rw [mem_sortedKeys, List.mem_map]
      constructor
      · rintro ⟨r, hr, he⟩
        have hb := hall r hr
        refine ⟨(coerceFrame r.frame - lo).toNat, List.mem_range.mpr (by omega), ?_⟩
        rw [← he, hint r hr]
        congr 1
        rw [coerceFrame_int]
        omega
      · rintro ⟨j, hj, he⟩
        have hj := List.mem_range.mp hj
        obtain ⟨r, hr, hre⟩ := hcontig (lo + (j : Int)) ⟨a, ha, by omega⟩ ⟨b, hb, by omega⟩
        exact ⟨r, hr, by rw [← he, hint r hr, hre]⟩
  -- the rows of one frame
  have hfil : ∀ k : Nat, (sortedTable σ rows).filter (fun r => r.frame == lo + (k : Int)) =
      (rows.filter (fun r => r.frame == ((lo + (k : Int) : Int) : Rat))).map coerceRow := by
    intro k
    rw [hσ, stableSort_filter, List.filter_map]
    congr 1
    apply List.filter_congr
    intro r hr
    simp only [Function.comp, coerceRow]
    conv => rhs; rw [hint r hr]
    rw [Bool.eq_iff_iff]
    simp only [beq_iff_eq]
    exact Rat.intCast_inj.symm
  have hT2 : (framesOf rows).map (List.map coerceRow) =
      frameBlocks lo (hi + 1 - lo).toNat (sortedTable σ rows) := by
    unfold framesOf groupsBy frameBlocks
    rw [hkeys, List.map_map, List.map_map]
    apply List.map_congr_left
    intro k _
    simp only [Function.comp, hfil k]
  have hT3 : levelsHanded rows = (levelsSpec lo hi (sortedTable σ rows)).map intLevel := by
    unfold levelsHanded framesOf
    rw [levels_groupsBy _ _ (fun k hk => (mem_sortedKeys rows k).mp hk), hkeys]
    unfold levelsSpec
    rw [List.map_map, List.map_map]
    apply List.map_congr_left
    intro k _
    simp only [Function.comp, intLevel, hfil k, List.map_map]
    rfl
  refine ⟨?_, by rw [heq, hemp, hT3]; rfl⟩
  -- `link`
  have hLs : (labelsOf (levelsHanded rows)).map List.length =
      (frameBlocks lo (hi + 1 - lo).toNat (sortedTable σ rows)).map List.length := by
    rw [hL, hT3, List.map_map, ← levelsSpec_sizes]
    rfl
  have hflat := sum_blocks lo hi _ H.2
    (fun r hr => by
      obtain ⟨x, hx, hxe⟩ := List.mem_map.mp ((sortedTable_perm σ rows H).mem_iff.mp hr)
      have := hall x hx
      rw [← hxe]; exact this)
  have hcount : (labelsOf (levelsHanded rows)).flatten.length = (sortedTable σ rows).length := by
    rw [List.length_flatten, hLs, ← List.length_flatten, hflat]
  rw [hlink]
  simp only [← hT3]
  unfold attach
  simp only
  rw [if_pos hcount]
  -- `wrap_single`
  have hLt : (labelsOf (coordsFromDfIter (framesOf rows))).map List.length =
      (framesOf rows).map List.length := by
    have := hLs
    rw [← hT2, List.map_map] at this
    simpa [levelsHanded, Function.comp_def] using this
  unfold wrapSingle
  rw [hemp, if_neg (by simp), linkDfIter_total _ _ hLt]
  simp only [Option.map_some]
  congr 1
  rw [zipWith_zip_toORow, hT2]
  conv => rhs; arg 2; rw [← hflat]
  exact (zipWith_flatten _ _ _ hLs.symm).symm

/-! ## (d) the seeded variant -/

/-- two frames, frame 1 listed first -/
def exTable : List Row :=
  [ { index := 0, frame := 1, coords := [7, 7], payload := 0 },
    { index := 1, frame := 0, coords := [5, 5], payload := 1 },
    { index := 2, frame := 1, coords := [9, 9], payload := 2 } ]

/-- **(d) witness: `groupby(…, sort=False)` hands the frames over in the wrong order.**  On a
two-frame table that lists frame 1 first the variant gives the linker frame 1 and then frame 0 (not
ascending), `wrap_single` frame 0 and then frame 1; for a linker that numbers the features in order
of arrival the labels written back differ. -/
theorem firstAppearance_differs :
    levelsHanded exTable = [(some 0, [[5, 5]]), (some 1, [[7, 7], [9, 9]])] ∧
    levelsHandedFirstAppearance exTable = [(some 1, [[7, 7], [9, 9]]), (some 0, [[5, 5]])] ∧
    (wrapSingle (fun _ => [[0], [1, 2]]) exTable).map (List.map (fun p => (p.1.payload, p.2))) =
      some [(1, 0), (0, 1), (2, 2)] ∧
    (wrapSingleFirstAppearance (fun _ => [[0, 1], [2]]) exTable).map
        (List.map (fun p => (p.1.payload, p.2))) = some [(0, 0), (2, 1), (1, 2)] := by
  decide

/-- a table with a missing frame number (frames 0 and 2), frame 2 listed first -/
def exGap : List Row :=
  [ { index := 0, frame := 2, coords := [7], payload := 0 },
    { index := 1, frame := 0, coords := [5], payload := 1 } ]

def exGapSorted : List IRow :=
  [ { index := 1, frame := 0, coords := [5], payload := 1 },
    { index := 0, frame := 2, coords := [7], payload := 0 } ]

/-- **the contiguity hypothesis of (a) is necessary**: for a missing frame number `link` hands the
linker an empty level (frame 1 below), `predictor.link_df` does not — the linker sees two
different movies (with memory 0 a particle of frame 0 can be continued in frame 2 only in the
second one).  This is the documented behaviour of `wrap_single` (predict.py:98 TODO). -/
theorem wrapSingle_gap_witness :
    SortPerm [1, 0] exGap ∧
    coordsFromDf (sortedTable [1, 0] exGap) = some [(0, [[5]]), (1, []), (2, [[7]])] ∧
    levelsHanded exGap = [(some 0, [[5]]), (some 2, [[7]])] := by
  refine ⟨by decide, ?_, by decide⟩
  rw [show sortedTable [1, 0] exGap = exGapSorted from by decide]
  unfold coordsFromDf
  rw [stableSort_of_sorted exGapSorted (by decide)]
  decide

/-- non-vacuity of (a): `exTable` (integer frames 0 and 1, none missing) with the stable sort
permutation `[1, 0, 2]` and a linker that returns one label per feature -/
example : SortPerm [1, 0, 2] exTable ∧
    sortedTable [1, 0, 2] exTable = stableSort (exTable.map coerceRow) ∧
    (∀ r ∈ exTable, r.frame = ((coerceFrame r.frame : Int) : Rat)) ∧
    ((fun _ => [[0], [1, 2]] : List (Option Rat × List Pos) → List (List Nat))
        (levelsHanded exTable)).map List.length =
      (levelsHanded exTable).map (fun lv => lv.2.length) := by
  refine ⟨by decide, ?_, by decide, by decide⟩
  -- both lists are sorted by frame and stable with respect to `exTable.map coerceRow`
  have h1 := stableSort_filter (exTable.map coerceRow)
  have e0 : sortedTable [1, 0, 2] exTable =
      (frameBlocks 0 2 (sortedTable [1, 0, 2] exTable)).flatten := by decide
  have e1 := sorted_eq_flatten 2 0 (stableSort (exTable.map coerceRow)) (stableSort_sorted _)
    (fun r hr => by
      have hm := (stableSort_perm _).mem_iff.mp hr
      have : ∀ x ∈ exTable.map coerceRow, 0 ≤ x.frame ∧ x.frame < 0 + ((2 : Nat) : Int) := by decide
      exact this r hm)
  rw [e0, ← e1]
  unfold frameBlocks
  simp only [List.map, List.range, List.range.loop, h1]
  decide

/-- the stable order is NOT implied by `SortPerm`: `[1, 2, 0]` also sorts `exTable` by frame but
swaps the two rows of frame 1 — `link` then hands the linker the level `[[9,9],[7,7]]` where
`predictor.link_df` hands it `[[7,7],[9,9]]` -/
example : SortPerm [1, 2, 0] exTable ∧
    (sortedTable [1, 2, 0] exTable).map (·.payload) = [1, 2, 0] := by decide

/-- non-vacuity of (b): a shuffle of `exTable` that keeps the in-frame order -/
example : ∀ k, (([exTable[1], exTable[0], exTable[2]] : List Row)).filter (fun r => r.frame == k) =
    exTable.filter (fun r => r.frame == k) := by
  intro k
  simp only [exTable, List.getElem_cons_zero, List.getElem_cons_succ, List.filter_cons,
    List.filter_nil]
  by_cases h0 : (0 : Rat) = k
  · subst h0; decide
  · by_cases h1 : (1 : Rat) = k
    · subst h1; decide
    · simp [h0, h1]

end TrackpyV.PredictTable
