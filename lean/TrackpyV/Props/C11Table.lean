import TrackpyV.Props.C11Any
import TrackpyV.Props.C01Table
import TrackpyV.Model.PredictTable
/-!
# C11 — the single-table entry of the predictor classes (`predictor.link_df`)
-/
namespace TrackpyV.PredictTable
open TrackpyV.LinkTable

/-! ## the group keys -/

theorem mem_insertKey (q x : Rat) (ks : List Rat) : x ∈ insertKey q ks ↔ x = q ∨ x ∈ ks := by
  induction ks with
  | nil => simp [insertKey]
  | cons k ks ih =>
    unfold insertKey
    split
    · simp
    · split
      · rename_i h; subst h; simp
      · simp only [List.mem_cons, ih]
        constructor
        · rintro (h | h | h) <;> simp [h]
        · rintro (h | h | h) <;> simp [h]

theorem rat_lt_trans {a b c : Rat} (h1 : a < b) (h2 : b < c) : a < c :=
  Std.lt_trans h1 h2

theorem insertKey_sorted (q : Rat) (ks : List Rat) (h : ks.Pairwise (· < ·)) :
    (insertKey q ks).Pairwise (· < ·) := by
  induction ks with
  | nil => simp [insertKey]
  | cons k ks ih =>
    rw [List.pairwise_cons] at h
    unfold insertKey
    split
    · rename_i hq
      rw [List.pairwise_cons]
      refine ⟨?_, List.pairwise_cons.mpr h⟩
      intro x hx
      rcases List.mem_cons.mp hx with rfl | hx
      · exact hq
      · exact rat_lt_trans hq (h.1 x hx)
    · split
      · exact List.pairwise_cons.mpr h
      · rename_i h1 h2
        rw [List.pairwise_cons]
        refine ⟨?_, ih h.2⟩
        intro x hx
        rcases (mem_insertKey q x ks).mp hx with rfl | hx
        · exact Rat.lt_of_le_of_ne (Rat.not_lt.mp h1) (fun e => h2 e.symm)
        · exact h.1 x hx

theorem mem_sortedKeys (rows : List Row) (k : Rat) :
    k ∈ sortedKeys rows ↔ ∃ r ∈ rows, r.frame = k := by
  induction rows with
  | nil => simp [sortedKeys]
  | cons r rs ih =>
    have : sortedKeys (r :: rs) = insertKey r.frame (sortedKeys rs) := rfl
    rw [this, mem_insertKey, ih]
    constructor
    · rintro (h | ⟨x, hx, he⟩)
      · exact ⟨r, List.mem_cons_self, h.symm⟩
      · exact ⟨x, List.mem_cons_of_mem _ hx, he⟩
    · rintro ⟨x, hx, he⟩
      rcases List.mem_cons.mp hx with rfl | hx
      · exact Or.inl he.symm
      · exact Or.inr ⟨x, hx, he⟩

theorem sortedKeys_sorted (rows : List Row) : (sortedKeys rows).Pairwise (· < ·) := by
  induction rows with
  | nil => simp [sortedKeys]
  | cons r rs ih => exact insertKey_sorted r.frame _ ih

/-- a strictly ascending list is determined by its members -/
theorem sorted_ext (l1 l2 : List Rat) (h1 : l1.Pairwise (· < ·)) (h2 : l2.Pairwise (· < ·))
    (h : ∀ k, k ∈ l1 ↔ k ∈ l2) : l1 = l2 := by
  induction l1 generalizing l2 with
  | nil =>
    cases l2 with
    | nil => rfl
    | cons b l2 => exact absurd ((h b).mpr List.mem_cons_self) (by simp)
  | cons a l1 ih =>
    cases l2 with
    | nil => exact absurd ((h a).mp List.mem_cons_self) (by simp)
    | cons b l2 =>
      rw [List.pairwise_cons] at h1 h2
      have hab : a = b := by
        rcases List.mem_cons.mp ((h a).mp List.mem_cons_self) with e | ha
        · exact e
        · rcases List.mem_cons.mp ((h b).mpr List.mem_cons_self) with e | hb
          · exact e.symm
          · exact absurd (rat_lt_trans (h2.1 a ha) (h1.1 b hb)) Rat.lt_irrefl
      subst hab
      congr 1
      apply ih l2 h1.2 h2.2
      intro k
      constructor
      · intro hk
        rcases List.mem_cons.mp ((h k).mp (List.mem_cons_of_mem _ hk)) with e | hk'
        · subst e; exact absurd (h1.1 k hk) Rat.lt_irrefl
        · exact hk'
      · intro hk
        rcases List.mem_cons.mp ((h k).mpr (List.mem_cons_of_mem _ hk)) with e | hk'
        · subst e; exact absurd (h2.1 k hk) Rat.lt_irrefl
        · exact hk'

/-! ## the frames handed to the linker -/

theorem head_filter_frame (rows : List Row) (k : Rat) (h : ∃ r ∈ rows, r.frame = k) :
    (rows.filter (fun r => r.frame == k)).head?.map (·.frame) = some k := by
  obtain ⟨r, hr, he⟩ := h
  cases hf : rows.filter (fun r => r.frame == k) with
  | nil =>
    have : r ∈ rows.filter (fun r => r.frame == k) := List.mem_filter.mpr ⟨hr, by simp [he]⟩
    rw [hf] at this; cases this
  | cons a l =>
    have : a ∈ rows.filter (fun r => r.frame == k) := by rw [hf]; exact List.mem_cons_self
    have := (List.mem_filter.mp this).2
    simp only [beq_iff_eq] at this
    simp [this]

/-- the levels that reach the linker for a list of keys that occur in the table: key and the
coordinates of the rows with that key, in table order -/
theorem levels_groupsBy (keys : List Rat) (rows : List Row)
    (hk : ∀ k ∈ keys, ∃ r ∈ rows, r.frame = k) :
    coordsFromDfIter (groupsBy keys rows) =
      keys.map (fun k => (some k, (rows.filter (fun r => r.frame == k)).map (·.coords))) := by
  rw [linkDfIter_levels, groupsBy, List.map_map]
  apply List.map_congr_left
  intro k hkm
  simp only [Function.comp, head_filter_frame rows k (hk k hkm)]

/-- **(c) the frames reach the linker in time order.**  `predictor.link_df(table)` hands the linker
one level per distinct frame value of the table, each exactly once, in STRICTLY INCREASING order of
the frame value, whatever the order of the rows of the table (`groupby` sorts its groups: this is
the only place where the frames are put in time order); the level of frame `k` holds the
coordinates of the rows of frame `k` in table order. -/
theorem wrapSingle_frames_ascending (rows : List Row) :
    ∃ keys : List Rat, keys.Pairwise (· < ·) ∧ (∀ k, k ∈ keys ↔ ∃ r ∈ rows, r.frame = k) ∧
      framesHanded rows = keys.map some ∧
      levelsHanded rows =
        keys.map (fun k => (some k, (rows.filter (fun r => r.frame == k)).map (·.coords))) := by
  have hl := levels_groupsBy (sortedKeys rows) rows (fun k hk => (mem_sortedKeys rows k).mp hk)
  refine ⟨sortedKeys rows, sortedKeys_sorted rows, mem_sortedKeys rows, ?_, hl⟩
  unfold framesHanded levelsHanded framesOf
  rw [hl, List.map_map]
  rfl

/-! ## (b) the order of the rows of the table does not matter beyond the order inside a frame -/

theorem mem_frame_iff_filter (rows : List Row) (k : Rat) :
    (∃ r ∈ rows, r.frame = k) ↔ rows.filter (fun r => r.frame == k) ≠ [] := by
  constructor
  · rintro ⟨r, hr, he⟩ h0
    have : r ∈ rows.filter (fun r => r.frame == k) := List.mem_filter.mpr ⟨hr, by simp [he]⟩
    rw [h0] at this; cases this
  · intro h
    obtain ⟨a, ha⟩ := List.exists_mem_of_ne_nil _ h
    have := List.mem_filter.mp ha
    exact ⟨a, this.1, by simpa using this.2⟩

theorem framesOf_congr (rows rows' : List Row)
    (h : ∀ k, rows'.filter (fun r => r.frame == k) = rows.filter (fun r => r.frame == k)) :
    framesOf rows' = framesOf rows := by
  have hk : sortedKeys rows' = sortedKeys rows := by
    apply sorted_ext _ _ (sortedKeys_sorted _) (sortedKeys_sorted _)
    intro k
    rw [mem_sortedKeys, mem_sortedKeys, mem_frame_iff_filter, mem_frame_iff_filter, h k]
  unfold framesOf groupsBy
  rw [hk]
  exact List.map_congr_left (fun k _ => h k)

/-- **(b) `predictor.link_df` does not depend on the order of the rows of the table**, as long as
the order INSIDE every frame is kept: two tables with the same rows per frame value, in the same
in-frame order (e.g. one a shuffle of the other's frames, or its stable sort by any column that is
constant inside a frame) reach the linker as the same sequence of levels and come back as the
same table — same rows, same labels, same row order, same exceptions.  (Reordering INSIDE a frame
reorders the features of a level; what the linker does then is the linker's business: C03.) -/
theorem wrapSingle_perm (labelsOf : List (Option Rat × List Pos) → List (List Nat))
    (rows rows' : List Row)
    (h : ∀ k, rows'.filter (fun r => r.frame == k) = rows.filter (fun r => r.frame == k)) :
    wrapSingle labelsOf rows' = wrapSingle labelsOf rows ∧ levelsHanded rows' = levelsHanded rows := by
  have hf := framesOf_congr rows rows' h
  have he : rows'.isEmpty = rows.isEmpty := by
    cases rows' with
    | nil =>
      cases rows with
      | nil => rfl
      | cons r rs =>
        have := h r.frame
        simp at this
    | cons r rs =>
      cases rows with
      | nil =>
        have := h r.frame
        simp at this
      | cons _ _ => rfl
  refine ⟨?_, by unfold levelsHanded; rw [hf]⟩
  unfold wrapSingle
  rw [hf, he]

/-! ## (d) the seeded variant -/

/-- two frames, frame 1 listed first -/
def exTable : List Row :=
  [ { index := 0, frame := 1, coords := [7, 7], payload := 0 },
    { index := 1, frame := 0, coords := [5, 5], payload := 1 },
    { index := 2, frame := 1, coords := [9, 9], payload := 2 } ]

/-- **(d) witness: `groupby(…, sort=False)` hands the frames over in the wrong order.**  On a
two-frame table that lists frame 1 first the variant gives the linker frame 1 and then frame 0 (not
ascending), `wrap_single` frame 0 and then frame 1; for a linker that numbers the features in order
of arrival the labels written back differ. -/
theorem firstAppearance_differs :
    levelsHanded exTable = [(some 0, [[5, 5]]), (some 1, [[7, 7], [9, 9]])] ∧
    levelsHandedFirstAppearance exTable = [(some 1, [[7, 7], [9, 9]]), (some 0, [[5, 5]])] ∧
    (wrapSingle (fun _ => [[0], [1, 2]]) exTable).map (List.map (fun p => (p.1.payload, p.2))) =
      some [(1, 0), (0, 1), (2, 2)] ∧
    (wrapSingleFirstAppearance (fun _ => [[0, 1], [2]]) exTable).map
        (List.map (fun p => (p.1.payload, p.2))) = some [(0, 0), (2, 1), (1, 2)] := by
  decide

/-- non-vacuity of (b): a shuffle of `exTable` that keeps the in-frame order -/
example : ∀ k, (([exTable[1], exTable[0], exTable[2]] : List Row)).filter (fun r => r.frame == k) =
    exTable.filter (fun r => r.frame == k) := by
  intro k
  simp only [exTable, List.getElem_cons_zero, List.getElem_cons_succ, List.filter_cons,
    List.filter_nil]
  by_cases h0 : (0 : Rat) = k
  · subst h0; decide
  · by_cases h1 : (1 : Rat) = k
    · subst h1; decide
    · simp [h0, h1]

end TrackpyV.PredictTable
