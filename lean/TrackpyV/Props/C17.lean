import TrackpyV.Proofs.MSD
/-!
# C17 — MSD functions compute the defined statistic, gaps and units included

Theorems about `Model/MSD.lean` (the mirror of `trackpy/motion.py` msd/_msd_fft/_msd_gaps/imsd/emsd
with repo-fixes/C17-msd-order-nan-emsd-weights.patch applied; the unrepaired code violates the
property in three ways, each replayed from corpus/C17 by the harness).  Exact rationals, NaN = `none`.

* `msd_eq_def` — for ANY table with one row per frame (any length, start frame, gaps, row order) the
  rows of `msd` are, for the lags `1 … min(max_lagtime, max frame − min frame)`: index = lag,
  `lagt = lag/fps`, per coordinate the mean and the mean square of `(x_b − x_a)·mpp` over ALL pairs
  of observations `lag` frames apart, `none` exactly where no pair exists, `msd` = their sum over the
  coordinates.  Both algorithms are covered: the contiguous one (`fft_sums`, `fftRow_eq`: the
  cumsum / `D_sum` / `S1 − 2·S2` formulation is `Σ (r_{i+m} − r_i)²`, with `np.fft` replaced by the
  autocorrelation sum it is trusted to compute; `contig_of_span`: `max − min + 1 = len` makes sorted
  frames consecutive) and the gaps one (`gaps_sum_eq`, `gapsRow_eq_def`: re-indexed shifted arrays
  = all pairs).  `head_last_mem` says what `a`, `z` are.
* `sqDef_mpp`, `dispDef_mpp` — units: the statistic of the scaled positions is `mpp²` (`mpp`) times
  the statistic in pixels.
* `index_is_lag` — every output row has `1 ≤ lag ≤ max_lagtime` and `lagt = lag / fps`.
* `msd_order_indep` — permuting the input rows does not change any column (`N` included);
  `dispDef_perm`, `sqDef_perm`: the specification itself is order-free.
* `imsd_eq_msd` — an `imsd` cell is the `msd` row of that particle alone.
* `mem_contrib`, `emsd_weighted`, `emsd_none_iff` — `emsd = Σ N·v / Σ N` over exactly the particles
  whose own `msd` has a non-NaN value at the lag; NaN iff there is none.

`Props/C17Def.lean` continues: `msdDef_eq_pairMean` (`msdDef` = the mean over the pairs of observations
`lag` frames apart of the squared displacement summed over the coordinates — one pair set for every
coordinate — both NaN together), `msd_eq_rows` (all columns incl. `N`, from the table alone) and
`emsd_eq_def` (the ensemble value as the weighted mean of the all-pairs definitions).
-/
namespace TrackpyV.MSD

/-- one observation per frame (the domain of the property: a single trajectory) -/
def NodupFrames (rows : List FullRow) : Prop := (rows.map (·.1)).Nodup

/-- the statistics of an output row: index `lag`, `lagt`, `<c>`, `<c^2>`, `msd` -/
def Out.stats (o : Out) : Nat × Rat × List (Option Rat) × List (Option Rat) × Option Rat :=
  (o.lag, o.lagt, o.disp, o.sqd, o.msd)

/-- the row the PROPERTY demands at lag `m`: index `m`, `lagt = m / fps`, per coordinate the mean
(squared) displacement over ALL pairs of observations `m` frames apart (`none` = NaN when there is
no such pair), in microns (positions are multiplied by `mpp` in `coord`) -/
def specRow (rows : List FullRow) (d : Nat) (mpp fps : Rat) (m : Nat) :
    Nat × Rat × List (Option Rat) × List (Option Rat) × Option Rat :=
  (m, (m : Rat) / fps,
   (List.range d).map (fun c => dispDef (coord mpp c rows) m),
   (List.range d).map (fun c => sqDef (coord mpp c rows) m),
   msdDef mpp d rows m)

/-! ## facts about the sorted table -/

theorem coord_frames (mpp : Rat) (c : Nat) (s : List FullRow) :
    (coord mpp c s).map (·.1) = s.map (·.1) := by
  simp [coord, List.map_map, Function.comp_def]

theorem le_last : ∀ (s : List FullRow), (s.Pairwise fun a b => a.1 ≤ b.1) → ∀ z, s.getLast? = some z →
    ∀ x ∈ s, x.1 ≤ z.1
  | [], _, _, _, x, hx => by simp at hx
  | [a], _, z, hl, x, hx => by
    simp at hl hx; subst hl; subst hx; exact Int.le_refl _
  | a :: b :: t, hp, z, hl, x, hx => by
    rw [List.getLast?_cons_cons] at hl
    rw [List.pairwise_cons] at hp
    rcases List.mem_cons.mp hx with rfl | hx'
    · exact hp.1 z (List.mem_of_getLast? hl)
    · exact le_last (b :: t) hp.2 z hl x hx'

/-- after the sort the first / last rows carry the minimal / maximal frame -/
theorem sorted_bounds (s : List FullRow) (hs : s.Pairwise fun a b => a.1 ≤ b.1) (a z : FullRow)
    (hh : s.head? = some a) (hl : s.getLast? = some z) : ∀ x ∈ s, a.1 ≤ x.1 ∧ x.1 ≤ z.1 := by
  intro x hx
  refine ⟨?_, le_last s hs z hl x hx⟩
  obtain ⟨t, rfl⟩ := List.head?_eq_some_iff.mp hh
  rw [List.pairwise_cons] at hs
  rcases List.mem_cons.mp hx with rfl | hx'
  · exact Int.le_refl _
  · exact hs.1 x hx'

/-- `min` / `max` of the frame column are attained by the first / last row of the sorted table -/
theorem head_last_mem (rows : List FullRow) (a z : FullRow)
    (hh : (sortRows rows).head? = some a) (hl : (sortRows rows).getLast? = some z) :
    a ∈ rows ∧ z ∈ rows ∧ ∀ x ∈ rows, a.1 ≤ x.1 ∧ x.1 ≤ z.1 := by
  have hp := sortRows_perm rows
  refine ⟨hp.mem_iff.mp (List.mem_of_head? hh), hp.mem_iff.mp (List.mem_of_getLast? hl), ?_⟩
  intro x hx
  exact sorted_bounds _ (sortRows_sorted rows) a z hh hl x (hp.mem_iff.mpr hx)

section columns
variable (rows : List FullRow) (mpp : Rat) (a z : FullRow)
  (hnd : NodupFrames rows)
  (hh : (sortRows rows).head? = some a) (hl : (sortRows rows).getLast? = some z)
include hnd hh hl

omit hh hl in
theorem nodup_sorted : ((sortRows rows).map (·.1)).Nodup :=
  (((sortRows_perm rows).map (fun r : FullRow => r.1)).nodup_iff).mpr hnd

/-- a column of the gaps path is the all-pairs definition on the ORIGINAL rows -/
theorem col_gaps (c m : Nat) :
    gapsRow (reindex (coord mpp c (sortRows rows)) a.1 ((z.1 - a.1).toNat + 1)) m
      = (dispDef (coord mpp c rows) m, sqDef (coord mpp c rows) m) := by
  have hperm : (coord mpp c (sortRows rows)).Perm (coord mpp c rows) := (sortRows_perm rows).map _
  rw [gapsRow_eq_def (coord mpp c (sortRows rows)) m a.1 ((z.1 - a.1).toNat + 1)
    (by rw [coord_frames]; exact nodup_sorted rows hnd)
    (by
      intro x hx
      obtain ⟨y, hy, rfl⟩ := List.mem_map.mp hx
      have := sorted_bounds _ (sortRows_sorted rows) a z hh hl y hy
      simp only
      omega),
    dispDef_perm hperm, sqDef_perm hperm]

/-- a column of the FFT path (taken when the sorted frames span exactly `length` frames) -/
theorem col_fft (c L m : Nat) (hn : (z.1 - a.1).toNat + 1 = (sortRows rows).length)
    (hmL : m ≤ L) (hL : L < (sortRows rows).length) :
    (some (fftRow ((coord mpp c (sortRows rows)).map (·.2)) L m).1,
     some (fftRow ((coord mpp c (sortRows rows)).map (·.2)) L m).2)
      = (dispDef (coord mpp c rows) m, sqDef (coord mpp c rows) m) := by
  have hlenc : (coord mpp c (sortRows rows)).length = (sortRows rows).length := by simp [coord]
  rw [fftRow_eq _ L m hmL (by simpa [coord] using hL), ← gapVals_map_some]
  -- the frames are consecutive, so the re-indexed column is the column itself
  have hcontig : contigFrom a.1 ((coord mpp c (sortRows rows)).map (·.1)) := by
    rw [coord_frames]
    obtain ⟨t, ht⟩ := List.head?_eq_some_iff.mp hh
    have hsorted := sortRows_sorted rows
    have hnds := nodup_sorted rows hnd
    have hza := (sorted_bounds _ hsorted a z hh hl z (List.mem_of_getLast? hl)).1
    rw [ht] at hsorted hnds hl hn ⊢
    have hlt : ((a :: t).map (·.1)).Pairwise (· < ·) := by
      have h1 : ((a :: t).map (·.1)).Pairwise (· ≤ ·) := List.pairwise_map.mpr hsorted
      exact (h1.and hnds).imp (fun h => Int.lt_iff_le_and_ne.mpr h)
    have hlast : lastD a.1 (t.map (·.1)) = z.1 := by
      have h2 : ((a :: t).map (·.1)).getLast? = some z.1 := by rw [List.getLast?_map, hl]; rfl
      rw [List.map_cons, getLast?_eq_lastD] at h2
      exact Option.some.inj h2
    rw [List.map_cons] at hlt ⊢
    apply contig_of_span _ _ hlt
    rw [hlast]
    simp only [List.length_cons, List.length_map] at hn ⊢
    omega
  have hre := reindex_contig (coord mpp c (sortRows rows)) a.1 hcontig
  rw [List.map_map]
  have : (some ∘ fun (x : Row) => x.2) = fun (r : Row) => some r.2 := rfl
  rw [this, ← hre, hlenc, ← hn]
  exact col_gaps rows mpp a z hnd hh hl c m

end columns

/-! ## the main theorem -/

/-- **msd computes the defined statistic** (clauses "mean over all pairs … times mpp²", "indexed by
lag and lag/fps", "NaN where no such pair exists", "does not depend on whether frames are missing").
For every table with one row per frame, in ANY row order, with or without gaps, the rows of `msd`
are exactly the rows demanded by the property for the lags `1 … min(max_lagtime, max frame − min
frame)`; `a`, `z` are the rows with the minimal / maximal frame (`head_last_mem`). -/
theorem msd_eq_def (rows : List FullRow) (d : Nat) (mpp fps : Rat) (maxLag : Nat)
    (hnd : NodupFrames rows) (a z : FullRow)
    (hh : (sortRows rows).head? = some a) (hl : (sortRows rows).getLast? = some z) :
    (msd rows d mpp fps maxLag).map Out.stats
      = (List.range (min maxLag (z.1 - a.1).toNat)).map fun i => specRow rows d mpp fps (i + 1) := by
  unfold msd
  simp only [hh, hl]
  split
  · -- FFT path
    rename_i hn
    have hL : min maxLag ((sortRows rows).length - 1) = min maxLag (z.1 - a.1).toNat := by
      rw [← hn]; simp
    simp only [fftOut, hL, List.map_map]
    apply List.map_congr_left
    intro i hi
    have hi' := List.mem_range.mp hi
    have hF := fun c => col_fft rows mpp a z hnd hh hl c (min maxLag (z.1 - a.1).toNat) (i + 1) hn
      (by omega) (by omega)
    have e1 : (fun c => dispDef (coord mpp c rows) (i + 1)) = fun c =>
        some (fftRow ((coord mpp c (sortRows rows)).map (·.2)) (min maxLag (z.1 - a.1).toNat) (i + 1)).1 :=
      funext fun c => (congrArg Prod.fst (hF c)).symm
    have e2 : (fun c => sqDef (coord mpp c rows) (i + 1)) = fun c =>
        some (fftRow ((coord mpp c (sortRows rows)).map (·.2)) (min maxLag (z.1 - a.1).toNat) (i + 1)).2 :=
      funext fun c => (congrArg Prod.snd (hF c)).symm
    simp only [Function.comp, Out.stats, specRow, msdDef, e1, e2]
    refine congrArg _ (congrArg _ (congrArg _ (congrArg _ ?_)))
    rw [← sumOpt_map_some, List.map_map]
    rfl
  · -- gaps path
    have hL : min maxLag ((z.1 - a.1).toNat + 1 - 1) = min maxLag (z.1 - a.1).toNat := by simp
    simp only [gapsOut, hL, List.map_map]
    apply List.map_congr_left
    intro i _
    have hG : (fun c => gapsRow (reindex (coord mpp c (sortRows rows)) a.1 ((z.1 - a.1).toNat + 1)) (i + 1))
        = fun c => (dispDef (coord mpp c rows) (i + 1), sqDef (coord mpp c rows) (i + 1)) :=
      funext fun c => col_gaps rows mpp a z hnd hh hl c (i + 1)
    simp only [Function.comp, Out.stats, specRow, msdDef, hG]
    rfl

/-! ## units -/

theorem sum_map_mul (l : List Rat) (k : Rat) : (l.map (· * k)).sum = l.sum * k := by
  induction l with
  | nil => simp
  | cons x xs ih => simp only [List.map_cons, List.sum_cons, ih]; ring

theorem meanOpt_scale (l : List Rat) (k : Rat) : meanOpt (l.map (· * k)) = (meanOpt l).map (· * k) := by
  unfold meanOpt
  by_cases h : l.length = 0
  · simp [h]
  · simp only [List.length_map, h, if_false, Option.map_some, sum_map_mul]
    congr 1; ring

theorem diffs_scale (l : List Row) (k : Rat) (lag : Nat) :
    diffs (l.map fun r => (r.1, r.2 * k)) lag = (diffs l lag).map (· * k) := by
  unfold diffs
  rw [List.flatMap_map, List.map_flatMap]
  congr 1
  funext a
  rw [List.filter_map, List.map_map, List.map_map]
  apply List.map_congr_left
  intro b _
  simp only [Function.comp]
  ring

theorem coord_scale (mpp : Rat) (c : Nat) (rows : List FullRow) :
    coord mpp c rows = (coord 1 c rows).map fun r => (r.1, r.2 * mpp) := by
  simp [coord, List.map_map, Function.comp_def]

/-- **units**: positions are in pixels, the results in microns — the mean squared displacement of
the scaled positions is `mpp²` times the one of the pixel positions (and `mpp` times for `<x>`) -/
theorem sqDef_mpp (mpp : Rat) (c : Nat) (rows : List FullRow) (lag : Nat) :
    sqDef (coord mpp c rows) lag = (sqDef (coord 1 c rows) lag).map (· * (mpp * mpp)) := by
  unfold sqDef
  rw [coord_scale, diffs_scale, ← meanOpt_scale, List.map_map, List.map_map]
  congr 1
  apply List.map_congr_left
  intro x _
  simp only [Function.comp, sq]; ring

theorem dispDef_mpp (mpp : Rat) (c : Nat) (rows : List FullRow) (lag : Nat) :
    dispDef (coord mpp c rows) lag = (dispDef (coord 1 c rows) lag).map (· * mpp) := by
  unfold dispDef
  rw [coord_scale, diffs_scale, ← meanOpt_scale]

/-! ## row order -/

theorem eq_of_frame_eq : ∀ (l : List FullRow), (l.map (·.1)).Nodup → ∀ a ∈ l, ∀ b ∈ l,
    a.1 = b.1 → a = b
  | [], _, a, ha, _, _, _ => by simp at ha
  | x :: l, hnd, a, ha, b, hb, hab => by
    simp only [List.map_cons, List.nodup_cons] at hnd
    rcases List.mem_cons.mp ha with rfl | ha' <;> rcases List.mem_cons.mp hb with rfl | hb'
    · rfl
    · exact absurd (List.mem_map.mpr ⟨b, hb', hab.symm⟩) hnd.1
    · exact absurd (List.mem_map.mpr ⟨a, ha', hab⟩) hnd.1
    · exact eq_of_frame_eq l hnd.2 a ha' b hb' hab

/-- the sort erases the input row order (one row per frame) -/
theorem sortRows_perm_eq (rows rows' : List FullRow) (hp : rows.Perm rows') (hnd : NodupFrames rows) :
    sortRows rows = sortRows rows' := by
  have hs := sortRows_perm rows
  have hs' := sortRows_perm rows'
  apply List.Perm.eq_of_pairwise (le := fun a b : FullRow => a.1 ≤ b.1) _
    (sortRows_sorted rows) (sortRows_sorted rows') (hs.trans (hp.trans hs'.symm))
  intro a b ha hb h1 h2
  exact eq_of_frame_eq rows hnd a (hs.mem_iff.mp ha) b (hp.mem_iff.mpr (hs'.mem_iff.mp hb))
    (Int.le_antisymm h1 h2)

/-- **the result does not depend on the order of the input rows** — every column, `N` included -/
theorem msd_order_indep (rows rows' : List FullRow) (d : Nat) (mpp fps : Rat) (maxLag : Nat)
    (hp : rows.Perm rows') (hnd : NodupFrames rows) :
    msd rows d mpp fps maxLag = msd rows' d mpp fps maxLag := by
  unfold msd
  rw [sortRows_perm_eq rows rows' hp hnd]

/-- **index is the lag, `lagt = lag / fps`** (both paths, by construction of the rows) -/
theorem index_is_lag (rows : List FullRow) (d : Nat) (mpp fps : Rat) (maxLag : Nat) :
    ∀ o ∈ msd rows d mpp fps maxLag, 1 ≤ o.lag ∧ o.lag ≤ maxLag ∧ o.lagt = (o.lag : Rat) / fps := by
  intro o ho
  unfold msd at ho
  simp only at ho
  cases hh : (sortRows rows).head? with
  | none => simp [hh] at ho
  | some a =>
    cases hl : (sortRows rows).getLast? with
    | none => simp [hh, hl] at ho
    | some z =>
      simp only [hh, hl] at ho
      split at ho
      · simp only [fftOut, List.mem_map, List.mem_range] at ho
        obtain ⟨i, hi, rfl⟩ := ho
        exact ⟨by simp, by simp only; omega, rfl⟩
      · simp only [gapsOut, List.mem_map, List.mem_range] at ho
        obtain ⟨i, hi, rfl⟩ := ho
        exact ⟨by simp, by simp only; omega, rfl⟩

/-! ## imsd / emsd -/

theorem lookup_map_self (ids : List Nat) (f : Nat → List Out) (p : Nat) (hp : p ∈ ids) :
    (ids.map fun q => (q, f q)).lookup p = some (f p) := by
  induction ids with
  | nil => simp at hp
  | cons q ids ih =>
    simp only [List.map_cons, List.lookup_cons]
    by_cases h : p = q
    · subst h; simp
    · have : (p == q) = false := by simp [h]
      rw [this]
      exact ih (by simpa [h] using hp)

/-- **imsd reports the same numbers per particle**: the cell (lag, p) of `imsd` is the value of the
row at that lag of `msd` applied to the rows of particle `p` alone (NaN when `msd` has no such row). -/
theorem imsd_eq_msd (t : List PRow) (d : Nat) (mpp fps : Rat) (maxLag : Nat)
    (col : Out → Option Rat) (p lag : Nat) (hp : p ∈ particleIds t) :
    imsdCell (perParticle t d mpp fps maxLag) col p lag
      = (rowAt (msd (rowsOf t p) d mpp fps maxLag) lag).bind col := by
  unfold imsdCell perParticle
  rw [lookup_map_self _ _ p hp]

/-- who contributes to `emsd` at a lag: exactly the particles whose own `msd` has a row at the lag
with a defined (non-NaN) value; each enters with its weight `N` and its value -/
theorem mem_contrib (per : List (Nat × List Out)) (col : Out → Option Rat) (lag : Nat) (w v : Rat) :
    (w, v) ∈ contrib per col lag
      ↔ ∃ x ∈ per, ∃ o, rowAt x.2 lag = some o ∧ col o = some v ∧ o.n = w := by
  unfold contrib
  simp only [List.mem_filterMap, Option.bind_eq_some_iff, Option.map_eq_some_iff, Prod.mk.injEq]
  constructor
  · rintro ⟨x, hx, o, ho, v', hv, hw, rfl⟩
    exact ⟨x, hx, o, ho, hv, hw⟩
  · rintro ⟨x, hx, o, ho, hv, hw⟩
    exact ⟨x, hx, o, ho, v, hv, hw, rfl⟩

/-- **emsd is the N-weighted average over the particles that contribute at that lag** -/
theorem emsd_weighted (per : List (Nat × List Out)) (col : Out → Option Rat) (lag : Nat)
    (h : contrib per col lag ≠ []) :
    emsdAt per col lag
      = some (((contrib per col lag).map fun x => x.1 * x.2).sum / ((contrib per col lag).map (·.1)).sum) := by
  unfold emsdAt
  have : (contrib per col lag).length ≠ 0 := by simpa using h
  simp [this]

/-- emsd is NaN exactly when no particle contributes at the lag -/
theorem emsd_none_iff (per : List (Nat × List Out)) (col : Out → Option Rat) (lag : Nat) :
    emsdAt per col lag = none ↔ ∀ x ∈ per, ∀ o, rowAt x.2 lag = some o → col o = none := by
  unfold emsdAt
  constructor
  · intro h x hx o ho
    by_contra hc
    obtain ⟨v, hv⟩ := Option.ne_none_iff_exists'.mp hc
    have hm : (o.n, v) ∈ contrib per col lag := (mem_contrib per col lag o.n v).mpr ⟨x, hx, o, ho, hv, rfl⟩
    have : (contrib per col lag).length ≠ 0 := by
      intro h0; rw [List.length_eq_zero_iff] at h0; rw [h0] at hm; simp at hm
    simp [this] at h
  · intro h
    have : contrib per col lag = [] := by
      apply List.eq_nil_iff_forall_not_mem.mpr
      rintro ⟨w, v⟩ hm
      obtain ⟨x, hx, o, ho, hv, _⟩ := (mem_contrib per col lag w v).mp hm
      rw [h x hx o ho] at hv
      cases hv
    simp [this]

/-! ## non-vacuity -/

/-- the hypotheses of `msd_eq_def` hold on a gapped trajectory (frames 0, 2, 4) whose lags 1 and 3
have no pair -/
example : NodupFrames [(0, [0, 0]), (2, [1, 0]), (4, [3, 0])] ∧
    (sortRows [(0, [0, 0]), (2, [1, 0]), (4, [3, 0])]).head? = some (0, [0, 0]) ∧
    (sortRows [(0, [0, 0]), (2, [1, 0]), (4, [3, 0])]).getLast? = some (4, [3, 0]) := by
  have hs : sortRows [(0, [0, 0]), (2, [1, 0]), (4, [3, 0])] = [(0, [0, 0]), (2, [1, 0]), (4, [3, 0])] := by
    unfold sortRows
    apply List.mergeSort_of_pairwise
    simp
  rw [hs]
  refine ⟨by simp [NodupFrames], rfl, rfl⟩

/-- the specification is NaN at a lag without a pair and a number at a lag with pairs -/
example : sqDef [(0, 0), (2, 1), (4, 3)] 1 = none ∧ sqDef [(0, 0), (2, 1), (4, 3)] 2 = some (5 / 2) := by
  constructor
  · simp [sqDef, diffs, meanOpt]
  · simp [sqDef, diffs, meanOpt, sq]; norm_num

/-- a permuted table satisfies the hypotheses of `msd_order_indep` -/
example : ([(3, [6]), (0, [0]), (1, [1])] : List FullRow).Perm [(0, [0]), (1, [1]), (3, [6])] ∧
    NodupFrames [(3, [6]), (0, [0]), (1, [1])] := by
  refine ⟨?_, by simp [NodupFrames]⟩
  exact (List.Perm.swap _ _ _).trans ((List.Perm.swap _ _ _).cons _) |>.symm |>.symm

end TrackpyV.MSD
