import TrackpyV.Proofs.MSD
/-!
# C17 — MSD functions compute the defined statistic, gaps and units included

Theorems about `Model/MSD.lean` (the mirror of `trackpy/motion.py` msd/_msd_fft/_msd_gaps/imsd/emsd
with repo-fixes/C17-msd-order-nan-emsd-weights.patch applied).
-/
namespace TrackpyV.MSD

/-- one observation per frame (the domain of the property: a single trajectory) -/
def NodupFrames (rows : List FullRow) : Prop := (rows.map (·.1)).Nodup

/-- the statistics of an output row: index `lag`, `lagt`, `<c>`, `<c^2>`, `msd` -/
def Out.stats (o : Out) : Nat × Rat × List (Option Rat) × List (Option Rat) × Option Rat :=
  (o.lag, o.lagt, o.disp, o.sqd, o.msd)

/-- the row the PROPERTY demands at lag `m`: index `m`, `lagt = m / fps`, per coordinate the mean
(squared) displacement over ALL pairs of observations `m` frames apart (`none` = NaN when there is
no such pair), in microns (positions are multiplied by `mpp` in `coord`) -/
def specRow (rows : List FullRow) (d : Nat) (mpp fps : Rat) (m : Nat) :
    Nat × Rat × List (Option Rat) × List (Option Rat) × Option Rat :=
  (m, (m : Rat) / fps,
   (List.range d).map (fun c => dispDef (coord mpp c rows) m),
   (List.range d).map (fun c => sqDef (coord mpp c rows) m),
   msdDef mpp d rows m)

/-! ## facts about the sorted table -/

theorem coord_frames (mpp : Rat) (c : Nat) (s : List FullRow) :
    (coord mpp c s).map (·.1) = s.map (·.1) := by
  simp [coord, List.map_map, Function.comp_def]

theorem le_last : ∀ (s : List FullRow), (s.Pairwise fun a b => a.1 ≤ b.1) → ∀ z, s.getLast? = some z →
    ∀ x ∈ s, x.1 ≤ z.1
  | [], _, _, _, x, hx => by simp at hx
  | [a], _, z, hl, x, hx => by
    simp at hl hx; subst hl; subst hx; exact Int.le_refl _
  | a :: b :: t, hp, z, hl, x, hx => by
    rw [List.getLast?_cons_cons] at hl
    rw [List.pairwise_cons] at hp
    rcases List.mem_cons.mp hx with rfl | hx'
    · exact hp.1 z (List.mem_of_getLast? hl)
    · exact le_last (b :: t) hp.2 z hl x hx'

/-- after the sort the first / last rows carry the minimal / maximal frame -/
theorem sorted_bounds (s : List FullRow) (hs : s.Pairwise fun a b => a.1 ≤ b.1) (a z : FullRow)
    (hh : s.head? = some a) (hl : s.getLast? = some z) : ∀ x ∈ s, a.1 ≤ x.1 ∧ x.1 ≤ z.1 := by
  intro x hx
  refine ⟨?_, le_last s hs z hl x hx⟩
  obtain ⟨t, rfl⟩ := List.head?_eq_some_iff.mp hh
  rw [List.pairwise_cons] at hs
  rcases List.mem_cons.mp hx with rfl | hx'
  · exact Int.le_refl _
  · exact hs.1 x hx'

/-- `min` / `max` of the frame column are attained by the first / last row of the sorted table -/
theorem head_last_mem (rows : List FullRow) (a z : FullRow)
    (hh : (sortRows rows).head? = some a) (hl : (sortRows rows).getLast? = some z) :
    a ∈ rows ∧ z ∈ rows ∧ ∀ x ∈ rows, a.1 ≤ x.1 ∧ x.1 ≤ z.1 := by
  have hp := sortRows_perm rows
  refine ⟨hp.mem_iff.mp (List.mem_of_head? hh), hp.mem_iff.mp (List.mem_of_getLast? hl), ?_⟩
  intro x hx
  exact sorted_bounds _ (sortRows_sorted rows) a z hh hl x (hp.mem_iff.mpr hx)

section columns
variable (rows : List FullRow) (mpp : Rat) (a z : FullRow)
  (hnd : NodupFrames rows)
  (hh : (sortRows rows).head? = some a) (hl : (sortRows rows).getLast? = some z)
include hnd hh hl

theorem nodup_sorted : ((sortRows rows).map (·.1)).Nodup :=
  (((sortRows_perm rows).map (fun r : FullRow => r.1)).nodup_iff).mpr hnd

/-- a column of the gaps path is the all-pairs definition on the ORIGINAL rows -/
theorem col_gaps (c m : Nat) :
    gapsRow (reindex (coord mpp c (sortRows rows)) a.1 ((z.1 - a.1).toNat + 1)) m
      = (dispDef (coord mpp c rows) m, sqDef (coord mpp c rows) m) := by
  have hperm : (coord mpp c (sortRows rows)).Perm (coord mpp c rows) := (sortRows_perm rows).map _
  rw [gapsRow_eq_def (coord mpp c (sortRows rows)) m a.1 ((z.1 - a.1).toNat + 1)
    (by rw [coord_frames]; exact nodup_sorted rows a z hnd hh hl)
    (by
      intro x hx
      obtain ⟨y, hy, rfl⟩ := List.mem_map.mp hx
      have := sorted_bounds _ (sortRows_sorted rows) a z hh hl y hy
      simp only
      omega),
    dispDef_perm hperm, sqDef_perm hperm]

/-- a column of the FFT path (taken when the sorted frames span exactly `length` frames) -/
theorem col_fft (c L m : Nat) (hn : (z.1 - a.1).toNat + 1 = (sortRows rows).length)
    (hmL : m ≤ L) (hL : L < (sortRows rows).length) :
    (some (fftRow ((coord mpp c (sortRows rows)).map (·.2)) L m).1,
     some (fftRow ((coord mpp c (sortRows rows)).map (·.2)) L m).2)
      = (dispDef (coord mpp c rows) m, sqDef (coord mpp c rows) m) := by
  have hlenc : (coord mpp c (sortRows rows)).length = (sortRows rows).length := by simp [coord]
  rw [fftRow_eq _ L m hmL (by simpa [coord] using hL), ← gapVals_map_some]
  -- the frames are consecutive, so the re-indexed column is the column itself
  have hcontig : contigFrom a.1 ((coord mpp c (sortRows rows)).map (·.1)) := by
    rw [coord_frames]
    obtain ⟨t, ht⟩ := List.head?_eq_some_iff.mp hh
    have hsorted := sortRows_sorted rows
    have hnds := nodup_sorted rows a z hnd hh hl
    have hza := (sorted_bounds _ hsorted a z hh hl z (List.mem_of_getLast? hl)).1
    rw [ht] at hsorted hnds hl hn ⊢
    have hlt : ((a :: t).map (·.1)).Pairwise (· < ·) := by
      have h1 : ((a :: t).map (·.1)).Pairwise (· ≤ ·) := List.pairwise_map.mpr hsorted
      exact (h1.and hnds).imp (fun h => Int.lt_iff_le_and_ne.mpr h)
    have hlast : lastD a.1 (t.map (·.1)) = z.1 := by
      have h2 : ((a :: t).map (·.1)).getLast? = some z.1 := by rw [List.getLast?_map, hl]; rfl
      rw [List.map_cons, getLast?_eq_lastD] at h2
      exact Option.some.inj h2
    rw [List.map_cons] at hlt ⊢
    apply contig_of_span _ _ hlt
    rw [hlast]
    simp only [List.length_cons, List.length_map] at hn ⊢
    omega
  have hre := reindex_contig (coord mpp c (sortRows rows)) a.1 hcontig
  rw [List.map_map]
  have : (some ∘ fun (x : Row) => x.2) = fun (r : Row) => some r.2 := rfl
  rw [this, ← hre, hlenc, ← hn]
  exact col_gaps rows mpp a z hnd hh hl c m

end columns

/-! ## the main theorem -/

/-- **msd computes the defined statistic** (clauses "mean over all pairs … times mpp²", "indexed by
lag and lag/fps", "NaN where no such pair exists", "does not depend on whether frames are missing").
For every table with one row per frame, in ANY row order, with or without gaps, the rows of `msd`
are exactly the rows demanded by the property for the lags `1 … min(max_lagtime, max frame − min
frame)`; `a`, `z` are the rows with the minimal / maximal frame (`head_last_mem`). -/
theorem msd_eq_def (rows : List FullRow) (d : Nat) (mpp fps : Rat) (maxLag : Nat)
    (hnd : NodupFrames rows) (a z : FullRow)
    (hh : (sortRows rows).head? = some a) (hl : (sortRows rows).getLast? = some z) :
    (msd rows d mpp fps maxLag).map Out.stats
      = (List.range (min maxLag (z.1 - a.1).toNat)).map fun i => specRow rows d mpp fps (i + 1) := by
  unfold msd
  simp only [hh, hl]
  split
  · -- FFT path
    rename_i hn
    have hL : min maxLag ((sortRows rows).length - 1) = min maxLag (z.1 - a.1).toNat := by
      rw [← hn]; simp
    simp only [fftOut, hL, List.map_map]
    apply List.map_congr_left
    intro i hi
    have hi' := List.mem_range.mp hi
    have hF := fun c => col_fft rows mpp a z hnd hh hl c (min maxLag (z.1 - a.1).toNat) (i + 1) hn
      (by omega) (by omega)
    have e1 : (fun c => dispDef (coord mpp c rows) (i + 1)) = fun c =>
        some (fftRow ((coord mpp c (sortRows rows)).map (·.2)) (min maxLag (z.1 - a.1).toNat) (i + 1)).1 :=
      funext fun c => (congrArg Prod.fst (hF c)).symm
    have e2 : (fun c => sqDef (coord mpp c rows) (i + 1)) = fun c =>
        some (fftRow ((coord mpp c (sortRows rows)).map (·.2)) (min maxLag (z.1 - a.1).toNat) (i + 1)).2 :=
      funext fun c => (congrArg Prod.snd (hF c)).symm
    simp only [Function.comp, Out.stats, specRow, msdDef, e1, e2]
    refine congrArg _ (congrArg _ (congrArg _ (congrArg _ ?_)))
    rw [← sumOpt_map_some, List.map_map]
    rfl
  · -- gaps path
    have hL : min maxLag ((z.1 - a.1).toNat + 1 - 1) = min maxLag (z.1 - a.1).toNat := by simp
    simp only [gapsOut, hL, List.map_map]
    apply List.map_congr_left
    intro i _
    have hG : (fun c => gapsRow (reindex (coord mpp c (sortRows rows)) a.1 ((z.1 - a.1).toNat + 1)) (i + 1))
        = fun c => (dispDef (coord mpp c rows) (i + 1), sqDef (coord mpp c rows) (i + 1)) :=
      funext fun c => col_gaps rows mpp a z hnd hh hl c (i + 1)
    simp only [Function.comp, Out.stats, specRow, msdDef, hG]
    rfl

end TrackpyV.MSD
