import TrackpyV.Props.C16Frames
/-!
# C16 (X26) — the bounds / failed-fit clauses as statements about TABLE ROWS

`Props/C16.lean` proves `success_within_bounds` about the fitted BLOCK (`ColsOK`) and
`failed_rows_untouched` about one step.  Here both are carried through `writeBack` / `scatter` and
through the whole per-cluster loop `refineClusters` to the rows of the returned table.

* `writeBack_rows_of_cluster`, `writeBack_rows_outside` (a) — what `writeBack` does to a row.
* `RunInv` / `stepCluster_preserves_inv` / `refineClusters_inv` — the invariant of the fold: the
  clusters already processed are decided (`ClFailed` or `ClFitted`, relative to the INPUT table),
  every other row still equals the input.
* `refine_rows_within_bounds` (b), `refine_failed_rows_keep_input` (c),
  `refine_every_row_decided` (d), and the same three for `refineCtl` at cluster level.
* `nan_cost_after_success_witness` — why (c) needs the hypothesis `FiniteDev`: the loop accepts a
  NaN `rms_dev` (`NaN > max_rms_dev` is False), so a SUCCESSFUL fit can carry `cost = NaN`.
-/
namespace TrackpyV.Bounds
open List

/-! ## cells and rows of a table -/

/-- the cell in parameter column `j`, row `i` (`none` = no such cell) -/
def cell (t : Table) (j i : Nat) : Option (Option Rat) := (t.cols[j]?).bind (·[i]?)

/-- row `i` of `t'` is row `i` of `t`: every parameter column and the cost -/
def RowEq (t t' : Table) (i : Nat) : Prop :=
  t'.cost[i]? = t.cost[i]? ∧ ∀ j, cell t' j i = cell t j i

theorem RowEq.refl (t : Table) (i : Nat) : RowEq t t i := ⟨rfl, fun _ => rfl⟩

theorem RowEq.trans {a b c : Table} {i : Nat} (h1 : RowEq a b i) (h2 : RowEq b c i) :
    RowEq a c i := ⟨h2.1.trans h1.1, fun j => (h2.2 j).trans (h1.2 j)⟩

/-- `n` rows, one column per fit parameter -/
def TableOK (cfg : Cfg) (n : Nat) (t : Table) : Prop :=
  t.cost.length = n ∧ t.cols.length = cfg.modes.length ∧ ∀ c ∈ t.cols, c.length = n

/-! ## scatter with distinct positions -/

theorem scatter_getElem?_of_nodup {α} : ∀ (c : List α) (idx : List Nat) (vs : List α) (k : Nat)
    (hk : k < idx.length), idx.Nodup → k < vs.length → idx[k] < c.length →
    (scatter c idx vs)[idx[k]]? = vs[k]?
  | _, [], _, _, hk, _, _, _ => by simp at hk
  | _, _ :: _, [], _, _, _, hv, _ => by simp at hv
  | c, i :: is, v :: vs, 0, _, hnd, _, hlt => by
    have hi : i ∉ is := (List.nodup_cons.mp hnd).1
    simp only [scatter, List.getElem_cons_zero, List.getElem?_cons_zero]
    rw [scatter_getElem?_of_not_mem _ _ _ _ hi]
    have hlt' : i < c.length := by simpa using hlt
    simp [hlt']
  | c, i :: is, v :: vs, k + 1, hk, hnd, hv, hlt => by
    simp only [scatter, List.getElem_cons_succ, List.getElem?_cons_succ]
    exact scatter_getElem?_of_nodup (c.set i v) is vs k (by simpa using hk)
      (List.nodup_cons.mp hnd).2 (by simpa using hv) (by simpa using hlt)

/-! ## (a) what `writeBack` does to a row -/

theorem cell_writeBack_fitted (t : Table) (cl : List Nat) (block : List (List (Option Rat)))
    (dev : Option Rat) (j i : Nat) (c b : List (Option Rat)) (hc : t.cols[j]? = some c)
    (hb : block[j]? = some b) :
    cell (writeBack t cl (.fitted block dev)) j i = (scatter c cl b)[i]? := by
  simp [cell, writeBack, List.getElem?_zipWith, hc, hb]

/-- (a), rows OF the cluster.  `writeBack` of a fitted block (as many columns as the table, every
column as long as the cluster) for a cluster `cl` of distinct row positions inside the table: row
`cl[k]` of the new table holds exactly row `k` of the block in every parameter column and the new
cost.  (The model's table consists of the fit-parameter columns and `cost` only — every column IS a
fitted column; `const` columns are part of the block and carry their old values, see
`ClFitted`.) -/
theorem writeBack_rows_of_cluster (t : Table) (cl : List Nat) (block : List (List (Option Rat)))
    (dev : Option Rat) (n : Nat) (hcost : t.cost.length = n) (hcols : ∀ c ∈ t.cols, c.length = n)
    (hnd : cl.Nodup) (hin : ∀ i ∈ cl, i < n) (hbl : block.length = t.cols.length)
    (hbw : ∀ b ∈ block, b.length = cl.length) (k : Nat) (hk : k < cl.length) :
    (writeBack t cl (.fitted block dev)).cost[cl[k]]? = some (costOf dev) ∧
    ∀ j, cell (writeBack t cl (.fitted block dev)) j cl[k] = (block[j]?).bind (·[k]?) := by
  have hlt : cl[k] < n := hin _ (List.getElem_mem hk)
  refine ⟨?_, fun j => ?_⟩
  · simp only [writeBack]
    rw [scatter_getElem?_of_nodup _ _ _ k hk hnd (by simpa using hk) (by omega)]
    simp [hk]
  · by_cases hj : j < t.cols.length
    · have hjb : j < block.length := by omega
      rw [cell_writeBack_fitted t cl block dev j _ t.cols[j] block[j]
        (List.getElem?_eq_getElem hj) (List.getElem?_eq_getElem hjb)]
      have hb := hbw _ (List.getElem_mem hjb)
      have hc := hcols _ (List.getElem_mem hj)
      rw [scatter_getElem?_of_nodup _ _ _ k hk hnd (by omega) (by omega)]
      simp [List.getElem?_eq_getElem hjb]
    · have h1 : (writeBack t cl (.fitted block dev)).cols[j]? = none := by
        simp only [writeBack, List.getElem?_zipWith]
        rw [List.getElem?_eq_none (by omega)]
      have h2 : block[j]? = none := List.getElem?_eq_none (by omega)
      simp [cell, h1, h2]

/-- (a), rows OUTSIDE the cluster: whatever the outcome (failed or fitted with a block of as many
columns as the table), a row that is not in `cl` is unchanged — every column, cost included. -/
theorem writeBack_rows_outside (t : Table) (cl : List Nat) (o : Outcome)
    (ho : ∀ block dev, o = .fitted block dev → block.length = t.cols.length)
    (i : Nat) (hi : i ∉ cl) : RowEq t (writeBack t cl o) i := by
  refine ⟨(other_rows_unaffected t cl o i hi).1, fun j => ?_⟩
  cases o with
  | failed => rfl
  | fitted block dev =>
    have hbl := ho block dev rfl
    by_cases hj : j < t.cols.length
    · rw [cell_writeBack_fitted t cl block dev j i t.cols[j] block[j]
        (List.getElem?_eq_getElem hj) (List.getElem?_eq_getElem (by omega)),
        scatter_getElem?_of_not_mem _ _ _ _ hi]
      simp [cell, List.getElem?_eq_getElem hj]
    · have h1 : (writeBack t cl (.fitted block dev)).cols[j]? = none := by
        simp only [writeBack, List.getElem?_zipWith]
        rw [List.getElem?_eq_none (by omega)]
      simp [cell, h1, List.getElem?_eq_none (Nat.le_of_not_lt hj)]

/-- a failed fit: the rows of the cluster keep every parameter value and get cost NaN -/
theorem writeBack_failed_rows (t : Table) (cl : List Nat) (i : Nat) (hi : i ∈ cl)
    (hlt : i < t.cost.length) :
    (writeBack t cl .failed).cost[i]? = some Cost.nan ∧
    ∀ j, cell (writeBack t cl .failed) j i = cell t j i :=
  ⟨scatter_const_getElem?_of_mem Cost.nan t.cost cl i hi hlt, fun _ => rfl⟩

/-! ## the block: number of columns and `const` columns are kept by every round -/

/-- same number of columns (at most one per mode) and every `const` (mode 0) column equal -/
def Kept : List Nat → List (List Rat) → List (List Rat) → Prop
  | m :: ms, c :: cs, c' :: cs' => (m = 0 → c' = c) ∧ Kept ms cs cs'
  | _, [], [] => True
  | _, _, _ => False

theorem kept_refl : ∀ (ms : List Nat) (cs : List (List Rat)), cs.length ≤ ms.length → Kept ms cs cs
  | _, [], _ => by simp [Kept]
  | [], _ :: _, h => by simp at h
  | m :: ms, c :: cs, h => ⟨fun _ => rfl, kept_refl ms cs (by simpa using h)⟩

theorem kept_trans : ∀ (ms : List Nat) (a b c : List (List Rat)),
    Kept ms a b → Kept ms b c → Kept ms a c := by
  intro ms
  induction ms with
  | nil =>
    intro a b c h1 h2
    cases a <;> cases b <;> cases c <;> simp_all [Kept]
  | cons m ms ih =>
    intro a b c h1 h2
    cases a <;> cases b <;> cases c <;> simp only [Kept] at h1 h2 ⊢
    exact ⟨fun h => (h2.1 h).trans (h1.1 h), ih _ _ _ h1.2 h2.2⟩

theorem kept_length : ∀ (ms : List Nat) (a b : List (List Rat)), Kept ms a b →
    b.length = a.length ∧ a.length ≤ ms.length := by
  intro ms
  induction ms with
  | nil =>
    intro a b h
    cases a <;> cases b <;> simp_all [Kept]
  | cons m ms ih =>
    intro a b h
    cases a <;> cases b <;> simp only [Kept] at h ⊢
    · simp
    · have := ih _ _ h.2
      simp only [List.length_cons]
      omega

theorem kept_get : ∀ (ms : List Nat) (a b : List (List Rat)) (j : Nat) (c c' : List Rat),
    Kept ms a b → ms[j]? = some 0 → a[j]? = some c → b[j]? = some c' → c' = c := by
  intro ms
  induction ms with
  | nil => intro a b j c c' _ hm; simp at hm
  | cons m ms ih =>
    intro a b j c c' h hm ha hb
    cases a with
    | nil => simp at ha
    | cons a0 a =>
      cases b with
      | nil => simp at hb
      | cons b0 b =>
        cases j with
        | zero =>
          simp only [List.getElem?_cons_zero, Option.some.injEq] at hm ha hb
          subst hm ha hb
          exact h.1 rfl
        | succ j => exact ih a b j c c' h.2 (by simpa using hm) (by simpa using ha) (by simpa using hb)

theorem unpackCols_kept (groups : Option (List (List Nat))) :
    ∀ (ms : List Nat) (v : List Rat) (cs : List (List Rat)), cs.length ≤ ms.length →
      Kept ms cs (unpackCols groups ms v cs)
  | ms, _, [], _ => by cases ms <;> simp [unpackCols, Kept]
  | [], _, _ :: _, h => by simp at h
  | m :: ms, v, c :: cs, h => by
    simp only [unpackCols, Kept]
    exact ⟨fun h0 => by simp [newCol, h0], unpackCols_kept groups ms _ cs (by simpa using h)⟩

theorem shape_get : ∀ (a b : List (List Rat)) (j : Nat) (c d : List Rat), Shape a b →
    a[j]? = some c → b[j]? = some d → c.length = d.length := by
  intro a
  induction a with
  | nil => intro b j c d _ ha; simp at ha
  | cons a0 a ih =>
    intro b j c d h ha hb
    cases b with
    | nil => simp at hb
    | cons b0 b =>
      cases j with
      | zero =>
        simp only [List.getElem?_cons_zero, Option.some.injEq] at ha hb
        subst ha hb
        exact h.1
      | succ j => exact ih b j c d h.2 (by simpa using ha) (by simpa using hb)

theorem colsOK_get (groups : Option (List (List Nat))) :
    ∀ (ms : List Nat) (ss : List Spec) (b0 b1 b' : List (List Rat)) (j m : Nat) (s : Spec)
      (c0 c1 c' : List Rat), ColsOK groups ms ss b0 b1 b' → ms[j]? = some m → ss[j]? = some s →
      b0[j]? = some c0 → b1[j]? = some c1 → b'[j]? = some c' → ColOK groups m s c0 c1 c' := by
  intro ms
  induction ms with
  | nil => intro ss b0 b1 b' j m s c0 c1 c' _ hm; simp at hm
  | cons m' ms ih =>
    intro ss b0 b1 b' j m s c0 c1 c' h hm hs h0 h1 h'
    cases ss with
    | nil => simp at hs
    | cons s' ss =>
    cases b0 with
    | nil => simp at h0
    | cons a0 b0 =>
    cases b1 with
    | nil => simp at h1
    | cons a1 b1 =>
    cases b' with
    | nil => simp at h'
    | cons a' b' =>
    cases j with
    | zero =>
      simp only [List.getElem?_cons_zero, Option.some.injEq] at hm hs h0 h1 h'
      subst hm hs h0 h1 h'
      exact h.1
    | succ j =>
      exact ih ss b0 b1 b' j m s c0 c1 c' h.2 (by simpa using hm) (by simpa using hs)
        (by simpa using h0) (by simpa using h1) (by simpa using h')

/-! ## the strengthened success lemma (same induction as `rounds_success`) -/

theorem finish_fitted_dev (cfg : Cfg) (b blk : List (List (Option Rat))) (dev dev' : Option Rat)
    (h : finish cfg b dev = .fitted blk dev') : dev' = dev := by
  unfold finish at h
  cases dev with
  | none => simp at h; exact h.2.symm
  | some d =>
    simp only at h
    split at h
    · simp at h
    · simp at h; exact h.2.symm

/-- `rounds_success` plus: the block keeps its number of columns and its `const` columns through
every round (so `prev` — hidden in `success_within_bounds`'s existential — has a column for every
parameter), and the deviation written as `cost` is one the optimiser reported. -/
theorem rounds_success_kept (cfg : Cfg) (opt : Problem → OptOut) (hc : OptContract opt)
    (groups : Option (List (List Nat))) (pgroups : List (List Nat)) (pb : Problem) (n : Nat)
    (block0 : List (List Rat)) (hsm : cfg.specs.length = cfg.modes.length)
    (hb : pb.bounds = computeBounds cfg.specs cfg.modes groups block0) :
    ∀ (fuel k : Nat) (coords block1 : List (List Rat)), Shape block0 block1 →
      Kept cfg.modes block0 block1 →
      ∀ blk dev, rounds cfg opt groups pgroups pb n fuel k coords block1 = .ok (.fitted blk dev) →
      ∃ prev cols', blk = someBlock cols' ∧ Shape block0 prev ∧ Kept cfg.modes block0 prev ∧
        Kept cfg.modes prev cols' ∧ ColsOK groups cfg.modes cfg.specs block0 prev cols' ∧
        ∃ pb' x, opt pb' = .ok x dev
  | 0, _, _, _, _, _, _, _, h => by simp [rounds] at h
  | fuel + 1, k, coords, block1, hs, hk, blk, dev, h => by
    unfold rounds at h
    by_cases hp : prepOK cfg pgroups coords
    · simp only [hp, Bool.not_true, Bool.false_eq_true, if_false] at h
      cases ho : opt { pb with round := k, coords := coords } with
      | fail => simp [ho] at h
      | raise => simp [ho] at h
      | nanx d => exact absurd ho (hc.2 _ _)
      | ok x d =>
        have hx : Forall₂ Within x (computeBounds cfg.specs cfg.modes groups block0) := by
          have := hc.1 _ x d ho
          simpa [hb] using this
        have hcols := unpack_cols_ok groups cfg.modes cfg.specs block0 block1 x hs hx
        have hl1 := kept_length _ _ _ hk
        have hk' : Kept cfg.modes block1 (unpackCols groups cfg.modes x block1) :=
          unpackCols_kept groups cfg.modes x block1 (by omega)
        simp only [ho] at h
        split at h
        · simp only [Except.ok.injEq] at h
          exact ⟨block1, _, finish_fitted _ _ _ _ _ h, hs, hk, hk', hcols, _, x,
            (finish_fitted_dev _ _ _ _ _ h) ▸ ho⟩
        · split at h
          · simp only [Except.ok.injEq] at h
            exact ⟨block1, _, finish_fitted _ _ _ _ _ h, hs, hk, hk', hcols, _, x,
              (finish_fitted_dev _ _ _ _ _ h) ▸ ho⟩
          · exact rounds_success_kept cfg opt hc groups pgroups pb n block0 hsm hb fuel (k + 1) _ _
              (unpack_shape groups cfg.modes cfg.specs block0 block1 x hsm hs hx)
              (kept_trans _ _ _ _ hk hk') blk dev h
    · simp [hp] at h

theorem mapM_id_eq_some {α} : ∀ (l : List (Option α)) (l' : List α),
    l.mapM id = some l' → l = l'.map some
  | [], l', h => by
    simp at h
    subst h
    rfl
  | a :: l, l', h => by
    cases a with
    | none => simp [List.mapM_cons] at h
    | some a =>
      cases hl : l.mapM id with
      | none => simp [List.mapM_cons, hl] at h
      | some r =>
        simp [List.mapM_cons, hl] at h
        subst h
        simp [mapM_id_eq_some l r hl]

/-- `np.isfinite(params).all()`: the block read from the table is finite, cell by cell -/
theorem allFinite_spec : ∀ (b : List (List (Option Rat))) (b0 : List (List Rat)),
    allFinite b = some b0 → b = someBlock b0
  | [], b0, h => by
    simp [allFinite] at h
    subst h
    rfl
  | c :: b, b0, h => by
    unfold allFinite at h
    cases hc : c.mapM id with
    | none => simp [List.mapM_cons, hc] at h
    | some c0 =>
      cases hb : b.mapM (fun c => c.mapM id) with
      | none => simp [List.mapM_cons, hc, hb] at h
      | some r =>
        simp [List.mapM_cons, hc, hb] at h
        subst h
        have := allFinite_spec b r hb
        simp [someBlock, mapM_id_eq_some c c0 hc, this]

/-- `success_within_bounds`, strengthened (it implies it): the input block is `someBlock block0`,
number of columns and `const` columns kept, the written deviation is one `opt` reported. -/
theorem fitBlock_fitted_kept (cfg : Cfg) (opt : Problem → OptOut) (hc : OptContract opt)
    (hsm : cfg.specs.length = cfg.modes.length)
    (groups : Option (List (List Nat))) (pgroups : List (List Nat)) (tag n : Nat)
    (blockO blk : List (List (Option Rat))) (dev : Option Rat)
    (hlen : blockO.length ≤ cfg.modes.length)
    (h : fitBlock cfg opt groups pgroups tag n blockO = .ok (.fitted blk dev)) :
    ∃ block0 prev cols', blockO = someBlock block0 ∧ blk = someBlock cols' ∧
      Shape block0 prev ∧ Kept cfg.modes block0 prev ∧ Kept cfg.modes prev cols' ∧
      ColsOK groups cfg.modes cfg.specs block0 prev cols' ∧ ∃ pb x, opt pb = .ok x dev := by
  unfold fitBlock at h
  cases hf : allFinite blockO with
  | none => simp [hf] at h
  | some block0 =>
    have hb0 := allFinite_spec _ _ hf
    have hl0 : block0.length ≤ cfg.modes.length := by
      have := congrArg List.length hb0
      simp only [someBlock, List.length_map] at this
      omega
    simp only [hf] at h
    split at h
    · simp at h
    · obtain ⟨prev, cols', h1, h2, h3, h4, h5, h6⟩ :=
        rounds_success_kept cfg opt hc groups pgroups _ n block0 hsm rfl cfg.maxIter 0 _ block0
          (shape_refl block0) (kept_refl _ _ hl0) blk dev h
      exact ⟨block0, prev, cols', hb0, h1, h2, h3, h4, h5, h6⟩

/-! ## row-level predicates -/

/-- THE BOUND PREDICATE ON ONE ROW.  Row `i` (a member of cluster `cl`) of the table `t`, against
the start table `t0`: in every parameter column `j` (mode `m`, validated spec `s`) both cells are
finite — new value `x`, start value `p` OF THE SAME ROW — and
* `const` (0): `x = p`;
* `var` (1): `x` lies in `[lowOf s p, highOf s p]`, the bounds computed from ITS OWN start value —
  by `bounds_narrowest_*` every requested difference / relative / absolute bound, by
  `default_bounds_position` within the mask radius of its start, by `default_bounds_positive` > 0;
* shared (`cluster`, 3; per-cluster level): `x` lies in the packed bounds of the START values `ps`
  of the rows of its cluster (`packed_*`: the broadest of the members' bounds, still every absolute
  bound and the default positivity). -/
def RowFitOK (cfg : Cfg) (t0 t : Table) (cl : List Nat) (i : Nat) : Prop :=
  ∀ j m s, cfg.modes[j]? = some m → cfg.specs[j]? = some s →
    ∃ x p, cell t j i = some (some x) ∧ cell t0 j i = some (some p) ∧
      (m = 0 → x = p) ∧
      (m = 1 → inB x (lowOf s p, highOf s p) = true) ∧
      (2 ≤ m → ∃ ps : List Rat, cl.map (cell t0 j) = ps.map (fun q => some (some q)) ∧
          inB x (minLow (ps.map (lowOf s)), maxHigh (ps.map (highOf s))) = true)

/-- the cluster failed: every row has cost NaN and the parameter values of `t0` -/
def ClFailed (t0 t : Table) (cl : List Nat) : Prop :=
  ∀ i ∈ cl, t.cost[i]? = some Cost.nan ∧ ∀ j, cell t j i = cell t0 j i

/-- the cluster was fitted: every row carries the deviation `dev` reported by the optimiser as its
cost (`costOf dev`; NaN iff `dev = none`) and satisfies the bound predicate -/
def ClFitted (cfg : Cfg) (opt : Problem → OptOut) (t0 t : Table) (cl : List Nat) : Prop :=
  ∃ dev, (∃ pb x, opt pb = .ok x dev) ∧
    ∀ i ∈ cl, t.cost[i]? = some (costOf dev) ∧ RowFitOK cfg t0 t cl i

theorem RowEq.symm {a b : Table} {i : Nat} (h : RowEq a b i) : RowEq b a i :=
  ⟨h.1.symm, fun j => (h.2 j).symm⟩

theorem clFailed_congr {t0 t0' t t' : Table} {cl : List Nat} (h0 : ∀ i ∈ cl, RowEq t0 t0' i)
    (h1 : ∀ i ∈ cl, RowEq t t' i) (h : ClFailed t0 t cl) : ClFailed t0' t' cl := fun i hi =>
  ⟨(h1 i hi).1.trans (h i hi).1, fun j =>
    ((h1 i hi).2 j).trans (((h i hi).2 j).trans ((h0 i hi).2 j).symm)⟩

theorem clFitted_congr {cfg : Cfg} {opt : Problem → OptOut} {t0 t0' t t' : Table} {cl : List Nat}
    (h0 : ∀ i ∈ cl, RowEq t0 t0' i) (h1 : ∀ i ∈ cl, RowEq t t' i)
    (h : ClFitted cfg opt t0 t cl) : ClFitted cfg opt t0' t' cl := by
  obtain ⟨dev, hd, h⟩ := h
  refine ⟨dev, hd, fun i hi => ⟨(h1 i hi).1.trans (h i hi).1, fun j m s hm hs => ?_⟩⟩
  obtain ⟨x, p, a1, a2, a3, a4, a5⟩ := (h i hi).2 j m s hm hs
  refine ⟨x, p, ((h1 i hi).2 j).trans a1, ((h0 i hi).2 j).trans a2, a3, a4, fun h2 => ?_⟩
  obtain ⟨ps, b1, b2⟩ := a5 h2
  refine ⟨ps, ?_, b2⟩
  rw [← b1]
  exact List.map_congr_left (fun r hr => (h0 r hr).2 j)

/-! ## one step of the loop, at row level -/

theorem extract_getElem? (t : Table) (cl : List Nat) (j : Nat) :
    (extract t cl)[j]? = (t.cols[j]?).map (fun c => gather none c cl) := by
  simp [extract]

/-- what a successful fit writes into ONE column, in terms of the column of the table -/
theorem fitted_col (cfg : Cfg) (t : Table) (cl : List Nat) (block0 prev cols' : List (List Rat))
    (hsm : cfg.specs.length = cfg.modes.length) (hcols : t.cols.length = cfg.modes.length)
    (hex : extract t cl = someBlock block0) (hsh : Shape block0 prev)
    (hk1 : Kept cfg.modes block0 prev) (hk2 : Kept cfg.modes prev cols')
    (hok : ColsOK none cfg.modes cfg.specs block0 prev cols') (j : Nat) (hj : j < t.cols.length) :
    ∃ m s c0 c', cfg.modes[j]? = some m ∧ cfg.specs[j]? = some s ∧ block0[j]? = some c0 ∧
      cols'[j]? = some c' ∧ gather none t.cols[j] cl = c0.map some ∧ c'.length = cl.length ∧
      c0.length = cl.length ∧ (m = 0 → c' = c0) ∧
      (m = 1 → Forall₂ (fun x p => inB x (lowOf s p, highOf s p) = true) c' c0) ∧
      (2 ≤ m → ∃ v, c' = c0.map (fun _ => v) ∧
        inB v (minLow (c0.map (lowOf s)), maxHigh (c0.map (highOf s))) = true) := by
  have hl0 : block0.length = t.cols.length := by
    have := congrArg List.length hex
    simpa [extract, someBlock] using this.symm
  have hl1 := (kept_length _ _ _ hk1).1
  have hl2 := (kept_length _ _ _ hk2).1
  have hm : cfg.modes[j]? = some cfg.modes[j] := List.getElem?_eq_getElem (by omega)
  have hs : cfg.specs[j]? = some cfg.specs[j] := List.getElem?_eq_getElem (by omega)
  have h0 : block0[j]? = some block0[j] := List.getElem?_eq_getElem (by omega)
  have h1 : prev[j]? = some prev[j] := List.getElem?_eq_getElem (by omega)
  have h' : cols'[j]? = some cols'[j] := List.getElem?_eq_getElem (by omega)
  have hg : gather none t.cols[j] cl = block0[j].map some := by
    have := congrArg (·[j]?) hex
    simp only [extract_getElem?, List.getElem?_eq_getElem hj, Option.map_some, someBlock,
      List.getElem?_map, h0, Option.some.injEq] at this
    exact this
  have hc0 : block0[j].length = cl.length := by
    have := congrArg List.length hg
    simpa [gather] using this.symm
  have hsl := shape_get _ _ j _ _ hsh h0 h1
  have hcol := colsOK_get none _ _ _ _ _ j _ _ _ _ _ hok hm hs h0 h1 h'
  refine ⟨_, _, _, _, hm, hs, h0, h', hg, by rw [hcol.1]; omega, hc0, fun hm0 => ?_, fun hm1 => ?_,
    fun hm2 => ?_⟩
  · have e1 := kept_get _ _ _ j _ _ hk1 (hm0 ▸ hm) h0 h1
    have e2 := kept_get _ _ _ j _ _ hk2 (hm0 ▸ hm) h1 h'
    rw [e2, e1]
  · have := hcol.2
    simp only [hm1, one_ne_zero, if_false, if_true] at this
    exact this
  · have := hcol.2
    have hne0 : cfg.modes[j] ≠ 0 := by omega
    have hne1 : cfg.modes[j] ≠ 1 := by omega
    have hgf : groupsFor none cfg.modes[j] = none := by simp [groupsFor]
    simp only [hne0, hne1, if_false, hgf] at this
    obtain ⟨v, e, hv⟩ := this
    refine ⟨v, ?_, hv⟩
    rw [e]
    apply List.ext_getElem
    · simp; omega
    · intro k _ _; simp

/-- ONE STEP, at row level.  For a cluster of distinct row positions inside a well-formed table the
step returns a well-formed table in which every row outside the cluster is unchanged and the
cluster is DECIDED: failed (cost NaN, values kept) or fitted (cost = the reported deviation, every
row within the bounds computed from its own values BEFORE the step). -/
theorem stepCluster_decides (cfg : Cfg) (opt : Problem → OptOut) (hc : OptContract opt)
    (hsm : cfg.specs.length = cfg.modes.length) (n : Nat) (t t1 : Table) (tag : Nat)
    (cl : List Nat) (hT : TableOK cfg n t) (hnd : cl.Nodup) (hin : ∀ i ∈ cl, i < n)
    (hstep : stepCluster cfg opt t tag cl = .ok t1) :
    TableOK cfg n t1 ∧ (∀ i, i ∉ cl → RowEq t t1 i) ∧
      (ClFailed t t1 cl ∨ ClFitted cfg opt t t1 cl) := by
  obtain ⟨hT1, hT2, hT3⟩ := hT
  unfold stepCluster at hstep
  split at hstep
  · simp at hstep
  · rename_i o hfit
    simp only [Except.ok.injEq] at hstep
    subst hstep
    cases o with
    | failed =>
      refine ⟨⟨by simp [writeBack, scatter_length, hT1], hT2, hT3⟩,
        fun i hi => writeBack_rows_outside t cl _ (by intro _ _ h; cases h) i hi, Or.inl ?_⟩
      intro i hi
      exact writeBack_failed_rows t cl i hi (by rw [hT1]; exact hin i hi)
    | fitted blk dev =>
      obtain ⟨block0, prev, cols', hex, hblk, hsh, hk1, hk2, hok, hdev⟩ :=
        fitBlock_fitted_kept cfg opt hc hsm none _ tag _ _ blk dev
          (by simp [extract, hT2]) hfit
      have hl0 : block0.length = t.cols.length := by
        have := congrArg List.length hex
        simpa [extract, someBlock] using this.symm
      have hl1 := (kept_length _ _ _ hk1).1
      have hl2 := (kept_length _ _ _ hk2).1
      have hbl : blk.length = t.cols.length := by rw [hblk]; simp [someBlock]; omega
      have hbw : ∀ b ∈ blk, b.length = cl.length := by
        intro b hb
        rw [hblk] at hb
        obtain ⟨j, hj, rfl⟩ := List.getElem_of_mem hb
        have hj' : j < t.cols.length := by simp [someBlock] at hj; omega
        obtain ⟨m, s, c0, c', _, _, _, e', _, hlen, _⟩ :=
          fitted_col cfg t cl block0 prev cols' hsm hT2 hex hsh hk1 hk2 hok j hj'
        have : (someBlock cols')[j] = c'.map some := by
          simp only [someBlock, List.getElem_map]
          have := List.getElem?_eq_getElem (l := cols') (i := j) (by omega)
          rw [e'] at this
          simp only [Option.some.injEq] at this
          rw [← this]
        rw [this]
        simpa using hlen
      refine ⟨⟨by simp [writeBack, scatter_length, hT1], ?_, ?_⟩,
        fun i hi => writeBack_rows_outside t cl _
          (by intro b d h; cases h; exact hbl) i hi, Or.inr ⟨dev, hdev, ?_⟩⟩
      · simp [writeBack, hbl, hT2]
      · intro c hcm
        simp only [writeBack] at hcm
        obtain ⟨j, hj, rfl⟩ := List.getElem_of_mem hcm
        simp only [List.getElem_zipWith, scatter_length]
        exact hT3 _ (List.getElem_mem _)
      · intro i hi
        obtain ⟨k, hk, rfl⟩ := List.getElem_of_mem hi
        obtain ⟨hcost, hcell⟩ := writeBack_rows_of_cluster t cl blk dev n hT1 hT3 hnd hin hbl hbw k hk
        refine ⟨hcost, fun j m s hm hs => ?_⟩
        have hj : j < t.cols.length := by
          have := (List.getElem?_eq_some_iff.mp hm).1
          omega
        obtain ⟨m', s', c0, c', em, es, e0, e', hg, hlen', hlen0, f0, f1, f2⟩ :=
          fitted_col cfg t cl block0 prev cols' hsm hT2 hex hsh hk1 hk2 hok j hj
        rw [hm] at em
        rw [hs] at es
        simp only [Option.some.injEq] at em es
        subst em es
        have hlt : cl[k] < t.cols[j].length := by
          rw [hT3 _ (List.getElem_mem _)]
          exact hin _ (List.getElem_mem _)
        have hcellt : ∀ r, r < n → cell t j r = some (t.cols[j].getD r none) := by
          intro r hr
          have : r < t.cols[j].length := by rw [hT3 _ (List.getElem_mem _)]; exact hr
          simp [cell, List.getElem?_eq_getElem hj, List.getD_eq_getElem?_getD, this]
        have hp : t.cols[j].getD cl[k] none = some c0[k] := by
          have := congrArg (·[k]?) hg
          simpa [gather, hk, List.getElem?_eq_getElem (show k < c0.length by omega)] using this
        refine ⟨c'[k], c0[k], ?_, ?_, fun h => by subst h; simp [f0 rfl], fun h => ?_, fun h => ?_⟩
        · rw [hcell j, hblk]
          simp [someBlock, e', List.getElem?_eq_getElem (show k < c'.length by omega)]
        · rw [hcellt _ (hin _ (List.getElem_mem _)), hp]
        · exact (f1 h).get (by omega) (by omega)
        · obtain ⟨v, ev, hv⟩ := f2 h
          refine ⟨c0, ?_, ?_⟩
          · have : cl.map (cell t j) = (gather none t.cols[j] cl).map some := by
              simp only [gather, List.map_map]
              exact List.map_congr_left (fun r hr => hcellt r (hin r hr))
            rw [this, hg, List.map_map]
            rfl
          · have : c'[k] = v := by simp [ev]
            rw [this]
            exact hv

/-! ## the invariant of the per-cluster loop -/

/-- hypotheses on the clustering: distinct positions inside the table, clusters pairwise disjoint
(`groupby(['frame', 'cluster'])` partitions the rows) -/
structure ClustersOK (n : Nat) (clusters : List (List Nat)) : Prop where
  nodup : ∀ cl ∈ clusters, cl.Nodup
  inRange : ∀ cl ∈ clusters, ∀ i ∈ cl, i < n
  disjoint : clusters.Pairwise List.Disjoint

/-- THE LOOP INVARIANT (`t0` = input table, `done` = clusters processed so far, `t` = current
table): the table is well formed, every processed cluster is decided RELATIVE TO THE INPUT, and
every row of no processed cluster still equals its input row. -/
structure RunInv (cfg : Cfg) (opt : Problem → OptOut) (n : Nat) (t0 : Table)
    (done : List (List Nat)) (t : Table) : Prop where
  ok : TableOK cfg n t
  decided : ∀ cl ∈ done, ClFailed t0 t cl ∨ ClFitted cfg opt t0 t cl
  pending : ∀ i, (∀ cl ∈ done, i ∉ cl) → RowEq t0 t i

theorem runInv_init (cfg : Cfg) (opt : Problem → OptOut) (n : Nat) (t : Table)
    (hT : TableOK cfg n t) : RunInv cfg opt n t [] t :=
  ⟨hT, fun _ h => by simp at h, fun i _ => RowEq.refl t i⟩

/-- preservation: one more cluster, disjoint from those already processed -/
theorem stepCluster_preserves_inv (cfg : Cfg) (opt : Problem → OptOut) (hc : OptContract opt)
    (hsm : cfg.specs.length = cfg.modes.length) (n : Nat) (t0 t t1 : Table)
    (done : List (List Nat)) (tag : Nat) (cl : List Nat) (hinv : RunInv cfg opt n t0 done t)
    (hnd : cl.Nodup) (hin : ∀ i ∈ cl, i < n) (hdis : ∀ d ∈ done, List.Disjoint cl d)
    (hstep : stepCluster cfg opt t tag cl = .ok t1) : RunInv cfg opt n t0 (cl :: done) t1 := by
  obtain ⟨hT1, hout, hdec⟩ := stepCluster_decides cfg opt hc hsm n t t1 tag cl hinv.ok hnd hin hstep
  have hpend : ∀ i ∈ cl, RowEq t0 t i := fun i hi =>
    hinv.pending i (fun d hd hid => hdis d hd hi hid)
  refine ⟨hT1, fun d hd => ?_, fun i hi => ?_⟩
  · rcases List.mem_cons.mp hd with rfl | hd
    · rcases hdec with h | h
      · exact Or.inl (clFailed_congr (fun i hi => (hpend i hi).symm) (fun i _ => RowEq.refl _ i) h)
      · exact Or.inr (clFitted_congr (fun i hi => (hpend i hi).symm) (fun i _ => RowEq.refl _ i) h)
    · have hrows : ∀ i ∈ d, RowEq t t1 i := fun i hi => hout i (fun hicl => hdis d hd hicl hi)
      rcases hinv.decided d hd with h | h
      · exact Or.inl (clFailed_congr (fun i _ => RowEq.refl _ i) hrows h)
      · exact Or.inr (clFitted_congr (fun i _ => RowEq.refl _ i) hrows h)
  · exact (hinv.pending i (fun d hd => hi d (List.mem_cons_of_mem _ hd))).trans
      (hout i (hi cl (List.mem_cons_self ..)))

/-- the invariant holds after the whole loop `refineClusters` -/
theorem refineClusters_inv (cfg : Cfg) (opt : Problem → OptOut) (hc : OptContract opt)
    (hsm : cfg.specs.length = cfg.modes.length) (n : Nat) (t0 : Table) :
    ∀ (clusters done : List (List Nat)) (t t' : Table) (tag : Nat),
      RunInv cfg opt n t0 done t → ClustersOK n clusters →
      (∀ cl ∈ clusters, ∀ d ∈ done, List.Disjoint cl d) →
      refineClusters cfg opt t tag clusters = .ok t' →
      RunInv cfg opt n t0 (clusters.reverse ++ done) t'
  | [], done, t, t', _, hinv, _, _, h => by
    simp only [refineClusters, Except.ok.injEq] at h
    subst h
    simpa using hinv
  | cl :: rest, done, t, t', tag, hinv, hcl, hdis, h => by
    unfold refineClusters at h
    split at h
    · simp at h
    · rename_i t1 hs
      have hpw := List.pairwise_cons.mp hcl.disjoint
      have h1 := stepCluster_preserves_inv cfg opt hc hsm n t0 t t1 done tag cl hinv
        (hcl.nodup cl (by simp)) (hcl.inRange cl (by simp)) (hdis cl (by simp)) hs
      have := refineClusters_inv cfg opt hc hsm n t0 rest (cl :: done) t1 t' (tag + 1) h1
        ⟨fun c hc' => hcl.nodup c (by simp [hc']), fun c hc' => hcl.inRange c (by simp [hc']),
          hpw.2⟩
        (fun c hc' d hd => by
          rcases List.mem_cons.mp hd with rfl | hd
          · exact fun a ha hb => hpw.1 c hc' hb ha
          · exact hdis c (by simp [hc']) d hd) h
      simpa using this

/-- level 'cluster' (no parameter in mode `global`): `refineCtl` is the per-cluster loop -/
theorem refineCtl_inv (cfg : Cfg) (opt : Problem → OptOut) (hc : OptContract opt)
    (hsm : cfg.specs.length = cfg.modes.length)
    (hlevel : cfg.modes.any (fun m => decide (m = 2)) = false) (n : Nat) (t t' : Table)
    (clusters : List (List Nat)) (hT : TableOK cfg n t) (hcl : ClustersOK n clusters)
    (hrun : refineCtl cfg opt t clusters = .ok t') : RunInv cfg opt n t clusters.reverse t' := by
  unfold refineCtl at hrun
  simp only [hlevel, Bool.false_eq_true, if_false] at hrun
  simpa using refineClusters_inv cfg opt hc hsm n t clusters [] t t' 0 (runInv_init cfg opt n t hT)
    hcl (fun _ _ d hd => by simp at hd) hrun

/-! ## (b), (c), (d): the property's sentences about the OUTPUT TABLE -/

/-- the optimiser never reports a NaN `rms_dev` together with a success -/
def FiniteDev (opt : Problem → OptOut) : Prop := ∀ pb x, opt pb ≠ .ok x none

theorem costOf_ne_val_of_nan {dev : Option Rat} (h : costOf dev = Cost.nan) : dev = none := by
  cases dev <;> simp [costOf] at h ⊢

/-- (b) "every successfully fitted feature stays within all requested and default bounds", about
the returned table, ASSUMING the optimiser's contract: after the whole run, every row of a cluster
whose cost is a number satisfies the bound predicate `RowFitOK` on ITS OWN row — new values against
the values the same row had in the INPUT table. -/
theorem refine_rows_within_bounds (cfg : Cfg) (opt : Problem → OptOut) (hc : OptContract opt)
    (hsm : cfg.specs.length = cfg.modes.length)
    (hlevel : cfg.modes.any (fun m => decide (m = 2)) = false) (n : Nat) (t t' : Table)
    (clusters : List (List Nat)) (hT : TableOK cfg n t) (hcl : ClustersOK n clusters)
    (hrun : refineCtl cfg opt t clusters = .ok t') (cl : List Nat) (hmem : cl ∈ clusters)
    (i : Nat) (hi : i ∈ cl) (r : Rat) (hcost : t'.cost[i]? = some (Cost.val r)) :
    RowFitOK cfg t t' cl i := by
  have hinv := refineCtl_inv cfg opt hc hsm hlevel n t t' clusters hT hcl hrun
  rcases hinv.decided cl (by simpa using hmem) with h | ⟨dev, _, h⟩
  · have := (h i hi).1
    rw [hcost] at this
    cases this
  · exact (h i hi).2

/-- (c) "the affected features keep their input values and get cost NaN", about the returned
table.  TRUE VERSION: as phrased ("cost NaN ⇒ input values") it is false of the model and of the
code — a NaN `rms_dev` passes `rms_dev > max_rms_dev` and is written as the cost of a SUCCESSFUL
fit (`nan_cost_after_success_witness`).  With `FiniteDev` (no NaN deviation reported with a
success): every row of a cluster whose output cost is NaN has exactly its input value in every
parameter column — whatever clusters were processed before and after it (they are disjoint from
its own). -/
theorem refine_failed_rows_keep_input (cfg : Cfg) (opt : Problem → OptOut) (hc : OptContract opt)
    (hfd : FiniteDev opt) (hsm : cfg.specs.length = cfg.modes.length)
    (hlevel : cfg.modes.any (fun m => decide (m = 2)) = false) (n : Nat) (t t' : Table)
    (clusters : List (List Nat)) (hT : TableOK cfg n t) (hcl : ClustersOK n clusters)
    (hrun : refineCtl cfg opt t clusters = .ok t') (cl : List Nat) (hmem : cl ∈ clusters)
    (i : Nat) (hi : i ∈ cl) (hcost : t'.cost[i]? = some Cost.nan) :
    ∀ j, cell t' j i = cell t j i := by
  have hinv := refineCtl_inv cfg opt hc hsm hlevel n t t' clusters hT hcl hrun
  rcases hinv.decided cl (by simpa using hmem) with h | ⟨dev, ⟨pb, x, hd⟩, h⟩
  · exact (h i hi).2
  · have := (h i hi).1
    rw [hcost] at this
    have hn := costOf_ne_val_of_nan (Option.some.inj this).symm
    subst hn
    exact absurd hd (hfd pb x)

/-- rows of NO cluster are returned as they came (cost included) -/
theorem refine_unclustered_rows_unchanged (cfg : Cfg) (opt : Problem → OptOut)
    (hc : OptContract opt) (hsm : cfg.specs.length = cfg.modes.length)
    (hlevel : cfg.modes.any (fun m => decide (m = 2)) = false) (n : Nat) (t t' : Table)
    (clusters : List (List Nat)) (hT : TableOK cfg n t) (hcl : ClustersOK n clusters)
    (hrun : refineCtl cfg opt t clusters = .ok t') (i : Nat) (hi : ∀ cl ∈ clusters, i ∉ cl) :
    RowEq t t' i :=
  (refineCtl_inv cfg opt hc hsm hlevel n t t' clusters hT hcl hrun).pending i
    (fun cl h => hi cl (by simpa using h))

/-- (d) no third case, no row lost or added.  When the clusters cover the table, the returned
table has the same `n` rows in the same columns, and EVERY row either has a numeric cost and
satisfies the bound predicate of (b), or has cost NaN and its input values (c). -/
theorem refine_every_row_decided (cfg : Cfg) (opt : Problem → OptOut) (hc : OptContract opt)
    (hfd : FiniteDev opt) (hsm : cfg.specs.length = cfg.modes.length)
    (hlevel : cfg.modes.any (fun m => decide (m = 2)) = false) (n : Nat) (t t' : Table)
    (clusters : List (List Nat)) (hT : TableOK cfg n t) (hcl : ClustersOK n clusters)
    (hcover : ∀ i, i < n → ∃ cl ∈ clusters, i ∈ cl)
    (hrun : refineCtl cfg opt t clusters = .ok t') :
    TableOK cfg n t' ∧ t'.cols.length = t.cols.length ∧
    ∀ i, i < n →
      (∃ r, t'.cost[i]? = some (Cost.val r) ∧ ∃ cl ∈ clusters, i ∈ cl ∧ RowFitOK cfg t t' cl i) ∨
      (t'.cost[i]? = some Cost.nan ∧ ∀ j, cell t' j i = cell t j i) := by
  have hinv := refineCtl_inv cfg opt hc hsm hlevel n t t' clusters hT hcl hrun
  refine ⟨hinv.ok, by rw [hinv.ok.2.1, hT.2.1], fun i hi => ?_⟩
  obtain ⟨cl, hmem, hicl⟩ := hcover i hi
  rcases hinv.decided cl (by simpa using hmem) with h | ⟨dev, ⟨pb, x, hd⟩, h⟩
  · exact Or.inr (h i hicl)
  · cases dev with
    | none => exact absurd hd (hfd pb x)
    | some r => exact Or.inl ⟨r, (h i hicl).1, cl, hmem, hicl, (h i hicl).2⟩

/-! ## a concrete optimiser satisfying the contract; witness and non-vacuity -/

/-- a point of a feasible interval -/
def clampPt (b : B × B) : Rat :=
  match b.1, b.2 with
  | some l, _ => l
  | none, some h => h
  | none, none => 0

/-- reports failure on infeasible bounds, otherwise a point inside them with deviation `dev` -/
def clampOpt (dev : Option Rat) (pb : Problem) : OptOut :=
  if infeasible pb.bounds then .fail else .ok (pb.bounds.map clampPt) dev

theorem clampOpt_contract (dev : Option Rat) : OptContract (clampOpt dev) := by
  constructor
  · intro pb x d h
    unfold clampOpt at h
    split at h
    · cases h
    · rename_i hf
      simp only [OptOut.ok.injEq] at h
      rw [← h.1, List.forall₂_map_left_iff, List.forall₂_same]
      intro b hb
      have hb' : ¬ (match b.1, b.2 with
          | some l, some h => decide (h < l)
          | _, _ => false) = true := fun hbad =>
        hf (List.any_eq_true.mpr ⟨b, hb, hbad⟩)
      obtain ⟨l, u⟩ := b
      cases l <;> cases u <;> simp_all [Within, inB, clampPt]
  · intro pb d h
    unfold clampOpt at h
    split at h <;> cases h

theorem clampOpt_finiteDev (r : Rat) : FiniteDev (clampOpt (some r)) := by
  intro pb x h
  unfold clampOpt at h
  split at h <;> cases h

/-- WITNESS for the extra hypothesis of (c): an optimiser satisfying the contract that reports a
NaN deviation.  The fit of the one feature SUCCEEDS (its position is moved from (15, 30) to
(10, 25)) and the row nevertheless carries `cost = NaN`. -/
theorem nan_cost_after_success_witness :
    OptContract (clampOpt none) ∧
    refineCtl demoCfg (clampOpt none)
        { cols := [[some 0], [some 180], [some 15], [some 30], [some 2]], cost := [Cost.unset] }
        [[0]] =
      .ok { cols := [[some (1/10000000)], [some (1/10000000)], [some 10], [some 25], [some 2]],
            cost := [Cost.nan] } :=
  ⟨clampOpt_contract none, by decide +kernel⟩

/-- a 3-row table: rows 0 and 2 form a dimer inside the 40x50 image, row 1 is a single whose start
(x = 70) is outside the image -/
def rowsTable : Table :=
  { cols := [[some 0, some 0, some 0], [some 180, some 180, some 170],
             [some 15, some 15, some 18], [some 30, some 70, some 33],
             [some 2, some 2, some 2]],
    cost := [Cost.unset, Cost.unset, Cost.unset] }

/-- NON-VACUITY of (b)-(d): every hypothesis holds for the dimer `[0, 2]` + single `[1]` under
`clampOpt (some 1/100)`; the dimer succeeds (rows 0 and 2 written, cost 1/100), the single fails
(row 1 keeps its input, cost NaN). -/
example :
    OptContract (clampOpt (some (1/100))) ∧ FiniteDev (clampOpt (some (1/100))) ∧
    demoCfg.specs.length = demoCfg.modes.length ∧
    demoCfg.modes.any (fun m => decide (m = 2)) = false ∧
    TableOK demoCfg 3 rowsTable ∧ ClustersOK 3 [[0, 2], [1]] ∧
    (∀ i, i < 3 → ∃ cl ∈ [[0, 2], [1]], i ∈ cl) ∧
    refineCtl demoCfg (clampOpt (some (1/100))) rowsTable [[0, 2], [1]] =
      .ok { cols := [[some (1/10000000), some 0, some (1/10000000)],
                     [some (1/10000000), some 180, some (1/10000000)],
                     [some 10, some 15, some 13], [some 25, some 70, some 28],
                     [some 2, some 2, some 2]],
            cost := [Cost.val (1/100), Cost.nan, Cost.val (1/100)] } := by
  refine ⟨clampOpt_contract _, clampOpt_finiteDev _, by decide, by decide, ?_, ?_, ?_, ?_⟩
  · refine ⟨by decide, by decide, ?_⟩
    intro c hc
    simp [rowsTable] at hc
    rcases hc with rfl | rfl | rfl | rfl | rfl <;> rfl
  · refine ⟨by decide, by decide, ?_⟩
    simp [List.Disjoint]
  · decide
  · decide +kernel

/-- … and the conclusion of (d) on it, row by row -/
example (t' : Table)
    (h : refineCtl demoCfg (clampOpt (some (1/100))) rowsTable [[0, 2], [1]] = .ok t') :
    ∀ i, i < 3 →
      (∃ r, t'.cost[i]? = some (Cost.val r) ∧
        ∃ cl ∈ [[0, 2], [1]], i ∈ cl ∧ RowFitOK demoCfg rowsTable t' cl i) ∨
      (t'.cost[i]? = some Cost.nan ∧ ∀ j, cell t' j i = cell rowsTable j i) :=
  (refine_every_row_decided demoCfg _ (clampOpt_contract _) (clampOpt_finiteDev _) (by decide)
    (by decide) 3 rowsTable t' [[0, 2], [1]]
    ⟨by decide, by decide, by
      intro c hc
      simp [rowsTable] at hc
      rcases hc with rfl | rfl | rfl | rfl | rfl <;> rfl⟩
    ⟨by decide, by decide, by simp [List.Disjoint]⟩ (by decide) h).2.2

end TrackpyV.Bounds
