import TrackpyV.Props.C16Frames
/-!
# C16 (X26) — the bounds / failed-fit clauses as statements about TABLE ROWS

`Props/C16.lean` proves `success_within_bounds` about the fitted BLOCK (`ColsOK`) and
`failed_rows_untouched` about one step.  Here both are carried through `writeBack` / `scatter` and
through the whole per-cluster loop `refineClusters` to the rows of the returned table.

* `writeBack_rows_of_cluster`, `writeBack_rows_outside` (a) — what `writeBack` does to a row.
* `RunInv` / `stepCluster_preserves_inv` / `refineClusters_inv` — the invariant of the fold: the
  clusters already processed are decided (`ClFailed` or `ClFitted`, relative to the INPUT table),
  every other row still equals the input.
* `refine_rows_within_bounds` (b), `refine_failed_rows_keep_input` (c),
  `refine_every_row_decided` (d), and the same three for `refineCtl` at cluster level.
* `nan_cost_after_success_witness` — why (c) needs the hypothesis `FiniteDev`: the loop accepts a
  NaN `rms_dev` (`NaN > max_rms_dev` is False), so a SUCCESSFUL fit can carry `cost = NaN`.
-/
namespace TrackpyV.Bounds
open List

/-! ## cells and rows of a table -/

/-- the cell in parameter column `j`, row `i` (`none` = no such cell) -/
def cell (t : Table) (j i : Nat) : Option (Option Rat) := (t.cols[j]?).bind (·[i]?)

/-- row `i` of `t'` is row `i` of `t`: every parameter column and the cost -/
def RowEq (t t' : Table) (i : Nat) : Prop :=
  t'.cost[i]? = t.cost[i]? ∧ ∀ j, cell t' j i = cell t j i

theorem RowEq.refl (t : Table) (i : Nat) : RowEq t t i := ⟨rfl, fun _ => rfl⟩

theorem RowEq.trans {a b c : Table} {i : Nat} (h1 : RowEq a b i) (h2 : RowEq b c i) :
    RowEq a c i := ⟨h2.1.trans h1.1, fun j => (h2.2 j).trans (h1.2 j)⟩

/-- `n` rows, one column per fit parameter -/
def TableOK (cfg : Cfg) (n : Nat) (t : Table) : Prop :=
  t.cost.length = n ∧ t.cols.length = cfg.modes.length ∧ ∀ c ∈ t.cols, c.length = n

/-! ## scatter with distinct positions -/

theorem scatter_getElem?_of_nodup {α} : ∀ (c : List α) (idx : List Nat) (vs : List α) (k : Nat)
    (hk : k < idx.length), idx.Nodup → k < vs.length → idx[k] < c.length →
    (scatter c idx vs)[idx[k]]? = vs[k]?
  | _, [], _, _, hk, _, _, _ => by simp at hk
  | _, _ :: _, [], _, _, _, hv, _ => by simp at hv
  | c, i :: is, v :: vs, 0, _, hnd, _, hlt => by
    have hi : i ∉ is := (List.nodup_cons.mp hnd).1
    simp only [scatter, List.getElem_cons_zero, List.getElem?_cons_zero]
    rw [scatter_getElem?_of_not_mem _ _ _ _ hi]
    have hlt' : i < c.length := by simpa using hlt
    simp [hlt']
  | c, i :: is, v :: vs, k + 1, hk, hnd, hv, hlt => by
    simp only [scatter, List.getElem_cons_succ, List.getElem?_cons_succ]
    exact scatter_getElem?_of_nodup (c.set i v) is vs k (by simpa using hk)
      (List.nodup_cons.mp hnd).2 (by simpa using hv) (by simpa using hlt)

/-! ## (a) what `writeBack` does to a row -/

theorem cell_writeBack_fitted (t : Table) (cl : List Nat) (block : List (List (Option Rat)))
    (dev : Option Rat) (j i : Nat) (c b : List (Option Rat)) (hc : t.cols[j]? = some c)
    (hb : block[j]? = some b) :
    cell (writeBack t cl (.fitted block dev)) j i = (scatter c cl b)[i]? := by
  simp [cell, writeBack, List.getElem?_zipWith, hc, hb]

/-- (a), rows OF the cluster.  `writeBack` of a fitted block (as many columns as the table, every
column as long as the cluster) for a cluster `cl` of distinct row positions inside the table: row
`cl[k]` of the new table holds exactly row `k` of the block in every parameter column and the new
cost.  (The model's table consists of the fit-parameter columns and `cost` only — every column IS a
fitted column; `const` columns are part of the block and carry their old values, see
`ClFitted`.) -/
theorem writeBack_rows_of_cluster (t : Table) (cl : List Nat) (block : List (List (Option Rat)))
    (dev : Option Rat) (n : Nat) (hcost : t.cost.length = n) (hcols : ∀ c ∈ t.cols, c.length = n)
    (hnd : cl.Nodup) (hin : ∀ i ∈ cl, i < n) (hbl : block.length = t.cols.length)
    (hbw : ∀ b ∈ block, b.length = cl.length) (k : Nat) (hk : k < cl.length) :
    (writeBack t cl (.fitted block dev)).cost[cl[k]]? = some (costOf dev) ∧
    ∀ j, cell (writeBack t cl (.fitted block dev)) j cl[k] = (block[j]?).bind (·[k]?) := by
  have hlt : cl[k] < n := hin _ (List.getElem_mem hk)
  refine ⟨?_, fun j => ?_⟩
  · simp only [writeBack]
    rw [scatter_getElem?_of_nodup _ _ _ k hk hnd (by simpa using hk) (by omega)]
    simp [hk]
  · by_cases hj : j < t.cols.length
    · have hjb : j < block.length := by omega
      rw [cell_writeBack_fitted t cl block dev j _ t.cols[j] block[j]
        (List.getElem?_eq_getElem hj) (List.getElem?_eq_getElem hjb)]
      have hb := hbw _ (List.getElem_mem hjb)
      have hc := hcols _ (List.getElem_mem hj)
      rw [scatter_getElem?_of_nodup _ _ _ k hk hnd (by omega) (by omega)]
      simp [List.getElem?_eq_getElem hjb]
    · have h1 : (writeBack t cl (.fitted block dev)).cols[j]? = none := by
        simp only [writeBack, List.getElem?_zipWith]
        rw [List.getElem?_eq_none (by omega)]
      have h2 : block[j]? = none := List.getElem?_eq_none (by omega)
      simp [cell, h1, h2]

/-- (a), rows OUTSIDE the cluster: whatever the outcome (failed or fitted with a block of as many
columns as the table), a row that is not in `cl` is unchanged — every column, cost included. -/
theorem writeBack_rows_outside (t : Table) (cl : List Nat) (o : Outcome)
    (ho : ∀ block dev, o = .fitted block dev → block.length = t.cols.length)
    (i : Nat) (hi : i ∉ cl) : RowEq t (writeBack t cl o) i := by
  refine ⟨(other_rows_unaffected t cl o i hi).1, fun j => ?_⟩
  cases o with
  | failed => rfl
  | fitted block dev =>
    have hbl := ho block dev rfl
    by_cases hj : j < t.cols.length
    · rw [cell_writeBack_fitted t cl block dev j i t.cols[j] block[j]
        (List.getElem?_eq_getElem hj) (List.getElem?_eq_getElem (by omega)),
        scatter_getElem?_of_not_mem _ _ _ _ hi]
      simp [cell, List.getElem?_eq_getElem hj]
    · have h1 : (writeBack t cl (.fitted block dev)).cols[j]? = none := by
        simp only [writeBack, List.getElem?_zipWith]
        rw [List.getElem?_eq_none (by omega)]
      simp [cell, h1, List.getElem?_eq_none (Nat.le_of_not_lt hj)]

/-- a failed fit: the rows of the cluster keep every parameter value and get cost NaN -/
theorem writeBack_failed_rows (t : Table) (cl : List Nat) (i : Nat) (hi : i ∈ cl)
    (hlt : i < t.cost.length) :
    (writeBack t cl .failed).cost[i]? = some Cost.nan ∧
    ∀ j, cell (writeBack t cl .failed) j i = cell t j i :=
  ⟨scatter_const_getElem?_of_mem Cost.nan t.cost cl i hi hlt, fun _ => rfl⟩

/-! ## the block: number of columns and `const` columns are kept by every round -/

/-- same number of columns (at most one per mode) and every `const` (mode 0) column equal -/
def Kept : List Nat → List (List Rat) → List (List Rat) → Prop
  | m :: ms, c :: cs, c' :: cs' => (m = 0 → c' = c) ∧ Kept ms cs cs'
  | _, [], [] => True
  | _, _, _ => False

theorem kept_refl : ∀ (ms : List Nat) (cs : List (List Rat)), cs.length ≤ ms.length → Kept ms cs cs
  | _, [], _ => by simp [Kept]
  | [], _ :: _, h => by simp at h
  | m :: ms, c :: cs, h => ⟨fun _ => rfl, kept_refl ms cs (by simpa using h)⟩

theorem kept_trans : ∀ (ms : List Nat) (a b c : List (List Rat)),
    Kept ms a b → Kept ms b c → Kept ms a c := by
  intro ms
  induction ms with
  | nil =>
    intro a b c h1 h2
    cases a <;> cases b <;> cases c <;> simp_all [Kept]
  | cons m ms ih =>
    intro a b c h1 h2
    cases a <;> cases b <;> cases c <;> simp only [Kept] at h1 h2 ⊢
    exact ⟨fun h => (h2.1 h).trans (h1.1 h), ih _ _ _ h1.2 h2.2⟩

theorem kept_length : ∀ (ms : List Nat) (a b : List (List Rat)), Kept ms a b →
    b.length = a.length ∧ a.length ≤ ms.length := by
  intro ms
  induction ms with
  | nil =>
    intro a b h
    cases a <;> cases b <;> simp_all [Kept]
  | cons m ms ih =>
    intro a b h
    cases a <;> cases b <;> simp only [Kept] at h ⊢
    · simp
    · have := ih _ _ h.2
      simp only [List.length_cons]
      omega

theorem kept_get : ∀ (ms : List Nat) (a b : List (List Rat)) (j : Nat) (c c' : List Rat),
    Kept ms a b → ms[j]? = some 0 → a[j]? = some c → b[j]? = some c' → c' = c := by
  intro ms
  induction ms with
  | nil => intro a b j c c' _ hm; simp at hm
  | cons m ms ih =>
    intro a b j c c' h hm ha hb
    cases a with
    | nil => simp at ha
    | cons a0 a =>
      cases b with
      | nil => simp at hb
      | cons b0 b =>
        cases j with
        | zero =>
          simp only [List.getElem?_cons_zero, Option.some.injEq] at hm ha hb
          subst hm ha hb
          exact h.1 rfl
        | succ j => exact ih a b j c c' h.2 (by simpa using hm) (by simpa using ha) (by simpa using hb)

theorem unpackCols_kept (groups : Option (List (List Nat))) :
    ∀ (ms : List Nat) (v : List Rat) (cs : List (List Rat)), cs.length ≤ ms.length →
      Kept ms cs (unpackCols groups ms v cs)
  | ms, _, [], _ => by cases ms <;> simp [unpackCols, Kept]
  | [], _, _ :: _, h => by simp at h
  | m :: ms, v, c :: cs, h => by
    simp only [unpackCols, Kept]
    exact ⟨fun h0 => by simp [newCol, h0], unpackCols_kept groups ms _ cs (by simpa using h)⟩

theorem shape_get : ∀ (a b : List (List Rat)) (j : Nat) (c d : List Rat), Shape a b →
    a[j]? = some c → b[j]? = some d → c.length = d.length := by
  intro a
  induction a with
  | nil => intro b j c d _ ha; simp at ha
  | cons a0 a ih =>
    intro b j c d h ha hb
    cases b with
    | nil => simp at hb
    | cons b0 b =>
      cases j with
      | zero =>
        simp only [List.getElem?_cons_zero, Option.some.injEq] at ha hb
        subst ha hb
        exact h.1
      | succ j => exact ih b j c d h.2 (by simpa using ha) (by simpa using hb)

theorem colsOK_get (groups : Option (List (List Nat))) :
    ∀ (ms : List Nat) (ss : List Spec) (b0 b1 b' : List (List Rat)) (j m : Nat) (s : Spec)
      (c0 c1 c' : List Rat), ColsOK groups ms ss b0 b1 b' → ms[j]? = some m → ss[j]? = some s →
      b0[j]? = some c0 → b1[j]? = some c1 → b'[j]? = some c' → ColOK groups m s c0 c1 c' := by
  intro ms
  induction ms with
  | nil => intro ss b0 b1 b' j m s c0 c1 c' _ hm; simp at hm
  | cons m' ms ih =>
    intro ss b0 b1 b' j m s c0 c1 c' h hm hs h0 h1 h'
    cases ss with
    | nil => simp at hs
    | cons s' ss =>
    cases b0 with
    | nil => simp at h0
    | cons a0 b0 =>
    cases b1 with
    | nil => simp at h1
    | cons a1 b1 =>
    cases b' with
    | nil => simp at h'
    | cons a' b' =>
    cases j with
    | zero =>
      simp only [List.getElem?_cons_zero, Option.some.injEq] at hm hs h0 h1 h'
      subst hm hs h0 h1 h'
      exact h.1
    | succ j =>
      exact ih ss b0 b1 b' j m s c0 c1 c' h.2 (by simpa using hm) (by simpa using hs)
        (by simpa using h0) (by simpa using h1) (by simpa using h')

/-! ## the strengthened success lemma (same induction as `rounds_success`) -/

theorem finish_fitted_dev (cfg : Cfg) (b blk : List (List (Option Rat))) (dev dev' : Option Rat)
    (h : finish cfg b dev = .fitted blk dev') : dev' = dev := by
  unfold finish at h
  cases dev with
  | none => simp at h; exact h.2.symm
  | some d =>
    simp only at h
    split at h
    · simp at h
    · simp at h; exact h.2.symm

/-- `rounds_success` plus: the block keeps its number of columns and its `const` columns through
every round (so `prev` — hidden in `success_within_bounds`'s existential — has a column for every
parameter), and the deviation written as `cost` is one the optimiser reported. -/
theorem rounds_success_kept (cfg : Cfg) (opt : Problem → OptOut) (hc : OptContract opt)
    (groups : Option (List (List Nat))) (pgroups : List (List Nat)) (pb : Problem) (n : Nat)
    (block0 : List (List Rat)) (hsm : cfg.specs.length = cfg.modes.length)
    (hb : pb.bounds = computeBounds cfg.specs cfg.modes groups block0) :
    ∀ (fuel k : Nat) (coords block1 : List (List Rat)), Shape block0 block1 →
      Kept cfg.modes block0 block1 →
      ∀ blk dev, rounds cfg opt groups pgroups pb n fuel k coords block1 = .ok (.fitted blk dev) →
      ∃ prev cols', blk = someBlock cols' ∧ Shape block0 prev ∧ Kept cfg.modes block0 prev ∧
        Kept cfg.modes prev cols' ∧ ColsOK groups cfg.modes cfg.specs block0 prev cols' ∧
        ∃ pb' x, opt pb' = .ok x dev
  | 0, _, _, _, _, _, _, _, h => by simp [rounds] at h
  | fuel + 1, k, coords, block1, hs, hk, blk, dev, h => by
    unfold rounds at h
    by_cases hp : prepOK cfg pgroups coords
    · simp only [hp, Bool.not_true, Bool.false_eq_true, if_false] at h
      cases ho : opt { pb with round := k, coords := coords } with
      | fail => simp [ho] at h
      | raise => simp [ho] at h
      | nanx d => exact absurd ho (hc.2 _ _)
      | ok x d =>
        have hx : Forall₂ Within x (computeBounds cfg.specs cfg.modes groups block0) := by
          have := hc.1 _ x d ho
          simpa [hb] using this
        have hcols := unpack_cols_ok groups cfg.modes cfg.specs block0 block1 x hs hx
        have hl1 := kept_length _ _ _ hk
        have hk' : Kept cfg.modes block1 (unpackCols groups cfg.modes x block1) :=
          unpackCols_kept groups cfg.modes x block1 (by omega)
        simp only [ho] at h
        split at h
        · simp only [Except.ok.injEq] at h
          exact ⟨block1, _, finish_fitted _ _ _ _ _ h, hs, hk, hk', hcols, _, x,
            (finish_fitted_dev _ _ _ _ _ h) ▸ ho⟩
        · split at h
          · simp only [Except.ok.injEq] at h
            exact ⟨block1, _, finish_fitted _ _ _ _ _ h, hs, hk, hk', hcols, _, x,
              (finish_fitted_dev _ _ _ _ _ h) ▸ ho⟩
          · exact rounds_success_kept cfg opt hc groups pgroups pb n block0 hsm hb fuel (k + 1) _ _
              (unpack_shape groups cfg.modes cfg.specs block0 block1 x hsm hs hx)
              (kept_trans _ _ _ _ hk hk') blk dev h
    · simp [hp] at h

theorem mapM_id_eq_some {α} : ∀ (l : List (Option α)) (l' : List α),
    l.mapM id = some l' → l = l'.map some
  | [], l', h => by
    simp at h
    subst h
    rfl
  | a :: l, l', h => by
    cases a with
    | none => simp [List.mapM_cons] at h
    | some a =>
      cases hl : l.mapM id with
      | none => simp [List.mapM_cons, hl] at h
      | some r =>
        simp [List.mapM_cons, hl] at h
        subst h
        simp [mapM_id_eq_some l r hl]

/-- `np.isfinite(params).all()`: the block read from the table is finite, cell by cell -/
theorem allFinite_spec : ∀ (b : List (List (Option Rat))) (b0 : List (List Rat)),
    allFinite b = some b0 → b = someBlock b0
  | [], b0, h => by
    simp [allFinite] at h
    subst h
    rfl
  | c :: b, b0, h => by
    unfold allFinite at h
    cases hc : c.mapM id with
    | none => simp [List.mapM_cons, hc] at h
    | some c0 =>
      cases hb : b.mapM (fun c => c.mapM id) with
      | none => simp [List.mapM_cons, hc, hb] at h
      | some r =>
        simp [List.mapM_cons, hc, hb] at h
        subst h
        have := allFinite_spec b r hb
        simp [someBlock, mapM_id_eq_some c c0 hc, this]

/-- `success_within_bounds`, strengthened (it implies it): the input block is `someBlock block0`,
number of columns and `const` columns kept, the written deviation is one `opt` reported. -/
theorem fitBlock_fitted_kept (cfg : Cfg) (opt : Problem → OptOut) (hc : OptContract opt)
    (hsm : cfg.specs.length = cfg.modes.length)
    (groups : Option (List (List Nat))) (pgroups : List (List Nat)) (tag n : Nat)
    (blockO blk : List (List (Option Rat))) (dev : Option Rat)
    (hlen : blockO.length ≤ cfg.modes.length)
    (h : fitBlock cfg opt groups pgroups tag n blockO = .ok (.fitted blk dev)) :
    ∃ block0 prev cols', blockO = someBlock block0 ∧ blk = someBlock cols' ∧
      Shape block0 prev ∧ Kept cfg.modes block0 prev ∧ Kept cfg.modes prev cols' ∧
      ColsOK groups cfg.modes cfg.specs block0 prev cols' ∧ ∃ pb x, opt pb = .ok x dev := by
  unfold fitBlock at h
  cases hf : allFinite blockO with
  | none => simp [hf] at h
  | some block0 =>
    have hb0 := allFinite_spec _ _ hf
    have hl0 : block0.length ≤ cfg.modes.length := by
      have := congrArg List.length hb0
      simp only [someBlock, List.length_map] at this
      omega
    simp only [hf] at h
    split at h
    · simp at h
    · obtain ⟨prev, cols', h1, h2, h3, h4, h5, h6⟩ :=
        rounds_success_kept cfg opt hc groups pgroups _ n block0 hsm rfl cfg.maxIter 0 _ block0
          (shape_refl block0) (kept_refl _ _ hl0) blk dev h
      exact ⟨block0, prev, cols', hb0, h1, h2, h3, h4, h5, h6⟩

end TrackpyV.Bounds
