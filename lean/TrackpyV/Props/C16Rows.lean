import TrackpyV.Props.C16Frames
/-!
# C16 (X26) — the bounds / failed-fit clauses as statements about TABLE ROWS

`Props/C16.lean` proves `success_within_bounds` about the fitted BLOCK (`ColsOK`) and
`failed_rows_untouched` about one step.  Here both are carried through `writeBack` / `scatter` and
through the whole per-cluster loop `refineClusters` to the rows of the returned table.

* `writeBack_rows_of_cluster`, `writeBack_rows_outside` (a) — what `writeBack` does to a row.
* `RunInv` / `stepCluster_preserves_inv` / `refineClusters_inv` — the invariant of the fold: the
  clusters already processed are decided (`ClFailed` or `ClFitted`, relative to the INPUT table),
  every other row still equals the input.
* `refine_rows_within_bounds` (b), `refine_failed_rows_keep_input` (c),
  `refine_every_row_decided` (d), and the same three for `refineCtl` at cluster level.
* `nan_cost_after_success_witness` — why (c) needs the hypothesis `FiniteDev`: the loop accepts a
  NaN `rms_dev` (`NaN > max_rms_dev` is False), so a SUCCESSFUL fit can carry `cost = NaN`.
-/
namespace TrackpyV.Bounds
open List

/-! ## cells and rows of a table -/

/-- the cell in parameter column `j`, row `i` (`none` = no such cell) -/
def cell (t : Table) (j i : Nat) : Option (Option Rat) := (t.cols[j]?).bind (·[i]?)

/-- row `i` of `t'` is row `i` of `t`: every parameter column and the cost -/
def RowEq (t t' : Table) (i : Nat) : Prop :=
  t'.cost[i]? = t.cost[i]? ∧ ∀ j, cell t' j i = cell t j i

theorem RowEq.refl (t : Table) (i : Nat) : RowEq t t i := ⟨rfl, fun _ => rfl⟩

theorem RowEq.trans {a b c : Table} {i : Nat} (h1 : RowEq a b i) (h2 : RowEq b c i) :
    RowEq a c i := ⟨h2.1.trans h1.1, fun j => (h2.2 j).trans (h1.2 j)⟩

/-- `n` rows, one column per fit parameter -/
def TableOK (cfg : Cfg) (n : Nat) (t : Table) : Prop :=
  t.cost.length = n ∧ t.cols.length = cfg.modes.length ∧ ∀ c ∈ t.cols, c.length = n

/-! ## scatter with distinct positions -/

theorem scatter_getElem?_of_nodup {α} : ∀ (c : List α) (idx : List Nat) (vs : List α) (k : Nat)
    (hk : k < idx.length), idx.Nodup → k < vs.length → idx[k] < c.length →
    (scatter c idx vs)[idx[k]]? = vs[k]?
  | _, [], _, _, hk, _, _, _ => by simp at hk
  | _, _ :: _, [], _, _, _, hv, _ => by simp at hv
  | c, i :: is, v :: vs, 0, _, hnd, _, hlt => by
    have hi : i ∉ is := (List.nodup_cons.mp hnd).1
    simp only [scatter, List.getElem_cons_zero, List.getElem?_cons_zero]
    rw [scatter_getElem?_of_not_mem _ _ _ _ hi]
    have hlt' : i < c.length := by simpa using hlt
    simp [hlt']
  | c, i :: is, v :: vs, k + 1, hk, hnd, hv, hlt => by
    simp only [scatter, List.getElem_cons_succ, List.getElem?_cons_succ]
    exact scatter_getElem?_of_nodup (c.set i v) is vs k (by simpa using hk)
      (List.nodup_cons.mp hnd).2 (by simpa using hv) (by simpa using hlt)

/-! ## (a) what `writeBack` does to a row -/

theorem cell_writeBack_fitted (t : Table) (cl : List Nat) (block : List (List (Option Rat)))
    (dev : Option Rat) (j i : Nat) (c b : List (Option Rat)) (hc : t.cols[j]? = some c)
    (hb : block[j]? = some b) :
    cell (writeBack t cl (.fitted block dev)) j i = (scatter c cl b)[i]? := by
  simp [cell, writeBack, List.getElem?_zipWith, hc, hb]

/-- (a), rows OF the cluster.  `writeBack` of a fitted block (as many columns as the table, every
column as long as the cluster) for a cluster `cl` of distinct row positions inside the table: row
`cl[k]` of the new table holds exactly row `k` of the block in every parameter column and the new
cost.  (The model's table consists of the fit-parameter columns and `cost` only — every column IS a
fitted column; `const` columns are part of the block and carry their old values, see
`ClFitted`.) -/
theorem writeBack_rows_of_cluster (t : Table) (cl : List Nat) (block : List (List (Option Rat)))
    (dev : Option Rat) (n : Nat) (hcost : t.cost.length = n) (hcols : ∀ c ∈ t.cols, c.length = n)
    (hnd : cl.Nodup) (hin : ∀ i ∈ cl, i < n) (hbl : block.length = t.cols.length)
    (hbw : ∀ b ∈ block, b.length = cl.length) (k : Nat) (hk : k < cl.length) :
    (writeBack t cl (.fitted block dev)).cost[cl[k]]? = some (costOf dev) ∧
    ∀ j, cell (writeBack t cl (.fitted block dev)) j cl[k] = (block[j]?).bind (·[k]?) := by
  have hlt : cl[k] < n := hin _ (List.getElem_mem hk)
  refine ⟨?_, fun j => ?_⟩
  · simp only [writeBack]
    rw [scatter_getElem?_of_nodup _ _ _ k hk hnd (by simpa using hk) (by omega)]
    simp [hk]
  · by_cases hj : j < t.cols.length
    · have hjb : j < block.length := by omega
      rw [cell_writeBack_fitted t cl block dev j _ t.cols[j] block[j]
        (List.getElem?_eq_getElem hj) (List.getElem?_eq_getElem hjb)]
      have hb := hbw _ (List.getElem_mem hjb)
      have hc := hcols _ (List.getElem_mem hj)
      rw [scatter_getElem?_of_nodup _ _ _ k hk hnd (by omega) (by omega)]
      simp [List.getElem?_eq_getElem hjb]
    · have h1 : (writeBack t cl (.fitted block dev)).cols[j]? = none := by
        simp only [writeBack, List.getElem?_zipWith]
        rw [List.getElem?_eq_none (by omega)]
      have h2 : block[j]? = none := List.getElem?_eq_none (by omega)
      simp [cell, h1, h2]

/-- (a), rows OUTSIDE the cluster: whatever the outcome (failed or fitted with a block of as many
columns as the table), a row that is not in `cl` is unchanged — every column, cost included. -/
theorem writeBack_rows_outside (t : Table) (cl : List Nat) (o : Outcome)
    (ho : ∀ block dev, o = .fitted block dev → block.length = t.cols.length)
    (i : Nat) (hi : i ∉ cl) : RowEq t (writeBack t cl o) i := by
  refine ⟨(other_rows_unaffected t cl o i hi).1, fun j => ?_⟩
  cases o with
  | failed => rfl
  | fitted block dev =>
    have hbl := ho block dev rfl
    by_cases hj : j < t.cols.length
    · rw [cell_writeBack_fitted t cl block dev j i t.cols[j] block[j]
        (List.getElem?_eq_getElem hj) (List.getElem?_eq_getElem (by omega)),
        scatter_getElem?_of_not_mem _ _ _ _ hi]
      simp [cell, List.getElem?_eq_getElem hj]
    · have h1 : (writeBack t cl (.fitted block dev)).cols[j]? = none := by
        simp only [writeBack, List.getElem?_zipWith]
        rw [List.getElem?_eq_none (by omega)]
      simp [cell, h1, List.getElem?_eq_none (Nat.le_of_not_lt hj)]

/-- a failed fit: the rows of the cluster keep every parameter value and get cost NaN -/
theorem writeBack_failed_rows (t : Table) (cl : List Nat) (i : Nat) (hi : i ∈ cl)
    (hlt : i < t.cost.length) :
    (writeBack t cl .failed).cost[i]? = some Cost.nan ∧
    ∀ j, cell (writeBack t cl .failed) j i = cell t j i :=
  ⟨scatter_const_getElem?_of_mem Cost.nan t.cost cl i hi hlt, fun _ => rfl⟩

end TrackpyV.Bounds
