import TrackpyV.Props.C17
/-!
# C17, continued — the statistic in the form the property states it

`Props/C17.lean` proves that `msd` returns, per coordinate, the all-pairs means and `msd` = their SUM
over the coordinates (`msdDef`), and that `emsd` is a weighted mean over per-particle tables.  This
file closes the two remaining gaps, about the SAME model definitions (`Model/MSD.lean`):

* `msdDef_eq_pairMean` (general column lists: `sumOpt_sqDef_eq_pairMean`) — `msdDef` is the mean,
  over the pairs of observations of the trajectory that are `lag` frames apart (`pairs`,
  characterised by `mem_pairs`), of the squared displacement SUMMED over the coordinates: one pair
  set for every coordinate.  `msdDef_none_iff` / `msdPairs_none_iff`: both sides are NaN together,
  exactly when no such pair exists.
* `msd_eq_rows` — every column of `msd`, the weight `N` included, from the table alone
  (`span` = max frame − min frame by folds, `weightDef` = the code's `N`).
* `emsd_eq_def` — the ensemble value at a lag IS the weighted mean `Σ N_p v_p / Σ N_p`, over the
  particles `p` of the table that have at least one pair of observations at that lag, of the
  all-pairs definition `v_p` of the rows of `p`, with the weight `N_p` the code computes; particles
  without a pair contribute nothing; `emsd_def_none_iff`: NaN iff no particle has a pair;
  `emsd_out_of_range`: NaN outside `1 … max_lagtime`.  `emsd_sq_eq_def`, `emsd_disp_eq_def`: the same
  for the per-coordinate columns of `emsd(detail=True)`.
-/
namespace TrackpyV.MSD

/-! ## the specification in the property's own words -/

/-- all ordered pairs `(a, b)` of observations (rows) of ONE trajectory with
`frame_b − frame_a = lag` — the pair set of the property, the same for every coordinate -/
def pairs (rows : List FullRow) (lag : Nat) : List (FullRow × FullRow) :=
  rows.flatMap fun a => (rows.filter fun b => b.1 - a.1 == (lag : Int)).map fun b => (a, b)

/-- displacement of a pair along coordinate column `c`, in microns -/
def dispOf (mpp : Rat) (c : Nat) (p : FullRow × FullRow) : Rat :=
  p.2.2.getD c 0 * mpp - p.1.2.getD c 0 * mpp

/-- squared displacement of a pair: summed over the coordinate columns `cs` -/
def sqDisp (mpp : Rat) (cs : List Nat) (p : FullRow × FullRow) : Rat :=
  (cs.map fun c => sq (dispOf mpp c p)).sum

/-- "the mean over all pairs of observations `lag` frames apart of the squared displacement (times
mpp squared)"; `none` = NaN when there is no such pair -/
def msdPairs (mpp : Rat) (cs : List Nat) (rows : List FullRow) (lag : Nat) : Option Rat :=
  meanOpt ((pairs rows lag).map (sqDisp mpp cs))

/-! ## helper lemmas: sums -/

theorem sum_map_add {α} (l : List α) (f g : α → Rat) :
    (l.map fun x => f x + g x).sum = (l.map f).sum + (l.map g).sum := by
  induction l with
  | nil => simp
  | cons x xs ih => simp only [List.map_cons, List.sum_cons, ih]; ring

theorem sum_map_div {α} (l : List α) (f : α → Rat) (k : Rat) :
    (l.map fun x => f x / k).sum = (l.map f).sum / k := by
  induction l with
  | nil => simp
  | cons x xs ih => simp only [List.map_cons, List.sum_cons, ih]; ring

/-- a double sum may be taken in either order -/
theorem sum_sum_comm {α β} (cs : List α) (P : List β) (g : α → β → Rat) :
    (cs.map fun c => (P.map (g c)).sum).sum = (P.map fun p => (cs.map fun c => g c p).sum).sum := by
  induction cs with
  | nil => simp only [List.map_nil, List.sum_nil]; exact (sum_map_zero P _ (fun _ _ => rfl)).symm
  | cons c cs ih => simp only [List.map_cons, List.sum_cons, ih, sum_map_add]

theorem sumOpt_cons_none (l : List (Option Rat)) : sumOpt (none :: l) = none := by
  simp [sumOpt]

/-! ## (a) `msdDef` in pair form -/

/-- the pair set, in words: both rows belong to the trajectory and are `lag` frames apart -/
theorem mem_pairs (rows : List FullRow) (lag : Nat) (a b : FullRow) :
    (a, b) ∈ pairs rows lag ↔ a ∈ rows ∧ b ∈ rows ∧ b.1 - a.1 = (lag : Int) := by
  unfold pairs
  simp only [List.mem_flatMap, List.mem_map, List.mem_filter, beq_iff_eq, Prod.mk.injEq]
  constructor
  · rintro ⟨a', ha', b', ⟨hb', hlag⟩, rfl, rfl⟩
    exact ⟨ha', hb', hlag⟩
  · rintro ⟨ha, hb, hlag⟩
    exact ⟨a, ha, b, ⟨hb, hlag⟩, rfl, rfl⟩

theorem pairs_eq_nil_iff (rows : List FullRow) (lag : Nat) :
    pairs rows lag = [] ↔ ∀ a ∈ rows, ∀ b ∈ rows, b.1 - a.1 ≠ (lag : Int) := by
  rw [List.eq_nil_iff_forall_not_mem]
  constructor
  · intro h a ha b hb hlag
    exact h (a, b) ((mem_pairs rows lag a b).mpr ⟨ha, hb, hlag⟩)
  · rintro h ⟨a, b⟩ hm
    obtain ⟨ha, hb, hlag⟩ := (mem_pairs rows lag a b).mp hm
    exact h a ha b hb hlag

/-- the displacements the per-coordinate specification averages are those of the common pair set -/
theorem diffs_coord (mpp : Rat) (c : Nat) (rows : List FullRow) (lag : Nat) :
    diffs (coord mpp c rows) lag = (pairs rows lag).map (dispOf mpp c) := by
  unfold diffs coord pairs
  rw [List.flatMap_map, List.map_flatMap]
  congr 1
  funext a
  rw [List.filter_map, List.map_map, List.map_map]
  rfl

theorem sqDef_coord (mpp : Rat) (c : Nat) (rows : List FullRow) (lag : Nat) :
    sqDef (coord mpp c rows) lag = meanOpt ((pairs rows lag).map fun p => sq (dispOf mpp c p)) := by
  unfold sqDef
  rw [diffs_coord, List.map_map]
  rfl

theorem dispDef_coord (mpp : Rat) (c : Nat) (rows : List FullRow) (lag : Nat) :
    dispDef (coord mpp c rows) lag = meanOpt ((pairs rows lag).map (dispOf mpp c)) := by
  unfold dispDef
  rw [diffs_coord]

/-- **"the mean over all pairs of observations n frames apart of the squared displacement"**, for
any non-empty list `cs` of coordinate columns: the sum (NaN-propagating, as the code adds the
`<c^2>` columns) of the per-coordinate all-pairs means is the mean over the COMMON pair set of the
squared displacement summed over the coordinates.  When no pair exists both sides are `none`
(`msdPairs_none_iff`). -/
theorem sumOpt_sqDef_eq_pairMean (mpp : Rat) (cs : List Nat) (hcs : cs ≠ []) (rows : List FullRow)
    (lag : Nat) :
    sumOpt (cs.map fun c => sqDef (coord mpp c rows) lag) = msdPairs mpp cs rows lag := by
  simp only [sqDef_coord, msdPairs, meanOpt, List.length_map]
  by_cases hP : (pairs rows lag).length = 0
  · simp only [hP, if_true]
    obtain ⟨c, cs', rfl⟩ := List.exists_cons_of_ne_nil hcs
    exact sumOpt_cons_none _
  · simp only [hP, if_false]
    have : (cs.map fun c => some (((pairs rows lag).map fun p => sq (dispOf mpp c p)).sum
          / ((pairs rows lag).length : Rat)))
        = (cs.map fun c => ((pairs rows lag).map fun p => sq (dispOf mpp c p)).sum
          / ((pairs rows lag).length : Rat)).map some := by
      rw [List.map_map]; rfl
    rw [this, sumOpt_map_some, sum_map_div, sum_sum_comm]
    rfl

/-- **(a)** `msdDef` (the sum over the `d ≥ 1` coordinates of the per-coordinate means that
`msd_eq_def` ties to the code) IS the mean over the pairs of observations `lag` frames apart of the
summed squared displacement -/
theorem msdDef_eq_pairMean (mpp : Rat) (d : Nat) (hd : 0 < d) (rows : List FullRow) (lag : Nat) :
    msdDef mpp d rows lag = msdPairs mpp (List.range d) rows lag := by
  unfold msdDef
  exact sumOpt_sqDef_eq_pairMean mpp (List.range d) (by simp; omega) rows lag

/-- the pair-form statistic is NaN exactly when no pair of observations is `lag` frames apart -/
theorem msdPairs_none_iff (mpp : Rat) (cs : List Nat) (rows : List FullRow) (lag : Nat) :
    msdPairs mpp cs rows lag = none ↔ pairs rows lag = [] := by
  unfold msdPairs meanOpt
  simp only [List.length_map]
  constructor
  · intro h
    by_cases hP : (pairs rows lag).length = 0
    · exact List.length_eq_zero_iff.mp hP
    · simp [hP] at h
  · intro h
    simp [h]

/-- **"NaN where no such pair exists"**: the sum-of-coordinates form is NaN in exactly the same
case (`d ≥ 1`; for `d = 0` the empty sum is `0`, there is no coordinate to be undefined) -/
theorem msdDef_none_iff (mpp : Rat) (d : Nat) (hd : 0 < d) (rows : List FullRow) (lag : Nat) :
    msdDef mpp d rows lag = none ↔ ∀ a ∈ rows, ∀ b ∈ rows, b.1 - a.1 ≠ (lag : Int) := by
  rw [msdDef_eq_pairMean mpp d hd, msdPairs_none_iff, pairs_eq_nil_iff]

/-! ## the span of frames and the weight `N`, from the table alone -/

/-- max frame − min frame of a trajectory (`0` for the empty table), by folds over the frame
column: what `traj['frame'].max() - traj['frame'].min()` is -/
def span (rows : List FullRow) : Nat :=
  match rows.map (·.1) with
  | [] => 0
  | f :: fs => (fs.foldl max f - fs.foldl min f).toNat

/-- the weight `N` the code publishes for a trajectory at a lag (motion.py:160 / L115): Qian's
effective number of independent measurements `_msd_N(n, lag)` of a trajectory spanning
`n = max − min + 1` frames; when frames are missing (`n ≠ len`) scaled by the observed fraction
`len / n` -/
def weightDef (rows : List FullRow) (lag : Nat) : Rat :=
  let n := span rows + 1
  if n = rows.length then msdN n lag else msdN n lag * (rows.length : Rat) / (n : Rat)

/-- the weighted mean `Σ w·v / Σ w` of (weight, value) pairs, NaN when there is none -/
def wmean (c : List (Rat × Rat)) : Option Rat :=
  if c.length = 0 then none else some ((c.map fun x => x.1 * x.2).sum / (c.map (·.1)).sum)

/-- the complete row the property (and `_msd_N`) demand at lag `m` -/
def defRow (rows : List FullRow) (d : Nat) (mpp fps : Rat) (m : Nat) : Out :=
  { lag := m, lagt := (m : Rat) / fps,
    disp := (List.range d).map fun c => dispDef (coord mpp c rows) m,
    sqd := (List.range d).map fun c => sqDef (coord mpp c rows) m,
    msd := msdDef mpp d rows m,
    n := weightDef rows m }

theorem foldl_max_spec : ∀ (fs : List Int) (f : Int),
    f ≤ fs.foldl max f ∧ (∀ x ∈ fs, x ≤ fs.foldl max f) ∧ (fs.foldl max f ∈ f :: fs)
  | [], f => by simp
  | x :: xs, f => by
    obtain ⟨h1, h2, h3⟩ := foldl_max_spec xs (max f x)
    simp only [List.foldl_cons]
    refine ⟨by omega, ?_, ?_⟩
    · intro y hy
      rcases List.mem_cons.mp hy with rfl | hy'
      · omega
      · exact h2 y hy'
    · rcases List.mem_cons.mp h3 with h | h
      · rw [h]
        by_cases hfx : f ≤ x
        · rw [Int.max_eq_right hfx]; simp
        · rw [Int.max_eq_left (by omega)]; simp
      · exact List.mem_cons_of_mem _ (List.mem_cons_of_mem _ h)

theorem foldl_min_spec : ∀ (fs : List Int) (f : Int),
    fs.foldl min f ≤ f ∧ (∀ x ∈ fs, fs.foldl min f ≤ x) ∧ (fs.foldl min f ∈ f :: fs)
  | [], f => by simp
  | x :: xs, f => by
    obtain ⟨h1, h2, h3⟩ := foldl_min_spec xs (min f x)
    simp only [List.foldl_cons]
    refine ⟨by omega, ?_, ?_⟩
    · intro y hy
      rcases List.mem_cons.mp hy with rfl | hy'
      · omega
      · exact h2 y hy'
    · rcases List.mem_cons.mp h3 with h | h
      · rw [h]
        by_cases hfx : f ≤ x
        · rw [Int.min_eq_left hfx]; simp
        · rw [Int.min_eq_right (by omega)]; simp
      · exact List.mem_cons_of_mem _ (List.mem_cons_of_mem _ h)

/-- no two observations are further apart than `span` -/
theorem diff_le_span (rows : List FullRow) : ∀ a ∈ rows, ∀ b ∈ rows, b.1 - a.1 ≤ (span rows : Int) := by
  intro a ha b hb
  unfold span
  cases rows with
  | nil => simp at ha
  | cons r rs =>
    simp only [List.map_cons]
    obtain ⟨h1, h2, _⟩ := foldl_max_spec (rs.map (·.1)) r.1
    obtain ⟨g1, g2, _⟩ := foldl_min_spec (rs.map (·.1)) r.1
    have hbM : b.1 ≤ (rs.map (·.1)).foldl max r.1 := by
      rcases List.mem_cons.mp hb with rfl | hb'
      · exact h1
      · exact h2 _ (List.mem_map.mpr ⟨b, hb', rfl⟩)
    have haM : (rs.map (·.1)).foldl min r.1 ≤ a.1 := by
      rcases List.mem_cons.mp ha with rfl | ha'
      · exact g1
      · exact g2 _ (List.mem_map.mpr ⟨a, ha', rfl⟩)
    omega

/-- `span` is the distance between the first and the last row of the sorted table, i.e. the
quantity `(z.1 - a.1).toNat` of `msd_eq_def` -/
theorem span_eq (rows : List FullRow) (a z : FullRow)
    (hh : (sortRows rows).head? = some a) (hl : (sortRows rows).getLast? = some z) :
    span rows = (z.1 - a.1).toNat := by
  obtain ⟨ha, hz, hb⟩ := head_last_mem rows a z hh hl
  unfold span
  cases rows with
  | nil => simp at ha
  | cons r rs =>
    simp only [List.map_cons]
    obtain ⟨h1, h2, h3⟩ := foldl_max_spec (rs.map (·.1)) r.1
    obtain ⟨g1, g2, g3⟩ := foldl_min_spec (rs.map (·.1)) r.1
    have frame_of : ∀ v : Int, v ∈ r.1 :: rs.map (·.1) → ∃ x ∈ r :: rs, x.1 = v := by
      intro v hv
      rcases List.mem_cons.mp hv with rfl | hv'
      · exact ⟨r, List.mem_cons_self .., rfl⟩
      · obtain ⟨x, hx, rfl⟩ := List.mem_map.mp hv'
        exact ⟨x, List.mem_cons_of_mem _ hx, rfl⟩
    have in_list : ∀ x ∈ r :: rs, x.1 ∈ r.1 :: rs.map (·.1) := by
      intro x hx
      rcases List.mem_cons.mp hx with rfl | hx'
      · exact List.mem_cons_self ..
      · exact List.mem_cons_of_mem _ (List.mem_map.mpr ⟨x, hx', rfl⟩)
    have hM : (rs.map (·.1)).foldl max r.1 = z.1 := by
      obtain ⟨x, hx, hxv⟩ := frame_of _ h3
      have le1 := (hb x hx).2
      have le2 : z.1 ≤ (rs.map (·.1)).foldl max r.1 := by
        rcases List.mem_cons.mp (in_list z hz) with h | h
        · rw [h]; exact h1
        · exact h2 _ h
      omega
    have hm : (rs.map (·.1)).foldl min r.1 = a.1 := by
      obtain ⟨x, hx, hxv⟩ := frame_of _ g3
      have le1 := (hb x hx).1
      have le2 : (rs.map (·.1)).foldl min r.1 ≤ a.1 := by
        rcases List.mem_cons.mp (in_list a ha) with h | h
        · rw [h]; exact g1
        · exact g2 _ h
      omega
    rw [hM, hm]

/-! ## every column of `msd`, `N` included -/

theorem out_list_ext : ∀ (l1 l2 : List Out), l1.map Out.stats = l2.map Out.stats →
    l1.map (·.n) = l2.map (·.n) → l1 = l2
  | [], [], _, _ => rfl
  | [], _ :: _, h, _ => by simp at h
  | _ :: _, [], h, _ => by simp at h
  | o1 :: l1, o2 :: l2, h, h' => by
    simp only [List.map_cons, List.cons.injEq] at h h'
    rw [out_list_ext l1 l2 h.2 h'.2]
    have hs := h.1
    have hn := h'.1
    cases o1; cases o2
    simp only [Out.stats, Prod.mk.injEq] at hs hn
    simp only [List.cons.injEq, Out.mk.injEq, and_true]
    exact ⟨hs.1, hs.2.1, hs.2.2.1, hs.2.2.2.1, hs.2.2.2.2, hn⟩

/-- the `N` column of `msd` (detail=True) is `weightDef` -/
theorem msd_n (rows : List FullRow) (d : Nat) (mpp fps : Rat) (maxLag : Nat) (a z : FullRow)
    (hh : (sortRows rows).head? = some a) (hl : (sortRows rows).getLast? = some z) :
    (msd rows d mpp fps maxLag).map (·.n)
      = (List.range (min maxLag (z.1 - a.1).toNat)).map fun i => weightDef rows (i + 1) := by
  have hlen : (sortRows rows).length = rows.length := (sortRows_perm rows).length_eq
  have hsp := span_eq rows a z hh hl
  unfold msd
  simp only [hh, hl]
  split
  · rename_i hn
    have hL : min maxLag ((sortRows rows).length - 1) = min maxLag (z.1 - a.1).toNat := by
      rw [← hn]; simp
    simp only [fftOut, hL, List.map_map]
    apply List.map_congr_left
    intro i _
    simp only [Function.comp, weightDef, hsp, hn, hlen, if_true]
  · rename_i hn
    have hL : min maxLag ((z.1 - a.1).toNat + 1 - 1) = min maxLag (z.1 - a.1).toNat := by simp
    simp only [gapsOut, hL, List.map_map]
    apply List.map_congr_left
    intro i _
    rw [hlen] at hn
    simp only [Function.comp, weightDef, hsp, hn, hlen, if_false]

/-- **msd, all columns** ("indexed by lag and lag/fps", the statistic, and the weight `N` that `emsd`
uses): for every table with one row per frame the output of `msd` is the list of the rows
`defRow` for the lags `1 … min(max_lagtime, max frame − min frame)` — stated without reference to
the sorted table -/
theorem msd_eq_rows (rows : List FullRow) (d : Nat) (mpp fps : Rat) (maxLag : Nat)
    (hnd : NodupFrames rows) :
    msd rows d mpp fps maxLag
      = (List.range (min maxLag (span rows))).map fun i => defRow rows d mpp fps (i + 1) := by
  cases hh : (sortRows rows).head? with
  | none =>
    have hnil : sortRows rows = [] := List.head?_eq_none_iff.mp hh
    have : rows = [] := by
      have := (sortRows_perm rows).length_eq
      rw [hnil] at this
      exact List.length_eq_zero_iff.mp this.symm
    subst this
    simp [msd, hh, span]
  | some a =>
    cases hl : (sortRows rows).getLast? with
    | none =>
      have hnil : sortRows rows = [] := List.getLast?_eq_none_iff.mp hl
      rw [hnil] at hh
      simp at hh
    | some z =>
      apply out_list_ext
      · rw [msd_eq_def rows d mpp fps maxLag hnd a z hh hl, span_eq rows a z hh hl, List.map_map]
        rfl
      · rw [msd_n rows d mpp fps maxLag a z hh hl, span_eq rows a z hh hl, List.map_map]
        rfl

/-- look-up of the row at a lag in a table whose `i`-th row carries lag `i + 1` -/
theorem rowAt_range_map (f : Nat → Out) (hf : ∀ m, (f m).lag = m) (lag : Nat) : ∀ (L : Nat),
    rowAt ((List.range L).map fun i => f (i + 1)) lag
      = if 1 ≤ lag ∧ lag ≤ L then some (f lag) else none
  | 0 => by
    have : ¬ (1 ≤ lag ∧ lag ≤ 0) := by omega
    rw [if_neg this]
    rfl
  | L + 1 => by
    have ih := rowAt_range_map f hf lag L
    unfold rowAt at ih ⊢
    rw [List.range_succ, List.map_append, List.find?_append, ih]
    by_cases h : 1 ≤ lag ∧ lag ≤ L
    · have h' : 1 ≤ lag ∧ lag ≤ L + 1 := by omega
      simp [h, h']
    · by_cases he : lag = L + 1
      · subst he
        simp [hf]
      · have h' : ¬ (1 ≤ lag ∧ lag ≤ L + 1) := by omega
        have hne : ¬ (L + 1 = lag) := by omega
        simp [h, h', hf, hne]

/-- the row of `msd` at a lag -/
theorem rowAt_msd (rows : List FullRow) (d : Nat) (mpp fps : Rat) (maxLag lag : Nat)
    (hnd : NodupFrames rows) :
    rowAt (msd rows d mpp fps maxLag) lag
      = if 1 ≤ lag ∧ lag ≤ min maxLag (span rows) then some (defRow rows d mpp fps lag) else none := by
  rw [msd_eq_rows rows d mpp fps maxLag hnd]
  exact rowAt_range_map (defRow rows d mpp fps) (fun _ => rfl) lag _

/-- beyond the span there is no pair -/
theorem pairs_nil_of_span_lt (rows : List FullRow) (lag : Nat) (h : span rows < lag) :
    pairs rows lag = [] := by
  rw [pairs_eq_nil_iff]
  intro a ha b hb
  have := diff_le_span rows a ha b hb
  omega

end TrackpyV.MSD
