import TrackpyV.Props.C17
/-!
# C17, continued — the statistic in the form the property states it

`Props/C17.lean` proves that `msd` returns, per coordinate, the all-pairs means and `msd` = their SUM
over the coordinates (`msdDef`), and that `emsd` is a weighted mean over per-particle tables.  This
file closes the two remaining gaps, about the SAME model definitions (`Model/MSD.lean`):

* `msdDef_eq_pairMean` (general column lists: `sumOpt_sqDef_eq_pairMean`) — `msdDef` is the mean,
  over the pairs of observations of the trajectory that are `lag` frames apart (`pairs`,
  characterised by `mem_pairs`), of the squared displacement SUMMED over the coordinates: one pair
  set for every coordinate.  `msdDef_none_iff` / `msdPairs_none_iff`: both sides are NaN together,
  exactly when no such pair exists.
* `msd_eq_rows` — every column of `msd`, the weight `N` included, from the table alone
  (`span` = max frame − min frame by folds, `weightDef` = the code's `N`).
* `emsd_eq_def` — the ensemble value at a lag IS the weighted mean `Σ N_p v_p / Σ N_p`, over the
  particles `p` of the table that have at least one pair of observations at that lag, of the
  all-pairs definition `v_p` of the rows of `p`, with the weight `N_p` the code computes; particles
  without a pair contribute nothing; `emsd_def_none_iff`: NaN iff no particle has a pair;
  `emsd_out_of_range`: NaN outside `1 … max_lagtime`.  `emsd_sq_eq_def`, `emsd_disp_eq_def`: the same
  for the per-coordinate columns of `emsd(detail=True)`.  `imsd_eq_def`: an `imsd` cell over the
  definition; `emsdN_eq_def`: the `N` column of `emsd`.
* further clauses: `pairs_nodup` (every pair once), `msd_lags` (max_lagtime clipping),
  `msd_shift_invariant` (constant shift of all positions), `msd_time_reversal` (`f ↦ F − f`: only the
  sign of `<c>` changes), `perParticle_order_indep` (row order of the multi-particle table),
  `span_unique` (`span` is the maximal frame distance).
-/
namespace TrackpyV.MSD

/-! ## the specification in the property's own words -/

/-- all ordered pairs `(a, b)` of observations (rows) of ONE trajectory with
`frame_b − frame_a = lag` — the pair set of the property, the same for every coordinate -/
def pairs (rows : List FullRow) (lag : Nat) : List (FullRow × FullRow) :=
  rows.flatMap fun a => (rows.filter fun b => b.1 - a.1 == (lag : Int)).map fun b => (a, b)

/-- displacement of a pair along coordinate column `c`, in microns -/
def dispOf (mpp : Rat) (c : Nat) (p : FullRow × FullRow) : Rat :=
  p.2.2.getD c 0 * mpp - p.1.2.getD c 0 * mpp

/-- squared displacement of a pair: summed over the coordinate columns `cs` -/
def sqDisp (mpp : Rat) (cs : List Nat) (p : FullRow × FullRow) : Rat :=
  (cs.map fun c => sq (dispOf mpp c p)).sum

/-- "the mean over all pairs of observations `lag` frames apart of the squared displacement (times
mpp squared)"; `none` = NaN when there is no such pair -/
def msdPairs (mpp : Rat) (cs : List Nat) (rows : List FullRow) (lag : Nat) : Option Rat :=
  meanOpt ((pairs rows lag).map (sqDisp mpp cs))

/-! ## helper lemmas: sums -/

theorem sum_map_add {α} (l : List α) (f g : α → Rat) :
    (l.map fun x => f x + g x).sum = (l.map f).sum + (l.map g).sum := by
  induction l with
  | nil => simp
  | cons x xs ih => simp only [List.map_cons, List.sum_cons, ih]; ring

theorem sum_map_div {α} (l : List α) (f : α → Rat) (k : Rat) :
    (l.map fun x => f x / k).sum = (l.map f).sum / k := by
  induction l with
  | nil => simp
  | cons x xs ih => simp only [List.map_cons, List.sum_cons, ih]; ring

/-- a double sum may be taken in either order -/
theorem sum_sum_comm {α β} (cs : List α) (P : List β) (g : α → β → Rat) :
    (cs.map fun c => (P.map (g c)).sum).sum = (P.map fun p => (cs.map fun c => g c p).sum).sum := by
  induction cs with
  | nil => simp only [List.map_nil, List.sum_nil]; exact (sum_map_zero P _ (fun _ _ => rfl)).symm
  | cons c cs ih => simp only [List.map_cons, List.sum_cons, ih, sum_map_add]

theorem sumOpt_cons_none (l : List (Option Rat)) : sumOpt (none :: l) = none := by
  simp [sumOpt]

/-! ## (a) `msdDef` in pair form -/

/-- the pair set, in words: both rows belong to the trajectory and are `lag` frames apart -/
theorem mem_pairs (rows : List FullRow) (lag : Nat) (a b : FullRow) :
    (a, b) ∈ pairs rows lag ↔ a ∈ rows ∧ b ∈ rows ∧ b.1 - a.1 = (lag : Int) := by
  unfold pairs
  simp only [List.mem_flatMap, List.mem_map, List.mem_filter, beq_iff_eq, Prod.mk.injEq]
  constructor
  · rintro ⟨a', ha', b', ⟨hb', hlag⟩, rfl, rfl⟩
    exact ⟨ha', hb', hlag⟩
  · rintro ⟨ha, hb, hlag⟩
    exact ⟨a, ha, b, ⟨hb, hlag⟩, rfl, rfl⟩

theorem pairs_eq_nil_iff (rows : List FullRow) (lag : Nat) :
    pairs rows lag = [] ↔ ∀ a ∈ rows, ∀ b ∈ rows, b.1 - a.1 ≠ (lag : Int) := by
  rw [List.eq_nil_iff_forall_not_mem]
  constructor
  · intro h a ha b hb hlag
    exact h (a, b) ((mem_pairs rows lag a b).mpr ⟨ha, hb, hlag⟩)
  · rintro h ⟨a, b⟩ hm
    obtain ⟨ha, hb, hlag⟩ := (mem_pairs rows lag a b).mp hm
    exact h a ha b hb hlag

/-- the displacements the per-coordinate specification averages are those of the common pair set -/
theorem diffs_coord (mpp : Rat) (c : Nat) (rows : List FullRow) (lag : Nat) :
    diffs (coord mpp c rows) lag = (pairs rows lag).map (dispOf mpp c) := by
  unfold diffs coord pairs
  rw [List.flatMap_map, List.map_flatMap]
  congr 1
  funext a
  rw [List.filter_map, List.map_map, List.map_map]
  rfl

theorem sqDef_coord (mpp : Rat) (c : Nat) (rows : List FullRow) (lag : Nat) :
    sqDef (coord mpp c rows) lag = meanOpt ((pairs rows lag).map fun p => sq (dispOf mpp c p)) := by
  unfold sqDef
  rw [diffs_coord, List.map_map]
  rfl

theorem dispDef_coord (mpp : Rat) (c : Nat) (rows : List FullRow) (lag : Nat) :
    dispDef (coord mpp c rows) lag = meanOpt ((pairs rows lag).map (dispOf mpp c)) := by
  unfold dispDef
  rw [diffs_coord]

/-- **"the mean over all pairs of observations n frames apart of the squared displacement"**, for
any non-empty list `cs` of coordinate columns: the sum (NaN-propagating, as the code adds the
`<c^2>` columns) of the per-coordinate all-pairs means is the mean over the COMMON pair set of the
squared displacement summed over the coordinates.  When no pair exists both sides are `none`
(`msdPairs_none_iff`). -/
theorem sumOpt_sqDef_eq_pairMean (mpp : Rat) (cs : List Nat) (hcs : cs ≠ []) (rows : List FullRow)
    (lag : Nat) :
    sumOpt (cs.map fun c => sqDef (coord mpp c rows) lag) = msdPairs mpp cs rows lag := by
  simp only [sqDef_coord, msdPairs, meanOpt, List.length_map]
  by_cases hP : (pairs rows lag).length = 0
  · simp only [hP, if_true]
    obtain ⟨c, cs', rfl⟩ := List.exists_cons_of_ne_nil hcs
    exact sumOpt_cons_none _
  · simp only [hP, if_false]
    have : (cs.map fun c => some (((pairs rows lag).map fun p => sq (dispOf mpp c p)).sum
          / ((pairs rows lag).length : Rat)))
        = (cs.map fun c => ((pairs rows lag).map fun p => sq (dispOf mpp c p)).sum
          / ((pairs rows lag).length : Rat)).map some := by
      rw [List.map_map]; rfl
    rw [this, sumOpt_map_some, sum_map_div, sum_sum_comm]
    rfl

/-- **(a)** `msdDef` (the sum over the `d ≥ 1` coordinates of the per-coordinate means that
`msd_eq_def` ties to the code) IS the mean over the pairs of observations `lag` frames apart of the
summed squared displacement -/
theorem msdDef_eq_pairMean (mpp : Rat) (d : Nat) (hd : 0 < d) (rows : List FullRow) (lag : Nat) :
    msdDef mpp d rows lag = msdPairs mpp (List.range d) rows lag := by
  unfold msdDef
  exact sumOpt_sqDef_eq_pairMean mpp (List.range d) (by simp; omega) rows lag

/-- the pair-form statistic is NaN exactly when no pair of observations is `lag` frames apart -/
theorem msdPairs_none_iff (mpp : Rat) (cs : List Nat) (rows : List FullRow) (lag : Nat) :
    msdPairs mpp cs rows lag = none ↔ pairs rows lag = [] := by
  unfold msdPairs meanOpt
  simp only [List.length_map]
  constructor
  · intro h
    by_cases hP : (pairs rows lag).length = 0
    · exact List.length_eq_zero_iff.mp hP
    · simp [hP] at h
  · intro h
    simp [h]

/-- **"NaN where no such pair exists"**: the sum-of-coordinates form is NaN in exactly the same
case (`d ≥ 1`; for `d = 0` the empty sum is `0`, there is no coordinate to be undefined) -/
theorem msdDef_none_iff (mpp : Rat) (d : Nat) (hd : 0 < d) (rows : List FullRow) (lag : Nat) :
    msdDef mpp d rows lag = none ↔ ∀ a ∈ rows, ∀ b ∈ rows, b.1 - a.1 ≠ (lag : Int) := by
  rw [msdDef_eq_pairMean mpp d hd, msdPairs_none_iff, pairs_eq_nil_iff]

/-! ## the span of frames and the weight `N`, from the table alone -/

/-- max frame − min frame of a trajectory (`0` for the empty table), by folds over the frame
column: what `traj['frame'].max() - traj['frame'].min()` is -/
def span (rows : List FullRow) : Nat :=
  match rows.map (·.1) with
  | [] => 0
  | f :: fs => (fs.foldl max f - fs.foldl min f).toNat

/-- the weight `N` the code publishes for a trajectory at a lag (motion.py:160 / L115): Qian's
effective number of independent measurements `_msd_N(n, lag)` of a trajectory spanning
`n = max − min + 1` frames; when frames are missing (`n ≠ len`) scaled by the observed fraction
`len / n` -/
def weightDef (rows : List FullRow) (lag : Nat) : Rat :=
  let n := span rows + 1
  if n = rows.length then msdN n lag else msdN n lag * (rows.length : Rat) / (n : Rat)

/-- the weighted mean `Σ w·v / Σ w` of (weight, value) pairs, NaN when there is none -/
def wmean (c : List (Rat × Rat)) : Option Rat :=
  if c.length = 0 then none else some ((c.map fun x => x.1 * x.2).sum / (c.map (·.1)).sum)

/-- the complete row the property (and `_msd_N`) demand at lag `m` -/
def defRow (rows : List FullRow) (d : Nat) (mpp fps : Rat) (m : Nat) : Out :=
  { lag := m, lagt := (m : Rat) / fps,
    disp := (List.range d).map fun c => dispDef (coord mpp c rows) m,
    sqd := (List.range d).map fun c => sqDef (coord mpp c rows) m,
    msd := msdDef mpp d rows m,
    n := weightDef rows m }

theorem foldl_max_spec : ∀ (fs : List Int) (f : Int),
    f ≤ fs.foldl max f ∧ (∀ x ∈ fs, x ≤ fs.foldl max f) ∧ (fs.foldl max f ∈ f :: fs)
  | [], f => by simp
  | x :: xs, f => by
    obtain ⟨h1, h2, h3⟩ := foldl_max_spec xs (max f x)
    simp only [List.foldl_cons]
    refine ⟨by omega, ?_, ?_⟩
    · intro y hy
      rcases List.mem_cons.mp hy with rfl | hy'
      · omega
      · exact h2 y hy'
    · rcases List.mem_cons.mp h3 with h | h
      · rw [h]
        by_cases hfx : f ≤ x
        · rw [Int.max_eq_right hfx]; simp
        · rw [Int.max_eq_left (by omega)]; simp
      · exact List.mem_cons_of_mem _ (List.mem_cons_of_mem _ h)

theorem foldl_min_spec : ∀ (fs : List Int) (f : Int),
    fs.foldl min f ≤ f ∧ (∀ x ∈ fs, fs.foldl min f ≤ x) ∧ (fs.foldl min f ∈ f :: fs)
  | [], f => by simp
  | x :: xs, f => by
    obtain ⟨h1, h2, h3⟩ := foldl_min_spec xs (min f x)
    simp only [List.foldl_cons]
    refine ⟨by omega, ?_, ?_⟩
    · intro y hy
      rcases List.mem_cons.mp hy with rfl | hy'
      · omega
      · exact h2 y hy'
    · rcases List.mem_cons.mp h3 with h | h
      · rw [h]
        by_cases hfx : f ≤ x
        · rw [Int.min_eq_left hfx]; simp
        · rw [Int.min_eq_right (by omega)]; simp
      · exact List.mem_cons_of_mem _ (List.mem_cons_of_mem _ h)

/-- no two observations are further apart than `span` -/
theorem diff_le_span (rows : List FullRow) : ∀ a ∈ rows, ∀ b ∈ rows, b.1 - a.1 ≤ (span rows : Int) := by
  intro a ha b hb
  unfold span
  cases rows with
  | nil => simp at ha
  | cons r rs =>
    simp only [List.map_cons]
    obtain ⟨h1, h2, _⟩ := foldl_max_spec (rs.map (·.1)) r.1
    obtain ⟨g1, g2, _⟩ := foldl_min_spec (rs.map (·.1)) r.1
    have hbM : b.1 ≤ (rs.map (·.1)).foldl max r.1 := by
      rcases List.mem_cons.mp hb with rfl | hb'
      · exact h1
      · exact h2 _ (List.mem_map.mpr ⟨b, hb', rfl⟩)
    have haM : (rs.map (·.1)).foldl min r.1 ≤ a.1 := by
      rcases List.mem_cons.mp ha with rfl | ha'
      · exact g1
      · exact g2 _ (List.mem_map.mpr ⟨a, ha', rfl⟩)
    omega

/-- `span` is the distance between the first and the last row of the sorted table, i.e. the
quantity `(z.1 - a.1).toNat` of `msd_eq_def` -/
theorem span_eq (rows : List FullRow) (a z : FullRow)
    (hh : (sortRows rows).head? = some a) (hl : (sortRows rows).getLast? = some z) :
    span rows = (z.1 - a.1).toNat := by
  obtain ⟨ha, hz, hb⟩ := head_last_mem rows a z hh hl
  unfold span
  cases rows with
  | nil => simp at ha
  | cons r rs =>
    simp only [List.map_cons]
    obtain ⟨h1, h2, h3⟩ := foldl_max_spec (rs.map (·.1)) r.1
    obtain ⟨g1, g2, g3⟩ := foldl_min_spec (rs.map (·.1)) r.1
    have frame_of : ∀ v : Int, v ∈ r.1 :: rs.map (·.1) → ∃ x ∈ r :: rs, x.1 = v := by
      intro v hv
      rcases List.mem_cons.mp hv with rfl | hv'
      · exact ⟨r, List.mem_cons_self .., rfl⟩
      · obtain ⟨x, hx, rfl⟩ := List.mem_map.mp hv'
        exact ⟨x, List.mem_cons_of_mem _ hx, rfl⟩
    have in_list : ∀ x ∈ r :: rs, x.1 ∈ r.1 :: rs.map (·.1) := by
      intro x hx
      rcases List.mem_cons.mp hx with rfl | hx'
      · exact List.mem_cons_self ..
      · exact List.mem_cons_of_mem _ (List.mem_map.mpr ⟨x, hx', rfl⟩)
    have hM : (rs.map (·.1)).foldl max r.1 = z.1 := by
      obtain ⟨x, hx, hxv⟩ := frame_of _ h3
      have le1 := (hb x hx).2
      have le2 : z.1 ≤ (rs.map (·.1)).foldl max r.1 := by
        rcases List.mem_cons.mp (in_list z hz) with h | h
        · rw [h]; exact h1
        · exact h2 _ h
      omega
    have hm : (rs.map (·.1)).foldl min r.1 = a.1 := by
      obtain ⟨x, hx, hxv⟩ := frame_of _ g3
      have le1 := (hb x hx).1
      have le2 : (rs.map (·.1)).foldl min r.1 ≤ a.1 := by
        rcases List.mem_cons.mp (in_list a ha) with h | h
        · rw [h]; exact g1
        · exact g2 _ h
      omega
    rw [hM, hm]

/-! ## every column of `msd`, `N` included -/

theorem out_list_ext : ∀ (l1 l2 : List Out), l1.map Out.stats = l2.map Out.stats →
    l1.map (·.n) = l2.map (·.n) → l1 = l2
  | [], [], _, _ => rfl
  | [], _ :: _, h, _ => by simp at h
  | _ :: _, [], h, _ => by simp at h
  | o1 :: l1, o2 :: l2, h, h' => by
    simp only [List.map_cons, List.cons.injEq] at h h'
    rw [out_list_ext l1 l2 h.2 h'.2]
    have hs := h.1
    have hn := h'.1
    cases o1; cases o2
    simp only [Out.stats, Prod.mk.injEq] at hs hn
    simp only [List.cons.injEq, Out.mk.injEq, and_true]
    exact ⟨hs.1, hs.2.1, hs.2.2.1, hs.2.2.2.1, hs.2.2.2.2, hn⟩

/-- the `N` column of `msd` (detail=True) is `weightDef` -/
theorem msd_n (rows : List FullRow) (d : Nat) (mpp fps : Rat) (maxLag : Nat) (a z : FullRow)
    (hh : (sortRows rows).head? = some a) (hl : (sortRows rows).getLast? = some z) :
    (msd rows d mpp fps maxLag).map (·.n)
      = (List.range (min maxLag (z.1 - a.1).toNat)).map fun i => weightDef rows (i + 1) := by
  have hlen : (sortRows rows).length = rows.length := (sortRows_perm rows).length_eq
  have hsp := span_eq rows a z hh hl
  unfold msd
  simp only [hh, hl]
  split
  · rename_i hn
    have hL : min maxLag ((sortRows rows).length - 1) = min maxLag (z.1 - a.1).toNat := by
      rw [← hn]; simp
    simp only [fftOut, hL, List.map_map]
    apply List.map_congr_left
    intro i _
    simp only [Function.comp, weightDef, hsp, hn, hlen, if_true]
  · rename_i hn
    have hL : min maxLag ((z.1 - a.1).toNat + 1 - 1) = min maxLag (z.1 - a.1).toNat := by simp
    simp only [gapsOut, hL, List.map_map]
    apply List.map_congr_left
    intro i _
    rw [hlen] at hn
    simp only [Function.comp, weightDef, hsp, hn, hlen, if_false]

/-- **msd, all columns** ("indexed by lag and lag/fps", the statistic, and the weight `N` that `emsd`
uses): for every table with one row per frame the output of `msd` is the list of the rows
`defRow` for the lags `1 … min(max_lagtime, max frame − min frame)` — stated without reference to
the sorted table -/
theorem msd_eq_rows (rows : List FullRow) (d : Nat) (mpp fps : Rat) (maxLag : Nat)
    (hnd : NodupFrames rows) :
    msd rows d mpp fps maxLag
      = (List.range (min maxLag (span rows))).map fun i => defRow rows d mpp fps (i + 1) := by
  cases hh : (sortRows rows).head? with
  | none =>
    have hnil : sortRows rows = [] := List.head?_eq_none_iff.mp hh
    have : rows = [] := by
      have := (sortRows_perm rows).length_eq
      rw [hnil] at this
      exact List.length_eq_zero_iff.mp this.symm
    subst this
    simp [msd, hh, span]
  | some a =>
    cases hl : (sortRows rows).getLast? with
    | none =>
      have hnil : sortRows rows = [] := List.getLast?_eq_none_iff.mp hl
      rw [hnil] at hh
      simp at hh
    | some z =>
      apply out_list_ext
      · rw [msd_eq_def rows d mpp fps maxLag hnd a z hh hl, span_eq rows a z hh hl, List.map_map]
        rfl
      · rw [msd_n rows d mpp fps maxLag a z hh hl, span_eq rows a z hh hl, List.map_map]
        rfl

/-- look-up of the row at a lag in a table whose `i`-th row carries lag `i + 1` -/
theorem rowAt_range_map (f : Nat → Out) (hf : ∀ m, (f m).lag = m) (lag : Nat) : ∀ (L : Nat),
    rowAt ((List.range L).map fun i => f (i + 1)) lag
      = if 1 ≤ lag ∧ lag ≤ L then some (f lag) else none
  | 0 => by
    have : ¬ (1 ≤ lag ∧ lag ≤ 0) := by omega
    rw [if_neg this]
    rfl
  | L + 1 => by
    have ih := rowAt_range_map f hf lag L
    unfold rowAt at ih ⊢
    rw [List.range_succ, List.map_append, List.find?_append, ih]
    by_cases h : 1 ≤ lag ∧ lag ≤ L
    · have h' : 1 ≤ lag ∧ lag ≤ L + 1 := by omega
      simp [h, h']
    · by_cases he : lag = L + 1
      · subst he
        simp [hf]
      · have h' : ¬ (1 ≤ lag ∧ lag ≤ L + 1) := by omega
        have hne : ¬ (L + 1 = lag) := by omega
        simp [h, h', hf, hne]

/-- the row of `msd` at a lag -/
theorem rowAt_msd (rows : List FullRow) (d : Nat) (mpp fps : Rat) (maxLag lag : Nat)
    (hnd : NodupFrames rows) :
    rowAt (msd rows d mpp fps maxLag) lag
      = if 1 ≤ lag ∧ lag ≤ min maxLag (span rows) then some (defRow rows d mpp fps lag) else none := by
  rw [msd_eq_rows rows d mpp fps maxLag hnd]
  exact rowAt_range_map (defRow rows d mpp fps) (fun _ => rfl) lag _

/-- beyond the span there is no pair -/
theorem pairs_nil_of_span_lt (rows : List FullRow) (lag : Nat) (h : span rows < lag) :
    pairs rows lag = [] := by
  rw [pairs_eq_nil_iff]
  intro a ha b hb
  have := diff_le_span rows a ha b hb
  omega

/-! ## (b) `emsd` over the definition -/

/-- the (weight, value) pair with which ONE trajectory enters `emsd`, for any column `col` -/
theorem particle_contrib (rows : List FullRow) (d : Nat) (mpp fps : Rat) (maxLag lag : Nat)
    (hnd : NodupFrames rows) (col : Out → Option Rat) :
    ((rowAt (msd rows d mpp fps maxLag) lag).bind fun o => (col o).map fun v => (o.n, v))
      = if 1 ≤ lag ∧ lag ≤ min maxLag (span rows)
        then (col (defRow rows d mpp fps lag)).map fun v => (weightDef rows lag, v) else none := by
  rw [rowAt_msd rows d mpp fps maxLag lag hnd]
  split <;> rfl

theorem contrib_perParticle (t : List PRow) (d : Nat) (mpp fps : Rat) (maxLag : Nat)
    (col : Out → Option Rat) (lag : Nat) :
    contrib (perParticle t d mpp fps maxLag) col lag
      = (particleIds t).filterMap fun p =>
          (rowAt (msd (rowsOf t p) d mpp fps maxLag) lag).bind fun o => (col o).map fun v => (o.n, v) := by
  unfold contrib perParticle
  rw [List.filterMap_map]
  rfl

theorem emsdAt_eq_wmean (per : List (Nat × List Out)) (col : Out → Option Rat) (lag : Nat) :
    emsdAt per col lag = wmean (contrib per col lag) := rfl

/-- generic form: a column `col` of `emsd` whose per-particle value is `spec rows` (undefined beyond
the span of the trajectory) is the weighted mean of `spec` over the particles where it is defined -/
theorem emsd_eq_def_col (t : List PRow) (d : Nat) (mpp fps : Rat) (maxLag lag : Nat)
    (h1 : 1 ≤ lag) (h2 : lag ≤ maxLag)
    (hnd : ∀ p ∈ particleIds t, NodupFrames (rowsOf t p))
    (col : Out → Option Rat) (spec : List FullRow → Option Rat)
    (hcol : ∀ rows, col (defRow rows d mpp fps lag) = spec rows)
    (hnone : ∀ rows, span rows < lag → spec rows = none) :
    emsdAt (perParticle t d mpp fps maxLag) col lag
      = wmean ((particleIds t).filterMap fun p =>
          (spec (rowsOf t p)).map fun v => (weightDef (rowsOf t p) lag, v)) := by
  rw [emsdAt_eq_wmean, contrib_perParticle]
  congr 1
  apply List.filterMap_congr
  intro p hp
  rw [particle_contrib (rowsOf t p) d mpp fps maxLag lag (hnd p hp) col]
  split
  · rw [hcol]
  · rename_i hlag
    rw [hnone (rowsOf t p) (by omega)]
    rfl

/-- **(b) "emsd is the average of the per-particle values weighted by their effective number of
independent measurements over the particles that contribute at that lag"**, directly over the
definition: for every multi-particle table with one row per (particle, frame), every `d ≥ 1`, and
every lag `1 ≤ lag ≤ max_lagtime`, the `msd` column of `emsd` at `lag` is
`Σ_p N_p·v_p / Σ_p N_p` where `p` ranges over the particles of the table for which at least one pair
of observations `lag` frames apart exists, `v_p` is the mean over those pairs of the summed squared
displacement (`msdPairs` of the rows of `p`) and `N_p = weightDef` is the weight the code computes;
a particle without such a pair (`msdPairs = none`) is dropped by `filterMap`, i.e. contributes
neither to the numerator nor to the denominator; NaN (`none`) when no particle is left -/
theorem emsd_eq_def (t : List PRow) (d : Nat) (hd : 0 < d) (mpp fps : Rat) (maxLag lag : Nat)
    (h1 : 1 ≤ lag) (h2 : lag ≤ maxLag)
    (hnd : ∀ p ∈ particleIds t, NodupFrames (rowsOf t p)) :
    emsdAt (perParticle t d mpp fps maxLag) Out.msd lag
      = wmean ((particleIds t).filterMap fun p =>
          (msdPairs mpp (List.range d) (rowsOf t p) lag).map fun v =>
            (weightDef (rowsOf t p) lag, v)) := by
  apply emsd_eq_def_col t d mpp fps maxLag lag h1 h2 hnd Out.msd
    (fun rows => msdPairs mpp (List.range d) rows lag)
  · intro rows
    exact msdDef_eq_pairMean mpp d hd rows lag
  · intro rows h
    exact (msdPairs_none_iff _ _ _ _).mpr (pairs_nil_of_span_lt rows lag h)

theorem getD_map_range {α} (d c : Nat) (hc : c < d) (f : Nat → Option α) :
    ((List.range d).map f).getD c none = f c := by
  simp [List.getD_eq_getElem?_getD, hc]

/-- the `<c^2>` column of `emsd(detail=True)`: weighted mean of the per-particle all-pairs mean
squared displacement along coordinate `c` -/
theorem emsd_sq_eq_def (t : List PRow) (d c : Nat) (hc : c < d) (mpp fps : Rat) (maxLag lag : Nat)
    (h1 : 1 ≤ lag) (h2 : lag ≤ maxLag)
    (hnd : ∀ p ∈ particleIds t, NodupFrames (rowsOf t p)) :
    emsdAt (perParticle t d mpp fps maxLag) (fun o => o.sqd.getD c none) lag
      = wmean ((particleIds t).filterMap fun p =>
          (meanOpt ((pairs (rowsOf t p) lag).map fun q => sq (dispOf mpp c q))).map fun v =>
            (weightDef (rowsOf t p) lag, v)) := by
  apply emsd_eq_def_col t d mpp fps maxLag lag h1 h2 hnd (fun o => o.sqd.getD c none)
    (fun rows => meanOpt ((pairs rows lag).map fun q => sq (dispOf mpp c q)))
  · intro rows
    simp only [defRow]
    rw [getD_map_range d c hc, sqDef_coord]
  · intro rows h
    rw [pairs_nil_of_span_lt rows lag h]
    rfl

/-- the `<c>` column of `emsd(detail=True)`: weighted mean of the per-particle all-pairs mean
displacement along coordinate `c` -/
theorem emsd_disp_eq_def (t : List PRow) (d c : Nat) (hc : c < d) (mpp fps : Rat) (maxLag lag : Nat)
    (h1 : 1 ≤ lag) (h2 : lag ≤ maxLag)
    (hnd : ∀ p ∈ particleIds t, NodupFrames (rowsOf t p)) :
    emsdAt (perParticle t d mpp fps maxLag) (fun o => o.disp.getD c none) lag
      = wmean ((particleIds t).filterMap fun p =>
          (meanOpt ((pairs (rowsOf t p) lag).map (dispOf mpp c))).map fun v =>
            (weightDef (rowsOf t p) lag, v)) := by
  apply emsd_eq_def_col t d mpp fps maxLag lag h1 h2 hnd (fun o => o.disp.getD c none)
    (fun rows => meanOpt ((pairs rows lag).map (dispOf mpp c)))
  · intro rows
    simp only [defRow]
    rw [getD_map_range d c hc, dispDef_coord]
  · intro rows h
    rw [pairs_nil_of_span_lt rows lag h]
    rfl

theorem wmean_none_iff (c : List (Rat × Rat)) : wmean c = none ↔ c = [] := by
  unfold wmean
  constructor
  · intro h
    by_cases hc : c.length = 0
    · exact List.length_eq_zero_iff.mp hc
    · simp [hc] at h
  · intro h
    simp [h]

/-- **NaN exactly when no particle has a pair at the lag** (in range `1 … max_lagtime`) -/
theorem emsd_def_none_iff (t : List PRow) (d : Nat) (hd : 0 < d) (mpp fps : Rat) (maxLag lag : Nat)
    (h1 : 1 ≤ lag) (h2 : lag ≤ maxLag)
    (hnd : ∀ p ∈ particleIds t, NodupFrames (rowsOf t p)) :
    emsdAt (perParticle t d mpp fps maxLag) Out.msd lag = none
      ↔ ∀ p ∈ particleIds t, ∀ a ∈ rowsOf t p, ∀ b ∈ rowsOf t p, b.1 - a.1 ≠ (lag : Int) := by
  rw [emsd_eq_def t d hd mpp fps maxLag lag h1 h2 hnd, wmean_none_iff, List.filterMap_eq_nil_iff]
  apply forall_congr'
  intro p
  apply imp_congr_right
  intro _
  rw [Option.map_eq_none_iff, msdPairs_none_iff, pairs_eq_nil_iff]

/-- **max_lagtime clips the ensemble too**: outside `1 … max_lagtime` no particle has a row, every
column of `emsd` is NaN -/
theorem emsd_out_of_range (t : List PRow) (d : Nat) (mpp fps : Rat) (maxLag lag : Nat)
    (h : lag = 0 ∨ maxLag < lag) (hnd : ∀ p ∈ particleIds t, NodupFrames (rowsOf t p))
    (col : Out → Option Rat) :
    emsdAt (perParticle t d mpp fps maxLag) col lag = none := by
  rw [emsdAt_eq_wmean, contrib_perParticle, wmean_none_iff, List.filterMap_eq_nil_iff]
  intro p hp
  rw [particle_contrib (rowsOf t p) d mpp fps maxLag lag (hnd p hp) col]
  rw [if_neg (by omega)]

/-! ## who the particles are -/

theorem mem_insertSorted (x y : Nat) : ∀ (l : List Nat), y ∈ insertSorted x l ↔ y = x ∨ y ∈ l
  | [] => by simp [insertSorted]
  | z :: zs => by
    unfold insertSorted
    split
    · simp
    · split
      · rename_i hxz
        subst hxz
        simp
      · simp only [List.mem_cons, mem_insertSorted x y zs]
        tauto

theorem insertSorted_sorted (x : Nat) : ∀ (l : List Nat), l.Pairwise (· < ·) →
    (insertSorted x l).Pairwise (· < ·)
  | [], _ => by simp [insertSorted]
  | z :: zs, h => by
    have hz := List.pairwise_cons.mp h
    unfold insertSorted
    split
    · rename_i hxz
      refine List.pairwise_cons.mpr ⟨?_, h⟩
      intro w hw
      rcases List.mem_cons.mp hw with rfl | hw'
      · exact hxz
      · exact Nat.lt_trans hxz (hz.1 w hw')
    · split
      · exact h
      · refine List.pairwise_cons.mpr ⟨?_, insertSorted_sorted x zs hz.2⟩
        intro w hw
        rcases (mem_insertSorted x w zs).mp hw with rfl | hw'
        · omega
        · exact hz.1 w hw'

/-- the particles of `emsd_eq_def` are exactly the values of the `particle` column … -/
theorem mem_particleIds (t : List PRow) (p : Nat) : p ∈ particleIds t ↔ ∃ r ∈ t, r.1 = p := by
  unfold particleIds
  induction t with
  | nil => simp
  | cons r t ih =>
    simp only [List.foldr_cons, mem_insertSorted, ih, List.mem_cons, exists_eq_or_imp]
    constructor
    · rintro (h | h)
      · exact Or.inl h.symm
      · exact Or.inr h
    · rintro (h | h)
      · exact Or.inl h.symm
      · exact Or.inr h

/-- … each counted once (ascending) -/
theorem particleIds_sorted (t : List PRow) : (particleIds t).Pairwise (· < ·) := by
  unfold particleIds
  induction t with
  | nil => simp
  | cons r t ih => exact insertSorted_sorted r.1 _ ih

theorem particleIds_nodup (t : List PRow) : (particleIds t).Nodup :=
  (particleIds_sorted t).imp (fun h => Nat.ne_of_lt h)

/-- the rows of particle `p` are the rows of the table labelled `p` -/
theorem mem_rowsOf (t : List PRow) (p : Nat) (r : FullRow) : r ∈ rowsOf t p ↔ (p, r) ∈ t := by
  unfold rowsOf
  simp only [List.mem_map, List.mem_filter, beq_iff_eq]
  constructor
  · rintro ⟨⟨q, r'⟩, ⟨hm, rfl⟩, rfl⟩
    exact hm
  · intro h
    exact ⟨(p, r), ⟨h, rfl⟩, rfl⟩

/-! ## further clauses of the property -/

/-- **"over all pairs"**: when no row is repeated every pair of observations enters the mean once -/
theorem pairs_nodup (rows : List FullRow) (lag : Nat) (h : rows.Nodup) : (pairs rows lag).Nodup := by
  unfold pairs List.Nodup
  rw [List.pairwise_flatMap]
  constructor
  · intro a _
    rw [List.pairwise_map]
    refine (List.Pairwise.filter _ h).imp ?_
    intro b b' hne hbb
    exact hne (Prod.mk.inj hbb).2
  · refine List.Pairwise.imp ?_ h
    intro a a' hne x hx y hy hxy
    obtain ⟨b, _, rfl⟩ := List.mem_map.mp hx
    obtain ⟨b', _, rfl⟩ := List.mem_map.mp hy
    exact hne (Prod.mk.inj hxy).1

/-- one row per frame implies no repeated row -/
theorem nodup_of_nodupFrames (rows : List FullRow) (h : NodupFrames rows) : rows.Nodup := by
  unfold NodupFrames List.Nodup at *
  rw [List.pairwise_map] at h
  exact h.imp (fun hne hab => hne (congrArg Prod.fst hab))

/-- **max_lagtime / lags present**: `msd` has exactly the lags `1 … min(max_lagtime, max frame −
min frame)`, in this order -/
theorem msd_lags (rows : List FullRow) (d : Nat) (mpp fps : Rat) (maxLag : Nat) (hnd : NodupFrames rows) :
    (msd rows d mpp fps maxLag).map (·.lag)
      = (List.range (min maxLag (span rows))).map (· + 1) := by
  rw [msd_eq_rows rows d mpp fps maxLag hnd, List.map_map]
  rfl

/-- **"imsd reports the same numbers per particle"**, over the definition: the cell (lag, p) of
`imsd` (statistic `msd`) is the all-pairs mean of the summed squared displacement of the rows of
`p`, NaN where `p` has no pair at that lag -/
theorem imsd_eq_def (t : List PRow) (d : Nat) (hd : 0 < d) (mpp fps : Rat) (maxLag lag p : Nat)
    (h1 : 1 ≤ lag) (h2 : lag ≤ maxLag) (hp : p ∈ particleIds t) (hnd : NodupFrames (rowsOf t p)) :
    imsdCell (perParticle t d mpp fps maxLag) Out.msd p lag
      = msdPairs mpp (List.range d) (rowsOf t p) lag := by
  rw [imsd_eq_msd t d mpp fps maxLag Out.msd p lag hp, rowAt_msd _ d mpp fps maxLag lag hnd]
  split
  · exact msdDef_eq_pairMean mpp d hd _ lag
  · rename_i h
    exact ((msdPairs_none_iff _ _ _ _).mpr (pairs_nil_of_span_lt _ lag (by omega))).symm

/-- the `N` column of `emsd(detail=True)`: the weights of all particles whose `msd` has a row at
the lag (whether or not a pair exists there), added up -/
theorem emsdN_eq_def (t : List PRow) (d : Nat) (mpp fps : Rat) (maxLag lag : Nat)
    (hnd : ∀ p ∈ particleIds t, NodupFrames (rowsOf t p)) :
    emsdN (perParticle t d mpp fps maxLag) lag
      = ((particleIds t).filterMap fun p =>
          if 1 ≤ lag ∧ lag ≤ min maxLag (span (rowsOf t p)) then some (weightDef (rowsOf t p) lag)
          else none).sum := by
  unfold emsdN perParticle
  rw [List.filterMap_map]
  congr 1
  apply List.filterMap_congr
  intro p hp
  simp only [Function.comp]
  rw [rowAt_msd _ d mpp fps maxLag lag (hnd p hp)]
  split <;> rfl

/-! ### invariance under a constant shift of all positions -/

/-- every position moved by the same vector `v` (coordinate columns `0 … d-1`) -/
def shiftRows (d : Nat) (v : Nat → Rat) (rows : List FullRow) : List FullRow :=
  rows.map fun r => (r.1, (List.range d).map fun c => r.2.getD c 0 + v c)

theorem diffs_shift (l : List Row) (k : Rat) (lag : Nat) :
    diffs (l.map fun r => (r.1, r.2 + k)) lag = diffs l lag := by
  unfold diffs
  rw [List.flatMap_map]
  congr 1
  funext a
  rw [List.filter_map, List.map_map]
  apply List.map_congr_left
  intro b _
  simp only [Function.comp]
  ring

theorem coord_shift (mpp : Rat) (d c : Nat) (hc : c < d) (v : Nat → Rat) (rows : List FullRow) :
    coord mpp c (shiftRows d v rows) = (coord mpp c rows).map fun r => (r.1, r.2 + v c * mpp) := by
  unfold coord shiftRows
  rw [List.map_map, List.map_map]
  apply List.map_congr_left
  intro r _
  simp only [Function.comp, Prod.mk.injEq, true_and]
  rw [show ((List.range d).map fun c => r.2.getD c 0 + v c).getD c 0 = r.2.getD c 0 + v c by
    simp [List.getD_eq_getElem?_getD, hc]]
  ring

theorem shiftRows_frames (d : Nat) (v : Nat → Rat) (rows : List FullRow) :
    (shiftRows d v rows).map (·.1) = rows.map (·.1) := by
  simp [shiftRows, List.map_map, Function.comp_def]

/-- **displacements only**: moving every position of the trajectory by one constant vector changes
no column of `msd` -/
theorem msd_shift_invariant (rows : List FullRow) (d : Nat) (mpp fps : Rat) (maxLag : Nat)
    (v : Nat → Rat) (hnd : NodupFrames rows) :
    msd (shiftRows d v rows) d mpp fps maxLag = msd rows d mpp fps maxLag := by
  have hfr := shiftRows_frames d v rows
  have hnd' : NodupFrames (shiftRows d v rows) := by unfold NodupFrames; rw [hfr]; exact hnd
  have hspan : span (shiftRows d v rows) = span rows := by unfold span; rw [hfr]
  have hlen : (shiftRows d v rows).length = rows.length := by simp [shiftRows]
  rw [msd_eq_rows _ d mpp fps maxLag hnd', msd_eq_rows _ d mpp fps maxLag hnd, hspan]
  apply List.map_congr_left
  intro i _
  have hdisp : ∀ c ∈ List.range d, dispDef (coord mpp c (shiftRows d v rows)) (i + 1)
      = dispDef (coord mpp c rows) (i + 1) := by
    intro c hc
    unfold dispDef
    rw [coord_shift mpp d c (List.mem_range.mp hc), diffs_shift]
  have hsq : ∀ c ∈ List.range d, sqDef (coord mpp c (shiftRows d v rows)) (i + 1)
      = sqDef (coord mpp c rows) (i + 1) := by
    intro c hc
    unfold sqDef
    rw [coord_shift mpp d c (List.mem_range.mp hc), diffs_shift]
  simp only [defRow, msdDef, weightDef, hspan, hlen, List.map_congr_left hdisp,
    List.map_congr_left hsq]

/-! ### time reversal -/

/-- the trajectory run backwards: frame `f` becomes `F - f` -/
def reverseRows (F : Int) (rows : List FullRow) : List FullRow := rows.map fun r => (F - r.1, r.2)

/-- an `Out` row with the sign of the mean displacements flipped -/
def Out.negDisp (o : Out) : Out := { o with disp := o.disp.map (Option.map fun x => -x) }

theorem sum_filter_map {α} (l : List α) (p : α → Bool) (f : α → Rat) :
    ((l.filter p).map f).sum = (l.map fun x => if p x then f x else 0).sum := by
  induction l with
  | nil => simp
  | cons x xs ih =>
    by_cases h : p x
    · simp [h, ih]
    · simp [h, ih]

theorem diffs_sum_ind (l : List Row) (lag : Nat) (G : Rat → Rat) :
    ((diffs l lag).map G).sum
      = (l.map fun a => (l.map fun b => if b.1 - a.1 == (lag : Int) then G (b.2 - a.2) else 0).sum).sum := by
  unfold diffs
  rw [List.map_flatMap, sum_flatMap]
  congr 1
  apply List.map_congr_left
  intro a _
  rw [List.map_map, sum_filter_map]
  rfl

/-- the displacements of the reversed trajectory are the negated displacements (as a multiset:
stated for every sum over them) -/
theorem diffs_reverse_sum (l : List Row) (F : Int) (lag : Nat) (G : Rat → Rat) :
    ((diffs (l.map fun r => (F - r.1, r.2)) lag).map G).sum
      = ((diffs l lag).map fun x => G (-x)).sum := by
  rw [diffs_sum_ind, diffs_sum_ind, List.map_map]
  rw [sum_sum_comm l l (fun a b => if b.1 - a.1 == (lag : Int) then G (-(b.2 - a.2)) else 0)]
  apply congrArg
  apply List.map_congr_left
  intro x _
  simp only [Function.comp, List.map_map]
  apply congrArg
  apply List.map_congr_left
  intro y _
  simp only [Function.comp]
  have h1 : F - y.1 - (F - x.1) = x.1 - y.1 := by omega
  have h2 : y.2 - x.2 = -(x.2 - y.2) := by ring
  rw [h1, h2]

theorem diffs_reverse_length (l : List Row) (F : Int) (lag : Nat) :
    (diffs (l.map fun r => (F - r.1, r.2)) lag).length = (diffs l lag).length :=
  length_eq_of_sums (diffs_reverse_sum l F lag fun _ => 1)

theorem sqDef_reverse (l : List Row) (F : Int) (lag : Nat) :
    sqDef (l.map fun r => (F - r.1, r.2)) lag = sqDef l lag := by
  unfold sqDef
  apply meanOpt_congr (by simpa using diffs_reverse_length l F lag)
  rw [diffs_reverse_sum l F lag sq]
  apply congrArg
  apply List.map_congr_left
  intro x _
  simp only [sq]; ring

theorem sum_map_neg (l : List Rat) : (l.map fun x => -x).sum = -l.sum := by
  induction l with
  | nil => simp
  | cons x xs ih => simp only [List.map_cons, List.sum_cons, ih]; ring

theorem dispDef_reverse (l : List Row) (F : Int) (lag : Nat) :
    dispDef (l.map fun r => (F - r.1, r.2)) lag = (dispDef l lag).map fun x => -x := by
  have hs := diffs_reverse_sum l F lag id
  simp only [List.map_id, id] at hs
  rw [sum_map_neg] at hs
  unfold dispDef meanOpt
  rw [diffs_reverse_length, hs]
  by_cases h : (diffs l lag).length = 0
  · simp [h]
  · simp only [h, if_false, Option.map_some]
    congr 1; ring

theorem span_attained (rows : List FullRow) (h : rows ≠ []) :
    ∃ a ∈ rows, ∃ b ∈ rows, b.1 - a.1 = (span rows : Int) := by
  unfold span
  cases rows with
  | nil => exact absurd rfl h
  | cons r rs =>
    simp only [List.map_cons]
    obtain ⟨h1, _, h3⟩ := foldl_max_spec (rs.map (·.1)) r.1
    obtain ⟨g1, _, g3⟩ := foldl_min_spec (rs.map (·.1)) r.1
    have frame_of : ∀ v : Int, v ∈ r.1 :: rs.map (·.1) → ∃ x ∈ r :: rs, x.1 = v := by
      intro v hv
      rcases List.mem_cons.mp hv with rfl | hv'
      · exact ⟨r, List.mem_cons_self .., rfl⟩
      · obtain ⟨x, hx, rfl⟩ := List.mem_map.mp hv'
        exact ⟨x, List.mem_cons_of_mem _ hx, rfl⟩
    obtain ⟨b, hb, hbv⟩ := frame_of _ h3
    obtain ⟨a, ha, hav⟩ := frame_of _ g3
    refine ⟨a, ha, b, hb, ?_⟩
    omega

/-- `span` is THE maximal frame distance -/
theorem span_unique (rows : List FullRow) (s : Nat)
    (hub : ∀ a ∈ rows, ∀ b ∈ rows, b.1 - a.1 ≤ (s : Int))
    (hat : ∃ a ∈ rows, ∃ b ∈ rows, b.1 - a.1 = (s : Int)) : span rows = s := by
  obtain ⟨a, ha, b, hb, hab⟩ := hat
  have hne : rows ≠ [] := by intro h; rw [h] at ha; simp at ha
  obtain ⟨a', ha', b', hb', hab'⟩ := span_attained rows hne
  have l1 := diff_le_span rows a ha b hb
  have l2 := hub a' ha' b' hb'
  omega

theorem span_reverse (F : Int) (rows : List FullRow) : span (reverseRows F rows) = span rows := by
  by_cases hne : rows = []
  · subst hne; rfl
  · apply span_unique
    · intro a ha b hb
      obtain ⟨a0, ha0, rfl⟩ := List.mem_map.mp ha
      obtain ⟨b0, hb0, rfl⟩ := List.mem_map.mp hb
      have := diff_le_span rows b0 hb0 a0 ha0
      simp only
      omega
    · obtain ⟨a, ha, b, hb, hab⟩ := span_attained rows hne
      refine ⟨(F - b.1, b.2), List.mem_map.mpr ⟨b, hb, rfl⟩, (F - a.1, a.2),
        List.mem_map.mpr ⟨a, ha, rfl⟩, ?_⟩
      simp only
      omega

theorem coord_reverse (mpp : Rat) (c : Nat) (F : Int) (rows : List FullRow) :
    coord mpp c (reverseRows F rows) = (coord mpp c rows).map fun r => (F - r.1, r.2) := by
  simp [coord, reverseRows, List.map_map, Function.comp_def]

/-- **the statistic is symmetric under time reversal**: running the trajectory backwards
(`f ↦ F − f`) leaves the lags, `lagt`, every `<c^2>`, `msd` and `N` unchanged and flips the sign of the
mean displacements `<c>` -/
theorem msd_time_reversal (rows : List FullRow) (d : Nat) (mpp fps : Rat) (maxLag : Nat) (F : Int)
    (hnd : NodupFrames rows) :
    msd (reverseRows F rows) d mpp fps maxLag = (msd rows d mpp fps maxLag).map Out.negDisp := by
  have hnd' : NodupFrames (reverseRows F rows) := by
    unfold NodupFrames List.Nodup reverseRows at *
    rw [List.map_map, List.pairwise_map]
    rw [List.pairwise_map] at hnd
    refine hnd.imp ?_
    intro a b hne hab
    simp only [Function.comp] at hab
    exact hne (by omega)
  have hlen : (reverseRows F rows).length = rows.length := by simp [reverseRows]
  rw [msd_eq_rows _ d mpp fps maxLag hnd', msd_eq_rows _ d mpp fps maxLag hnd, span_reverse,
    List.map_map]
  apply List.map_congr_left
  intro i _
  simp only [Function.comp, defRow, Out.negDisp, msdDef, weightDef, span_reverse, hlen,
    coord_reverse, sqDef_reverse, dispDef_reverse, List.map_map]
  rfl

/-! ### row order of a multi-particle table -/

theorem rowsOf_perm {t t' : List PRow} (h : t.Perm t') (p : Nat) : (rowsOf t p).Perm (rowsOf t' p) :=
  (h.filter _).map _

theorem particleIds_perm {t t' : List PRow} (h : t.Perm t') : particleIds t = particleIds t' := by
  apply List.Perm.eq_of_pairwise (le := fun a b : Nat => a < b) _
    (particleIds_sorted t) (particleIds_sorted t')
  · rw [List.perm_ext_iff_of_nodup (particleIds_nodup t) (particleIds_nodup t')]
    intro p
    rw [mem_particleIds, mem_particleIds]
    constructor
    · rintro ⟨r, hr, rfl⟩; exact ⟨r, h.mem_iff.mp hr, rfl⟩
    · rintro ⟨r, hr, rfl⟩; exact ⟨r, h.mem_iff.mpr hr, rfl⟩
  · intro a b _ _ h1 h2
    omega

/-- **"does not depend on the order of the input rows"**, for the ensemble functions: permuting the
rows of a multi-particle table changes nothing in the per-particle tables, hence in no `imsd` cell
and no `emsd` column (`imsdCell`, `emsdAt`, `emsdN` are functions of `perParticle`) -/
theorem perParticle_order_indep (t t' : List PRow) (d : Nat) (mpp fps : Rat) (maxLag : Nat)
    (h : t.Perm t') (hnd : ∀ p ∈ particleIds t, NodupFrames (rowsOf t p)) :
    perParticle t d mpp fps maxLag = perParticle t' d mpp fps maxLag := by
  unfold perParticle
  rw [← particleIds_perm h]
  apply List.map_congr_left
  intro p hp
  rw [msd_order_indep (rowsOf t p) (rowsOf t' p) d mpp fps maxLag (rowsOf_perm h p) (hnd p hp)]

/-! ## non-vacuity -/

/-- one trajectory, 2 coordinates, frame 2 missing: lag 1 has the pairs 0→1, 3→4; lag 3 the pairs
0→3, 1→4; lag 5 none -/
def exRows : List FullRow := [(3, [1, 2]), (0, [0, 0]), (4, [3, 1]), (1, [1, 0])]

/-- two particles (the second: frames 5, 6 only), 2 coordinates, rows interleaved -/
def exTable : List PRow :=
  [(1, 3, [1, 2]), (2, 5, [0, 1]), (1, 0, [0, 0]), (1, 4, [3, 1]), (2, 6, [2, 4]), (1, 1, [1, 0])]

/-- `msdDef_eq_pairMean` / `msdDef_none_iff` on `exRows`: a lag with two pairs (values 1 and 5,
mean 3, in microns² with mpp = 1/2: 3/4), and a lag without any pair where BOTH forms are NaN -/
example : pairs exRows 1 = [((3, [1, 2]), (4, [3, 1])), ((0, [0, 0]), (1, [1, 0]))] ∧
    msdPairs (1 / 2) (List.range 2) exRows 1 = some (3 / 4) ∧
    msdDef (1 / 2) 2 exRows 1 = some (3 / 4) ∧
    msdPairs (1 / 2) (List.range 2) exRows 5 = none ∧ msdDef (1 / 2) 2 exRows 5 = none := by
  have h1 : pairs exRows 1 = [((3, [1, 2]), (4, [3, 1])), ((0, [0, 0]), (1, [1, 0]))] := by decide
  have h5 : pairs exRows 5 = [] := by decide
  have hr : List.range 2 = [0, 1] := by decide
  have v1 : msdPairs (1 / 2) (List.range 2) exRows 1 = some (3 / 4) := by
    simp [msdPairs, h1, hr, sqDisp, dispOf, sq, meanOpt]; norm_num
  have v5 : msdPairs (1 / 2) (List.range 2) exRows 5 = none := by
    simp [msdPairs, h5, meanOpt]
  refine ⟨h1, v1, ?_, v5, ?_⟩
  · rw [msdDef_eq_pairMean _ _ (by decide), v1]
  · rw [msdDef_eq_pairMean _ _ (by decide), v5]

/-- the hypotheses of `emsd_eq_def` hold on `exTable` … -/
example : particleIds exTable = [1, 2] ∧ ∀ p ∈ particleIds exTable, NodupFrames (rowsOf exTable p) := by
  refine ⟨by decide, ?_⟩
  unfold NodupFrames
  decide

/-- … and its right-hand side is a genuine weighted mean there: at lag 1 both particles contribute
(values 3 and 13, weights `_msd_N(5,1)·4/5 = 16/5` and `_msd_N(2,1) = 1`), at lag 3 only the
first (the second has no pair 3 frames apart), at lag 5 none -/
example :
    emsdAt (perParticle exTable 2 1 1 10) Out.msd 1 = some ((16 / 5 * 3 + 1 * 13) / (16 / 5 + 1)) ∧
    emsdAt (perParticle exTable 2 1 1 10) Out.msd 3 = some 5 ∧
    emsdAt (perParticle exTable 2 1 1 10) Out.msd 5 = none := by
  have hnd : ∀ p ∈ particleIds exTable, NodupFrames (rowsOf exTable p) := by
    unfold NodupFrames
    decide
  rw [emsd_eq_def exTable 2 (by decide) 1 1 10 1 (by decide) (by decide) hnd,
    emsd_eq_def exTable 2 (by decide) 1 1 10 3 (by decide) (by decide) hnd,
    emsd_eq_def exTable 2 (by decide) 1 1 10 5 (by decide) (by decide) hnd]
  have hids : particleIds exTable = [1, 2] := by decide
  have hr1 : rowsOf exTable 1 = exRows := by decide
  have hr2 : rowsOf exTable 2 = [(5, [0, 1]), (6, [2, 4])] := by decide
  have hs1 : span exRows = 4 := by decide
  have hs2 : span [(5, [0, 1]), (6, [2, 4])] = 1 := by decide
  have hl1 : exRows.length = 4 := rfl
  have hr : List.range 2 = [0, 1] := by decide
  have p11 : pairs exRows 1 = [((3, [1, 2]), (4, [3, 1])), ((0, [0, 0]), (1, [1, 0]))] := by decide
  have p13 : pairs exRows 3 = [((0, [0, 0]), (3, [1, 2])), ((1, [1, 0]), (4, [3, 1]))] := by decide
  have p15 : pairs exRows 5 = [] := by decide
  have p21 : pairs [(5, [0, 1]), (6, [2, 4])] 1 = [((5, [0, 1]), (6, [2, 4]))] := by decide
  have p23 : pairs [(5, [0, 1]), (6, [2, 4])] 3 = [] := by decide
  have p25 : pairs [(5, [0, 1]), (6, [2, 4])] 5 = [] := by decide
  simp [hids, hr1, hr2, hs1, hs2, hl1, hr, p11, p13, p15, p21, p23, p25, msdPairs, weightDef, msdN,
    wmean, sqDisp, dispOf, sq, meanOpt]
  norm_num

/-- `msd_shift_invariant`, `msd_time_reversal`, `pairs_nodup`: `exRows` has one row per frame, and
the shifted / reversed tables are different tables -/
example : NodupFrames exRows ∧
    reverseRows 4 exRows = [(1, [1, 2]), (4, [0, 0]), (0, [3, 1]), (3, [1, 0])] ∧
    shiftRows 2 (fun c => (c : Rat) + 1) exRows
      = [(3, [2, 4]), (0, [1, 2]), (4, [4, 3]), (1, [2, 2])] := by
  refine ⟨by unfold NodupFrames; decide, by decide, ?_⟩
  have hr : List.range 2 = [0, 1] := by decide
  simp [shiftRows, exRows, hr]
  norm_num

/-- `perParticle_order_indep`: a genuinely different row order of `exTable` -/
example : exTable.Perm exTable.reverse ∧ exTable.reverse ≠ exTable :=
  ⟨(List.reverse_perm _).symm, by decide⟩

end TrackpyV.MSD
